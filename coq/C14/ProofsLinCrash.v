(* C14 — linearizability of executions WITH crashes in which no client re-sends a request.

   Simulation by the linearizing monitor of ProofsHist.v on top of the crash invariant InvA /\ InvB w:
   - a Get is linearized when the live leader runs handlePrimary (all live replicas then hold the leader's store);
   - a Put is linearized at the first step after which EVERY live replica holds it (the step of the last backup
     that applies it, the crash of the last replica that did not have it, the adoption by a new leader ...), and never
     if it is lost with the replicas that had it;
   - the abstract store is the store of the live replicas that are still at the previous version (Fold w) until
     then, and Fnew w afterwards.
   A client whose primary crashed waits forever (it does not re-send): its operation stays pending, linearized or not. *)
From Coq Require Import List Arith Bool String Lia.
From PGV Require Import C14.Model C14.Proofs C14.ProofsCrashA C14.ProofsCrashB C14.ProofsCrashC C14.ProofsHist.
Import ListNotations.
Open Scope list_scope.
Open Scope nat_scope.

Definition fromc (c : node) (l : list msg) : list msg := filter (fun m => Nat.eqb (m_from m) c) l.
Definition reqmsgR (c R : node) (cm : cmsg) (idx : nat) : msg := mkMsg c R (cm_body cm) CLIENT_SRC (cm_typ cm) idx.
Definition after_lin (pc : rpc) : Prop :=
  match pc with SndReplicaReqLoop | RcvReplicaRespLoop | SndResp => True | _ => False end.
Definition putof (cm : cmsg) (k : key) (v : value) : Prop := cm_typ cm = PUT_REQ /\ cm_body cm = BReq k (Some v).
Definition upd_kv (st : kvstore) (k : key) (v : value) : kvstore := fun k' => if String.eqb k' k then v else st k'.

Lemma fromc_app : forall c l1 l2, fromc c (l1 ++ l2) = fromc c l1 ++ fromc c l2.
Proof. intros. unfold fromc. apply filter_app. Qed.

Lemma fromc_nil_in : forall c l m, fromc c l = [] -> In m l -> m_from m <> c.
Proof.
  intros c l m H Hin E. assert (X : In m (fromc c l)).
  { unfold fromc. apply filter_In. split; [exact Hin | apply Nat.eqb_eq; exact E]. }
  rewrite H in X. destruct X.
Qed.

Section LC.
Variable cfg : config.

Notation isrep := (isrep cfg).
Notation alive := (alive cfg).
Notation ldr := (ldr cfg).
Notation InvA := (InvA cfg).
Notation InvB := (InvB cfg).
Notation isnew := (isnew).
Notation inrepl := (inrepl).

(* the live leader is busy with a request of client c *)
Definition servingC (s : state) (c : node) : Prop :=
  alive s (ldr s) /\ serving (pcr s (ldr s)) /\ exists m, r_req (rl s (ldr s)) = Some m /\ m_from m = c.
(* client c has nothing in flight *)
Definition gone (s : state) (c : node) : Prop :=
  queue (net s c RESP) = [] /\ (alive s (ldr s) -> fromc c (queue (net s (ldr s) REQ)) = [] /\ ~ servingC s c).

Definition allnew (w : wit) (s : state) : Prop := (exists r, alive s r) /\ forall r, alive s r -> isnew w s r.
Definition someold (w : wit) (s : state) : Prop := exists r, alive s r /\ isold w s r.

Definition respmatch (cm : cmsg) (rb : body) (rt : mtyp) (v : value) : Prop :=
  (cm_typ cm = PUT_REQ /\ rb = ACK_MSG_BODY /\ rt = PUT_RESP /\ v = "ack-body"%string) \/
  (cm_typ cm = GET_REQ /\ rb = BContent v /\ rt = GET_RESP).

(* where the request / response of client c is, and what the monitor thinks of c *)
Definition cinvC (w : wit) (s : state) (mo : mon) (c : node) : Prop :=
  let l := cl s c in
  let q := ldr s in
  match c_pc l with
  | ClientLoop => gone s c /\ mo_st mo c = CIdle
  | SndReq => gone s c /\ exists cm, c_msg l = Some cm /\ mo_st mo c = CInvoked cm
  | RcvResp => exists cm, c_msg l = Some cm /\
      ((* Q: in the queue of the (possibly just crashed) leader it was sent to *)
       (c_replica l = q /\ fromc c (queue (net s q REQ)) = [reqmsgR c q cm (c_idx l)] /\ ~ servingC s c /\
        queue (net s c RESP) = [] /\ mo_st mo c = CInvoked cm) \/
       (* H: taken by the leader, not yet applied *)
       (c_replica l = q /\ alive s q /\ pcr s q = HandlePrimary /\ r_req (rl s q) = Some (reqmsgR c q cm (c_idx l)) /\
        fromc c (queue (net s q REQ)) = [] /\ queue (net s c RESP) = [] /\ mo_st mo c = CInvoked cm) \/
       (* S: applied by the leader, answer not yet sent *)
       (c_replica l = q /\ alive s q /\ after_lin (pcr s q) /\ r_req (rl s q) = Some (reqmsgR c q cm (c_idx l)) /\
        fromc c (queue (net s q REQ)) = [] /\ queue (net s c RESP) = [] /\
        exists rb rt, r_respBody (rl s q) = Some rb /\ r_respTyp (rl s q) = Some rt /\
          ((cm_typ cm = GET_REQ /\ pcr s q = SndResp /\ exists v, rb = BContent v /\ rt = GET_RESP /\ mo_st mo c = CLinearized cm v) \/
           (exists k v, putof cm k v /\ rb = ACK_MSG_BODY /\ rt = PUT_RESP /\
              r_lastPutBody (rl s q) = BPut (Mx w) (Some (k, v)) /\
              ((someold w s /\ mo_st mo c = CInvoked cm) \/
               (allnew w s /\ mo_st mo c = CLinearized cm "ack-body"%string))))) \/
       (* R: answer on its way *)
       ((alive s q -> fromc c (queue (net s q REQ)) = [] /\ ~ servingC s c) /\
        exists v rb rt, queue (net s c RESP) = [mkMsg (c_replica l) c rb PRIMARY_SRC rt (c_idx l)] /\
                        mo_st mo c = CLinearized cm v /\ respmatch cm rb rt v) \/
       (* X: the replica that had the request crashed: the client waits forever *)
       (gone s c /\ (mo_st mo c = CInvoked cm \/ exists v, mo_st mo c = CLinearized cm v)))
  | CDone => gone s c
  end.

Definition orphan (w : wit) (s : state) (mo : mon) (c : node) : Prop :=
  is_client cfg c = true /\ c_pc (cl s c) = RcvResp /\ gone s c /\
  exists cm k v, c_msg (cl s c) = Some cm /\ putof cm k v /\ cM w = Some (k, v) /\ mo_st mo c = CInvoked cm.

Record RelC (w : wit) (s : state) (mo : mon) : Prop := {
  rc_new : allnew w s -> forall k, mo_store mo k = Fnew w k;
  rc_old : someold w s -> forall k, mo_store mo k = Fold w k;
  rc_orph : ~ (alive s (ldr s) /\ inrepl s (ldr s)) -> someold w s -> exists c, orphan w s mo c;
  rc_cl : forall c, is_client cfg c = true -> cinvC w s mo c;
  rc_nc : forall c, is_client cfg c = false -> mo_st mo c = CIdle;
  rc_q : alive s (ldr s) -> forall m, In m (queue (net s (ldr s) REQ)) -> m_src m = CLIENT_SRC -> is_client cfg (m_from m) = true;
  rc_req : alive s (ldr s) -> serving (pcr s (ldr s)) ->
           exists m, r_req (rl s (ldr s)) = Some m /\ is_client cfg (m_from m) = true }.

Definition SimC (s : state) : Prop :=
  InvA s /\ exists w t mo, InvB w s /\ mon_run mon_init t = Some mo /\ proj t = hist s /\ RelC w s mo.

(* ------------------------------------------------------------------ basic facts *)
Lemma client_not_rep : forall c, is_client cfg c = true -> ~ isrep c.
Proof. intros c H. apply is_client_true in H. unfold ProofsCrashA.isrep. lia. Qed.

Lemma isnew_not_old : forall w s r, isnew w s r -> isold w s r -> False.
Proof. intros w s r H1 H2. pose proof (isnew_K w s r H1). destruct (isold_K w s r H2). lia. Qed.

Lemma allnew_someold : forall w s, allnew w s -> someold w s -> False.
Proof. intros w s [_ H] (r & Ar & Ho). exact (isnew_not_old w s r (H r Ar) Ho). Qed.

(* every live replica at the leader's version *)
Lemma alive_dec : forall s r, {alive s r} + {~ alive s r}.
Proof.
  intros s r. unfold ProofsCrashA.alive, ProofsCrashA.isrep.
  destruct (le_dec 1 r); [|right; intros [H _]; lia].
  destruct (le_dec r (NR cfg)); [|right; intros [H _]; lia].
  destruct (pc_alive (pcr s r)) eqn:E; [left; auto | right; intros [_ H]; unfold pcr in *; congruence].
Qed.

Lemma new_or_old_upto : forall w s n,
  (forall r, r <= n -> alive s r -> K s r = Mx w) \/ (exists r, alive s r /\ K s r <> Mx w).
Proof.
  intros w s n. induction n as [|n IH].
  - left. intros r Hr [[H _] _]. lia.
  - destruct IH as [IH|IH]; [|right; exact IH].
    destruct (alive_dec s (S n)) as [A|A].
    + destruct (Nat.eq_dec (K s (S n)) (Mx w)) as [E|E]; [|right; exists (S n); auto].
      left. intros r Hr Ar. destruct (Nat.eq_dec r (S n)) as [->|N]; [exact E | apply IH; [lia | exact Ar]].
    + left. intros r Hr Ar. destruct (Nat.eq_dec r (S n)) as [->|N]; [contradiction | apply IH; [lia | exact Ar]].
Qed.

Lemma new_or_old : forall w s, versions_ok cfg w s ->
  (forall r, alive s r -> isnew w s r) \/ someold w s.
Proof.
  intros w s V. destruct (new_or_old_upto w s (NR cfg)) as [H|(r & Ar & Hr)].
  - left. intros r Ar. apply (K_Mx_isnew cfg w s r V Ar). apply H; [apply Ar | exact Ar].
  - right. exists r. split; [exact Ar|]. apply (K_lt_isold cfg w s r V Ar).
    destruct (K_le_Mx cfg w s r V Ar). lia.
Qed.

(* ------------------------------------------------------------------ a quiet leader: every live replica is at its version *)
Lemma quiet_stable : forall w s, InvA s -> InvB w s -> alive s (ldr s) ->
  (pcr s (ldr s) = HandlePrimary \/ pcr s (ldr s) = SndResp) ->
  forall r, alive s r -> K s r = K s (ldr s).
Proof.
  intros w s IA [V P Ph] Ap Hpc r Ar.
  destruct (Nat.eq_dec r (ldr s)) as [->|Hne]; [reflexivity|].
  destruct (a_loc cfg s IA _ Ap) as (_ & _ & L3 & _).
  destruct L3 as (m & _ & _ & Hss & Hqc); [unfold pcr in Hpc; destruct Hpc as [H|H]; rewrite H; exact Logic.I|].
  assert (HfP : filter is_p (queue (net s (ldr s) REQ)) = []) by (apply (Forall_creq_filter_p cfg); exact Hqc).
  assert (Hn1 : pcr s (ldr s) <> HandleBackup) by (destruct Hpc as [H|H]; rewrite H; discriminate).
  assert (Hpq : pend s (ldr s) = []) by (rewrite pend_not_hb by exact Hn1; exact HfP).
  assert (N1 : ~ insync s (ldr s)) by (unfold insync; destruct Hpc as [H|H]; rewrite H; intuition discriminate).
  assert (N2 : ~ inrepl s (ldr s)) by (unfold ProofsCrashB.inrepl; destruct Hpc as [H|H]; rewrite H; intuition discriminate).
  assert (N3 : ~ owed s (ldr s)).
  { unfold owed, owedP. rewrite HfP, Hss. intros [H|[H|H]]; [apply H; reflexivity | destruct Hpc as [H'|H']; rewrite H' in H; discriminate | discriminate]. }
  assert (G : K s (ldr s) <= K s r).
  { destruct (le_lt_dec (K s (ldr s)) (K s r)) as [H|H]; [exact H|]. exfalso.
    destruct (ph_main cfg w s Ph Ap N2 r Ar Hne H) as [X|(X & _)]; contradiction. }
  destruct (Nat.eq_dec (K s r) (K s (ldr s))) as [E|N]; [exact E|]. exfalso.
  destruct (K_le_Mx cfg w s r V Ar) as [R1 R2]. destruct (K_le_Mx cfg w s _ V Ap) as [Q1 Q2].
  assert (Er : K s r = Mx w) by lia.
  destruct (alive_ge_ldr cfg s r IA Ar) as [_ Hge].
  assert (Hk : knows w s (ldr s)).
  { apply (p_order cfg w s P (ldr s) r Ap Ar); [lia | left; exact Er]. }
  destruct Hk as [Hk|(m0 & Hm0 & _)]; [lia | rewrite Hpq in Hm0; destruct Hm0].
Qed.

(* ------------------------------------------------------------------ steps of replicas that are invisible to the clients *)
Definition same_serving (l l' : rlocal) : Prop :=
  (serving (r_pc l') <-> serving (r_pc l)) /\ (r_pc l' = HandlePrimary <-> r_pc l = HandlePrimary) /\
  (after_lin (r_pc l') <-> after_lin (r_pc l)) /\ (r_pc l = SndResp -> r_pc l' = SndResp) /\
  (serving (r_pc l) -> r_req l' = r_req l /\ r_respBody l' = r_respBody l /\ r_respTyp l' = r_respTyp l /\
                       r_lastPutBody l' = r_lastPutBody l).

Definition fresh (s' : state) : Prop :=
  alive s' (ldr s') -> ~ serving (pcr s' (ldr s')) /\ forall m, In m (queue (net s' (ldr s') REQ)) -> m_src m <> CLIENT_SRC.

Record Internal (s s' : state) : Prop := {
  i_cl : cl s' = cl s;
  i_hist : hist s' = hist s;
  i_cresp : forall c, is_client cfg c = true -> queue (net s' c RESP) = queue (net s c RESP);
  i_alive : forall r, alive s' r -> alive s r;
  i_K : forall r, K s r <= K s' r;
  i_ldr : (ldr s' = ldr s /\
           (forall c, ~ isrep c -> fromc c (queue (net s' (ldr s) REQ)) = fromc c (queue (net s (ldr s) REQ))) /\
           (alive s' (ldr s) -> same_serving (rl s (ldr s)) (rl s' (ldr s))))
          \/ (ldr s' <> ldr s /\ fresh s') }.

Lemma someold_back : forall w s s', InvB w s -> Internal s s' -> someold w s' -> someold w s.
Proof.
  intros w s s' [V _ _] I (r & Ar & Ho). exists r. pose proof (i_alive s s' I r Ar) as Ar0. split; [exact Ar0|].
  apply (K_lt_isold cfg w s r V Ar0). destruct (isold_K w s' r Ho). pose proof (i_K s s' I r). lia.
Qed.

Lemma allnew_fwd : forall w s s', InvB w s' -> Internal s s' -> allnew w s -> (exists r, alive s' r) -> allnew w s'.
Proof.
  intros w s s' [V _ _] I [_ H] Hex. split; [exact Hex|]. intros r Ar.
  pose proof (H r (i_alive s s' I r Ar)) as Hn. apply (K_Mx_isnew cfg w s' r V Ar).
  pose proof (isnew_K w s r Hn). pose proof (i_K s s' I r). destruct (K_le_Mx cfg w s' r V Ar). lia.
Qed.

(* under a fresh leader no client has anything in flight *)
Lemma fresh_gone : forall s' c, InvA s' -> fresh s' -> is_client cfg c = true -> alive s' (ldr s') ->
  fromc c (queue (net s' (ldr s') REQ)) = [] /\ ~ servingC s' c.
Proof.
  intros s' c IA F Hc Aq. destruct (F Aq) as [F1 F2]. split.
  - unfold fromc. destruct (filter _ _) as [|m l] eqn:E; [reflexivity|]. exfalso.
    assert (Hin : In m (filter (fun m => m_from m =? c) (queue (net s' (ldr s') REQ)))) by (rewrite E; left; reflexivity).
    apply filter_In in Hin. destruct Hin as [Hin Hf]. apply Nat.eqb_eq in Hf.
    destruct (a_q cfg s' IA _ Aq) as ((P & C & Eq & HP & HC & _) & _).
    rewrite Eq in Hin. apply in_app_or in Hin. destruct Hin as [Hin|Hin].
    + rewrite Forall_forall in HP. destruct (HP m Hin) as (_ & _ & _ & Hle & _).
      apply is_client_true in Hc. destruct Aq as [[_ Hq] _]. lia.
    + rewrite Forall_forall in HC. destruct (HC m Hin) as (Hsrc & _). apply (F2 m); [rewrite Eq; apply in_or_app; right; exact Hin | exact Hsrc].
  - intros (_ & Hs & _). contradiction.
Qed.

(* what a step may change, as seen from client c *)
Record Frame (s s' : state) (c : node) : Prop := {
  f_cl : cl s' c = cl s c;
  f_resp : queue (net s' c RESP) = queue (net s c RESP);
  f_ldr : (ldr s' = ldr s /\ (alive s' (ldr s) -> alive s (ldr s)) /\
           fromc c (queue (net s' (ldr s) REQ)) = fromc c (queue (net s (ldr s) REQ)) /\
           (servingC s' c -> servingC s c) /\
           (servingC s c -> alive s' (ldr s) -> same_serving (rl s (ldr s)) (rl s' (ldr s))))
          \/ (ldr s' <> ldr s /\ fresh s') }.

Lemma internal_frame : forall s s' c, Internal s s' -> is_client cfg c = true -> Frame s s' c.
Proof.
  intros s s' c I Hc. constructor.
  - rewrite (i_cl s s' I). reflexivity.
  - apply (i_cresp s s' I c Hc).
  - destruct (i_ldr s s' I) as [(E & Hq & Hsv)|(N & F)]; [left | right; auto].
    split; [exact E|]. split; [apply (i_alive s s' I)|]. split; [apply Hq; apply client_not_rep; exact Hc|]. split.
    + intros (A1 & A2 & m & A3 & A4). rewrite E in *. destruct (Hsv A1) as (V1 & _ & _ & _ & V5).
      split; [apply (i_alive s s' I); exact A1|]. unfold pcr in *. split; [apply V1; exact A2|].
      exists m. destruct (V5 (proj1 V1 A2)) as (W1 & _). rewrite <- W1. auto.
    + intros _ Aq. apply Hsv. exact Aq.
Qed.

Lemma gone_keepF : forall s s' c, InvA s' -> Frame s s' c -> is_client cfg c = true -> gone s c -> gone s' c.
Proof.
  intros s s' c IA F Hc [G1 G2]. split; [rewrite (f_resp s s' c F); exact G1|].
  intros Aq. destruct (f_ldr s s' c F) as [(E & Hal & Hq & Hsc & Hsv)|(N & Fr)].
  - rewrite E in *. destruct (G2 (Hal Aq)) as [G3 G4]. split; [rewrite Hq; exact G3|].
    intros SC. apply G4. apply Hsc. exact SC.
  - apply fresh_gone; auto.
Qed.

Lemma gone_keep : forall s s' c, InvA s' -> Internal s s' -> is_client cfg c = true -> gone s c -> gone s' c.
Proof. intros s s' c IA I Hc. apply gone_keepF; auto. apply internal_frame; auto. Qed.

Lemma cinvC_keepF : forall w s s' mo mo' c, InvA s' -> Frame s s' c -> is_client cfg c = true ->
  mo_st mo' c = mo_st mo c ->
  (someold w s -> servingC s c -> after_lin (pcr s (ldr s)) -> K s (ldr s) = Mx w -> alive s' (ldr s') -> someold w s') ->
  (allnew w s -> servingC s c -> alive s' (ldr s') -> allnew w s') ->
  cinvC w s mo c -> cinvC w s' mo' c.
Proof.
  intros w s s' mo mo' c IA F Hc Hmo HPa HPb H.
  assert (GK : gone s c -> gone s' c) by (apply gone_keepF; auto).
  unfold cinvC in *. rewrite (f_cl s s' c F), Hmo. destruct (c_pc (cl s c)).
  - destruct H as [G M]. auto.
  - destruct H as [G M]. auto.
  - destruct H as (cm & Ecm & H). exists cm. split; [exact Ecm|].
    destruct (f_ldr s s' c F) as [(E & Hal & Hq & Hsc & Hsv)|(N & Fr)].
    + (* same leader *)
      rewrite E in *.
      destruct H as [(Q1 & Q2 & Q3 & Q4 & Q5)|[(H1 & H2 & H3 & H4 & H5 & H6 & H7)|[(S1 & S2 & S3 & S4 & S5 & S6 & S7)|[(R1 & R2)|(X1 & X2)]]]].
      * left. split; [exact Q1|]. split; [rewrite Hq; exact Q2|]. split; [intros SC; apply Q3; apply Hsc; exact SC|].
        split; [rewrite (f_resp s s' c F); exact Q4 | exact Q5].
      * assert (SC : servingC s c).
        { split; [exact H2|]. split; [rewrite H3; exact Logic.I|]. eexists. split; [exact H4 | reflexivity]. }
        destruct (alive_dec s' (ldr s)) as [Aq|Nq].
        { right; left. destruct (Hsv SC Aq) as (V1 & V2 & _ & _ & V5). unfold pcr in *.
          split; [exact H1|]. split; [exact Aq|]. split; [apply V2; exact H3|].
          destruct V5 as (W1 & _); [rewrite H3; exact Logic.I|].
          split; [rewrite W1; exact H4|]. split; [rewrite Hq; exact H5|].
          split; [rewrite (f_resp s s' c F); exact H6 | exact H7]. }
        { right; right; right; right. split; [|left; exact H7].
          split; [rewrite (f_resp s s' c F); exact H6|]. intros Aq. rewrite E in Aq. contradiction. }
      * assert (Hsrv : serving (pcr s (ldr s))) by (destruct (pcr s (ldr s)); cbn in *; auto).
        assert (SC : servingC s c).
        { split; [exact S2|]. split; [exact Hsrv|]. eexists. split; [exact S4 | reflexivity]. }
        destruct (alive_dec s' (ldr s)) as [Aq|Nq].
        { right; right; left. destruct (Hsv SC Aq) as (V1 & V2 & V3 & V4 & V5). unfold pcr in *.
          destruct (V5 Hsrv) as (W1 & W2 & W3 & W4).
          split; [exact S1|]. split; [exact Aq|]. split; [apply V3; exact S3|].
          split; [rewrite W1; exact S4|]. split; [rewrite Hq; exact S5|].
          split; [rewrite (f_resp s s' c F); exact S6|].
          destruct S7 as (rb & rt & B1 & B2 & B3). exists rb, rt. rewrite W2, W3. split; [exact B1|]. split; [exact B2|].
          destruct B3 as [(G1 & G2 & G3)|(k & v & P1 & P2 & P3 & P4 & P5)].
          - left. split; [exact G1|]. split; [apply V4; exact G2 | exact G3].
          - right. exists k, v. split; [exact P1|]. split; [exact P2|]. split; [exact P3|]. split; [rewrite W4; exact P4|].
            destruct P5 as [(O1 & O2)|(N1 & N2)]; [left; split; [apply HPa; auto; unfold K; rewrite P4; reflexivity | exact O2] | right; split; [apply HPb; auto | exact N2]]. }
        { right; right; right; right. split.
          - split; [rewrite (f_resp s s' c F); exact S6|]. intros Aq. rewrite E in Aq. contradiction.
          - destruct S7 as (rb & rt & _ & _ & [(_ & _ & v & _ & _ & G)|(k & v & _ & _ & _ & _ & [(_ & G)|(_ & G)])]); eauto. }
      * right; right; right; left. split.
        { intros Aq. destruct (R1 (Hal Aq)) as [G3 G4]. split; [rewrite Hq; exact G3|].
          intros SC. apply G4. apply Hsc. exact SC. }
        { rewrite (f_resp s s' c F). exact R2. }
      * right; right; right; right. split; [apply GK; exact X1 | exact X2].
    + (* a new leader: whatever was at the old one is lost *)
      assert (FG : forall Hr : queue (net s c RESP) = [], gone s' c).
      { intros Hr. split; [rewrite (f_resp s s' c F); exact Hr|]. intros Aq. apply fresh_gone; auto. }
      destruct H as [(Q1 & Q2 & Q3 & Q4 & Q5)|[(H1 & H2 & H3 & H4 & H5 & H6 & H7)|[(S1 & S2 & S3 & S4 & S5 & S6 & S7)|[(R1 & R2)|(X1 & X2)]]]].
      * right; right; right; right. split; [apply FG; exact Q4 | left; exact Q5].
      * right; right; right; right. split; [apply FG; exact H6 | left; exact H7].
      * right; right; right; right. split; [apply FG; exact S6|].
        destruct S7 as (rb & rt & _ & _ & [(_ & _ & v & _ & _ & G)|(k & v & _ & _ & _ & _ & [(_ & G)|(_ & G)])]); eauto.
      * right; right; right; left. split; [intros Aq; apply fresh_gone; auto|]. rewrite (f_resp s s' c F). exact R2.
      * right; right; right; right. split; [apply GK; exact X1 | exact X2].
  - apply GK. exact H.
Qed.

Lemma cinvC_keep : forall w s s' mo mo' c, InvA s' -> Internal s s' -> is_client cfg c = true ->
  mo_st mo' c = mo_st mo c ->
  (someold w s -> servingC s c -> after_lin (pcr s (ldr s)) -> K s (ldr s) = Mx w -> alive s' (ldr s') -> someold w s') ->
  (allnew w s -> servingC s c -> alive s' (ldr s') -> allnew w s') ->
  cinvC w s mo c -> cinvC w s' mo' c.
Proof. intros w s s' mo mo' c IA I Hc. apply cinvC_keepF; auto. apply internal_frame; auto. Qed.

Lemma cinvC_X_keep : forall w s s' mo' c cm, InvA s' -> Internal s s' -> is_client cfg c = true ->
  c_pc (cl s c) = RcvResp -> c_msg (cl s c) = Some cm -> gone s c ->
  (mo_st mo' c = CInvoked cm \/ exists v, mo_st mo' c = CLinearized cm v) -> cinvC w s' mo' c.
Proof.
  intros w s s' mo' c cm IA I Hc Epc Ecm G Hst. unfold cinvC. rewrite (i_cl s s' I), Epc.
  exists cm. split; [exact Ecm|]. right; right; right; right. split; [apply (gone_keep s s'); auto | exact Hst].
Qed.

(* the served client's Put is linearized by this step *)
Lemma cinvC_S_commit : forall w s s' mo' c cm k v, InvA s' -> Internal s s' -> is_client cfg c = true ->
  c_pc (cl s c) = RcvResp -> c_msg (cl s c) = Some cm -> putof cm k v ->
  c_replica (cl s c) = ldr s -> alive s (ldr s) -> after_lin (pcr s (ldr s)) ->
  r_req (rl s (ldr s)) = Some (reqmsgR c (ldr s) cm (c_idx (cl s c))) ->
  fromc c (queue (net s (ldr s) REQ)) = [] -> queue (net s c RESP) = [] ->
  r_respBody (rl s (ldr s)) = Some ACK_MSG_BODY -> r_respTyp (rl s (ldr s)) = Some PUT_RESP ->
  r_lastPutBody (rl s (ldr s)) = BPut (Mx w) (Some (k, v)) ->
  allnew w s' -> mo_st mo' c = CLinearized cm "ack-body"%string -> cinvC w s' mo' c.
Proof.
  intros w s s' mo' c cm k v IA I Hc Epc Ecm Hput S1 S2 S3 S4 S5 S6 B1 B2 P4 AN Hst.
  assert (NR : ~ isrep c) by (apply client_not_rep; exact Hc).
  assert (GX : (alive s' (ldr s') -> ldr s' = ldr s -> False) -> gone s' c).
  { intros Hx. split; [rewrite (i_cresp s s' I c Hc); exact S6|]. intros Aq.
    destruct (i_ldr s s' I) as [(E & _)|(N & F)]; [exfalso; apply Hx; auto | apply fresh_gone; auto]. }
  unfold cinvC. rewrite (i_cl s s' I), Epc. exists cm. split; [exact Ecm|].
  destruct (i_ldr s s' I) as [(E & Hq & Hsv)|(N & F)].
  - rewrite E in *. destruct (alive_dec s' (ldr s)) as [Aq|Nq].
    + right; right; left. destruct (Hsv Aq) as (V1 & V2 & V3 & V4 & V5). unfold pcr in *.
      assert (Hsrv : serving (r_pc (rl s (ldr s)))) by (destruct (r_pc (rl s (ldr s))); cbn in *; auto).
      destruct (V5 Hsrv) as (W1 & W2 & W3 & W4).
      split; [exact S1|]. split; [exact Aq|]. split; [apply V3; exact S3|].
      split; [rewrite W1; exact S4|]. split; [rewrite Hq by exact NR; exact S5|].
      split; [rewrite (i_cresp s s' I c Hc); exact S6|].
      exists ACK_MSG_BODY, PUT_RESP. rewrite W2, W3. split; [exact B1|]. split; [exact B2|].
      right. exists k, v. split; [exact Hput|]. split; [reflexivity|]. split; [reflexivity|]. split; [rewrite W4; exact P4|].
      right. auto.
    + right; right; right; right. split; [apply GX; intros Aq _; contradiction | right; eauto].
  - right; right; right; right. split; [apply GX; intros _ Ee; contradiction | right; eauto].
Qed.

Lemma ex_alive_upto : forall s n, (exists r, alive s r) \/ (forall r, r <= n -> ~ alive s r).
Proof.
  intros s n. induction n as [|n IH].
  - right. intros r Hr [[H _] _]. lia.
  - destruct IH as [IH|IH]; [left; exact IH|]. destruct (alive_dec s (S n)) as [A|A]; [left; eauto|].
    right. intros r Hr. destruct (Nat.eq_dec r (S n)) as [->|N]; [exact A | apply IH; lia].
Qed.

Lemma ex_alive_dec : forall s, (exists r, alive s r) \/ (forall r, ~ alive s r).
Proof.
  intros s. destruct (ex_alive_upto s (NR cfg)) as [H|H]; [left; exact H|].
  right. intros r Ar. apply (H r); [apply Ar | exact Ar].
Qed.

Lemma inrepl_dec : forall s q, {inrepl s q} + {~ inrepl s q}.
Proof.
  intros s q. unfold ProofsCrashB.inrepl. destruct (pcr s q); try (left; auto; fail); right; intros [H|H]; discriminate H.
Qed.

(* the client the live leader is replicating a Put for *)
Lemma served_put : forall w s mo, InvA s -> InvB w s -> RelC w s mo -> alive s (ldr s) -> inrepl s (ldr s) ->
  exists c cm k v, is_client cfg c = true /\ c_pc (cl s c) = RcvResp /\ c_msg (cl s c) = Some cm /\ putof cm k v /\
    c_replica (cl s c) = ldr s /\ r_req (rl s (ldr s)) = Some (reqmsgR c (ldr s) cm (c_idx (cl s c))) /\
    fromc c (queue (net s (ldr s) REQ)) = [] /\ queue (net s c RESP) = [] /\
    r_respBody (rl s (ldr s)) = Some ACK_MSG_BODY /\ r_respTyp (rl s (ldr s)) = Some PUT_RESP /\
    r_lastPutBody (rl s (ldr s)) = BPut (Mx w) (Some (k, v)) /\ cM w = Some (k, v) /\
    ((someold w s /\ mo_st mo c = CInvoked cm) \/ (allnew w s /\ mo_st mo c = CLinearized cm "ack-body"%string)).
Proof.
  intros w s mo IA IB R Aq Hin.
  assert (Hsrv : serving (pcr s (ldr s))) by (destruct Hin as [H|H]; rewrite H; exact Logic.I).
  destruct (rc_req w s mo R Aq Hsrv) as (m & Em & Hc).
  assert (SC : servingC s (m_from m)) by (split; [exact Aq|]; split; [exact Hsrv|]; eauto).
  pose proof (rc_cl w s mo R _ Hc) as H. unfold cinvC in H.
  assert (NG : gone s (m_from m) -> False) by (intros [_ G]; destruct (G Aq) as [_ G2]; contradiction).
  destruct (c_pc (cl s (m_from m))) eqn:Epc.
  - destruct H as [G _]. destruct (NG G).
  - destruct H as [G _]. destruct (NG G).
  - destruct H as (cm & Ecm & [(_ & _ & Q3 & _)|[(_ & _ & H3 & _)|[(S1 & S2 & S3 & S4 & S5 & S6 & S7)|[(R1 & _)|(X1 & _)]]]]).
    + contradiction.
    + exfalso. destruct Hin as [H|H]; rewrite H in H3; discriminate.
    + destruct S7 as (rb & rt & B1 & B2 & [(_ & G2 & _)|(k & v & P1 & P2 & P3 & P4 & P5)]).
      * exfalso. destruct Hin as [H|H]; rewrite H in G2; discriminate.
      * exists (m_from m), cm, k, v. subst rb rt.
        destruct (ph_repl cfg w s (b_ph cfg w s IB) Aq Hin) as ([Hl _] & _).
        assert (HcM : cM w = Some (k, v)) by (rewrite P4 in Hl; inversion Hl; reflexivity).
        repeat (split; [assumption|]). exact P5.
    + destruct (R1 Aq) as [_ N]. contradiction.
    + destruct (NG X1).
  - destruct (NG H).
Qed.

Lemma relC_q_keep : forall w s s' mo, InvA s' -> Internal s s' -> RelC w s mo -> alive s' (ldr s') ->
  forall m, In m (queue (net s' (ldr s') REQ)) -> m_src m = CLIENT_SRC -> is_client cfg (m_from m) = true.
Proof.
  intros w s s' mo IA I R Aq m Hin Hsrc.
  destruct (i_ldr s s' I) as [(E & Hq & _)|(N & F)].
  - rewrite E in *. pose proof (i_alive s s' I _ Aq) as Aq0.
    destruct (a_q cfg s' IA _ Aq) as ((P & C & Eq & HP & HC & _) & _). rewrite E in *.
    assert (Hcr : creq cfg m).
    { rewrite Eq in Hin. apply in_app_or in Hin. destruct Hin as [Hin|Hin].
      - rewrite Forall_forall in HP. destruct (HP m Hin) as (Hs & _). congruence.
      - rewrite Forall_forall in HC. apply HC. exact Hin. }
    destruct Hcr as (_ & Hfrom & _).
    assert (NRm : ~ isrep (m_from m)) by (unfold ProofsCrashA.isrep; lia).
    assert (X : In m (fromc (m_from m) (queue (net s' (ldr s) REQ)))).
    { unfold fromc. apply filter_In. split; [exact Hin | apply Nat.eqb_refl]. }
    rewrite (Hq _ NRm) in X. unfold fromc in X. apply filter_In in X. destruct X as [X _].
    apply (rc_q w s mo R Aq0 m X Hsrc).
  - destruct (F Aq) as [_ F2]. exfalso. exact (F2 m Hin Hsrc).
Qed.

Lemma relC_req_keep : forall w s s' mo, Internal s s' -> RelC w s mo -> alive s' (ldr s') -> serving (pcr s' (ldr s')) ->
  exists m, r_req (rl s' (ldr s')) = Some m /\ is_client cfg (m_from m) = true.
Proof.
  intros w s s' mo I R Aq Hsrv.
  destruct (i_ldr s s' I) as [(E & _ & Hsv)|(N & F)].
  - rewrite E in *. destruct (Hsv Aq) as (V1 & _ & _ & _ & V5). unfold pcr in *.
    pose proof (proj1 V1 Hsrv) as Hs0. destruct (V5 Hs0) as (W1 & _). rewrite W1.
    apply (rc_req w s mo R (i_alive s s' I _ Aq) Hs0).
  - destruct (F Aq) as [F1 _]. contradiction.
Qed.

Lemma relC_internal : forall w s s' t mo, InvA s -> InvB w s -> InvA s' -> InvB w s' -> Internal s s' ->
  mon_run mon_init t = Some mo -> proj t = hist s -> RelC w s mo ->
  exists t' mo', mon_run mon_init t' = Some mo' /\ proj t' = hist s' /\ RelC w s' mo'.
Proof.
  intros w s s' t mo IA IB IA' IB' I Hrun Hproj R.
  pose proof (b_ver cfg w s IB) as V. pose proof (b_ver cfg w s' IB') as V'.
  assert (Hproj' : proj t = hist s') by (rewrite (i_hist s s' I); exact Hproj).
  (* the monitor does not move *)
  assert (Same : (allnew w s' -> allnew w s) -> (someold w s' -> someold w s) ->
                 (forall c, is_client cfg c = true -> someold w s -> servingC s c -> after_lin (pcr s (ldr s)) ->
                            K s (ldr s) = Mx w -> alive s' (ldr s') -> someold w s') ->
                 (~ (alive s' (ldr s') /\ inrepl s' (ldr s')) -> someold w s' -> exists c, orphan w s' mo c) ->
                 exists t' mo', mon_run mon_init t' = Some mo' /\ proj t' = hist s' /\ RelC w s' mo').
  { intros HN HO HPa HOr. exists t, mo. split; [exact Hrun|]. split; [exact Hproj'|]. constructor.
    - intros AN. apply (rc_new w s mo R). apply HN. exact AN.
    - intros SO. apply (rc_old w s mo R). apply HO. exact SO.
    - exact HOr.
    - intros c Hc. apply (cinvC_keep w s s' mo mo c IA' I Hc eq_refl); [apply HPa; exact Hc | | apply (rc_cl w s mo R c Hc)].
      intros AN _ Aq. apply (allnew_fwd w s s' IB' I AN). eauto.
    - apply (rc_nc w s mo R).
    - apply (relC_q_keep w s s' mo IA' I R).
    - apply (relC_req_keep w s s' mo I R). }
  (* an orphan of s' when some live replica is still behind *)
  assert (Orph : someold w s -> ~ (alive s' (ldr s') /\ inrepl s' (ldr s')) -> someold w s' -> exists c, orphan w s' mo c).
  { intros SO N' SO'.
    destruct (alive_dec s (ldr s)) as [Aq|Nq]; [destruct (inrepl_dec s (ldr s)) as [Hin|Nin]|].
    - (* the leader was replicating: it has crashed, its client is the orphan *)
      destruct (served_put w s mo IA IB R Aq Hin) as (c & cm & k & v & Hc & Epc & Ecm & Hput & S1 & S4 & S5 & S6 & B1 & B2 & P4 & HcM & P5).
      destruct P5 as [(_ & Hst)|(AN & _)]; [|destruct (allnew_someold w s AN SO)].
      exists c. split; [exact Hc|]. split; [rewrite (i_cl s s' I); exact Epc|]. split.
      + split; [rewrite (i_cresp s s' I c Hc); exact S6|]. intros Aq'.
        destruct (i_ldr s s' I) as [(E & Hq & Hsv)|(N & F)]; [|apply fresh_gone; auto].
        exfalso. rewrite E in *. destruct (Hsv Aq') as (V1 & V2 & V3 & V4 & V5). unfold pcr in *.
        assert (Hal : after_lin (r_pc (rl s (ldr s)))) by (destruct Hin as [H|H]; unfold pcr in H; rewrite H; exact Logic.I).
        assert (Hsrv : serving (r_pc (rl s (ldr s)))) by (destruct (r_pc (rl s (ldr s))); cbn in *; auto).
        destruct (V5 Hsrv) as (_ & _ & _ & W4).
        apply V3 in Hal.
        assert (Hsr : pcr s' (ldr s') = SndResp).
        { rewrite E. unfold pcr. destruct (r_pc (rl s' (ldr s))) eqn:Ep; cbn in Hal; try contradiction; try reflexivity;
            exfalso; apply N'; (split; [exact Aq'|]); unfold ProofsCrashB.inrepl, pcr; rewrite Ep; auto. }
        (* at sndResp every live replica is at the leader's version: nobody is behind *)
        destruct SO' as (r & Ar & Ho).
        assert (Aq'' : alive s' (ldr s')) by (rewrite E; exact Aq').
        pose proof (quiet_stable w s' IA' IB' Aq'' (or_intror Hsr) r Ar) as Hk.
        destruct (isold_K w s' r Ho) as [Hk1 Hk2]. rewrite E in Hk. unfold K in Hk at 2. rewrite W4, P4 in Hk. cbn in Hk. lia.
      + exists cm, k, v. rewrite (i_cl s s' I). auto.
    - destruct (rc_orph w s mo R) as (c & Hc & Epc & G & cm & k & v & Ecm & Hput & HcM & Hst); [tauto | exact SO|].
      exists c. split; [exact Hc|]. split; [rewrite (i_cl s s' I); exact Epc|]. split; [apply (gone_keep s s'); auto|].
      exists cm, k, v. rewrite (i_cl s s' I). auto.
    - destruct (rc_orph w s mo R) as (c & Hc & Epc & G & cm & k & v & Ecm & Hput & HcM & Hst); [tauto | exact SO|].
      exists c. split; [exact Hc|]. split; [rewrite (i_cl s s' I); exact Epc|]. split; [apply (gone_keep s s'); auto|].
      exists cm, k, v. rewrite (i_cl s s' I). auto. }
  destruct (new_or_old w s' V') as [Hall'|SO'].
  2:{ (* somebody is still behind *)
    pose proof (someold_back w s s' IB I SO') as SO.
    apply Same.
    - intros AN'. destruct (allnew_someold w s' AN' SO').
    - intros _. exact SO.
    - intros. exact SO'.
    - intros N' _. apply Orph; assumption. }
  destruct (ex_alive_dec s') as [Hex|Hno].
  2:{ (* no live replica left *)
    apply Same.
    - intros [(r & Ar) _]. destruct (Hno r Ar).
    - intros (r & Ar & _). destruct (Hno r Ar).
    - intros c _ _ _ _ _ Aq. destruct (Hno _ Aq).
    - intros _ (r & Ar & _). destruct (Hno r Ar). }
  assert (AN' : allnew w s') by (split; assumption).
  destruct (new_or_old w s V) as [Hall|SO].
  { (* already linearized *)
    assert (AN : allnew w s).
    { split; [|exact Hall]. destruct Hex as (r & Ar). exists r. apply (i_alive s s' I). exact Ar. }
    apply Same.
    - intros _. exact AN.
    - intros SO'. destruct (allnew_someold w s' AN' SO').
    - intros c _ SO. destruct (allnew_someold w s AN SO).
    - intros _ SO'. destruct (allnew_someold w s' AN' SO'). }
  (* this step makes the latest Put stable: its linearization point *)
  assert (Own : exists c cm k v, is_client cfg c = true /\ c_pc (cl s c) = RcvResp /\ c_msg (cl s c) = Some cm /\ putof cm k v /\
                  cM w = Some (k, v) /\ mo_st mo c = CInvoked cm /\ cinvC w s' (mkMon (upd_kv (mo_store mo) k v) (upd_st (mo_st mo) c (CLinearized cm "ack-body"%string))) c /\
                  (forall c', servingC s c' -> inrepl s (ldr s) -> c' = c)).
  { destruct (alive_dec s (ldr s)) as [Aq|Nq]; [destruct (inrepl_dec s (ldr s)) as [Hin|Nin]|].
    - destruct (served_put w s mo IA IB R Aq Hin) as (c & cm & k & v & Hc & Epc & Ecm & Hput & S1 & S4 & S5 & S6 & B1 & B2 & P4 & HcM & P5).
      destruct P5 as [(_ & Hst)|(AN & _)]; [|destruct (allnew_someold w s AN SO)].
      exists c, cm, k, v. repeat (split; [assumption|]). split.
      + apply (cinvC_S_commit w s s' _ c cm k v); auto.
        * destruct Hin as [H|H]; rewrite H; exact Logic.I.
        * cbn. apply upd_st_same.
      + intros c' (_ & _ & m & Em & Ef) _. rewrite S4 in Em. inversion Em; subst m. cbn in Ef. auto.
    - destruct (rc_orph w s mo R) as (c & Hc & Epc & G & cm & k & v & Ecm & Hput & HcM & Hst); [tauto | exact SO|].
      exists c, cm, k, v. repeat (split; [assumption|]). split.
      + apply (cinvC_X_keep w s s' _ c cm); auto. right. eexists. cbn. apply upd_st_same.
      + intros c' _ Hin. contradiction.
    - destruct (rc_orph w s mo R) as (c & Hc & Epc & G & cm & k & v & Ecm & Hput & HcM & Hst); [tauto | exact SO|].
      exists c, cm, k, v. repeat (split; [assumption|]). split.
      + apply (cinvC_X_keep w s s' _ c cm); auto. right. eexists. cbn. apply upd_st_same.
      + intros c' (Aq & _) _. contradiction. }
  destruct Own as (c & cm & k & v & Hc & Epc & Ecm & Hput & HcM & Hst & Hcc & Huniq).
  exists (t ++ [ILin c]), (mkMon (upd_kv (mo_store mo) k v) (upd_st (mo_st mo) c (CLinearized cm "ack-body"%string))).
  split.
  { rewrite mon_run_app, Hrun. cbn. rewrite Hst. destruct Hput as [T B]. unfold kv_apply. rewrite T, B. reflexivity. }
  split.
  { rewrite proj_app. cbn. rewrite app_nil_r. exact Hproj'. }
  constructor.
  - intros _ k0. cbn. unfold upd_kv, Fnew. rewrite HcM. cbn. rewrite (rc_old w s mo R SO). reflexivity.
  - intros SO'. destruct (allnew_someold w s' AN' SO').
  - intros _ SO'. destruct (allnew_someold w s' AN' SO').
  - intros c' Hc'. destruct (Nat.eq_dec c' c) as [->|Hne]; [exact Hcc|].
    apply (cinvC_keep w s s' mo _ c' IA' I Hc'); [cbn; apply upd_st_other; exact Hne | | | apply (rc_cl w s mo R c' Hc')].
    + (* another served client still waiting for its Put to become stable: impossible *)
      intros _ SC Hal HK Aq'. exfalso.
      destruct SC as (Aq & Hsrv & m & Em & Ef).
      destruct (inrepl_dec s (ldr s)) as [Hin|Nin].
      * apply Hne. apply Huniq; [|exact Hin]. split; [exact Aq|]. split; [exact Hsrv|]. eauto.
      * assert (Hsr : pcr s (ldr s) = SndResp).
        { destruct (pcr s (ldr s)) eqn:Ep; cbn in Hal; try contradiction; try reflexivity;
            exfalso; apply Nin; unfold ProofsCrashB.inrepl; rewrite Ep; auto. }
        destruct SO as (r & Ar & Ho). pose proof (quiet_stable w s IA IB Aq (or_intror Hsr) r Ar) as Hk.
        destruct (isold_K w s r Ho). lia.
    + intros AN. destruct (allnew_someold w s AN SO).
  - intros c' Hc'. cbn. rewrite upd_st_other; [apply (rc_nc w s mo R c' Hc')|]. intros ->. congruence.
  - apply (relC_q_keep w s s' mo IA' I R).
  - apply (relC_req_keep w s s' mo I R).
Qed.

(* ------------------------------------------------------------------ building Internal *)
Lemma same_serving_refl : forall l, same_serving l l.
Proof. intros l. unfold same_serving. tauto. Qed.

Lemma same_serving_nonserving : forall l l', ~ serving (r_pc l) -> ~ serving (r_pc l') -> same_serving l l'.
Proof.
  intros l l' H1 H2. unfold same_serving.
  split; [tauto|]. split; [split; intros E; rewrite E in *; cbn in *; tauto|].
  split; [split; intros E; [destruct (r_pc l'); cbn in *; tauto | destruct (r_pc l); cbn in *; tauto]|].
  split; [intros E; rewrite E in H1; cbn in H1; tauto | tauto].
Qed.

Lemma same_serving_repl : forall l l', after_lin (r_pc l) -> after_lin (r_pc l') -> (r_pc l = SndResp -> r_pc l' = SndResp) ->
  r_req l' = r_req l -> r_respBody l' = r_respBody l -> r_respTyp l' = r_respTyp l -> r_lastPutBody l' = r_lastPutBody l ->
  same_serving l l'.
Proof.
  intros l l' H1 H2 H3 E1 E2 E3 E4. unfold same_serving.
  split; [destruct (r_pc l), (r_pc l'); cbn in *; tauto|].
  split; [split; intros E; rewrite E in *; cbn in *; tauto|].
  split; [tauto|]. split; [exact H3 | auto].
Qed.

Lemma internal_build : forall s s' p, InvA s -> isrep p ->
  cl s' = cl s -> hist s' = hist s ->
  (forall c, is_client cfg c = true -> queue (net s' c RESP) = queue (net s c RESP)) ->
  (forall r, r <> p -> rl s' r = rl s r) ->
  (pc_alive (pcr s' p) = true -> pc_alive (pcr s p) = true) ->
  K s p <= K s' p ->
  (forall r, prim s' r = prim s r) ->
  (forall c, ~ isrep c -> fromc c (queue (net s' (ldr s) REQ)) = fromc c (queue (net s (ldr s) REQ))) ->
  (p = ldr s -> alive s' p -> same_serving (rl s p) (rl s' p)) ->
  Internal s s'.
Proof.
  intros s s' p IA Hp Hcl Hh Hcr Hrl Hal HK Hpr Hq Hsv. constructor; auto.
  - intros r [Hr Ha]. split; [exact Hr|]. destruct (Nat.eq_dec r p) as [->|N]; [apply Hal; exact Ha|].
    unfold pcr in *. rewrite <- (Hrl r N). exact Ha.
  - intros r. destruct (Nat.eq_dec r p) as [->|N]; [exact HK|]. unfold K. rewrite (Hrl r N). lia.
  - left. split; [apply ldr_prim_ext; exact Hpr|]. split; [exact Hq|]. intros Aq.
    destruct (Nat.eq_dec p (ldr s)) as [E|N]; [rewrite <- E in *; apply Hsv; auto|].
    rewrite (Hrl (ldr s)) by congruence. apply same_serving_refl.
Qed.

Lemma disable_rl : forall s p, rl (disable s p) = rl s. Proof. reflexivity. Qed.
Lemma disable_cl : forall s p, cl (disable s p) = cl s. Proof. reflexivity. Qed.
Lemma disable_hist : forall s p, hist (disable s p) = hist s. Proof. reflexivity. Qed.
Lemma disable_prim : forall s p, prim (disable s p) = prim s. Proof. reflexivity. Qed.
Lemma disable_fsv : forall s p, fsv (disable s p) = fsv s. Proof. reflexivity. Qed.

(* a step that ends with mayFail *)
Lemma internal_mf : forall s s1 p l next ch s', InvA s -> isrep p ->
  may_fail cfg ch s1 p l next = Ok s' ->
  cl s1 = cl s -> hist s1 = hist s ->
  (forall c, is_client cfg c = true -> queue (net s1 c RESP) = queue (net s c RESP)) ->
  rl s1 = rl s -> (forall r, prim s1 r = prim s r) ->
  (pc_alive next = true -> pc_alive (pcr s p) = true) -> K s p <= Kv (r_lastPutBody l) ->
  (forall c, ~ isrep c -> fromc c (queue (net s1 (ldr s) REQ)) = fromc c (queue (net s (ldr s) REQ))) ->
  (p = ldr s -> same_serving (rl s p) (r_set_pc l next)) ->
  Internal s s'.
Proof.
  intros s s1 p l next ch s' IA Hp Hmf Hcl Hh Hcr Hrl Hpr Hal HK Hq Hsv.
  destruct (may_fail_cases cfg ch s1 p l next s' Hmf) as [->| ->].
  - apply (internal_build s _ p IA Hp); simp_st; auto.
    + intros r N. rewrite updf_other by exact N. rewrite Hrl. reflexivity.
    + unfold pcr. simp_st. rewrite updf_same. simp_st. exact Hal.
    + unfold K. simp_st. rewrite updf_same. simp_st. exact HK.
    + intros E _. rewrite updf_same. apply Hsv. exact E.
  - apply (internal_build s _ p IA Hp); simp_st; rewrite ?disable_rl, ?disable_cl, ?disable_hist, ?disable_prim; auto.
    + intros c Hc. rewrite disable_queue. apply Hcr. exact Hc.
    + intros r N. rewrite updf_other by exact N. rewrite Hrl. reflexivity.
    + unfold pcr. simp_st. rewrite updf_same. simp_st. cbn. discriminate.
    + unfold K. simp_st. rewrite disable_rl, updf_same. simp_st. exact HK.
    + intros c Hc. rewrite disable_queue. apply Hq. exact Hc.
    + intros _ [_ Ha]. unfold pcr in Ha. simp_st. rewrite disable_rl, updf_same in Ha. simp_st. cbn in Ha. discriminate.
Qed.

(* ------------------------------------------------------------------ the labels that are invisible to the clients *)
Section LAB.
Variables (s : state) (p : node) (ch : choice) (s' : state).
Hypothesis IA : InvA s.
Hypothesis Ap : alive s p.

Let Hp : isrep p. Proof. apply Ap. Qed.

Lemma p_not_client : forall c, is_client cfg c = true -> c <> p.
Proof. intros c Hc ->. exact (client_not_rep p Hc Hp). Qed.

Lemma internal_local : forall l', pc_alive (r_pc l') = true -> K s p <= Kv (r_lastPutBody l') ->
  (p = ldr s -> same_serving (rl s p) l') -> Internal s (set_rl s p l').
Proof.
  intros l' Ha HK Hsv. apply (internal_build s _ p IA Hp); simp_st; auto.
  - intros r N. apply updf_other. exact N.
  - intros _. apply Ap.
  - unfold K. simp_st. rewrite updf_same. exact HK.
  - intros E _. rewrite updf_same. apply Hsv. exact E.
Qed.

Lemma internal_replicaLoop : pcr s p = ReplicaLoop -> step_replicaLoop cfg ch s p = Ok s' -> Internal s s'.
Proof.
  intros Epc Hs. unfold step_replicaLoop in Hs. unfold pcr in Epc.
  apply (internal_mf s s p _ _ ch s' IA Hp Hs); auto.
  - intros _. apply Ap.
  - intros _. apply same_serving_nonserving; simp_st; rewrite ?Epc; cbn; tauto.
Qed.

Lemma internal_syncPrimary : pcr s p = SyncPrimary -> step_syncPrimary cfg ch s p = Ok s' -> Internal s s'.
Proof.
  intros Epc Hs. unfold step_syncPrimary in Hs. unfold pcr in Epc.
  destruct (_ && _); inversion Hs; subst s'; apply internal_local; simp_st; try reflexivity; unfold K; try lia;
    intros _; apply same_serving_nonserving; simp_st; rewrite ?Epc; cbn; tauto.
Qed.

Lemma internal_sndLoop : forall typ id here after,
  pcr s p = here -> pc_alive after = true ->
  (p = ldr s -> forall l', r_req l' = r_req (rl s p) -> r_respBody l' = r_respBody (rl s p) -> r_respTyp l' = r_respTyp (rl s p) ->
       r_lastPutBody l' = r_lastPutBody (rl s p) -> (r_pc l' = here \/ r_pc l' = after) -> same_serving (rl s p) l') ->
  step_sndLoop cfg ch s p typ id here after = Ok s' -> Internal s s'.
Proof.
  intros typ id here after Epc Hafter Hss Hs. unfold step_sndLoop in Hs.
  assert (Hah : pc_alive here = true) by (rewrite <- Epc; apply Ap).
  destruct (r_idx (rl s p) <=? NR cfg).
  2:{ inversion Hs; subst s'. apply internal_local; simp_st; auto. }
  assert (MF : forall s1, may_fail cfg ch s1 p (r_set_idx (rl s p) (r_idx (rl s p) + 1)) here = Ok s' ->
     cl s1 = cl s -> hist s1 = hist s -> (forall c, is_client cfg c = true -> queue (net s1 c RESP) = queue (net s c RESP)) ->
     rl s1 = rl s -> (forall r, prim s1 r = prim s r) ->
     (forall c, ~ isrep c -> fromc c (queue (net s1 (ldr s) REQ)) = fromc c (queue (net s (ldr s) REQ))) -> Internal s s').
  { intros s1 Hmf H1 H2 H3 H4 H5 H6. apply (internal_mf s s1 p _ _ ch s' IA Hp Hmf); auto;
      try (intros _; apply Ap); try (simp_st; unfold K; lia); try (intros E; apply Hss; simp_st; auto). }
  destruct (negb (Nat.eqb (r_idx (rl s p)) p)).
  2:{ apply (MF s); auto. }
  destruct (negb (ch_alt ch)).
  2:{ destruct (fdv s (r_idx (rl s p))); [|discriminate]. apply (MF s); auto. }
  unfold link_send in Hs. destruct (enabled _); [|discriminate].
  match type of Hs with may_fail _ _ ?s1 _ _ _ = _ => apply (MF s1) end; simp_st; auto.
  - intros c Hc. rewrite upd_net_other by (right; discriminate). reflexivity.
  - intros c Hc. unfold upd_net. destruct (Nat.eqb (ldr s) (r_idx (rl s p)) && chan_eqb REQ REQ) eqn:E; [|reflexivity].
    rewrite andb_true_r in E. apply Nat.eqb_eq in E. rewrite <- E.
    simp_st. rewrite fromc_app. cbn. destruct (Nat.eqb p c) eqn:E2; [|apply app_nil_r].
    apply Nat.eqb_eq in E2. subst c. contradiction.
Qed.

Lemma internal_sndSyncReqLoop : pcr s p = SndSyncReqLoop -> step_sndSyncReqLoop cfg ch s p = Ok s' -> Internal s s'.
Proof.
  intros Epc Hs. unfold step_sndSyncReqLoop in Hs. apply (internal_sndLoop _ _ _ _ Epc) in Hs; auto.
  intros _ l' _ _ _ _ Hl. unfold pcr in Epc. apply same_serving_nonserving; [rewrite Epc; cbn; tauto|].
  destruct Hl as [H|H]; rewrite H; cbn; tauto.
Qed.

Lemma internal_sndReplicaReqLoop : pcr s p = SndReplicaReqLoop -> step_sndReplicaReqLoop cfg ch s p = Ok s' -> Internal s s'.
Proof.
  intros Epc Hs. unfold step_sndReplicaReqLoop in Hs. destruct (r_req (rl s p)); cbn [bindT] in Hs; [|discriminate].
  apply (internal_sndLoop _ _ _ _ Epc) in Hs; auto.
  intros _ l' H1 H2 H3 H4 Hl. unfold pcr in Epc. apply same_serving_repl; auto.
  - rewrite Epc. exact Logic.I.
  - destruct Hl as [H|H]; rewrite H; exact Logic.I.
  - rewrite Epc. discriminate.
Qed.

(* taking a message from one's own response queue *)
Lemma internal_pop_resp : forall q l', pc_alive (r_pc l') = true -> K s p <= Kv (r_lastPutBody l') ->
  (p = ldr s -> same_serving (rl s p) l') ->
  forall f, Internal s (set_rl (set_fs (set_net s (upd_net (net s) p RESP q)) f) p l').
Proof.
  intros q l' Ha HK Hsv f. apply (internal_build s _ p IA Hp); simp_st; auto.
  - intros c Hc. rewrite upd_net_other by (left; apply p_not_client; exact Hc). reflexivity.
  - intros r N. apply updf_other. exact N.
  - intros _. apply Ap.
  - unfold K. simp_st. rewrite updf_same. exact HK.
  - intros c Hc. rewrite upd_net_other by (right; discriminate). reflexivity.
  - intros E _. rewrite updf_same. apply Hsv. exact E.
Qed.

Lemma internal_rcvSyncRespLoop : pcr s p = RcvSyncRespLoop -> step_rcvSyncRespLoop cfg ch s p = Ok s' -> Internal s s'.
Proof.
  intros Epc Hs. unfold step_rcvSyncRespLoop in Hs. unfold pcr in Epc.
  assert (NS : forall l', (r_pc l' = RcvMsg \/ r_pc l' = SndSyncReqLoop \/ r_pc l' = RcvSyncRespLoop) -> same_serving (rl s p) l').
  { intros l' Hl. apply same_serving_nonserving; [rewrite Epc; cbn; tauto|]. destruct Hl as [H|[H|H]]; rewrite H; cbn; tauto. }
  destruct (r_replicaSet (rl s p)) as [|x0 S0].
  { inversion Hs; subst s'. apply internal_local; simp_st; auto; try (unfold K; lia). }
  destruct (negb (ch_alt ch)).
  2:{ destruct (negb _); [discriminate|]. destruct (_ && _); [|discriminate]. inversion Hs; subst s'.
      apply internal_local; simp_st; auto; try (unfold K; lia). }
  unfold link_recv in Hs. destruct (negb (enabled _)); [discriminate|]. destruct (queue (net s p RESP)) as [|m q]; [discriminate|].
  dif Hs; [discriminate|].
  destruct (body_ver (m_body m)) as [rv|] eqn:Erv; cbn [bindT] in Hs; [|discriminate].
  destruct (body_ver (r_lastPutBody (rl s p))) as [lv|] eqn:Elv; cbn [bindT] in Hs; [|discriminate].
  destruct (lv <? rv) eqn:Elt.
  - destruct (body_key (m_body m)) as [k|]; cbn [bindT] in Hs; [|discriminate].
    destruct (body_value (m_body m)) as [v|]; cbn [bindT] in Hs; [|discriminate].
    inversion Hs; subst s'. simp_st.
    match goal with |- Internal s (set_rl (set_fs (set_net s (upd_net (net s) p RESP ?q0)) ?f) p ?l') =>
      apply (internal_pop_resp q0 l') end; simp_st; auto.
    apply Nat.ltb_lt in Elt. unfold K. destruct (m_body m); cbn in *; try discriminate.
    destruct (r_lastPutBody (rl s p)); cbn in *; try discriminate. inversion Erv; inversion Elv; subst. lia.
  - inversion Hs; subst s'.
    match goal with |- Internal s (set_rl (set_net s (upd_net (net s) p RESP ?q0)) p ?l') =>
      change (set_rl (set_net s (upd_net (net s) p RESP q0)) p l') with
             (set_rl (set_fs (set_net s (upd_net (net s) p RESP q0)) (fsv s)) p l');
      apply (internal_pop_resp q0 l') end; simp_st; auto; try (unfold K; lia).
Qed.

Lemma internal_rcvReplicaRespLoop : pcr s p = RcvReplicaRespLoop -> step_rcvReplicaRespLoop cfg ch s p = Ok s' -> Internal s s'.
Proof.
  intros Epc Hs. unfold step_rcvReplicaRespLoop in Hs. unfold pcr in Epc.
  assert (SS : forall l', r_req l' = r_req (rl s p) -> r_respBody l' = r_respBody (rl s p) -> r_respTyp l' = r_respTyp (rl s p) ->
     r_lastPutBody l' = r_lastPutBody (rl s p) -> after_lin (r_pc l') -> same_serving (rl s p) l').
  { intros l' H1 H2 H3 H4 H5. apply same_serving_repl; auto; rewrite Epc; [exact Logic.I | discriminate]. }
  destruct (r_replicaSet (rl s p)) as [|x0 S0].
  { inversion Hs; subst s'. apply internal_local; simp_st; auto; try (unfold K; lia); try (intros _; apply SS; simp_st; auto; exact Logic.I). }
  assert (MF : forall s1 l1, may_fail cfg ch s1 p l1 RcvReplicaRespLoop = Ok s' ->
     cl s1 = cl s -> hist s1 = hist s -> (forall c, is_client cfg c = true -> queue (net s1 c RESP) = queue (net s c RESP)) ->
     rl s1 = rl s -> (forall r, prim s1 r = prim s r) ->
     (forall c, ~ isrep c -> fromc c (queue (net s1 (ldr s) REQ)) = fromc c (queue (net s (ldr s) REQ))) ->
     r_req l1 = r_req (rl s p) -> r_respBody l1 = r_respBody (rl s p) -> r_respTyp l1 = r_respTyp (rl s p) ->
     r_lastPutBody l1 = r_lastPutBody (rl s p) -> Internal s s').
  { intros s1 l1 Hmf H1 H2 H3 H4 H5 H6 E1 E2 E3 E4. apply (internal_mf s s1 p _ _ ch s' IA Hp Hmf); auto;
      try (intros _; apply Ap); try (rewrite E4; unfold K; lia); try (intros _; apply SS; simp_st; auto; exact Logic.I). }
  destruct (negb (ch_alt ch)).
  2:{ destruct (negb _); [discriminate|]. destruct (_ && _); [|discriminate]. apply (MF s _ Hs); auto. }
  unfold link_recv in Hs. destruct (negb (enabled _)); [discriminate|]. destruct (queue (net s p RESP)) as [|m q]; [discriminate|].
  destruct (r_req (rl s p)) as [req|] eqn:Ereq; cbn [bindT] in Hs; [|discriminate].
  dif Hs; [discriminate|].
  apply (MF _ _ Hs); simp_st; auto.
  - intros c Hc. rewrite upd_net_other by (left; apply p_not_client; exact Hc). reflexivity.
  - intros c Hc. rewrite upd_net_other by (right; discriminate). reflexivity.
Qed.

(* rcvMsg, unless the leader takes a client request *)
Lemma internal_rcvMsg : pcr s p = RcvMsg -> step_rcvMsg cfg ch s p = Ok s' -> pcr s' p <> HandlePrimary -> Internal s s'.
Proof.
  intros Epc Hs Hnp. unfold step_rcvMsg in Hs. unfold pcr in Epc.
  assert (NS : forall l', (r_pc l' = SyncPrimary \/ r_pc l' = HandleBackup) -> same_serving (rl s p) l').
  { intros l' Hl. apply same_serving_nonserving; [rewrite Epc; cbn; tauto|]. destruct Hl as [H|H]; rewrite H; cbn; tauto. }
  destruct (_ && _).
  { inversion Hs; subst s'. apply internal_local; simp_st; auto; try (unfold K; lia). }
  unfold link_recv in Hs. destruct (negb (enabled _)); [discriminate|]. destruct (queue (net s p REQ)) as [|m q] eqn:Eq; [discriminate|].
  dif Hs; [discriminate|].
  destruct (_ && _) eqn:Ecl.
  { inversion Hs; subst s'. exfalso. apply Hnp. unfold pcr. simp_st. rewrite updf_same. reflexivity. }
  inversion Hs; subst s'; clear Hs.
  apply (internal_build s _ p IA Hp); simp_st; auto.
  - intros c Hc. rewrite upd_net_other by (right; discriminate). reflexivity.
  - intros r N. apply updf_other. exact N.
  - intros _. apply Ap.
  - unfold K. simp_st. rewrite updf_same. simp_st. lia.
  - intros c Hc. unfold upd_net. destruct (Nat.eqb (ldr s) p && chan_eqb REQ REQ) eqn:El; [|reflexivity].
    rewrite andb_true_r in El. apply Nat.eqb_eq in El. simp_st. rewrite El, Eq. cbn.
    destruct (Nat.eqb (m_from m) c) eqn:E2; [|reflexivity]. exfalso. apply Nat.eqb_eq in E2.
    (* the head of the leader's queue is not a client's: it went to handleBackup *)
    change (leader cfg (set_net s (upd_net (net s) p REQ (mkLink q (enabled (net s p REQ)))))) with (ldr s) in Ecl.
    rewrite El, Nat.eqb_refl in Ecl. cbn in Ecl.
    destruct (a_q cfg s IA p Ap) as ((P & C & EPC & HP & HC & _) & _). rewrite Eq in EPC.
    destruct P as [|m0 P].
    + cbn in EPC. subst C. inversion HC as [|? ? (Hsrc & _) _]; subst. rewrite Hsrc in Ecl. discriminate.
    + cbn in EPC. inversion EPC; subst m0. inversion HP as [|? ? (_ & _ & G1 & G2 & _) _]; subst.
      apply Hc. unfold ProofsCrashA.isrep. destruct Hp. lia.
  - intros _ _. rewrite updf_same. apply NS. right. reflexivity.
Qed.

Lemma internal_hb_finish : forall s0 m l1 rb rt,
  cl s0 = cl s -> hist s0 = hist s -> net s0 = net s -> rl s0 = rl s -> (forall r, prim s0 r = prim s r) ->
  pcr s p = HandleBackup -> pmA p (ldr s) m -> K s p <= Kv (r_lastPutBody l1) ->
  (if negb (ch_alt ch)
   then match link_send s0 (m_from m) RESP (mkMsg p (m_from m) rb BACKUP_SRC rt (m_id m)) with
        | None => Blocked
        | Some s2 => Ok (set_rl s2 p (r_set_pc l1 ReplicaLoop))
        end
   else if fdv s0 (m_from m) then Ok (set_rl s0 p (r_set_pc l1 ReplicaLoop)) else Blocked) = Ok s' ->
  Internal s s'.
Proof.
  intros s0 m l1 rb rt H1 H2 H3 H4 H5 Epc Hpm HK Hs. unfold pcr in Epc.
  assert (NS : same_serving (rl s p) (r_set_pc l1 ReplicaLoop)).
  { apply same_serving_nonserving; simp_st; rewrite ?Epc; cbn; tauto. }
  destruct Hpm as (_ & _ & Hf1 & Hfq & _).
  assert (Hqr : isrep (ldr s)).
  { destruct (alive_ge_ldr cfg s p IA Ap) as [Hn _]. apply (ldr_nonzero cfg s IA Hn). }
  assert (Hx : isrep (m_from m)) by (unfold ProofsCrashA.isrep in *; lia).
  destruct (negb (ch_alt ch)).
  - unfold link_send in Hs. destruct (enabled _); [|discriminate]. inversion Hs; subst s'; clear Hs.
    apply (internal_build s _ p IA Hp); simp_st; auto.
    + intros c Hc. rewrite H3. rewrite upd_net_other; [reflexivity|]. left. intros ->. exact (client_not_rep _ Hc Hx).
    + intros r N. rewrite updf_other by exact N. rewrite H4. reflexivity.
    + intros _. apply Ap.
    + unfold K. simp_st. rewrite updf_same. simp_st. exact HK.
    + intros c Hc. rewrite H3. rewrite upd_net_other by (right; discriminate). reflexivity.
    + intros _ _. rewrite updf_same. exact NS.
  - destruct (fdv s0 (m_from m)); [|discriminate]. inversion Hs; subst s'; clear Hs.
    apply (internal_build s _ p IA Hp); simp_st; auto.
    + intros c Hc. rewrite H3. reflexivity.
    + intros r N. rewrite updf_other by exact N. rewrite H4. reflexivity.
    + intros _. apply Ap.
    + unfold K. simp_st. rewrite updf_same. simp_st. exact HK.
    + intros c Hc. rewrite H3. reflexivity.
    + intros _ _. rewrite updf_same. exact NS.
Qed.

Lemma internal_handleBackup : pcr s p = HandleBackup -> step_handleBackup cfg ch s p = Ok s' -> Internal s s'.
Proof.
  intros Epc Hs.
  destruct (a_loc cfg s IA p Ap) as (L1 & L2 & L3 & L4 & L5 & L6 & L7 & L8).
  destruct (L2 Epc) as (m & Hreq & Hpm).
  unfold step_handleBackup in Hs. rewrite Hreq in Hs. cbn [bindT] in Hs.
  pose proof Hpm as (Hsrc & Htyp & Hf1 & Hfq & Hfp & ver & c & Hb).
  rewrite Hsrc in Hs. cbn [srct_eqb negb] in Hs.
  destruct Htyp as [Ht|Ht]; rewrite Ht, Hb in Hs; cbn [body_key body_value body_ver bindT] in Hs.
  - destruct c as [[k v]|]; cbn [bindT] in Hs; [|discriminate].
    destruct (body_ver (r_lastPutBody (rl s p))) as [lv|] eqn:Elv; cbn [bindT] in Hs; [|discriminate].
    dif Hs; [discriminate|]. cbn [r_respBody r_respTyp r_set_sync r_set_resp r_set_lpb bindT] in Hs.
    eapply (internal_hb_finish (set_fs s (upd_fs (fsv s) p k v))); try exact Hs; try exact Hpm; auto.
    simp_st. apply Nat.ltb_ge in E. unfold K. destruct (r_lastPutBody (rl s p)); cbn in *; try discriminate. inversion Elv; subst. exact E.
  - destruct (body_ver (r_lastPutBody (rl s p))) as [lv|] eqn:Elv; cbn [bindT] in Hs; [|discriminate].
    destruct (lv <? ver) eqn:Elt.
    + destruct c as [[k v]|]; cbn [bindT] in Hs; [|discriminate].
      cbn [r_respBody r_respTyp r_set_sync r_set_resp r_set_lpb r_lastPutBody bindT] in Hs.
      eapply (internal_hb_finish (set_fs s (upd_fs (fsv s) p k v))); try exact Hs; try exact Hpm; auto.
      simp_st. apply Nat.ltb_lt in Elt. unfold K. destruct (r_lastPutBody (rl s p)); cbn in *; try discriminate. inversion Elv; subst. lia.
    + cbn [r_respBody r_respTyp r_set_sync r_set_resp r_set_lpb r_lastPutBody bindT] in Hs.
      eapply (internal_hb_finish s); try exact Hs; try exact Hpm; auto; try (simp_st; unfold K; lia).
Qed.

End LAB.

Lemma internal_failLabel : forall s p ch s', InvA s -> isrep p -> pcr s p = FailLabel ->
  step_failLabel cfg ch s p = Ok s' -> Internal s s'.
Proof.
  intros s p ch s' I Hp Epc Hs. unfold step_failLabel in Hs. inversion Hs; subst s'; clear Hs. unfold pcr in Epc.
  set (s' := set_rl (set_prim (set_fd s (updf (fdv s) p true)) (updf (prim s) p false)) p (r_set_pc (rl s p) RDone)).
  assert (Hrl' : forall r, r <> p -> rl s' r = rl s r) by (intros r Hr; unfold s'; simp_st; apply updf_other; exact Hr).
  assert (Hal : forall r, alive s' r -> alive s r /\ r <> p).
  { intros r [Hr Ha]. destruct (Nat.eq_dec r p) as [->|N].
    - unfold pcr, s' in Ha. simp_st. rewrite updf_same in Ha. discriminate.
    - split; [|exact N]. split; [exact Hr|]. unfold pcr in *. rewrite <- (Hrl' r N). exact Ha. }
  constructor; try reflexivity.
  - intros r Ar. apply Hal. exact Ar.
  - intros r. destruct (Nat.eq_dec r p) as [->|N]; [|unfold K; rewrite (Hrl' r N); lia].
    unfold K, s'. simp_st. rewrite updf_same. simp_st. lia.
  - destruct (Nat.eq_dec (ldr s') (ldr s)) as [E|N].
    + left. split; [exact E|]. split; [reflexivity|]. intros Aq. destruct (Hal _ Aq) as [_ Nq]. rewrite (Hrl' _ Nq). apply same_serving_refl.
    + right. split; [exact N|]. intros Aq. destruct (Hal _ Aq) as [Aq0 Nq].
      assert (Hneq : ldr s' <> ldr s) by exact N.
      destruct (a_loc cfg s I _ Aq0) as (L1 & _). destruct (a_q cfg s I _ Aq0) as ((P & C & EPC & HP & HC & HCq) & _).
      split.
      * unfold pcr. rewrite (Hrl' _ Nq). specialize (L1 Hneq). destruct (r_pc (rl s (ldr s'))); cbn in *; tauto.
      * intros m Hin Hsrc. change (net s') with (net s) in Hin. rewrite EPC in Hin. apply in_app_or in Hin. destruct Hin as [Hin|Hin].
        -- rewrite Forall_forall in HP. destruct (HP m Hin) as (Hs1 & _). congruence.
        -- apply Hneq. apply HCq. intros ->. destruct Hin.
Qed.

(* ------------------------------------------------------------------ all the steps of replicas that are invisible to the clients *)
Lemma simC_internal : forall s p ch s', SimC s -> isrep p -> step_replica cfg ch s p = Ok s' ->
  pcr s p <> HandlePrimary -> pcr s p <> SndResp -> (pcr s p = RcvMsg -> pcr s' p <> HandlePrimary) -> SimC s'.
Proof.
  intros s p ch s' (IA & w & t & mo & IB & Hrun & Hproj & R) Hp Hs N1 N2 N3.
  assert (Hstep : step cfg s (Ev p ch) = Ok s').
  { unfold step. apply (isrep_iff cfg) in Hp. rewrite Hp. exact Hs. }
  assert (IA' : InvA s') by (eapply invA_step; eauto).
  assert (X : InvB w s' /\ Internal s s').
  { unfold step_replica in Hs. unfold pcr in N1, N2.
    destruct (r_pc (rl s p)) eqn:Epc; try congruence;
      try (assert (Ap : alive s p) by (split; [exact Hp | unfold pcr; rewrite Epc; reflexivity])).
    - split; [eapply (invB_replicaLoop cfg w s p ch s'); eauto | eapply internal_replicaLoop; eauto].
    - split; [eapply (invB_syncPrimary cfg w s p ch s'); eauto | eapply internal_syncPrimary; eauto].
    - split; [eapply (invB_sndSyncReqLoop cfg w s p ch s'); eauto | eapply internal_sndSyncReqLoop; eauto].
    - split; [eapply (invB_rcvSyncRespLoop cfg w s p ch s'); eauto | eapply internal_rcvSyncRespLoop; eauto].
    - split; [eapply (invB_rcvMsg cfg w s p ch s'); eauto | eapply internal_rcvMsg; eauto; apply N3; exact Epc].
    - split; [eapply (invB_handleBackup cfg w s p ch s'); eauto | eapply internal_handleBackup; eauto].
    - split; [eapply (invB_sndReplicaReqLoop cfg w s p ch s'); eauto | eapply internal_sndReplicaReqLoop; eauto].
    - split; [eapply (invB_rcvReplicaRespLoop cfg w s p ch s'); eauto | eapply internal_rcvReplicaRespLoop; eauto].
    - split; [eapply (invB_failLabel cfg w s p ch s'); eauto | eapply internal_failLabel; eauto]. }
  destruct X as [IB' I].
  destruct (relC_internal w s s' t mo IA IB IA' IB' I Hrun Hproj R) as (t' & mo' & A & B & C).
  split; [exact IA'|]. exists w, t', mo'. auto.
Qed.

(* ------------------------------------------------------------------ steps that do not touch the replicas' stores *)
Definition same_rep (s s' : state) : Prop :=
  (forall r, alive s' r <-> alive s r) /\ (forall r, r_lastPutBody (rl s' r) = r_lastPutBody (rl s r)) /\
  (forall r k, fsv s' r k = fsv s r k).

Lemma isnew_ext : forall w s s' r, same_rep s s' -> (isnew w s' r <-> isnew w s r).
Proof. intros w s s' r (_ & H2 & H3). unfold ProofsCrashB.isnew. rewrite H2. split; intros [A B]; split; auto; intros k; [rewrite <- H3 | rewrite H3]; apply B. Qed.

Lemma isold_ext : forall w s s' r, same_rep s s' -> (isold w s' r <-> isold w s r).
Proof. intros w s s' r (_ & H2 & H3). unfold isold. rewrite H2. split; intros (A & B & C); repeat split; auto; intros k; [rewrite <- H3 | rewrite H3]; apply C. Qed.

Lemma allnew_ext : forall w s s', same_rep s s' -> (allnew w s' <-> allnew w s).
Proof.
  intros w s s' SR. pose proof SR as (H1 & _). unfold allnew. split; intros [(r & Ar) H]; (split; [exists r; apply H1; exact Ar|]); intros r0 Ar0.
  - apply (isnew_ext w s s' r0 SR). apply H. apply H1. exact Ar0.
  - apply (isnew_ext w s s' r0 SR). apply H. apply H1. exact Ar0.
Qed.

Lemma someold_ext : forall w s s', same_rep s s' -> (someold w s' <-> someold w s).
Proof.
  intros w s s' SR. pose proof SR as (H1 & _). unfold someold. split; intros (r & Ar & Ho); exists r; (split; [apply H1; exact Ar|]);
    apply (isold_ext w s s' r SR); exact Ho.
Qed.

(* a client that is not being served does not depend on the witness *)
Lemma cinvC_w_irrelevant : forall w w' s mo c, ~ servingC s c -> cinvC w s mo c -> cinvC w' s mo c.
Proof.
  intros w w' s mo c NS H. unfold cinvC in *. destruct (c_pc (cl s c)); auto.
  destruct H as (cm & Ecm & H). exists cm. split; [exact Ecm|].
  destruct H as [H|[H|[(S1 & S2 & S3 & S4 & _)|[H|H]]]].
  - left. exact H.
  - right; left. exact H.
  - exfalso. apply NS. split; [exact S2|]. split; [destruct (pcr s (ldr s)); cbn in *; auto|]. eexists. split; [exact S4 | reflexivity].
  - right; right; right; left. exact H.
  - right; right; right; right. exact H.
Qed.

Lemma relC_special : forall w s s' mo mo' c0, InvA s' -> RelC w s mo -> same_rep s s' ->
  is_client cfg c0 = true ->
  (forall c, is_client cfg c = true -> c <> c0 -> Frame s s' c) ->
  (forall k, mo_store mo' k = mo_store mo k) -> (forall c, c <> c0 -> mo_st mo' c = mo_st mo c) ->
  cinvC w s' mo' c0 ->
  (c_pc (cl s c0) = RcvResp -> gone s c0 -> False) ->
  (alive s (ldr s) /\ inrepl s (ldr s) -> alive s' (ldr s') /\ inrepl s' (ldr s')) ->
  (alive s' (ldr s') -> forall m, In m (queue (net s' (ldr s') REQ)) -> m_src m = CLIENT_SRC -> is_client cfg (m_from m) = true) ->
  (alive s' (ldr s') -> serving (pcr s' (ldr s')) -> exists m, r_req (rl s' (ldr s')) = Some m /\ is_client cfg (m_from m) = true) ->
  RelC w s' mo'.
Proof.
  intros w s s' mo mo' c0 IA R SR Hc0 HF Hst Hmo Hcc Hno Hrep Hq Hreq. constructor.
  - intros AN k. rewrite Hst. apply (rc_new w s mo R). apply (allnew_ext w s s' SR). exact AN.
  - intros SO k. rewrite Hst. apply (rc_old w s mo R). apply (someold_ext w s s' SR). exact SO.
  - intros N' SO'. apply (someold_ext w s s' SR) in SO'.
    destruct (rc_orph w s mo R) as (c & Hc & Epc & G & cm & k & v & Ecm & Hput & HcM & Hs); [tauto | exact SO'|].
    assert (Hne : c <> c0) by (intros ->; exact (Hno Epc G)).
    pose proof (HF c Hc Hne) as F. exists c. split; [exact Hc|]. split; [rewrite (f_cl s s' c F); exact Epc|].
    split; [apply (gone_keepF s s' c IA F Hc G)|]. exists cm, k, v. rewrite (f_cl s s' c F), (Hmo c Hne). auto.
  - intros c Hc. destruct (Nat.eq_dec c c0) as [->|Hne]; [exact Hcc|].
    apply (cinvC_keepF w s s' mo mo' c IA (HF c Hc Hne) Hc (Hmo c Hne)); [| | apply (rc_cl w s mo R c Hc)].
    + intros SO _ _ _ _. apply (someold_ext w s s' SR). exact SO.
    + intros AN _ _. apply (allnew_ext w s s' SR). exact AN.
  - intros c Hc. rewrite Hmo; [apply (rc_nc w s mo R c Hc)|]. intros ->. congruence.
  - exact Hq.
  - exact Hreq.
Qed.

(* the state of the client whose request is at the head of the leader's queue *)
Lemma head_client_Q : forall w s mo m rest, RelC w s mo -> alive s (ldr s) -> queue (net s (ldr s) REQ) = m :: rest ->
  m_src m = CLIENT_SRC ->
  let c := m_from m in
  is_client cfg c = true /\ c_pc (cl s c) = RcvResp /\ exists cm, c_msg (cl s c) = Some cm /\
    c_replica (cl s c) = ldr s /\ m = reqmsgR c (ldr s) cm (c_idx (cl s c)) /\ fromc c rest = [] /\
    queue (net s c RESP) = [] /\ mo_st mo c = CInvoked cm /\ ~ servingC s c.
Proof.
  intros w s mo m rest R Aq Eq Hsrc c.
  assert (Hc : is_client cfg c = true) by (apply (rc_q w s mo R Aq m); [rewrite Eq; left; reflexivity | exact Hsrc]).
  split; [exact Hc|]. pose proof (rc_cl w s mo R c Hc) as H. unfold cinvC in H.
  assert (Hf : fromc c (queue (net s (ldr s) REQ)) = m :: fromc c rest).
  { rewrite Eq. unfold fromc. cbn. unfold c. rewrite Nat.eqb_refl. reflexivity. }
  assert (NG : gone s c -> False).
  { intros [_ G]. destruct (G Aq) as [G1 _]. rewrite Hf in G1. discriminate. }
  destruct (c_pc (cl s c)).
  - destruct H as [G _]. destruct (NG G).
  - destruct H as [G _]. destruct (NG G).
  - split; [reflexivity|]. destruct H as (cm & Ecm & [(Q1 & Q2 & Q3 & Q4 & Q5)|[(_ & _ & _ & _ & H5 & _)|[(_ & _ & _ & _ & S5 & _)|[(R1 & _)|(X1 & _)]]]]).
    + exists cm. rewrite Hf in Q2. inversion Q2 as [[E1 E2]]. rewrite E2. repeat (split; auto).
    + rewrite Hf in H5. discriminate.
    + rewrite Hf in S5. discriminate.
    + destruct (R1 Aq) as [G1 _]. rewrite Hf in G1. discriminate.
    + destruct (NG X1).
  - destruct (NG H).
Qed.

(* ------------------------------------------------------------------ rcvMsg: the leader takes a client's request *)
Lemma simC_rcvMsg_client : forall s p ch s', SimC s -> isrep p -> pcr s p = RcvMsg ->
  step_replica cfg ch s p = Ok s' -> pcr s' p = HandlePrimary -> SimC s'.
Proof.
  intros s p ch s' (IA & w & t & mo & IB & Hrun & Hproj & R) Hp Epc Hs Hpc'.
  assert (Hstep : step cfg s (Ev p ch) = Ok s').
  { unfold step. apply (isrep_iff cfg) in Hp. rewrite Hp. exact Hs. }
  assert (IA' : InvA s') by (eapply invA_step; eauto).
  assert (Ap : alive s p) by (split; [exact Hp | rewrite Epc; reflexivity]).
  unfold step_replica in Hs. unfold pcr in Epc. rewrite Epc in Hs.
  assert (IB' : InvB w s') by (eapply (invB_rcvMsg cfg w s p ch s'); eauto).
  unfold step_rcvMsg in Hs.
  destruct (_ && _).
  { inversion Hs; subst s'. unfold pcr in Hpc'. simp_st. rewrite updf_same in Hpc'. discriminate. }
  unfold link_recv in Hs. destruct (negb (enabled _)); [discriminate|]. destruct (queue (net s p REQ)) as [|m q] eqn:Eq; [discriminate|].
  dif Hs; [discriminate|].
  change (leader cfg (set_net s (upd_net (net s) p REQ (mkLink q (enabled (net s p REQ)))))) with (ldr s) in Hs.
  destruct (Nat.eqb (ldr s) p && srct_eqb (m_src m) CLIENT_SRC) eqn:Ecl.
  2:{ inversion Hs; subst s'. unfold pcr in Hpc'. simp_st. rewrite updf_same in Hpc'. discriminate. }
  apply andb_true_iff in Ecl. destruct Ecl as [El Esrc]. apply Nat.eqb_eq in El.
  assert (Hsrc : m_src m = CLIENT_SRC) by (destruct (m_src m); cbn in Esrc; congruence).
  subst p. inversion Hs; subst s'; clear Hs.
  set (q0 := ldr s) in *.
  set (s' := set_rl (set_net s (upd_net (net s) q0 REQ (mkLink q (enabled (net s q0 REQ))))) q0
                    (r_set_pc (r_set_req (rl s q0) (Some m)) HandlePrimary)) in *.
  destruct (head_client_Q w s mo m q R Ap Eq Hsrc) as (Hc0 & Ecp & cm & Ecm & Erep & Em & Hfq & Hresp & Hst & Hns).
  set (c0 := m_from m) in *.
  assert (El' : ldr s' = q0) by (apply ldr_prim_ext; reflexivity).
  assert (Hal : forall r, alive s' r <-> alive s r).
  { intros r. unfold ProofsCrashA.alive, pcr, s'. simp_st. unfold updf. destruct (Nat.eqb r q0) eqn:Er; [|tauto].
    apply Nat.eqb_eq in Er. subst r. simp_st. rewrite Epc. cbn. tauto. }
  assert (Hq0c : forall c, is_client cfg c = true -> c <> q0) by (intros c Hc ->; exact (client_not_rep _ Hc Hp)).
  assert (Hpc1 : pcr s' q0 = HandlePrimary) by (unfold pcr, s'; simp_st; rewrite updf_same; reflexivity).
  assert (Hreq1 : r_req (rl s' q0) = Some m) by (unfold s'; simp_st; rewrite updf_same; reflexivity).
  assert (Hq1 : queue (net s' q0 REQ) = q) by (unfold s'; simp_st; rewrite upd_net_same; reflexivity).
  split; [exact IA'|]. exists w, t, mo. split; [exact IB'|]. split; [exact Hrun|]. split; [exact Hproj|].
  apply (relC_special w s s' mo mo c0 IA' R); auto.
  - split; [exact Hal|]. split.
    + intros r. unfold s'. simp_st. unfold updf. destruct (Nat.eqb r q0) eqn:Er; [|reflexivity]. apply Nat.eqb_eq in Er. subst r. reflexivity.
    + intros r k. reflexivity.
  - intros c Hc Hne. constructor.
    + reflexivity.
    + unfold s'. simp_st. rewrite upd_net_other by (right; discriminate). reflexivity.
    + left. split; [exact El'|]. split; [apply Hal|]. split.
      * fold q0. rewrite Hq1, Eq. unfold fromc. cbn. fold c0. destruct (Nat.eqb c0 c) eqn:Er; [|reflexivity].
        apply Nat.eqb_eq in Er. congruence.
      * split.
        -- intros (_ & _ & m1 & E1 & E2). rewrite El', Hreq1 in E1. inversion E1; subst m1. exfalso. apply Hne. symmetry. exact E2.
        -- intros (_ & Hsv & _). fold q0 in Hsv. unfold pcr in Hsv. rewrite Epc in Hsv. destruct Hsv.
  - (* the client is now in state H *)
    unfold cinvC. change (cl s' c0) with (cl s c0). rewrite Ecp. exists cm. split; [exact Ecm|]. right; left.
    rewrite El'. split; [exact Erep|]. split; [apply Hal; exact Ap|]. split; [exact Hpc1|].
    split; [rewrite Hreq1, Em; reflexivity|]. split; [rewrite Hq1; exact Hfq|].
    split; [|exact Hst]. unfold s'. simp_st. rewrite upd_net_other by (right; discriminate). exact Hresp.
  - intros _ [_ G]. destruct (G Ap) as [G1 _]. fold q0 in G1. rewrite Eq in G1. unfold fromc in G1. cbn in G1.
    fold c0 in G1. rewrite Nat.eqb_refl in G1. discriminate.
  - intros [_ [H|H]]; fold q0 in H; unfold pcr in H; rewrite Epc in H; discriminate.
  - rewrite El'. intros _ m1 Hin Hs1. rewrite Hq1 in Hin. apply (rc_q w s mo R Ap m1); [fold q0; rewrite Eq; right; exact Hin | exact Hs1].
  - rewrite El'. intros _ _. exists m. split; [exact Hreq1 | exact Hc0].
Qed.

(* the client the live leader is serving *)
Lemma served_state : forall w s mo, RelC w s mo -> alive s (ldr s) -> serving (pcr s (ldr s)) ->
  exists c cm, is_client cfg c = true /\ c_pc (cl s c) = RcvResp /\ c_msg (cl s c) = Some cm /\
    c_replica (cl s c) = ldr s /\ r_req (rl s (ldr s)) = Some (reqmsgR c (ldr s) cm (c_idx (cl s c))) /\
    fromc c (queue (net s (ldr s) REQ)) = [] /\ queue (net s c RESP) = [] /\
    (pcr s (ldr s) = HandlePrimary -> mo_st mo c = CInvoked cm) /\
    (after_lin (pcr s (ldr s)) ->
       exists rb rt, r_respBody (rl s (ldr s)) = Some rb /\ r_respTyp (rl s (ldr s)) = Some rt /\
          ((cm_typ cm = GET_REQ /\ pcr s (ldr s) = SndResp /\ exists v, rb = BContent v /\ rt = GET_RESP /\ mo_st mo c = CLinearized cm v) \/
           (exists k v, putof cm k v /\ rb = ACK_MSG_BODY /\ rt = PUT_RESP /\
              r_lastPutBody (rl s (ldr s)) = BPut (Mx w) (Some (k, v)) /\
              ((someold w s /\ mo_st mo c = CInvoked cm) \/
               (allnew w s /\ mo_st mo c = CLinearized cm "ack-body"%string))))).
Proof.
  intros w s mo R Aq Hsrv.
  destruct (rc_req w s mo R Aq Hsrv) as (m & Em & Hc).
  assert (SC : servingC s (m_from m)) by (split; [exact Aq|]; split; [exact Hsrv|]; eauto).
  pose proof (rc_cl w s mo R _ Hc) as H. unfold cinvC in H.
  assert (NG : gone s (m_from m) -> False) by (intros [_ G]; destruct (G Aq) as [_ G2]; contradiction).
  destruct (c_pc (cl s (m_from m))) eqn:Epc.
  - destruct H as [G _]. destruct (NG G).
  - destruct H as [G _]. destruct (NG G).
  - destruct H as (cm & Ecm & [(_ & _ & Q3 & _)|[(H1 & H2 & H3 & H4 & H5 & H6 & H7)|[(S1 & S2 & S3 & S4 & S5 & S6 & S7)|[(R1 & _)|(X1 & _)]]]]).
    + contradiction.
    + exists (m_from m), cm. repeat (split; [assumption|]). split; [intros _; exact H7|].
      intros Hal. rewrite H3 in Hal. destruct Hal.
    + exists (m_from m), cm. repeat (split; [assumption|]). split; [|intros _; exact S7].
      intros E. rewrite E in S3. destruct S3.
    + destruct (R1 Aq) as [_ N]. contradiction.
    + destruct (NG X1).
  - destruct (NG H).
Qed.

(* ------------------------------------------------------------------ sndResp: the answer leaves the leader *)
Lemma simC_sndResp : forall s p ch s', SimC s -> isrep p -> pcr s p = SndResp ->
  step_replica cfg ch s p = Ok s' -> SimC s'.
Proof.
  intros s p ch s' (IA & w & t & mo & IB & Hrun & Hproj & R) Hp Epc Hs.
  assert (Hstep : step cfg s (Ev p ch) = Ok s').
  { unfold step. apply (isrep_iff cfg) in Hp. rewrite Hp. exact Hs. }
  assert (IA' : InvA s') by (eapply invA_step; eauto).
  assert (Ap : alive s p) by (split; [exact Hp | rewrite Epc; reflexivity]).
  assert (Hq : p = ldr s) by (apply (nonbackup_is_ldr cfg s p IA Ap); rewrite Epc; cbn; tauto).
  unfold step_replica in Hs. unfold pcr in Epc. rewrite Epc in Hs.
  assert (IB' : InvB w s') by (eapply (invB_sndResp cfg w s p ch s'); eauto).
  subst p. set (q0 := ldr s) in *.
  destruct (served_state w s mo R Ap) as (c0 & cm & Hc0 & Ecp & Ecm & Erep & Ereq & Hfq & Hresp & _ & HS); [unfold pcr; fold q0; rewrite Epc; exact Logic.I|].
  destruct HS as (rb & rt & Erb & Ert & HS); [unfold pcr; fold q0; rewrite Epc; exact Logic.I|]. fold q0 in Ereq, Erb, Ert, HS, Hfq, Erep.
  (* the operation has been linearized *)
  assert (Hlin : exists v, mo_st mo c0 = CLinearized cm v /\ respmatch cm rb rt v).
  { destruct HS as [(G1 & _ & v & -> & -> & G3)|(k & v & P1 & -> & -> & P4 & [(SO & _)|(_ & P5)])].
    - exists v. split; [exact G3|]. right. auto.
    - exfalso. destruct SO as (r & Ar & Ho).
      pose proof (quiet_stable w s IA IB Ap (or_intror Epc) r Ar) as Hk. fold q0 in Hk.
      destruct (isold_K w s r Ho). unfold K in Hk at 2. rewrite P4 in Hk. cbn in Hk. lia.
    - exists "ack-body"%string. split; [exact P5|]. left. destruct P1. auto. }
  destruct Hlin as (v & Hst & Hmatch).
  unfold step_sndResp in Hs. rewrite Ereq, Erb, Ert in Hs. cbn [bindT] in Hs.
  unfold reqmsgR in Hs. simp_st. unfold link_send in Hs. simp_st. destruct (enabled (net s c0 RESP)); [|discriminate].
  inversion Hs; subst s'; clear Hs.
  set (resp := mkMsg q0 c0 rb PRIMARY_SRC rt (c_idx (cl s c0))) in *.
  set (s' := set_rl (set_net s (upd_net (net s) c0 RESP (mkLink (queue (net s c0 RESP) ++ [resp]) true))) q0 (r_set_pc (rl s q0) ReplicaLoop)) in *.
  assert (El' : ldr s' = q0) by (apply ldr_prim_ext; reflexivity).
  assert (Hal : forall r, alive s' r <-> alive s r).
  { intros r. unfold ProofsCrashA.alive, pcr, s'. simp_st. unfold updf. destruct (Nat.eqb r q0) eqn:Er; [|tauto].
    apply Nat.eqb_eq in Er. subst r. simp_st. rewrite Epc. cbn. tauto. }
  assert (Hc0q : c0 <> q0) by (intros E; rewrite E in Hc0; exact (client_not_rep _ Hc0 Hp)).
  assert (Hpc1 : pcr s' q0 = ReplicaLoop) by (unfold pcr, s'; simp_st; rewrite updf_same; reflexivity).
  assert (Hq1 : queue (net s' q0 REQ) = queue (net s q0 REQ)).
  { unfold s'. simp_st. rewrite upd_net_other by (right; discriminate). reflexivity. }
  assert (NS' : forall c, ~ servingC s' c).
  { intros c (_ & Hsv & _). rewrite El', Hpc1 in Hsv. destruct Hsv. }
  split; [exact IA'|]. exists w, t, mo. split; [exact IB'|]. split; [exact Hrun|]. split; [exact Hproj|].
  apply (relC_special w s s' mo mo c0 IA' R); auto.
  - split; [exact Hal|]. split.
    + intros r. unfold s'. simp_st. unfold updf. destruct (Nat.eqb r q0) eqn:Er; [|reflexivity]. apply Nat.eqb_eq in Er. subst r. reflexivity.
    + intros r k. reflexivity.
  - intros c Hc Hne. constructor.
    + reflexivity.
    + unfold s'. simp_st. rewrite upd_net_other by (left; exact Hne). reflexivity.
    + left. split; [exact El'|]. split; [apply Hal|]. split; [fold q0; rewrite Hq1; reflexivity|]. split.
      * intros SC. destruct (NS' c SC).
      * intros (_ & _ & m1 & E1 & E2). fold q0 in E1. rewrite Ereq in E1. inversion E1; subst m1. cbn in E2. congruence.
  - (* the client is now in state R *)
    unfold cinvC. change (cl s' c0) with (cl s c0). rewrite Ecp. exists cm. split; [exact Ecm|]. right; right; right; left.
    rewrite El'. split.
    + intros _. split; [rewrite Hq1; exact Hfq | apply NS'].
    + exists v, rb, rt. split; [|split; [exact Hst | exact Hmatch]].
      unfold s'. simp_st. rewrite upd_net_same. simp_st. rewrite Hresp, Erep. reflexivity.
  - intros _ [_ G]. destruct (G Ap) as [_ G2]. apply G2. split; [exact Ap|]. fold q0. unfold pcr. rewrite Epc. split; [exact Logic.I|].
    eexists. split; [exact Ereq | reflexivity].
  - intros [_ [H|H]]; fold q0 in H; unfold pcr in H; rewrite Epc in H; discriminate.
  - rewrite El'. intros _ m1 Hin Hs1. rewrite Hq1 in Hin. apply (rc_q w s mo R Ap m1 Hin Hs1).
  - rewrite El', Hpc1. intros _ [].
Qed.

(* the new witness of a Put, explicitly (same proof as invB_handlePrimary_put) *)
Lemma invB_hp_put_explicit : forall w s k v lv,
  InvA s -> InvB w s -> alive s (ldr s) -> pcr s (ldr s) = HandlePrimary ->
  body_ver (r_lastPutBody (rl s (ldr s))) = Some lv ->
  exists w', Mx w' = lv + 1 /\ cM w' = Some (k, v) /\ (forall k0, Fold w' k0 = fsv s (ldr s) k0) /\ InvB w'
    (set_rl (set_fs s (upd_fs (fsv s) (ldr s) k v)) (ldr s)
       (r_set_pc (r_set_idx (r_set_rs (r_set_resp (r_set_lpb (rl s (ldr s)) (BPut (lv + 1) (Some (k, v))))
                                                   (Some ACK_MSG_BODY) (Some PUT_RESP)) (others cfg (ldr s))) 1)
                 SndReplicaReqLoop)).
Proof.
  intros w s k v lv IA IB Aq Epc Hlv.
  set (q := ldr s) in *.
  set (l' := r_set_pc (r_set_idx (r_set_rs (r_set_resp (r_set_lpb (rl s q) (BPut (lv + 1) (Some (k, v))))
                                                   (Some ACK_MSG_BODY) (Some PUT_RESP)) (others cfg q)) 1) SndReplicaReqLoop).
  set (s' := set_rl (set_fs s (upd_fs (fsv s) q k v)) q l').
  pose proof IB as [V P Ph].
  destruct (a_loc cfg s IA q Aq) as (_ & _ & L3 & _).
  destruct L3 as (req & Hreq & Hcreq & Hss & Hqc); [unfold pcr in Epc; rewrite Epc; exact Logic.I|].
  assert (HfP : filter is_p (queue (net s q REQ)) = []) by (apply (Forall_creq_filter_p cfg); exact Hqc).
  assert (Hn1 : pcr s q <> HandleBackup) by (rewrite Epc; discriminate).
  assert (Hpq : pend s q = []) by (rewrite pend_not_hb by exact Hn1; exact HfP).
  assert (N1 : ~ insync s q) by (unfold insync; rewrite Epc; intuition discriminate).
  assert (N2 : ~ inrepl s q) by (unfold inrepl; rewrite Epc; intuition discriminate).
  assert (N3 : ~ owed s q).
  { unfold owed, owedP. rewrite HfP, Epc, Hss. intros [H|[H|H]]; [apply H; reflexivity | discriminate | discriminate]. }
  assert (G : forall b, alive s b -> b <> q -> K s q <= K s b).
  { intros b Ab Hb. destruct (le_lt_dec (K s q) (K s b)) as [H|H]; [exact H|]. exfalso.
    destruct (ph_main cfg w s Ph Aq N2 b Ab Hb H) as [X|(X & _)]; contradiction. }
  assert (HKq : K s q = lv).
  { unfold K. destruct (r_lastPutBody (rl s q)); cbn in *; try discriminate. congruence. }
  (* the leader does not have anything of the latest version pending: if it is old nobody knows the latest version *)
  assert (Hnk : K s q < Mx w -> forall r, alive s r -> ~ knows w s r).
  { intros Hlt r Ar Hk.
    assert (Hkq : knows w s q).
    { destruct (Nat.eq_dec r q) as [->|Hne]; [exact Hk|]. destruct (alive_ge_ldr cfg s r IA Ar) as [_ Hge]. fold q in Hge.
      apply (p_order cfg w s P q r Aq Ar); [lia | exact Hk]. }
    destruct Hkq as [H|(m & Hm & _)]; [lia | rewrite Hpq in Hm; destruct Hm]. }
  (* content of the leader's version *)
  destruct (v_rep cfg w s V q Aq) as [Hqn|Hqo].
  - (* the leader is at the latest version: every live replica is *)
    pose proof (isnew_K w s q Hqn) as HK. destruct Hqn as [Hql Hqf].
    assert (Hall : forall b, alive s b -> isnew w s b).
    { intros b Ab. destruct (Nat.eq_dec b q) as [->|Hne]; [split; assumption|].
      apply (K_Mx_isnew cfg w s b V Ab). pose proof (G b Ab Hne). destruct (K_le_Mx cfg w s b V Ab). lia. }
    exists (mkWit (Mx w + 1) (Some (k, v)) (Fnew w) (cM w)).
    assert (Elv : lv = Mx w) by lia. unfold s', l'. rewrite Elv.
    split; [reflexivity|]. split; [reflexivity|]. split; [intros k0; cbn; symmetry; apply Hqf|].
    apply (invB_new_version cfg s k v (Mx w) (cM w) (Fnew w) IA Aq Epc).
    + intros b Ab. apply (Hall b Ab).
    + intros k0 v0 E. unfold Fnew. rewrite E. cbn. rewrite String.eqb_refl. reflexivity.
    + intros r m Ar Hm. destruct (v_pend cfg w s V r m Ar Hm) as (ver & c & E & Hle & Hc & _). exists ver, c. auto.
    + intros m Hm Ht. destruct (v_resp cfg w s V m Aq Hm Ht) as [(ver & c & E & Hle & Hc & _) B2]. split; [exists ver, c; auto | exact B2].
    + intros b Ab Hb. apply (ph_noack cfg w s Ph Aq N2 b Ab Hb).
  - (* the leader is one behind and nobody alive knows the latest version: it is overwritten *)
    destruct (isold_K w s q Hqo) as [HK HMx1]. destruct Hqo as (_ & Hql & Hqf).
    assert (Hlt : K s q < Mx w) by lia.
    assert (Hall : forall b, alive s b -> isold w s b).
    { intros b Ab. apply (K_lt_isold cfg w s b V Ab). destruct (K_le_Mx cfg w s b V Ab) as [H1 _].
      destruct (Nat.eq_dec (K s b) (Mx w)) as [E|N]; [|lia]. exfalso. apply (Hnk Hlt b Ab). left. exact E. }
    exists (mkWit (Mx w - 1 + 1) (Some (k, v)) (Fold w) (cO w)).
    assert (Elv : lv = Mx w - 1) by lia. unfold s', l'. rewrite Elv.
    split; [reflexivity|]. split; [reflexivity|]. split; [intros k0; cbn; symmetry; apply Hqf|].
    apply (invB_new_version cfg s k v (Mx w - 1) (cO w) (Fold w) IA Aq Epc).
    + intros b Ab. destruct (Hall b Ab) as (_ & E & Hf). split; assumption.
    + apply (v_cO cfg w s V).
    + intros r m Ar Hm. destruct (v_pend cfg w s V r m Ar Hm) as (ver & c & E & Hle & _ & Hc). exists ver, c.
      assert (ver <> Mx w).
      { intros Ev. apply (Hnk Hlt r Ar). right. exists m. split; [exact Hm | rewrite E; cbn; exact Ev]. }
      split; [exact E|]. split; [lia|]. intros Ev. apply Hc. lia.
    + intros m Hm Ht. destruct (v_resp cfg w s V m Aq Hm Ht) as [(ver & c & E & Hle & _ & Hc) B2].
      split; [|exact B2]. exists ver, c.
      assert (ver <> Mx w).
      { intros Ev. apply (Hnk Hlt q Aq). apply (p_resp cfg w s P m Aq Hm Ht). rewrite E. cbn. exact Ev. }
      split; [exact E|]. split; [lia|]. intros Ev. apply Hc. lia.
    + intros b Ab Hb. apply (ph_noack cfg w s Ph Aq N2 b Ab Hb).
Qed.

(* at handlePrimary the abstract store is the leader's store *)
Lemma store_is_leader : forall w s mo, InvA s -> InvB w s -> RelC w s mo -> alive s (ldr s) ->
  pcr s (ldr s) = HandlePrimary -> forall k, mo_store mo k = fsv s (ldr s) k.
Proof.
  intros w s mo IA IB R Aq Epc k. pose proof (b_ver cfg w s IB) as V.
  destruct (v_rep cfg w s V _ Aq) as [Hn|Ho].
  - rewrite (rc_new w s mo R); [destruct Hn as [_ F]; rewrite F; reflexivity|].
    split; [eauto|]. intros r Ar. apply (K_Mx_isnew cfg w s r V Ar).
    rewrite (quiet_stable w s IA IB Aq (or_introl Epc) r Ar). apply isnew_K. exact Hn.
  - rewrite (rc_old w s mo R); [destruct Ho as (_ & _ & F); rewrite F; reflexivity|]. exists (ldr s). auto.
Qed.

(* ------------------------------------------------------------------ handlePrimary *)
Lemma simC_handlePrimary : forall s p ch s', SimC s -> isrep p -> pcr s p = HandlePrimary ->
  step_replica cfg ch s p = Ok s' -> SimC s'.
Proof.
  intros s p ch s' (IA & w & t & mo & IB & Hrun & Hproj & R) Hp Epc Hs.
  assert (Hstep : step cfg s (Ev p ch) = Ok s').
  { unfold step. apply (isrep_iff cfg) in Hp. rewrite Hp. exact Hs. }
  assert (IA' : InvA s') by (eapply invA_step; eauto).
  assert (Ap : alive s p) by (split; [exact Hp | rewrite Epc; reflexivity]).
  assert (Hq : p = ldr s) by (apply (nonbackup_is_ldr cfg s p IA Ap); rewrite Epc; cbn; tauto).
  subst p. pose proof Epc as Epc0. unfold step_replica in Hs. unfold pcr in Epc. rewrite Epc in Hs.
  pose proof (store_is_leader w s mo IA IB R Ap Epc0) as Hstore.
  set (q0 := ldr s) in *.
  destruct (served_state w s mo R Ap) as (c0 & cm & Hc0 & Ecp & Ecm & Erep & Ereq & Hfq & Hresp & HH & _); [unfold pcr; fold q0; rewrite Epc; exact Logic.I|].
  pose proof (HH Epc0) as Hst. clear HH. fold q0 in Ereq, Hfq, Erep.
  destruct (a_loc cfg s IA _ Ap) as (_ & _ & L3 & _).
  destruct L3 as (m & Hreq & Hm & Hss & Hqc); [fold q0; rewrite Epc; exact Logic.I|]. fold q0 in Hreq, Hss, Hqc.
  rewrite Ereq in Hreq. inversion Hreq; subst m. clear Hreq.
  assert (Hc0q : c0 <> q0) by (intros E; rewrite E in Hc0; exact (client_not_rep _ Hc0 Hp)).
  unfold step_handlePrimary in Hs. fold q0 in Hs. rewrite Ereq in Hs. cbn [bindT] in Hs.
  pose proof Hm as (Hsrc & Hfrom & Hok). unfold reqmsgR in Hs. simp_st. cbn [srct_eqb negb] in Hs.
  (* what does not depend on the kind of request *)
  assert (FrameO : forall s1, cl s1 = cl s -> net s1 = net s -> (forall r, prim s1 r = prim s r) ->
            (forall r, r <> q0 -> rl s1 r = rl s r) -> r_req (rl s1 q0) = r_req (rl s q0) -> pc_alive (pcr s1 q0) = true ->
            forall c, is_client cfg c = true -> c <> c0 -> Frame s s1 c).
  { intros s1 H1 H2 H3 H4 H5 H6 c Hc Hne.
    assert (El1 : ldr s1 = q0) by (apply ldr_prim_ext; exact H3).
    constructor; [rewrite H1; reflexivity | rewrite H2; reflexivity |].
    left. split; [exact El1|]. split; [intros _; exact Ap|]. split; [fold q0; rewrite H2; reflexivity|]. split.
    - intros (_ & _ & m1 & E1 & E2). rewrite El1, H5, Ereq in E1. inversion E1; subst m1. cbn in E2. congruence.
    - intros (_ & _ & m1 & E1 & E2). fold q0 in E1. rewrite Ereq in E1. inversion E1; subst m1. cbn in E2. congruence. }
  pose proof (creq_cases cfg _ Hm) as CC. unfold reqmsgR in CC. simp_st.
  destruct CC as [(Ht & k & Hb) | (Ht & k & v & Hb)]; rewrite Ht, Hb in Hs; cbn [body_key body_value bindT] in Hs.
  - (* Get: linearized here *)
    inversion Hs; subst s'; clear Hs.
    set (l' := r_set_pc (r_set_resp (rl s q0) (Some (BContent (fsv s q0 k))) (Some GET_RESP)) SndResp) in *.
    assert (IB' : InvB w (set_rl s q0 l')).
    { apply (invB_local_step cfg w s q0 l'); auto.
      - apply pend_set_rl_nohb; [unfold pcr; rewrite Epc; discriminate | discriminate].
      - right. unfold pcr. rewrite Epc. cbn. auto. }
    set (s' := set_rl s q0 l') in *.
    assert (El' : ldr s' = q0) by (apply ldr_prim_ext; reflexivity).
    assert (Hal : forall r, alive s' r <-> alive s r).
    { intros r. unfold ProofsCrashA.alive, pcr, s'. simp_st. unfold updf. destruct (Nat.eqb r q0) eqn:Er; [|tauto].
      apply Nat.eqb_eq in Er. subst r. simp_st. rewrite Epc. cbn. tauto. }
    split; [exact IA'|]. exists w, (t ++ [ILin c0]), (mkMon (mo_store mo) (upd_st (mo_st mo) c0 (CLinearized cm (mo_store mo k)))).
    split; [exact IB'|]. split.
    { rewrite mon_run_app, Hrun. cbn. rewrite Hst. unfold kv_apply. rewrite Ht, Hb. reflexivity. }
    split. { rewrite proj_app. cbn. rewrite app_nil_r. exact Hproj. }
    apply (relC_special w s s' mo _ c0 IA' R); auto.
    + split; [exact Hal|]. split; [|reflexivity].
      intros r. unfold s'. simp_st. unfold updf. destruct (Nat.eqb r q0) eqn:Er; [|reflexivity]. apply Nat.eqb_eq in Er. subst r. reflexivity.
    + apply FrameO; auto; unfold s'; simp_st; rewrite ?updf_same; auto.
      * intros r N. apply updf_other. exact N.
      * unfold pcr. simp_st. rewrite updf_same. reflexivity.
    + intros c Hne. cbn. apply upd_st_other. exact Hne.
    + unfold cinvC. change (cl s' c0) with (cl s c0). rewrite Ecp. exists cm. split; [exact Ecm|]. right; right; left.
      rewrite El'. split; [exact Erep|]. split; [apply Hal; exact Ap|].
      unfold pcr, s'. simp_st. rewrite updf_same. unfold l'. simp_st.
      split; [exact Logic.I|]. split; [exact Ereq|]. split; [exact Hfq|]. split; [exact Hresp|].
      exists (BContent (fsv s q0 k)), GET_RESP. split; [reflexivity|]. split; [reflexivity|]. left.
      split; [exact Ht|]. split; [reflexivity|]. exists (fsv s q0 k). split; [reflexivity|]. split; [reflexivity|].
      cbn. rewrite upd_st_same, Hstore. reflexivity.
    + intros _ [_ G]. destruct (G Ap) as [_ G2]. apply G2. split; [exact Ap|]. fold q0. unfold pcr. rewrite Epc. split; [exact Logic.I|].
      eexists. split; [exact Ereq | reflexivity].
    + intros [_ [H|H]]; fold q0 in H; unfold pcr in H; rewrite Epc in H; discriminate.
    + rewrite El'. intros _ m1 Hin Hs1. apply (rc_q w s mo R Ap m1 Hin Hs1).
    + rewrite El'. intros _ _. exists (reqmsgR c0 q0 cm (c_idx (cl s c0))). unfold s'. simp_st. rewrite updf_same. unfold l'. simp_st. auto.
  - (* Put: a new version; linearized here only if no other replica is alive *)
    destruct (body_ver (r_lastPutBody (rl s q0))) as [lv|] eqn:Elv; cbn [bindT] in Hs; [|discriminate].
    inversion Hs; subst s'; clear Hs.
    destruct (invB_hp_put_explicit w s k v lv IA IB Ap Epc0 Elv) as (w' & HMx & HcM & HFold & IB'). fold q0 in IB', HFold.
    set (l' := r_set_pc (r_set_idx (r_set_rs (r_set_resp (r_set_lpb (rl s q0) (BPut (lv + 1) (Some (k, v))))
                                               (Some ACK_MSG_BODY) (Some PUT_RESP)) (others cfg q0)) 1) SndReplicaReqLoop) in *.
    set (s' := set_rl (set_fs s (upd_fs (fsv s) q0 k v)) q0 l') in *.
    assert (El' : ldr s' = q0) by (apply ldr_prim_ext; reflexivity).
    assert (Hal : forall r, alive s' r <-> alive s r).
    { intros r. unfold ProofsCrashA.alive, pcr, s'. simp_st. unfold updf. destruct (Nat.eqb r q0) eqn:Er; [|tauto].
      apply Nat.eqb_eq in Er. subst r. simp_st. rewrite Epc. cbn. tauto. }
    assert (Aq' : alive s' q0) by (apply Hal; exact Ap).
    pose proof (b_ver cfg w' s' IB') as V'.
    assert (Hlv : K s q0 = lv).
    { unfold K. destruct (r_lastPutBody (rl s q0)); cbn in *; try discriminate. congruence. }
    assert (HKq : K s' q0 = Mx w') by (unfold K, s'; simp_st; rewrite updf_same; unfold l'; simp_st; cbn; lia).
    assert (Hnewq : ProofsCrashB.isnew w' s' q0) by (apply (K_Mx_isnew cfg w' s' q0 V' Aq' HKq)).
    assert (Holdr : forall r, alive s' r -> r <> q0 -> isold w' s' r).
    { intros r Ar Hne. apply (K_lt_isold cfg w' s' r V' Ar).
      assert (K s' r = K s r) by (unfold K, s'; simp_st; rewrite updf_other by exact Hne; reflexivity).
      pose proof (quiet_stable w s IA IB Ap (or_introl Epc0) r (proj1 (Hal r) Ar)). fold q0 in H0. lia. }
    assert (Hput : putof cm k v) by (split; assumption).
    assert (Hinrepl : alive s' (ldr s') /\ inrepl s' (ldr s')).
    { rewrite El'. split; [exact Aq'|]. left. unfold pcr, s'. simp_st. rewrite updf_same. reflexivity. }
    assert (FO : forall c, is_client cfg c = true -> c <> c0 -> Frame s s' c).
    { apply FrameO; auto; unfold s'; simp_st; rewrite ?updf_same; auto.
      - intros r N. apply updf_other. exact N.
      - unfold pcr. simp_st. rewrite updf_same. reflexivity. }
    (* the state of the served client, for a given status *)
    assert (CS : forall mo', ((someold w' s' /\ mo_st mo' c0 = CInvoked cm) \/ (allnew w' s' /\ mo_st mo' c0 = CLinearized cm "ack-body"%string)) ->
                 cinvC w' s' mo' c0).
    { intros mo' Hdis. unfold cinvC. change (cl s' c0) with (cl s c0). rewrite Ecp. exists cm. split; [exact Ecm|]. right; right; left.
      rewrite El'. split; [exact Erep|]. split; [exact Aq'|].
      unfold pcr, s'. simp_st. rewrite updf_same. unfold l'. simp_st.
      split; [exact Logic.I|]. split; [exact Ereq|]. split; [exact Hfq|]. split; [exact Hresp|].
      exists ACK_MSG_BODY, PUT_RESP. split; [reflexivity|]. split; [reflexivity|]. right.
      exists k, v. split; [exact Hput|]. split; [reflexivity|]. split; [reflexivity|]. split; [rewrite HMx; reflexivity | exact Hdis]. }
    (* the other clients *)
    assert (CO : forall mo', (forall c, c <> c0 -> mo_st mo' c = mo_st mo c) ->
                 forall c, is_client cfg c = true -> c <> c0 -> cinvC w' s' mo' c).
    { intros mo' Hmo c Hc Hne.
      assert (NSc : ~ servingC s c).
      { intros (_ & _ & m1 & E1 & E2). fold q0 in E1. rewrite Ereq in E1. inversion E1; subst m1. cbn in E2. congruence. }
      apply (cinvC_keepF w' s s' mo mo' c IA' (FO c Hc Hne) Hc (Hmo c Hne)).
      - intros _ SC. contradiction.
      - intros _ SC. contradiction.
      - apply (cinvC_w_irrelevant w w' s mo c NSc). apply (rc_cl w s mo R c Hc). }
    assert (HQ : alive s' (ldr s') -> forall m, In m (queue (net s' (ldr s') REQ)) -> m_src m = CLIENT_SRC -> is_client cfg (m_from m) = true).
    { rewrite El'. intros _ m1 Hin Hs1. apply (rc_q w s mo R Ap m1 Hin Hs1). }
    assert (HRq : alive s' (ldr s') -> serving (pcr s' (ldr s')) -> exists m, r_req (rl s' (ldr s')) = Some m /\ is_client cfg (m_from m) = true).
    { rewrite El'. intros _ _. exists (reqmsgR c0 q0 cm (c_idx (cl s c0))). unfold s'. simp_st. rewrite updf_same. unfold l'. simp_st. auto. }
    split; [exact IA'|]. exists w'.
    destruct (new_or_old w' s' V') as [Hall|SO'].
    + (* the leader is the only live replica: the Put is stable at once *)
      assert (AN' : allnew w' s') by (split; [eauto | exact Hall]).
      exists (t ++ [ILin c0]), (mkMon (upd_kv (mo_store mo) k v) (upd_st (mo_st mo) c0 (CLinearized cm "ack-body"%string))).
      split; [exact IB'|]. split.
      { rewrite mon_run_app, Hrun. cbn. rewrite Hst. unfold kv_apply. rewrite Ht, Hb. reflexivity. }
      split. { rewrite proj_app. cbn. rewrite app_nil_r. exact Hproj. }
      constructor.
      * intros _ k0. cbn. unfold upd_kv, Fnew. rewrite HcM. cbn. rewrite HFold, Hstore. reflexivity.
      * intros SO'. destruct (allnew_someold w' s' AN' SO').
      * intros N'. contradiction.
      * intros c Hc. destruct (Nat.eq_dec c c0) as [->|Hne].
        -- apply CS. right. split; [exact AN' | cbn; apply upd_st_same].
        -- apply CO; auto. intros c1 Hne1. cbn. apply upd_st_other. exact Hne1.
      * intros c Hc. cbn. rewrite upd_st_other; [apply (rc_nc w s mo R c Hc)|]. intros ->. congruence.
      * exact HQ.
      * exact HRq.
    + (* some backup has still to get it *)
      exists t, mo. split; [exact IB'|]. split; [exact Hrun|]. split; [exact Hproj|].
      constructor.
      * intros AN'. destruct (allnew_someold w' s' AN' SO').
      * intros _ k0. rewrite HFold, Hstore. reflexivity.
      * intros N'. contradiction.
      * intros c Hc. destruct (Nat.eq_dec c c0) as [->|Hne].
        -- apply CS. left. split; [exact SO' | exact Hst].
        -- apply CO; auto.
      * apply (rc_nc w s mo R).
      * exact HQ.
      * exact HRq.
Qed.

(* ------------------------------------------------------------------ client steps *)
(* a step that leaves the replicas' locals, stores and `primary` alone *)
Section CLI.
Variables (s s' : state).
Hypothesis Hrl : rl s' = rl s.
Hypothesis Hprim : prim s' = prim s.
Hypothesis Hfs : fsv s' = fsv s.

Lemma cli_ldr : ldr s' = ldr s.
Proof. apply ldr_prim_ext. intros r. rewrite Hprim. reflexivity. Qed.

Lemma cli_alive : forall r, alive s' r <-> alive s r.
Proof. intros r. unfold ProofsCrashA.alive, pcr. rewrite Hrl. tauto. Qed.

Lemma cli_same_rep : same_rep s s'.
Proof. split; [exact cli_alive|]. split; intros; [rewrite Hrl | rewrite Hfs]; reflexivity. Qed.

Lemma cli_serving : forall c, servingC s' c <-> servingC s c.
Proof. intros c. unfold servingC. rewrite cli_ldr. unfold pcr. rewrite Hrl. rewrite (cli_alive (ldr s)). tauto. Qed.

Lemma cli_frame : forall c, cl s' c = cl s c -> queue (net s' c RESP) = queue (net s c RESP) ->
  fromc c (queue (net s' (ldr s) REQ)) = fromc c (queue (net s (ldr s) REQ)) -> Frame s s' c.
Proof.
  intros c H1 H2 H3. constructor; auto. left. split; [exact cli_ldr|]. split; [apply cli_alive|]. split; [exact H3|].
  split; [apply cli_serving|]. intros _ _. rewrite Hrl. apply same_serving_refl.
Qed.

Lemma cli_gone : forall c, queue (net s' c RESP) = queue (net s c RESP) ->
  fromc c (queue (net s' (ldr s) REQ)) = fromc c (queue (net s (ldr s) REQ)) -> gone s c -> gone s' c.
Proof.
  intros c H1 H2 [G1 G2]. split; [rewrite H1; exact G1|]. rewrite cli_ldr. intros Aq. apply cli_alive in Aq.
  destruct (G2 Aq) as [G3 G4]. split; [rewrite H2; exact G3|]. intros SC. apply G4. apply cli_serving. exact SC.
Qed.

Lemma cli_inrepl : alive s (ldr s) /\ inrepl s (ldr s) -> alive s' (ldr s') /\ inrepl s' (ldr s').
Proof. rewrite cli_ldr. intros [A B]. split; [apply cli_alive; exact A|]. unfold ProofsCrashB.inrepl, pcr in *. rewrite Hrl. exact B. Qed.

Lemma cli_req : forall w mo, RelC w s mo -> alive s' (ldr s') -> serving (pcr s' (ldr s')) ->
  exists m, r_req (rl s' (ldr s')) = Some m /\ is_client cfg (m_from m) = true.
Proof. intros w mo R. rewrite cli_ldr. unfold pcr. rewrite Hrl. intros A B. apply cli_alive in A. apply (rc_req w s mo R A B). Qed.
End CLI.

Lemma simC_client_step : forall s c0 ch s', SimC s -> is_client cfg c0 = true ->
  step_client cfg ch s c0 = Ok s' -> ~ (c_pc (cl s c0) = RcvResp /\ ch_alt ch = true) -> SimC s'.
Proof.
  intros s c0 ch s' (IA & w & t & mo & IB & Hrun & Hproj & R) Hc0 Hs Hnr.
  assert (Hnrep : ~ isrep c0) by (apply client_not_rep; exact Hc0).
  assert (Hgt : NR cfg < c0) by (apply is_client_true in Hc0; lia).
  assert (Hstep : step cfg s (Ev c0 ch) = Ok s').
  { unfold step. apply (isrep_false cfg) in Hnrep. rewrite Hnrep, Hc0. exact Hs. }
  assert (IA' : InvA s') by (eapply invA_step; eauto).
  assert (IB' : InvB w s') by (eapply (invB_client_step cfg w s c0 ch s'); eauto).
  pose proof (rc_cl w s mo R c0 Hc0) as Hcc. unfold cinvC in Hcc.
  split; [exact IA'|]. exists w.
  unfold step_client in Hs. destruct (c_pc (cl s c0)) eqn:Epc.
  - (* clientLoop: invocation *)
    destruct Hcc as [G Hst]. unfold step_clientLoop in Hs. destruct (cin s) as [|m rest]; [discriminate|].
    inversion Hs; subst s'; clear Hs.
    exists (t ++ [IInv c0 m]), (mkMon (mo_store mo) (upd_st (mo_st mo) c0 (CInvoked m))).
    split; [exact IB'|]. split. { rewrite mon_run_app, Hrun. cbn. rewrite Hst. reflexivity. }
    split. { rewrite proj_app. cbn. simp_st. rewrite Hproj. reflexivity. }
    match goal with |- RelC w ?s1 _ => set (s' := s1) in * end.
    apply (relC_special w s s' mo _ c0 IA' R); auto.
    + apply cli_same_rep; reflexivity.
    + intros c Hc Hne. apply cli_frame; try reflexivity. unfold s'. simp_st. apply updf_other. exact Hne.
    + intros c Hne. cbn. apply upd_st_other. exact Hne.
    + unfold cinvC. remember (cl s' c0) as l0 eqn:El0. unfold s' in El0. simp_st. rewrite updf_same in El0. subst l0. simp_st. split; [apply (cli_gone s s'); auto|].
      exists m. split; [reflexivity|]. cbn. apply upd_st_same.
    + intros E. congruence.
    + rewrite (cli_ldr s s') by reflexivity. intros Aq. apply (cli_alive s s') in Aq; [|reflexivity]. apply (rc_q w s mo R Aq).
    + apply (cli_req s s' eq_refl eq_refl w mo R).
  - (* sndReq *)
    destruct Hcc as (G & cm & Ecm & Hst). unfold step_sndReq in Hs. fold (ldr s) in Hs.
    destruct (negb (Nat.eqb (ldr s) 0)) eqn:Eq0.
    2:{ (* no replica left *)
      inversion Hs; subst s'; clear Hs. exists t, mo. split; [exact IB'|]. split; [exact Hrun|]. split; [exact Hproj|].
      match goal with |- RelC w ?s1 _ => set (s' := s1) in * end.
      apply (relC_special w s s' mo _ c0 IA' R); auto.
      + apply cli_same_rep; reflexivity.
      + intros c Hc Hne. apply cli_frame; try reflexivity. unfold s'. simp_st. apply updf_other. exact Hne.
      + unfold cinvC. remember (cl s' c0) as l0 eqn:El0. unfold s' in El0. simp_st. rewrite updf_same in El0. subst l0. simp_st. apply (cli_gone s s'); auto.
      + intros E. congruence.
      + rewrite (cli_ldr s s') by reflexivity. intros Aq. apply (cli_alive s s') in Aq; [|reflexivity]. apply (rc_q w s mo R Aq).
      + apply (cli_req s s' eq_refl eq_refl w mo R). }
    destruct (negb (ch_alt ch)).
    2:{ (* the leader is suspected: look again *)
      destruct (fdv s (ldr s)); [|discriminate].
      inversion Hs; subst s'; clear Hs. exists t, mo. split; [exact IB'|]. split; [exact Hrun|]. split; [exact Hproj|].
      match goal with |- RelC w ?s1 _ => set (s' := s1) in * end.
      apply (relC_special w s s' mo _ c0 IA' R); auto.
      + apply cli_same_rep; reflexivity.
      + intros c Hc Hne. apply cli_frame; try reflexivity. unfold s'. simp_st. apply updf_other. exact Hne.
      + unfold cinvC. remember (cl s' c0) as l0 eqn:El0. unfold s' in El0. simp_st. rewrite updf_same in El0. subst l0. simp_st. split; [apply (cli_gone s s'); auto|].
        exists cm. auto.
      + intros E. congruence.
      + rewrite (cli_ldr s s') by reflexivity. intros Aq. apply (cli_alive s s') in Aq; [|reflexivity]. apply (rc_q w s mo R Aq).
      + apply (cli_req s s' eq_refl eq_refl w mo R). }
    rewrite Ecm in Hs. cbn [bindT] in Hs. unfold link_send in Hs. destruct (enabled (net s (ldr s) REQ)) eqn:Een; [|discriminate].
    inversion Hs; subst s'; clear Hs.
    (* the leader is alive *)
    assert (Hq0 : ldr s <> 0) by (apply negb_true_iff in Eq0; apply Nat.eqb_neq in Eq0; exact Eq0).
    destruct (ldr_nonzero cfg s IA Hq0) as (Hqr & _ & _).
    assert (Aq : alive s (ldr s)).
    { split; [exact Hqr|]. rewrite <- (a_en_r cfg s IA (ldr s) REQ Hqr). exact Een. }
    destruct G as [G1 G2]. destruct (G2 Aq) as [G3 G4].
    exists t, mo. split; [exact IB'|]. split; [exact Hrun|]. split; [exact Hproj|].
    set (q0 := ldr s) in *.
    set (req := mkMsg c0 q0 (cm_body cm) CLIENT_SRC (cm_typ cm) (c_idx (cl s c0))) in *.
    match goal with |- RelC w ?s1 _ => set (s' := s1) in * end.
    assert (Hq1 : queue (net s' q0 REQ) = queue (net s q0 REQ) ++ [req]) by (unfold s'; simp_st; rewrite upd_net_same; reflexivity).
    assert (Hfo : forall c, c <> c0 -> fromc c (queue (net s' q0 REQ)) = fromc c (queue (net s q0 REQ))).
    { intros c Hne. rewrite Hq1, fromc_app. cbn. destruct (Nat.eqb c0 c) eqn:Er; [apply Nat.eqb_eq in Er; congruence | apply app_nil_r]. }
    apply (relC_special w s s' mo _ c0 IA' R); auto.
    + apply cli_same_rep; reflexivity.
    + intros c Hc Hne. apply cli_frame; try reflexivity.
      * unfold s'. simp_st. apply updf_other. exact Hne.
      * unfold s'. simp_st. rewrite upd_net_other by (right; discriminate). reflexivity.
      * apply Hfo. exact Hne.
    + (* Q *)
      unfold cinvC. remember (cl s' c0) as l0 eqn:El0. unfold s' in El0. simp_st. rewrite updf_same in El0. subst l0. simp_st. exists cm. split; [first [exact Ecm | reflexivity]|]. left.
      rewrite (cli_ldr s s') by reflexivity. fold q0.
      split; [reflexivity|]. split; [rewrite Hq1, fromc_app; fold q0 in G3; rewrite G3; cbn; rewrite Nat.eqb_refl; reflexivity|].
      split; [intros SC; apply G4; apply (cli_serving s s' eq_refl eq_refl); exact SC|].
      split; [|exact Hst]. unfold s'. simp_st. rewrite upd_net_other by (right; discriminate). exact G1.
    + intros E. congruence.
    + rewrite (cli_ldr s s') by reflexivity. fold q0. intros _ m1 Hin Hs1. rewrite Hq1 in Hin. apply in_app_or in Hin.
      destruct Hin as [Hin|[<-|[]]]; [apply (rc_q w s mo R Aq m1 Hin Hs1) | exact Hc0].
    + apply (cli_req s s' eq_refl eq_refl w mo R).
  - (* rcvResp: the answer arrives *)
    destruct Hcc as (cm & Ecm & Hcc). unfold step_rcvResp in Hs.
    destruct (ch_alt ch) eqn:Ealt; [exfalso; apply Hnr; auto|]. cbn [negb] in Hs.
    unfold link_recv in Hs. destruct (negb (enabled _)); [discriminate|].
    destruct (queue (net s c0 RESP)) as [|r rest] eqn:Eq; [discriminate|].
    destruct Hcc as [(_ & _ & _ & Q4 & _)|[(_ & _ & _ & _ & _ & H6 & _)|[(_ & _ & _ & _ & _ & S6 & _)|[(R1 & v & rb & rt & R2 & Hst & Hmatch)|([X1 _] & _)]]]]; try discriminate; try (rewrite Eq in X1; discriminate).
    inversion R2; subst r rest. clear R2. simp_st. rewrite Nat.eqb_refl in Hs. cbn [negb] in Hs.
    rewrite Ecm in Hs. cbn [bindT] in Hs.
    assert (Hc : exists c1, Ok (add_hist (set_cl (set_cout (set_net s (upd_net (net s) c0 RESP (mkLink [] (enabled (net s c0 RESP))))) (Some c1)) c0 (c_set_pc (cl s c0) ClientLoop)) (HRes c0 c1)) = Ok s' /\ c1 = v).
    { destruct Hmatch as [(T & -> & -> & ->)|(T & -> & ->)]; rewrite T in Hs.
      - dif Hs; [discriminate|]. cbn [body_content ACK_MSG_BODY bindT] in Hs. eexists. split; [exact Hs | reflexivity].
      - dif Hs; [discriminate|]. cbn [body_content bindT] in Hs. eexists. split; [exact Hs | reflexivity]. }
    destruct Hc as (c1 & Hs1 & ->). clear Hs. inversion Hs1; subst s'; clear Hs1.
    exists (t ++ [IRes c0 v]), (mkMon (mo_store mo) (upd_st (mo_st mo) c0 CIdle)).
    split; [exact IB'|]. split. { rewrite mon_run_app, Hrun. cbn. rewrite Hst, String.eqb_refl. reflexivity. }
    split. { rewrite proj_app. cbn. simp_st. rewrite Hproj. reflexivity. }
    match goal with |- RelC w ?s1 _ => set (s' := s1) in * end.
    apply (relC_special w s s' mo _ c0 IA' R); auto.
    + apply cli_same_rep; reflexivity.
    + intros c Hc Hne. apply cli_frame; try reflexivity.
      * unfold s'. simp_st. apply updf_other. exact Hne.
      * unfold s'. simp_st. rewrite upd_net_other by (left; exact Hne). reflexivity.
      * unfold s'. simp_st. rewrite upd_net_other by (right; discriminate). reflexivity.
    + intros c Hne. cbn. apply upd_st_other. exact Hne.
    + unfold cinvC. remember (cl s' c0) as l0 eqn:El0. unfold s' in El0. simp_st. rewrite updf_same in El0. subst l0. simp_st. split; [|cbn; apply upd_st_same].
      split; [unfold s'; simp_st; rewrite upd_net_same; reflexivity|].
      rewrite (cli_ldr s s') by reflexivity. intros Aq. apply (cli_alive s s') in Aq; [|reflexivity].
      destruct (R1 Aq) as [G3 G4]. split.
      * unfold s'. simp_st. rewrite upd_net_other by (right; discriminate). exact G3.
      * intros SC. apply G4. apply (cli_serving s s' eq_refl eq_refl). exact SC.
    + intros _ [G _]. rewrite Eq in G. discriminate.
    + rewrite (cli_ldr s s') by reflexivity. intros Aq. apply (cli_alive s s') in Aq; [|reflexivity].
      unfold s'. simp_st. rewrite upd_net_other by (right; discriminate). apply (rc_q w s mo R Aq).
    + apply (cli_req s s' eq_refl eq_refl w mo R).
  - discriminate.
Qed.

(* ------------------------------------------------------------------ the simulation *)
Definition retry_step (s : state) (e : event) : Prop :=
  match e with Ev p ch => is_client cfg p = true /\ c_pc (cl s p) = RcvResp /\ ch_alt ch = true end.

Lemma rpc_dec : forall a b : rpc, {a = b} + {a <> b}.
Proof. decide equality. Qed.

Lemma simC_step : forall s e s', SimC s -> step cfg s e = Ok s' -> ~ retry_step s e -> SimC s'.
Proof.
  intros s [p ch] s' HS Hs Hnr. unfold step in Hs.
  destruct (is_replica cfg p) eqn:Er.
  - apply (isrep_iff cfg) in Er.
    destruct (rpc_dec (pcr s p) HandlePrimary) as [E1|N1]; [eapply simC_handlePrimary; eauto|].
    destruct (rpc_dec (pcr s p) SndResp) as [E2|N2]; [eapply simC_sndResp; eauto|].
    destruct (rpc_dec (pcr s p) RcvMsg) as [E3|N3].
    + destruct (rpc_dec (pcr s' p) HandlePrimary) as [E4|N4]; [eapply simC_rcvMsg_client; eauto|].
      eapply simC_internal; eauto.
    + eapply simC_internal; eauto.
  - destruct (is_client cfg p) eqn:Ec; [|discriminate].
    eapply simC_client_step; eauto. intros [A B]. apply Hnr. cbn. auto.
Qed.

Lemma simC_init : forall input, Forall input_ok input -> SimC (init cfg input).
Proof.
  intros input Hin. split; [apply init_invA; exact Hin|].
  exists (mkWit 0 None (fun _ => EmptyString) None), [], mon_init.
  split; [apply init_invB|]. split; [reflexivity|]. split; [reflexivity|].
  assert (NO : ~ someold (mkWit 0 None (fun _ => EmptyString) None) (init cfg input)).
  { intros (r & _ & (H & _)). cbn in H. lia. }
  constructor.
  - intros _ k. reflexivity.
  - intros SO. contradiction.
  - intros _ SO. contradiction.
  - intros c Hc. unfold cinvC. cbn. split; [|reflexivity]. split; [reflexivity|]. intros _. split; [reflexivity|].
    intros (_ & Hsv & _). cbn in Hsv. exact Hsv.
  - intros c _. reflexivity.
  - intros _ m Hin0. destruct Hin0.
  - intros _ Hsv. cbn in Hsv. destruct Hsv.
Qed.

End LC.

(* the hypothesis: no client ever gives up waiting for an answer and re-sends its request *)
Fixpoint no_resend (cfg : config) (s : state) (evs : list event) : Prop :=
  match evs with
  | [] => True
  | e :: evs' => ~ retry_step cfg s e /\ match step cfg s e with Ok s' => no_resend cfg s' evs' | _ => True end
  end.

Lemma simC_exec : forall cfg evs s s', SimC cfg s -> exec cfg s evs = Some s' -> no_resend cfg s evs -> SimC cfg s'.
Proof.
  intros cfg evs. induction evs as [|e evs IH]; intros s s' HS He Hn; cbn in He.
  - inversion He; subst. exact HS.
  - destruct Hn as [Hn1 Hn2]. destruct (step cfg s e) as [s1| | |] eqn:Es; try discriminate.
    apply (IH s1 s'); auto. eapply simC_step; eauto.
Qed.

Lemma linearizable_no_resend_lemma : forall cfg input evs s,
  Forall input_ok input -> exec cfg (init cfg input) evs = Some s -> no_resend cfg (init cfg input) evs ->
  linearizable (hist s).
Proof.
  intros cfg input evs s Hin He Hn.
  destruct (simC_exec cfg evs _ s (simC_init cfg input Hin) He Hn) as (_ & w & t & mo & _ & R1 & R2 & _).
  rewrite <- R2. eapply mon_linearizable. exact R1.
Qed.

(* decidable form of the hypothesis (used by the non-vacuity example) *)
Definition retry_step_b (cfg : config) (s : state) (e : event) : bool :=
  match e with Ev p ch => is_client cfg p && (match c_pc (cl s p) with RcvResp => true | _ => false end) && ch_alt ch end.

Fixpoint no_resend_b (cfg : config) (s : state) (evs : list event) : bool :=
  match evs with
  | [] => true
  | e :: evs' => negb (retry_step_b cfg s e) && match step cfg s e with Ok s' => no_resend_b cfg s' evs' | _ => true end
  end.

Lemma no_resend_b_sound : forall cfg evs s, no_resend_b cfg s evs = true -> no_resend cfg s evs.
Proof.
  intros cfg evs. induction evs as [|[p ch] evs IH]; intros s H; [exact I|].
  cbn [no_resend_b no_resend] in *.
  apply andb_true_iff in H. destruct H as [H1 H2]. split.
  - intros (A & B & C). unfold retry_step_b in H1. rewrite A, B, C in H1. discriminate.
  - destruct (step cfg s (Ev p ch)); try exact I. apply IH. exact H2.
Qed.
