(* C14 — failure-free executions (EXPLORE_FAIL = FALSE), any number of replicas, clients, keys:
   inductive invariant Inv1 and ConsistencyOK. *)
From Coq Require Import List Arith Bool String Lia.
From PGV Require Import C14.Model C14.Proofs.
Import ListNotations.
Open Scope nat_scope.

Ltac simp_st :=
  cbn [net fdv fsv prim cin cout rl cl hist set_net set_fd set_fs set_prim set_cin set_cout set_rl set_cl add_hist
       r_pc r_req r_respBody r_respTyp r_idx r_replicaSet r_shouldSync r_lastPutBody
       r_set_pc r_set_req r_set_resp r_set_idx r_set_rs r_set_sync r_set_lpb
       c_pc c_msg c_replica c_idx c_set_pc queue enabled
       m_from m_to m_body m_src m_typ m_id cm_typ cm_body] in *.

(* destruct the condition of the `if` at the head of hypothesis H *)
Ltac dif H :=
  match type of H with
  | (if ?c then _ else _) = _ => let E := fresh "E" in destruct c eqn:E
  end.

Lemma rpc_eq_dec : forall a b : rpc, {a = b} + {a <> b}.
Proof. decide equality. Qed.

Section FF.
Variable cfg : config.
Hypothesis Hef : explore_fail cfg = false.
Hypothesis HNR : 1 <= NR cfg.

Definition backup (b : node) : Prop := 2 <= b <= NR cfg.

Definition creq (m : msg) : Prop :=
  m_src m = CLIENT_SRC /\ NR cfg < m_from m /\ input_ok (mkCmsg (m_typ m) (m_body m)).

Definition quiet (s : state) (b : node) : Prop := queue (net s b REQ) = [] /\ r_pc (rl s b) <> HandleBackup.
Definition acked (s : state) (b : node) : Prop := In b (map m_from (queue (net s 1 RESP))).
Definition uptodate (s : state) (b : node) : Prop := forall k, fsv s b k = fsv s 1 k.
Definition behind (s : state) (b : node) (k : key) (v : value) : Prop :=
  forall k', fsv s 1 k' = if String.eqb k' k then v else fsv s b k'.
Definition putmsg (b : node) (L : body) (id : nat) : msg := mkMsg 1 b L PRIMARY_SRC PUT_REQ id.

(* status of backup b while the primary replicates the put L = (k,v) *)
Definition bstat (s : state) (S : list node) (L : body) (k : key) (v : value) (id : nat) (sent : Prop) (b : node) : Prop :=
  (~ sent /\ quiet s b /\ ~ acked s b /\ In b S /\ behind s b k v) \/
  (sent /\ queue (net s b REQ) = [putmsg b L id] /\ r_pc (rl s b) <> HandleBackup /\ ~ acked s b /\ In b S /\ behind s b k v) \/
  (sent /\ queue (net s b REQ) = [] /\ r_pc (rl s b) = HandleBackup /\ r_req (rl s b) = Some (putmsg b L id)
        /\ ~ acked s b /\ In b S /\ behind s b k v) \/
  (sent /\ quiet s b /\ acked s b /\ In b S /\ uptodate s b) \/
  (sent /\ quiet s b /\ ~ acked s b /\ ~ In b S /\ uptodate s b).

Definition acks_ok (s : state) : Prop :=
  NoDup (map m_from (queue (net s 1 RESP))) /\ forall m, In m (queue (net s 1 RESP)) -> backup (m_from m).

Definition replicating (s : state) (sent : node -> Prop) : Prop :=
  exists ver k v req,
    r_lastPutBody (rl s 1) = BPut ver (Some (k, v)) /\ r_req (rl s 1) = Some req /\ acks_ok s /\
    forall b, backup b -> bstat s (r_replicaSet (rl s 1)) (BPut ver (Some (k, v))) k v (m_id req) (sent b) b.

Definition clean (s : state) : Prop :=
  queue (net s 1 RESP) = [] /\ forall b, backup b -> quiet s b /\ uptodate s b.

Definition phase_inv (s : state) : Prop :=
  match r_pc (rl s 1) with
  | SndReplicaReqLoop => 1 <= r_idx (rl s 1) /\ replicating s (fun b => b < r_idx (rl s 1))
  | RcvReplicaRespLoop => replicating s (fun _ => True)
  | _ => clean s
  end.

Definition primary_pc_ok (pc : rpc) : Prop :=
  match pc with
  | ReplicaLoop | SyncPrimary | RcvMsg | HandlePrimary | SndReplicaReqLoop | RcvReplicaRespLoop | SndResp => True
  | _ => False end.
Definition primary_has_req (pc : rpc) : Prop :=
  match pc with HandlePrimary | SndReplicaReqLoop | RcvReplicaRespLoop | SndResp => True | _ => False end.
Definition backup_pc_ok (pc : rpc) : Prop :=
  match pc with ReplicaLoop | SyncPrimary | RcvMsg | HandleBackup => True | _ => False end.

Record Inv1 (s : state) : Prop := {
  i_en : forall n c, enabled (net s n c) = true;
  i_fd : forall r, fdv s r = false;
  i_prim : forall r, prim s r = is_replica cfg r;
  i_cin : Forall input_ok (cin s);
  i_cmsg : forall c m, c_msg (cl s c) = Some m -> input_ok m;
  i_q1 : Forall creq (queue (net s 1 REQ));
  i_p_sync : r_shouldSync (rl s 1) = false;
  i_p_pc : primary_pc_ok (r_pc (rl s 1));
  i_p_req : primary_has_req (r_pc (rl s 1)) -> exists m, r_req (rl s 1) = Some m /\ creq m;
  i_b_pc : forall b, backup b -> backup_pc_ok (r_pc (rl s b));
  i_phase : phase_inv s }.

(* ------------------------------------------------------------------ basic facts *)
Lemma leader_is_1 : forall s, Inv1 s -> leader cfg s = 1.
Proof.
  intros s I. apply leader_first; [lia | | intros; lia].
  rewrite (i_prim s I). apply is_replica_true. lia.
Qed.

Lemma backup_others : forall b, In b (others cfg 1) <-> backup b.
Proof. intros. rewrite in_others. unfold backup. lia. Qed.

Lemma replica_cases : forall p, is_replica cfg p = true -> p = 1 \/ backup p.
Proof. intros p H. apply is_replica_true in H. unfold backup. lia. Qed.

Lemma client_not_replica : forall p, is_replica cfg p = false -> is_client cfg p = true -> NR cfg < p.
Proof. intros p _ H. apply is_client_true in H. lia. Qed.

Lemma may_fail_ff : forall ch s self l next,
  may_fail cfg ch s self l next = Ok (set_rl s self (r_set_pc l next)).
Proof. intros. unfold may_fail. rewrite Hef. reflexivity. Qed.

Lemma init_inv1 : forall input, Forall input_ok input -> Inv1 (init cfg input).
Proof.
  intros input Hin. constructor; cbn; try easy.
Qed.

(* ------------------------------------------------------------------ frame lemmas *)
Lemma bstat_frame : forall s s' S S' L k v id (sent sent' : Prop) b,
  queue (net s' b REQ) = queue (net s b REQ) ->
  (acked s' b <-> acked s b) ->
  (r_pc (rl s' b) = HandleBackup <-> r_pc (rl s b) = HandleBackup) ->
  (r_pc (rl s b) = HandleBackup -> r_req (rl s' b) = r_req (rl s b)) ->
  (forall k, fsv s' b k = fsv s b k) -> (forall k, fsv s' 1 k = fsv s 1 k) ->
  (In b S' <-> In b S) -> (sent' <-> sent) ->
  bstat s S L k v id sent b -> bstat s' S' L k v id sent' b.
Proof.
  intros s s' S S' L k v id sent sent' b Hq Ha Hpc Hreq Hfb Hf1 HS Hsent H.
  assert (Q : quiet s b -> quiet s' b).
  { unfold quiet. intros [Q1 Q2]. split; [congruence | tauto]. }
  assert (U : uptodate s b -> uptodate s' b).
  { unfold uptodate. intros U k0. rewrite Hfb, Hf1. apply U. }
  assert (B : behind s b k v -> behind s' b k v).
  { unfold behind. intros B k0. rewrite Hfb, Hf1. apply B. }
  unfold bstat in *.
  destruct H as [H|[H|[H|[H|H]]]].
  - left. tauto.
  - right; left. rewrite Hq. tauto.
  - right; right; left. rewrite Hq. destruct H as (H1 & H2 & H3 & H4 & H5).
    rewrite (Hreq H3). tauto.
  - right; right; right; left. tauto.
  - right; right; right; right. tauto.
Qed.

Lemma clean_frame : forall s s',
  queue (net s' 1 RESP) = queue (net s 1 RESP) ->
  (forall b, backup b -> queue (net s' b REQ) = queue (net s b REQ) /\ r_pc (rl s' b) = r_pc (rl s b) /\
                         forall k, fsv s' b k = fsv s b k) ->
  (forall k, fsv s' 1 k = fsv s 1 k) ->
  clean s -> clean s'.
Proof.
  intros s s' Ha Hb Hf1 [Hc1 Hc2]. split; [congruence|].
  intros b Bb. destruct (Hb b Bb) as (Hq & Hpc & Hfb). destruct (Hc2 b Bb) as [[Q1 Q2] U].
  split; [split; congruence|]. intros k. rewrite Hfb, Hf1. apply U.
Qed.


Lemma replicating_frame : forall s s' (sent : node -> Prop),
  (forall r, rl s' r = rl s r) ->
  (forall b, backup b -> queue (net s' b REQ) = queue (net s b REQ)) ->
  queue (net s' 1 RESP) = queue (net s 1 RESP) ->
  (forall r k, fsv s' r k = fsv s r k) ->
  replicating s sent -> replicating s' sent.
Proof.
  intros s s' sent Hrl Hq Ha Hf (ver & k & v & req & HL & Hreq & [Hnd Hbk] & Hb).
  exists ver, k, v, req. rewrite !Hrl. split; [exact HL|]. split; [exact Hreq|]. split.
  - unfold acks_ok. rewrite Ha. split; assumption.
  - intros b Bb. eapply bstat_frame; try apply Hb; auto; rewrite ?Hrl; try tauto.
    unfold acked. rewrite Ha. tauto.
Qed.

Lemma phase_frame : forall s s',
  (forall r, rl s' r = rl s r) ->
  (forall b, backup b -> queue (net s' b REQ) = queue (net s b REQ)) ->
  queue (net s' 1 RESP) = queue (net s 1 RESP) ->
  (forall r k, fsv s' r k = fsv s r k) ->
  phase_inv s -> phase_inv s'.
Proof.
  intros s s' Hrl Hq Ha Hf H. unfold phase_inv in *. rewrite Hrl.
  assert (C : clean s -> clean s').
  { apply clean_frame; auto. intros b Bb. rewrite Hrl. auto. }
  destruct (r_pc (rl s 1)); auto.
  - destruct H as [H1 H2]. split; [exact H1|]. eapply replicating_frame; eauto.
  - eapply replicating_frame; eauto.
Qed.

Lemma inv1_frame_net : forall s s', Inv1 s ->
  (forall n c, enabled (net s' n c) = true) ->
  (forall r, fdv s' r = fdv s r) -> (forall r, prim s' r = prim s r) ->
  Forall input_ok (cin s') -> (forall c m, c_msg (cl s' c) = Some m -> input_ok m) ->
  Forall creq (queue (net s' 1 REQ)) ->
  (forall r, rl s' r = rl s r) ->
  (forall b, backup b -> queue (net s' b REQ) = queue (net s b REQ)) ->
  queue (net s' 1 RESP) = queue (net s 1 RESP) ->
  (forall r k, fsv s' r k = fsv s r k) ->
  Inv1 s'.
Proof.
  intros s s' I Hen Hfd Hpr Hcin Hcm Hq1 Hrl Hq Ha Hf.
  constructor; auto.
  - intros r. rewrite Hfd. apply (i_fd s I).
  - intros r. rewrite Hpr. apply (i_prim s I).
  - rewrite Hrl. apply (i_p_sync s I).
  - rewrite Hrl. apply (i_p_pc s I).
  - rewrite Hrl. apply (i_p_req s I).
  - intros b Bb. rewrite Hrl. apply (i_b_pc s I b Bb).
  - eapply phase_frame; eauto. apply (i_phase s I).
Qed.

(* ------------------------------------------------------------------ client steps *)
Lemma inv1_client_step : forall s p ch s', Inv1 s -> NR cfg < p ->
  step_client cfg ch s p = Ok s' -> Inv1 s'.
Proof.
  intros s p ch s' I Hp Hs. unfold step_client in Hs.
  destruct (c_pc (cl s p)) eqn:Epc.
  - (* clientLoop *)
    unfold step_clientLoop in Hs. destruct (cin s) as [|m rest] eqn:Ecin; [discriminate|].
    inversion Hs; subst s'; clear Hs.
    pose proof (i_cin s I) as Hc. rewrite Ecin in Hc. inversion Hc; subst.
    apply (inv1_frame_net s); simp_st; auto; try apply I.
    intros c m0. unfold updf. destruct (Nat.eqb c p); simp_st.
    + intros E. inversion E; subst. assumption.
    + apply (i_cmsg s I).
  - (* sndReq *)
    unfold step_sndReq in Hs. rewrite (leader_is_1 s I) in Hs. cbn [Nat.eqb negb] in Hs.
    destruct (ch_alt ch); cbn [negb] in Hs.
    + rewrite (i_fd s I) in Hs. discriminate.
    + destruct (c_msg (cl s p)) as [m|] eqn:Em; cbn [bindT] in Hs; [|discriminate].
      unfold link_send in Hs. rewrite (i_en s I) in Hs. inversion Hs; subst s'; clear Hs.
      apply (inv1_frame_net s); simp_st; auto; try apply I.
      * intros n c. unfold upd_net. destruct (Nat.eqb n 1 && chan_eqb c REQ); [reflexivity | apply (i_en s I)].
      * intros c m0. unfold updf. destruct (Nat.eqb c p); simp_st; [|apply (i_cmsg s I)].
        intros E. inversion E; subst m0. apply (i_cmsg s I p). exact Em.
      * rewrite upd_net_same. simp_st. apply Forall_app. split; [apply (i_q1 s I)|].
        constructor; [|constructor]. unfold creq. simp_st. repeat split; auto.
        pose proof (i_cmsg s I p m Em) as Hok. unfold input_ok in *. simp_st. exact Hok.
      * intros b Bb. rewrite upd_net_other; auto. left. unfold backup in Bb. lia.
  - (* rcvResp *)
    unfold step_rcvResp in Hs. destruct (ch_alt ch); cbn [negb] in Hs.
    + rewrite (i_fd s I) in Hs. discriminate.
    + unfold link_recv in Hs. rewrite (i_en s I) in Hs. cbn [negb] in Hs.
      destruct (queue (net s p RESP)) as [|r q] eqn:Eq; [discriminate|].
      assert (F : forall s1, s1 = set_net s (upd_net (net s) p RESP (mkLink q true)) ->
                  forall l o h, Inv1 (mkSt (net s1) (fdv s1) (fsv s1) (prim s1) (cin s1) o (rl s1) (updf (cl s1) p (c_set_pc (cl s p) l)) h)).
      { intros s1 -> l o h. apply (inv1_frame_net s); simp_st; auto; try apply I.
        - intros n c. unfold upd_net. destruct (Nat.eqb n p && chan_eqb c RESP); [reflexivity | apply (i_en s I)].
        - intros c m0. unfold updf. destruct (Nat.eqb c p); simp_st; apply (i_cmsg s I).
        - rewrite upd_net_other; [apply (i_q1 s I)|]. right. discriminate.
        - intros b Bb. rewrite upd_net_other; auto. right. discriminate.
        - rewrite upd_net_other; auto. left. lia. }
      destruct (negb (Nat.eqb (m_id r) (c_idx (cl s p)))).
      * inversion Hs; subst s'. apply (F _ eq_refl).
      * destruct (c_msg (cl s p)) as [m|]; cbn [bindT] in Hs; [|discriminate].
        destruct (cm_typ m); try discriminate;
          match type of Hs with (if ?c then _ else _) = _ => destruct c; [discriminate|] end;
          destruct (body_content (m_body r)); cbn [bindT] in Hs; try discriminate;
          inversion Hs; subst s'; apply (F _ eq_refl).
  - discriminate.
Qed.


(* ------------------------------------------------------------------ backup steps *)
Lemma inv1_backup_frame : forall s s' p, Inv1 s -> backup p ->
  (forall n c, enabled (net s' n c) = true) ->
  (forall r, fdv s' r = fdv s r) -> (forall r, prim s' r = prim s r) ->
  cin s' = cin s -> (forall c, cl s' c = cl s c) ->
  queue (net s' 1 REQ) = queue (net s 1 REQ) ->
  (forall r, r <> p -> rl s' r = rl s r) ->
  backup_pc_ok (r_pc (rl s' p)) ->
  phase_inv s' -> Inv1 s'.
Proof.
  intros s s' p I Bp Hen Hfd Hpr Hcin Hcl Hq1 Hrl Hpc Hph.
  assert (P1 : rl s' 1 = rl s 1) by (apply Hrl; unfold backup in Bp; lia).
  constructor; auto.
  - intros r. rewrite Hfd. apply (i_fd s I).
  - intros r. rewrite Hpr. apply (i_prim s I).
  - rewrite Hcin. apply (i_cin s I).
  - intros c m. rewrite Hcl. apply (i_cmsg s I).
  - rewrite Hq1. apply (i_q1 s I).
  - rewrite P1. apply (i_p_sync s I).
  - rewrite P1. apply (i_p_pc s I).
  - rewrite P1. apply (i_p_req s I).
  - intros b Bb. destruct (Nat.eq_dec b p) as [->|Hne]; [exact Hpc|].
    rewrite Hrl by exact Hne. apply (i_b_pc s I b Bb).
Qed.

Lemma phase_backup : forall s s',
  rl s' 1 = rl s 1 ->
  (clean s -> clean s') ->
  (forall sent, replicating s sent -> replicating s' sent) ->
  phase_inv s -> phase_inv s'.
Proof.
  intros s s' P1 Hc Hr H. unfold phase_inv in *. rewrite P1.
  destruct (r_pc (rl s 1)); auto.
  destruct H as [H1 H2]. split; auto.
Qed.

Lemma inv1_rl_step : forall s p l', Inv1 s -> backup p ->
  (r_pc l' = HandleBackup <-> r_pc (rl s p) = HandleBackup) ->
  (r_pc (rl s p) = HandleBackup -> r_req l' = r_req (rl s p)) ->
  backup_pc_ok (r_pc l') ->
  Inv1 (set_rl s p l').
Proof.
  intros s p l' I Bp Hpc Hreq Hok.
  assert (Hne1 : p <> 1) by (unfold backup in Bp; lia).
  apply (inv1_backup_frame s _ p I Bp); simp_st; auto; try apply I.
  - intros r Hr. apply updf_other. exact Hr.
  - rewrite updf_same. exact Hok.
  - apply (phase_backup s); simp_st.
    + apply updf_other. lia.
    + intros [C1 C2]. split; [exact C1|]. intros b Bb. destruct (C2 b Bb) as [[Q1 Q2] U].
      split; [split; [exact Q1|] | exact U]. simp_st.
      destruct (Nat.eq_dec b p) as [->|Hne]; [rewrite updf_same; tauto | rewrite updf_other by exact Hne; exact Q2].
    + intros sent (ver & k & v & req & HL & Hrq & Hacks & Hb).
      exists ver, k, v, req. simp_st. rewrite !updf_other by lia.
      split; [exact HL|]. split; [exact Hrq|]. split; [exact Hacks|].
      intros b Bb. eapply bstat_frame; try apply (Hb b Bb); simp_st; try tauto; try reflexivity.
      * destruct (Nat.eq_dec b p) as [->|Hne]; [rewrite updf_same; exact Hpc | rewrite updf_other by exact Hne; tauto].
      * destruct (Nat.eq_dec b p) as [->|Hne]; [rewrite updf_same; exact Hreq | rewrite updf_other by exact Hne; tauto].
    + apply (i_phase s I).
Qed.


Lemma bstat_pc_hb : forall s S L k v id sent b,
  bstat s S L k v id sent b -> r_pc (rl s b) = HandleBackup ->
  sent /\ queue (net s b REQ) = [] /\ r_req (rl s b) = Some (putmsg b L id) /\ ~ acked s b /\ In b S /\ behind s b k v.
Proof.
  intros s S L k v id sent b H Hpc. unfold bstat, quiet in H.
  destruct H as [H|[H|[H|[H|H]]]]; try tauto.
Qed.

Lemma bstat_queue_ne : forall s S L k v id sent b m q,
  bstat s S L k v id sent b -> queue (net s b REQ) = m :: q ->
  m = putmsg b L id /\ q = [] /\ sent /\ r_pc (rl s b) <> HandleBackup /\ ~ acked s b /\ In b S /\ behind s b k v.
Proof.
  intros s S L k v id sent b m q H Hq. unfold bstat, quiet in H. rewrite Hq in H.
  destruct H as [H|[H|[H|[H|H]]]]; try (exfalso; intuition congruence).
  destruct H as (H1 & H2 & H3). inversion H2; subst. tauto.
Qed.

Lemma inv1_backup_step : forall s p ch s', Inv1 s -> backup p ->
  step_replica cfg ch s p = Ok s' -> Inv1 s'.
Proof.
  intros s p ch s' I Bp Hs.
  assert (Hne1 : p <> 1) by (unfold backup in Bp; lia).
  assert (Hl1 : Nat.eqb 1 p = false) by (apply Nat.eqb_neq; lia).
  pose proof (i_b_pc s I p Bp) as Hpcok.
  unfold step_replica in Hs. destruct (r_pc (rl s p)) eqn:Epc; try (exfalso; exact Hpcok).
  - (* replicaLoop *)
    unfold step_replicaLoop in Hs. rewrite may_fail_ff in Hs. inversion Hs; subst s'.
    apply inv1_rl_step; simp_st; auto; try (rewrite Epc; split; discriminate).
  - (* syncPrimary *)
    unfold step_syncPrimary in Hs. rewrite (leader_is_1 s I), Hl1 in Hs. cbn [andb] in Hs.
    inversion Hs; subst s'.
    apply inv1_rl_step; simp_st; auto; try (rewrite Epc; split; discriminate).
  - (* rcvMsg *)
    unfold step_rcvMsg in Hs. rewrite (leader_is_1 s I), Hl1 in Hs. cbn [andb] in Hs.
    unfold link_recv in Hs. rewrite (i_en s I) in Hs. cbn [negb] in Hs.
    destruct (queue (net s p REQ)) as [|m q] eqn:Eq; [discriminate|].
    destruct (negb (Nat.eqb (m_to m) p)); [discriminate|].
    change (leader cfg (set_net s (upd_net (net s) p REQ (mkLink q true)))) with (leader cfg s) in Hs.
    rewrite (leader_is_1 s I), Hl1 in Hs. cbn [andb] in Hs. inversion Hs; subst s'; clear Hs.
    apply (inv1_backup_frame s _ p I Bp); simp_st; auto.
    + intros n c. unfold upd_net. destruct (Nat.eqb n p && chan_eqb c REQ); [reflexivity | apply (i_en s I)].
    + rewrite upd_net_other by (left; lia). reflexivity.
    + intros r Hr. apply updf_other. exact Hr.
    + rewrite updf_same. exact Logic.I.
    + assert (R : forall sent, replicating s sent ->
                  replicating (set_rl (set_net s (upd_net (net s) p REQ (mkLink q true))) p
                                      (r_set_pc (r_set_req (rl s p) (Some m)) HandleBackup)) sent).
      { intros sent (ver & k & v & req & HL & Hrq & Hacks & Hb).
        exists ver, k, v, req. simp_st. rewrite !updf_other by lia.
        split; [exact HL|]. split; [exact Hrq|]. split.
        { unfold acks_ok in *. simp_st. rewrite upd_net_other by (left; lia). exact Hacks. }
        intros b Bb. destruct (Nat.eq_dec b p) as [->|Hne].
        - destruct (bstat_queue_ne _ _ _ _ _ _ _ _ _ _ (Hb p Bp) Eq) as (Em & Eq' & Hsent & _ & Hna & HinS & Hbeh).
          subst m q. right; right; left. unfold acked, behind in *. simp_st.
          rewrite upd_net_same, updf_same, upd_net_other by (left; lia). simp_st. tauto.
        - eapply bstat_frame; try apply (Hb b Bb); simp_st; try tauto; try reflexivity.
          + rewrite upd_net_other by (left; exact Hne). reflexivity.
          + unfold acked. simp_st. rewrite upd_net_other by (left; lia). tauto.
          + rewrite updf_other by exact Hne. tauto.
          + rewrite updf_other by exact Hne. tauto. }
      pose proof (i_phase s I) as Hph. unfold phase_inv in *. simp_st. rewrite updf_other by lia.
      assert (NC : ~ clean s).
      { intros [_ C]. destruct (C p Bp) as [[Q _] _]. congruence. }
      destruct (r_pc (rl s 1)); try (exfalso; exact (NC Hph)).
      * destruct Hph as [H1 H2]. split; [exact H1 | apply R; exact H2].
      * apply R; exact Hph.
  - (* handleBackup *)
    pose proof (i_phase s I) as Hph.
    assert (NC : ~ clean s).
    { intros [_ C]. destruct (C p Bp) as [[_ Q] _]. congruence. }
    assert (R : exists sent, replicating s sent /\
                (r_pc (rl s 1) = SndReplicaReqLoop \/ r_pc (rl s 1) = RcvReplicaRespLoop)).
    { unfold phase_inv in Hph. destruct (r_pc (rl s 1)); try (exfalso; exact (NC Hph)).
      - destruct Hph as [_ H2]. eexists; split; [exact H2 | left; reflexivity].
      - eexists; split; [exact Hph | right; reflexivity]. }
    destruct R as (sent & (ver & k & v & req & HL & Hrq & [Hnd Hbk] & Hb) & Hpc1).
    destruct (bstat_pc_hb _ _ _ _ _ _ _ _ (Hb p Bp) Epc) as (Hsent & Hq & Hreq & Hna & HinS & Hbeh).
    unfold step_handleBackup in Hs. rewrite Hreq in Hs. cbn in Hs.
    destruct (body_ver (r_lastPutBody (rl s p))) as [lv|]; cbn in Hs; [|discriminate].
    dif Hs; [discriminate|].
    destruct (ch_alt ch); cbn [negb] in Hs.
    { rewrite (i_fd s I) in Hs. discriminate. }
    unfold link_send in Hs. simp_st. rewrite (i_en s I) in Hs. inversion Hs; subst s'; clear Hs.
    apply (inv1_backup_frame s _ p I Bp); simp_st; auto.
    + intros n c. unfold upd_net. destruct (Nat.eqb n 1 && chan_eqb c RESP); [reflexivity | apply (i_en s I)].
    + intros r Hr. apply updf_other. exact Hr.
    + rewrite updf_same. exact Logic.I.
    + match goal with |- phase_inv ?s2 => assert (T : forall sent0, replicating s sent0 -> replicating s2 sent0) end.
      { clear Hb Hsent. intros sent0 (ver0 & k0 & v0 & req0 & HL0 & Hrq0 & _ & Hb).
        rewrite HL in HL0. inversion HL0; subst ver0 k0 v0. rewrite Hrq in Hrq0. inversion Hrq0; subst req0.
        destruct (bstat_pc_hb _ _ _ _ _ _ _ _ (Hb p Bp) Epc) as (Hsent & _).
        exists ver, k, v, req. simp_st. rewrite !updf_other by lia.
        split; [exact HL|]. split; [exact Hrq|]. split.
        { unfold acks_ok. simp_st. rewrite upd_net_same. simp_st. rewrite map_app. cbn [map m_from]. split.
          - apply NoDup_snoc; assumption.
          - intros m Hm. apply in_app_or in Hm. destruct Hm as [Hm|[<-|[]]]; [apply Hbk; exact Hm | exact Bp]. }
        intros b Bb. destruct (Nat.eq_dec b p) as [->|Hne].
        - right; right; right; left. unfold quiet, acked, uptodate. simp_st.
          rewrite upd_net_same, updf_same, upd_net_other by (right; discriminate). simp_st.
          split; [exact Hsent|]. split; [split; [exact Hq | discriminate]|].
          split; [rewrite map_app; apply in_or_app; right; left; reflexivity|].
          split; [exact HinS|]. intros k0. rewrite upd_fs_node, upd_fs_other_node by lia.
          rewrite (Hbeh k0). reflexivity.
        - eapply bstat_frame; try apply (Hb b Bb); simp_st; try tauto; try reflexivity.
          + rewrite upd_net_other by (right; discriminate). reflexivity.
          + unfold acked. simp_st. rewrite upd_net_same. simp_st. rewrite map_app, in_app_iff. cbn. intuition congruence.
          + rewrite updf_other by exact Hne. tauto.
          + rewrite updf_other by exact Hne. tauto.
          + intros k0. apply upd_fs_other_node. exact Hne.
          + intros k0. apply upd_fs_other_node. lia. }
      unfold phase_inv in *. simp_st. rewrite updf_other by lia.
      destruct (r_pc (rl s 1)); try (exfalso; exact (NC Hph)).
      * destruct Hph as [H1 H2]. split; [exact H1 | apply T; exact H2].
      * apply T; exact Hph.
Qed.


(* ------------------------------------------------------------------ primary steps *)
Lemma inv1_primary_frame : forall s s', Inv1 s ->
  (forall n c, enabled (net s' n c) = true) ->
  (forall r, fdv s' r = fdv s r) -> (forall r, prim s' r = prim s r) ->
  cin s' = cin s -> (forall c, cl s' c = cl s c) ->
  Forall creq (queue (net s' 1 REQ)) ->
  (forall r, r <> 1 -> rl s' r = rl s r) ->
  r_shouldSync (rl s' 1) = false ->
  primary_pc_ok (r_pc (rl s' 1)) ->
  (primary_has_req (r_pc (rl s' 1)) -> exists m, r_req (rl s' 1) = Some m /\ creq m) ->
  phase_inv s' -> Inv1 s'.
Proof.
  intros s s' I Hen Hfd Hpr Hcin Hcl Hq1 Hrl Hsync Hpc Hreq Hph.
  constructor; auto.
  - intros r. rewrite Hfd. apply (i_fd s I).
  - intros r. rewrite Hpr. apply (i_prim s I).
  - rewrite Hcin. apply (i_cin s I).
  - intros c m. rewrite Hcl. apply (i_cmsg s I).
  - intros b Bb. rewrite Hrl by (unfold backup in Bb; lia). apply (i_b_pc s I b Bb).
Qed.

(* a step of the primary that touches only its own locals and leaves it outside the replication labels *)
Lemma inv1_primary_local : forall s l', Inv1 s ->
  clean s ->
  r_shouldSync l' = false -> primary_pc_ok (r_pc l') ->
  r_pc l' <> SndReplicaReqLoop -> r_pc l' <> RcvReplicaRespLoop ->
  (primary_has_req (r_pc l') -> exists m, r_req l' = Some m /\ creq m) ->
  Inv1 (set_rl s 1 l').
Proof.
  intros s l' I Hc Hsync Hpc Hn1 Hn2 Hreq.
  apply (inv1_primary_frame s); simp_st; auto; try apply I; try (rewrite updf_same; assumption).
  - intros r Hr. apply updf_other. exact Hr.
  - assert (C : clean (set_rl s 1 l')).
    { eapply clean_frame; try exact Hc; simp_st; auto.
      intros b Bb. rewrite updf_other by (unfold backup in Bb; lia). auto. }
    unfold phase_inv. simp_st. rewrite updf_same. destruct (r_pc l'); auto; congruence.
Qed.

Lemma phase_clean : forall s, phase_inv s ->
  r_pc (rl s 1) <> SndReplicaReqLoop -> r_pc (rl s 1) <> RcvReplicaRespLoop -> clean s.
Proof.
  intros s H H1 H2. unfold phase_inv in H. destruct (r_pc (rl s 1)); auto; congruence.
Qed.

Lemma creq_cases : forall m, creq m ->
  (m_typ m = GET_REQ /\ exists k, m_body m = BReq k None) \/
  (m_typ m = PUT_REQ /\ exists k v, m_body m = BReq k (Some v)).
Proof.
  intros m (_ & _ & H). unfold input_ok in H. simp_st.
  destruct (m_typ m); try contradiction; destruct (m_body m) as [k [v|]| |]; try contradiction; eauto.
Qed.


Lemma inv1_primary_step_a : forall s ch s', Inv1 s ->
  r_pc (rl s 1) <> SndReplicaReqLoop -> r_pc (rl s 1) <> RcvReplicaRespLoop ->
  step_replica cfg ch s 1 = Ok s' -> Inv1 s'.
Proof.
  intros s ch s' I Hn1 Hn2 Hs.
  pose proof (phase_clean s (i_phase s I) Hn1 Hn2) as Hc.
  pose proof (i_p_pc s I) as Hpcok. pose proof (i_p_sync s I) as Hsync.
  unfold step_replica in Hs. destruct (r_pc (rl s 1)) eqn:Epc; try (exfalso; exact Hpcok); try congruence.
  - (* replicaLoop *)
    unfold step_replicaLoop in Hs. rewrite may_fail_ff in Hs. inversion Hs; subst s'.
    apply inv1_primary_local; simp_st; auto; try discriminate. intros [].
  - (* syncPrimary *)
    unfold step_syncPrimary in Hs. rewrite Hsync, andb_false_r in Hs. inversion Hs; subst s'.
    apply inv1_primary_local; simp_st; auto; try discriminate. intros [].
  - (* rcvMsg *)
    unfold step_rcvMsg in Hs. rewrite Hsync, andb_false_r in Hs.
    unfold link_recv in Hs. rewrite (i_en s I) in Hs. cbn [negb] in Hs.
    destruct (queue (net s 1 REQ)) as [|m q] eqn:Eq; [discriminate|].
    pose proof (i_q1 s I) as Hq1. rewrite Eq in Hq1. inversion Hq1 as [|? ? Hm Hq]; subst.
    dif Hs; [discriminate|].
    change (leader cfg (set_net s (upd_net (net s) 1 REQ (mkLink q true)))) with (leader cfg s) in Hs.
    rewrite (leader_is_1 s I) in Hs. destruct Hm as (Hsrc & Hfrom & Hok). rewrite Hsrc in Hs. cbn in Hs.
    inversion Hs; subst s'; clear Hs.
    apply (inv1_primary_frame s); simp_st; auto; try apply I; try rewrite updf_same; simp_st; auto.
    + intros n c. unfold upd_net. destruct (Nat.eqb n 1 && chan_eqb c REQ); [reflexivity | apply (i_en s I)].
    + intros r Hr. apply updf_other. exact Hr.
    + intros _. exists m. split; [reflexivity|]. repeat split; assumption.
    + unfold phase_inv. simp_st. rewrite updf_same. simp_st.
      eapply clean_frame; try exact Hc; simp_st; auto.
      intros b Bb. rewrite updf_other, upd_net_other by (unfold backup in Bb; lia). auto.
  - (* handlePrimary *)
    destruct (i_p_req s I) as (m & Hreq & Hm); [rewrite Epc; exact Logic.I|].
    unfold step_handlePrimary in Hs. rewrite Hreq in Hs. cbn [bindT] in Hs.
    pose proof Hm as (Hsrc & Hfrom & Hok). rewrite Hsrc in Hs. cbn [srct_eqb negb] in Hs.
    destruct (creq_cases m Hm) as [(Ht & k & Hb) | (Ht & k & v & Hb)]; rewrite Ht, Hb in Hs; cbn [body_key body_value bindT] in Hs.
    + (* GET *)
      inversion Hs; subst s'. apply inv1_primary_local; simp_st; auto; try discriminate.
      intros _. exists m. split; assumption.
    + (* PUT *)
      destruct (body_ver (r_lastPutBody (rl s 1))) as [lv|]; cbn [bindT] in Hs; [|discriminate].
      inversion Hs; subst s'; clear Hs.
      apply (inv1_primary_frame s); simp_st; auto; try apply I; try rewrite updf_same; simp_st; auto.
      * intros r Hr. apply updf_other. exact Hr.
      * intros _. exists m. split; assumption.
      * destruct Hc as [Hc1 Hc2].
        unfold phase_inv. simp_st. rewrite updf_same. simp_st. split; [lia|].
        exists (lv + 1), k, v, m. simp_st. rewrite updf_same. simp_st.
        split; [reflexivity|]. split; [exact Hreq|]. split.
        { unfold acks_ok. simp_st. rewrite Hc1. split; [constructor | intros ? []]. }
        intros b Bb. destruct (Hc2 b Bb) as [[Q1 Q2] U]. left.
        assert (Hb1 : b <> 1) by (unfold backup in Bb; lia).
        unfold quiet, acked, behind. simp_st. rewrite updf_other by exact Hb1. rewrite Hc1.
        split; [unfold backup in Bb; lia|]. split; [split; assumption|]. split; [intros []|].
        split; [apply backup_others; exact Bb|].
        intros k'. rewrite upd_fs_node, upd_fs_other_node by exact Hb1. rewrite U. reflexivity.
  - (* sndResp *)
    destruct (i_p_req s I) as (m & Hreq & Hm); [rewrite Epc; exact Logic.I|].
    unfold step_sndResp in Hs. rewrite Hreq in Hs. cbn [bindT] in Hs.
    destruct (r_respBody (rl s 1)) as [rb|]; cbn [bindT] in Hs; [|discriminate].
    destruct (r_respTyp (rl s 1)) as [rt|]; cbn [bindT] in Hs; [|discriminate].
    unfold link_send in Hs. simp_st. rewrite (i_en s I) in Hs. inversion Hs; subst s'; clear Hs.
    destruct Hm as (Hsrc & Hfrom & Hok).
    apply (inv1_primary_frame s); simp_st; auto; try apply I; try rewrite updf_same; simp_st; auto.
    + intros n c. unfold upd_net. destruct (Nat.eqb n (m_from m) && chan_eqb c RESP); [reflexivity | apply (i_en s I)].
    + rewrite upd_net_other by (right; discriminate). apply (i_q1 s I).
    + intros r Hr. apply updf_other. exact Hr.
    + intros [].
    + unfold phase_inv. simp_st. rewrite updf_same. simp_st.
      eapply clean_frame; try exact Hc; simp_st; auto.
      * rewrite upd_net_other by (left; lia). reflexivity.
      * intros b Bb. rewrite updf_other, upd_net_other by (unfold backup in Bb; lia). auto.
Qed.


Lemma inv1_primary_snd : forall s ch s', Inv1 s ->
  r_pc (rl s 1) = SndReplicaReqLoop ->
  step_replica cfg ch s 1 = Ok s' -> Inv1 s'.
Proof.
  intros s ch s' I Epc Hs.
  pose proof (i_phase s I) as Hph. unfold phase_inv in Hph. rewrite Epc in Hph.
  destruct Hph as (Hidx & ver & k & v & req & HL & Hrq & [Hnd Hbk] & Hb).
  destruct (i_p_req s I) as (m & Hreq & Hm); [rewrite Epc; exact Logic.I|].
  rewrite Hrq in Hreq. inversion Hreq; subst m; clear Hreq.
  pose proof (i_p_sync s I) as Hsync.
  unfold step_replica in Hs. rewrite Epc in Hs. unfold step_sndReplicaReqLoop in Hs.
  rewrite Hrq in Hs. cbn [bindT] in Hs. unfold step_sndLoop in Hs.
  (* common conclusion: a new state whose primary locals differ only in idx / pc *)
  assert (F : forall s1 l',
     (forall n c, enabled (net s1 n c) = true) -> fdv s1 = fdv s -> prim s1 = prim s -> cin s1 = cin s -> cl s1 = cl s ->
     rl s1 = rl s -> queue (net s1 1 REQ) = queue (net s 1 REQ) ->
     r_shouldSync l' = false -> r_req l' = Some req ->
     (r_pc l' = SndReplicaReqLoop \/ r_pc l' = RcvReplicaRespLoop) ->
     phase_inv (set_rl s1 1 l') -> Inv1 (set_rl s1 1 l')).
  { intros s1 l' Hen Hfd Hpr Hcin Hcl Hrl Hq1 Hsy Hrq' Hpc' Hph'.
    apply (inv1_primary_frame s); simp_st; auto; try rewrite updf_same; auto.
    - intros r. rewrite Hfd. reflexivity.
    - intros r. rewrite Hpr. reflexivity.
    - intros c. rewrite Hcl. reflexivity.
    - rewrite Hq1. apply (i_q1 s I).
    - intros r Hr. rewrite updf_other, Hrl by exact Hr. reflexivity.
    - destruct Hpc' as [-> | ->]; exact Logic.I.
    - intros _. exists req. split; assumption. }
  destruct (r_idx (rl s 1) <=? NR cfg) eqn:Ele.
  - apply Nat.leb_le in Ele.
    destruct (negb (Nat.eqb (r_idx (rl s 1)) 1)) eqn:Eself.
    + apply negb_true_iff, Nat.eqb_neq in Eself.
      assert (Bj : backup (r_idx (rl s 1))) by (unfold backup; lia).
      destruct (ch_alt ch); cbn [negb] in Hs.
      { rewrite (i_fd s I) in Hs. discriminate. }
      unfold link_send in Hs. rewrite (i_en s I) in Hs. rewrite may_fail_ff in Hs.
      inversion Hs; subst s'; clear Hs.
      apply F; simp_st; auto; try (rewrite Epc; auto).
      * intros n c. unfold upd_net. destruct (Nat.eqb n (r_idx (rl s 1)) && chan_eqb c REQ); [reflexivity | apply (i_en s I)].
      * rewrite upd_net_other by (left; lia). reflexivity.
      * unfold phase_inv. simp_st. rewrite updf_same. simp_st. split; [lia|].
        exists ver, k, v, req. simp_st. rewrite updf_same. simp_st.
        split; [exact HL|]. split; [exact Hrq|]. split.
        { unfold acks_ok. simp_st. rewrite upd_net_other by (right; discriminate). split; assumption. }
        intros b Bb. assert (Hb1 : b <> 1) by (unfold backup in Bb; lia).
        destruct (Nat.eq_dec b (r_idx (rl s 1))) as [Eb|Hne].
        -- subst b. pose proof (Hb _ Bj) as St. unfold bstat in St.
           destruct St as [St|[St|[St|[St|St]]]]; try (exfalso; destruct St as [St _]; lia).
           destruct St as (_ & [Q1 Q2] & Hna & HinS & Hbeh).
           right; left. unfold acked, behind in *. simp_st.
           rewrite upd_net_same, updf_other, upd_net_other by (try (right; discriminate); exact Hb1). simp_st.
           rewrite Q1, HL. cbn [app]. repeat split; auto. lia.
        -- eapply bstat_frame; try apply (Hb b Bb); simp_st; try tauto; try reflexivity.
           ++ rewrite upd_net_other by (left; exact Hne). reflexivity.
           ++ unfold acked. simp_st. rewrite upd_net_other by (right; discriminate). tauto.
           ++ rewrite updf_other by exact Hb1. tauto.
           ++ rewrite updf_other by exact Hb1. tauto.
           ++ lia.
    + apply negb_false_iff, Nat.eqb_eq in Eself.
      rewrite may_fail_ff in Hs. inversion Hs; subst s'; clear Hs.
      apply F; simp_st; auto; try (rewrite Epc; auto); try apply (i_en s I).
      unfold phase_inv. simp_st. rewrite updf_same. simp_st. split; [lia|].
      exists ver, k, v, req. simp_st. rewrite updf_same. simp_st.
      split; [exact HL|]. split; [exact Hrq|]. split; [split; assumption|].
      intros b Bb. assert (Hb1 : b <> 1) by (unfold backup in Bb; lia).
      eapply bstat_frame; try apply (Hb b Bb); simp_st; try tauto; try reflexivity.
      * rewrite updf_other by exact Hb1. tauto.
      * rewrite updf_other by exact Hb1. tauto.
      * unfold backup in Bb. lia.
  - apply Nat.leb_gt in Ele. inversion Hs; subst s'; clear Hs.
    apply F; simp_st; auto; try apply (i_en s I).
    unfold phase_inv. simp_st. rewrite updf_same. simp_st.
    exists ver, k, v, req. simp_st. rewrite updf_same. simp_st.
    split; [exact HL|]. split; [exact Hrq|]. split; [split; assumption|].
    intros b Bb. assert (Hb1 : b <> 1) by (unfold backup in Bb; lia).
    eapply bstat_frame; try apply (Hb b Bb); simp_st; try tauto; try reflexivity.
    * rewrite updf_other by exact Hb1. tauto.
    * rewrite updf_other by exact Hb1. tauto.
    * unfold backup in Bb. split; [lia | auto].
Qed.


Lemma inv1_primary_rcv : forall s ch s', Inv1 s ->
  r_pc (rl s 1) = RcvReplicaRespLoop ->
  step_replica cfg ch s 1 = Ok s' -> Inv1 s'.
Proof.
  intros s ch s' I Epc Hs.
  pose proof (i_phase s I) as Hph. unfold phase_inv in Hph. rewrite Epc in Hph.
  destruct Hph as (ver & k & v & req & HL & Hrq & [Hnd Hbk] & Hb).
  destruct (i_p_req s I) as (m & Hreq & Hm); [rewrite Epc; exact Logic.I|].
  rewrite Hrq in Hreq. inversion Hreq; subst m; clear Hreq.
  pose proof (i_p_sync s I) as Hsync.
  unfold step_replica in Hs. rewrite Epc in Hs. unfold step_rcvReplicaRespLoop in Hs.
  destruct (r_replicaSet (rl s 1)) as [|x S0] eqn:ES.
  - (* all acknowledged: the replicas agree *)
    inversion Hs; subst s'; clear Hs.
    assert (Hacks : queue (net s 1 RESP) = []).
    { destruct (queue (net s 1 RESP)) as [|m q] eqn:Eq; [reflexivity|]. exfalso.
      assert (Bm : backup (m_from m)) by (apply Hbk; left; reflexivity).
      pose proof (Hb _ Bm) as St. unfold bstat, acked in St. rewrite Eq in St. cbn [map In] in St.
      destruct St as [St|[St|[St|[St|St]]]]; intuition. }
    apply (inv1_primary_frame s); simp_st; auto; try apply I; try rewrite updf_same; simp_st; auto.
    + intros r Hr. apply updf_other. exact Hr.
    + exact Logic.I.
    + intros _. exists req. split; assumption.
    + unfold phase_inv. simp_st. rewrite updf_same. simp_st. split; [exact Hacks|].
      intros b Bb. assert (Hb1 : b <> 1) by (unfold backup in Bb; lia).
      pose proof (Hb b Bb) as St. unfold bstat in St. unfold quiet, uptodate in *. simp_st.
      rewrite updf_other by exact Hb1.
      destruct St as [St|[St|[St|[St|St]]]]; cbn [In] in St; intuition.
  - remember (x :: S0) as S eqn:HS.
    destruct (ch_alt ch); cbn [negb] in Hs.
    { destruct (negb (mem_node (ch_pick ch) S)); [discriminate|]. rewrite (i_fd s I) in Hs. discriminate. }
    unfold link_recv in Hs. rewrite (i_en s I) in Hs. cbn [negb] in Hs.
    destruct (queue (net s 1 RESP)) as [|m q] eqn:Eq; [discriminate|].
    rewrite Hrq in Hs. cbn [bindT] in Hs. simp_st. rewrite (i_fd s I), orb_false_r in Hs.
    dif Hs; [discriminate|]. rewrite may_fail_ff in Hs. inversion Hs; subst s'; clear Hs.
    apply negb_false_iff in E. repeat (apply andb_true_iff in E; destruct E as [E ?]).
    apply mem_node_true in E. rename E into HinS.
    cbn [map] in Hnd. inversion Hnd as [|? ? Hnotin Hnd']; subst.
    apply (inv1_primary_frame s); simp_st; auto; try apply I; try rewrite updf_same; simp_st; auto.
    + intros n c. unfold upd_net. destruct (Nat.eqb n 1 && chan_eqb c RESP); [reflexivity | apply (i_en s I)].
    + intros r Hr. apply updf_other. exact Hr.
    + exact Logic.I.
    + intros _. exists req. split; assumption.
    + unfold phase_inv. simp_st. rewrite updf_same. simp_st.
      exists ver, k, v, req. simp_st. rewrite updf_same. simp_st.
      split; [exact HL|]. split; [exact Hrq|]. split.
      { unfold acks_ok. simp_st. split; [exact Hnd'|]. intros m0 Hm0. apply Hbk. right. exact Hm0. }
      intros b Bb. assert (Hb1 : b <> 1) by (unfold backup in Bb; lia).
      pose proof (Hb b Bb) as St.
      destruct (Nat.eq_dec b (m_from m)) as [Eb|Hne].
      * subst b.
        assert (A : acked s (m_from m)) by (unfold acked; rewrite Eq; left; reflexivity).
        unfold bstat in St. destruct St as [St|[St|[St|[St|St]]]]; try (exfalso; tauto).
        destruct St as (_ & [Q1 Q2] & _ & _ & U).
        right; right; right; right. unfold quiet, acked, uptodate. simp_st.
        rewrite updf_other by exact Hb1. rewrite in_remove_node.
        rewrite upd_net_other by (right; discriminate). rewrite upd_net_same. simp_st.
        split; [exact Logic.I|]. split; [split; assumption|]. split; [exact Hnotin|]. split; [tauto | exact U].
      * eapply bstat_frame; try apply St; simp_st; try tauto; try reflexivity.
        -- rewrite upd_net_other by (right; discriminate). reflexivity.
        -- unfold acked. simp_st. rewrite upd_net_same, Eq. simp_st. cbn [map In]. intuition congruence.
        -- rewrite updf_other by exact Hb1. tauto.
        -- rewrite updf_other by exact Hb1. tauto.
        -- rewrite in_remove_node. tauto.
Qed.

Lemma inv1_step : forall s e s', Inv1 s -> step cfg s e = Ok s' -> Inv1 s'.
Proof.
  intros s [p ch] s' I Hs. unfold step in Hs.
  destruct (is_replica cfg p) eqn:Er.
  - destruct (replica_cases p Er) as [->|Bp].
    + destruct (rpc_eq_dec (r_pc (rl s 1)) SndReplicaReqLoop) as [E|N1]; [eapply inv1_primary_snd; eauto|].
      destruct (rpc_eq_dec (r_pc (rl s 1)) RcvReplicaRespLoop) as [E|N2]; [eapply inv1_primary_rcv; eauto|].
      eapply inv1_primary_step_a; eauto.
    + eapply inv1_backup_step; eauto.
  - destruct (is_client cfg p) eqn:Ec; [|discriminate].
    apply (inv1_client_step s p ch s' I); [apply client_not_replica; assumption | exact Hs].
Qed.

Lemma inv1_reachable : forall input s, Forall input_ok input -> reachable cfg input s -> Inv1 s.
Proof.
  intros input s Hin Hr. induction Hr.
  - apply init_inv1. exact Hin.
  - eapply inv1_step; eauto.
Qed.

Lemma inv1_consistency : forall s, Inv1 s -> ConsistencyOK cfg s.
Proof.
  intros s I p (Hp & Ha & Hmin) Hpc r Hr Har k.
  assert (Alive1 : is_alive s 1).
  { pose proof (i_p_pc s I) as H. unfold is_alive. destruct (r_pc (rl s 1)); cbn in H; try contradiction; split; discriminate. }
  assert (p = 1).
  { assert (p <= 1) by (apply Hmin; [unfold in_replicas; lia | exact Alive1]). unfold in_replicas in Hp. lia. }
  subst p. pose proof (i_phase s I) as Hph. unfold phase_inv in Hph. rewrite Hpc in Hph.
  destruct (Nat.eq_dec r 1) as [->|Hne]; [reflexivity|].
  destruct Hph as [_ C]. destruct (C r) as [_ U]; [unfold backup, in_replicas in *; lia|].
  symmetry. apply U.
Qed.

End FF.

Lemma consistency_failure_free_lemma : forall cfg input evs s,
  explore_fail cfg = false -> Forall input_ok input ->
  exec cfg (init cfg input) evs = Some s -> ConsistencyOK cfg s.
Proof.
  intros cfg input evs s Hef Hin He.
  destruct (Nat.eq_dec (NR cfg) 0) as [E0|Hn0].
  - intros p (Hp & _) _. unfold in_replicas in Hp. lia.
  - assert (HNR : 1 <= NR cfg) by lia.
    apply (inv1_consistency cfg HNR).
    apply (inv1_reachable cfg Hef HNR input s Hin).
    eapply exec_reachable; [apply reach_init | exact He].
Qed.
