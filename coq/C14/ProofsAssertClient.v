(* C14 — executions WITH crashes and client re-sends, any number of replicas: the client's rcvResp never fails.
   Invariant: where the requests of a client with its current request number are (at the replica it addresses, or at
   replicas the failure detector reports), what a serving replica will answer, and what the answers in the client's
   response queue look like. *)
From Coq Require Import List Arith Bool String Lia.
From PGV Require Import C14.Model C14.Proofs C14.ProofsCrashA C14.ProofsCrashB C14.ProofsCrashC C14.ProofsAssertCrash.
Import ListNotations.
Open Scope list_scope.
Open Scope nat_scope.

Definition respfor (ct : mtyp) (rb : body) (rt : mtyp) : Prop :=
  (ct = GET_REQ -> rt = GET_RESP /\ exists v, rb = BContent v) /\ (ct = PUT_REQ -> rt = PUT_RESP /\ rb = ACK_MSG_BODY).

Section DEFS.
Variable cfg : config.
Variables (clv : node -> clocal) (fd : node -> bool).

(* request m of client m_from m, carrying the client's current request number, sits at replica r *)
Definition good (r : node) (m : msg) : Prop :=
  let l := clv (m_from m) in
  (exists cm, c_msg l = Some cm /\ m_typ m = cm_typ cm) /\ (fd r = true \/ (r = c_replica l /\ c_pc l <> SndReq)).
Definition RQ (r : node) (m : msg) : Prop :=
  m_src m = CLIENT_SRC -> m_id m <= c_idx (clv (m_from m)) /\ (m_id m = c_idx (clv (m_from m)) -> good r m).
Definition RLp (r : node) (l : rlocal) : Prop :=
  serving (r_pc l) -> forall m, r_req l = Some m ->
    RQ r m /\ (answering (r_pc l) -> m_src m = CLIENT_SRC ->
               exists rb rt, r_respBody l = Some rb /\ r_respTyp l = Some rt /\ respfor (m_typ m) rb rt).
Definition RS (c : node) (m : msg) : Prop :=
  (is_client cfg c = true -> m_src m = PRIMARY_SRC) /\
  (m_src m = PRIMARY_SRC -> m_id m <= c_idx (clv c) /\
     (m_id m = c_idx (clv c) -> m_from m = c_replica (clv c) /\
        exists cm, c_msg (clv c) = Some cm /\ respfor (cm_typ cm) (m_body m) (m_typ m))).
Definition C4p (c : node) (m : msg) : Prop :=
  c_pc (clv c) = SndReq -> m_src m = PRIMARY_SRC -> m_id m < c_idx (clv c).
End DEFS.

Definition allqc (ch : chan) (P : node -> msg -> Prop) (nt : node -> chan -> link) : Prop :=
  forall n m, In m (queue (nt n ch)) -> P n m.

Definition CIx (cfg : config) (clv : node -> clocal) (fd : node -> bool) (nt : node -> chan -> link) (rlv : node -> rlocal) : Prop :=
  allqc REQ (RQ clv fd) nt /\ (forall r, RLp clv fd r (rlv r)) /\ allqc RESP (RS cfg clv) nt /\ allqc RESP (C4p clv) nt.
Definition CI (cfg : config) (s : state) : Prop := CIx cfg (cl s) (fdv s) (net s) (rl s).

Lemma allqc_upd_other : forall ch ch' P nt x l, ch' <> ch -> allqc ch P nt -> allqc ch P (upd_net nt x ch' l).
Proof.
  unfold allqc. intros ch ch' P nt x l Hne H n m Hin. unfold upd_net in Hin. destruct (Nat.eqb n x && chan_eqb ch ch') eqn:E; [|apply (H n m Hin)].
  exfalso. apply andb_true_iff in E. destruct E as [_ E]. destruct ch, ch'; cbn in E; congruence.
Qed.
Lemma allqc_upd : forall ch P nt x l, allqc ch P nt -> (forall m, In m (queue l) -> P x m) -> allqc ch P (upd_net nt x ch l).
Proof.
  unfold allqc. intros ch P nt x l H Hl n m Hin. unfold upd_net in Hin. destruct (Nat.eqb n x && chan_eqb ch ch) eqn:E; [|apply (H n m Hin)].
  apply andb_true_iff in E. destruct E as [E _]. apply Nat.eqb_eq in E. subst n. apply Hl. exact Hin.
Qed.
Lemma allqc_tail : forall ch P nt x m q en, queue (nt x ch) = m :: q -> allqc ch P nt -> allqc ch P (upd_net nt x ch (mkLink q en)).
Proof. intros ch P nt x m q en E H. apply allqc_upd; [exact H|]. cbn. intros m0 Hin. apply (H x). rewrite E. right. exact Hin. Qed.
Lemma allqc_snoc : forall ch P nt x m en, allqc ch P nt -> P x m -> allqc ch P (upd_net nt x ch (mkLink (queue (nt x ch) ++ [m]) en)).
Proof.
  intros ch P nt x m en H Hm. apply allqc_upd; [exact H|]. cbn. intros m0 Hin. apply in_app_or in Hin.
  destruct Hin as [Hin|[<-|[]]]; [apply (H x m0 Hin) | exact Hm].
Qed.
Lemma allqc_disable : forall ch P s p, allqc ch P (net s) -> allqc ch P (net (disable s p)).
Proof. unfold allqc. intros ch P s p H n m Hin. rewrite disable_queue in Hin. apply (H n m Hin). Qed.
Lemma allqc_head : forall ch P nt x m q, allqc ch P nt -> queue (nt x ch) = m :: q -> P x m.
Proof. intros ch P nt x m q H E. apply (H x). rewrite E. left. reflexivity. Qed.

Lemma CI_init : forall cfg input, CI cfg (init cfg input).
Proof.
  intros cfg input. unfold CI, CIx, allqc. cbn. split; [intros n m []|]. split; [intros r Hs; cbn in Hs; destruct Hs|].
  split; intros n m [].
Qed.

Lemma rlp_updf : forall (P : node -> rlocal -> Prop) f p l, (forall r, P r (f r)) -> P p l -> forall r, P r (updf f p l r).
Proof. intros P f p l H Hl r. unfold updf. destruct (Nat.eqb r p) eqn:E; [apply Nat.eqb_eq in E; subst; exact Hl | apply H]. Qed.

Ltac simp_all ::= cbn [net fdv fsv prim cin cout hist set_rl set_net set_fs set_fd set_prim set_cl set_cin set_cout add_hist rl cl].

Ltac fin_q :=
  repeat first [ eassumption | apply allqc_disable | (apply allqc_upd_other; [discriminate|]) | (eapply allqc_tail; [eassumption|])
               | apply allqc_snoc | simp_all ].

Ltac cbn_rl := cbn [r_pc r_req r_respBody r_respTyp r_idx r_replicaSet r_shouldSync r_lastPutBody
                    r_set_pc r_set_req r_set_resp r_set_idx r_set_rs r_set_sync r_set_lpb].

Section CISTEP.
Variable cfg : config.

Lemma RQ_fd_mono : forall clv (fd fd' : node -> bool) r m, (forall x, fd x = true -> fd' x = true) -> RQ clv fd r m -> RQ clv fd' r m.
Proof.
  intros clv fd fd' r m Hm H Hs. destruct (H Hs) as [A B]. split; [exact A|]. intros E. destruct (B E) as [G1 G2]. split; [exact G1|].
  destruct G2 as [G|G]; [left; apply Hm; exact G | right; exact G].
Qed.

Lemma CI_replica_step : forall s p ch s', InvA cfg s -> CI cfg s -> isrep cfg p ->
  step_replica cfg ch s p = Ok s' -> CI cfg s'.
Proof.
  intros s p ch s' IA (H1 & H2 & H3 & H4) Hp Hs.
  pose proof (H2 p) as B0. unfold RLp in B0.
  unfold step_replica in Hs. destruct (r_pc (rl s p)) eqn:Epc.
  - unfold step_replicaLoop, may_fail in Hs. crush Hs; inversion Hs; subst s'; clear Hs; unfold CI, CIx; simp_all; rewrite ?disable_rl;
      (split; [fin_q | split; [|split; fin_q]]); (apply rlp_updf; [exact H2|]); unfold RLp; cbn_rl; intros X; cbn in X; contradiction.
  - unfold step_syncPrimary in Hs. crush Hs; inversion Hs; subst s'; clear Hs; unfold CI, CIx; simp_all;
      (split; [fin_q | split; [|split; fin_q]]); (apply rlp_updf; [exact H2|]); unfold RLp; cbn_rl; intros X; cbn in X; contradiction.
  - unfold step_sndSyncReqLoop, step_sndLoop, may_fail, link_send in Hs. crush Hs; inversion Hs; subst s'; clear Hs; sends;
      unfold CI, CIx; simp_all; rewrite ?disable_rl;
      (split; [fin_q | split; [|split; fin_q]]);
      try solve [unfold RQ; cbn; intros X; discriminate X];
      (apply rlp_updf; [exact H2|]); unfold RLp; cbn_rl; intros X; cbn in X; contradiction.
  - (* rcvSyncRespLoop *)
    unfold step_rcvSyncRespLoop, link_recv, bindT in Hs. crush Hs; inversion Hs; subst s'; clear Hs; unfold CI, CIx; simp_all;
      (split; [fin_q | split; [|split; fin_q]]); (apply rlp_updf; [exact H2|]); unfold RLp; cbn_rl; intros X; cbn in X; contradiction.
  - (* rcvMsg *)
    unfold step_rcvMsg, link_recv in Hs. crush Hs; inversion Hs; subst s'; clear Hs; unfold CI, CIx; simp_all;
      (split; [fin_q | split; [|split; fin_q]]); (apply rlp_updf; [exact H2|]); unfold RLp; cbn_rl; intros X; cbn in X; try contradiction.
    intros m0 Em0. inversion Em0; subst m0. split; [|intros []].
    match goal with E : queue (net s p REQ) = ?m :: _ |- _ => apply (allqc_head REQ _ (net s) p m _ H1 E) end.
  - (* handleBackup *)
    assert (Ap : alive cfg s p) by (split; [exact Hp | unfold pcr; rewrite Epc; reflexivity]).
    destruct (a_loc cfg s IA p Ap) as (_ & L2 & _).
    destruct (L2 Epc) as (m & Hreq & Hpm).
    pose proof Hpm as (Hsrc & _ & Hf1 & Hfq & _).
    assert (Hqr : isrep cfg (ldr cfg s)).
    { destruct (alive_ge_ldr cfg s p IA Ap) as [Hn _]. apply (ldr_nonzero cfg s IA Hn). }
    assert (Hx : is_client cfg (m_from m) = true -> False).
    { intros Hc. apply is_client_true in Hc. destruct Hqr. lia. }
    unfold step_handleBackup in Hs. rewrite Hreq in Hs. cbn [bindT] in Hs.
    unfold link_send, bindT in Hs. crush Hs; inversion Hs; subst s'; clear Hs; sends; unfold CI, CIx; simp_all;
      (split; [fin_q | split; [|split; fin_q]]);
      try solve [unfold RS; cbn; split; [intros Y; destruct (Hx Y) | intros Y; discriminate Y]];
      try solve [unfold C4p; cbn; intros _ Y; discriminate Y];
      (apply rlp_updf; [exact H2|]); unfold RLp; cbn_rl; intros X; cbn in X; contradiction.
  - (* handlePrimary *)
    assert (Ap : alive cfg s p) by (split; [exact Hp | unfold pcr; rewrite Epc; reflexivity]).
    destruct (a_loc cfg s IA p Ap) as (_ & _ & L3 & _).
    destruct L3 as (m & Hreq & Hm & _); [rewrite Epc; exact Logic.I|].
    destruct (B0 Logic.I m Hreq) as [Bq _].
    unfold step_handlePrimary in Hs. rewrite Hreq in Hs. cbn [bindT] in Hs.
    pose proof Hm as (Hsrc & _). rewrite Hsrc in Hs. cbn [srct_eqb negb] in Hs.
    destruct (creq_cases cfg m Hm) as [(Ht & k & Hb) | (Ht & k & v & Hb)]; rewrite Ht, Hb in Hs; cbn [body_key body_value bindT] in Hs.
    + inversion Hs; subst s'; clear Hs. unfold CI, CIx; simp_all. (split; [fin_q | split; [|split; fin_q]]).
      apply rlp_updf; [exact H2|]. unfold RLp; cbn_rl. intros _ m0 Em0. rewrite Hreq in Em0. inversion Em0; subst m0.
      split; [exact Bq|]. intros _ _. do 2 eexists. split; [reflexivity|]. split; [reflexivity|]. rewrite Ht.
      split; [intros _; split; [reflexivity | eauto] | intros Y; discriminate Y].
    + unfold bindT in Hs. crush Hs; inversion Hs; subst s'; clear Hs. unfold CI, CIx; simp_all. (split; [fin_q | split; [|split; fin_q]]).
      apply rlp_updf; [exact H2|]. unfold RLp; cbn_rl. intros _ m0 Em0. rewrite Hreq in Em0. inversion Em0; subst m0.
      split; [exact Bq|]. intros _ _. do 2 eexists. split; [reflexivity|]. split; [reflexivity|]. rewrite Ht.
      split; [intros Y; discriminate Y | intros _; split; reflexivity].
  - (* sndReplicaReqLoop *)
    unfold step_sndReplicaReqLoop, step_sndLoop, may_fail, link_send, bindT in Hs. crush Hs; inversion Hs; subst s'; clear Hs; sends;
      unfold CI, CIx; simp_all; rewrite ?disable_rl;
      (split; [fin_q | split; [|split; fin_q]]);
      try solve [unfold RQ; cbn; intros X; discriminate X];
      (apply rlp_updf; [exact H2|]); unfold RLp; cbn_rl; intros X; cbn in X; try contradiction;
      intros mq Emq; apply (B0 Logic.I mq); congruence.
  - (* rcvReplicaRespLoop *)
    unfold step_rcvReplicaRespLoop, may_fail, link_recv, bindT in Hs. crush Hs; inversion Hs; subst s'; clear Hs;
      unfold CI, CIx; simp_all; rewrite ?disable_rl;
      (split; [fin_q | split; [|split; fin_q]]);
      (apply rlp_updf; [exact H2|]); unfold RLp; cbn_rl; intros X; cbn in X; try contradiction;
      intros mq Emq; apply (B0 Logic.I mq); congruence.
  - (* sndResp *)
    assert (Ap : alive cfg s p) by (split; [exact Hp | unfold pcr; rewrite Epc; reflexivity]).
    destruct (a_loc cfg s IA p Ap) as (_ & _ & L3 & _).
    destruct L3 as (m & Hreq & (Hsrc & _) & _); [rewrite Epc; exact Logic.I|].
    destruct (B0 Logic.I m Hreq) as [Bq Bf]. destruct (Bf Logic.I Hsrc) as (rb & rt & Erb & Ert & Hrf).
    destruct (Bq Hsrc) as [Ble Beq].
    assert (Hfd : fdv s p = false).
    { rewrite (a_fd cfg s IA p). unfold pcr. rewrite Epc. cbn. apply andb_false_r. }
    unfold step_sndResp in Hs. rewrite Hreq, Erb, Ert in Hs. cbn [bindT] in Hs. unfold link_send in Hs. cbn [m_to] in Hs.
    destruct (enabled (net s (m_from m) RESP)); [|discriminate]. inversion Hs; subst s'; clear Hs.
    unfold CI, CIx; simp_all. (split; [fin_q | split; [|split; fin_q]]).
    + apply rlp_updf; [exact H2|]. unfold RLp; cbn_rl. intros X; cbn in X; contradiction.
    + unfold RS. cbn [m_src m_id m_from m_body m_typ]. split; [reflexivity|]. intros _. split; [exact Ble|].
      intros E. destruct (Beq E) as ((cm & Ecm & Etyp) & [G|(G1 & G2)]); [congruence|].
      split; [exact G1|]. exists cm. split; [exact Ecm|]. rewrite <- Etyp. exact Hrf.
    + unfold C4p. cbn [m_src m_id]. intros Epq _. destruct (Nat.eq_dec (m_id m) (c_idx (cl s (m_from m)))) as [E|N]; [|lia].
      exfalso. destruct (Beq E) as (_ & [G|(_ & G2)]); [congruence | contradiction].
  - (* failLabel *)
    unfold step_failLabel in Hs. inversion Hs; subst s'; clear Hs. unfold CI, CIx; simp_all.
    assert (Hm : forall x, fdv s x = true -> updf (fdv s) p true x = true).
    { intros x Hx. unfold updf. destruct (Nat.eqb x p); [reflexivity | exact Hx]. }
    split; [|split; [|split; assumption]].
    + intros n m Hin. apply (RQ_fd_mono (cl s) (fdv s)); [exact Hm | apply (H1 n m Hin)].
    + apply rlp_updf.
      * intros r Hsv m Em. destruct (H2 r Hsv m Em) as [A B]. split; [apply (RQ_fd_mono (cl s) (fdv s)); [exact Hm | exact A] | exact B].
      * unfold RLp; cbn_rl. intros X; cbn in X; contradiction.
  - discriminate.
Qed.
(* ---- client steps: only the stepping client's locals change *)
Lemma RQ_upd : forall clv c0 L fd r m, RQ clv fd r m ->
  (m_from m = c0 -> m_src m = CLIENT_SRC -> m_id m <= c_idx (clv c0) ->
     (m_id m = c_idx (clv c0) -> good clv fd r m) ->
     m_id m <= c_idx L /\ (m_id m = c_idx L ->
        (exists cm, c_msg L = Some cm /\ m_typ m = cm_typ cm) /\ (fd r = true \/ (r = c_replica L /\ c_pc L <> SndReq)))) ->
  RQ (updf clv c0 L) fd r m.
Proof.
  intros clv c0 L fd r m H Hc Hs. destruct (H Hs) as [A B]. unfold good. destruct (Nat.eq_dec (m_from m) c0) as [E|N].
  - rewrite E, updf_same. rewrite E in A, B. apply Hc; auto.
  - rewrite updf_other by exact N. split; [exact A | exact B].
Qed.

Lemma RS_upd : forall clv c0 L c m, RS cfg clv c m ->
  (c = c0 -> m_src m = PRIMARY_SRC -> m_id m <= c_idx (clv c0) ->
     (m_id m = c_idx (clv c0) -> m_from m = c_replica (clv c0) /\ exists cm, c_msg (clv c0) = Some cm /\ respfor (cm_typ cm) (m_body m) (m_typ m)) ->
     m_id m <= c_idx L /\ (m_id m = c_idx L -> m_from m = c_replica L /\ exists cm, c_msg L = Some cm /\ respfor (cm_typ cm) (m_body m) (m_typ m))) ->
  RS cfg (updf clv c0 L) c m.
Proof.
  intros clv c0 L c m [A B] Hc. split; [exact A|]. intros Hs. destruct (B Hs) as [B1 B2]. destruct (Nat.eq_dec c c0) as [E|N].
  - subst c. rewrite updf_same. apply Hc; auto.
  - rewrite updf_other by exact N. split; [exact B1 | exact B2].
Qed.

Lemma C4p_upd : forall clv c0 L c m, C4p clv c m ->
  (c = c0 -> c_pc L = SndReq -> m_src m = PRIMARY_SRC -> m_id m < c_idx L) -> C4p (updf clv c0 L) c m.
Proof.
  intros clv c0 L c m H Hc. unfold C4p. destruct (Nat.eq_dec c c0) as [E|N].
  - subst c. rewrite updf_same. apply Hc. reflexivity.
  - rewrite updf_other by exact N. exact H.
Qed.

Lemma CI_cl : forall s c0 L, CI cfg s ->
  c_idx (cl s c0) <= c_idx L ->
  (c_idx L = c_idx (cl s c0) -> c_msg L = c_msg (cl s c0)) ->
  (c_idx L = c_idx (cl s c0) -> forall r, (fdv s r = true \/ (r = c_replica (cl s c0) /\ c_pc (cl s c0) <> SndReq)) ->
                                          (fdv s r = true \/ (r = c_replica L /\ c_pc L <> SndReq))) ->
  (c_idx L = c_idx (cl s c0) -> c_replica L = c_replica (cl s c0) \/
      (forall m, In m (queue (net s c0 RESP)) -> m_src m = PRIMARY_SRC -> m_id m < c_idx (cl s c0))) ->
  (c_pc L = SndReq -> forall m, In m (queue (net s c0 RESP)) -> m_src m = PRIMARY_SRC -> m_id m < c_idx L) ->
  CIx cfg (updf (cl s) c0 L) (fdv s) (net s) (rl s).
Proof.
  intros s c0 L (H1 & H2 & H3 & H4) K1 K2 K3 K4 K5.
  assert (RQc : forall r m, RQ (cl s) (fdv s) r m -> RQ (updf (cl s) c0 L) (fdv s) r m).
  { intros r m H. apply RQ_upd; [exact H|]. intros Ef Hs Hle Hg. split; [lia|]. intros E.
    assert (E1 : c_idx L = c_idx (cl s c0)) by lia. assert (E2 : m_id m = c_idx (cl s c0)) by lia.
    destruct (Hg E2) as ((cm & Ecm & Et) & G). unfold good in *. rewrite Ef in *. split.
    - exists cm. rewrite (K2 E1). auto.
    - apply (K3 E1). exact G. }
  split; [intros n m Hin; apply RQc; apply (H1 n m Hin)|]. split.
  { intros r Hsv m Em. destruct (H2 r Hsv m Em) as [A B]. split; [apply RQc; exact A | exact B]. }
  split.
  - intros c m Hin. apply RS_upd; [apply (H3 c m Hin)|]. intros -> Hs Hle Hg. split; [lia|]. intros E.
    assert (E1 : c_idx L = c_idx (cl s c0)) by lia. assert (E2 : m_id m = c_idx (cl s c0)) by lia.
    destruct (Hg E2) as (G1 & cm & Ecm & Hrf). destruct (K4 E1) as [Er|Hno].
    + split; [congruence|]. exists cm. rewrite (K2 E1). auto.
    + exfalso. pose proof (Hno m Hin Hs). lia.
  - intros c m Hin. apply C4p_upd; [apply (H4 c m Hin)|]. intros -> Epc Hs. apply (K5 Epc m Hin Hs).
Qed.

Lemma CI_client_step : forall s c0 ch s', InvA cfg s -> CI cfg s -> step_client cfg ch s c0 = Ok s' -> CI cfg s'.
Proof.
  intros s c0 ch s' IA HC Hs. pose proof HC as (H1 & H2 & H3 & H4).
  unfold step_client in Hs. destruct (c_pc (cl s c0)) eqn:Epc.
  - (* clientLoop *)
    unfold step_clientLoop in Hs. destruct (cin s) as [|m rest]; [discriminate|]. inversion Hs; subst s'; clear Hs.
    unfold CI. simp_all. apply CI_cl; cbn [c_idx c_msg c_replica c_pc]; auto; try lia.
    intros _ m0 Hin Hsrc. destruct (H3 c0 m0 Hin) as [_ B]. destruct (B Hsrc). lia.
  - (* sndReq *)
    assert (Hold : forall m, In m (queue (net s c0 RESP)) -> m_src m = PRIMARY_SRC -> m_id m < c_idx (cl s c0)).
    { intros m Hin Hsrc. apply (H4 c0 m Hin Epc Hsrc). }
    assert (K3 : forall (L : clocal) r, (fdv s r = true \/ (r = c_replica (cl s c0) /\ c_pc (cl s c0) <> SndReq)) ->
                   (fdv s r = true \/ (r = c_replica L /\ c_pc L <> SndReq))).
    { intros L r [G|(_ & G)]; [left; exact G | congruence]. }
    unfold step_sndReq, link_send, bindT in Hs. crush Hs; inversion Hs; subst s'; clear Hs; sends; unfold CI; simp_all.
    + (* the request is sent *)
      match goal with |- CIx _ (updf (cl s) c0 ?L0) _ _ _ => set (L := L0) end.
      assert (HX : CIx cfg (updf (cl s) c0 L) (fdv s) (net s) (rl s)).
      { apply CI_cl; unfold L; cbn [c_idx c_msg c_replica c_pc c_set_pc]; auto; try (intros _ r [G|(_ & G)]; [left; exact G | congruence]); try (intros X; discriminate X). }
      destruct HX as (X1 & X2 & X3 & X4). split; [|split; [exact X2 | split; fin_q]].
      apply allqc_snoc; [exact X1|]. unfold RQ. cbn [m_src m_from m_id m_typ]. rewrite updf_same. unfold L. cbn [c_idx c_set_pc]. intros _.
      split; [lia|]. intros _. unfold good. cbn [m_from m_typ]. rewrite updf_same. cbn [c_msg c_replica c_pc c_set_pc].
      split; [eexists; split; reflexivity | right; split; [reflexivity | discriminate]].
    + apply CI_cl; cbn [c_idx c_msg c_replica c_pc c_set_pc]; auto; try (intros _ r [G|(_ & G)]; [left; exact G | congruence]); try (intros X; discriminate X).
    + apply CI_cl; cbn [c_idx c_msg c_replica c_pc c_set_pc]; auto; try (intros _ r [G|(_ & G)]; [left; exact G | congruence]); try (intros X; discriminate X).
  - (* rcvResp *)
    unfold step_rcvResp, link_recv, bindT in Hs. crush Hs; inversion Hs; subst s'; clear Hs; unfold CI; simp_all.
    all: try (match goal with |- CIx _ (updf (cl ?ss) ?cc ?L) _ (upd_net _ _ _ _) _ =>
                assert (HX : CIx cfg (updf (cl ss) cc L) (fdv ss) (net ss) (rl ss));
                [ apply CI_cl; cbn [c_idx c_msg c_replica c_pc c_set_pc]; auto;
                  try (intros _ r [G|(G1 & G2)]; [left; exact G | right; split; [exact G1 | discriminate]]);
                  try (intros X; discriminate X)
                | destruct HX as (X1 & X2 & X3 & X4); split; [fin_q | split; [exact X2 | split; fin_q]] ] end).
    (* the time-out: the addressed replica is reported failed and no answer has arrived *)
    apply CI_cl; cbn [c_idx c_msg c_replica c_pc c_set_pc]; auto.
    + intros _ r [G|(G1 & _)]; [left; exact G|]. left. subst r.
      match goal with E : _ && _ = true |- _ => apply andb_true_iff in E; destruct E as [E _]; exact E end.
    + intros _ m Hin. match goal with E : _ && _ = true |- _ => apply andb_true_iff in E; destruct E as [_ E]; apply Nat.eqb_eq in E end.
      destruct (queue (net s c0 RESP)); [destruct Hin | discriminate].
  - discriminate.
Qed.

Lemma CI_step : forall s e s', InvA cfg s -> CI cfg s -> step cfg s e = Ok s' -> CI cfg s'.
Proof.
  intros s [p ch] s' IA HC Hs. unfold step in Hs. destruct (is_replica cfg p) eqn:Er.
  - apply (CI_replica_step s p ch s' IA HC); [apply (isrep_iff cfg); exact Er | exact Hs].
  - destruct (is_client cfg p); [|discriminate]. apply (CI_client_step s p ch s' IA HC Hs).
Qed.

Lemma CI_reachable : forall input s, Forall input_ok input -> reachable cfg input s -> CI cfg s.
Proof.
  intros input s Hin Hr. induction Hr; [apply CI_init|]. eapply CI_step; eauto. eapply invA_reachable; eauto.
Qed.

(* the client's rcvResp never fails *)
Lemma no_fail_rcvResp : forall s c ch, InvA cfg s -> CI cfg s -> addressed (net s) -> is_client cfg c = true ->
  okout (step_rcvResp cfg ch s c).
Proof.
  intros s c ch IA (_ & _ & H3 & _) Had Hc. unfold step_rcvResp.
  destruct (negb (ch_alt ch)); [|destruct (_ && _); exact I].
  unfold link_recv. rewrite (a_en_c cfg s IA c RESP) by (intros [H1 H2]; apply is_client_true in Hc; lia). cbn [negb].
  destruct (queue (net s c RESP)) as [|r q] eqn:Eq; [exact I|].
  destruct (negb (m_id r =? c_idx (cl s c))) eqn:Eid; [exact I|].
  apply negb_false_iff in Eid. apply Nat.eqb_eq in Eid.
  destruct (allqc_head RESP _ (net s) c r q H3 Eq) as [Hsrc Hrs]. specialize (Hsrc Hc).
  destruct (Hrs Hsrc) as [_ Heq]. destruct (Heq Eid) as (Hfrom & cm & Ecm & (Hget & Hput)).
  rewrite Ecm. cbn [bindT].
  assert (Hto : m_to r = c) by (apply (Had c RESP); rewrite Eq; left; reflexivity).
  pose proof (a_cmsg cfg s IA c cm Ecm) as Hok. unfold input_ok in Hok.
  destruct (cm_typ cm) eqn:Et; try contradiction.
  - destruct (Hget eq_refl) as (Ert & v & Erb). rewrite Hto, Hfrom, Hsrc, Ert, Eid, Erb, !Nat.eqb_refl. cbn. exact I.
  - destruct (Hput eq_refl) as (Ert & Erb). rewrite Hto, Hfrom, Hsrc, Ert, Eid, Erb, !Nat.eqb_refl. cbn. exact I.
Qed.

End CISTEP.

(* every label of a client, and every label of a replica other than rcvSyncRespLoop / rcvReplicaRespLoop *)
Definition at_replica_answer_label (cfg : config) (s : state) (p : node) : Prop :=
  is_replica cfg p = true /\ (r_pc (rl s p) = RcvSyncRespLoop \/ r_pc (rl s p) = RcvReplicaRespLoop).

Lemma assertion_free_crash_clients_lemma : forall cfg input evs s p ch,
  Forall input_ok input -> exec cfg (init cfg input) evs = Some s -> ~ at_replica_answer_label cfg s p ->
  step cfg s (Ev p ch) <> AssertFail /\ step cfg s (Ev p ch) <> TypeErr.
Proof.
  intros cfg input evs s p ch Hin He Hna.
  destruct (is_replica cfg p) eqn:Er.
  - apply (assertion_free_crash_lemma cfg input evs s p ch Hin He). intros [(_ & H)|(H & _)]; [|congruence].
    apply Hna. split; [exact Er | exact H].
  - destruct (rpc_eq_dec_local RcvMsg RcvMsg) as [_|N]; [|congruence].
    assert (Hr : reachable cfg input s) by (eapply exec_reachable; [apply reach_init | exact He]).
    destruct (c_pc (cl s p)) eqn:Epc;
      try (apply (assertion_free_crash_lemma cfg input evs s p ch Hin He); intros [(H & _)|(_ & H)]; congruence).
    apply okout_spec. unfold step. rewrite Er. destruct (is_client cfg p) eqn:Ec; [|exact I].
    unfold step_client. rewrite Epc.
    apply (no_fail_rcvResp cfg s p ch); auto.
    + eapply invA_reachable; eauto.
    + eapply CI_reachable; eauto.
    + intros n c m Hm. eapply queued_messages_addressed_lemma; eauto.
Qed.

Lemma client_never_fails_lemma : forall cfg input evs s c ch,
  Forall input_ok input -> exec cfg (init cfg input) evs = Some s -> is_replica cfg c = false ->
  step cfg s (Ev c ch) <> AssertFail /\ step cfg s (Ev c ch) <> TypeErr.
Proof.
  intros cfg input evs s c ch Hin He Hc. apply (assertion_free_crash_clients_lemma cfg input evs s c ch Hin He).
  intros [H _]. congruence.
Qed.

(* ------------------------------------------------------------------ no TLA+ evaluation error at any label, any number of replicas *)
Definition notype (o : outcome) : Prop := o <> TypeErr.

Lemma no_type_error_lemma : forall cfg input evs s e,
  Forall input_ok input -> exec cfg (init cfg input) evs = Some s -> step cfg s e <> TypeErr.
Proof.
  intros cfg input evs s [p ch] Hin He.
  destruct (is_replica cfg p) eqn:Er.
  2:{ apply (assertion_free_crash_clients_lemma cfg input evs s p ch Hin He). intros [H _]. congruence. }
  destruct (rpc_eq_dec_local (r_pc (rl s p)) RcvSyncRespLoop) as [E1|N1];
    [|destruct (rpc_eq_dec_local (r_pc (rl s p)) RcvReplicaRespLoop) as [E2|N2];
      [|apply (assertion_free_crash_clients_lemma cfg input evs s p ch Hin He); intros [_ [H|H]]; contradiction]].
  - (* rcvSyncRespLoop: the body of an answer that passed the assertion is a well-formed put body *)
    assert (Hr : reachable cfg input s) by (eapply exec_reachable; [apply reach_init | exact He]).
    pose proof (invA_reachable cfg input s Hin Hr) as IA.
    destruct (W_reachable cfg input s Hin Hr) as (Hq & Hrl & _). destruct (Hrl p) as (A & _).
    unfold step. rewrite Er. unfold step_replica. rewrite E1. unfold step_rcvSyncRespLoop.
    destruct (r_replicaSet (rl s p)); [discriminate|]. destruct (negb (ch_alt ch)).
    2:{ destruct (negb _); [discriminate|]. destruct (_ && _); discriminate. }
    unfold link_recv. destruct (negb (enabled _)); [discriminate|]. destruct (queue (net s p RESP)) as [|m q] eqn:Eq; [discriminate|].
    destruct (negb _) eqn:Eas; [discriminate|].
    apply negb_false_iff in Eas. repeat (apply andb_true_iff in Eas; destruct Eas as [Eas ?]).
    assert (Hsrc : m_src m <> CLIENT_SRC) by (destruct (m_src m); cbn in *; congruence).
    assert (Htyp : m_typ m = SYNC_RESP) by (destruct (m_typ m); cbn in *; congruence).
    destruct (allq_head wfm (net s) p RESP m q Hq Eq Hsrc) as [(ver & c & Eb & Hc) _]; [auto|].
    destruct A as (lv & lc & El & _). rewrite Eb, El. cbn [body_ver bindT].
    destruct (lv <? ver) eqn:Elt; [|discriminate]. apply Nat.ltb_lt in Elt.
    destruct c as [[k v]|]; [cbn; discriminate | exfalso; apply Hc; [lia | reflexivity]].
  - (* rcvReplicaRespLoop: the saved request is there *)
    assert (Hr : reachable cfg input s) by (eapply exec_reachable; [apply reach_init | exact He]).
    pose proof (invA_reachable cfg input s Hin Hr) as IA.
    assert (Hp : isrep cfg p) by (apply (isrep_iff cfg); exact Er).
    assert (Ap : alive cfg s p) by (split; [exact Hp | unfold pcr; rewrite E2; reflexivity]).
    destruct (a_loc cfg s IA p Ap) as (_ & _ & L3 & _). destruct L3 as (m0 & Hreq & _); [rewrite E2; exact Logic.I|].
    unfold step. rewrite Er. unfold step_replica. rewrite E2. unfold step_rcvReplicaRespLoop.
    destruct (r_replicaSet (rl s p)); [discriminate|]. destruct (negb (ch_alt ch)).
    2:{ destruct (negb _); [discriminate|]. destruct (_ && _); [|discriminate]. unfold may_fail. destruct (_ && _); discriminate. }
    unfold link_recv. destruct (negb (enabled _)); [discriminate|]. destruct (queue (net s p RESP)); [discriminate|].
    rewrite Hreq. cbn [bindT]. destruct (negb _); [discriminate|]. unfold may_fail. destruct (_ && _); discriminate.
Qed.
