(* C14 — failure-free executions never fail an assertion and never hit a TLA+ evaluation error.
   Uses the failure-free invariant Inv1 (ProofsFF), the simulation Sim (ProofsLinFF), the structural and
   version invariants that hold for all executions (ProofsCrashA/B/C), and a small invariant about the content of
   the acknowledgements in the primary's queue. *)
From Coq Require Import List Arith Bool String Lia.
From PGV Require Import C14.Model C14.Proofs C14.ProofsFF C14.ProofsHist C14.ProofsLinFF.
Import ListNotations.
Open Scope list_scope.
Open Scope nat_scope.

Ltac dif H :=
  match type of H with
  | (if ?c then _ else _) = _ => let E := fresh "E" in destruct c eqn:E
  end.

Definition verof (b : body) : nat := match b with BPut n _ => n | _ => 0 end.

Section AFF.
Variable cfg : config.
Hypothesis Hef : explore_fail cfg = false.
Hypothesis HNR : 1 <= NR cfg.

Notation Inv1 := (Inv1 cfg).
Notation Sim := (Sim cfg).

Definition ack_ok (req : msg) (m : msg) : Prop :=
  m_to m = 1 /\ m_body m = ACK_MSG_BODY /\ m_src m = BACKUP_SRC /\ m_typ m = PUT_RESP /\ m_id m = m_id req.

Record Inv3 (s : state) : Prop := {
  t_lpb : forall r, 1 <= r <= NR cfg -> exists n c, r_lastPutBody (rl s r) = BPut n c;
  t_ver : forall b, backup cfg b -> verof (r_lastPutBody (rl s b)) <= verof (r_lastPutBody (rl s 1));
  t_acks : (r_pc (rl s 1) = SndReplicaReqLoop \/ r_pc (rl s 1) = RcvReplicaRespLoop) ->
           exists req, r_req (rl s 1) = Some req /\ Forall (ack_ok req) (queue (net s 1 RESP)) }.

Lemma init_inv3 : forall input, Inv3 (init cfg input).
Proof.
  intros input. constructor; cbn.
  - intros r _. eauto.
  - intros b _. lia.
  - intros [H|H]; discriminate H.
Qed.


Definition inrep (pc : rpc) : Prop := pc = SndReplicaReqLoop \/ pc = RcvReplicaRespLoop.

Lemma inv3_frame : forall s s',
  (forall r, r_lastPutBody (rl s' r) = r_lastPutBody (rl s r)) ->
  queue (net s' 1 RESP) = queue (net s 1 RESP) -> r_req (rl s' 1) = r_req (rl s 1) ->
  (inrep (r_pc (rl s' 1)) -> inrep (r_pc (rl s 1))) ->
  Inv3 s -> Inv3 s'.
Proof.
  intros s s' Hl Hq Hr Hp [T1 T2 T3]. constructor.
  - intros r Hr0. rewrite Hl. apply T1. exact Hr0.
  - intros b Bb. rewrite !Hl. apply T2. exact Bb.
  - intros H. rewrite Hq, Hr. apply T3. apply Hp. exact H.
Qed.

(* ---- backup steps *)
Lemma inv3_backup_step : forall s p ch s', Inv1 s -> Inv3 s -> backup cfg p ->
  step_replica cfg ch s p = Ok s' -> Inv3 s'.
Proof.
  intros s p ch s' I I3 Bp Hs.
  assert (Hne1 : p <> 1) by (unfold backup in Bp; lia).
  assert (Hl1 : Nat.eqb 1 p = false) by (apply Nat.eqb_neq; lia).
  pose proof (i_b_pc cfg s I p Bp) as Hpcok.
  unfold step_replica in Hs. destruct (r_pc (rl s p)) eqn:Epc; try (exfalso; exact Hpcok).
  - unfold step_replicaLoop in Hs. rewrite (may_fail_ff cfg Hef) in Hs. inversion Hs; subst s'.
    apply (inv3_frame s); simp_st; auto; try (rewrite updf_other by lia; auto).
    intros r. unfold updf. destruct (Nat.eqb r p) eqn:Er; [apply Nat.eqb_eq in Er; subst r; reflexivity | reflexivity].
  - unfold step_syncPrimary in Hs. rewrite (leader_is_1 cfg HNR s I), Hl1 in Hs. cbn [andb] in Hs. inversion Hs; subst s'.
    apply (inv3_frame s); simp_st; auto; try (rewrite updf_other by lia; auto).
    intros r. unfold updf. destruct (Nat.eqb r p) eqn:Er; [apply Nat.eqb_eq in Er; subst r; reflexivity | reflexivity].
  - unfold step_rcvMsg in Hs. rewrite (leader_is_1 cfg HNR s I), Hl1 in Hs. cbn [andb] in Hs.
    unfold link_recv in Hs. rewrite (i_en cfg s I) in Hs. cbn [negb] in Hs.
    destruct (queue (net s p REQ)) as [|m q] eqn:Eq; [discriminate|].
    dif Hs; [discriminate|].
    change (leader cfg (set_net s (upd_net (net s) p REQ (mkLink q true)))) with (leader cfg s) in Hs.
    rewrite (leader_is_1 cfg HNR s I), Hl1 in Hs. cbn [andb] in Hs. inversion Hs; subst s'; clear Hs.
    apply (inv3_frame s); simp_st; auto; try (rewrite updf_other by lia; auto).
    + intros r. unfold updf. destruct (Nat.eqb r p) eqn:Er; [apply Nat.eqb_eq in Er; subst r; reflexivity | reflexivity].
    + rewrite upd_net_other by (left; lia). reflexivity.
  - (* handleBackup: the primary's PUT_REQ is applied and acknowledged *)
    pose proof (i_phase cfg s I) as Hph.
    assert (Hm : inrep (r_pc (rl s 1)) /\ exists ver k v req, r_lastPutBody (rl s 1) = BPut ver (Some (k, v)) /\ r_req (rl s 1) = Some req /\
                   r_req (rl s p) = Some (putmsg p (BPut ver (Some (k, v))) (m_id req))).
    { unfold phase_inv in Hph. destruct (r_pc (rl s 1)) eqn:E1;
        try (exfalso; destruct Hph as [_ C]; destruct (C p Bp) as [[_ Q] _]; congruence).
      - split; [left; reflexivity|]. destruct Hph as (_ & ver & k & v & req & HL & Hrq & _ & Hb).
        destruct (bstat_pc_hb _ _ _ _ _ _ _ _ (Hb p Bp) Epc) as (_ & _ & H & _). exists ver, k, v, req. auto.
      - split; [right; reflexivity|]. destruct Hph as (ver & k & v & req & HL & Hrq & _ & Hb).
        destruct (bstat_pc_hb _ _ _ _ _ _ _ _ (Hb p Bp) Epc) as (_ & _ & H & _). exists ver, k, v, req. auto. }
    destruct Hm as (Hrep & ver & k & v & req & HL & Hrq & Hreq).
    unfold step_handleBackup in Hs. rewrite Hreq in Hs. cbn in Hs.
    destruct (body_ver (r_lastPutBody (rl s p))) as [lv|]; cbn in Hs; [|discriminate].
    dif Hs; [discriminate|].
    destruct (ch_alt ch); cbn [negb] in Hs.
    { rewrite (i_fd cfg s I) in Hs. discriminate. }
    unfold link_send in Hs. simp_st. rewrite (i_en cfg s I) in Hs. inversion Hs; subst s'; clear Hs.
    destruct I3 as [T1 T2 T3]. constructor; simp_st.
    + intros r Hr. unfold updf. destruct (Nat.eqb r p); simp_st; [eauto | apply T1; exact Hr].
    + intros b Bb. rewrite (updf_other _ (rl s) p _ 1) by lia. unfold updf. destruct (Nat.eqb b p); simp_st; [rewrite HL; cbn; lia | apply T2; exact Bb].
    + rewrite updf_other by lia. intros H. destruct (T3 H) as (req0 & E0 & F0). rewrite Hrq in E0. inversion E0; subst req0.
      exists req. split; [exact Hrq|]. rewrite upd_net_same. simp_st. apply Forall_app. split; [exact F0|].
      constructor; [|constructor]. unfold ack_ok. simp_st. auto.
Qed.


(* ---- the primary's steps *)
Lemma inv3_primary_step : forall s ch s', Inv1 s -> Inv3 s ->
  step_replica cfg ch s 1 = Ok s' -> Inv3 s'.
Proof.
  intros s ch s' I I3 Hs.
  pose proof (i_p_pc cfg s I) as Hpc. pose proof (i_p_sync cfg s I) as Hsync.
  assert (Hlp : forall l', r_lastPutBody l' = r_lastPutBody (rl s 1) -> forall r, r_lastPutBody (updf (rl s) 1 l' r) = r_lastPutBody (rl s r)).
  { intros l' Hl r. unfold updf. destruct (Nat.eqb r 1) eqn:Er; [apply Nat.eqb_eq in Er; subst r; exact Hl | reflexivity]. }
  unfold step_replica in Hs. destruct (r_pc (rl s 1)) eqn:Epc; cbn in Hpc; try contradiction.
  - unfold step_replicaLoop in Hs. rewrite (may_fail_ff cfg Hef) in Hs. inversion Hs; subst s'.
    apply (inv3_frame s); simp_st; auto; rewrite ?updf_same; simp_st; auto. intros [H|H]; discriminate H.
  - unfold step_syncPrimary in Hs. rewrite Hsync, andb_false_r in Hs. inversion Hs; subst s'.
    apply (inv3_frame s); simp_st; auto; rewrite ?updf_same; simp_st; auto. intros [H|H]; discriminate H.
  - unfold step_rcvMsg in Hs. rewrite Hsync, andb_false_r in Hs.
    unfold link_recv in Hs. rewrite (i_en cfg s I) in Hs. cbn [negb] in Hs.
    destruct (queue (net s 1 REQ)) as [|m q] eqn:Eq; [discriminate|].
    pose proof (i_q1 cfg s I) as Hq1. rewrite Eq in Hq1. inversion Hq1 as [|? ? Hm Hqc]; subst.
    dif Hs; [discriminate|].
    change (leader cfg (set_net s (upd_net (net s) 1 REQ (mkLink q true)))) with (leader cfg s) in Hs.
    rewrite (leader_is_1 cfg HNR s I) in Hs. destruct Hm as (Hsrc & _). rewrite Hsrc in Hs. cbn in Hs.
    inversion Hs; subst s'; clear Hs.
    destruct I3 as [T1 T2 T3]. constructor; simp_st.
    + intros r Hr. rewrite Hlp by (simp_st; reflexivity). apply T1. exact Hr.
    + intros b Bb. rewrite !Hlp by (simp_st; reflexivity). apply T2. exact Bb.
    + rewrite updf_same. simp_st. intros [H|H]; discriminate H.
  - (* handlePrimary *)
    destruct (i_p_req cfg s I) as (m & Hreq & Hm); [rewrite Epc; exact Logic.I|].
    unfold step_handlePrimary in Hs. rewrite Hreq in Hs. cbn [bindT] in Hs.
    pose proof Hm as (Hsrc & Hfrom & Hok). rewrite Hsrc in Hs. cbn [srct_eqb negb] in Hs.
    destruct (creq_cases cfg m Hm) as [(Ht & k & Hb) | (Ht & k & v & Hb)]; rewrite Ht, Hb in Hs; cbn [body_key body_value bindT] in Hs.
    + inversion Hs; subst s'. apply (inv3_frame s); simp_st; auto; rewrite ?updf_same; simp_st; auto. intros [H|H]; discriminate H.
    + destruct (body_ver (r_lastPutBody (rl s 1))) as [lv|] eqn:Elv; cbn [bindT] in Hs; [|discriminate].
      inversion Hs; subst s'; clear Hs.
      assert (Hlv : verof (r_lastPutBody (rl s 1)) = lv) by (destruct (r_lastPutBody (rl s 1)); cbn in *; try discriminate; congruence).
      pose proof (i_phase cfg s I) as Hph. unfold phase_inv in Hph. rewrite Epc in Hph. destruct Hph as [Hempty _].
      destruct I3 as [T1 T2 T3]. constructor; simp_st.
      * intros r Hr. unfold updf. destruct (Nat.eqb r 1); simp_st; [eauto | apply T1; exact Hr].
      * intros b Bb. rewrite updf_same. simp_st. rewrite updf_other by (unfold backup in Bb; lia). pose proof (T2 b Bb). cbn [verof]. lia.
      * rewrite updf_same. simp_st. intros _. exists m. split; [exact Hreq|]. rewrite Hempty. constructor.
  - (* sndReplicaReqLoop *)
    unfold step_sndReplicaReqLoop in Hs. destruct (r_req (rl s 1)) as [req|] eqn:Ereq; cbn [bindT] in Hs; [|discriminate].
    unfold step_sndLoop in Hs.
    assert (F : forall s1 l', net s1 1 RESP = net s 1 RESP -> rl s1 = rl s ->
                 r_lastPutBody l' = r_lastPutBody (rl s 1) -> r_req l' = r_req (rl s 1) -> Inv3 (set_rl s1 1 l')).
    { intros s1 l' H1 H2 H3 H4. apply (inv3_frame s); simp_st; rewrite ?updf_same; auto.
      - rewrite H2. apply Hlp. exact H3.
      - rewrite H1. reflexivity.
      - intros _. left. exact Epc. }
    destruct (r_idx (rl s 1) <=? NR cfg) eqn:Ele.
    2:{ inversion Hs; subst s'. apply F; simp_st; auto. }
    destruct (negb (Nat.eqb (r_idx (rl s 1)) 1)) eqn:Eself.
    2:{ rewrite (may_fail_ff cfg Hef) in Hs. inversion Hs; subst s'. apply F; simp_st; auto. }
    destruct (ch_alt ch); cbn [negb] in Hs.
    { rewrite (i_fd cfg s I) in Hs. discriminate. }
    unfold link_send in Hs. rewrite (i_en cfg s I) in Hs. rewrite (may_fail_ff cfg Hef) in Hs. inversion Hs; subst s'; clear Hs.
    apply F; simp_st; auto. rewrite upd_net_other by (right; discriminate). reflexivity.
  - (* rcvReplicaRespLoop *)
    unfold step_rcvReplicaRespLoop in Hs.
    destruct (r_replicaSet (rl s 1)) as [|x0 S0] eqn:ES.
    { inversion Hs; subst s'. apply (inv3_frame s); simp_st; auto; rewrite ?updf_same; simp_st; auto. intros [H|H]; discriminate H. }
    destruct (ch_alt ch); cbn [negb] in Hs.
    { dif Hs; [discriminate|]. rewrite (i_fd cfg s I) in Hs. discriminate. }
    unfold link_recv in Hs. rewrite (i_en cfg s I) in Hs. cbn [negb] in Hs.
    destruct (queue (net s 1 RESP)) as [|m q] eqn:Eq; [discriminate|].
    destruct (r_req (rl s 1)) as [req|] eqn:Ereq; cbn [bindT] in Hs; [|discriminate].
    dif Hs; [discriminate|]. rewrite (may_fail_ff cfg Hef) in Hs. inversion Hs; subst s'; clear Hs.
    destruct I3 as [T1 T2 T3]. constructor; simp_st.
    + intros r Hr. rewrite Hlp by (simp_st; reflexivity). apply T1. exact Hr.
    + intros b Bb. rewrite !Hlp by (simp_st; reflexivity). apply T2. exact Bb.
    + rewrite updf_same. simp_st. intros _. destruct T3 as (req0 & E0 & F0); [right; exact Epc|].
      exists req0. split; [exact E0|]. rewrite upd_net_same. simp_st. rewrite Eq in F0. inversion F0; assumption.
  - (* sndResp *)
    destruct (i_p_req cfg s I) as (m & Hreq & Hm); [rewrite Epc; exact Logic.I|].
    unfold step_sndResp in Hs. rewrite Hreq in Hs. cbn [bindT] in Hs.
    destruct (r_respBody (rl s 1)) as [rb|]; cbn [bindT] in Hs; [|discriminate].
    destruct (r_respTyp (rl s 1)) as [rt|]; cbn [bindT] in Hs; [|discriminate].
    unfold link_send in Hs. simp_st. rewrite (i_en cfg s I) in Hs. inversion Hs; subst s'; clear Hs.
    apply (inv3_frame s); simp_st; auto; rewrite ?updf_same; simp_st; auto.
    + destruct Hm as (_ & Hfrom & _). rewrite upd_net_other by (left; lia). reflexivity.
    + intros [H|H]; discriminate H.
Qed.

(* ---- client steps do not touch what Inv3 looks at *)
Lemma inv3_client_step : forall s p ch s', Inv1 s -> Inv3 s -> NR cfg < p ->
  step_client cfg ch s p = Ok s' -> Inv3 s'.
Proof.
  intros s p ch s' I I3 Hp Hs.
  assert (F : forall s1, rl s1 = rl s -> queue (net s1 1 RESP) = queue (net s 1 RESP) -> Inv3 s1).
  { intros s1 H1 H2. apply (inv3_frame s); rewrite ?H1; auto. }
  unfold step_client in Hs. destruct (c_pc (cl s p)) eqn:Epc.
  - unfold step_clientLoop in Hs. destruct (cin s) as [|m rest]; [discriminate|]. inversion Hs; subst s'. apply F; reflexivity.
  - unfold step_sndReq in Hs. rewrite (leader_is_1 cfg HNR s I) in Hs. cbn [Nat.eqb negb] in Hs.
    destruct (ch_alt ch); cbn [negb] in Hs.
    { rewrite (i_fd cfg s I) in Hs. discriminate. }
    destruct (c_msg (cl s p)) as [m|]; cbn [bindT] in Hs; [|discriminate].
    unfold link_send in Hs. rewrite (i_en cfg s I) in Hs. inversion Hs; subst s'. apply F; simp_st; auto.
  - unfold step_rcvResp in Hs. destruct (ch_alt ch); cbn [negb] in Hs.
    { rewrite (i_fd cfg s I) in Hs. discriminate. }
    unfold link_recv in Hs. rewrite (i_en cfg s I) in Hs. cbn [negb] in Hs.
    destruct (queue (net s p RESP)) as [|r q] eqn:Eq; [discriminate|].
    assert (G : forall l o h, Inv3 (mkSt (upd_net (net s) p RESP (mkLink q true)) (fdv s) (fsv s) (prim s) (cin s) o (rl s)
                                         (updf (cl s) p (c_set_pc (cl s p) l)) h)).
    { intros l o h. apply F; simp_st; auto. rewrite upd_net_other by (left; lia). reflexivity. }
    dif Hs.
    + inversion Hs; subst s'. apply G.
    + destruct (c_msg (cl s p)) as [m|]; cbn [bindT] in Hs; [|discriminate].
      destruct (cm_typ m); try discriminate;
        (dif Hs; [discriminate|]);
        destruct (body_content (m_body r)); cbn [bindT] in Hs; try discriminate;
        inversion Hs; subst s'; apply G.
  - discriminate.
Qed.

Lemma inv3_step : forall s e s', Inv1 s -> Inv3 s -> step cfg s e = Ok s' -> Inv3 s'.
Proof.
  intros s [p ch] s' I I3 Hs. unfold step in Hs.
  destruct (is_replica cfg p) eqn:Er.
  - destruct (replica_cases cfg HNR p Er) as [->|Bp]; [eapply inv3_primary_step; eauto | eapply inv3_backup_step; eauto].
  - destruct (is_client cfg p) eqn:Ec; [|discriminate].
    apply (inv3_client_step s p ch s' I I3); [apply is_client_true in Ec; lia | exact Hs].
Qed.

(* ------------------------------------------------------------------ no step fails *)
Definition safe (o : outcome) : Prop := match o with Ok _ | Blocked => True | _ => False end.

Lemma safe_spec : forall o, safe o -> o <> AssertFail /\ o <> TypeErr.
Proof. intros [] H; cbn in H; try contradiction; split; discriminate. Qed.

(* what Sim says about a client whose request the primary is serving *)
Lemma sim_serving : forall s, Sim s -> primary_has_req (r_pc (rl s 1)) ->
  exists m c cm, r_req (rl s 1) = Some m /\ m_from m = c /\ is_client cfg c = true /\
    c_pc (cl s c) = RcvResp /\ c_msg (cl s c) = Some cm /\ m = reqmsg c cm (c_idx (cl s c)) /\
    (after_lin (r_pc (rl s 1)) -> exists rb rt, r_respBody (rl s 1) = Some rb /\ r_respTyp (rl s 1) = Some rt).
Proof.
  intros s (t & mo & _ & _ & _ & Hc & _ & _ & Hreq) Hp.
  destruct (Hreq Hp) as (m & Em & Hcl). exists m, (m_from m).
  assert (Hsv : serving_c s (m_from m)) by (split; [exact Hp | exists m; auto]).
  specialize (Hc _ Hcl). unfold cinv in Hc.
  destruct (c_pc (cl s (m_from m))) eqn:Epc.
  - destruct Hc as (_ & N & _). contradiction.
  - destruct Hc as (_ & N & _). contradiction.
  - destruct Hc as (cm & Ecm & _ & [C|[C|[C|C]]]).
    + destruct C as (_ & N & _). contradiction.
    + destruct C as (_ & Er & Eh & _). exists cm. rewrite Em in Er. injection Er as Er'.
      split; [exact Em|]. split; [reflexivity|]. split; [exact Hcl|]. split; [reflexivity|]. split; [exact Ecm|]. split; [exact Er'|].
      rewrite Eh. intros [].
    + destruct C as (_ & Er & _ & _ & v & rb & rt & _ & B1 & B2 & _). exists cm. rewrite Em in Er. injection Er as Er'.
      split; [exact Em|]. split; [reflexivity|]. split; [exact Hcl|]. split; [reflexivity|]. split; [exact Ecm|]. split; [exact Er'|].
      intros _. eauto.
    + destruct C as (_ & N & _). contradiction.
  - contradiction.
Qed.

(* every request in the primary's queue is addressed to it *)
Lemma sim_q1_to : forall s m, Sim s -> In m (queue (net s 1 REQ)) -> m_to m = 1.
Proof.
  intros s m (t & mo & _ & _ & _ & Hc & _ & Hq & _) Hin.
  rewrite Forall_forall in Hq. pose proof (Hq m Hin) as Hcl. specialize (Hc _ Hcl). unfold cinv in Hc.
  assert (NF : nofrom (m_from m) (queue (net s 1 REQ)) -> False).
  { unfold nofrom. rewrite Forall_forall. intros H. exact (H m Hin eq_refl). }
  destruct (c_pc (cl s (m_from m))).
  - destruct Hc as (N & _). tauto.
  - destruct Hc as (N & _). tauto.
  - destruct Hc as (cm & _ & _ & [C|[C|[C|C]]]); try (destruct C as (N & _); tauto).
    destruct C as ((A & B & Eq & NA & NB) & _). rewrite Eq in Hin. apply in_app_or in Hin.
    unfold nofrom in NA, NB. rewrite Forall_forall in NA, NB.
    destruct Hin as [Hin|[Hin|Hin]]; [exfalso; exact (NA m Hin eq_refl) | rewrite <- Hin; reflexivity | exfalso; exact (NB m Hin eq_refl)].
  - contradiction.
Qed.

Lemma no_fail_primary : forall s ch, Inv1 s -> Sim s -> Inv3 s -> safe (step_replica cfg ch s 1).
Proof.
  intros s ch I HS I3.
  pose proof (i_p_pc cfg s I) as Hpc. pose proof (i_p_sync cfg s I) as Hsync.
  unfold step_replica. destruct (r_pc (rl s 1)) eqn:Epc; cbn in Hpc; try contradiction.
  - unfold step_replicaLoop. rewrite (may_fail_ff cfg Hef). exact Logic.I.
  - unfold step_syncPrimary. rewrite Hsync, andb_false_r. exact Logic.I.
  - unfold step_rcvMsg. rewrite Hsync, andb_false_r. unfold link_recv. rewrite (i_en cfg s I). cbn [negb].
    destruct (queue (net s 1 REQ)) as [|m q] eqn:Eq; [exact Logic.I|].
    rewrite (sim_q1_to s m HS) by (rewrite Eq; left; reflexivity). cbn [Nat.eqb negb].
    destruct (_ && _); exact Logic.I.
  - destruct (i_p_req cfg s I) as (m & Hreq & Hm); [rewrite Epc; exact Logic.I|].
    unfold step_handlePrimary. rewrite Hreq. cbn [bindT].
    pose proof Hm as (Hsrc & _). rewrite Hsrc. cbn [srct_eqb negb].
    destruct (creq_cases cfg m Hm) as [(Ht & k & Hb) | (Ht & k & v & Hb)]; rewrite Ht, Hb; cbn [body_key body_value bindT]; [exact Logic.I|].
    destruct (t_lpb s I3 1) as (n & c & El); [lia|]. rewrite El. cbn. exact Logic.I.
  - destruct (i_p_req cfg s I) as (m & Hreq & Hm); [rewrite Epc; exact Logic.I|].
    unfold step_sndReplicaReqLoop. rewrite Hreq. cbn [bindT]. unfold step_sndLoop.
    destruct (_ <=? _); [|exact Logic.I]. destruct (negb (Nat.eqb _ _)); [|rewrite (may_fail_ff cfg Hef); exact Logic.I].
    destruct (negb (ch_alt ch)).
    + unfold link_send. rewrite (i_en cfg s I). rewrite (may_fail_ff cfg Hef). exact Logic.I.
    + rewrite (i_fd cfg s I). exact Logic.I.
  - unfold step_rcvReplicaRespLoop. destruct (r_replicaSet (rl s 1)) as [|x0 S0] eqn:ES; [exact Logic.I|].
    destruct (negb (ch_alt ch)).
    2:{ destruct (negb _); [exact Logic.I|]. rewrite (i_fd cfg s I). exact Logic.I. }
    unfold link_recv. rewrite (i_en cfg s I). cbn [negb].
    destruct (queue (net s 1 RESP)) as [|m q] eqn:Eq; [exact Logic.I|].
    destruct (t_acks s I3) as (req & Ereq & Fa); [right; exact Epc|]. rewrite Ereq. cbn [bindT].
    rewrite Eq in Fa. inversion Fa as [|? ? (A1 & A2 & A3 & A4 & A5) _]; subst.
    pose proof (i_phase cfg s I) as Hph. unfold phase_inv in Hph. rewrite Epc in Hph.
    destruct Hph as (ver & k & v & req' & _ & _ & (_ & Hbk) & Hst).
    assert (Hin : In m (queue (net s 1 RESP))) by (rewrite Eq; left; reflexivity).
    assert (Hack : acked s (m_from m)) by (unfold acked; apply in_map; exact Hin).
    assert (HinS : In (m_from m) (r_replicaSet (rl s 1))).
    { destruct (Hst _ (Hbk m Hin)) as [H|[H|[H|[H|H]]]]; try tauto. }
    rewrite ES in HinS.
    assert (Hmem : mem_node (m_from m) (x0 :: S0) = true) by (apply mem_node_true; exact HinS).
    rewrite Hmem, A1, A2, A3, A4, A5, !Nat.eqb_refl. cbn. rewrite (may_fail_ff cfg Hef). exact Logic.I.
  - destruct (sim_serving s HS) as (m & c & cm & Em & _ & _ & _ & _ & _ & Hr); [rewrite Epc; exact Logic.I|].
    destruct Hr as (rb & rt & E1 & E2); [rewrite Epc; exact Logic.I|].
    unfold step_sndResp. rewrite Em, E1, E2. cbn [bindT]. unfold link_send. rewrite (i_en cfg s I). exact Logic.I.
Qed.

Lemma no_fail_backup : forall s ch b, Inv1 s -> Inv3 s -> backup cfg b -> safe (step_replica cfg ch s b).
Proof.
  intros s ch b I I3 Bb.
  pose proof (i_b_pc cfg s I b Bb) as Hpc.
  assert (Hl : leader cfg s =? b = false) by (rewrite (leader_is_1 cfg HNR s I); apply Nat.eqb_neq; unfold backup in Bb; lia).
  (* the status of b *)
  assert (Hb : (queue (net s b REQ) = [] /\ r_pc (rl s b) <> HandleBackup) \/
               (r_pc (rl s b) <> HandleBackup /\ exists L id, queue (net s b REQ) = [putmsg b L id]) \/
               (r_pc (rl s b) = HandleBackup /\ exists ver k v id, r_lastPutBody (rl s 1) = BPut ver (Some (k, v)) /\
                   r_req (rl s b) = Some (putmsg b (BPut ver (Some (k, v))) id))).
  { pose proof (i_phase cfg s I) as Hph. unfold phase_inv in Hph.
    assert (R : forall sent, replicating cfg s sent -> (queue (net s b REQ) = [] /\ r_pc (rl s b) <> HandleBackup) \/
               (r_pc (rl s b) <> HandleBackup /\ exists L id, queue (net s b REQ) = [putmsg b L id]) \/
               (r_pc (rl s b) = HandleBackup /\ exists ver k v id, r_lastPutBody (rl s 1) = BPut ver (Some (k, v)) /\
                   r_req (rl s b) = Some (putmsg b (BPut ver (Some (k, v))) id))).
    { intros sent (ver & k & v & req & El & _ & _ & Hst).
      destruct (Hst b Bb) as [H|[H|[H|[H|H]]]]; unfold quiet in H.
      - left. tauto.
      - right; left. split; [tauto|]. do 2 eexists. apply H.
      - right; right. split; [tauto|]. exists ver, k, v, (m_id req). split; [exact El | tauto].
      - left. tauto.
      - left. tauto. }
    assert (C : clean cfg s -> queue (net s b REQ) = [] /\ r_pc (rl s b) <> HandleBackup).
    { intros (_ & H). destruct (H b Bb) as (Q & _). exact Q. }
    destruct (r_pc (rl s 1)); try (left; apply C; exact Hph).
    - destruct Hph as (_ & Hph). eapply R; exact Hph.
    - eapply R; exact Hph. }
  unfold step_replica. destruct (r_pc (rl s b)) eqn:Epc; cbn in Hpc; try contradiction.
  - unfold step_replicaLoop. rewrite (may_fail_ff cfg Hef). exact Logic.I.
  - unfold step_syncPrimary. rewrite Hl. cbn [andb]. exact Logic.I.
  - unfold step_rcvMsg. rewrite Hl. cbn [andb]. unfold link_recv. rewrite (i_en cfg s I). cbn [negb].
    destruct Hb as [(Q & _)|[(_ & L & id & Q)|(N & _)]]; [rewrite Q; exact Logic.I | | discriminate N].
    rewrite Q. unfold putmsg. simp_st. rewrite Nat.eqb_refl. cbn [negb].
    destruct (_ && _); exact Logic.I.
  - destruct Hb as [(_ & N)|[(N & _)|(_ & ver & k & v & id & El & Er)]]; [congruence | congruence |].
    unfold step_handleBackup. rewrite Er. unfold putmsg. cbn [bindT]. simp_st. cbn [bindT srct_eqb negb body_key body_value body_ver].
    destruct (t_lpb s I3 b) as (n & c & Elb); [unfold backup in Bb; lia|].
    pose proof (t_ver s I3 b Bb) as Hv. rewrite Elb, El in Hv. cbn [verof] in Hv.
    rewrite Elb. cbn [body_ver bindT].
    assert (Hlt : ver <? n = false) by (apply Nat.ltb_ge; exact Hv). rewrite Hlt.
    simp_st. cbn [bindT].
    destruct (negb (ch_alt ch)).
    + unfold link_send. simp_st. rewrite (i_en cfg s I). exact Logic.I.
    + simp_st. rewrite (i_fd cfg s I). exact Logic.I.
Qed.

Lemma no_fail_client : forall s ch c, Inv1 s -> Sim s -> is_client cfg c = true -> safe (step_client cfg ch s c).
Proof.
  intros s ch c I HS Hcl.
  destruct HS as (t & mo & _ & _ & _ & Hc & _). specialize (Hc c Hcl). unfold cinv in Hc.
  unfold step_client. destruct (c_pc (cl s c)) eqn:Epc.
  - unfold step_clientLoop. destruct (cin s); exact Logic.I.
  - destruct Hc as (_ & _ & _ & cm & Ecm & _).
    unfold step_sndReq. rewrite (leader_is_1 cfg HNR s I). cbn [Nat.eqb negb].
    destruct (negb (ch_alt ch)).
    + rewrite Ecm. cbn [bindT]. unfold link_send. rewrite (i_en cfg s I). exact Logic.I.
    + rewrite (i_fd cfg s I). exact Logic.I.
  - unfold step_rcvResp. destruct (negb (ch_alt ch)).
    2:{ rewrite (i_fd cfg s I). exact Logic.I. }
    unfold link_recv. rewrite (i_en cfg s I). cbn [negb].
    destruct Hc as (cm & Ecm & Erep & [C|[C|[C|C]]]);
      try (destruct C as (_ & _ & _ & Q & _); rewrite Q; exact Logic.I);
      try (destruct C as (_ & _ & Q & _); rewrite Q; exact Logic.I).
    destruct C as (_ & _ & v & rb & rt & Q & _ & RM). rewrite Q. simp_st. rewrite Nat.eqb_refl. cbn [negb].
    rewrite Ecm, Erep. cbn [bindT].
    destruct RM as [(T & B1 & B2 & _)|(T & B1 & B2)]; rewrite T, B1, B2; rewrite !Nat.eqb_refl; cbn; exact Logic.I.
  - contradiction.
Qed.

Lemma no_fail_step : forall s e, Inv1 s -> Sim s -> Inv3 s -> safe (step cfg s e).
Proof.
  intros s [p ch] I HS I3. unfold step.
  destruct (is_replica cfg p) eqn:Er.
  - destruct (replica_cases cfg HNR p Er) as [->|Bp]; [apply no_fail_primary | apply no_fail_backup]; auto.
  - destruct (is_client cfg p) eqn:Ec; [|exact Logic.I]. apply no_fail_client; auto.
Qed.

Lemma aff_reachable : forall input s, Forall input_ok input -> reachable cfg input s -> Inv1 s /\ Sim s /\ Inv3 s.
Proof.
  intros input s Hin Hr. induction Hr.
  - split; [apply (init_inv1 cfg); exact Hin | split; [apply sim_init | apply init_inv3]].
  - destruct IHHr as (I & HS & I3). split; [eapply (inv1_step cfg Hef HNR); eauto|].
    split; [eapply (sim_step cfg Hef HNR); eauto | eapply inv3_step; eauto].
Qed.

End AFF.

(* NUM_REPLICAS > 0 is the spec's own ASSUME *)
Lemma assertion_free_failure_free_lemma : forall cfg input evs s e,
  explore_fail cfg = false -> 1 <= NR cfg -> Forall input_ok input ->
  exec cfg (init cfg input) evs = Some s -> step cfg s e <> AssertFail /\ step cfg s e <> TypeErr.
Proof.
  intros cfg input evs s e Hef HNR Hin He.
  assert (Hr : reachable cfg input s) by (eapply exec_reachable; [apply reach_init | exact He]).
  destruct (aff_reachable cfg Hef HNR input s Hin Hr) as (I & HS & I3).
  apply safe_spec. apply (no_fail_step cfg Hef HNR); assumption.
Qed.
