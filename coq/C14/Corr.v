(* C14 — correspondence machinery (definitions only): the observed Go spec state is rebuilt
   from per-step deltas and compared with the model's state after every step, on the finite
   domain of the case (nodes 1..NR+NC, the keys of the case). *)
From Coq Require Import List Arith Bool String.
From PGV Require Import C14.Model.
Import ListNotations.
Open Scope nat_scope.

Fixpoint list_eqb {A} (eqb : A -> A -> bool) (l1 l2 : list A) : bool :=
  match l1, l2 with
  | [], [] => true
  | x :: t1, y :: t2 => eqb x y && list_eqb eqb t1 t2
  | _, _ => false
  end.
Definition opt_eqb {A} (eqb : A -> A -> bool) (a b : option A) : bool :=
  match a, b with Some x, Some y => eqb x y | None, None => true | _, _ => false end.

Definition msg_eqb (a b : msg) : bool :=
  Nat.eqb (m_from a) (m_from b) && Nat.eqb (m_to a) (m_to b) && body_eqb (m_body a) (m_body b)
  && srct_eqb (m_src a) (m_src b) && mtyp_eqb (m_typ a) (m_typ b) && Nat.eqb (m_id a) (m_id b).
Definition cmsg_eqb (a b : cmsg) : bool := mtyp_eqb (cm_typ a) (cm_typ b) && body_eqb (cm_body a) (cm_body b).
Definition link_eqb (a b : link) : bool := list_eqb msg_eqb (queue a) (queue b) && Bool.eqb (enabled a) (enabled b).
Definition rpc_eqb (a b : rpc) : bool :=
  match a, b with
  | ReplicaLoop, ReplicaLoop | SyncPrimary, SyncPrimary | SndSyncReqLoop, SndSyncReqLoop
  | RcvSyncRespLoop, RcvSyncRespLoop | RcvMsg, RcvMsg | HandleBackup, HandleBackup
  | HandlePrimary, HandlePrimary | SndReplicaReqLoop, SndReplicaReqLoop
  | RcvReplicaRespLoop, RcvReplicaRespLoop | SndResp, SndResp | FailLabel, FailLabel | RDone, RDone => true
  | _, _ => false end.
Definition cpc_eqb (a b : cpc) : bool :=
  match a, b with ClientLoop, ClientLoop | SndReq, SndReq | RcvResp, RcvResp | CDone, CDone => true | _, _ => false end.
Definition rlocal_eqb (a b : rlocal) : bool :=
  rpc_eqb (r_pc a) (r_pc b) && opt_eqb msg_eqb (r_req a) (r_req b) && opt_eqb body_eqb (r_respBody a) (r_respBody b)
  && opt_eqb mtyp_eqb (r_respTyp a) (r_respTyp b) && Nat.eqb (r_idx a) (r_idx b)
  && list_eqb Nat.eqb (r_replicaSet a) (r_replicaSet b) && Bool.eqb (r_shouldSync a) (r_shouldSync b)
  && body_eqb (r_lastPutBody a) (r_lastPutBody b).
Definition clocal_eqb (a b : clocal) : bool :=
  cpc_eqb (c_pc a) (c_pc b) && opt_eqb cmsg_eqb (c_msg a) (c_msg b) && Nat.eqb (c_replica a) (c_replica b)
  && Nat.eqb (c_idx a) (c_idx b).
Definition hevent_eqb (a b : hevent) : bool :=
  match a, b with
  | HInv c m, HInv c' m' => Nat.eqb c c' && cmsg_eqb m m'
  | HRes c v, HRes c' v' => Nat.eqb c c' && String.eqb v v'
  | _, _ => false end.

Definition clients (cfg : config) : list node := seq (NR cfg + 1) (NC cfg).

Definition state_eqb (cfg : config) (keys : list key) (a b : state) : bool :=
  forallb (fun n => link_eqb (net a n REQ) (net b n REQ) && link_eqb (net a n RESP) (net b n RESP))
          (replicas cfg ++ clients cfg)
  && forallb (fun r => Bool.eqb (fdv a r) (fdv b r) && Bool.eqb (prim a r) (prim b r)
                       && forallb (fun k => String.eqb (fsv a r k) (fsv b r k)) keys
                       && rlocal_eqb (rl a r) (rl b r)) (replicas cfg)
  && forallb (fun c => clocal_eqb (cl a c) (cl b c)) (clients cfg)
  && list_eqb cmsg_eqb (cin a) (cin b) && opt_eqb String.eqb (cout a) (cout b)
  && list_eqb hevent_eqb (hist a) (hist b).

Inductive delta :=
| DNet (n : node) (c : chan) (q : list msg) (en : bool)
| DFd (r : node) (b : bool)
| DFs (r : node) (k : key) (v : value)
| DPrim (r : node) (b : bool)
| DCin (l : list cmsg)
| DCout (v : option value)
| DRl (r : node) (l : rlocal)
| DCl (c : node) (l : clocal)
| DHist (e : hevent).

Definition apply_delta (o : state) (d : delta) : state :=
  match d with
  | DNet n c q en => set_net o (upd_net (net o) n c (mkLink q en))
  | DFd r b => set_fd o (updf (fdv o) r b)
  | DFs r k v => set_fs o (upd_fs (fsv o) r k v)
  | DPrim r b => set_prim o (updf (prim o) r b)
  | DCin l => set_cin o l
  | DCout v => set_cout o v
  | DRl r l => set_rl o r l
  | DCl c l => set_cl o c l
  | DHist e => add_hist o e
  end.

Inductive oclass := OCommit | OAbort | OAssert | OType.
Record ostep := mkOs { os_ev : event; os_class : oclass; os_delta : list delta }.

Definition class_of (o : outcome) : oclass :=
  match o with Ok _ => OCommit | Blocked => OAbort | AssertFail => OAssert | TypeErr => OType end.
Definition oclass_eqb (a b : oclass) : bool :=
  match a, b with OCommit, OCommit | OAbort, OAbort | OAssert, OAssert | OType, OType => true | _, _ => false end.

(* result of checking one case:
   (first step (1-based) whose outcome class differs, or 0;
    first step (1-based) after which the states differ, or 0   [0 in position 0 = initial state];
    first step (1-based) after which the MODEL state violates ConsistencyOK, or 0;
    1 if the model's final history is linearizable else 0;
    1 if the initial observed state equals the model's initial state else 0) *)
Fixpoint check_steps (cfg : config) (keys : list key) (m o : state) (steps : list ostep) (i : nat)
         (cls st cns : nat) : nat * nat * nat * state :=
  match steps with
  | [] => (cls, st, cns, m)
  | s :: rest =>
      let out := step cfg m (os_ev s) in
      let cls' := if Nat.eqb cls 0 && negb (oclass_eqb (class_of out) (os_class s)) then i else cls in
      let o' := fold_left apply_delta (os_delta s) o in
      let m' := match out with Ok m' => m' | _ => m end in
      let st' := if Nat.eqb st 0 && negb (state_eqb cfg keys m' o') then i else st in
      let cns' := if Nat.eqb cns 0 && negb (consistency_b cfg keys m') then i else cns in
      (* after a divergence follow the observation so that later indices stay meaningful *)
      check_steps cfg keys (if Nat.eqb st' 0 then m' else o') o' rest (S i) cls' st' cns'
  end.

Definition check_case (cfg : config) (keys : list key) (input : list cmsg) (init_obs : list delta)
           (steps : list ostep) : list nat :=
  let m0 := init cfg input in
  let o0 := fold_left apply_delta init_obs m0 in
  let '(cls, st, cns, mf) := check_steps cfg keys m0 o0 steps 1 0 0 0 in
  [cls; st; cns; if linearizable_b (hist mf) then 1 else 0; if state_eqb cfg keys m0 o0 then 1 else 0].
