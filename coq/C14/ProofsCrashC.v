(* C14 — executions WITH crashes: the remaining labels (sync answers, handleBackup, handlePrimary,
   replication answers, failLabel), preservation of the whole invariant, ConsistencyOK. *)
From Coq Require Import List Arith Bool String Lia.
From PGV Require Import C14.Model C14.Proofs C14.ProofsCrashA C14.ProofsCrashB.
Import ListNotations.
Open Scope list_scope.
Open Scope nat_scope.

Section CRC.
Variable cfg : config.

Notation isrep := (isrep cfg).
Notation alive := (alive cfg).
Notation ldr := (ldr cfg).
Notation InvA := (InvA cfg).
Notation InvB := (InvB cfg).
Notation versions_ok := (versions_ok cfg).
Notation prefix_ok := (prefix_ok cfg).
Notation phases_ok := (phases_ok cfg).

(* ------------------------------------------------------------------ rcvSyncRespLoop without reading a message *)
Lemma invB_rcvsync_exit : forall w s, InvA s -> InvB w s -> alive s (ldr s) ->
  pcr s (ldr s) = RcvSyncRespLoop -> r_replicaSet (rl s (ldr s)) = [] ->
  InvB w (set_rl s (ldr s) (r_set_pc (rl s (ldr s)) RcvMsg)).
Proof.
  intros w s IA IB Aq Epc HS.
  set (q := ldr s) in *. set (l' := r_set_pc (rl s q) RcvMsg).
  assert (Hn1 : pcr s q <> HandleBackup) by (rewrite Epc; discriminate).
  assert (Hn2 : r_pc l' <> HandleBackup) by discriminate.
  assert (N2 : ~ inrepl s q) by (unfold inrepl; rewrite Epc; intuition discriminate).
  pose proof IB as [V P Ph].
  assert (LA : forall r, alive (set_rl s q l') r <-> alive s r) by (apply ll_alive; auto).
  assert (LK : forall r, K (set_rl s q l') r = K s r) by (apply ll_K; auto).
  assert (LT : forall b, alive s b -> toks (set_rl s q l') q b = toks s q b) by (apply ll_toks; auto).
  assert (LP : forall b, alive s b -> puts (set_rl s q l') q b = puts s q b) by (apply ll_puts; auto).
  assert (Hrl : rl (set_rl s q l') q = l') by (apply ll_rl).
  apply (ll_build cfg w s l' IB Aq eq_refl eq_refl Hn1 Hn2).
  { intros [H|H]; discriminate H. }
  constructor; rewrite (ll_ldr cfg); fold q.
  - intros A _ b Ab Hb HK. apply LA in A. apply LA in Ab. rewrite !LK in HK.
    destruct (ph_main cfg w s Ph Aq N2 b Ab Hb HK) as [H|(_ & H & _)]; [|fold q in H; rewrite HS in H; destruct H].
    left. unfold owed, owedP, pcr in *. rewrite Hrl. unfold l'. simp_st. fold q in H.
    destruct H as [H|[H|H]]; [left; exact H | rewrite Epc in H; discriminate | right; right; exact H].
  - intros A _ b Ab Hb. apply LA in A. apply LA in Ab. rewrite (LT b Ab), LK.
    pose proof (ph_tok cfg w s Ph Aq N2 b Ab Hb) as H. fold q in H.
    destruct (toks s q b) as [|t rest]; [exact Logic.I|]. destruct H as [H1 H2]. split; [exact H1|].
    intros Hlt. destruct (H2 Hlt) as (_ & X & _). rewrite HS in X. destruct X.
  - intros A HK b Ab Hb. apply LA in A. apply LA in Ab. rewrite LK in HK. rewrite (LT b Ab).
    destruct (ph_count cfg w s Ph Aq HK b Ab Hb) as [C1 C2]. fold q in C1, C2.
    destruct (toks s q b) as [|t rest]; [split; [cbn; lia | intros H; congruence]|].
    destruct C2 as (_ & X & _); [discriminate|]. rewrite HS in X. destruct X.
  - intros A _ b Ab Hb. apply LA in A. apply LA in Ab. rewrite (LP b Ab). apply (ph_noack cfg w s Ph Aq N2 b Ab Hb).
  - intros _ [H|H]; unfold pcr in H; rewrite Hrl in H; discriminate H.
Qed.


(* the leader removes from replicaSet a replica that is not alive (fd branch of the receive loops) *)
Lemma invB_rs_shrink : forall w s S',
  InvA s -> InvB w s -> alive s (ldr s) ->
  (pcr s (ldr s) = RcvSyncRespLoop \/ pcr s (ldr s) = RcvReplicaRespLoop) ->
  (forall b, alive s b -> (In b S' <-> In b (r_replicaSet (rl s (ldr s))))) ->
  InvB w (set_rl s (ldr s) (r_set_pc (r_set_rs (rl s (ldr s)) S') (pcr s (ldr s)))).
Proof.
  intros w s S' IA IB Aq Hpc HS.
  set (q := ldr s) in *. set (l' := r_set_pc (r_set_rs (rl s q) S') (pcr s q)).
  assert (Hn1 : pcr s q <> HandleBackup) by (destruct Hpc as [H|H]; rewrite H; discriminate).
  assert (Hn2 : r_pc l' <> HandleBackup) by (unfold l'; simp_st; exact Hn1).
  assert (Hal : pc_alive (r_pc l') = true) by (unfold l'; simp_st; destruct Hpc as [H|H]; rewrite H; reflexivity).
  pose proof IB as [V P Ph].
  assert (LA : forall r, alive (set_rl s q l') r <-> alive s r) by (apply ll_alive; auto).
  assert (LK : forall r, K (set_rl s q l') r = K s r) by (apply ll_K; auto).
  assert (LT : forall b, alive s b -> toks (set_rl s q l') q b = toks s q b) by (apply ll_toks; auto).
  assert (LP : forall b, alive s b -> puts (set_rl s q l') q b = puts s q b) by (apply ll_puts; auto).
  assert (LS : forall b, alive s b -> sreqs (set_rl s q l') q b = sreqs s q b) by (apply ll_sreqs; auto).
  assert (LX : forall b, alive s b -> xs (set_rl s q l') q b = xs s q b) by (apply ll_xs; auto).
  assert (LPe : forall b, alive s b -> pend (set_rl s q l') b = pend s b) by (apply ll_pend; auto).
  assert (Hrl : rl (set_rl s q l') q = l') by (apply ll_rl).
  assert (Hpcr : pcr (set_rl s q l') q = pcr s q) by (unfold pcr; rewrite Hrl; reflexivity).
  assert (Hins : insync (set_rl s q l') q <-> insync s q) by (unfold insync; rewrite Hpcr; tauto).
  assert (Hinr : inrepl (set_rl s q l') q <-> inrepl s q) by (unfold inrepl; rewrite Hpcr; tauto).
  assert (How : owed (set_rl s q l') q <-> owed s q).
  { unfold owed, owedP. rewrite Hpcr, Hrl. unfold l'. simp_st. tauto. }
  apply (ll_build cfg w s l' IB Aq Hal eq_refl Hn1 Hn2).
  { unfold l'. simp_st. intros [H|H]; exfalso; destruct Hpc as [E|E]; rewrite E in H; discriminate. }
  constructor; rewrite (ll_ldr cfg); fold q.
  - intros A Hnr b Ab Hb HK. apply LA in A. apply LA in Ab. rewrite !LK in HK. rewrite Hinr in Hnr.
    rewrite How, Hins, Hrl, (LS b Ab), LK, Hpcr. change (sresps (set_rl s q l') q b) with (sresps s q b).
    unfold l'. simp_st. rewrite (HS b Ab). apply (ph_main cfg w s Ph Aq Hnr b Ab Hb HK).
  - intros A Hnr b Ab Hb. apply LA in A. apply LA in Ab. rewrite Hinr in Hnr.
    pose proof (ph_tok cfg w s Ph Aq Hnr b Ab Hb) as H. fold q in H. rewrite (LT b Ab), LK.
    destruct (toks s q b) as [|t rest]; [exact Logic.I|]. destruct H as [H1 H2]. split; [exact H1|].
    intros Hlt. destruct (H2 Hlt) as (X1 & X2 & X3). rewrite Hins, Hrl. unfold l'. simp_st. rewrite (HS b Ab). auto.
  - intros A HK b Ab Hb. apply LA in A. apply LA in Ab. rewrite LK in HK.
    destruct (ph_count cfg w s Ph Aq HK b Ab Hb) as [C1 C2]. rewrite (LT b Ab). split; [exact C1|].
    intros Hne. destruct (C2 Hne) as (X1 & X2 & X3). rewrite Hins, Hrl, Hpcr. unfold l'. simp_st. rewrite (HS b Ab). auto.
  - intros A Hnr b Ab Hb. apply LA in A. apply LA in Ab. rewrite Hinr in Hnr.
    rewrite (LP b Ab). apply (ph_noack cfg w s Ph Aq Hnr b Ab Hb).
  - intros A Hr. apply LA in A. rewrite Hinr in Hr. destruct (ph_repl cfg w s Ph Aq Hr) as (R1 & R2 & R3 & R4).
    split; [apply ll_isnew; auto|]. split; [|split].
    + intros b m Ab Hb Hm. apply LA in Ab. rewrite (LPe b Ab) in Hm. apply (R2 b m Ab Hb Hm).
    + exact R3.
    + intros b Ab Hb. apply LA in Ab. destruct (R4 b Ab Hb) as (Sy & Pu & E & HSy & Hst).
      exists Sy, Pu. rewrite (LX b Ab). split; [exact E|]. split; [exact HSy|].
      assert (Hold : isold w (set_rl s q l') b <-> isold w s b) by (apply ll_isold; auto).
      assert (Hnew : isnew w (set_rl s q l') b <-> isnew w s b) by (apply ll_isnew; auto).
      assert (Hsent : rsent (set_rl s q l') q b <-> rsent s q b).
      { unfold rsent. rewrite Hpcr, Hrl. unfold l'. simp_st. tauto. }
      rewrite Hsent, Hold, Hnew, Hrl. unfold l'. simp_st. rewrite (HS b Ab). exact Hst.
Qed.


(* ------------------------------------------------------------------ the leader takes the head of its response queue *)
Section POPRESP.
Variables (w : wit) (s : state) (m : msg) (rest : list msg) (l' : rlocal).
Let q := ldr s.
Let s' := set_rl (set_net s (upd_net (net s) q RESP (mkLink rest true))) q l'.
Hypothesis IA : InvA s.
Hypothesis IB : InvB w s.
Hypothesis Aq : alive s q.
Hypothesis Eq : queue (net s q RESP) = m :: rest.
Hypothesis Hal : pc_alive (r_pc l') = true.
Hypothesis Hn1 : pcr s q <> HandleBackup.
Hypothesis Hn2 : r_pc l' <> HandleBackup.

Lemma pr_rl : rl s' q = l'. Proof. unfold s'. simp_st. apply updf_same. Qed.
Lemma pr_rl_other : forall r, r <> q -> rl s' r = rl s r.
Proof. intros r H. unfold s'. simp_st. apply updf_other. exact H. Qed.
Lemma pr_pcr : pcr s' q = r_pc l'. Proof. unfold pcr. rewrite pr_rl. reflexivity. Qed.
Lemma pr_pa : forall r, pc_alive (pcr s' r) = pc_alive (pcr s r).
Proof.
  intros r. destruct (Nat.eq_dec r q) as [->|Hne].
  - rewrite pr_pcr, Hal. symmetry. apply Aq.
  - unfold pcr. rewrite pr_rl_other by exact Hne. reflexivity.
Qed.
Lemma pr_alive : forall r, alive s' r <-> alive s r.
Proof. intros r. unfold ProofsCrashA.alive. rewrite pr_pa. tauto. Qed.
Lemma pr_resp : queue (net s' q RESP) = rest.
Proof. unfold s'. simp_st. rewrite upd_net_same. reflexivity. Qed.
Lemma pr_queue : forall r c, (r <> q \/ c <> RESP) -> queue (net s' r c) = queue (net s r c).
Proof. intros r c H. unfold s'. simp_st. rewrite upd_net_other by exact H. reflexivity. Qed.
Lemma pr_pend : forall r, pend s' r = pend s r.
Proof.
  intros r. destruct (Nat.eq_dec r q) as [->|Hne].
  - rewrite !pend_not_hb; [|exact Hn1 | rewrite pr_pcr; exact Hn2]. rewrite pr_queue by (right; discriminate). reflexivity.
  - apply pend_ext; [unfold pcr; rewrite pr_rl_other by exact Hne; reflexivity | rewrite pr_rl_other by exact Hne; reflexivity | apply pr_queue; right; discriminate].
Qed.
Lemma pr_fs : forall r k, fsv s' r k = fsv s r k. Proof. reflexivity. Qed.
Lemma pr_owedP : owedP s' q <-> owedP s q.
Proof. unfold owedP. rewrite pr_queue by (right; discriminate). tauto. Qed.

(* token lists of a backup other than the sender of m are unchanged; those of the sender lose m *)
Lemma pr_filter_other : forall (f : node -> msg -> bool) b,
  (forall x y, f x y = true -> m_from y = x) -> b <> m_from m ->
  filter (f b) (queue (net s' q RESP)) = filter (f b) (queue (net s q RESP)).
Proof.
  intros f b Hf Hb. rewrite pr_resp, Eq. cbn [filter]. destruct (f b m) eqn:E; [|reflexivity].
  apply Hf in E. congruence.
Qed.
Lemma from_b_from : forall x y, from_b x y = true -> m_from y = x.
Proof. intros x y H. apply Nat.eqb_eq in H. exact H. Qed.
Lemma is_syncresp_from : forall x y, is_syncresp x y = true -> m_from y = x.
Proof. intros x y H. unfold is_syncresp in H. apply andb_true_iff in H. destruct H as [H _]. apply Nat.eqb_eq in H. exact H. Qed.
Lemma is_ack_from : forall x y, is_ack x y = true -> m_from y = x.
Proof. intros x y H. unfold is_ack in H. apply andb_true_iff in H. destruct H as [H _]. apply Nat.eqb_eq in H. exact H. Qed.

Lemma pr_sresps_other : forall b, b <> m_from m -> sresps s' q b = sresps s q b.
Proof. intros b H. unfold sresps. apply pr_filter_other; [exact is_syncresp_from | exact H]. Qed.
Lemma pr_acks_other : forall b, b <> m_from m -> acks s' q b = acks s q b.
Proof. intros b H. unfold acks. apply pr_filter_other; [exact is_ack_from | exact H]. Qed.
Lemma pr_sreqs : forall b, sreqs s' q b = sreqs s q b.
Proof. intros b. unfold sreqs. rewrite pr_pend. reflexivity. Qed.
Lemma pr_puts : forall b, puts s' q b = puts s q b.
Proof. intros b. unfold puts. rewrite pr_pend. reflexivity. Qed.
Lemma pr_toks_other : forall b, b <> m_from m -> toks s' q b = toks s q b.
Proof. intros b H. unfold toks. rewrite (pr_sresps_other b H), pr_sreqs. reflexivity. Qed.
Lemma pr_xs_other : forall b, b <> m_from m -> xs s' q b = xs s q b.
Proof.
  intros b H. unfold xs. rewrite pr_pend. f_equal. apply pr_filter_other; [exact from_b_from | exact H].
Qed.
Lemma pr_xs_sender : xs s q (m_from m) = m :: xs s' q (m_from m).
Proof.
  unfold xs. rewrite pr_pend, pr_resp, Eq. cbn [filter]. unfold from_b at 1. rewrite Nat.eqb_refl. reflexivity.
Qed.

End POPRESP.


Lemma sync_typed_not_putresp : forall t, sync_typed t -> m_typ t <> PUT_RESP.
Proof. intros t [H|H]; rewrite H; discriminate. Qed.

(* rcvReplicaRespLoop reads an acknowledgement *)
Lemma invB_rcvrepl_read : forall w s m rest,
  InvA s -> InvB w s -> alive s (ldr s) -> pcr s (ldr s) = RcvReplicaRespLoop ->
  queue (net s (ldr s) RESP) = m :: rest -> m_typ m = PUT_RESP ->
  InvB w (set_rl (set_net s (upd_net (net s) (ldr s) RESP (mkLink rest true))) (ldr s)
            (r_set_pc (r_set_rs (rl s (ldr s)) (remove_node (m_from m) (r_replicaSet (rl s (ldr s))))) RcvReplicaRespLoop)).
Proof.
  intros w s m rest IA IB Aq Epc Eq Ht.
  set (q := ldr s) in *.
  set (l' := r_set_pc (r_set_rs (rl s q) (remove_node (m_from m) (r_replicaSet (rl s q)))) RcvReplicaRespLoop).
  set (s' := set_rl (set_net s (upd_net (net s) q RESP (mkLink rest true))) q l').
  assert (Hn1 : pcr s q <> HandleBackup) by (rewrite Epc; discriminate).
  assert (Hn2 : r_pc l' <> HandleBackup) by discriminate.
  assert (Hal : pc_alive (r_pc l') = true) by reflexivity.
  pose proof IB as [V P Ph].
  assert (R : inrepl s q) by (right; exact Epc).
  destruct (ph_repl cfg w s Ph Aq R) as (R1 & R2 & R3 & R4).
  assert (LA : forall r, alive s' r <-> alive s r) by (apply pr_alive; auto).
  assert (Lrl : rl s' q = l') by (apply pr_rl).
  assert (Lpcr : pcr s' q = RcvReplicaRespLoop) by (unfold pcr; rewrite Lrl; reflexivity).
  assert (Lrlo : forall r, r <> q -> rl s' r = rl s r) by (apply pr_rl_other).
  assert (Lpend : forall r, pend s' r = pend s r) by (apply pr_pend; auto).
  assert (Lresp : queue (net s' q RESP) = rest) by (apply pr_resp).
  assert (Llpb : forall r, r_lastPutBody (rl s' r) = r_lastPutBody (rl s r)).
  { intros r. destruct (Nat.eq_dec r q) as [->|Hne]; [rewrite Lrl; reflexivity | rewrite Lrlo by exact Hne; reflexivity]. }
  assert (LK : forall r, K s' r = K s r) by (intros r; unfold K; rewrite Llpb; reflexivity).
  assert (Lnew : forall r, isnew w s' r <-> isnew w s r) by (apply fr_isnew; [exact Llpb | reflexivity]).
  assert (Lold : forall r, isold w s' r <-> isold w s r) by (apply fr_isold; [exact Llpb | reflexivity]).
  assert (Lknows : forall r, knows w s' r <-> knows w s r) by (intros r; unfold knows; rewrite LK, Lpend; tauto).
  assert (Hsub : forall m0, In m0 rest -> In m0 (queue (net s q RESP))) by (intros m0 H; rewrite Eq; right; exact H).
  constructor; [constructor; try apply V | constructor | constructor]; replace (ldr s') with q by reflexivity.
  - intros r A. apply LA in A. rewrite Lnew, Lold. apply (v_rep cfg w s V r A).
  - intros r m0 A Hm. apply LA in A. rewrite Lpend in Hm. apply (v_pend cfg w s V r m0 A Hm).
  - rewrite Lresp. intros m0 A Hm Ht0. destruct (v_resp cfg w s V m0 Aq (Hsub m0 Hm) Ht0) as [B1 B2].
    split; [exact B1|]. intros A2. apply LA in A2. rewrite LK. apply B2. exact A2.
  - intros r1 r2 A1 A2 Hlt Hk. apply LA in A1. apply LA in A2. apply Lknows. apply Lknows in Hk.
    apply (p_order cfg w s P r1 r2 A1 A2 Hlt Hk).
  - rewrite Lresp. intros m0 A Hm Ht0 Hv. apply Lknows. apply (p_resp cfg w s P m0 Aq (Hsub m0 Hm) Ht0 Hv).
  - rewrite Lpcr. intros _ [H|H]; discriminate H.
  - intros _ H. exfalso. apply H. right. exact Lpcr.
  - intros _ H. exfalso. apply H. right. exact Lpcr.
  - intros _ HK. rewrite LK in HK. rewrite (isnew_K w s q R1) in HK. lia.
  - intros _ H. exfalso. apply H. right. exact Lpcr.
  - intros _ _. split; [apply Lnew; exact R1|]. split; [|split].
    + intros b m0 Ab Hb Hm. apply LA in Ab. rewrite Lpend in Hm. apply (R2 b m0 Ab Hb Hm).
    + rewrite Lresp. intros m0 Hm. apply R3. apply Hsub. exact Hm.
    + intros b Ab Hb. apply LA in Ab. destruct (R4 b Ab Hb) as (Sy & Pu & E & HSy & Hst). fold q in E, Hst.
      assert (Hrs : rsent s' q b <-> rsent s q b).
      { unfold rsent. rewrite Lpcr, Epc. split; intros _; left; reflexivity. }
      destruct (Nat.eq_dec b (m_from m)) as [Eb|Hne].
      * (* the sender of the acknowledgement: acknowledged -> done *)
        subst b.
        assert (EX : xs s q (m_from m) = m :: xs s' q (m_from m)) by (apply pr_xs_sender; auto).
        rewrite E in EX.
        assert (HSy0 : Sy = []).
        { destruct Sy as [|t Sy']; [reflexivity|]. exfalso. cbn in EX. injection EX as Et _.
          inversion HSy as [|? ? Ht1 _]. rewrite Et in Ht1. exact (sync_typed_not_putresp m Ht1 Ht). }
        rewrite HSy0 in *. cbn [app] in EX.
        exists [], []. split; [|split; [constructor|]].
        { destruct Hst as [(_ & _ & _ & S4)|[(_ & _ & _ & m1 & S4 & _)|[(_ & _ & _ & m1 & S4 & _)|(_ & _ & _ & _ & S4)]]];
            rewrite S4 in EX; try discriminate EX; inversion EX; reflexivity. }
        right. right. right. rewrite Hrs, Lnew, Lrl. unfold l'. simp_st. rewrite in_remove_node.
        destruct Hst as [(_ & _ & _ & S4)|[(_ & _ & _ & m1 & S4 & S5 & _)|[(S1 & S2 & _)|(S1 & S2 & _)]]].
        -- rewrite S4 in EX. discriminate EX.
        -- rewrite S4 in EX. inversion EX; subst m1. rewrite Ht in S5. discriminate S5.
        -- split; [exact S1|]. split; [exact S2|]. split; [tauto | auto].
        -- split; [exact S1|]. split; [exact S2|]. split; [tauto | auto].
      * exists Sy, Pu. assert (EX : xs s' q b = xs s q b) by (eapply pr_xs_other; eauto). rewrite EX.
        split; [exact E|]. split; [exact HSy|].
        rewrite Hrs, Lnew, Lold, Lrl. unfold l'. simp_st.
        assert (HinS : In b (remove_node (m_from m) (r_replicaSet (rl s q))) <-> In b (r_replicaSet (rl s q))).
        { rewrite in_remove_node. tauto. }
        rewrite HinS. exact Hst.
Qed.


Lemma filter_nil_impl : forall A (f g : A -> bool) l,
  (forall x, f x = true -> g x = true) -> filter g l = [] -> filter f l = [].
Proof.
  intros A f g l H. induction l as [|a l IH]; cbn; [reflexivity|].
  destruct (g a) eqn:Eg; [discriminate|]. intros Hl. destruct (f a) eqn:Ef; [apply H in Ef; congruence | apply IH; exact Hl].
Qed.

Lemma xs_nil_all : forall s q b, xs s q b = [] ->
  sresps s q b = [] /\ sreqs s q b = [] /\ acks s q b = [] /\ puts s q b = [].
Proof.
  intros s q b H. unfold xs in H. apply app_eq_nil in H. destruct H as [H1 H2].
  unfold sresps, sreqs, acks, puts. repeat split.
  - eapply filter_nil_impl; [|exact H1]. intros x Hx. unfold is_syncresp in Hx. apply andb_true_iff in Hx. apply Hx.
  - eapply filter_nil_impl; [|exact H2]. intros x Hx. unfold is_syncreq in Hx. apply andb_true_iff in Hx. apply Hx.
  - eapply filter_nil_impl; [|exact H1]. intros x Hx. unfold is_ack in Hx. apply andb_true_iff in Hx. apply Hx.
  - eapply filter_nil_impl; [|exact H2]. intros x Hx. unfold is_put in Hx. apply andb_true_iff in Hx. apply Hx.
Qed.

(* rcvReplicaRespLoop with an empty replicaSet: every live backup has acknowledged *)
Lemma invB_rcvrepl_exit : forall w s, InvA s -> InvB w s -> alive s (ldr s) ->
  pcr s (ldr s) = RcvReplicaRespLoop -> r_replicaSet (rl s (ldr s)) = [] ->
  InvB w (set_rl s (ldr s) (r_set_pc (rl s (ldr s)) SndResp)).
Proof.
  intros w s IA IB Aq Epc HS.
  set (q := ldr s) in *. set (l' := r_set_pc (rl s q) SndResp).
  assert (Hn1 : pcr s q <> HandleBackup) by (rewrite Epc; discriminate).
  assert (Hn2 : r_pc l' <> HandleBackup) by discriminate.
  pose proof IB as [V P Ph].
  assert (R : inrepl s q) by (right; exact Epc).
  destruct (ph_repl cfg w s Ph Aq R) as (R1 & R2 & R3 & R4).
  assert (D : forall b, alive s b -> b <> q -> isnew w s b /\ xs s q b = []).
  { intros b Ab Hb. destruct (R4 b Ab Hb) as (Sy & Pu & E & HSy & Hst). fold q in E, Hst. rewrite HS in Hst.
    destruct Hst as [(_ & _ & [] & _)|[(_ & _ & [] & _)|[(_ & _ & [] & _)|(_ & S2 & _ & S4 & S5)]]].
    split; [exact S2|]. rewrite E, S4, S5. reflexivity. }
  assert (LA : forall r, alive (set_rl s q l') r <-> alive s r) by (apply ll_alive; auto).
  assert (LK : forall r, K (set_rl s q l') r = K s r) by (apply ll_K; auto).
  assert (LT : forall b, alive s b -> toks (set_rl s q l') q b = toks s q b) by (apply ll_toks; auto).
  assert (LP : forall b, alive s b -> puts (set_rl s q l') q b = puts s q b) by (apply ll_puts; auto).
  assert (Hrl : rl (set_rl s q l') q = l') by (apply ll_rl).
  apply (ll_build cfg w s l' IB Aq eq_refl eq_refl Hn1 Hn2).
  { intros [H|H]; discriminate H. }
  constructor; rewrite (ll_ldr cfg); fold q.
  - intros A _ b Ab Hb HK. apply LA in Ab. rewrite !LK in HK. destruct (D b Ab Hb) as [D1 _].
    rewrite (isnew_K w s b D1), (isnew_K w s q R1) in HK. lia.
  - intros A _ b Ab Hb. apply LA in Ab. rewrite (LT b Ab). destruct (D b Ab Hb) as [_ D2].
    destruct (xs_nil_all s q b D2) as (X1 & X2 & _). unfold toks. rewrite X1, X2. exact Logic.I.
  - intros A HK. rewrite LK, (isnew_K w s q R1) in HK. lia.
  - intros A _ b Ab Hb. apply LA in Ab. rewrite (LP b Ab). destruct (D b Ab Hb) as [_ D2].
    destruct (xs_nil_all s q b D2) as (_ & _ & X3 & X4). split; assumption.
  - intros _ [H|H]; unfold pcr in H; rewrite Hrl in H; discriminate H.
Qed.

(* the whole label *)
Lemma invB_rcvReplicaRespLoop : forall w s p ch s', InvA s -> InvB w s -> alive s p ->
  pcr s p = RcvReplicaRespLoop -> step_rcvReplicaRespLoop cfg ch s p = Ok s' -> InvB w s'.
Proof.
  intros w s p ch s' IA IB Ap Epc Hs.
  assert (Hq : p = ldr s).
  { apply (nonbackup_is_ldr cfg s p IA Ap). rewrite Epc. cbn. tauto. }
  subst p. unfold step_rcvReplicaRespLoop in Hs.
  destruct (r_replicaSet (rl s (ldr s))) as [|x0 S0] eqn:ES.
  { inversion Hs; subst s'. apply invB_rcvrepl_exit; auto. }
  rewrite <- ES in Hs.
  destruct (ch_alt ch); cbn [negb] in Hs.
  { dif Hs; [discriminate|]. dif Hs; [|discriminate]. apply (invB_may_fail cfg w _ ch s' _ _ _ Hs).
    apply andb_true_iff in E0. destruct E0 as [Efd _].
    rewrite <- Epc. apply invB_rs_shrink; auto.
    intros b Ab. rewrite in_remove_node. split; [tauto|]. intros H. split; [exact H|].
    intros ->. apply (fd_not_alive cfg s _ IA Efd). exact Ab. }
  unfold link_recv in Hs. dif Hs; [discriminate|].
  destruct (queue (net s (ldr s) RESP)) as [|m rest] eqn:Eq; [discriminate|].
  destruct (r_req (rl s (ldr s))) as [req|]; cbn [bindT] in Hs; [|discriminate].
  dif Hs; [discriminate|].
  assert (Hen : enabled (net s (ldr s) RESP) = true) by (apply negb_false_iff in E; exact E).
  rewrite Hen in Hs. apply (invB_may_fail cfg w _ ch s' _ _ _ Hs).
  apply negb_false_iff in E0. repeat (apply andb_true_iff in E0; destruct E0 as [E0 ?]).
  apply invB_rcvrepl_read; auto.
  destruct (m_typ m); cbn in *; try discriminate; reflexivity.
Qed.


(* ------------------------------------------------------------------ rcvSyncRespLoop reads an answer that is not newer *)
Lemma invB_rcvsync_remove : forall w s m rest,
  InvA s -> InvB w s -> alive s (ldr s) -> pcr s (ldr s) = RcvSyncRespLoop ->
  queue (net s (ldr s) RESP) = m :: rest -> m_typ m = SYNC_RESP -> Kv (m_body m) <= K s (ldr s) ->
  InvB w (set_rl (set_net s (upd_net (net s) (ldr s) RESP (mkLink rest true))) (ldr s)
            (r_set_pc (r_set_rs (rl s (ldr s)) (remove_node (m_from m) (r_replicaSet (rl s (ldr s))))) RcvSyncRespLoop)).
Proof.
  intros w s m rest IA IB Aq Epc Eq Ht Hver.
  set (q := ldr s) in *.
  set (l' := r_set_pc (r_set_rs (rl s q) (remove_node (m_from m) (r_replicaSet (rl s q)))) RcvSyncRespLoop).
  set (s' := set_rl (set_net s (upd_net (net s) q RESP (mkLink rest true))) q l').
  assert (Hn1 : pcr s q <> HandleBackup) by (rewrite Epc; discriminate).
  assert (Hn2 : r_pc l' <> HandleBackup) by discriminate.
  assert (Hal : pc_alive (r_pc l') = true) by reflexivity.
  pose proof IB as [V P Ph].
  assert (N2 : ~ inrepl s q) by (unfold inrepl; rewrite Epc; intuition discriminate).
  assert (LA : forall r, alive s' r <-> alive s r) by (apply pr_alive; auto).
  assert (Lrl : rl s' q = l') by (apply pr_rl).
  assert (Lpcr : pcr s' q = RcvSyncRespLoop) by (unfold pcr; rewrite Lrl; reflexivity).
  assert (Lrlo : forall r, r <> q -> rl s' r = rl s r) by (apply pr_rl_other).
  assert (Lpend : forall r, pend s' r = pend s r) by (apply pr_pend; auto).
  assert (Lresp : queue (net s' q RESP) = rest) by (apply pr_resp).
  assert (Llpb : forall r, r_lastPutBody (rl s' r) = r_lastPutBody (rl s r)).
  { intros r. destruct (Nat.eq_dec r q) as [->|Hne]; [rewrite Lrl; reflexivity | rewrite Lrlo by exact Hne; reflexivity]. }
  assert (LK : forall r, K s' r = K s r) by (intros r; unfold K; rewrite Llpb; reflexivity).
  assert (Lnew : forall r, isnew w s' r <-> isnew w s r) by (apply fr_isnew; [exact Llpb | reflexivity]).
  assert (Lold : forall r, isold w s' r <-> isold w s r) by (apply fr_isold; [exact Llpb | reflexivity]).
  assert (Lknows : forall r, knows w s' r <-> knows w s r) by (intros r; unfold knows; rewrite LK, Lpend; tauto).
  assert (Hsub : forall m0, In m0 rest -> In m0 (queue (net s q RESP))) by (intros m0 H; rewrite Eq; right; exact H).
  assert (LowP : owedP s' q <-> owedP s q) by (apply pr_owedP).
  assert (Low : owed s q -> owed s' q).
  { unfold owed. rewrite LowP, Lpcr, Lrl. unfold l'. simp_st. intros [H|[H|H]]; auto. }
  assert (Lins : insync s' q) by (right; exact Lpcr).
  assert (LS : forall b, b <> m_from m -> (In b (r_replicaSet (rl s' q)) <-> In b (r_replicaSet (rl s q)))).
  { intros b Hb. rewrite Lrl. unfold l'. simp_st. rewrite in_remove_node. tauto. }
  assert (LSr : forall b, b <> m_from m -> sresps s' q b = sresps s q b) by (intros; eapply pr_sresps_other; eauto).
  assert (LSq : forall b, sreqs s' q b = sreqs s q b) by (intros; eapply pr_sreqs; eauto).
  assert (LTo : forall b, b <> m_from m -> toks s' q b = toks s q b) by (intros; eapply pr_toks_other; eauto).
  assert (LPu : forall b, puts s' q b = puts s q b) by (intros; eapply pr_puts; eauto).
  (* tokens of the sender *)
  assert (Hsender : sresps s q (m_from m) = m :: sresps s' q (m_from m)).
  { unfold sresps. rewrite Lresp, Eq. cbn [filter]. unfold is_syncresp at 1. rewrite Nat.eqb_refl, Ht. reflexivity. }
  assert (Hacks : forall b, acks s' q b = acks s q b).
  { intros b. unfold acks. rewrite Lresp, Eq. cbn [filter]. unfold is_ack at 2. rewrite Ht, andb_false_r. reflexivity. }
  constructor; [constructor; try apply V | constructor | constructor]; replace (ldr s') with q by reflexivity.
  - intros r A. apply LA in A. rewrite Lnew, Lold. apply (v_rep cfg w s V r A).
  - intros r m0 A Hm. apply LA in A. rewrite Lpend in Hm. apply (v_pend cfg w s V r m0 A Hm).
  - rewrite Lresp. intros m0 A Hm Ht0. destruct (v_resp cfg w s V m0 Aq (Hsub m0 Hm) Ht0) as [B1 B2].
    split; [exact B1|]. intros A2. apply LA in A2. rewrite LK. apply B2. exact A2.
  - intros r1 r2 A1 A2 Hlt Hk. apply LA in A1. apply LA in A2. apply Lknows. apply Lknows in Hk.
    apply (p_order cfg w s P r1 r2 A1 A2 Hlt Hk).
  - rewrite Lresp. intros m0 A Hm Ht0 Hv. apply Lknows. apply (p_resp cfg w s P m0 Aq (Hsub m0 Hm) Ht0 Hv).
  - rewrite Lpcr. intros _ [H|H]; discriminate H.
  - (* main *)
    intros _ _ b Ab Hb HK. apply LA in Ab. rewrite !LK in HK.
    destruct (ph_main cfg w s Ph Aq N2 b Ab Hb HK) as [H|(H1 & H2 & H3 & H4)]; [left; apply Low; exact H|]. fold q in H2, H3, H4.
    destruct (Nat.eq_dec b (m_from m)) as [->|Hne]; [rewrite Hsender in H3; discriminate|].
    right. split; [exact Lins|]. split; [apply (LS b Hne); exact H2|].
    split; [rewrite (LSr b Hne); exact H3|].
    rewrite LSq, LK, Lpcr.
    destruct H4 as [H4|[H4 _]]; [left; exact H4 | rewrite Epc in H4; discriminate].
  - (* tok *)
    intros _ _ b Ab Hb. apply LA in Ab. rewrite LK.
    pose proof (ph_tok cfg w s Ph Aq N2 b Ab Hb) as H. fold q in H.
    destruct (Nat.eq_dec b (m_from m)) as [->|Hne].
    + unfold toks in *. rewrite Hsender in H. cbn [app] in H. destruct H as [H1 _].
      rewrite LSq.
      destruct (sresps s' q (m_from m) ++ sreqs s q (m_from m)) as [|t' rest']; [exact Logic.I|].
      inversion H1 as [|? ? Hh1 Htl1]. split; [exact Htl1|]. intros Hlt. lia.
    + rewrite (LTo b Hne).
      destruct (toks s q b) as [|t rest0]; [exact Logic.I|]. destruct H as [H1 H2]. split; [exact H1|].
      intros Hlt. destruct (H2 Hlt) as (X1 & X2 & X3). split; [exact Lins|]. split; [apply (LS b Hne); exact X2 | apply LowP; exact X3].
  - (* count *)
    intros _ HK b Ab Hb. apply LA in Ab. rewrite LK in HK.
    destruct (ph_count cfg w s Ph Aq HK b Ab Hb) as [C1 C2]. fold q in C1, C2.
    destruct (Nat.eq_dec b (m_from m)) as [->|Hne].
    + unfold toks in *. rewrite Hsender in C1. cbn [app List.length] in C1.
      rewrite LSq.
      destruct (sresps s' q (m_from m) ++ sreqs s q (m_from m)) as [|t' rest']; [split; [cbn; lia | intros H; congruence]|].
      cbn in C1. lia.
    + rewrite (LTo b Hne). split; [exact C1|]. intros Hn.
      destruct (C2 Hn) as (X1 & X2 & X3). split; [exact Lins|]. split; [apply (LS b Hne); exact X2|]. left. exact Lpcr.
  - (* noack *)
    intros _ _ b Ab Hb. apply LA in Ab. rewrite Hacks, LPu. apply (ph_noack cfg w s Ph Aq N2 b Ab Hb).
  - intros _ [H|H]; rewrite Lpcr in H; discriminate H.
Qed.


(* ------------------------------------------------------------------ rcvSyncRespLoop reads a newer version: adopt it, restart the sync *)
Lemma invB_rcvsync_restart : forall w s m rest k v,
  InvA s -> InvB w s -> alive s (ldr s) -> pcr s (ldr s) = RcvSyncRespLoop ->
  queue (net s (ldr s) RESP) = m :: rest -> m_typ m = SYNC_RESP -> K s (ldr s) < Kv (m_body m) ->
  body_key (m_body m) = Some k -> body_value (m_body m) = Some v ->
  InvB w (set_rl (set_fs (set_net s (upd_net (net s) (ldr s) RESP (mkLink rest true)))
                         (upd_fs (fsv s) (ldr s) k v)) (ldr s)
            (r_set_pc (r_set_idx (r_set_rs (r_set_lpb (rl s (ldr s)) (m_body m)) (others cfg (ldr s))) 1) SndSyncReqLoop)).
Proof.
  intros w s m rest k v IA IB Aq Epc Eq Ht Hver Hk Hv.
  set (q := ldr s) in *.
  set (l' := r_set_pc (r_set_idx (r_set_rs (r_set_lpb (rl s q) (m_body m)) (others cfg q)) 1) SndSyncReqLoop).
  set (s0 := set_rl (set_net s (upd_net (net s) q RESP (mkLink rest true))) q l').
  set (s' := set_rl (set_fs (set_net s (upd_net (net s) q RESP (mkLink rest true))) (upd_fs (fsv s) q k v)) q l').
  assert (Hn1 : pcr s q <> HandleBackup) by (rewrite Epc; discriminate).
  assert (Hn2 : r_pc l' <> HandleBackup) by discriminate.
  assert (Hal : pc_alive (r_pc l') = true) by reflexivity.
  pose proof IB as [V P Ph].
  assert (N2 : ~ inrepl s q) by (unfold inrepl; rewrite Epc; intuition discriminate).
  assert (Hmin : In m (queue (net s q RESP))) by (rewrite Eq; left; reflexivity).
  (* the version read is the latest one, the leader was one behind *)
  destruct (v_resp cfg w s V m Aq Hmin Ht) as [(ver & c & Hb & Hle & HcM & _) _].
  destruct (K_le_Mx cfg w s q V Aq) as [Kq1 Kq2]. rewrite Hb in Hver. cbn [Kv] in Hver.
  assert (Ever : ver = Mx w) by lia. subst ver. specialize (HcM eq_refl). subst c.
  assert (HcMkv : cM w = Some (k, v)).
  { rewrite Hb in Hk, Hv. cbn in Hk, Hv. destruct (cM w) as [[k0 v0]|]; [|discriminate]. congruence. }
  assert (Hqold : isold w s q) by (apply (K_lt_isold cfg w s q V Aq); lia).
  destruct Hqold as (HMx1 & Hqlpb & Hqfs).
  assert (LA : forall r, alive s' r <-> alive s r) by (apply (pr_alive s rest l' Aq Hal)).
  assert (Lrl : rl s' q = l') by (apply (pr_rl s rest l')).
  assert (Lpcr : pcr s' q = SndSyncReqLoop) by (unfold pcr; rewrite Lrl; reflexivity).
  assert (Lrlo : forall r, r <> q -> rl s' r = rl s r) by (apply (pr_rl_other s rest l')).
  assert (Lpend : forall r, pend s' r = pend s r) by (apply (pr_pend s rest l' Hn1 Hn2)).
  assert (Lresp : queue (net s' q RESP) = rest) by (apply (pr_resp s rest l')).
  assert (LKo : forall r, r <> q -> K s' r = K s r) by (intros r Hr; unfold K; rewrite Lrlo by exact Hr; reflexivity).
  assert (LKq : K s' q = Mx w) by (unfold K; rewrite Lrl; unfold l'; simp_st; rewrite Hb; reflexivity).
  assert (Lfso : forall r k0, r <> q -> fsv s' r k0 = fsv s r k0).
  { intros r k0 Hr. unfold s'. simp_st. apply upd_fs_other_node. exact Hr. }
  assert (Lnewq : isnew w s' q).
  { split; [rewrite Lrl; unfold l'; simp_st; exact Hb|]. intros k0. unfold s'. simp_st.
    rewrite upd_fs_node. unfold Fnew. rewrite HcMkv. cbn. rewrite Hqfs. reflexivity. }
  assert (Lnewo : forall r, r <> q -> (isnew w s' r <-> isnew w s r)).
  { intros r Hr. unfold isnew. rewrite (Lrlo r Hr). split; intros [X Y]; split; auto; intros k0; [rewrite <- (Lfso r k0 Hr) | rewrite (Lfso r k0 Hr)]; apply Y. }
  assert (Loldo : forall r, r <> q -> (isold w s' r <-> isold w s r)).
  { intros r Hr. unfold isold. rewrite (Lrlo r Hr). split; intros (X & Y & Z); repeat split; auto; intros k0; [rewrite <- (Lfso r k0 Hr) | rewrite (Lfso r k0 Hr)]; apply Z. }
  assert (Lknowso : forall r, r <> q -> (knows w s' r <-> knows w s r)).
  { intros r Hr. unfold knows. rewrite (LKo r Hr), Lpend. tauto. }
  assert (Lknowsq : knows w s' q) by (left; exact LKq).
  assert (Hsub : forall m0, In m0 rest -> In m0 (queue (net s q RESP))) by (intros m0 H; rewrite Eq; right; exact H).
  assert (LowP : owedP s' q <-> owedP s q) by (apply (pr_owedP s rest l')).
  (* the leader still has the request carrying the latest version in its queue *)
  assert (HowP : owedP s q).
  { destruct (p_resp cfg w s P m Aq Hmin Ht) as [HK|(m1 & Hm1 & _)]; [rewrite Hb; reflexivity | fold q in HK; lia |]. fold q in Hm1.
    rewrite pend_not_hb in Hm1 by exact Hn1. unfold owedP. intros E. rewrite E in Hm1. destruct Hm1. }
  assert (Lins : insync s' q) by (left; exact Lpcr).
  assert (LSall : forall b, alive s b -> b <> q -> In b (r_replicaSet (rl s' q))).
  { intros b Ab Hb0. rewrite Lrl. unfold l'. simp_st. apply in_others. split; [apply Ab | exact Hb0]. }
  assert (LSr : forall b, b <> m_from m -> sresps s' q b = sresps s q b) by (intros; eapply (pr_sresps_other s m rest l'); eauto).
  assert (LSq : forall b, sreqs s' q b = sreqs s q b) by (intros; eapply (pr_sreqs s rest l'); eauto).
  assert (LTo : forall b, b <> m_from m -> toks s' q b = toks s q b) by (intros; eapply (pr_toks_other s m rest l'); eauto).
  assert (LPu : forall b, puts s' q b = puts s q b) by (intros; eapply (pr_puts s rest l'); eauto).
  assert (Hsender : sresps s q (m_from m) = m :: sresps s' q (m_from m)).
  { unfold sresps. rewrite Lresp, Eq. cbn [filter]. unfold is_syncresp at 1. rewrite Nat.eqb_refl, Ht. reflexivity. }
  assert (Hacks : forall b, acks s' q b = acks s q b).
  { intros b. unfold acks. rewrite Lresp, Eq. cbn [filter]. unfold is_ack at 2. rewrite Ht, andb_false_r. reflexivity. }
  assert (HKlt : K s q < Mx w) by lia.
  constructor; [constructor; try apply V | constructor | constructor]; replace (ldr s') with q by reflexivity.
  - intros r A. apply LA in A. destruct (Nat.eq_dec r q) as [->|Hne]; [left; exact Lnewq|].
    rewrite (Lnewo r Hne), (Loldo r Hne). apply (v_rep cfg w s V r A).
  - intros r m0 A Hm. apply LA in A. rewrite Lpend in Hm. apply (v_pend cfg w s V r m0 A Hm).
  - rewrite Lresp. intros m0 A Hm Ht0. destruct (v_resp cfg w s V m0 Aq (Hsub m0 Hm) Ht0) as [B1 B2].
    split; [exact B1|]. intros A2. apply LA in A2.
    destruct (Nat.eq_dec (m_from m0) q) as [E|Hne]; [rewrite E, LKq; apply (body_ok_Kv w); exact B1 | rewrite (LKo _ Hne); apply B2; exact A2].
  - intros r1 r2 A1 A2 Hlt Hk0. apply LA in A1. apply LA in A2.
    destruct (Nat.eq_dec r1 q) as [->|Hne1]; [exact Lknowsq|].
    destruct (alive_ge_ldr cfg s r1 IA A1) as [_ Hge]. fold q in Hge.
    assert (Hne2 : r2 <> q) by lia.
    apply (Lknowso r1 Hne1). apply (Lknowso r2 Hne2) in Hk0. apply (p_order cfg w s P r1 r2 A1 A2 Hlt Hk0).
  - intros m0 _ _ _ _. exact Lknowsq.
  - rewrite Lrl. unfold l'. simp_st. intros _ _ _ r _ Hr. lia.
  - (* main: every backup that is behind is covered by the request still pending at the leader *)
    intros _ _ b Ab Hb0 _. left. left. apply LowP. exact HowP.
  - (* tok *)
    intros _ _ b Ab Hb0. apply LA in Ab.
    destruct (ph_count cfg w s Ph Aq HKlt b Ab Hb0) as [C1 C2]. fold q in C1, C2.
    destruct (Nat.eq_dec b (m_from m)) as [->|Hne].
    + unfold toks in *. rewrite Hsender in C1. cbn [app List.length] in C1. rewrite LSq.
      destruct (sresps s' q (m_from m) ++ sreqs s q (m_from m)) as [|t' rest']; [exact Logic.I | cbn in C1; lia].
    + rewrite (LTo b Hne). destruct (toks s q b) as [|t rest0]; [exact Logic.I|].
      destruct rest0 as [|t2 rest2]; [|cbn in C1; lia].
      split; [constructor|]. intros _. split; [exact Lins|]. split; [apply LSall; assumption | apply LowP; exact HowP].
  - intros _ HK. rewrite LKq in HK. lia.
  - intros _ _ b Ab Hb0. apply LA in Ab. rewrite Hacks, LPu. apply (ph_noack cfg w s Ph Aq N2 b Ab Hb0).
  - intros _ [H|H]; rewrite Lpcr in H; discriminate H.
Qed.


Lemma invB_rcvSyncRespLoop : forall w s p ch s', InvA s -> InvB w s -> alive s p ->
  pcr s p = RcvSyncRespLoop -> step_rcvSyncRespLoop cfg ch s p = Ok s' -> InvB w s'.
Proof.
  intros w s p ch s' IA IB Ap Epc Hs.
  assert (Hq : p = ldr s).
  { apply (nonbackup_is_ldr cfg s p IA Ap). rewrite Epc. cbn. tauto. }
  subst p. unfold step_rcvSyncRespLoop in Hs.
  destruct (r_replicaSet (rl s (ldr s))) as [|x0 S0] eqn:ES.
  { inversion Hs; subst s'. apply invB_rcvsync_exit; auto. }
  rewrite <- ES in Hs.
  destruct (ch_alt ch); cbn [negb] in Hs.
  { dif Hs; [discriminate|]. dif Hs; [|discriminate]. inversion Hs; subst s'; clear Hs.
    apply andb_true_iff in E0. destruct E0 as [Efd _].
    rewrite <- Epc. apply invB_rs_shrink; auto.
    intros b Ab. rewrite in_remove_node. split; [tauto|]. intros H. split; [exact H|].
    intros ->. apply (fd_not_alive cfg s _ IA Efd). exact Ab. }
  unfold link_recv in Hs. dif Hs; [discriminate|].
  destruct (queue (net s (ldr s) RESP)) as [|m rest] eqn:Eq; [discriminate|].
  dif Hs; [discriminate|].
  assert (Hen : enabled (net s (ldr s) RESP) = true) by (apply negb_false_iff in E; exact E).
  rewrite Hen in Hs.
  apply negb_false_iff in E0. repeat (apply andb_true_iff in E0; destruct E0 as [E0 ?]).
  assert (Ht : m_typ m = SYNC_RESP) by (destruct (m_typ m); cbn in *; try discriminate; reflexivity).
  destruct (body_ver (m_body m)) as [rv|] eqn:Erv; cbn [bindT] in Hs; [|discriminate].
  destruct (body_ver (r_lastPutBody (rl s (ldr s)))) as [lv|] eqn:Elv; cbn [bindT] in Hs; [|discriminate].
  assert (HKm : Kv (m_body m) = rv) by (destruct (m_body m); cbn in *; try discriminate; congruence).
  assert (HKq : K s (ldr s) = lv) by (unfold K; destruct (r_lastPutBody (rl s (ldr s))); cbn in *; try discriminate; congruence).
  destruct (lv <? rv) eqn:Elt.
  - apply Nat.ltb_lt in Elt.
    destruct (body_key (m_body m)) as [k|] eqn:Ek; cbn [bindT] in Hs; [|discriminate].
    destruct (body_value (m_body m)) as [v|] eqn:Ev; cbn [bindT] in Hs; [|discriminate].
    inversion Hs; subst s'; clear Hs. apply invB_rcvsync_restart; auto. lia.
  - apply Nat.ltb_ge in Elt. inversion Hs; subst s'; clear Hs. apply invB_rcvsync_remove; auto. lia.
Qed.


(* ------------------------------------------------------------------ typing of what is pending / in flight (from InvA) *)
Lemma filter_p_shape : forall r q P C, Forall (pmA r q) P -> Forall (creq cfg) C -> filter is_p (P ++ C) = P.
Proof.
  intros r q P C HP HC. rewrite filter_app, (Forall_creq_filter_p cfg C HC), app_nil_r.
  induction HP as [|m P Hm HP IH]; cbn; [reflexivity|]. rewrite (pmA_is_p _ _ _ Hm), IH. reflexivity.
Qed.

Lemma pend_pmA : forall s b m, InvA s -> alive s b -> In m (pend s b) -> pmA b (ldr s) m.
Proof.
  intros s b m IA Ab Hm. unfold pend in Hm. apply in_app_or in Hm. destruct Hm as [Hm|Hm].
  - destruct (pcr s b) eqn:Epc; try (destruct Hm; fail).
    destruct (a_loc cfg s IA b Ab) as (_ & L2 & _). destruct (L2 Epc) as (m0 & E & Hp). unfold pcr in Epc.
    rewrite E in Hm. destruct Hm as [<-|[]]. exact Hp.
  - destruct (a_q cfg s IA b Ab) as ((P & C & E & HP & HC & _) & _). rewrite E in Hm.
    rewrite (filter_p_shape b (ldr s) P C HP HC) in Hm. rewrite Forall_forall in HP. apply HP. exact Hm.
Qed.

Lemma xs_sync_typed : forall s b, InvA s -> alive s (ldr s) -> alive s b ->
  acks s (ldr s) b = [] -> puts s (ldr s) b = [] -> Forall sync_typed (xs s (ldr s) b).
Proof.
  intros s b IA Aq Ab Hacks Hputs. unfold xs. apply Forall_app. split; apply Forall_forall; intros m Hm; apply filter_In in Hm; destruct Hm as [Hin Hf].
  - pose proof (a_q cfg s IA _ Aq) as (_ & _ & Rl). specialize (Rl eq_refl). rewrite Forall_forall in Rl.
    destruct (Rl m Hin) as (_ & [[Ht _]|Ht]); [left; exact Ht|]. exfalso.
    assert (Hi : In m (acks s (ldr s) b)).
    { unfold acks. apply filter_In. split; [exact Hin|]. unfold is_ack. unfold from_b in Hf. rewrite Hf, Ht. reflexivity. }
    rewrite Hacks in Hi. destruct Hi.
  - destruct (pend_pmA s b m IA Ab Hin) as (_ & [Ht|Ht] & _); [|right; exact Ht]. exfalso.
    assert (Hi : In m (puts s (ldr s) b)).
    { unfold puts. apply filter_In. split; [exact Hin|]. unfold is_put. unfold from_b in Hf. rewrite Hf, Ht. reflexivity. }
    rewrite Hputs in Hi. destruct Hi.
Qed.


(* ------------------------------------------------------------------ handlePrimary, Put: a new version is created *)
Lemma invB_new_version : forall s k v n cq (F : key -> value),
  InvA s -> alive s (ldr s) -> pcr s (ldr s) = HandlePrimary ->
  (forall b, alive s b -> r_lastPutBody (rl s b) = BPut n cq /\ forall k0, fsv s b k0 = F k0) ->
  (forall k0 v0, cq = Some (k0, v0) -> F k0 = v0) ->
  (forall r m, alive s r -> In m (pend s r) ->
      exists ver c, m_body m = BPut ver c /\ ver <= n /\ (ver = n -> c = cq)) ->
  (forall m, In m (queue (net s (ldr s) RESP)) -> m_typ m = SYNC_RESP ->
      (exists ver c, m_body m = BPut ver c /\ ver <= n /\ (ver = n -> c = cq)) /\
      (alive s (m_from m) -> Kv (m_body m) <= K s (m_from m))) ->
  (forall b, alive s b -> b <> ldr s -> acks s (ldr s) b = [] /\ puts s (ldr s) b = []) ->
  InvB (mkWit (n + 1) (Some (k, v)) F cq)
    (set_rl (set_fs s (upd_fs (fsv s) (ldr s) k v)) (ldr s)
       (r_set_pc (r_set_idx (r_set_rs (r_set_resp (r_set_lpb (rl s (ldr s)) (BPut (n + 1) (Some (k, v))))
                                                   (Some ACK_MSG_BODY) (Some PUT_RESP)) (others cfg (ldr s))) 1)
                 SndReplicaReqLoop)).
Proof.
  intros s k v n cq F IA Aq Epc Hall HcqF Hpend Hresp Hnoack.
  set (q := ldr s) in *.
  set (l' := r_set_pc (r_set_idx (r_set_rs (r_set_resp (r_set_lpb (rl s q) (BPut (n + 1) (Some (k, v))))
                                                   (Some ACK_MSG_BODY) (Some PUT_RESP)) (others cfg q)) 1) SndReplicaReqLoop).
  set (s' := set_rl (set_fs s (upd_fs (fsv s) q k v)) q l').
  set (w' := mkWit (n + 1) (Some (k, v)) F cq).
  assert (Hn1 : pcr s q <> HandleBackup) by (rewrite Epc; discriminate).
  assert (Lrl : rl s' q = l') by (unfold s'; simp_st; apply updf_same).
  assert (Lrlo : forall r, r <> q -> rl s' r = rl s r) by (intros r Hr; unfold s'; simp_st; apply updf_other; exact Hr).
  assert (Lpcr : pcr s' q = SndReplicaReqLoop) by (unfold pcr; rewrite Lrl; reflexivity).
  assert (Lpa : forall r, pc_alive (pcr s' r) = pc_alive (pcr s r)).
  { intros r. destruct (Nat.eq_dec r q) as [->|Hne]; [rewrite Lpcr, Epc; reflexivity | unfold pcr; rewrite Lrlo by exact Hne; reflexivity]. }
  assert (LA : forall r, alive s' r <-> alive s r) by (intros r; unfold ProofsCrashA.alive; rewrite Lpa; tauto).
  assert (Lpend : forall r, pend s' r = pend s r).
  { intros r. destruct (Nat.eq_dec r q) as [->|Hne].
    - rewrite !pend_not_hb; [reflexivity | exact Hn1 | rewrite Lpcr; discriminate].
    - apply pend_ext; [unfold pcr; rewrite Lrlo by exact Hne; reflexivity | rewrite Lrlo by exact Hne; reflexivity | reflexivity]. }
  assert (LKq : K s' q = n + 1) by (unfold K; rewrite Lrl; reflexivity).
  assert (LKo : forall r, alive s r -> r <> q -> K s' r = n).
  { intros r Ar Hr. unfold K. rewrite Lrlo by exact Hr. destruct (Hall r Ar) as [E _]. rewrite E. reflexivity. }
  assert (Lnewq : isnew w' s' q).
  { split; [rewrite Lrl; reflexivity|]. intros k0. unfold s'. simp_st. rewrite upd_fs_node.
    unfold Fnew, w'. cbn. destruct (Hall q Aq) as [_ Hf]. rewrite Hf. reflexivity. }
  assert (Loldo : forall r, alive s r -> r <> q -> isold w' s' r).
  { intros r Ar Hr. destruct (Hall r Ar) as [E Hf]. split; [cbn; lia|]. split.
    - rewrite Lrlo by exact Hr. rewrite E. cbn. f_equal. lia.
    - intros k0. unfold s'. simp_st. rewrite upd_fs_other_node by exact Hr. apply Hf. }
  assert (Hbody : forall B, (exists ver c, B = BPut ver c /\ ver <= n /\ (ver = n -> c = cq)) -> body_ok w' B /\ Kv B < n + 1).
  { intros B (ver & c & -> & Hle & Hc). split; [|cbn; lia]. exists ver, c. cbn. repeat split; auto; try lia.
    intros E. apply Hc. lia. }
  assert (Hqmin : forall r, alive s r -> q <= r) by (intros r Ar; apply (alive_ge_ldr cfg s r IA Ar)).
  constructor; [constructor | constructor | constructor]; replace (ldr s') with q by reflexivity.
  - cbn. lia.
  - cbn. eauto.
  - exact HcqF.
  - intros r A. apply LA in A. destruct (Nat.eq_dec r q) as [->|Hne]; [left; exact Lnewq | right; apply Loldo; assumption].
  - intros r m A Hm. apply LA in A. rewrite Lpend in Hm. apply Hbody. apply (Hpend r m A Hm).
  - intros m A Hm Ht. change (queue (net s' q RESP)) with (queue (net s q RESP)) in Hm.
    destruct (Hresp m Hm Ht) as [B1 B2]. split; [apply Hbody; exact B1|].
    intros A2. apply LA in A2. pose proof (Hqmin _ A2) as Hge.
    pose proof (a_q cfg s IA q Aq) as (_ & _ & Rl). specialize (Rl eq_refl). rewrite Forall_forall in Rl.
    destruct (Rl m Hm) as ([Hlt _] & _). fold q in Hlt.
    rewrite (LKo _ A2) by lia. destruct B1 as (ver & c & -> & Hle & _). cbn. exact Hle.
  - (* order: only the leader knows the new version *)
    intros r1 r2 A1 A2 Hlt Hk. apply LA in A1. apply LA in A2. exfalso.
    assert (Hne : r2 <> q) by (pose proof (Hqmin r1 A1); lia).
    destruct Hk as [Hk|(m & Hm & Hk)].
    + rewrite (LKo r2 A2 Hne) in Hk. cbn in Hk. lia.
    + rewrite Lpend in Hm. destruct (Hbody _ (Hpend r2 m A2 Hm)) as [_ Hlt2]. cbn in Hk. lia.
  - intros m _ _ _ _. left. exact LKq.
  - rewrite Lrl. unfold l'. simp_st. intros _ _ _ r _ Hr. lia.
  - intros _ H. exfalso. apply H. left. exact Lpcr.
  - intros _ H. exfalso. apply H. left. exact Lpcr.
  - intros _ HK. rewrite LKq in HK. cbn in HK. lia.
  - intros _ H. exfalso. apply H. left. exact Lpcr.
  - intros _ _. split; [exact Lnewq|]. split; [|split].
    + intros b m Ab Hb Hm HK. apply LA in Ab. rewrite Lpend in Hm. exfalso.
      destruct (Hbody _ (Hpend b m Ab Hm)) as [_ Hlt2]. cbn in HK. lia.
    + intros m Hm Ht. change (queue (net s' q RESP)) with (queue (net s q RESP)) in Hm.
      destruct (Hresp m Hm Ht) as [B1 _]. apply Hbody in B1. cbn. apply B1.
    + intros b Ab Hb. apply LA in Ab. destruct (Hnoack b Ab Hb) as [Ha Hp].
      exists (xs s q b), []. split.
      { rewrite app_nil_r. unfold xs. rewrite Lpend. reflexivity. }
      split; [apply xs_sync_typed; assumption|].
      left. split.
      { unfold rsent. rewrite Lpcr, Lrl. unfold l'. simp_st. intros [H|H]; [discriminate | destruct Ab as [[? ?] _]; lia]. }
      split; [apply Loldo; assumption|]. split; [|reflexivity].
      rewrite Lrl. unfold l'. simp_st. apply in_others. split; [apply Ab | exact Hb].
Qed.

(* ------------------------------------------------------------------ handlePrimary, Put: a new version is created *)
Lemma invB_handlePrimary_put : forall w s k v lv,
  InvA s -> InvB w s -> alive s (ldr s) -> pcr s (ldr s) = HandlePrimary ->
  body_ver (r_lastPutBody (rl s (ldr s))) = Some lv ->
  exists w', InvB w'
    (set_rl (set_fs s (upd_fs (fsv s) (ldr s) k v)) (ldr s)
       (r_set_pc (r_set_idx (r_set_rs (r_set_resp (r_set_lpb (rl s (ldr s)) (BPut (lv + 1) (Some (k, v))))
                                                   (Some ACK_MSG_BODY) (Some PUT_RESP)) (others cfg (ldr s))) 1)
                 SndReplicaReqLoop)).
Proof.
  intros w s k v lv IA IB Aq Epc Hlv.
  set (q := ldr s) in *.
  set (l' := r_set_pc (r_set_idx (r_set_rs (r_set_resp (r_set_lpb (rl s q) (BPut (lv + 1) (Some (k, v))))
                                                   (Some ACK_MSG_BODY) (Some PUT_RESP)) (others cfg q)) 1) SndReplicaReqLoop).
  set (s' := set_rl (set_fs s (upd_fs (fsv s) q k v)) q l').
  pose proof IB as [V P Ph].
  destruct (a_loc cfg s IA q Aq) as (_ & _ & L3 & _).
  destruct L3 as (req & Hreq & Hcreq & Hss & Hqc); [unfold pcr in Epc; rewrite Epc; exact Logic.I|].
  assert (HfP : filter is_p (queue (net s q REQ)) = []) by (apply (Forall_creq_filter_p cfg); exact Hqc).
  assert (Hn1 : pcr s q <> HandleBackup) by (rewrite Epc; discriminate).
  assert (Hpq : pend s q = []) by (rewrite pend_not_hb by exact Hn1; exact HfP).
  assert (N1 : ~ insync s q) by (unfold insync; rewrite Epc; intuition discriminate).
  assert (N2 : ~ inrepl s q) by (unfold inrepl; rewrite Epc; intuition discriminate).
  assert (N3 : ~ owed s q).
  { unfold owed, owedP. rewrite HfP, Epc, Hss. intros [H|[H|H]]; [apply H; reflexivity | discriminate | discriminate]. }
  assert (G : forall b, alive s b -> b <> q -> K s q <= K s b).
  { intros b Ab Hb. destruct (le_lt_dec (K s q) (K s b)) as [H|H]; [exact H|]. exfalso.
    destruct (ph_main cfg w s Ph Aq N2 b Ab Hb H) as [X|(X & _)]; contradiction. }
  assert (HKq : K s q = lv).
  { unfold K. destruct (r_lastPutBody (rl s q)); cbn in *; try discriminate. congruence. }
  (* the leader does not have anything of the latest version pending: if it is old nobody knows the latest version *)
  assert (Hnk : K s q < Mx w -> forall r, alive s r -> ~ knows w s r).
  { intros Hlt r Ar Hk.
    assert (Hkq : knows w s q).
    { destruct (Nat.eq_dec r q) as [->|Hne]; [exact Hk|]. destruct (alive_ge_ldr cfg s r IA Ar) as [_ Hge]. fold q in Hge.
      apply (p_order cfg w s P q r Aq Ar); [lia | exact Hk]. }
    destruct Hkq as [H|(m & Hm & _)]; [lia | rewrite Hpq in Hm; destruct Hm]. }
  (* content of the leader's version *)
  destruct (v_rep cfg w s V q Aq) as [Hqn|Hqo].
  - (* the leader is at the latest version: every live replica is *)
    pose proof (isnew_K w s q Hqn) as HK. destruct Hqn as [Hql Hqf].
    assert (Hall : forall b, alive s b -> isnew w s b).
    { intros b Ab. destruct (Nat.eq_dec b q) as [->|Hne]; [split; assumption|].
      apply (K_Mx_isnew cfg w s b V Ab). pose proof (G b Ab Hne). destruct (K_le_Mx cfg w s b V Ab). lia. }
    exists (mkWit (Mx w + 1) (Some (k, v)) (Fnew w) (cM w)).
    assert (Elv : lv = Mx w) by lia. unfold s', l'. rewrite Elv.
    apply (invB_new_version s k v (Mx w) (cM w) (Fnew w) IA Aq Epc).
    + intros b Ab. apply (Hall b Ab).
    + intros k0 v0 E. unfold Fnew. rewrite E. cbn. rewrite String.eqb_refl. reflexivity.
    + intros r m Ar Hm. destruct (v_pend cfg w s V r m Ar Hm) as (ver & c & E & Hle & Hc & _). exists ver, c. auto.
    + intros m Hm Ht. destruct (v_resp cfg w s V m Aq Hm Ht) as [(ver & c & E & Hle & Hc & _) B2]. split; [exists ver, c; auto | exact B2].
    + intros b Ab Hb. apply (ph_noack cfg w s Ph Aq N2 b Ab Hb).
  - (* the leader is one behind and nobody alive knows the latest version: it is overwritten *)
    destruct (isold_K w s q Hqo) as [HK HMx1]. destruct Hqo as (_ & Hql & Hqf).
    assert (Hlt : K s q < Mx w) by lia.
    assert (Hall : forall b, alive s b -> isold w s b).
    { intros b Ab. apply (K_lt_isold cfg w s b V Ab). destruct (K_le_Mx cfg w s b V Ab) as [H1 _].
      destruct (Nat.eq_dec (K s b) (Mx w)) as [E|N]; [|lia]. exfalso. apply (Hnk Hlt b Ab). left. exact E. }
    exists (mkWit (Mx w - 1 + 1) (Some (k, v)) (Fold w) (cO w)).
    assert (Elv : lv = Mx w - 1) by lia. unfold s', l'. rewrite Elv.
    apply (invB_new_version s k v (Mx w - 1) (cO w) (Fold w) IA Aq Epc).
    + intros b Ab. destruct (Hall b Ab) as (_ & E & Hf). split; assumption.
    + apply (v_cO cfg w s V).
    + intros r m Ar Hm. destruct (v_pend cfg w s V r m Ar Hm) as (ver & c & E & Hle & _ & Hc). exists ver, c.
      assert (ver <> Mx w).
      { intros Ev. apply (Hnk Hlt r Ar). right. exists m. split; [exact Hm | rewrite E; cbn; exact Ev]. }
      split; [exact E|]. split; [lia|]. intros Ev. apply Hc. lia.
    + intros m Hm Ht. destruct (v_resp cfg w s V m Aq Hm Ht) as [(ver & c & E & Hle & _ & Hc) B2].
      split; [|exact B2]. exists ver, c.
      assert (ver <> Mx w).
      { intros Ev. apply (Hnk Hlt q Aq). apply (p_resp cfg w s P m Aq Hm Ht). rewrite E. cbn. exact Ev. }
      split; [exact E|]. split; [lia|]. intros Ev. apply Hc. lia.
    + intros b Ab Hb. apply (ph_noack cfg w s Ph Aq N2 b Ab Hb).
Qed.


Lemma invB_handlePrimary : forall w s p ch s', InvA s -> InvB w s -> alive s p ->
  pcr s p = HandlePrimary -> step_handlePrimary cfg ch s p = Ok s' -> exists w', InvB w' s'.
Proof.
  intros w s p ch s' IA IB Ap Epc Hs.
  assert (Hq : p = ldr s).
  { apply (nonbackup_is_ldr cfg s p IA Ap). rewrite Epc. cbn. tauto. }
  subst p.
  destruct (a_loc cfg s IA _ Ap) as (_ & _ & L3 & _).
  destruct L3 as (m & Hreq & Hm & Hss & Hqc); [unfold pcr in Epc; rewrite Epc; exact Logic.I|].
  unfold step_handlePrimary in Hs. rewrite Hreq in Hs. cbn [bindT] in Hs.
  pose proof Hm as (Hsrc & Hfrom & Hok). rewrite Hsrc in Hs. cbn [srct_eqb negb] in Hs.
  destruct (creq_cases cfg m Hm) as [(Ht & k & Hb) | (Ht & k & v & Hb)]; rewrite Ht, Hb in Hs; cbn [body_key body_value bindT] in Hs.
  - inversion Hs; subst s'. exists w. apply invB_local_step; auto.
    + apply pend_set_rl_nohb; [rewrite Epc; discriminate | discriminate].
    + right. rewrite Epc. cbn. auto.
  - destruct (body_ver (r_lastPutBody (rl s (ldr s)))) as [lv|] eqn:Elv; cbn [bindT] in Hs; [|discriminate].
    inversion Hs; subst s'; clear Hs. apply (invB_handlePrimary_put w); auto.
Qed.


Lemma app_last_split : forall A (F T Sy : list A) (m x : A),
  F ++ m :: T = Sy ++ [x] -> m <> x -> exists T', T = T' ++ [x] /\ Sy = F ++ m :: T'.
Proof.
  intros A F T Sy m x E Hne. destruct (exists_last (l := m :: T)) as (L & t & EL); [discriminate|].
  destruct T as [|t0 T0].
  - cbn in E. apply app_inj_tail in E. destruct E as [_ E]. contradiction.
  - destruct (exists_last (l := t0 :: T0)) as (T' & t' & ET); [discriminate|]. rewrite ET in E.
    replace (F ++ m :: T' ++ [t']) with ((F ++ m :: T') ++ [t']) in E by (rewrite <- app_assoc; reflexivity).
    apply app_inj_tail in E. destruct E as [E1 E2]. exists T'. subst t'. rewrite ET. auto.
Qed.

Lemma app_mid_in : forall A (F T Sy : list A) (m0 m : A),
  F ++ m0 :: T = Sy ++ [m] -> T <> [] -> In m0 Sy.
Proof.
  intros A F T Sy m0 m E HT. destruct (exists_last HT) as (T' & t & ET). rewrite ET in E.
  replace (F ++ m0 :: T' ++ [t]) with ((F ++ m0 :: T') ++ [t]) in E by (rewrite <- app_assoc; reflexivity).
  apply app_inj_tail in E. destruct E as [E _]. rewrite <- E. apply in_or_app. right. left. reflexivity.
Qed.

(* ------------------------------------------------------------------ handleBackup, generic effect
   p handles its oldest pending request m0: it may adopt the body of m0 (a Put always, a sync request
   only if newer), sets shouldSync, goes back to replicaLoop, and answers the sender if that is the live leader *)
Section HBSTEP.
Variables (w : wit) (s s' : state) (p : node) (m0 : msg).
Let q := ldr s.
Hypothesis IA : InvA s.
Hypothesis IB : InvB w s.
Hypothesis Ap : alive s p.
Hypothesis Epc : pcr s p = HandleBackup.
Hypothesis Hreq : r_req (rl s p) = Some m0.
Hypothesis S1 : forall r, r <> p -> rl s' r = rl s r.
Hypothesis S2 : pcr s' p = ReplicaLoop.
Hypothesis S3 : r_shouldSync (rl s' p) = true.
Hypothesis S4 : forall r k, r <> p -> fsv s' r k = fsv s r k.
Hypothesis S5 : forall r, queue (net s' r REQ) = queue (net s r REQ).
Hypothesis S6 : ldr s' = ldr s.
(* effect on p's version *)
Hypothesis S8 :
  (r_lastPutBody (rl s' p) = r_lastPutBody (rl s p) /\ (forall k, fsv s' p k = fsv s p k) /\
   m_typ m0 = SYNC_REQ /\ Kv (m_body m0) <= K s p) \/
  (exists ver k v, m_body m0 = BPut ver (Some (k, v)) /\ r_lastPutBody (rl s' p) = m_body m0 /\
   (forall k0, fsv s' p k0 = upd_fs (fsv s) p k v p k0) /\ K s p <= ver /\ (m_typ m0 = SYNC_REQ -> K s p < ver)).

Lemma hb_pmA : pmA p q m0.
Proof. destruct (a_loc cfg s IA p Ap) as (_ & L2 & _). destruct (L2 Epc) as (m & E & H). rewrite Hreq in E. inversion E. subst. exact H. Qed.

Lemma hb_pend_p : pend s p = m0 :: pend s' p.
Proof.
  rewrite (pend_hb s p m0 Epc Hreq). rewrite pend_not_hb by (rewrite S2; discriminate). rewrite S5. reflexivity.
Qed.
Lemma hb_pend_other : forall r, r <> p -> pend s' r = pend s r.
Proof. intros r Hr. apply pend_ext; [unfold pcr; rewrite S1 by exact Hr; reflexivity | rewrite S1 by exact Hr; reflexivity | apply S5]. Qed.
Lemma hb_pend_incl : forall r m, In m (pend s' r) -> In m (pend s r).
Proof.
  intros r m H. destruct (Nat.eq_dec r p) as [->|Hne]; [rewrite hb_pend_p; right; exact H | rewrite <- (hb_pend_other r Hne); exact H].
Qed.
Lemma hb_pa : forall r, pc_alive (pcr s' r) = pc_alive (pcr s r).
Proof.
  intros r. destruct (Nat.eq_dec r p) as [->|Hne]; [rewrite S2, Epc; reflexivity | unfold pcr; rewrite S1 by exact Hne; reflexivity].
Qed.
Lemma hb_alive : forall r, alive s' r <-> alive s r.
Proof. intros r. unfold ProofsCrashA.alive. rewrite hb_pa. tauto. Qed.
Lemma hb_K_other : forall r, r <> p -> K s' r = K s r.
Proof. intros r Hr. unfold K. rewrite S1 by exact Hr. reflexivity. Qed.
Lemma hb_isnew_other : forall r, r <> p -> (isnew w s' r <-> isnew w s r).
Proof. intros r Hr. unfold isnew. rewrite S1 by exact Hr. split; intros [X Y]; split; auto; intros k0; [rewrite <- (S4 r k0 Hr) | rewrite (S4 r k0 Hr)]; apply Y. Qed.
Lemma hb_isold_other : forall r, r <> p -> (isold w s' r <-> isold w s r).
Proof. intros r Hr. unfold isold. rewrite S1 by exact Hr. split; intros (X & Y & Z); repeat split; auto; intros k0; [rewrite <- (S4 r k0 Hr) | rewrite (S4 r k0 Hr)]; apply Z. Qed.

Lemma hb_body_ok : body_ok w (m_body m0).
Proof. destruct IB as [V _ _]. apply (v_pend cfg w s V p m0 Ap). rewrite hb_pend_p. left. reflexivity. Qed.

(* the version state of p after the step *)
Lemma hb_version_p :
  (isnew w s' p \/ isold w s' p) /\ K s p <= K s' p /\
  (Kv (m_body m0) = Mx w -> K s' p = Mx w) /\
  (K s' p = Mx w -> K s p = Mx w \/ Kv (m_body m0) = Mx w) /\
  (Kv (m_body m0) < Mx w -> (isnew w s p -> isnew w s' p) /\ (isold w s p -> isold w s' p)).
Proof.
  destruct IB as [V _ _]. destruct (K_le_Mx cfg w s p V Ap) as [Kp1 Kp2].
  destruct hb_body_ok as (ver0 & c0 & Eb & Hle & HcM & HcO).
  destruct S8 as [(E1 & E2 & Et & Hk) | (ver & k & v & Eb2 & E1 & E2 & Hk & Hs)].
  - (* unchanged *)
    assert (HK : K s' p = K s p) by (unfold K; rewrite E1; reflexivity).
    assert (Hn : isnew w s' p <-> isnew w s p).
    { unfold isnew. rewrite E1. split; intros [X Y]; split; auto; intros k0; [rewrite <- E2 | rewrite E2]; apply Y. }
    assert (Ho : isold w s' p <-> isold w s p).
    { unfold isold. rewrite E1. split; intros (X & Y & Z); repeat split; auto; intros k0; [rewrite <- E2 | rewrite E2]; apply Z. }
    rewrite HK, Hn, Ho. split; [apply (v_rep cfg w s V p Ap)|]. split; [lia|]. split; [intros; lia|]. split; [auto | tauto].
  - (* adopted *)
    rewrite Eb in Eb2. inversion Eb2; subst ver0 c0. clear Eb2.
    assert (HK : K s' p = ver) by (unfold K; rewrite E1, Eb; reflexivity).
    rewrite Eb. cbn [Kv]. rewrite HK.
    destruct (Nat.eq_dec ver (Mx w)) as [Ev|Nv].
    + (* the latest version *)
      specialize (HcM Ev).
      assert (Hnew : isnew w s' p).
      { split; [rewrite E1, Eb, Ev, <- HcM; reflexivity|]. intros k0. rewrite E2, upd_fs_node. unfold Fnew. rewrite <- HcM. cbn.
        destruct (v_rep cfg w s V p Ap) as [[_ Hf]|(_ & _ & Hf)]; rewrite Hf.
        - unfold Fnew. rewrite <- HcM. cbn. destruct (String.eqb k0 k); reflexivity.
        - reflexivity. }
      split; [left; exact Hnew|]. split; [lia|]. split; [auto|]. split; [auto|]. intros; lia.
    + (* one behind: idempotent *)
      assert (Ev : ver + 1 = Mx w) by lia. specialize (HcO Ev).
      assert (Hpo : isold w s p) by (apply (K_lt_isold cfg w s p V Ap); lia).
      destruct Hpo as (H1 & Hl & Hf).
      assert (Hold : isold w s' p).
      { split; [exact H1|]. split; [rewrite E1, Eb, <- HcO; f_equal; lia|]. intros k0. rewrite E2, upd_fs_node, Hf.
        destruct (String.eqb k0 k) eqn:Ek; [|reflexivity]. apply String.eqb_eq in Ek. subst k0.
        symmetry. apply (v_cO cfg w s V). symmetry. exact HcO. }
      split; [right; exact Hold|]. split; [lia|]. split; [intros; lia|]. split; [intros; lia|].
      intros _. split; [|auto]. intros Hn. pose proof (isnew_K w s p Hn). lia.
Qed.

Lemma hb_knows_other : forall r, r <> p -> (knows w s' r <-> knows w s r).
Proof. intros r Hr. unfold knows. rewrite (hb_K_other r Hr), (hb_pend_other r Hr). tauto. Qed.
Lemma hb_knows_p : knows w s' p <-> knows w s p.
Proof.
  destruct IB as [V _ _]. destruct (K_le_Mx cfg w s p V Ap) as [Kp1 Kp2].
  destruct hb_version_p as (Hv & Hmono & Hadopt & Hback & _).
  assert (Kp' : K s' p <= Mx w).
  { destruct Hv as [H|H]; [rewrite (isnew_K w s' p H); lia | destruct (isold_K w s' p H); lia]. }
  unfold knows. rewrite hb_pend_p. split.
  - intros [H|(m & Hm & Hk)].
    + destruct (Hback H) as [H1|H1]; [left; exact H1 | right; exists m0; split; [left; reflexivity | exact H1]].
    + right. exists m. split; [right; exact Hm | exact Hk].
  - intros [H|(m & [<-|Hm] & Hk)].
    + left. lia.
    + left. apply Hadopt. exact Hk.
    + right. exists m. auto.
Qed.


(* common parts of versions_ok / prefix_ok, given what happens to the leader's response queue *)
Lemma hb_versions : 
  (alive s q -> forall m, In m (queue (net s' q RESP)) -> m_typ m = SYNC_RESP ->
     body_ok w (m_body m) /\ (alive s (m_from m) -> Kv (m_body m) <= K s' (m_from m))) ->
  versions_ok w s'.
Proof.
  intros Hresp. destruct IB as [V P Ph]. constructor; try apply V.
  - intros r A. apply hb_alive in A. destruct (Nat.eq_dec r p) as [->|Hne]; [apply hb_version_p|].
    rewrite (hb_isnew_other r Hne), (hb_isold_other r Hne). apply (v_rep cfg w s V r A).
  - intros r m A Hm. apply hb_alive in A. apply (v_pend cfg w s V r m A). apply hb_pend_incl. exact Hm.
  - rewrite S6. fold q. intros m A Hm Ht. apply hb_alive in A. destruct (Hresp A m Hm Ht) as [B1 B2].
    split; [exact B1|]. intros A2. apply hb_alive in A2. apply B2. exact A2.
Qed.

Lemma hb_K_mono : forall r, K s r <= K s' r.
Proof.
  intros r. destruct (Nat.eq_dec r p) as [->|Hne]; [apply hb_version_p | rewrite (hb_K_other r Hne); lia].
Qed.

Lemma hb_K_le : forall r, alive s r -> K s' r <= Mx w.
Proof.
  intros r A. destruct IB as [V _ _]. destruct (Nat.eq_dec r p) as [->|Hne].
  - destruct hb_version_p as ([H|H] & _); [rewrite (isnew_K w s' p H); lia | destruct (isold_K w s' p H); lia].
  - rewrite (hb_K_other r Hne). apply (K_le_Mx cfg w s r V A).
Qed.

Lemma hb_knows : forall r, knows w s' r <-> knows w s r.
Proof. intros r. destruct (Nat.eq_dec r p) as [->|Hne]; [apply hb_knows_p | apply hb_knows_other; exact Hne]. Qed.

Lemma hb_prefix :
  (alive s q -> forall m, In m (queue (net s' q RESP)) -> m_typ m = SYNC_RESP -> Kv (m_body m) = Mx w -> knows w s q) ->
  prefix_ok w s'.
Proof.
  intros Hresp. destruct IB as [V P Ph]. constructor.
  - intros r1 r2 A1 A2 Hlt Hk. apply hb_alive in A1. apply hb_alive in A2. apply hb_knows. apply hb_knows in Hk.
    apply (p_order cfg w s P r1 r2 A1 A2 Hlt Hk).
  - rewrite S6. fold q. intros m A Hm Ht Hv. apply hb_alive in A. apply hb_knows. apply (Hresp A m Hm Ht Hv).
  - rewrite S6. fold q. intros A Hp HK r Ar Hr. apply hb_alive in A. apply hb_alive in Ar.
    assert (Hne : q <> p) by (intros E; rewrite E, S2 in Hp; destruct Hp; discriminate).
    unfold pcr in Hp. rewrite (S1 q Hne) in Hp, Hr. rewrite (hb_K_other q Hne) in HK.
    apply hb_knows. apply (p_loop cfg w s P A Hp HK r Ar Hr).
Qed.


(* token lists only look at pend and at the leader's response queue *)
Lemma hb_sreqs_other : forall b, b <> p -> sreqs s' q b = sreqs s q b.
Proof. intros b H. unfold sreqs. rewrite (hb_pend_other b H). reflexivity. Qed.
Lemma hb_puts_other : forall b, b <> p -> puts s' q b = puts s q b.
Proof. intros b H. unfold puts. rewrite (hb_pend_other b H). reflexivity. Qed.
Lemma hb_sreqs_p : sreqs s q p = (if is_syncreq q m0 then [m0] else []) ++ sreqs s' q p.
Proof. unfold sreqs. rewrite hb_pend_p. cbn [filter]. destruct (is_syncreq q m0); reflexivity. Qed.
Lemma hb_puts_p : puts s q p = (if is_put q m0 then [m0] else []) ++ puts s' q p.
Proof. unfold puts. rewrite hb_pend_p. cbn [filter]. destruct (is_put q m0); reflexivity. Qed.

Section NORESP.
Hypothesis SN : forall r, queue (net s' r RESP) = queue (net s r RESP).
Hypothesis Hdead : alive s q -> m_from m0 <> q.

Lemma hbn_not_from_q : alive s q -> is_syncreq q m0 = false /\ is_put q m0 = false /\ from_b q m0 = false.
Proof.
  intros A. pose proof (Hdead A) as H. apply Nat.eqb_neq in H.
  unfold is_syncreq, is_put, from_b. rewrite H. auto.
Qed.

Lemma invB_hb_noresp : InvB w s'.
Proof.
  pose proof IB as [V P Ph].
  constructor.
  - apply hb_versions. rewrite SN. intros A m Hm Ht. destruct (v_resp cfg w s V m A Hm Ht) as [B1 B2].
    split; [exact B1|]. intros A2. pose proof (hb_K_mono (m_from m)). specialize (B2 A2). lia.
  - apply hb_prefix. rewrite SN. intros A m Hm Ht Hv. apply (p_resp cfg w s P m A Hm Ht Hv).
  - destruct (Nat.eq_dec p q) as [Epq|Npq].
    + (* the leader itself handled the request of a dead leader: it owes a sync *)
      assert (Hpc' : pcr s' q = ReplicaLoop) by (rewrite <- Epq; exact S2).
      assert (Hss' : r_shouldSync (rl s' q) = true) by (rewrite <- Epq; exact S3).
      assert (Hpcq : pcr s q = HandleBackup) by (rewrite <- Epq; exact Epc).
      assert (N1 : ~ insync s q) by (unfold insync; rewrite Hpcq; intuition discriminate).
      assert (N2 : ~ inrepl s q) by (unfold inrepl; rewrite Hpcq; intuition discriminate).
      assert (Hto : forall b, b <> q -> toks s' q b = toks s q b).
      { intros b Hb. unfold toks, sresps. rewrite SN. rewrite hb_sreqs_other by (rewrite Epq; exact Hb). reflexivity. }
      constructor; rewrite S6; fold q.
      * intros _ _ b _ _ _. left. right. right. exact Hss'.
      * intros A _ b Ab Hb. apply hb_alive in A. apply hb_alive in Ab. rewrite (Hto b Hb).
        pose proof (ph_tok cfg w s Ph A N2 b Ab Hb) as H. fold q in H.
        destruct (Nat.eq_dec (K s' q) (K s q)) as [EK|NK].
        -- rewrite EK. destruct (toks s q b) as [|t rest]; [exact Logic.I|]. destruct H as [H1 H2]. split; [exact H1|].
           intros Hlt. destruct (H2 Hlt) as (X & _). contradiction.
        -- assert (HKlt : K s q < Mx w).
           { pose proof (hb_K_mono q). pose proof (hb_K_le q A). lia. }
           destruct (ph_count cfg w s Ph A HKlt b Ab Hb) as [_ C2]. fold q in C2.
           destruct (toks s q b) as [|t rest]; [exact Logic.I|]. destruct C2 as (X & _); [discriminate | contradiction].
      * intros A HK b Ab Hb. apply hb_alive in A. apply hb_alive in Ab. rewrite (Hto b Hb).
        assert (HKlt : K s q < Mx w) by (pose proof (hb_K_mono q); lia).
        destruct (ph_count cfg w s Ph A HKlt b Ab Hb) as [_ C2]. fold q in C2.
        destruct (toks s q b) as [|t rest]; [split; [cbn; lia | intros H; congruence]|].
        destruct C2 as (X & _); [discriminate | contradiction].
      * intros A _ b Ab Hb. apply hb_alive in A. apply hb_alive in Ab.
        unfold acks. rewrite SN. rewrite hb_puts_other by (rewrite Epq; exact Hb). apply (ph_noack cfg w s Ph A N2 b Ab Hb).
      * intros _ [H|H]; rewrite Hpc' in H; discriminate H.
    + (* a backup handled a request of a dead leader *)
      assert (Hqp : q <> p) by auto.
      assert (Hrlq : rl s' q = rl s q) by (apply S1; exact Hqp).
      assert (Hpcq : pcr s' q = pcr s q) by (unfold pcr; rewrite Hrlq; reflexivity).
      assert (HKq : K s' q = K s q) by (apply hb_K_other; exact Hqp).
      assert (Hins : insync s' q <-> insync s q) by (unfold insync; rewrite Hpcq; tauto).
      assert (Hinr : inrepl s' q <-> inrepl s q) by (unfold inrepl; rewrite Hpcq; tauto).
      assert (HowP : owedP s' q <-> owedP s q) by (unfold owedP; rewrite S5; tauto).
      assert (How : owed s' q <-> owed s q) by (unfold owed; rewrite HowP, Hpcq, Hrlq; tauto).
      assert (Hsr : forall b, sresps s' q b = sresps s q b) by (intros b; unfold sresps; rewrite SN; reflexivity).
      assert (Hac : forall b, acks s' q b = acks s q b) by (intros b; unfold acks; rewrite SN; reflexivity).
      assert (Hsq : alive s q -> forall b, sreqs s' q b = sreqs s q b).
      { intros A b. destruct (Nat.eq_dec b p) as [->|Hne]; [|apply hb_sreqs_other; exact Hne].
        rewrite hb_sreqs_p. destruct (hbn_not_from_q A) as (E & _). rewrite E. reflexivity. }
      assert (Hpu : alive s q -> forall b, puts s' q b = puts s q b).
      { intros A b. destruct (Nat.eq_dec b p) as [->|Hne]; [|apply hb_puts_other; exact Hne].
        rewrite hb_puts_p. destruct (hbn_not_from_q A) as (_ & E & _). rewrite E. reflexivity. }
      assert (Hxs : alive s q -> forall b, xs s' q b = xs s q b).
      { intros A b. unfold xs. rewrite SN. f_equal. destruct (Nat.eq_dec b p) as [->|Hne]; [|rewrite (hb_pend_other b Hne); reflexivity].
        rewrite hb_pend_p. cbn [filter]. destruct (hbn_not_from_q A) as (_ & _ & E). rewrite E. reflexivity. }
      assert (Hto : alive s q -> forall b, toks s' q b = toks s q b).
      { intros A b. unfold toks. rewrite Hsr, (Hsq A). reflexivity. }
      constructor; rewrite S6; fold q.
      * intros A Hnr b Ab Hb HK. apply hb_alive in A. apply hb_alive in Ab. rewrite Hinr in Hnr. rewrite HKq in HK.
        assert (HK0 : K s b < K s q) by (pose proof (hb_K_mono b); lia).
        rewrite How, Hins, Hrlq, Hsr, (Hsq A), HKq, Hpcq. apply (ph_main cfg w s Ph A Hnr b Ab Hb HK0).
      * intros A Hnr b Ab Hb. apply hb_alive in A. apply hb_alive in Ab. rewrite Hinr in Hnr.
        pose proof (ph_tok cfg w s Ph A Hnr b Ab Hb) as H. fold q in H. rewrite (Hto A), HKq.
        destruct (toks s q b) as [|t rest]; [exact Logic.I|]. destruct H as [H1 H2]. split; [exact H1|].
        intros Hlt. destruct (H2 Hlt) as (X1 & X2 & X3). rewrite Hins, Hrlq, HowP. auto.
      * intros A HK b Ab Hb. apply hb_alive in A. apply hb_alive in Ab. rewrite HKq in HK.
        rewrite (Hto A), Hins, Hrlq, Hpcq. apply (ph_count cfg w s Ph A HK b Ab Hb).
      * intros A Hnr b Ab Hb. apply hb_alive in A. apply hb_alive in Ab. rewrite Hinr in Hnr.
        rewrite Hac, (Hpu A). apply (ph_noack cfg w s Ph A Hnr b Ab Hb).
      * intros A Hr. apply hb_alive in A. rewrite Hinr in Hr. destruct (ph_repl cfg w s Ph A Hr) as (R1 & R2 & R3 & R4).
        split; [apply (hb_isnew_other q Hqp); exact R1|]. split; [|split].
        -- intros b m Ab Hb Hm. apply hb_alive in Ab. apply (R2 b m Ab Hb). apply hb_pend_incl. exact Hm.
        -- rewrite SN. exact R3.
        -- intros b Ab Hb. apply hb_alive in Ab. destruct (R4 b Ab Hb) as (Sy & Pu & E & HSy & Hst). fold q in E, Hst.
           exists Sy, Pu. rewrite (Hxs A). split; [exact E|]. split; [exact HSy|].
           assert (Hrs : rsent s' q b <-> rsent s q b) by (unfold rsent; rewrite Hpcq, Hrlq; tauto).
           assert (Hst' : (isold w s b -> isold w s' b) /\ (isnew w s b -> isnew w s' b)).
           { destruct (Nat.eq_dec b p) as [->|Hne]; [|split; [apply hb_isold_other | apply hb_isnew_other]; exact Hne].
             assert (Hlt : Kv (m_body m0) < Mx w).
             { pose proof (body_ok_Kv w _ hb_body_ok) as Hle.
               destruct (Nat.eq_dec (Kv (m_body m0)) (Mx w)) as [E0|N0]; [|lia]. exfalso.
               destruct (R2 p m0 Ab Hb) as [Hf _]; [rewrite hb_pend_p; left; reflexivity | exact E0|].
               apply (Hdead A). exact Hf. }
             destruct hb_version_p as (_ & _ & _ & _ & H). destruct (H Hlt). split; assumption. }
           rewrite Hrs, Hrlq. destruct Hst' as [Ho Hn].
           destruct Hst as [(X1 & X2 & X3)|[(X1 & X2 & X3)|[(X1 & X2 & X3)|(X1 & X2 & X3)]]];
             [left | right; left | right; right; left | right; right; right]; auto.
Qed.

End NORESP.


Section RESPOND.
Variable resp : msg.
Hypothesis Aq : alive s q.
Hypothesis Hfrom : m_from m0 = q.
Hypothesis Hrfrom : m_from resp = p.
Hypothesis SR1 : queue (net s' q RESP) = queue (net s q RESP) ++ [resp].

Lemma hbr_pq : p <> q.
Proof. pose proof hb_pmA as (_ & _ & _ & _ & H & _). rewrite Hfrom in H. lia. Qed.

Lemma hbr_rlq : rl s' q = rl s q. Proof. apply S1. pose proof hbr_pq. auto. Qed.
Lemma hbr_pcq : pcr s' q = pcr s q. Proof. unfold pcr. rewrite hbr_rlq. reflexivity. Qed.
Lemma hbr_Kq : K s' q = K s q. Proof. apply hb_K_other. pose proof hbr_pq. auto. Qed.
Lemma hbr_from : from_b q m0 = true. Proof. unfold from_b. rewrite Hfrom. apply Nat.eqb_refl. Qed.

Lemma hbr_filter_other : forall (f : node -> msg -> bool) b,
  (forall x y, f x y = true -> m_from y = x) -> b <> p ->
  filter (f b) (queue (net s' q RESP)) = filter (f b) (queue (net s q RESP)).
Proof.
  intros f b Hf Hb. rewrite SR1, filter_app_single. destruct (f b resp) eqn:E; [|apply app_nil_r].
  apply Hf in E. congruence.
Qed.
Lemma hbr_sresps_other : forall b, b <> p -> sresps s' q b = sresps s q b.
Proof. intros b H. unfold sresps. apply hbr_filter_other; [exact is_syncresp_from | exact H]. Qed.
Lemma hbr_acks_other : forall b, b <> p -> acks s' q b = acks s q b.
Proof. intros b H. unfold acks. apply hbr_filter_other; [exact is_ack_from | exact H]. Qed.
Lemma hbr_xs_other : forall b, b <> p -> xs s' q b = xs s q b.
Proof.
  intros b H. unfold xs. rewrite (hb_pend_other b H). f_equal. apply hbr_filter_other; [exact from_b_from | exact H].
Qed.
Lemma hbr_toks_other : forall b, b <> p -> toks s' q b = toks s q b.
Proof. intros b H. unfold toks. rewrite (hbr_sresps_other b H), (hb_sreqs_other b H). reflexivity. Qed.
(* everything in flight between q and p: the handled request is replaced by the answer *)
Lemma hbr_xs_p : exists F T, xs s q p = F ++ m0 :: T /\ xs s' q p = F ++ resp :: T /\
  (forall t, In t T -> In t (pend s p)).
Proof.
  exists (filter (from_b p) (queue (net s q RESP))), (filter (from_b q) (pend s' p)). unfold xs.
  rewrite hb_pend_p. cbn [filter]. rewrite hbr_from. split; [reflexivity|]. split.
  - rewrite SR1, filter_app_single. unfold from_b at 2. rewrite Hrfrom, Nat.eqb_refl, <- app_assoc. reflexivity.
  - intros t Ht. apply filter_In in Ht. right. apply Ht.
Qed.


(* ---- the handled request was a SYNC_REQ of the live leader *)
Section RSYNC.
Hypothesis Ht0 : m_typ m0 = SYNC_REQ.
Hypothesis Htr : m_typ resp = SYNC_RESP.
Hypothesis Hbr : m_body resp = r_lastPutBody (rl s' p).

Lemma hbs_Kv_resp : Kv (m_body resp) = K s' p. Proof. rewrite Hbr. reflexivity. Qed.
Lemma hbs_Kv_le : Kv (m_body m0) <= K s' p.
Proof.
  destruct S8 as [(E1 & _ & _ & Hk) | (ver & k & v & Eb & E1 & _)].
  - unfold K. rewrite E1. exact Hk.
  - unfold K. rewrite E1. lia.
Qed.
Lemma hbs_is_syncreq : is_syncreq q m0 = true.
Proof. unfold is_syncreq. rewrite Hfrom, Ht0, Nat.eqb_refl. reflexivity. Qed.
Lemma hbs_is_put : is_put q m0 = false.
Proof. unfold is_put. rewrite Ht0. apply andb_false_r. Qed.
Lemma hbs_sresps_p : sresps s' q p = sresps s q p ++ [resp].
Proof. unfold sresps. rewrite SR1, filter_app_single. unfold is_syncresp at 2. rewrite Hrfrom, Htr, Nat.eqb_refl. reflexivity. Qed.
Lemma hbs_acks : forall b, acks s' q b = acks s q b.
Proof. intros b. unfold acks. rewrite SR1, filter_app_single. unfold is_ack at 2. rewrite Htr, andb_false_r. apply app_nil_r. Qed.
Lemma hbs_puts : forall b, puts s' q b = puts s q b.
Proof.
  intros b. destruct (Nat.eq_dec b p) as [->|Hne]; [|apply hb_puts_other; exact Hne].
  rewrite hb_puts_p, hbs_is_put. reflexivity.
Qed.
(* p's sync tokens: the request at the head of its requests becomes the last of its answers *)
Lemma hbs_toks_p : toks s q p = sresps s q p ++ m0 :: sreqs s' q p /\ toks s' q p = sresps s q p ++ resp :: sreqs s' q p.
Proof.
  unfold toks. rewrite hb_sreqs_p, hbs_is_syncreq, hbs_sresps_p, <- app_assoc. split; reflexivity.
Qed.

Lemma hbs_versions : versions_ok w s'.
Proof.
  destruct IB as [V P Ph]. apply hb_versions. intros _ m Hm Ht. rewrite SR1 in Hm. apply in_app_or in Hm.
  destruct Hm as [Hm|[<-|[]]].
  - destruct (v_resp cfg w s V m Aq Hm Ht) as [B1 B2]. split; [exact B1|]. intros A2.
    pose proof (hb_K_mono (m_from m)). specialize (B2 A2). lia.
  - split; [|intros _; rewrite Hrfrom, hbs_Kv_resp; lia].
    rewrite Hbr. destruct hb_version_p as ([[H _]|(H0 & H & _)] & _); rewrite H.
    + exists (Mx w), (cM w). repeat split; auto. lia.
    + exists (Mx w - 1), (cO w). repeat split; auto; lia.
Qed.

Lemma hbs_prefix : prefix_ok w s'.
Proof.
  destruct IB as [V P Ph]. apply hb_prefix. intros _ m Hm Ht Hv. rewrite SR1 in Hm. apply in_app_or in Hm.
  destruct Hm as [Hm|[<-|[]]]; [apply (p_resp cfg w s P m Aq Hm Ht Hv)|].
  rewrite hbs_Kv_resp in Hv.
  assert (Hk : knows w s p) by (apply hb_knows_p; left; exact Hv).
  pose proof hb_pmA as (_ & _ & _ & _ & Hlt & _). rewrite Hfrom in Hlt.
  apply (p_order cfg w s P q p Aq Ap Hlt Hk).
Qed.


Lemma invB_hb_sync : InvB w s'.
Proof.
  pose proof IB as [V P Ph]. pose proof hbr_pq as Hpq.
  assert (Hqp : q <> p) by auto.
  pose proof hbr_rlq as Hrlq. pose proof hbr_pcq as Hpcq. pose proof hbr_Kq as HKq.
  assert (Hins : insync s' q <-> insync s q) by (unfold insync; rewrite Hpcq; tauto).
  assert (Hinr : inrepl s' q <-> inrepl s q) by (unfold inrepl; rewrite Hpcq; tauto).
  assert (HowP : owedP s' q <-> owedP s q) by (unfold owedP; rewrite S5; tauto).
  assert (How : owed s' q <-> owed s q) by (unfold owed; rewrite HowP, Hpcq, Hrlq; tauto).
  destruct hbs_toks_p as [Etp Etp'].
  pose proof hbs_Kv_le as Hle. pose proof hbs_Kv_resp as Hkr.
  constructor; [exact hbs_versions | exact hbs_prefix | constructor]; rewrite S6; fold q.
  - (* main *)
    intros _ Hnr b Ab Hb HK. apply hb_alive in Ab. rewrite Hinr in Hnr. rewrite HKq in HK.
    assert (HK0 : K s b < K s q) by (pose proof (hb_K_mono b); lia).
    destruct (ph_main cfg w s Ph Aq Hnr b Ab Hb HK0) as [H|(H1 & H2 & H3 & H4)]; [left; apply How; exact H|]. fold q in H2, H3, H4.
    destruct (Nat.eq_dec b p) as [->|Hne].
    + (* p itself: either the request was fresh and p adopted it (then p is not behind), or it was stale and
         the leader still has a request of a dead leader in its queue *)
      pose proof (ph_tok cfg w s Ph Aq Hnr p Ap Hpq) as Ht. fold q in Ht.
      rewrite Etp, H3 in Ht. cbn [app] in Ht. destruct Ht as [_ Ht].
      destruct (le_lt_dec (K s q) (Kv (m_body m0))) as [Hge|Hlt]; [exfalso; lia|].
      destruct (Ht Hlt) as (_ & _ & X). left. apply How. left. exact X.
    + right. rewrite Hins, Hrlq, (hbr_sresps_other b Hne), (hb_sreqs_other b Hne), HKq, Hpcq. auto.
  - (* tok *)
    intros _ Hnr b Ab Hb. apply hb_alive in Ab. rewrite Hinr in Hnr. rewrite HKq.
    pose proof (ph_tok cfg w s Ph Aq Hnr b Ab Hb) as H. fold q in H.
    assert (G : insync s q /\ In b (r_replicaSet (rl s q)) /\ owedP s q ->
                insync s' q /\ In b (r_replicaSet (rl s' q)) /\ owedP s' q).
    { rewrite Hins, Hrlq, HowP. auto. }
    destruct (Nat.eq_dec b p) as [->|Hne].
    + rewrite Etp in H. rewrite Etp'. destruct (sresps s q p) as [|a A']; cbn [app] in *.
      * destruct H as [H1 H2]. split; [exact H1|]. intros Hlt. apply G. apply H2. lia.
      * destruct H as [H1 H2]. split; [|intros Hlt; apply G; apply H2; exact Hlt].
        apply Forall_app in H1. destruct H1 as [F1 F2]. inversion F2 as [|? ? F3 F4]; subst.
        apply Forall_app. split; [exact F1|]. constructor; [lia | exact F4].
    + rewrite (hbr_toks_other b Hne). destruct (toks s q b) as [|t rest]; [exact Logic.I|]. destruct H as [H1 H2].
      split; [exact H1|]. intros Hlt. apply G. apply H2. exact Hlt.
  - (* count *)
    intros _ HK b Ab Hb. apply hb_alive in Ab. rewrite HKq in HK.
    destruct (ph_count cfg w s Ph Aq HK b Ab Hb) as [C1 C2]. fold q in C1, C2.
    destruct (Nat.eq_dec b p) as [->|Hne].
    + rewrite Etp in C1, C2. rewrite Etp'. rewrite app_length in *. cbn [List.length] in *. split; [exact C1|].
      intros _. rewrite Hins, Hrlq, Hpcq. apply C2. destruct (sresps s q p); discriminate.
    + rewrite (hbr_toks_other b Hne), Hins, Hrlq, Hpcq. split; assumption.
  - (* noack *)
    intros _ Hnr b Ab Hb. apply hb_alive in Ab. rewrite Hinr in Hnr. rewrite hbs_acks, hbs_puts.
    apply (ph_noack cfg w s Ph Aq Hnr b Ab Hb).
  - (* repl *)
    intros _ Hr. rewrite Hinr in Hr. destruct (ph_repl cfg w s Ph Aq Hr) as (R1 & R2 & R3 & R4).
    destruct hbr_xs_p as (F & T & EX & EX' & HT).
    assert (Hm0lt : Kv (m_body m0) < Mx w).
    { pose proof (body_ok_Kv w _ hb_body_ok) as Hle0.
      destruct (Nat.eq_dec (Kv (m_body m0)) (Mx w)) as [E0|N0]; [|lia]. exfalso.
      destruct (R2 p m0 Ap Hpq) as [_ Hty]; [rewrite hb_pend_p; left; reflexivity | exact E0|].
      rewrite Ht0 in Hty. discriminate. }
    (* p has not yet applied the put: it is old *)
    destruct (R4 p Ap Hpq) as (Sy & Pu & E & HSy & Hst). fold q in E, Hst. rewrite EX in E.
    assert (Hpend_typ : forall t, In t T -> m_typ t <> PUT_RESP).
    { intros t Ht1. destruct (pend_pmA s p t IA Ap (HT t Ht1)) as (_ & [H|H] & _); rewrite H; discriminate. }
    assert (Hold_p : isold w s p /\
       exists Sy' , F ++ resp :: T = Sy' ++ Pu /\ Forall sync_typed Sy' /\
       ((Pu = [] /\ ~ rsent s q p) \/ (exists m, Pu = [m] /\ m_typ m = PUT_REQ /\ m_body m = r_lastPutBody (rl s q) /\ rsent s q p))).
    { assert (Hresp_sync : sync_typed resp) by (left; exact Htr).
      destruct Hst as [(X1 & X2 & X3 & X4)|[(X1 & X2 & X3 & m & X4 & X5 & X6)|[(X1 & X2 & X3 & m & X4 & X5)|(X1 & X2 & X3 & X4 & X5)]]].
      - split; [exact X2|]. subst Pu. rewrite app_nil_r in E. subst Sy. exists (F ++ resp :: T). rewrite app_nil_r.
        split; [reflexivity|]. split; [|left; auto].
        apply Forall_app in HSy. destruct HSy as [F1 F2]. inversion F2; subst. apply Forall_app. split; [exact F1 | constructor; assumption].
      - split; [exact X2|]. subst Pu.
        destruct (app_last_split _ F T Sy m0 m E) as (T' & ET & ESy); [intros ->; rewrite Ht0 in X5; discriminate|].
        exists (F ++ resp :: T'). split; [rewrite ET, <- app_assoc; reflexivity|]. split; [|right; exists m; auto].
        rewrite ESy in HSy. apply Forall_app in HSy. destruct HSy as [F1 F2]. inversion F2; subst. apply Forall_app. split; [exact F1 | constructor; assumption].
      - exfalso. subst Pu.
        destruct (app_last_split _ F T Sy m0 m E) as (T' & ET & ESy); [intros ->; rewrite Ht0 in X5; discriminate|].
        apply (Hpend_typ m); [rewrite ET; apply in_or_app; right; left; reflexivity | exact X5].
      - exfalso. subst Sy Pu. destruct F; discriminate E. }
    destruct Hold_p as (Hpo & Sy' & ESy' & HSy' & HPu).
    assert (Hpo' : isold w s' p) by (destruct hb_version_p as (_ & _ & _ & _ & H); apply (H Hm0lt); exact Hpo).
    split; [apply (hb_isnew_other q Hqp); exact R1|]. split; [|split].
    + intros b m Ab Hb Hm. apply hb_alive in Ab. apply (R2 b m Ab Hb). apply hb_pend_incl. exact Hm.
    + rewrite SR1. intros m Hm Htm. apply in_app_or in Hm. destruct Hm as [Hm|[<-|[]]]; [apply R3; assumption|].
      rewrite Hkr. destruct (isold_K w s' p Hpo'). lia.
    + intros b Ab Hb. apply hb_alive in Ab.
      assert (Hrs : rsent s' q b <-> rsent s q b) by (unfold rsent; rewrite Hpcq, Hrlq; tauto).
      destruct (Nat.eq_dec b p) as [->|Hne].
      * exists Sy', Pu. rewrite EX'. split; [exact ESy'|]. split; [exact HSy'|]. rewrite Hrs, Hrlq.
        destruct (R4 p Ap Hpq) as (Sy1 & Pu1 & _ & _ & Hst0). fold q in Hst0.
        assert (HinS : In p (r_replicaSet (rl s q))).
        { destruct Hst0 as [(_ & _ & X & _)|[(_ & _ & X & _)|[(_ & X2 & _)|(_ & X2 & _)]]]; auto;
            exfalso; pose proof (isnew_K w s p X2); destruct (isold_K w s p Hpo); lia. }
        destruct HPu as [(-> & Hns)|(m & -> & Hm1 & Hm2 & Hs)]; [left; auto | right; left; split; [exact Hs|]; split; [exact Hpo'|]; split; [exact HinS|]; exists m; auto].
      * destruct (R4 b Ab Hb) as (Sy0 & Pu0 & E0 & HSy0 & Hst0). fold q in E0, Hst0.
        exists Sy0, Pu0. rewrite (hbr_xs_other b Hne). split; [exact E0|]. split; [exact HSy0|].
        rewrite Hrs, Hrlq, (hb_isold_other b Hne), (hb_isnew_other b Hne). exact Hst0.
Qed.

End RSYNC.


(* ---- the handled request was the PUT_REQ of the live leader *)
Section RPUT.
Hypothesis Ht0 : m_typ m0 = PUT_REQ.
Hypothesis Htr : m_typ resp = PUT_RESP.

Lemma hbp_is_put : is_put q m0 = true.
Proof. unfold is_put. rewrite Hfrom, Ht0, Nat.eqb_refl. reflexivity. Qed.

Lemma inrepl_dec : forall s0 r, inrepl s0 r \/ ~ inrepl s0 r.
Proof. intros s0 r. unfold inrepl. destruct (pcr s0 r); intuition discriminate. Qed.

Lemma invB_hb_put : InvB w s'.
Proof.
  pose proof IB as [V P Ph]. pose proof hbr_pq as Hpq.
  assert (Hqp : q <> p) by auto.
  pose proof hbr_rlq as Hrlq. pose proof hbr_pcq as Hpcq. pose proof hbr_Kq as HKq.
  assert (Hinr : inrepl s' q <-> inrepl s q) by (unfold inrepl; rewrite Hpcq; tauto).
  assert (Hr : inrepl s q).
  { destruct (inrepl_dec s q) as [H|H]; [exact H|]. exfalso.
    destruct (ph_noack cfg w s Ph Aq H p Ap Hpq) as [_ Hp]. fold q in Hp. rewrite hb_puts_p, hbp_is_put in Hp. discriminate Hp. }
  destruct (ph_repl cfg w s Ph Aq Hr) as (R1 & R2 & R3 & R4).
  constructor.
  - apply hb_versions. intros _ m Hm Ht. rewrite SR1 in Hm. apply in_app_or in Hm.
    destruct Hm as [Hm|[<-|[]]]; [|rewrite Htr in Ht; discriminate].
    destruct (v_resp cfg w s V m Aq Hm Ht) as [B1 B2]. split; [exact B1|]. intros A2.
    pose proof (hb_K_mono (m_from m)). specialize (B2 A2). lia.
  - apply hb_prefix. intros _ m Hm Ht Hv. rewrite SR1 in Hm. apply in_app_or in Hm.
    destruct Hm as [Hm|[<-|[]]]; [apply (p_resp cfg w s P m Aq Hm Ht Hv) | rewrite Htr in Ht; discriminate].
  - constructor; rewrite S6; fold q.
    + intros _ H. exfalso. apply H. apply Hinr. exact Hr.
    + intros _ H. exfalso. apply H. apply Hinr. exact Hr.
    + intros _ HK. rewrite HKq, (isnew_K w s q R1) in HK. lia.
    + intros _ H. exfalso. apply H. apply Hinr. exact Hr.
    + intros _ _.
      destruct hbr_xs_p as (F & T & EX & EX' & HT).
      assert (Hpend_typ : forall t, In t T -> m_typ t <> PUT_RESP).
      { intros t Ht1. destruct (pend_pmA s p t IA Ap (HT t Ht1)) as (_ & [H|H] & _); rewrite H; discriminate. }
      (* p is in the state "PUT_REQ pending": the request is the last thing in flight *)
      destruct (R4 p Ap Hpq) as (Sy & Pu & E & HSy & Hst). fold q in E, Hst. rewrite EX in E.
      assert (Hm0_nosync : ~ sync_typed m0) by (intros [H|H]; rewrite Ht0 in H; discriminate).
      assert (Hqh : T = [] /\ Sy = F /\ In p (r_replicaSet (rl s q)) /\ rsent s q p /\ m_body m0 = r_lastPutBody (rl s q)).
      { destruct Hst as [(X1 & X2 & X3 & X4)|[(X1 & X2 & X3 & m & X4 & X5 & X6)|[(X1 & X2 & X3 & m & X4 & X5)|(X1 & X2 & X3 & X4 & X5)]]].
        - exfalso. subst Pu. rewrite app_nil_r in E. subst Sy. apply Forall_app in HSy. destruct HSy as [_ F2]. inversion F2; subst. contradiction.
        - subst Pu. destruct T as [|t0 T0].
          + apply app_inj_tail in E. destruct E as [E1 E2]. subst m. auto.
          + exfalso. apply Hm0_nosync. rewrite Forall_forall in HSy. apply HSy.
            apply (app_mid_in _ F (t0 :: T0) Sy m0 m E). discriminate.
        - exfalso. subst Pu. destruct T as [|t0 T0].
          + apply app_inj_tail in E. destruct E as [_ E2]. subst m. rewrite Ht0 in X5. discriminate.
          + apply Hm0_nosync. rewrite Forall_forall in HSy. apply HSy.
            apply (app_mid_in _ F (t0 :: T0) Sy m0 m E). discriminate.
        - exfalso. subst Sy Pu. destruct F; discriminate E. }
      destruct Hqh as (ET & ESy & HinS & Hsent & Hbody). subst T Sy.
      (* p adopts the latest version *)
      assert (Hnew' : isnew w s' p).
      { destruct R1 as [R1l _]. fold q in R1l.
        assert (HKv : Kv (m_body m0) = Mx w) by (rewrite Hbody, R1l; reflexivity).
        destruct hb_version_p as (Hv & _ & Had & _). specialize (Had HKv).
        destruct Hv as [H|H]; [exact H|]. destruct (isold_K w s' p H). lia. }
      split; [apply (hb_isnew_other q Hqp); exact R1|]. split; [|split].
      * intros b m Ab Hb Hm. apply hb_alive in Ab. apply (R2 b m Ab Hb). apply hb_pend_incl. exact Hm.
      * rewrite SR1. intros m Hm Htm. apply in_app_or in Hm. destruct Hm as [Hm|[<-|[]]]; [apply R3; assumption|].
        rewrite Htr in Htm. discriminate.
      * intros b Ab Hb. apply hb_alive in Ab.
        assert (Hrs : rsent s' q b <-> rsent s q b) by (unfold rsent; rewrite Hpcq, Hrlq; tauto).
        destruct (Nat.eq_dec b p) as [->|Hne].
        -- exists F, [resp]. rewrite EX'. split; [reflexivity|]. split; [exact HSy|].
           right. right. left. rewrite Hrs, Hrlq. split; [exact Hsent|]. split; [exact Hnew'|]. split; [exact HinS|].
           exists resp. auto.
        -- destruct (R4 b Ab Hb) as (Sy0 & Pu0 & E0 & HSy0 & Hst0). fold q in E0, Hst0.
           exists Sy0, Pu0. rewrite (hbr_xs_other b Hne). split; [exact E0|]. split; [exact HSy0|].
           rewrite Hrs, Hrlq, (hb_isold_other b Hne), (hb_isnew_other b Hne). exact Hst0.
Qed.

End RPUT.

End RESPOND.

End HBSTEP.


(* ------------------------------------------------------------------ handleBackup: from the model's step to the generic lemmas *)
Lemma invB_hb_finish : forall w s s1 p ch s' m0 l1 rb rt,
  InvA s -> InvB w s -> alive s p -> pcr s p = HandleBackup -> r_req (rl s p) = Some m0 ->
  net s1 = net s -> fdv s1 = fdv s -> prim s1 = prim s -> rl s1 = rl s ->
  (forall r k, r <> p -> fsv s1 r k = fsv s r k) ->
  r_shouldSync l1 = true ->
  ((r_lastPutBody l1 = r_lastPutBody (rl s p) /\ (forall k, fsv s1 p k = fsv s p k) /\
    m_typ m0 = SYNC_REQ /\ Kv (m_body m0) <= K s p) \/
   (exists ver k v, m_body m0 = BPut ver (Some (k, v)) /\ r_lastPutBody l1 = m_body m0 /\
    (forall k0, fsv s1 p k0 = upd_fs (fsv s) p k v p k0) /\ K s p <= ver /\ (m_typ m0 = SYNC_REQ -> K s p < ver))) ->
  ((rt = PUT_RESP /\ m_typ m0 = PUT_REQ) \/ (rt = SYNC_RESP /\ m_typ m0 = SYNC_REQ /\ rb = r_lastPutBody l1)) ->
  (if negb (ch_alt ch)
   then match link_send s1 (m_from m0) RESP (mkMsg p (m_from m0) rb BACKUP_SRC rt (m_id m0)) with
        | None => Blocked
        | Some s2 => Ok (set_rl s2 p (r_set_pc l1 ReplicaLoop))
        end
   else if fdv s1 (m_from m0) then Ok (set_rl s1 p (r_set_pc l1 ReplicaLoop)) else Blocked) = Ok s' ->
  InvB w s'.
Proof.
  intros w s s1 p ch s' m0 l1 rb rt IA IB Ap Epc Hreq Hnet Hfd Hprim Hrl Hfs Hss Hver Hrt Hs.
  assert (Hpm : pmA p (ldr s) m0).
  { destruct (a_loc cfg s IA p Ap) as (_ & L2 & _). destruct (L2 Epc) as (m & E & H). rewrite Hreq in E. inversion E. subst. exact H. }
  destruct (ch_alt ch); cbn [negb] in Hs.
  - (* the sender has been detected dead: no answer *)
    destruct (fdv s1 (m_from m0)) eqn:Efd; [|discriminate]. inversion Hs; subst s'; clear Hs.
    rewrite Hfd in Efd.
    apply (invB_hb_noresp w s _ p m0 IB Ap Epc Hreq); simp_st.
    + intros r Hr. rewrite updf_other by exact Hr. rewrite Hrl. reflexivity.
    + unfold pcr. simp_st. rewrite updf_same. reflexivity.
    + rewrite updf_same. exact Hss.
    + exact Hfs.
    + intros r. rewrite Hnet. reflexivity.
    + apply ldr_prim_ext. intros r. simp_st. rewrite Hprim. reflexivity.
    + rewrite updf_same. simp_st. exact Hver.
    + intros r. rewrite Hnet. reflexivity.
    + intros _ E. apply (fd_not_alive cfg s _ IA Efd). rewrite E.
      destruct (alive_ge_ldr cfg s p IA Ap) as [Hn0 _]. split; [apply (ldr_nonzero cfg s IA Hn0)|].
      (* the leader would be alive: but its fd flag is set *)
      exfalso. rewrite E in Efd. rewrite (a_fd cfg s IA) in Efd. apply andb_true_iff in Efd. destruct Efd as [_ Efd].
      destruct Hpm as (_ & _ & _ & _ & Hlt & _). rewrite E in Hlt.
      (* pc of the leader is RDone: contradiction with leader not RDone *)
      destruct (ldr_nonzero cfg s IA Hn0) as (_ & Hnd & _). destruct (pcr s (ldr s)); cbn in Efd; try discriminate. apply Hnd. reflexivity.
  - (* the answer is sent: the sender is the live leader *)
    unfold link_send in Hs. destruct (enabled (net s1 (m_from m0) RESP)) eqn:Een; [|discriminate].
    inversion Hs; subst s'; clear Hs. rewrite Hnet in Een.
    destruct Hpm as (Hsrc & Htyp & Hf1 & Hfq & Hfp & Hbody).
    assert (Hqr : isrep (ldr s)).
    { destruct (alive_ge_ldr cfg s p IA Ap) as [Hn _]. apply (ldr_nonzero cfg s IA Hn). }
    assert (Hx : isrep (m_from m0)) by (unfold ProofsCrashA.isrep in *; lia).
    assert (Ax : alive s (m_from m0)) by (eapply enabled_alive; eauto).
    assert (Hxq : m_from m0 = ldr s).
    { destruct (alive_ge_ldr cfg s _ IA Ax) as [_ H]. lia. }
    assert (Aq : alive s (ldr s)) by (rewrite <- Hxq; exact Ax).
    set (resp := mkMsg p (m_from m0) rb BACKUP_SRC rt (m_id m0)).
    destruct Hrt as [(-> & Ht0)|(-> & Ht0 & Hrb)].
    + apply (invB_hb_put w s _ p m0 IA IB Ap Epc Hreq) with (resp := resp); simp_st; auto.
      * intros r Hr. rewrite updf_other by exact Hr. rewrite Hrl. reflexivity.
      * unfold pcr. simp_st. rewrite updf_same. reflexivity.
      * rewrite updf_same. exact Hss.
      * intros r. rewrite Hnet. rewrite upd_net_other by (right; discriminate). reflexivity.
      * apply ldr_prim_ext. intros r. simp_st. rewrite Hprim. reflexivity.
      * rewrite updf_same. simp_st. exact Hver.
      * rewrite Hnet, Hxq, upd_net_same. reflexivity.
    + apply (invB_hb_sync w s _ p m0 IA IB Ap Epc Hreq) with (resp := resp); simp_st; auto.
      * intros r Hr. rewrite updf_other by exact Hr. rewrite Hrl. reflexivity.
      * unfold pcr. simp_st. rewrite updf_same. reflexivity.
      * rewrite updf_same. exact Hss.
      * intros r. rewrite Hnet. rewrite upd_net_other by (right; discriminate). reflexivity.
      * apply ldr_prim_ext. intros r. simp_st. rewrite Hprim. reflexivity.
      * rewrite updf_same. simp_st. exact Hver.
      * rewrite Hnet, Hxq, upd_net_same. reflexivity.
      * rewrite updf_same. simp_st. exact Hrb.
Qed.


Lemma invB_handleBackup : forall w s p ch s', InvA s -> InvB w s -> alive s p ->
  pcr s p = HandleBackup -> step_handleBackup cfg ch s p = Ok s' -> InvB w s'.
Proof.
  intros w s p ch s' IA IB Ap Epc Hs.
  destruct (a_loc cfg s IA p Ap) as (_ & L2 & _ & _ & _ & _ & _ & L8).
  destruct (L2 Epc) as (m0 & Hreq & Hpm).
  unfold step_handleBackup in Hs. rewrite Hreq in Hs. cbn [bindT] in Hs.
  pose proof Hpm as (Hsrc & Htyp & Hf1 & Hfq & Hfp & ver & c & Hb).
  rewrite Hsrc in Hs. cbn [srct_eqb negb] in Hs.
  destruct Htyp as [Ht|Ht]; rewrite Ht, Hb in Hs; cbn [body_key body_value body_ver bindT] in Hs.
  - (* PUT_REQ *)
    destruct c as [[k v]|]; cbn [bindT] in Hs; [|discriminate].
    destruct (body_ver (r_lastPutBody (rl s p))) as [lv|] eqn:Elv; cbn [bindT] in Hs; [|discriminate].
    assert (HKp : K s p = lv) by (unfold K; destruct (r_lastPutBody (rl s p)); cbn in *; try discriminate; congruence).
    destruct (ver <? lv) eqn:Elt; [discriminate|]. apply Nat.ltb_ge in Elt.
    cbn [r_respBody r_respTyp r_set_sync r_set_resp r_set_lpb bindT] in Hs.
    eapply (invB_hb_finish w s (set_fs s (upd_fs (fsv s) p k v)) p ch s' m0); try exact Hs; try reflexivity; auto.
    + intros r k0 Hr. simp_st. apply upd_fs_other_node. exact Hr.
    + right. exists ver, k, v. rewrite Hb. simp_st. repeat split; auto; try lia. rewrite Ht. discriminate.
  - (* SYNC_REQ *)
    destruct (body_ver (r_lastPutBody (rl s p))) as [lv|] eqn:Elv; cbn [bindT] in Hs; [|discriminate].
    assert (HKp : K s p = lv) by (unfold K; destruct (r_lastPutBody (rl s p)); cbn in *; try discriminate; congruence).
    destruct (lv <? ver) eqn:Elt.
    + apply Nat.ltb_lt in Elt.
      destruct c as [[k v]|]; cbn [bindT] in Hs; [|discriminate].
      cbn [r_respBody r_respTyp r_set_sync r_set_resp r_set_lpb r_lastPutBody bindT] in Hs.
      eapply (invB_hb_finish w s (set_fs s (upd_fs (fsv s) p k v)) p ch s' m0); try exact Hs; try reflexivity; auto.
      * intros r k0 Hr. simp_st. apply upd_fs_other_node. exact Hr.
      * right. exists ver, k, v. rewrite Hb. simp_st. repeat split; auto; lia.
    + apply Nat.ltb_ge in Elt.
      cbn [r_respBody r_respTyp r_set_sync r_set_resp r_set_lpb r_lastPutBody bindT] in Hs.
      eapply (invB_hb_finish w s s p ch s' m0); try exact Hs; try reflexivity; auto.
      left. simp_st. rewrite Hb. cbn [Kv]. repeat split; auto. lia.
Qed.


Lemma filter_nil_forall : forall A (g : A -> bool) l, (forall x, In x l -> g x = false) -> filter g l = [].
Proof.
  intros A g l. induction l as [|a l IH]; intros H; cbn; [reflexivity|].
  rewrite (H a) by (left; reflexivity). apply IH. intros x Hx. apply H. right. exact Hx.
Qed.

(* nothing pending anywhere was sent by a replica above the current leader *)
Lemma pend_not_from_above : forall s b q' m, InvA s -> alive s b -> ldr s < q' -> In m (pend s b) ->
  Nat.eqb (m_from m) q' = false.
Proof.
  intros s b q' m IA Ab Hlt Hm. destruct (pend_pmA s b m IA Ab Hm) as (_ & _ & _ & Hle & _).
  apply Nat.eqb_neq. lia.
Qed.

(* ------------------------------------------------------------------ failLabel *)
Lemma invB_failLabel : forall w s p ch s', InvA s -> InvA s' -> InvB w s -> isrep p -> pcr s p = FailLabel ->
  step_failLabel cfg ch s p = Ok s' -> InvB w s'.
Proof.
  intros w s p ch s' IA IA' IB Hp Epc Hs. unfold step_failLabel in Hs.
  assert (Es' : s' = set_rl (set_prim (set_fd s (updf (fdv s) p true)) (updf (prim (set_fd s (updf (fdv s) p true))) p false)) p
                    (r_set_pc (rl s p) RDone)) by (inversion Hs; reflexivity).
  clear Hs.
  assert (Hnet : net s' = net s) by (subst s'; reflexivity).
  assert (Hfsv : fsv s' = fsv s) by (subst s'; reflexivity).
  assert (Hrlo : forall r, r <> p -> rl s' r = rl s r) by (intros r Hr; subst s'; simp_st; apply updf_other; exact Hr).
  assert (Hrlp : rl s' p = r_set_pc (rl s p) RDone) by (subst s'; simp_st; apply updf_same).
  assert (Hpc : forall r, pcr s' r = if Nat.eqb r p then RDone else pcr s r).
  { intros r. unfold pcr. destruct (Nat.eqb r p) eqn:E; [apply Nat.eqb_eq in E; subst r; rewrite Hrlp; reflexivity|].
    apply Nat.eqb_neq in E. rewrite (Hrlo r E). reflexivity. }
  clear Es'.
  assert (Hpa : forall r, pc_alive (pcr s' r) = pc_alive (pcr s r)).
  { intros r. rewrite Hpc. destruct (Nat.eqb r p) eqn:E; [|reflexivity]. apply Nat.eqb_eq in E. subst r. rewrite Epc. reflexivity. }
  assert (Hal : forall r, alive s' r <-> alive s r) by (intros r; unfold ProofsCrashA.alive; rewrite Hpa; tauto).
  assert (Hnp : forall r, alive s r -> r <> p).
  { intros r [_ Ha] ->. rewrite Epc in Ha. discriminate. }
  assert (Hlpb : forall r, r_lastPutBody (rl s' r) = r_lastPutBody (rl s r)).
  { intros r. destruct (Nat.eq_dec r p) as [->|Hne]; [rewrite Hrlp; reflexivity | rewrite (Hrlo r Hne); reflexivity]. }
  assert (Hpend : forall r, alive s r -> pend s' r = pend s r).
  { intros r Ar. pose proof (Hnp r Ar) as Hne. apply pend_ext; [unfold pcr; rewrite (Hrlo r Hne); reflexivity | rewrite (Hrlo r Hne); reflexivity | rewrite Hnet; reflexivity]. }
  destruct (Nat.eq_dec (ldr s) p) as [Eq|Nq].
  2:{ (* a backup's crash is announced: the leader is unchanged *)
      assert (Hldr : ldr s' = ldr s).
      { assert (Hn0 : ldr s <> 0).
        { intros E0. pose proof (ldr_zero cfg s IA E0 p Hp) as H. rewrite Epc in H. discriminate. }
        destruct (ldr_nonzero cfg s IA Hn0) as (Hq1 & Hq2 & Hq3).
        apply (ldr_is cfg s' (ldr s) IA' Hq1).
        - rewrite Hpc. destruct (Nat.eqb (ldr s) p) eqn:E; [apply Nat.eqb_eq in E; contradiction | exact Hq2].
        - intros r Hr Hlt. rewrite Hpc. destruct (Nat.eqb r p); [reflexivity | apply Hq3; assumption]. }
      apply (invB_frame_same cfg w s s'); auto; try (rewrite Hnet; reflexivity);
        try (intros r k; rewrite Hfsv; reflexivity); try (apply Hrlo; auto). }
  (* the leader's crash is announced: a new leader (or none) *)
  pose proof IB as [V P Ph].
  assert (Hknows : forall r, alive s r -> (knows w s' r <-> knows w s r)).
  { intros r Ar. unfold knows, K. rewrite Hlpb, (Hpend r Ar). tauto. }
  assert (Hnew : forall r, isnew w s' r <-> isnew w s r) by (apply fr_isnew; [exact Hlpb | intros; rewrite Hfsv; reflexivity]).
  assert (Hold : forall r, isold w s' r <-> isold w s r) by (apply fr_isold; [exact Hlpb | intros; rewrite Hfsv; reflexivity]).
  (* facts about a live new leader *)
  assert (NL : alive s' (ldr s') ->
     alive s (ldr s') /\ ldr s < ldr s' /\ queue (net s (ldr s') RESP) = [] /\ backup_pc (pcr s (ldr s')) /\
     (0 < K s (ldr s') -> r_shouldSync (rl s (ldr s')) = true)).
  { intros A. apply Hal in A. pose proof (Hnp _ A) as Hne.
    destruct (alive_ge_ldr cfg s _ IA A) as [_ Hge]. rewrite Eq in Hge.
    assert (Hlt : ldr s < ldr s') by (rewrite Eq; lia).
    assert (Hnl : ldr s' <> ldr s) by lia.
    destruct (a_loc cfg s IA _ A) as (L1 & _ & _ & L4 & _).
    destruct (a_q cfg s IA _ A) as (_ & Rn & _).
    split; [exact A|]. split; [exact Hlt|]. split; [apply Rn; exact Hnl|]. split; [apply L1; exact Hnl|].
    intros HK. apply L4; [exact Hnl | exact HK]. }
  assert (Hrlq' : alive s' (ldr s') -> rl s' (ldr s') = rl s (ldr s')).
  { intros A. apply Hrlo. apply Hnp. apply Hal. exact A. }
  constructor; [constructor; try apply V | constructor | constructor].
  - intros r A. apply Hal in A. rewrite Hnew, Hold. apply (v_rep cfg w s V r A).
  - intros r m A Hm. apply Hal in A. rewrite (Hpend r A) in Hm. apply (v_pend cfg w s V r m A Hm).
  - intros m A Hm. destruct (NL A) as (_ & _ & E & _). rewrite Hnet, E in Hm. destruct Hm.
  - intros r1 r2 A1 A2 Hlt Hk. apply Hal in A1. apply Hal in A2. apply (Hknows r1 A1). apply (Hknows r2 A2) in Hk.
    apply (p_order cfg w s P r1 r2 A1 A2 Hlt Hk).
  - intros m A Hm. destruct (NL A) as (_ & _ & E & _). rewrite Hnet, E in Hm. destruct Hm.
  - intros A [H|H]; destruct (NL A) as (_ & _ & _ & Hb & _); unfold pcr in H; rewrite (Hrlq' A) in H;
      unfold pcr in Hb; rewrite H in Hb; destruct Hb.
  - (* main: a new leader that is ahead of a backup has handled a request, so its shouldSync is set *)
    intros A _ b Ab Hb HK. destruct (NL A) as (_ & _ & _ & _ & Hs). left. right. right. rewrite (Hrlq' A). apply Hs.
    unfold K in *. rewrite !Hlpb in HK. lia.
  - (* tok: nothing is in flight between the new leader and anybody *)
    intros A _ b Ab Hb. destruct (NL A) as (A0 & Hlt & E & _). apply Hal in Ab.
    assert (Et : toks s' (ldr s') b = []).
    { unfold toks, sresps, sreqs. rewrite Hnet, E, (Hpend b Ab). cbn [filter app].
      apply filter_nil_forall. intros m Hm. unfold is_syncreq. rewrite (pend_not_from_above s b _ m IA Ab Hlt Hm). reflexivity. }
    rewrite Et. exact Logic.I.
  - intros A _ b Ab Hb. destruct (NL A) as (A0 & Hlt & E & _). apply Hal in Ab.
    assert (Et : toks s' (ldr s') b = []).
    { unfold toks, sresps, sreqs. rewrite Hnet, E, (Hpend b Ab). cbn [filter app].
      apply filter_nil_forall. intros m Hm. unfold is_syncreq. rewrite (pend_not_from_above s b _ m IA Ab Hlt Hm). reflexivity. }
    rewrite Et. split; [cbn; lia | intros H; congruence].
  - intros A _ b Ab Hb. destruct (NL A) as (A0 & Hlt & E & _). apply Hal in Ab.
    unfold acks, puts. rewrite Hnet, E, (Hpend b Ab). split; [reflexivity|].
    apply filter_nil_forall. intros m Hm. unfold is_put. rewrite (pend_not_from_above s b _ m IA Ab Hlt Hm). reflexivity.
  - intros A [H|H]; destruct (NL A) as (_ & _ & _ & Hb & _); unfold pcr in H; rewrite (Hrlq' A) in H;
      unfold pcr in Hb; rewrite H in Hb; destruct Hb.
Qed.


(* ------------------------------------------------------------------ the whole invariant *)
Definition InvC (s : state) : Prop := InvA s /\ exists w, InvB w s.

Lemma init_invB : forall input, InvB (mkWit 0 None (fun _ => EmptyString) None) (init cfg input).
Proof.
  intros input. constructor; [constructor | constructor | constructor]; cbn; try easy.
  - intros r _. left. split; [reflexivity | intros k; reflexivity].
  - intros _ [H|H]; discriminate H.
Qed.

Lemma invC_init : forall input, Forall input_ok input -> InvC (init cfg input).
Proof. intros input H. split; [apply init_invA; exact H | eexists; apply init_invB]. Qed.

Lemma invC_step : forall s e s', InvC s -> step cfg s e = Ok s' -> InvC s'.
Proof.
  intros s [p ch] s' [IA (w & IB)] Hs.
  assert (IA' : InvA s') by (eapply invA_step; eauto).
  split; [exact IA'|].
  unfold step in Hs. destruct (is_replica cfg p) eqn:Er.
  - apply (isrep_iff cfg) in Er. unfold step_replica in Hs.
    destruct (r_pc (rl s p)) eqn:Epc;
      try (assert (Ap : alive s p) by (split; [exact Er | unfold pcr; rewrite Epc; reflexivity])).
    + exists w. eapply (invB_replicaLoop cfg w s p ch s'); eauto.
    + exists w. eapply (invB_syncPrimary cfg w s p ch s'); eauto.
    + exists w. eapply (invB_sndSyncReqLoop cfg w s p ch s'); eauto.
    + exists w. eapply (invB_rcvSyncRespLoop w s p ch s'); eauto.
    + exists w. eapply (invB_rcvMsg cfg w s p ch s'); eauto.
    + exists w. eapply (invB_handleBackup w s p ch s'); eauto.
    + eapply (invB_handlePrimary w s p ch s'); eauto.
    + exists w. eapply (invB_sndReplicaReqLoop cfg w s p ch s'); eauto.
    + exists w. eapply (invB_rcvReplicaRespLoop w s p ch s'); eauto.
    + exists w. eapply (invB_sndResp cfg w s p ch s'); eauto.
    + exists w. eapply (invB_failLabel w s p ch s'); eauto.
    + discriminate.
  - destruct (is_client cfg p) eqn:Ec; [|discriminate]. exists w.
    apply (invB_client_step cfg w s p ch s' IA IB); [apply is_client_true in Ec; lia | exact Hs].
Qed.

Lemma invC_reachable : forall input s, Forall input_ok input -> reachable cfg input s -> InvC s.
Proof.
  intros input s Hin Hr. induction Hr.
  - apply invC_init. exact Hin.
  - eapply invC_step; eauto.
Qed.

(* ------------------------------------------------------------------ ConsistencyOK *)
Lemma invC_consistency : forall s, InvC s -> ConsistencyOK cfg s.
Proof.
  intros s [IA (w & [V P Ph])] p (Hp & Hap & Hmin) Hpc r Hr Har k.
  assert (Ap : alive s p).
  { split; [exact Hp|]. unfold pcr. rewrite Hpc. reflexivity. }
  assert (Ar : alive s r).
  { split; [exact Hr|]. destruct Har as [H1 H2]. unfold pcr. destruct (r_pc (rl s r)); try reflexivity; contradiction. }
  (* p, being at sndResp, is the leader *)
  assert (Hq : p = ldr s).
  { apply (nonbackup_is_ldr cfg s p IA Ap). unfold pcr. rewrite Hpc. cbn. tauto. }
  destruct (Nat.eq_dec r p) as [->|Hne]; [reflexivity|].
  rewrite Hq in *. clear Hq.
  destruct (a_loc cfg s IA _ Ap) as (_ & _ & L3 & _).
  destruct L3 as (m & _ & _ & Hss & Hqc); [rewrite Hpc; exact Logic.I|].
  assert (HfP : filter is_p (queue (net s (ldr s) REQ)) = []) by (apply (Forall_creq_filter_p cfg); exact Hqc).
  assert (Hn1 : pcr s (ldr s) <> HandleBackup) by (unfold pcr; rewrite Hpc; discriminate).
  assert (Hpq : pend s (ldr s) = []) by (rewrite pend_not_hb by exact Hn1; exact HfP).
  assert (N1 : ~ insync s (ldr s)) by (unfold insync, pcr; rewrite Hpc; intuition discriminate).
  assert (N2 : ~ inrepl s (ldr s)) by (unfold inrepl, pcr; rewrite Hpc; intuition discriminate).
  assert (N3 : ~ owed s (ldr s)).
  { unfold owed, owedP. rewrite HfP, Hss. unfold pcr. rewrite Hpc. intros [H|[H|H]]; [apply H; reflexivity | discriminate | discriminate]. }
  assert (G : K s (ldr s) <= K s r).
  { destruct (le_lt_dec (K s (ldr s)) (K s r)) as [H|H]; [exact H|]. exfalso.
    destruct (ph_main cfg w s Ph Ap N2 r Ar Hne H) as [X|(X & _)]; contradiction. }
  destruct (v_rep cfg w s V _ Ap) as [Hqn|Hqo]; destruct (v_rep cfg w s V r Ar) as [Hrn|Hro].
  - destruct Hqn as [_ F1]. destruct Hrn as [_ F2]. rewrite F1, F2. reflexivity.
  - pose proof (isnew_K w s _ Hqn). destruct (isold_K w s r Hro). lia.
  - (* the backup knows the latest version but the leader does not and has nothing pending: impossible *)
    exfalso. destruct (alive_ge_ldr cfg s r IA Ar) as [_ Hge].
    assert (Hk : knows w s (ldr s)).
    { apply (p_order cfg w s P (ldr s) r Ap Ar); [lia | left; apply isnew_K; exact Hrn]. }
    destruct (isold_K w s _ Hqo). destruct Hk as [Hk|(m0 & Hm0 & _)]; [lia | rewrite Hpq in Hm0; destruct Hm0].
  - destruct Hqo as (_ & _ & F1). destruct Hro as (_ & _ & F2). rewrite F1, F2. reflexivity.
Qed.

End CRC.

Lemma consistency_ok_lemma : forall cfg input evs s,
  Forall input_ok input -> exec cfg (init cfg input) evs = Some s -> ConsistencyOK cfg s.
Proof.
  intros cfg input evs s Hin He. apply invC_consistency.
  apply (invC_reachable cfg input s Hin).
  eapply exec_reachable; [apply reach_init | exact He].
Qed.

Lemma consistency_run_skip_lemma : forall cfg input evs,
  Forall input_ok input -> ConsistencyOK cfg (run_skip cfg (init cfg input) evs).
Proof.
  intros cfg input evs Hin. apply (invC_consistency cfg).
  apply (invC_reachable cfg input _ Hin). apply run_skip_reachable. apply reach_init.
Qed.
