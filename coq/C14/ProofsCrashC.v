(* C14 — executions WITH crashes: the remaining labels (sync answers, handleBackup, handlePrimary,
   replication answers, failLabel), preservation of the whole invariant, ConsistencyOK. *)
From Coq Require Import List Arith Bool String Lia.
From PGV Require Import C14.Model C14.Proofs C14.ProofsCrashA C14.ProofsCrashB.
Import ListNotations.
Open Scope list_scope.
Open Scope nat_scope.

Section CRC.
Variable cfg : config.

Notation isrep := (isrep cfg).
Notation alive := (alive cfg).
Notation ldr := (ldr cfg).
Notation InvA := (InvA cfg).
Notation InvB := (InvB cfg).

(* ------------------------------------------------------------------ rcvSyncRespLoop without reading a message *)
Lemma invB_rcvsync_exit : forall w s, InvA s -> InvB w s -> alive s (ldr s) ->
  pcr s (ldr s) = RcvSyncRespLoop -> r_replicaSet (rl s (ldr s)) = [] ->
  InvB w (set_rl s (ldr s) (r_set_pc (rl s (ldr s)) RcvMsg)).
Proof.
  intros w s IA IB Aq Epc HS.
  set (q := ldr s) in *. set (l' := r_set_pc (rl s q) RcvMsg).
  assert (Hn1 : pcr s q <> HandleBackup) by (rewrite Epc; discriminate).
  assert (Hn2 : r_pc l' <> HandleBackup) by discriminate.
  assert (N2 : ~ inrepl s q) by (unfold inrepl; rewrite Epc; intuition discriminate).
  pose proof IB as [V P Ph].
  assert (LA : forall r, alive (set_rl s q l') r <-> alive s r) by (apply ll_alive; auto).
  assert (LK : forall r, K (set_rl s q l') r = K s r) by (apply ll_K; auto).
  assert (LT : forall b, alive s b -> toks (set_rl s q l') q b = toks s q b) by (apply ll_toks; auto).
  assert (LP : forall b, alive s b -> puts (set_rl s q l') q b = puts s q b) by (apply ll_puts; auto).
  assert (Hrl : rl (set_rl s q l') q = l') by (apply ll_rl).
  apply (ll_build cfg w s l' IB Aq eq_refl eq_refl Hn1 Hn2).
  { intros [H|H]; discriminate H. }
  constructor; rewrite (ll_ldr cfg); fold q.
  - intros A _ b Ab Hb HK. apply LA in A. apply LA in Ab. rewrite !LK in HK.
    destruct (ph_main cfg w s Ph Aq N2 b Ab Hb HK) as [H|(_ & H & _)]; [|fold q in H; rewrite HS in H; destruct H].
    left. unfold owed, owedP, pcr in *. rewrite Hrl. unfold l'. simp_st. fold q in H.
    destruct H as [H|[H|H]]; [left; exact H | rewrite Epc in H; discriminate | right; right; exact H].
  - intros A _ b Ab Hb. apply LA in A. apply LA in Ab. rewrite (LT b Ab), LK.
    pose proof (ph_tok cfg w s Ph Aq N2 b Ab Hb) as H. fold q in H.
    destruct (toks s q b) as [|t rest]; [exact Logic.I|]. destruct H as [H1 H2]. split; [exact H1|].
    intros Hlt. destruct (H2 Hlt) as (_ & X & _). rewrite HS in X. destruct X.
  - intros A HK b Ab Hb. apply LA in A. apply LA in Ab. rewrite LK in HK. rewrite (LT b Ab).
    destruct (ph_count cfg w s Ph Aq HK b Ab Hb) as [C1 C2]. fold q in C1, C2.
    destruct (toks s q b) as [|t rest]; [split; [cbn; lia | intros H; congruence]|].
    destruct C2 as (_ & X & _); [discriminate|]. rewrite HS in X. destruct X.
  - intros A _ b Ab Hb. apply LA in A. apply LA in Ab. rewrite (LP b Ab). apply (ph_noack cfg w s Ph Aq N2 b Ab Hb).
  - intros _ [H|H]; unfold pcr in H; rewrite Hrl in H; discriminate H.
Qed.


(* the leader removes from replicaSet a replica that is not alive (fd branch of the receive loops) *)
Lemma invB_rs_shrink : forall w s S',
  InvA s -> InvB w s -> alive s (ldr s) ->
  (pcr s (ldr s) = RcvSyncRespLoop \/ pcr s (ldr s) = RcvReplicaRespLoop) ->
  (forall b, alive s b -> (In b S' <-> In b (r_replicaSet (rl s (ldr s))))) ->
  InvB w (set_rl s (ldr s) (r_set_pc (r_set_rs (rl s (ldr s)) S') (pcr s (ldr s)))).
Proof.
  intros w s S' IA IB Aq Hpc HS.
  set (q := ldr s) in *. set (l' := r_set_pc (r_set_rs (rl s q) S') (pcr s q)).
  assert (Hn1 : pcr s q <> HandleBackup) by (destruct Hpc as [H|H]; rewrite H; discriminate).
  assert (Hn2 : r_pc l' <> HandleBackup) by (unfold l'; simp_st; exact Hn1).
  assert (Hal : pc_alive (r_pc l') = true) by (unfold l'; simp_st; destruct Hpc as [H|H]; rewrite H; reflexivity).
  pose proof IB as [V P Ph].
  assert (LA : forall r, alive (set_rl s q l') r <-> alive s r) by (apply ll_alive; auto).
  assert (LK : forall r, K (set_rl s q l') r = K s r) by (apply ll_K; auto).
  assert (LT : forall b, alive s b -> toks (set_rl s q l') q b = toks s q b) by (apply ll_toks; auto).
  assert (LP : forall b, alive s b -> puts (set_rl s q l') q b = puts s q b) by (apply ll_puts; auto).
  assert (LS : forall b, alive s b -> sreqs (set_rl s q l') q b = sreqs s q b) by (apply ll_sreqs; auto).
  assert (LX : forall b, alive s b -> xs (set_rl s q l') q b = xs s q b) by (apply ll_xs; auto).
  assert (LPe : forall b, alive s b -> pend (set_rl s q l') b = pend s b) by (apply ll_pend; auto).
  assert (Hrl : rl (set_rl s q l') q = l') by (apply ll_rl).
  assert (Hpcr : pcr (set_rl s q l') q = pcr s q) by (unfold pcr; rewrite Hrl; reflexivity).
  assert (Hins : insync (set_rl s q l') q <-> insync s q) by (unfold insync; rewrite Hpcr; tauto).
  assert (Hinr : inrepl (set_rl s q l') q <-> inrepl s q) by (unfold inrepl; rewrite Hpcr; tauto).
  assert (How : owed (set_rl s q l') q <-> owed s q).
  { unfold owed, owedP. rewrite Hpcr, Hrl. unfold l'. simp_st. tauto. }
  apply (ll_build cfg w s l' IB Aq Hal eq_refl Hn1 Hn2).
  { unfold l'. simp_st. intros [H|H]; exfalso; destruct Hpc as [E|E]; rewrite E in H; discriminate. }
  constructor; rewrite (ll_ldr cfg); fold q.
  - intros A Hnr b Ab Hb HK. apply LA in A. apply LA in Ab. rewrite !LK in HK. rewrite Hinr in Hnr.
    rewrite How, Hins, Hrl, (LS b Ab), LK, Hpcr. change (sresps (set_rl s q l') q b) with (sresps s q b).
    unfold l'. simp_st. rewrite (HS b Ab). apply (ph_main cfg w s Ph Aq Hnr b Ab Hb HK).
  - intros A Hnr b Ab Hb. apply LA in A. apply LA in Ab. rewrite Hinr in Hnr.
    pose proof (ph_tok cfg w s Ph Aq Hnr b Ab Hb) as H. fold q in H. rewrite (LT b Ab), LK.
    destruct (toks s q b) as [|t rest]; [exact Logic.I|]. destruct H as [H1 H2]. split; [exact H1|].
    intros Hlt. destruct (H2 Hlt) as (X1 & X2 & X3). rewrite Hins, Hrl. unfold l'. simp_st. rewrite (HS b Ab). auto.
  - intros A HK b Ab Hb. apply LA in A. apply LA in Ab. rewrite LK in HK.
    destruct (ph_count cfg w s Ph Aq HK b Ab Hb) as [C1 C2]. rewrite (LT b Ab). split; [exact C1|].
    intros Hne. destruct (C2 Hne) as (X1 & X2 & X3). rewrite Hins, Hrl, Hpcr. unfold l'. simp_st. rewrite (HS b Ab). auto.
  - intros A Hnr b Ab Hb. apply LA in A. apply LA in Ab. rewrite Hinr in Hnr.
    rewrite (LP b Ab). apply (ph_noack cfg w s Ph Aq Hnr b Ab Hb).
  - intros A Hr. apply LA in A. rewrite Hinr in Hr. destruct (ph_repl cfg w s Ph Aq Hr) as (R1 & R2 & R3 & R4).
    split; [apply ll_isnew; auto|]. split; [|split].
    + intros b m Ab Hb Hm. apply LA in Ab. rewrite (LPe b Ab) in Hm. apply (R2 b m Ab Hb Hm).
    + exact R3.
    + intros b Ab Hb. apply LA in Ab. destruct (R4 b Ab Hb) as (Sy & Pu & E & HSy & Hst).
      exists Sy, Pu. rewrite (LX b Ab). split; [exact E|]. split; [exact HSy|].
      assert (Hold : isold w (set_rl s q l') b <-> isold w s b) by (apply ll_isold; auto).
      assert (Hnew : isnew w (set_rl s q l') b <-> isnew w s b) by (apply ll_isnew; auto).
      assert (Hsent : rsent (set_rl s q l') q b <-> rsent s q b).
      { unfold rsent. rewrite Hpcr, Hrl. unfold l'. simp_st. tauto. }
      rewrite Hsent, Hold, Hnew, Hrl. unfold l'. simp_st. rewrite (HS b Ab). exact Hst.
Qed.


(* ------------------------------------------------------------------ the leader takes the head of its response queue *)
Section POPRESP.
Variables (w : wit) (s : state) (m : msg) (rest : list msg) (l' : rlocal).
Let q := ldr s.
Let s' := set_rl (set_net s (upd_net (net s) q RESP (mkLink rest true))) q l'.
Hypothesis IA : InvA s.
Hypothesis IB : InvB w s.
Hypothesis Aq : alive s q.
Hypothesis Eq : queue (net s q RESP) = m :: rest.
Hypothesis Hal : pc_alive (r_pc l') = true.
Hypothesis Hn1 : pcr s q <> HandleBackup.
Hypothesis Hn2 : r_pc l' <> HandleBackup.

Lemma pr_rl : rl s' q = l'. Proof. unfold s'. simp_st. apply updf_same. Qed.
Lemma pr_rl_other : forall r, r <> q -> rl s' r = rl s r.
Proof. intros r H. unfold s'. simp_st. apply updf_other. exact H. Qed.
Lemma pr_pcr : pcr s' q = r_pc l'. Proof. unfold pcr. rewrite pr_rl. reflexivity. Qed.
Lemma pr_pa : forall r, pc_alive (pcr s' r) = pc_alive (pcr s r).
Proof.
  intros r. destruct (Nat.eq_dec r q) as [->|Hne].
  - rewrite pr_pcr, Hal. symmetry. apply Aq.
  - unfold pcr. rewrite pr_rl_other by exact Hne. reflexivity.
Qed.
Lemma pr_alive : forall r, alive s' r <-> alive s r.
Proof. intros r. unfold ProofsCrashA.alive. rewrite pr_pa. tauto. Qed.
Lemma pr_resp : queue (net s' q RESP) = rest.
Proof. unfold s'. simp_st. rewrite upd_net_same. reflexivity. Qed.
Lemma pr_queue : forall r c, (r <> q \/ c <> RESP) -> queue (net s' r c) = queue (net s r c).
Proof. intros r c H. unfold s'. simp_st. rewrite upd_net_other by exact H. reflexivity. Qed.
Lemma pr_pend : forall r, pend s' r = pend s r.
Proof.
  intros r. destruct (Nat.eq_dec r q) as [->|Hne].
  - rewrite !pend_not_hb; [|exact Hn1 | rewrite pr_pcr; exact Hn2]. rewrite pr_queue by (right; discriminate). reflexivity.
  - apply pend_ext; [unfold pcr; rewrite pr_rl_other by exact Hne; reflexivity | rewrite pr_rl_other by exact Hne; reflexivity | apply pr_queue; right; discriminate].
Qed.
Lemma pr_fs : forall r k, fsv s' r k = fsv s r k. Proof. reflexivity. Qed.
Lemma pr_owedP : owedP s' q <-> owedP s q.
Proof. unfold owedP. rewrite pr_queue by (right; discriminate). tauto. Qed.

(* token lists of a backup other than the sender of m are unchanged; those of the sender lose m *)
Lemma pr_filter_other : forall (f : node -> msg -> bool) b,
  (forall x y, f x y = true -> m_from y = x) -> b <> m_from m ->
  filter (f b) (queue (net s' q RESP)) = filter (f b) (queue (net s q RESP)).
Proof.
  intros f b Hf Hb. rewrite pr_resp, Eq. cbn [filter]. destruct (f b m) eqn:E; [|reflexivity].
  apply Hf in E. congruence.
Qed.
Lemma from_b_from : forall x y, from_b x y = true -> m_from y = x.
Proof. intros x y H. apply Nat.eqb_eq in H. exact H. Qed.
Lemma is_syncresp_from : forall x y, is_syncresp x y = true -> m_from y = x.
Proof. intros x y H. unfold is_syncresp in H. apply andb_true_iff in H. destruct H as [H _]. apply Nat.eqb_eq in H. exact H. Qed.
Lemma is_ack_from : forall x y, is_ack x y = true -> m_from y = x.
Proof. intros x y H. unfold is_ack in H. apply andb_true_iff in H. destruct H as [H _]. apply Nat.eqb_eq in H. exact H. Qed.

Lemma pr_sresps_other : forall b, b <> m_from m -> sresps s' q b = sresps s q b.
Proof. intros b H. unfold sresps. apply pr_filter_other; [exact is_syncresp_from | exact H]. Qed.
Lemma pr_acks_other : forall b, b <> m_from m -> acks s' q b = acks s q b.
Proof. intros b H. unfold acks. apply pr_filter_other; [exact is_ack_from | exact H]. Qed.
Lemma pr_sreqs : forall b, sreqs s' q b = sreqs s q b.
Proof. intros b. unfold sreqs. rewrite pr_pend. reflexivity. Qed.
Lemma pr_puts : forall b, puts s' q b = puts s q b.
Proof. intros b. unfold puts. rewrite pr_pend. reflexivity. Qed.
Lemma pr_toks_other : forall b, b <> m_from m -> toks s' q b = toks s q b.
Proof. intros b H. unfold toks. rewrite (pr_sresps_other b H), pr_sreqs. reflexivity. Qed.
Lemma pr_xs_other : forall b, b <> m_from m -> xs s' q b = xs s q b.
Proof.
  intros b H. unfold xs. rewrite pr_pend. f_equal. apply pr_filter_other; [exact from_b_from | exact H].
Qed.
Lemma pr_xs_sender : xs s q (m_from m) = m :: xs s' q (m_from m).
Proof.
  unfold xs. rewrite pr_pend, pr_resp, Eq. cbn [filter]. unfold from_b at 1. rewrite Nat.eqb_refl. reflexivity.
Qed.

End POPRESP.


Lemma sync_typed_not_putresp : forall t, sync_typed t -> m_typ t <> PUT_RESP.
Proof. intros t [H|H]; rewrite H; discriminate. Qed.

(* rcvReplicaRespLoop reads an acknowledgement *)
Lemma invB_rcvrepl_read : forall w s m rest,
  InvA s -> InvB w s -> alive s (ldr s) -> pcr s (ldr s) = RcvReplicaRespLoop ->
  queue (net s (ldr s) RESP) = m :: rest -> m_typ m = PUT_RESP ->
  InvB w (set_rl (set_net s (upd_net (net s) (ldr s) RESP (mkLink rest true))) (ldr s)
            (r_set_pc (r_set_rs (rl s (ldr s)) (remove_node (m_from m) (r_replicaSet (rl s (ldr s))))) RcvReplicaRespLoop)).
Proof.
  intros w s m rest IA IB Aq Epc Eq Ht.
  set (q := ldr s) in *.
  set (l' := r_set_pc (r_set_rs (rl s q) (remove_node (m_from m) (r_replicaSet (rl s q)))) RcvReplicaRespLoop).
  set (s' := set_rl (set_net s (upd_net (net s) q RESP (mkLink rest true))) q l').
  assert (Hn1 : pcr s q <> HandleBackup) by (rewrite Epc; discriminate).
  assert (Hn2 : r_pc l' <> HandleBackup) by discriminate.
  assert (Hal : pc_alive (r_pc l') = true) by reflexivity.
  pose proof IB as [V P Ph].
  assert (R : inrepl s q) by (right; exact Epc).
  destruct (ph_repl cfg w s Ph Aq R) as (R1 & R2 & R3 & R4).
  assert (LA : forall r, alive s' r <-> alive s r) by (apply pr_alive; auto).
  assert (Lrl : rl s' q = l') by (apply pr_rl).
  assert (Lpcr : pcr s' q = RcvReplicaRespLoop) by (unfold pcr; rewrite Lrl; reflexivity).
  assert (Lrlo : forall r, r <> q -> rl s' r = rl s r) by (apply pr_rl_other).
  assert (Lpend : forall r, pend s' r = pend s r) by (apply pr_pend; auto).
  assert (Lresp : queue (net s' q RESP) = rest) by (apply pr_resp).
  assert (Llpb : forall r, r_lastPutBody (rl s' r) = r_lastPutBody (rl s r)).
  { intros r. destruct (Nat.eq_dec r q) as [->|Hne]; [rewrite Lrl; reflexivity | rewrite Lrlo by exact Hne; reflexivity]. }
  assert (LK : forall r, K s' r = K s r) by (intros r; unfold K; rewrite Llpb; reflexivity).
  assert (Lnew : forall r, isnew w s' r <-> isnew w s r) by (apply fr_isnew; [exact Llpb | reflexivity]).
  assert (Lold : forall r, isold w s' r <-> isold w s r) by (apply fr_isold; [exact Llpb | reflexivity]).
  assert (Lknows : forall r, knows w s' r <-> knows w s r) by (intros r; unfold knows; rewrite LK, Lpend; tauto).
  assert (Hsub : forall m0, In m0 rest -> In m0 (queue (net s q RESP))) by (intros m0 H; rewrite Eq; right; exact H).
  constructor; [constructor; try apply V | constructor | constructor]; replace (ldr s') with q by reflexivity.
  - intros r A. apply LA in A. rewrite Lnew, Lold. apply (v_rep cfg w s V r A).
  - intros r m0 A Hm. apply LA in A. rewrite Lpend in Hm. apply (v_pend cfg w s V r m0 A Hm).
  - rewrite Lresp. intros m0 A Hm Ht0. destruct (v_resp cfg w s V m0 Aq (Hsub m0 Hm) Ht0) as [B1 B2].
    split; [exact B1|]. intros A2. apply LA in A2. rewrite LK. apply B2. exact A2.
  - intros r1 r2 A1 A2 Hlt Hk. apply LA in A1. apply LA in A2. apply Lknows. apply Lknows in Hk.
    apply (p_order cfg w s P r1 r2 A1 A2 Hlt Hk).
  - rewrite Lresp. intros m0 A Hm Ht0 Hv. apply Lknows. apply (p_resp cfg w s P m0 Aq (Hsub m0 Hm) Ht0 Hv).
  - rewrite Lpcr. intros _ [H|H]; discriminate H.
  - intros _ H. exfalso. apply H. right. exact Lpcr.
  - intros _ H. exfalso. apply H. right. exact Lpcr.
  - intros _ HK. rewrite LK in HK. rewrite (isnew_K w s q R1) in HK. lia.
  - intros _ H. exfalso. apply H. right. exact Lpcr.
  - intros _ _. split; [apply Lnew; exact R1|]. split; [|split].
    + intros b m0 Ab Hb Hm. apply LA in Ab. rewrite Lpend in Hm. apply (R2 b m0 Ab Hb Hm).
    + rewrite Lresp. intros m0 Hm. apply R3. apply Hsub. exact Hm.
    + intros b Ab Hb. apply LA in Ab. destruct (R4 b Ab Hb) as (Sy & Pu & E & HSy & Hst). fold q in E, Hst.
      assert (Hrs : rsent s' q b <-> rsent s q b).
      { unfold rsent. rewrite Lpcr, Epc. split; intros _; left; reflexivity. }
      destruct (Nat.eq_dec b (m_from m)) as [Eb|Hne].
      * (* the sender of the acknowledgement: acknowledged -> done *)
        subst b.
        assert (EX : xs s q (m_from m) = m :: xs s' q (m_from m)) by (apply pr_xs_sender; auto).
        rewrite E in EX.
        assert (HSy0 : Sy = []).
        { destruct Sy as [|t Sy']; [reflexivity|]. exfalso. cbn in EX. injection EX as Et _.
          inversion HSy as [|? ? Ht1 _]. rewrite Et in Ht1. exact (sync_typed_not_putresp m Ht1 Ht). }
        rewrite HSy0 in *. cbn [app] in EX.
        exists [], []. split; [|split; [constructor|]].
        { destruct Hst as [(_ & _ & _ & S4)|[(_ & _ & _ & m1 & S4 & _)|[(_ & _ & _ & m1 & S4 & _)|(_ & _ & _ & _ & S4)]]];
            rewrite S4 in EX; try discriminate EX; inversion EX; reflexivity. }
        right. right. right. rewrite Hrs, Lnew, Lrl. unfold l'. simp_st. rewrite in_remove_node.
        destruct Hst as [(_ & _ & _ & S4)|[(_ & _ & _ & m1 & S4 & S5 & _)|[(S1 & S2 & _)|(S1 & S2 & _)]]].
        -- rewrite S4 in EX. discriminate EX.
        -- rewrite S4 in EX. inversion EX; subst m1. rewrite Ht in S5. discriminate S5.
        -- split; [exact S1|]. split; [exact S2|]. split; [tauto | auto].
        -- split; [exact S1|]. split; [exact S2|]. split; [tauto | auto].
      * exists Sy, Pu. assert (EX : xs s' q b = xs s q b) by (eapply pr_xs_other; eauto). rewrite EX.
        split; [exact E|]. split; [exact HSy|].
        rewrite Hrs, Lnew, Lold, Lrl. unfold l'. simp_st.
        assert (HinS : In b (remove_node (m_from m) (r_replicaSet (rl s q))) <-> In b (r_replicaSet (rl s q))).
        { rewrite in_remove_node. tauto. }
        rewrite HinS. exact Hst.
Qed.


Lemma filter_nil_impl : forall A (f g : A -> bool) l,
  (forall x, f x = true -> g x = true) -> filter g l = [] -> filter f l = [].
Proof.
  intros A f g l H. induction l as [|a l IH]; cbn; [reflexivity|].
  destruct (g a) eqn:Eg; [discriminate|]. intros Hl. destruct (f a) eqn:Ef; [apply H in Ef; congruence | apply IH; exact Hl].
Qed.

Lemma xs_nil_all : forall s q b, xs s q b = [] ->
  sresps s q b = [] /\ sreqs s q b = [] /\ acks s q b = [] /\ puts s q b = [].
Proof.
  intros s q b H. unfold xs in H. apply app_eq_nil in H. destruct H as [H1 H2].
  unfold sresps, sreqs, acks, puts. repeat split.
  - eapply filter_nil_impl; [|exact H1]. intros x Hx. unfold is_syncresp in Hx. apply andb_true_iff in Hx. apply Hx.
  - eapply filter_nil_impl; [|exact H2]. intros x Hx. unfold is_syncreq in Hx. apply andb_true_iff in Hx. apply Hx.
  - eapply filter_nil_impl; [|exact H1]. intros x Hx. unfold is_ack in Hx. apply andb_true_iff in Hx. apply Hx.
  - eapply filter_nil_impl; [|exact H2]. intros x Hx. unfold is_put in Hx. apply andb_true_iff in Hx. apply Hx.
Qed.

(* rcvReplicaRespLoop with an empty replicaSet: every live backup has acknowledged *)
Lemma invB_rcvrepl_exit : forall w s, InvA s -> InvB w s -> alive s (ldr s) ->
  pcr s (ldr s) = RcvReplicaRespLoop -> r_replicaSet (rl s (ldr s)) = [] ->
  InvB w (set_rl s (ldr s) (r_set_pc (rl s (ldr s)) SndResp)).
Proof.
  intros w s IA IB Aq Epc HS.
  set (q := ldr s) in *. set (l' := r_set_pc (rl s q) SndResp).
  assert (Hn1 : pcr s q <> HandleBackup) by (rewrite Epc; discriminate).
  assert (Hn2 : r_pc l' <> HandleBackup) by discriminate.
  pose proof IB as [V P Ph].
  assert (R : inrepl s q) by (right; exact Epc).
  destruct (ph_repl cfg w s Ph Aq R) as (R1 & R2 & R3 & R4).
  assert (D : forall b, alive s b -> b <> q -> isnew w s b /\ xs s q b = []).
  { intros b Ab Hb. destruct (R4 b Ab Hb) as (Sy & Pu & E & HSy & Hst). fold q in E, Hst. rewrite HS in Hst.
    destruct Hst as [(_ & _ & [] & _)|[(_ & _ & [] & _)|[(_ & _ & [] & _)|(_ & S2 & _ & S4 & S5)]]].
    split; [exact S2|]. rewrite E, S4, S5. reflexivity. }
  assert (LA : forall r, alive (set_rl s q l') r <-> alive s r) by (apply ll_alive; auto).
  assert (LK : forall r, K (set_rl s q l') r = K s r) by (apply ll_K; auto).
  assert (LT : forall b, alive s b -> toks (set_rl s q l') q b = toks s q b) by (apply ll_toks; auto).
  assert (LP : forall b, alive s b -> puts (set_rl s q l') q b = puts s q b) by (apply ll_puts; auto).
  assert (Hrl : rl (set_rl s q l') q = l') by (apply ll_rl).
  apply (ll_build cfg w s l' IB Aq eq_refl eq_refl Hn1 Hn2).
  { intros [H|H]; discriminate H. }
  constructor; rewrite (ll_ldr cfg); fold q.
  - intros A _ b Ab Hb HK. apply LA in Ab. rewrite !LK in HK. destruct (D b Ab Hb) as [D1 _].
    rewrite (isnew_K w s b D1), (isnew_K w s q R1) in HK. lia.
  - intros A _ b Ab Hb. apply LA in Ab. rewrite (LT b Ab). destruct (D b Ab Hb) as [_ D2].
    destruct (xs_nil_all s q b D2) as (X1 & X2 & _). unfold toks. rewrite X1, X2. exact Logic.I.
  - intros A HK. rewrite LK, (isnew_K w s q R1) in HK. lia.
  - intros A _ b Ab Hb. apply LA in Ab. rewrite (LP b Ab). destruct (D b Ab Hb) as [_ D2].
    destruct (xs_nil_all s q b D2) as (_ & _ & X3 & X4). split; assumption.
  - intros _ [H|H]; unfold pcr in H; rewrite Hrl in H; discriminate H.
Qed.

(* the whole label *)
Lemma invB_rcvReplicaRespLoop : forall w s p ch s', InvA s -> InvB w s -> alive s p ->
  pcr s p = RcvReplicaRespLoop -> step_rcvReplicaRespLoop cfg ch s p = Ok s' -> InvB w s'.
Proof.
  intros w s p ch s' IA IB Ap Epc Hs.
  assert (Hq : p = ldr s).
  { apply (nonbackup_is_ldr cfg s p IA Ap). rewrite Epc. cbn. tauto. }
  subst p. unfold step_rcvReplicaRespLoop in Hs.
  destruct (r_replicaSet (rl s (ldr s))) as [|x0 S0] eqn:ES.
  { inversion Hs; subst s'. apply invB_rcvrepl_exit; auto. }
  rewrite <- ES in Hs.
  destruct (ch_alt ch); cbn [negb] in Hs.
  { dif Hs; [discriminate|]. dif Hs; [|discriminate]. apply (invB_may_fail cfg w _ ch s' _ _ _ Hs).
    apply andb_true_iff in E0. destruct E0 as [Efd _].
    rewrite <- Epc. apply invB_rs_shrink; auto.
    intros b Ab. rewrite in_remove_node. split; [tauto|]. intros H. split; [exact H|].
    intros ->. apply (fd_not_alive cfg s _ IA Efd). exact Ab. }
  unfold link_recv in Hs. dif Hs; [discriminate|].
  destruct (queue (net s (ldr s) RESP)) as [|m rest] eqn:Eq; [discriminate|].
  destruct (r_req (rl s (ldr s))) as [req|]; cbn [bindT] in Hs; [|discriminate].
  dif Hs; [discriminate|].
  assert (Hen : enabled (net s (ldr s) RESP) = true) by (apply negb_false_iff in E; exact E).
  rewrite Hen in Hs. apply (invB_may_fail cfg w _ ch s' _ _ _ Hs).
  apply negb_false_iff in E0. repeat (apply andb_true_iff in E0; destruct E0 as [E0 ?]).
  apply invB_rcvrepl_read; auto.
  destruct (m_typ m); cbn in *; try discriminate; reflexivity.
Qed.


(* ------------------------------------------------------------------ rcvSyncRespLoop reads an answer that is not newer *)
Lemma invB_rcvsync_remove : forall w s m rest,
  InvA s -> InvB w s -> alive s (ldr s) -> pcr s (ldr s) = RcvSyncRespLoop ->
  queue (net s (ldr s) RESP) = m :: rest -> m_typ m = SYNC_RESP -> Kv (m_body m) <= K s (ldr s) ->
  InvB w (set_rl (set_net s (upd_net (net s) (ldr s) RESP (mkLink rest true))) (ldr s)
            (r_set_pc (r_set_rs (rl s (ldr s)) (remove_node (m_from m) (r_replicaSet (rl s (ldr s))))) RcvSyncRespLoop)).
Proof.
  intros w s m rest IA IB Aq Epc Eq Ht Hver.
  set (q := ldr s) in *.
  set (l' := r_set_pc (r_set_rs (rl s q) (remove_node (m_from m) (r_replicaSet (rl s q)))) RcvSyncRespLoop).
  set (s' := set_rl (set_net s (upd_net (net s) q RESP (mkLink rest true))) q l').
  assert (Hn1 : pcr s q <> HandleBackup) by (rewrite Epc; discriminate).
  assert (Hn2 : r_pc l' <> HandleBackup) by discriminate.
  assert (Hal : pc_alive (r_pc l') = true) by reflexivity.
  pose proof IB as [V P Ph].
  assert (N2 : ~ inrepl s q) by (unfold inrepl; rewrite Epc; intuition discriminate).
  assert (LA : forall r, alive s' r <-> alive s r) by (apply pr_alive; auto).
  assert (Lrl : rl s' q = l') by (apply pr_rl).
  assert (Lpcr : pcr s' q = RcvSyncRespLoop) by (unfold pcr; rewrite Lrl; reflexivity).
  assert (Lrlo : forall r, r <> q -> rl s' r = rl s r) by (apply pr_rl_other).
  assert (Lpend : forall r, pend s' r = pend s r) by (apply pr_pend; auto).
  assert (Lresp : queue (net s' q RESP) = rest) by (apply pr_resp).
  assert (Llpb : forall r, r_lastPutBody (rl s' r) = r_lastPutBody (rl s r)).
  { intros r. destruct (Nat.eq_dec r q) as [->|Hne]; [rewrite Lrl; reflexivity | rewrite Lrlo by exact Hne; reflexivity]. }
  assert (LK : forall r, K s' r = K s r) by (intros r; unfold K; rewrite Llpb; reflexivity).
  assert (Lnew : forall r, isnew w s' r <-> isnew w s r) by (apply fr_isnew; [exact Llpb | reflexivity]).
  assert (Lold : forall r, isold w s' r <-> isold w s r) by (apply fr_isold; [exact Llpb | reflexivity]).
  assert (Lknows : forall r, knows w s' r <-> knows w s r) by (intros r; unfold knows; rewrite LK, Lpend; tauto).
  assert (Hsub : forall m0, In m0 rest -> In m0 (queue (net s q RESP))) by (intros m0 H; rewrite Eq; right; exact H).
  assert (LowP : owedP s' q <-> owedP s q) by (apply pr_owedP).
  assert (Low : owed s q -> owed s' q).
  { unfold owed. rewrite LowP, Lpcr, Lrl. unfold l'. simp_st. intros [H|[H|H]]; auto. }
  assert (Lins : insync s' q) by (right; exact Lpcr).
  assert (LS : forall b, b <> m_from m -> (In b (r_replicaSet (rl s' q)) <-> In b (r_replicaSet (rl s q)))).
  { intros b Hb. rewrite Lrl. unfold l'. simp_st. rewrite in_remove_node. tauto. }
  assert (LSr : forall b, b <> m_from m -> sresps s' q b = sresps s q b) by (intros; eapply pr_sresps_other; eauto).
  assert (LSq : forall b, sreqs s' q b = sreqs s q b) by (intros; eapply pr_sreqs; eauto).
  assert (LTo : forall b, b <> m_from m -> toks s' q b = toks s q b) by (intros; eapply pr_toks_other; eauto).
  assert (LPu : forall b, puts s' q b = puts s q b) by (intros; eapply pr_puts; eauto).
  (* tokens of the sender *)
  assert (Hsender : sresps s q (m_from m) = m :: sresps s' q (m_from m)).
  { unfold sresps. rewrite Lresp, Eq. cbn [filter]. unfold is_syncresp at 1. rewrite Nat.eqb_refl, Ht. reflexivity. }
  assert (Hacks : forall b, acks s' q b = acks s q b).
  { intros b. unfold acks. rewrite Lresp, Eq. cbn [filter]. unfold is_ack at 2. rewrite Ht, andb_false_r. reflexivity. }
  constructor; [constructor; try apply V | constructor | constructor]; replace (ldr s') with q by reflexivity.
  - intros r A. apply LA in A. rewrite Lnew, Lold. apply (v_rep cfg w s V r A).
  - intros r m0 A Hm. apply LA in A. rewrite Lpend in Hm. apply (v_pend cfg w s V r m0 A Hm).
  - rewrite Lresp. intros m0 A Hm Ht0. destruct (v_resp cfg w s V m0 Aq (Hsub m0 Hm) Ht0) as [B1 B2].
    split; [exact B1|]. intros A2. apply LA in A2. rewrite LK. apply B2. exact A2.
  - intros r1 r2 A1 A2 Hlt Hk. apply LA in A1. apply LA in A2. apply Lknows. apply Lknows in Hk.
    apply (p_order cfg w s P r1 r2 A1 A2 Hlt Hk).
  - rewrite Lresp. intros m0 A Hm Ht0 Hv. apply Lknows. apply (p_resp cfg w s P m0 Aq (Hsub m0 Hm) Ht0 Hv).
  - rewrite Lpcr. intros _ [H|H]; discriminate H.
  - (* main *)
    intros _ _ b Ab Hb HK. apply LA in Ab. rewrite !LK in HK.
    destruct (ph_main cfg w s Ph Aq N2 b Ab Hb HK) as [H|(H1 & H2 & H3 & H4)]; [left; apply Low; exact H|]. fold q in H2, H3, H4.
    destruct (Nat.eq_dec b (m_from m)) as [->|Hne]; [rewrite Hsender in H3; discriminate|].
    right. split; [exact Lins|]. split; [apply (LS b Hne); exact H2|].
    split; [rewrite (LSr b Hne); exact H3|].
    rewrite LSq, LK, Lpcr.
    destruct H4 as [H4|[H4 _]]; [left; exact H4 | rewrite Epc in H4; discriminate].
  - (* tok *)
    intros _ _ b Ab Hb. apply LA in Ab. rewrite LK.
    pose proof (ph_tok cfg w s Ph Aq N2 b Ab Hb) as H. fold q in H.
    destruct (Nat.eq_dec b (m_from m)) as [->|Hne].
    + unfold toks in *. rewrite Hsender in H. cbn [app] in H. destruct H as [H1 _].
      rewrite LSq.
      destruct (sresps s' q (m_from m) ++ sreqs s q (m_from m)) as [|t' rest']; [exact Logic.I|].
      inversion H1 as [|? ? Hh1 Htl1]. split; [exact Htl1|]. intros Hlt. lia.
    + rewrite (LTo b Hne).
      destruct (toks s q b) as [|t rest0]; [exact Logic.I|]. destruct H as [H1 H2]. split; [exact H1|].
      intros Hlt. destruct (H2 Hlt) as (X1 & X2 & X3). split; [exact Lins|]. split; [apply (LS b Hne); exact X2 | apply LowP; exact X3].
  - (* count *)
    intros _ HK b Ab Hb. apply LA in Ab. rewrite LK in HK.
    destruct (ph_count cfg w s Ph Aq HK b Ab Hb) as [C1 C2]. fold q in C1, C2.
    destruct (Nat.eq_dec b (m_from m)) as [->|Hne].
    + unfold toks in *. rewrite Hsender in C1. cbn [app List.length] in C1.
      rewrite LSq.
      destruct (sresps s' q (m_from m) ++ sreqs s q (m_from m)) as [|t' rest']; [split; [cbn; lia | intros H; congruence]|].
      cbn in C1. lia.
    + rewrite (LTo b Hne). split; [exact C1|]. intros Hn.
      destruct (C2 Hn) as (X1 & X2 & X3). split; [exact Lins|]. split; [apply (LS b Hne); exact X2|]. left. exact Lpcr.
  - (* noack *)
    intros _ _ b Ab Hb. apply LA in Ab. rewrite Hacks, LPu. apply (ph_noack cfg w s Ph Aq N2 b Ab Hb).
  - intros _ [H|H]; rewrite Lpcr in H; discriminate H.
Qed.


(* ------------------------------------------------------------------ rcvSyncRespLoop reads a newer version: adopt it, restart the sync *)
Lemma invB_rcvsync_restart : forall w s m rest k v,
  InvA s -> InvB w s -> alive s (ldr s) -> pcr s (ldr s) = RcvSyncRespLoop ->
  queue (net s (ldr s) RESP) = m :: rest -> m_typ m = SYNC_RESP -> K s (ldr s) < Kv (m_body m) ->
  body_key (m_body m) = Some k -> body_value (m_body m) = Some v ->
  InvB w (set_rl (set_fs (set_net s (upd_net (net s) (ldr s) RESP (mkLink rest true)))
                         (upd_fs (fsv s) (ldr s) k v)) (ldr s)
            (r_set_pc (r_set_idx (r_set_rs (r_set_lpb (rl s (ldr s)) (m_body m)) (others cfg (ldr s))) 1) SndSyncReqLoop)).
Proof.
  intros w s m rest k v IA IB Aq Epc Eq Ht Hver Hk Hv.
  set (q := ldr s) in *.
  set (l' := r_set_pc (r_set_idx (r_set_rs (r_set_lpb (rl s q) (m_body m)) (others cfg q)) 1) SndSyncReqLoop).
  set (s0 := set_rl (set_net s (upd_net (net s) q RESP (mkLink rest true))) q l').
  set (s' := set_rl (set_fs (set_net s (upd_net (net s) q RESP (mkLink rest true))) (upd_fs (fsv s) q k v)) q l').
  assert (Hn1 : pcr s q <> HandleBackup) by (rewrite Epc; discriminate).
  assert (Hn2 : r_pc l' <> HandleBackup) by discriminate.
  assert (Hal : pc_alive (r_pc l') = true) by reflexivity.
  pose proof IB as [V P Ph].
  assert (N2 : ~ inrepl s q) by (unfold inrepl; rewrite Epc; intuition discriminate).
  assert (Hmin : In m (queue (net s q RESP))) by (rewrite Eq; left; reflexivity).
  (* the version read is the latest one, the leader was one behind *)
  destruct (v_resp cfg w s V m Aq Hmin Ht) as [(ver & c & Hb & Hle & HcM & _) _].
  destruct (K_le_Mx cfg w s q V Aq) as [Kq1 Kq2]. rewrite Hb in Hver. cbn [Kv] in Hver.
  assert (Ever : ver = Mx w) by lia. subst ver. specialize (HcM eq_refl). subst c.
  assert (HcMkv : cM w = Some (k, v)).
  { rewrite Hb in Hk, Hv. cbn in Hk, Hv. destruct (cM w) as [[k0 v0]|]; [|discriminate]. congruence. }
  assert (Hqold : isold w s q) by (apply (K_lt_isold cfg w s q V Aq); lia).
  destruct Hqold as (HMx1 & Hqlpb & Hqfs).
  assert (LA : forall r, alive s' r <-> alive s r) by (apply (pr_alive s rest l' Aq Hal)).
  assert (Lrl : rl s' q = l') by (apply (pr_rl s rest l')).
  assert (Lpcr : pcr s' q = SndSyncReqLoop) by (unfold pcr; rewrite Lrl; reflexivity).
  assert (Lrlo : forall r, r <> q -> rl s' r = rl s r) by (apply (pr_rl_other s rest l')).
  assert (Lpend : forall r, pend s' r = pend s r) by (apply (pr_pend s rest l' Hn1 Hn2)).
  assert (Lresp : queue (net s' q RESP) = rest) by (apply (pr_resp s rest l')).
  assert (LKo : forall r, r <> q -> K s' r = K s r) by (intros r Hr; unfold K; rewrite Lrlo by exact Hr; reflexivity).
  assert (LKq : K s' q = Mx w) by (unfold K; rewrite Lrl; unfold l'; simp_st; rewrite Hb; reflexivity).
  assert (Lfso : forall r k0, r <> q -> fsv s' r k0 = fsv s r k0).
  { intros r k0 Hr. unfold s'. simp_st. apply upd_fs_other_node. exact Hr. }
  assert (Lnewq : isnew w s' q).
  { split; [rewrite Lrl; unfold l'; simp_st; exact Hb|]. intros k0. unfold s'. simp_st.
    rewrite upd_fs_node. unfold Fnew. rewrite HcMkv. cbn. rewrite Hqfs. reflexivity. }
  assert (Lnewo : forall r, r <> q -> (isnew w s' r <-> isnew w s r)).
  { intros r Hr. unfold isnew. rewrite (Lrlo r Hr). split; intros [X Y]; split; auto; intros k0; [rewrite <- (Lfso r k0 Hr) | rewrite (Lfso r k0 Hr)]; apply Y. }
  assert (Loldo : forall r, r <> q -> (isold w s' r <-> isold w s r)).
  { intros r Hr. unfold isold. rewrite (Lrlo r Hr). split; intros (X & Y & Z); repeat split; auto; intros k0; [rewrite <- (Lfso r k0 Hr) | rewrite (Lfso r k0 Hr)]; apply Z. }
  assert (Lknowso : forall r, r <> q -> (knows w s' r <-> knows w s r)).
  { intros r Hr. unfold knows. rewrite (LKo r Hr), Lpend. tauto. }
  assert (Lknowsq : knows w s' q) by (left; exact LKq).
  assert (Hsub : forall m0, In m0 rest -> In m0 (queue (net s q RESP))) by (intros m0 H; rewrite Eq; right; exact H).
  assert (LowP : owedP s' q <-> owedP s q) by (apply (pr_owedP s rest l')).
  (* the leader still has the request carrying the latest version in its queue *)
  assert (HowP : owedP s q).
  { destruct (p_resp cfg w s P m Aq Hmin Ht) as [HK|(m1 & Hm1 & _)]; [rewrite Hb; reflexivity | fold q in HK; lia |]. fold q in Hm1.
    rewrite pend_not_hb in Hm1 by exact Hn1. unfold owedP. intros E. rewrite E in Hm1. destruct Hm1. }
  assert (Lins : insync s' q) by (left; exact Lpcr).
  assert (LSall : forall b, alive s b -> b <> q -> In b (r_replicaSet (rl s' q))).
  { intros b Ab Hb0. rewrite Lrl. unfold l'. simp_st. apply in_others. split; [apply Ab | exact Hb0]. }
  assert (LSr : forall b, b <> m_from m -> sresps s' q b = sresps s q b) by (intros; eapply (pr_sresps_other s m rest l'); eauto).
  assert (LSq : forall b, sreqs s' q b = sreqs s q b) by (intros; eapply (pr_sreqs s rest l'); eauto).
  assert (LTo : forall b, b <> m_from m -> toks s' q b = toks s q b) by (intros; eapply (pr_toks_other s m rest l'); eauto).
  assert (LPu : forall b, puts s' q b = puts s q b) by (intros; eapply (pr_puts s rest l'); eauto).
  assert (Hsender : sresps s q (m_from m) = m :: sresps s' q (m_from m)).
  { unfold sresps. rewrite Lresp, Eq. cbn [filter]. unfold is_syncresp at 1. rewrite Nat.eqb_refl, Ht. reflexivity. }
  assert (Hacks : forall b, acks s' q b = acks s q b).
  { intros b. unfold acks. rewrite Lresp, Eq. cbn [filter]. unfold is_ack at 2. rewrite Ht, andb_false_r. reflexivity. }
  assert (HKlt : K s q < Mx w) by lia.
  constructor; [constructor; try apply V | constructor | constructor]; replace (ldr s') with q by reflexivity.
  - intros r A. apply LA in A. destruct (Nat.eq_dec r q) as [->|Hne]; [left; exact Lnewq|].
    rewrite (Lnewo r Hne), (Loldo r Hne). apply (v_rep cfg w s V r A).
  - intros r m0 A Hm. apply LA in A. rewrite Lpend in Hm. apply (v_pend cfg w s V r m0 A Hm).
  - rewrite Lresp. intros m0 A Hm Ht0. destruct (v_resp cfg w s V m0 Aq (Hsub m0 Hm) Ht0) as [B1 B2].
    split; [exact B1|]. intros A2. apply LA in A2.
    destruct (Nat.eq_dec (m_from m0) q) as [E|Hne]; [rewrite E, LKq; apply (body_ok_Kv w); exact B1 | rewrite (LKo _ Hne); apply B2; exact A2].
  - intros r1 r2 A1 A2 Hlt Hk0. apply LA in A1. apply LA in A2.
    destruct (Nat.eq_dec r1 q) as [->|Hne1]; [exact Lknowsq|].
    destruct (alive_ge_ldr cfg s r1 IA A1) as [_ Hge]. fold q in Hge.
    assert (Hne2 : r2 <> q) by lia.
    apply (Lknowso r1 Hne1). apply (Lknowso r2 Hne2) in Hk0. apply (p_order cfg w s P r1 r2 A1 A2 Hlt Hk0).
  - intros m0 _ _ _ _. exact Lknowsq.
  - rewrite Lrl. unfold l'. simp_st. intros _ _ _ r _ Hr. lia.
  - (* main: every backup that is behind is covered by the request still pending at the leader *)
    intros _ _ b Ab Hb0 _. left. left. apply LowP. exact HowP.
  - (* tok *)
    intros _ _ b Ab Hb0. apply LA in Ab.
    destruct (ph_count cfg w s Ph Aq HKlt b Ab Hb0) as [C1 C2]. fold q in C1, C2.
    destruct (Nat.eq_dec b (m_from m)) as [->|Hne].
    + unfold toks in *. rewrite Hsender in C1. cbn [app List.length] in C1. rewrite LSq.
      destruct (sresps s' q (m_from m) ++ sreqs s q (m_from m)) as [|t' rest']; [exact Logic.I | cbn in C1; lia].
    + rewrite (LTo b Hne). destruct (toks s q b) as [|t rest0]; [exact Logic.I|].
      destruct rest0 as [|t2 rest2]; [|cbn in C1; lia].
      split; [constructor|]. intros _. split; [exact Lins|]. split; [apply LSall; assumption | apply LowP; exact HowP].
  - intros _ HK. rewrite LKq in HK. lia.
  - intros _ _ b Ab Hb0. apply LA in Ab. rewrite Hacks, LPu. apply (ph_noack cfg w s Ph Aq N2 b Ab Hb0).
  - intros _ [H|H]; rewrite Lpcr in H; discriminate H.
Qed.


Lemma invB_rcvSyncRespLoop : forall w s p ch s', InvA s -> InvB w s -> alive s p ->
  pcr s p = RcvSyncRespLoop -> step_rcvSyncRespLoop cfg ch s p = Ok s' -> InvB w s'.
Proof.
  intros w s p ch s' IA IB Ap Epc Hs.
  assert (Hq : p = ldr s).
  { apply (nonbackup_is_ldr cfg s p IA Ap). rewrite Epc. cbn. tauto. }
  subst p. unfold step_rcvSyncRespLoop in Hs.
  destruct (r_replicaSet (rl s (ldr s))) as [|x0 S0] eqn:ES.
  { inversion Hs; subst s'. apply invB_rcvsync_exit; auto. }
  rewrite <- ES in Hs.
  destruct (ch_alt ch); cbn [negb] in Hs.
  { dif Hs; [discriminate|]. dif Hs; [|discriminate]. inversion Hs; subst s'; clear Hs.
    apply andb_true_iff in E0. destruct E0 as [Efd _].
    rewrite <- Epc. apply invB_rs_shrink; auto.
    intros b Ab. rewrite in_remove_node. split; [tauto|]. intros H. split; [exact H|].
    intros ->. apply (fd_not_alive cfg s _ IA Efd). exact Ab. }
  unfold link_recv in Hs. dif Hs; [discriminate|].
  destruct (queue (net s (ldr s) RESP)) as [|m rest] eqn:Eq; [discriminate|].
  dif Hs; [discriminate|].
  assert (Hen : enabled (net s (ldr s) RESP) = true) by (apply negb_false_iff in E; exact E).
  rewrite Hen in Hs.
  apply negb_false_iff in E0. repeat (apply andb_true_iff in E0; destruct E0 as [E0 ?]).
  assert (Ht : m_typ m = SYNC_RESP) by (destruct (m_typ m); cbn in *; try discriminate; reflexivity).
  destruct (body_ver (m_body m)) as [rv|] eqn:Erv; cbn [bindT] in Hs; [|discriminate].
  destruct (body_ver (r_lastPutBody (rl s (ldr s)))) as [lv|] eqn:Elv; cbn [bindT] in Hs; [|discriminate].
  assert (HKm : Kv (m_body m) = rv) by (destruct (m_body m); cbn in *; try discriminate; congruence).
  assert (HKq : K s (ldr s) = lv) by (unfold K; destruct (r_lastPutBody (rl s (ldr s))); cbn in *; try discriminate; congruence).
  destruct (lv <? rv) eqn:Elt.
  - apply Nat.ltb_lt in Elt.
    destruct (body_key (m_body m)) as [k|] eqn:Ek; cbn [bindT] in Hs; [|discriminate].
    destruct (body_value (m_body m)) as [v|] eqn:Ev; cbn [bindT] in Hs; [|discriminate].
    inversion Hs; subst s'; clear Hs. apply invB_rcvsync_restart; auto. lia.
  - apply Nat.ltb_ge in Elt. inversion Hs; subst s'; clear Hs. apply invB_rcvsync_remove; auto. lia.
Qed.

End CRC.
