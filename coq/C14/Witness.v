(* C14 — concrete witness schedules (definitions only).  Both are replayed on the real generated
   Go code by the check (corpus/C14/*.json): the schedules below are the event lists of those cases,
   with the CHOOSE elements the Go code took. *)
From Coq Require Import List String.
From PGV Require Import C14.Model.
Import ListNotations.
Open Scope string_scope.

Definition put (k v : string) : cmsg := mkCmsg PUT_REQ (BReq k (Some v)).
Definition get (k : string) : cmsg := mkCmsg GET_REQ (BReq k None).

(* 4 replicas, 1 client: the primary crashes while replicating the second Put; replica 2 starts its
   failover sync before it has handled the dead primary's PUT_REQ, restarts the sync when replica 3
   reports the newer version, accepts replica 4's answer to the FIRST round as its answer to the
   second, and then meets replica 4's second answer: the assertion
   (repResp.from \in replicaSet \/ fd[repResp.from]) of rcvSyncRespLoop fails. *)
Definition assert_wit_cfg : config := mkCfg 4 1 true.
Definition assert_wit_input : list cmsg := [put "KEY1" "v1"; put "KEY1" "v2"; get "KEY1"].
Definition assert_wit_evs : list event :=
  [Ev 1 (mkCh false false 0); Ev 1 (mkCh false false 0); Ev 2 (mkCh false false 0); Ev 2 (mkCh false false 0);
   Ev 3 (mkCh false false 0); Ev 3 (mkCh false false 0); Ev 4 (mkCh false false 0); Ev 4 (mkCh false false 0);
   Ev 5 (mkCh false false 0); Ev 5 (mkCh false false 0); Ev 1 (mkCh false false 0); Ev 1 (mkCh false false 0);
   Ev 1 (mkCh false false 0); Ev 1 (mkCh false false 0); Ev 1 (mkCh false false 0); Ev 1 (mkCh false false 0);
   Ev 1 (mkCh false false 0); Ev 2 (mkCh false false 0); Ev 2 (mkCh false false 0); Ev 3 (mkCh false false 0);
   Ev 3 (mkCh false false 0); Ev 4 (mkCh false false 0); Ev 4 (mkCh false false 0); Ev 1 (mkCh false false 0);
   Ev 1 (mkCh false false 0); Ev 1 (mkCh false false 0); Ev 1 (mkCh false false 0); Ev 1 (mkCh false false 0);
   Ev 1 (mkCh false false 0); Ev 1 (mkCh false false 0); Ev 5 (mkCh false false 0); Ev 5 (mkCh false false 0);
   Ev 5 (mkCh false false 0); Ev 1 (mkCh false false 0); Ev 1 (mkCh false false 0); Ev 1 (mkCh false false 0);
   Ev 1 (mkCh false false 0); Ev 1 (mkCh false true 0); Ev 1 (mkCh false false 0); Ev 3 (mkCh false false 0);
   Ev 3 (mkCh false false 0); Ev 3 (mkCh false false 0); Ev 3 (mkCh true false 0); Ev 2 (mkCh false false 0);
   Ev 2 (mkCh false false 0); Ev 2 (mkCh true false 0); Ev 2 (mkCh false false 0); Ev 2 (mkCh false false 0);
   Ev 2 (mkCh false false 0); Ev 2 (mkCh false false 0); Ev 3 (mkCh false false 0); Ev 3 (mkCh false false 0);
   Ev 3 (mkCh false false 0); Ev 3 (mkCh false false 0); Ev 4 (mkCh false false 0); Ev 4 (mkCh false false 0);
   Ev 4 (mkCh false false 0); Ev 4 (mkCh false false 0); Ev 2 (mkCh false false 0); Ev 2 (mkCh true false 0);
   Ev 2 (mkCh false false 0); Ev 2 (mkCh false false 0); Ev 2 (mkCh false false 0); Ev 2 (mkCh false false 0);
   Ev 2 (mkCh false false 0); Ev 3 (mkCh false false 0); Ev 3 (mkCh false false 0); Ev 3 (mkCh false false 0);
   Ev 3 (mkCh false false 0); Ev 4 (mkCh false false 0); Ev 4 (mkCh false false 0); Ev 4 (mkCh false false 0);
   Ev 4 (mkCh false false 0); Ev 2 (mkCh false false 0); Ev 2 (mkCh false false 0)].

(* 2 replicas, 2 clients A = 3, B = 4: A's Put(KEY1,v1) is replicated to replica 2 by primary 1, which
   crashes before answering; B reads v1, writes v2, reads v2 through the new primary; A re-sends its
   Put, the new primary applies it a second time; B reads v1. *)
Definition lin_wit_cfg : config := mkCfg 2 2 true.
Definition lin_wit_input : list cmsg := [put "KEY1" "v1"; get "KEY1"; put "KEY1" "v2"; get "KEY1"; get "KEY1"].
Definition lin_wit_evs : list event :=
  [Ev 1 (mkCh false false 0); Ev 1 (mkCh false false 0); Ev 2 (mkCh false false 0); Ev 2 (mkCh false false 0);
   Ev 3 (mkCh false false 0); Ev 3 (mkCh false false 0); Ev 1 (mkCh false false 0); Ev 1 (mkCh false false 0);
   Ev 1 (mkCh false false 0); Ev 1 (mkCh false true 0); Ev 1 (mkCh false false 0); Ev 2 (mkCh false false 0);
   Ev 2 (mkCh true false 0); Ev 2 (mkCh false false 0); Ev 2 (mkCh false false 0); Ev 2 (mkCh true false 0);
   Ev 2 (mkCh false false 0); Ev 2 (mkCh false false 0); Ev 2 (mkCh true false 1); Ev 2 (mkCh false false 0);
   Ev 4 (mkCh false false 0); Ev 4 (mkCh false false 0); Ev 2 (mkCh false false 0); Ev 2 (mkCh false false 0);
   Ev 2 (mkCh false false 0); Ev 2 (mkCh false false 0); Ev 2 (mkCh false false 0); Ev 4 (mkCh false false 0);
   Ev 4 (mkCh false false 0); Ev 4 (mkCh false false 0); Ev 2 (mkCh false false 0); Ev 2 (mkCh false false 0);
   Ev 2 (mkCh true false 0); Ev 2 (mkCh false false 0); Ev 2 (mkCh false false 0); Ev 2 (mkCh true false 1);
   Ev 2 (mkCh false false 0); Ev 2 (mkCh false false 0); Ev 2 (mkCh false false 0); Ev 2 (mkCh false false 0);
   Ev 4 (mkCh false false 0); Ev 4 (mkCh false false 0); Ev 4 (mkCh false false 0); Ev 2 (mkCh false false 0);
   Ev 2 (mkCh false false 0); Ev 2 (mkCh false false 0); Ev 2 (mkCh false false 0); Ev 2 (mkCh false false 0);
   Ev 4 (mkCh false false 0); Ev 3 (mkCh true false 0); Ev 3 (mkCh false false 0); Ev 2 (mkCh false false 0);
   Ev 2 (mkCh false false 0); Ev 2 (mkCh true false 0); Ev 2 (mkCh false false 0); Ev 2 (mkCh false false 0);
   Ev 2 (mkCh true false 1); Ev 2 (mkCh false false 0); Ev 2 (mkCh false false 0); Ev 2 (mkCh false false 0);
   Ev 2 (mkCh false false 0); Ev 3 (mkCh false false 0); Ev 4 (mkCh false false 0); Ev 4 (mkCh false false 0);
   Ev 2 (mkCh false false 0); Ev 2 (mkCh false false 0); Ev 2 (mkCh false false 0); Ev 2 (mkCh false false 0);
   Ev 2 (mkCh false false 0); Ev 4 (mkCh false false 0)].

(* failure-free run, 3 replicas, 1 client: Put(KEY1,v1) replicated to both backups, primary at sndResp *)
Definition nv_cfg : config := mkCfg 3 1 false.
Definition nv_input : list cmsg := [put "KEY1" "v1"; get "KEY1"].
Definition ch0 : choice := mkCh false false 0.
Definition nv_evs : list event :=
  map (fun p => Ev p ch0)
      [1; 1; 2; 2; 3; 3;        (* replicas reach rcvMsg *)
       4; 4;                    (* client: clientLoop, sndReq *)
       1; 1; 1; 1; 1; 1;        (* primary: rcvMsg, handlePrimary, sndReplicaReqLoop x4 *)
       2; 2; 3; 3;              (* backups: rcvMsg, handleBackup *)
       1; 1; 1].                (* primary: two acks, then replicaSet empty -> sndResp *)

(* a crash execution without client re-sends (corpus/C14/failover_family.json #2 run on the Go code, committed steps up to the
   first client time-out): Put(k2,p0) fully replicated; primary 1 crashes while replicating Put(KEY1,A) after sending it to
   replica 2 only... replica 2 applies it, takes over, synchronises replica 3 and serves three Gets of the other client *)
Definition nr_cfg : config := mkCfg 3 2 true.
Definition nr_input : list cmsg := [put "k2" "p0"; put "KEY1" "A"; get "KEY1"; get "KEY1"; get "k2"; get "KEY1"].
Definition e (p : nat) (a f : bool) (k : nat) : event := Ev p (mkCh a f k).
Definition nr_evs : list event :=
  [e 1 false false 0; e 1 false false 0; e 2 false false 0; e 2 false false 0; e 3 false false 0; e 3 false false 0;
   e 4 false false 0; e 4 false false 0; e 1 false false 0; e 1 false false 0; e 1 false false 0; e 1 false false 0;
   e 1 false false 0; e 1 false false 0; e 2 false false 0; e 2 false false 0; e 2 false false 0; e 2 false false 0;
   e 3 false false 0; e 3 false false 0; e 3 false false 0; e 3 false false 0; e 1 false false 0; e 1 false false 0;
   e 1 true false 0; e 1 false false 0; e 1 false false 0; e 1 false false 0; e 4 false false 0; e 4 false false 0;
   e 4 false false 0; e 1 false false 0; e 1 false false 0; e 1 false false 0; e 1 false false 0; e 2 false false 0;
   e 2 false false 0; e 2 false false 0; e 2 false false 0; e 1 false true 0; e 1 false false 0; e 5 false false 0;
   e 5 false false 0; e 2 false false 0; e 2 false false 0; e 2 true false 0; e 2 false false 0; e 2 false false 0;
   e 2 false false 0; e 2 true false 1; e 3 false false 0; e 3 true false 0; e 3 false false 0; e 3 false false 0;
   e 3 false false 0; e 3 false false 0; e 2 false false 0; e 2 false false 0; e 2 false false 0; e 2 false false 0;
   e 2 false false 0; e 2 false false 0; e 2 false false 0; e 5 false false 0; e 5 false false 0; e 3 false false 0;
   e 3 false false 0; e 5 false false 0; e 2 false false 0; e 2 false false 0; e 2 false false 0; e 5 false false 0;
   e 5 false false 0; e 5 false false 0; e 2 false false 0; e 2 false false 0; e 2 false false 0; e 2 false false 0;
   e 2 false false 0; e 5 false false 0; e 5 false false 0; e 5 false false 0].
