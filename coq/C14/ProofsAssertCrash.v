(* C14 — executions WITH crashes, any number of replicas: invariants behind assertion freedom.
   Each invariant is a closed theorem of its own; together they show that no step fails an assertion or a TLA+
   evaluation at any label other than the three "receive an answer" assertions (rcvSyncRespLoop, rcvReplicaRespLoop,
   the client's rcvResp), which need more (see notes/C14.md). *)
From Coq Require Import List Arith Bool String Lia.
From PGV Require Import C14.Model C14.Proofs C14.ProofsCrashA C14.ProofsCrashB C14.ProofsCrashC.
Import ListNotations.
Open Scope list_scope.
Open Scope nat_scope.

(* case analysis on everything a step function looks at *)
Ltac crush Hs :=
  repeat (match type of Hs with
          | context [match ?x with _ => _ end] =>
              match type of x with
              | _ => let E := fresh "E" in destruct x eqn:E
              end
          end; try discriminate Hs).

Ltac sends :=
  repeat match goal with
         | E : (if ?c then Some _ else None) = Some _ |- _ =>
             let E' := fresh "En" in destruct c eqn:E'; [inversion E; subst; clear E | discriminate E]
         | E : (if ?c then Some _ else None) = None |- _ => clear E
         end.

Ltac unfold_steps H :=
  unfold step, step_replica, step_client, step_replicaLoop, step_syncPrimary, step_sndSyncReqLoop, step_sndReplicaReqLoop,
         step_sndLoop, step_rcvSyncRespLoop, step_rcvMsg, step_handleBackup, step_handlePrimary, step_rcvReplicaRespLoop,
         step_sndResp, step_failLabel, step_clientLoop, step_sndReq, step_rcvResp, may_fail, link_recv, link_send, bindT in H.

(* ------------------------------------------------------------------ 1. every queued message is addressed to the owner of the queue *)
Definition addressed (nt : node -> chan -> link) : Prop :=
  forall n c m, In m (queue (nt n c)) -> m_to m = n.

Lemma addressed_upd : forall nt n c l, addressed nt -> (forall m, In m (queue l) -> m_to m = n) ->
  addressed (upd_net nt n c l).
Proof.
  intros nt n c l H Hl n0 c0 m Hin. unfold upd_net in Hin.
  destruct (Nat.eqb n0 n && chan_eqb c0 c) eqn:E; [|apply (H n0 c0 m Hin)].
  apply andb_true_iff in E. destruct E as [E _]. apply Nat.eqb_eq in E. subst n0. apply Hl. exact Hin.
Qed.

Lemma addressed_disable : forall s p, addressed (net s) -> addressed (net (disable s p)).
Proof.
  intros s p H. unfold disable. cbn [net set_net].
  apply addressed_upd; [apply addressed_upd; [exact H|]|]; cbn [queue].
  - intros m Hin. apply (H p REQ m Hin).
  - intros m Hin. unfold upd_net in Hin. cbn in Hin. rewrite Nat.eqb_refl in Hin. cbn in Hin. apply (H p RESP m Hin).
Qed.

Lemma addressed_tail : forall nt n c m q en, addressed nt -> queue (nt n c) = m :: q ->
  addressed (upd_net nt n c (mkLink q en)).
Proof.
  intros nt n c m q en H E. apply addressed_upd; [exact H|]. cbn. intros m0 Hin. apply (H n c). rewrite E. right. exact Hin.
Qed.

Lemma addressed_snoc : forall nt n c x en, addressed nt -> m_to x = n ->
  addressed (upd_net nt n c (mkLink (queue (nt n c) ++ [x]) en)).
Proof.
  intros nt n c x en H E. apply addressed_upd; [exact H|]. cbn. intros m0 Hin. apply in_app_or in Hin.
  destruct Hin as [Hin|[<-|[]]]; [apply (H n c m0 Hin) | exact E].
Qed.

Lemma addressed_step : forall cfg s e s', addressed (net s) -> step cfg s e = Ok s' -> addressed (net s').
Proof.
  intros cfg s [p ch] s' H Hs. unfold_steps Hs. crush Hs;
    inversion Hs; subst s'; clear Hs; sends; cbn [net set_rl set_net set_fs set_fd set_prim set_cl set_cin set_cout add_hist];
    try exact H; try (apply addressed_disable; cbn [net set_rl set_net set_fs]);
    try exact H;
    try (eapply addressed_tail; [exact H | eassumption]);
    try (apply addressed_snoc; [exact H | reflexivity]);
    try (apply addressed_disable; cbn [net set_rl set_net set_fs]; first [ exact H | eapply addressed_tail; [exact H | eassumption] | apply addressed_snoc; [exact H | reflexivity] ]).
Qed.

Theorem queued_messages_addressed_lemma : forall cfg input evs s n c m,
  exec cfg (init cfg input) evs = Some s -> In m (queue (net s n c)) -> m_to m = n.
Proof.
  intros cfg input evs s n c m He. revert n c m.
  assert (G : forall evs s0 s1, addressed (net s0) -> exec cfg s0 evs = Some s1 -> addressed (net s1)).
  { clear. intros evs. induction evs as [|e evs IH]; intros s0 s1 H He; cbn in He; [inversion He; subst; exact H|].
    destruct (step cfg s0 e) eqn:Es; try discriminate. eapply IH; [|exact He]. eapply addressed_step; eauto. }
  apply (G evs (init cfg input) s); [|exact He]. intros n c m Hin. destruct Hin.
Qed.

(* ------------------------------------------------------------------ 2. well-formed put bodies, response fields, client message *)
Definition wfb (b : body) : Prop := exists ver c, b = BPut ver c /\ (1 <= ver -> c <> None).
Definition wfm (m : msg) : Prop :=
  m_src m <> CLIENT_SRC -> (m_typ m = PUT_REQ \/ m_typ m = SYNC_REQ \/ m_typ m = SYNC_RESP) ->
  wfb (m_body m) /\ (m_typ m = PUT_REQ -> 1 <= Kv (m_body m)).
Definition answering (pc : rpc) : Prop :=
  match pc with SndReplicaReqLoop | RcvReplicaRespLoop | SndResp => True | _ => False end.
Definition LP (l : rlocal) : Prop :=
  wfb (r_lastPutBody l) /\ (forall m, r_req l = Some m -> wfm m) /\
  ((r_pc l = SndReplicaReqLoop \/ r_pc l = RcvReplicaRespLoop) -> 1 <= Kv (r_lastPutBody l)) /\
  (answering (r_pc l) -> (r_respTyp l = Some GET_RESP \/ r_respTyp l = Some PUT_RESP) /\ r_respBody l <> None).
Definition CP (l : clocal) : Prop := (c_pc l = SndReq \/ c_pc l = RcvResp) -> c_msg l <> None.
Definition allq (P : msg -> Prop) (nt : node -> chan -> link) : Prop := forall n c m, In m (queue (nt n c)) -> P m.
Definition W (s : state) : Prop := allq wfm (net s) /\ (forall r, LP (rl s r)) /\ (forall c, CP (cl s c)).

Lemma allq_upd : forall P nt n c l, allq P nt -> (forall m, In m (queue l) -> P m) -> allq P (upd_net nt n c l).
Proof.
  intros P nt n c l H Hl n0 c0 m Hin. unfold upd_net in Hin.
  destruct (Nat.eqb n0 n && chan_eqb c0 c); [apply Hl; exact Hin | apply (H n0 c0 m Hin)].
Qed.
Lemma allq_disable : forall P s p, allq P (net s) -> allq P (net (disable s p)).
Proof. intros P s p H n c m Hin. rewrite disable_queue in Hin. apply (H n c m Hin). Qed.
Lemma allq_tail : forall P nt n c m q en, allq P nt -> queue (nt n c) = m :: q -> allq P (upd_net nt n c (mkLink q en)).
Proof. intros P nt n c m q en H E. apply allq_upd; [exact H|]. cbn. intros m0 Hin. apply (H n c). rewrite E. right. exact Hin. Qed.
Lemma allq_head : forall P nt n c m q, allq P nt -> queue (nt n c) = m :: q -> P m.
Proof. intros P nt n c m q H E. apply (H n c). rewrite E. left. reflexivity. Qed.
Lemma allq_snoc : forall P nt n c x en, allq P nt -> P x -> allq P (upd_net nt n c (mkLink (queue (nt n c) ++ [x]) en)).
Proof.
  intros P nt n c x en H E. apply allq_upd; [exact H|]. cbn. intros m0 Hin. apply in_app_or in Hin.
  destruct Hin as [Hin|[<-|[]]]; [apply (H n c m0 Hin) | exact E].
Qed.
Lemma allr_updf : forall (P : rlocal -> Prop) f p l, (forall r, P (f r)) -> P l -> forall r, P (updf f p l r).
Proof. intros P f p l H Hl r. unfold updf. destruct (Nat.eqb r p); auto. Qed.
Lemma allc_updf : forall (P : clocal -> Prop) f p l, (forall r, P (f r)) -> P l -> forall r, P (updf f p l r).
Proof. intros P f p l H Hl r. unfold updf. destruct (Nat.eqb r p); auto. Qed.

Lemma wfb_init : wfb (BPut 0 None).
Proof. exists 0, None. split; [reflexivity | lia]. Qed.

Lemma W_init : forall cfg input, W (init cfg input).
Proof.
  intros. split; [intros n c m []|]. split.
  - intros r. cbn. unfold LP. cbn. split; [apply wfb_init|]. split; [discriminate|]. split; [intros [H|H]; discriminate | intros []].
  - intros c [H|H]; discriminate.
Qed.

Ltac simp_all := cbn [net set_rl set_net set_fs set_fd set_prim set_cl set_cin set_cout add_hist rl cl].
Ltac fin_net Hq :=
  repeat first [ exact Hq | apply allq_disable | (eapply allq_tail; [|eassumption]) | (apply allq_snoc) | simp_all ].

(* LP of the new locals, from LP of the old ones (A B C D) *)
Ltac fin_lp A B C D :=
  unfold LP; cbn [r_pc r_req r_respBody r_respTyp r_idx r_replicaSet r_shouldSync r_lastPutBody
                  r_set_pc r_set_req r_set_resp r_set_idx r_set_rs r_set_sync r_set_lpb];
  repeat split; intros;
  try solve [ assumption | discriminate | contradiction | (apply B; assumption) | (apply C; auto) | (apply D; assumption)
            | (apply D; cbn; exact Logic.I) | tauto | (left; reflexivity) | (right; reflexivity) | lia
            | match goal with H0 : m_src ?m0 <> CLIENT_SRC, H1 : _ \/ _ \/ _ |- _ =>
                let Hw := fresh "Hw" in assert (Hw : wfm m0) by (apply B; congruence); destruct (Hw H0 H1); auto end
            | match goal with H : _ \/ _ |- _ => destruct H; discriminate end
            | match goal with H : answering _ |- _ => cbn in H; contradiction end ].

Section WSTEP.
Variable cfg : config.

Lemma W_replica_step : forall s p ch s', InvA cfg s -> W s -> isrep cfg p ->
  step_replica cfg ch s p = Ok s' -> W s'.
Proof.
  intros s p ch s' IA (Hq & Hr & Hc) Hp Hs.
  pose proof (Hr p) as (A & B & C & D).
  unfold step_replica in Hs. destruct (r_pc (rl s p)) eqn:Epc.
  - (* replicaLoop *)
    unfold step_replicaLoop, may_fail in Hs. crush Hs; inversion Hs; subst s'; clear Hs;
      (split; [fin_net Hq | split; [|exact Hc]]); simp_all; rewrite ?disable_rl; (apply allr_updf; [exact Hr|]); fin_lp A B C D.
  - unfold step_syncPrimary in Hs. crush Hs; inversion Hs; subst s'; clear Hs;
      (split; [fin_net Hq | split; [|exact Hc]]); simp_all; (apply allr_updf; [exact Hr|]); fin_lp A B C D.
  - (* sndSyncReqLoop *)
    unfold step_sndSyncReqLoop, step_sndLoop, may_fail, link_send in Hs. crush Hs; inversion Hs; subst s'; clear Hs; sends;
      (split; [fin_net Hq | split; [|exact Hc]]); simp_all; rewrite ?disable_rl;
      try solve [unfold wfm; cbn; intros _ _; split; [exact A | discriminate]];
      try (apply allr_updf; [exact Hr|]); try fin_lp A B C D.
  - (* rcvSyncRespLoop *)
    unfold step_rcvSyncRespLoop, link_recv, bindT in Hs. crush Hs; inversion Hs; subst s'; clear Hs;
      (split; [fin_net Hq | split; [|exact Hc]]); simp_all; (apply allr_updf; [exact Hr|]); try fin_lp A B C D.
    (* restart: the body of the answer is adopted *)
    match goal with E : queue (net s p RESP) = ?m :: _ |- _ => pose proof (allq_head wfm (net s) p RESP m _ Hq E) as Hm end.
    match goal with E : negb _ = false |- _ => apply negb_false_iff in E; repeat (apply andb_true_iff in E; destruct E as [E ?]) end.
    destruct Hm as [Hb _].
    + match goal with H : srct_eqb (m_src ?m) BACKUP_SRC = true |- _ => destruct (m_src m); cbn in H; congruence end.
    + right; right. match goal with H : mtyp_eqb (m_typ ?m) SYNC_RESP = true |- _ => destruct (m_typ m); cbn in H; congruence end.
    + exact Hb.
  - (* rcvMsg *)
    unfold step_rcvMsg, link_recv in Hs. crush Hs; inversion Hs; subst s'; clear Hs;
      (split; [fin_net Hq | split; [|exact Hc]]); simp_all; (apply allr_updf; [exact Hr|]); fin_lp A B C D;
      match goal with E : queue (net s p REQ) = ?m :: _, H : Some ?m = Some ?m0, H0 : m_src ?m0 <> _, H1 : _ \/ _ |- _ =>
        inversion H; subst; destruct (allq_head wfm (net s) p REQ m0 _ Hq E H0 H1) as [X Y]; auto end.
  - (* handleBackup *)
    assert (Ap : alive cfg s p) by (split; [exact Hp | unfold pcr; rewrite Epc; reflexivity]).
    destruct (a_loc cfg s IA p Ap) as (_ & L2 & _).
    destruct (L2 Epc) as (m & Hreq & Hpm).
    unfold step_handleBackup in Hs. rewrite Hreq in Hs. cbn [bindT] in Hs.
    pose proof Hpm as (Hsrc & Htyp & _ & _ & _ & ver & c & Hb).
    rewrite Hsrc in Hs. cbn [srct_eqb negb] in Hs.
    assert (Hwm : wfm m) by (apply B; exact Hreq).
    assert (Hncl : m_src m <> CLIENT_SRC) by (rewrite Hsrc; discriminate).
    destruct Htyp as [Ht|Ht]; rewrite Ht, Hb in Hs; cbn [body_key body_value body_ver bindT] in Hs.
    + destruct (Hwm Hncl (or_introl Ht)) as [Hwb Hk]. rewrite Hb in Hwb.
      cbn [r_respBody r_respTyp r_set_sync r_set_resp r_set_lpb r_lastPutBody bindT] in Hs.
      unfold link_send, bindT in Hs. crush Hs; inversion Hs; subst s'; clear Hs; sends;
        (split; [fin_net Hq | split; [|exact Hc]]); simp_all;
        try solve [unfold wfm; cbn; intros _ [H|[H|H]]; discriminate H];
        try (apply allr_updf; [exact Hr|]); try fin_lp A B C D.
    + destruct (Hwm Hncl (or_intror (or_introl Ht))) as [Hwb _]. rewrite Hb in Hwb.
      cbn [r_respBody r_respTyp r_set_sync r_set_resp r_set_lpb r_lastPutBody bindT] in Hs.
      unfold link_send, bindT in Hs. crush Hs; inversion Hs; subst s'; clear Hs; sends;
        (split; [fin_net Hq | split; [|exact Hc]]); simp_all;
        try solve [unfold wfm; cbn; intros _ _; split; [first [exact Hwb | exact A] | discriminate]];
        try (apply allr_updf; [exact Hr|]); try fin_lp A B C D.
  - (* handlePrimary *)
    assert (Ap : alive cfg s p) by (split; [exact Hp | unfold pcr; rewrite Epc; reflexivity]).
    destruct (a_loc cfg s IA p Ap) as (_ & _ & L3 & _).
    destruct L3 as (m & Hreq & Hm & _); [rewrite Epc; exact Logic.I|].
    unfold step_handlePrimary in Hs. rewrite Hreq in Hs. cbn [bindT] in Hs.
    pose proof Hm as (Hsrc & _). rewrite Hsrc in Hs. cbn [srct_eqb negb] in Hs.
    destruct (creq_cases cfg m Hm) as [(Ht & k & Hb) | (Ht & k & v & Hb)]; rewrite Ht, Hb in Hs; cbn [body_key body_value bindT] in Hs.
    + inversion Hs; subst s'; clear Hs. (split; [fin_net Hq | split; [|exact Hc]]); simp_all; (apply allr_updf; [exact Hr|]); fin_lp A B C D.
    + unfold bindT in Hs. crush Hs; inversion Hs; subst s'; clear Hs.
      (split; [fin_net Hq | split; [|exact Hc]]); simp_all; (apply allr_updf; [exact Hr|]); fin_lp A B C D.
      * exists (n + 1), (Some (k, v)). split; [reflexivity | discriminate].
      * cbn. lia.
  - (* sndReplicaReqLoop *)
    unfold step_sndReplicaReqLoop, step_sndLoop, may_fail, link_send, bindT in Hs. crush Hs; inversion Hs; subst s'; clear Hs; sends;
      (split; [fin_net Hq | split; [|exact Hc]]); simp_all; rewrite ?disable_rl;
      try solve [unfold wfm; cbn; intros _ _; split; [exact A | intros _; apply C; left; reflexivity]];
      try (apply allr_updf; [exact Hr|]); try fin_lp A B C D.
  - (* rcvReplicaRespLoop *)
    unfold step_rcvReplicaRespLoop, may_fail, link_recv, bindT in Hs. crush Hs; inversion Hs; subst s'; clear Hs;
      (split; [fin_net Hq | split; [|exact Hc]]); simp_all; rewrite ?disable_rl; (apply allr_updf; [exact Hr|]); fin_lp A B C D.
  - (* sndResp *)
    unfold step_sndResp, link_send, bindT in Hs. crush Hs; inversion Hs; subst s'; clear Hs; sends.
    (split; [fin_net Hq | split; [|exact Hc]]); simp_all;
      try solve [destruct D as [[D1|D1] _]; [exact Logic.I| |]; unfold wfm; cbn; intros _ [X|[X|X]]; congruence];
      try (apply allr_updf; [exact Hr|]); try fin_lp A B C D.
  - (* failLabel *)
    unfold step_failLabel in Hs. inversion Hs; subst s'; clear Hs.
    (split; [fin_net Hq | split; [|exact Hc]]); simp_all; (apply allr_updf; [exact Hr|]); fin_lp A B C D.
  - discriminate.
Qed.
Lemma W_client_step : forall s p ch s', W s -> step_client cfg ch s p = Ok s' -> W s'.
Proof.
  intros s p ch s' (Hq & Hr & Hc) Hs. pose proof (Hc p) as Hcp. unfold CP in Hcp.
  unfold step_client, step_clientLoop, step_sndReq, step_rcvResp, link_recv, link_send, bindT in Hs.
  crush Hs; inversion Hs; subst s'; clear Hs; sends;
    (split; [fin_net Hq | split; [exact Hr|]]); simp_all;
    try solve [unfold wfm; cbn; intros X; exfalso; apply X; reflexivity];
    try (apply allc_updf; [exact Hc|]); unfold CP, c_set_pc; cbn [c_pc c_msg];
    try solve [intros [X|X]; discriminate X | intros _; discriminate | intros _; apply Hcp; auto | intros _; congruence].
Qed.

Lemma W_step : forall s e s', InvA cfg s -> W s -> step cfg s e = Ok s' -> W s'.
Proof.
  intros s [p ch] s' IA HW Hs. unfold step in Hs. destruct (is_replica cfg p) eqn:Er.
  - apply (W_replica_step s p ch s' IA HW); [apply (isrep_iff cfg); exact Er | exact Hs].
  - destruct (is_client cfg p); [|discriminate]. apply (W_client_step s p ch s' HW Hs).
Qed.

Lemma W_reachable : forall input s, Forall input_ok input -> reachable cfg input s -> W s.
Proof.
  intros input s Hin Hr. induction Hr; [apply W_init|].
  eapply W_step; eauto. eapply invA_reachable; eauto.
Qed.

End WSTEP.

(* ------------------------------------------------------------------ 3. which steps cannot fail *)
Definition okout (o : outcome) : Prop := match o with Ok _ | Blocked => True | _ => False end.

Lemma okout_spec : forall o, okout o -> o <> AssertFail /\ o <> TypeErr.
Proof. intros [] H; cbn in H; try contradiction; split; discriminate. Qed.

Lemma okout_may_fail : forall cfg ch s p l next, okout (may_fail cfg ch s p l next).
Proof. intros. unfold may_fail. destruct (_ && _); exact I. Qed.

Lemma okout_sndLoop : forall cfg ch s p typ id here after, okout (step_sndLoop cfg ch s p typ id here after).
Proof.
  intros. unfold step_sndLoop. destruct (_ <=? _); [|exact I]. destruct (negb (_ =? _)); [|apply okout_may_fail].
  destruct (negb _); [|destruct (fdv _ _); [apply okout_may_fail | exact I]].
  destruct (link_send _ _ _ _); [apply okout_may_fail | exact I].
Qed.

(* the version assertion of handleBackup holds for the request at hand *)
Definition req_not_older (s : state) (p : node) : Prop :=
  forall m, r_req (rl s p) = Some m -> m_typ m = PUT_REQ -> K s p <= Kv (m_body m).

Section NOFAIL.
Variable cfg : config.

Lemma no_fail_replica : forall s p ch, InvA cfg s -> W s -> addressed (net s) -> isrep cfg p ->
  pcr s p <> RcvSyncRespLoop -> pcr s p <> RcvReplicaRespLoop ->
  (pcr s p = HandleBackup -> req_not_older s p) ->
  okout (step_replica cfg ch s p).
Proof.
  intros s p ch IA (Hq & Hr & Hc) Had Hp N1 N2 Hver. pose proof (Hr p) as (A & B & C & D).
  unfold step_replica. unfold pcr in *. destruct (r_pc (rl s p)) eqn:Epc; try congruence; try exact I;
    try (assert (Ap : alive cfg s p) by (split; [exact Hp | unfold pcr; rewrite Epc; reflexivity])).
  - apply okout_may_fail.
  - unfold step_syncPrimary. destruct (_ && _); exact I.
  - apply okout_sndLoop.
  - (* rcvMsg *)
    unfold step_rcvMsg. destruct (_ && _); [exact I|]. unfold link_recv.
    rewrite (a_en_r cfg s IA p REQ Hp). unfold pcr. rewrite Epc. cbn [pc_alive negb].
    destruct (queue (net s p REQ)) as [|m q] eqn:Eq; [exact I|].
    rewrite (Had p REQ m) by (rewrite Eq; left; reflexivity). rewrite Nat.eqb_refl. cbn [negb].
    destruct (_ && _); exact I.
  - (* handleBackup *)
    destruct (a_loc cfg s IA p Ap) as (_ & L2 & _ & _ & _ & _ & _ & L8).
    destruct (L2 Epc) as (m & Hreq & Hpm). destruct L8 as (lv & lc & Hl).
    unfold step_handleBackup. rewrite Hreq. cbn [bindT].
    pose proof Hpm as (Hsrc & Htyp & _ & _ & _ & ver & c & Hb).
    rewrite Hsrc. cbn [srct_eqb negb].
    assert (Hwm : wfm m) by (apply B; exact Hreq).
    assert (Hncl : m_src m <> CLIENT_SRC) by (rewrite Hsrc; discriminate).
    assert (Fin : forall s1 l1 rb rt, r_respBody l1 = Some rb -> r_respTyp l1 = Some rt ->
              okout (rb0 <- r_respBody l1;; rt0 <- r_respTyp l1;;
                     (if negb (ch_alt ch)
                      then match link_send s1 (m_to (mkMsg p (m_from m) rb0 BACKUP_SRC rt0 (m_id m))) RESP (mkMsg p (m_from m) rb0 BACKUP_SRC rt0 (m_id m)) with
                           | Some s2 => Ok (set_rl s2 p (r_set_pc l1 ReplicaLoop)) | None => Blocked end
                      else if fdv s1 (m_to (mkMsg p (m_from m) rb0 BACKUP_SRC rt0 (m_id m))) then Ok (set_rl s1 p (r_set_pc l1 ReplicaLoop)) else Blocked))).
    { intros s1 l1 rb rt E1 E2. rewrite E1, E2. cbn [bindT]. destruct (negb _); [destruct (link_send _ _ _ _); exact I | destruct (fdv _ _); exact I]. }
    destruct Htyp as [Ht|Ht]; rewrite Ht, Hb; cbn [body_key body_value body_ver bindT].
    + destruct (Hwm Hncl (or_introl Ht)) as [(ver0 & c0 & Eb & Hc0) Hk]. rewrite Hb in Eb. inversion Eb; subst ver0 c0.
      specialize (Hk Ht). rewrite Hb in Hk. cbn in Hk. destruct c as [[k v]|]; [|exfalso; apply (Hc0 Hk); reflexivity].
      cbn [bindT]. rewrite Hl. cbn [body_ver bindT].
      pose proof (Hver eq_refl m Hreq Ht) as Hv. unfold K in Hv. rewrite Hl, Hb in Hv. cbn in Hv.
      assert (Hlt : ver <? lv = false) by (apply Nat.ltb_ge; exact Hv). rewrite Hlt.
      eapply Fin; reflexivity.
    + destruct (Hwm Hncl (or_intror (or_introl Ht))) as [(ver0 & c0 & Eb & Hc0) _]. rewrite Hb in Eb. inversion Eb; subst ver0 c0.
      rewrite Hl. cbn [body_ver bindT]. destruct (lv <? ver) eqn:Elt.
      * apply Nat.ltb_lt in Elt. destruct c as [[k v]|]; [|exfalso; apply Hc0; [lia | reflexivity]].
        cbn [bindT]. eapply Fin; reflexivity.
      * eapply Fin; reflexivity.
  - (* handlePrimary *)
    destruct (a_loc cfg s IA p Ap) as (_ & _ & L3 & _ & _ & _ & _ & L8).
    destruct L3 as (m & Hreq & Hm & _); [rewrite Epc; exact Logic.I|]. destruct L8 as (lv & lc & Hl).
    unfold step_handlePrimary. rewrite Hreq. cbn [bindT].
    pose proof Hm as (Hsrc & _). rewrite Hsrc. cbn [srct_eqb negb].
    destruct (creq_cases cfg m Hm) as [(Ht & k & Hb) | (Ht & k & v & Hb)]; rewrite Ht, Hb; cbn [body_key body_value bindT]; [exact I|].
    rewrite Hl. cbn. exact I.
  - (* sndReplicaReqLoop *)
    destruct (a_loc cfg s IA p Ap) as (_ & _ & L3 & _).
    destruct L3 as (m & Hreq & _); [rewrite Epc; exact Logic.I|].
    unfold step_sndReplicaReqLoop. rewrite Hreq. cbn [bindT]. apply okout_sndLoop.
  - (* sndResp *)
    destruct (a_loc cfg s IA p Ap) as (_ & _ & L3 & _).
    destruct L3 as (m & Hreq & _); [rewrite Epc; exact Logic.I|].
    destruct D as [Dt Db]; [exact Logic.I|].
    unfold step_sndResp. rewrite Hreq. cbn [bindT].
    destruct (r_respBody (rl s p)) as [rb|]; [|congruence]. cbn [bindT].
    destruct (r_respTyp (rl s p)) as [rt|]; [|destruct Dt; discriminate]. cbn [bindT].
    destruct (link_send _ _ _ _); exact I.
Qed.

Lemma no_fail_client : forall s c ch, W s -> c_pc (cl s c) <> RcvResp -> okout (step_client cfg ch s c).
Proof.
  intros s c ch (_ & _ & Hc) N. unfold step_client. destruct (c_pc (cl s c)) eqn:Epc; try congruence; try exact I.
  - unfold step_clientLoop. destruct (cin s); exact I.
  - unfold step_sndReq. destruct (negb (_ =? 0)); [|exact I]. destruct (negb _); [|destruct (fdv _ _); exact I].
    destruct (c_msg (cl s c)) eqn:Em; [|exfalso; apply (Hc c); [left; exact Epc | exact Em]].
    cbn [bindT]. destruct (link_send _ _ _ _); exact I.
Qed.

End NOFAIL.

(* ------------------------------------------------------------------ 4. a pending PUT_REQ is never older than its receiver *)
Definition isput (m : msg) : Prop := m_src m = PRIMARY_SRC /\ m_typ m = PUT_REQ.
Definition Km (m : msg) : nat := Kv (m_body m).
(* requests replica r has still to look at, oldest first (the one it is handling, then its queue) *)
Definition rawpend (s : state) (r : node) : list msg :=
  (match r_pc (rl s r), r_req (rl s r) with HandleBackup, Some m => [m] | _, _ => [] end) ++ queue (net s r REQ).

(* what a step of replica p does to the version and the pending requests of replica r *)
Definition eff (s s' : state) (p r : node) : Prop :=
  (K s' r = K s r /\ rawpend s' r = rawpend s r) \/
  (K s' r = K s r /\ r <> p /\ r = r_idx (rl s p) /\
     exists typ id, rawpend s' r = rawpend s r ++ [mkMsg p r (r_lastPutBody (rl s p)) PRIMARY_SRC typ id] /\
       ((r_pc (rl s p) = SndSyncReqLoop /\ typ = SYNC_REQ) \/ (r_pc (rl s p) = SndReplicaReqLoop /\ typ = PUT_REQ))) \/
  (r = p /\ exists m0, rawpend s p = m0 :: rawpend s' p /\ K s p <= K s' p /\ K s' p <= Nat.max (K s p) (Km m0)) \/
  (r = p /\ r_pc (rl s p) = HandlePrimary /\ rawpend s' p = rawpend s p) \/
  (r = p /\ r_pc (rl s p) = RcvSyncRespLoop /\ rawpend s' p = rawpend s p /\ K s p < K s' p /\
     exists m, In m (queue (net s p RESP)) /\ K s' p = Km m /\ m_typ m = SYNC_RESP).

Lemma disable_rl : forall s p, rl (disable s p) = rl s. Proof. reflexivity. Qed.

Ltac eff_norm p :=
  unfold K, Km, rawpend; simp_all; rewrite ?disable_rl, ?disable_queue;
  cbn [r_pc r_req r_respBody r_respTyp r_idx r_replicaSet r_shouldSync r_lastPutBody
       r_set_pc r_set_req r_set_resp r_set_idx r_set_rs r_set_sync r_set_lpb queue enabled].

Ltac rw_loc :=
  repeat match goal with
         | E : r_pc (rl ?s ?p) = _ |- context [r_pc (rl ?s ?p)] => rewrite E
         | E : r_req (rl ?s ?p) = _ |- context [r_req (rl ?s ?p)] => rewrite E
         | E : queue (net ?s ?p ?c) = _ |- context [queue (net ?s ?p ?c)] => rewrite E
         end.
Ltac cbn_loc :=
  cbn [r_pc r_req r_respBody r_respTyp r_idx r_replicaSet r_shouldSync r_lastPutBody
       r_set_pc r_set_req r_set_resp r_set_idx r_set_rs r_set_sync r_set_lpb queue enabled app
       m_from m_to m_body m_src m_typ m_id Kv].

Lemma body_ver_Kv : forall b n, body_ver b = Some n -> Kv b = n.
Proof. intros [] n H; cbn in *; congruence. Qed.

Ltac kv_facts :=
  repeat match goal with
         | E : body_ver ?b = Some ?n |- _ => apply body_ver_Kv in E
         | E : (_ <? _) = true |- _ => apply Nat.ltb_lt in E
         | E : (_ <? _) = false |- _ => apply Nat.ltb_ge in E
         end.
Ltac eff_fin :=
  first [ solve [left; split; reflexivity]
        | solve [right; right; right; left; split; [reflexivity|]; split; reflexivity]
        | solve [right; right; left; split; [reflexivity|]; eexists; split; [reflexivity|]; kv_facts; cbn_loc; lia]
        | solve [right; right; right; right; split; [reflexivity|]; split; [reflexivity|]; split; [reflexivity|]; kv_facts;
                 split; [cbn_loc; lia|]; eexists; split; [left; reflexivity|]; split; [reflexivity|];
                 match goal with E : negb _ = false |- _ =>
                   apply negb_false_iff in E; repeat (let X := fresh "X" in apply andb_true_iff in E; destruct E as [E X]) end;
                 match goal with H : mtyp_eqb ?t SYNC_RESP = true |- _ => destruct t; cbn in H; congruence end] ].

Lemma eff_replica_step : forall cfg s p ch s', step_replica cfg ch s p = Ok s' -> forall r, eff s s' p r.
Proof.
  intros cfg s p ch s' Hs r.
  unfold step_replica, step_replicaLoop, step_syncPrimary, step_sndSyncReqLoop, step_sndReplicaReqLoop,
         step_sndLoop, step_rcvSyncRespLoop, step_rcvMsg, step_handleBackup, step_handlePrimary, step_rcvReplicaRespLoop,
         step_sndResp, step_failLabel, may_fail, link_recv, link_send, bindT in Hs.
  destruct (Nat.eq_dec r p) as [->|Hne].
  - crush Hs; inversion Hs; subst s'; clear Hs; sends;
      repeat match goal with E : negb (?a =? ?b) = true |- _ => apply negb_true_iff in E; apply Nat.eqb_neq in E end;
      unfold eff; eff_norm p; rewrite ?updf_same; simp_all;
      cbn_loc; rewrite ?upd_net_same; rewrite ?upd_net_other by (first [right; discriminate | left; congruence]);
      cbn_loc; rw_loc; cbn_loc; try eff_fin.
  - crush Hs; inversion Hs; subst s'; clear Hs; sends;
      unfold eff; eff_norm p; rewrite ?updf_other by exact Hne; simp_all;
      rewrite ?upd_net_other by (first [right; discriminate | left; exact Hne]); try eff_fin.
    all: destruct (Nat.eq_dec r (r_idx (rl s p))) as [Er|Nr];
      [ rewrite <- Er; rewrite upd_net_same; cbn [queue]; right; left; split; [reflexivity|]; split; [exact Hne|]; split; [reflexivity|];
        do 2 eexists; split; [rewrite <- app_assoc; reflexivity|]; first [left; split; [assumption | reflexivity] | right; split; [assumption | reflexivity]]
      | rewrite upd_net_other by (left; exact Nr); left; split; reflexivity ].
Qed.

Lemma replica_step_shape : forall cfg s p ch s', step_replica cfg ch s p = Ok s' ->
  (forall r, r <> p -> rl s' r = rl s r) /\
  (pc_alive (r_pc (rl s' p)) = true -> pc_alive (r_pc (rl s p)) = true) /\
  (r_pc (rl s p) <> FailLabel -> forall r, prim s' r = prim s r).
Proof.
  intros cfg s p ch s' Hs.
  unfold step_replica, step_replicaLoop, step_syncPrimary, step_sndSyncReqLoop, step_sndReplicaReqLoop,
         step_sndLoop, step_rcvSyncRespLoop, step_rcvMsg, step_handleBackup, step_handlePrimary, step_rcvReplicaRespLoop,
         step_sndResp, step_failLabel, may_fail, link_recv, link_send, bindT in Hs.
  crush Hs; inversion Hs; subst s'; clear Hs; sends; simp_all; rewrite ?disable_rl; cbn [prim set_rl set_net set_fs set_fd set_prim];
    (split; [intros r Hne; try reflexivity; apply updf_other; exact Hne|]);
    (split; [intros X; first [reflexivity | (rewrite updf_same in X; cbn in X; discriminate X)] | intros; try reflexivity; try congruence]).
Qed.

Lemma eff_client_step : forall cfg s c ch s', step_client cfg ch s c = Ok s' ->
  rl s' = rl s /\ (forall r, prim s' r = prim s r) /\
  forall r, rawpend s' r = rawpend s r \/ exists x, rawpend s' r = rawpend s r ++ [x] /\ m_src x = CLIENT_SRC.
Proof.
  intros cfg s c ch s' Hs.
  unfold step_client, step_clientLoop, step_sndReq, step_rcvResp, link_recv, link_send, bindT in Hs.
  crush Hs; inversion Hs; subst s'; clear Hs; sends; (split; [reflexivity|]); (split; [reflexivity|]); intros r;
    unfold rawpend; simp_all; try (left; reflexivity).
  - destruct (Nat.eq_dec r (leader cfg s)) as [->|N].
    + right. eexists. rewrite upd_net_same. cbn [queue]. split; [apply app_assoc | reflexivity].
    + left. rewrite upd_net_other by (left; exact N). reflexivity.
  - left. rewrite upd_net_other by (right; discriminate). reflexivity.
  - left. rewrite upd_net_other by (right; discriminate). reflexivity.
  - left. rewrite upd_net_other by (right; discriminate). reflexivity.
Qed.

(* every PUT_REQ in the list carries a version >= (strict: >) k and every version before it in the list *)
Fixpoint po (strict : bool) (k : nat) (l : list msg) : Prop :=
  match l with
  | [] => True
  | m :: r => (isput m -> if strict then k < Km m else k <= Km m) /\ po strict (Nat.max k (Km m)) r
  end.

Lemma po_anti : forall b l k k', k' <= k -> po b k l -> po b k' l.
Proof.
  intros b l. induction l as [|m l IH]; intros k k' Hle H; cbn [po] in *; [exact I|].
  destruct H as [H1 H2]. split; [intros Hp; specialize (H1 Hp); destruct b; lia|].
  apply (IH (Nat.max k (Km m))); [lia | exact H2].
Qed.

Lemma po_weak : forall l k, po true k l -> po false k l.
Proof.
  induction l as [|m l IH]; intros k H; cbn [po] in *; [exact I|]. destruct H as [H1 H2]. split; [intros Hp; specialize (H1 Hp); lia | apply IH; exact H2].
Qed.

Lemma po_succ : forall l k, po true k l -> po false (S k) l.
Proof.
  induction l as [|m l IH]; intros k H; cbn [po] in *; [exact I|]. destruct H as [H1 H2]. split; [intros Hp; specialize (H1 Hp); lia|].
  apply (po_anti false l (S (Nat.max k (Km m)))); [lia | apply IH; exact H2].
Qed.

Lemma po_noput : forall b l k, (forall m, In m l -> ~ isput m) -> po b k l.
Proof.
  intros b l. induction l as [|m l IH]; intros k H; cbn [po]; [exact I|]. split.
  - intros Hp. exfalso. apply (H m); [left; reflexivity | exact Hp].
  - apply IH. intros m0 Hin. apply H. right. exact Hin.
Qed.

Lemma po_snoc : forall b l k x, po b k l ->
  (isput x -> (if b then k < Km x else k <= Km x) /\ forall m, In m l -> if b then Km m < Km x else Km m <= Km x) ->
  po b k (l ++ [x]).
Proof.
  intros b l. induction l as [|m l IH]; intros k x H Hx; cbn [po] in *.
  - split; [|exact I]. intros Hp. apply (Hx Hp).
  - destruct H as [H1 H2]. split; [exact H1|]. apply IH; [exact H2|]. intros Hp. destruct (Hx Hp) as [X1 X2]. split.
    + pose proof (X2 m (or_introl eq_refl)). destruct b; lia.
    + intros m0 Hin. apply X2. right. exact Hin.
Qed.

Lemma rpc_eq_dec_local : forall a b : rpc, {a = b} + {a <> b}.
Proof. decide equality. Qed.

Section POSEC.
Variable cfg : config.
Notation alive := (alive cfg).
Notation ldr := (ldr cfg).

Definition PO (w : wit) (s : state) : Prop :=
  forall r, alive s r -> po false (K s r) (rawpend s r) /\ ((r <> ldr s \/ K s r < Mx w) -> po true (K s r) (rawpend s r)).

Lemma PO_init : forall w input, PO w (init cfg input).
Proof. intros w input r _. unfold rawpend. cbn. auto. Qed.

(* a live leader stays the leader *)
Lemma ldr_keep : forall s s' r, InvA cfg s -> InvA cfg s' -> (forall r0, r0 < r -> rl s' r0 = rl s r0) ->
  alive s r -> r = ldr s -> alive s' r -> ldr s' = r.
Proof.
  intros s s' r IA IA' Hlow Ar E Ar'. destruct (alive_ge_ldr cfg s r IA Ar) as [Hn _].
  destruct (ldr_nonzero cfg s IA Hn) as (_ & _ & Hl). rewrite <- E in Hl.
  apply (ldr_is cfg s' r IA'); [apply Ar' | apply (alive_not_done cfg s' r Ar')|].
  intros r0 Hr0 Hlt. unfold pcr. rewrite (Hlow r0 Hlt). apply Hl; assumption.
Qed.

(* the elements of rawpend: requests of leaders (in pend) or client requests (version 0) *)
Lemma rawpend_cases : forall s r m, InvA cfg s -> alive s r -> In m (rawpend s r) ->
  In m (pend s r) \/ (m_src m = CLIENT_SRC /\ Km m = 0).
Proof.
  intros s r m IA Ar Hin. unfold rawpend in Hin. apply in_app_or in Hin. destruct Hin as [Hin|Hin].
  - left. unfold pend, pcr. apply in_or_app. left. exact Hin.
  - destruct (a_q cfg s IA r Ar) as ((P & C & E & HP & HC & _) & _). rewrite E in Hin. apply in_app_or in Hin.
    destruct Hin as [Hp|Hc0].
    + left. unfold pend. apply in_or_app. right. apply filter_In. split; [rewrite E; apply in_or_app; left; exact Hp|].
      rewrite Forall_forall in HP. apply (pmA_is_p _ _ _ (HP m Hp)).
    + right. rewrite Forall_forall in HC. destruct (HC m Hc0) as (Hs & _ & Hok). split; [exact Hs|].
      unfold input_ok in Hok. cbn in Hok. unfold Km. destruct (m_typ m); try contradiction; destruct (m_body m) as [k [v|]| |]; try contradiction; reflexivity.
Qed.

Lemma po_head_noput : forall s r, InvA cfg s -> alive s r -> serving (pcr s r) ->
  forall b k, po b k (rawpend s r).
Proof.
  intros s r IA Ar Hsrv b k. apply po_noput. intros m Hin [Hs _].
  destruct (a_loc cfg s IA r Ar) as (_ & _ & L3 & _). destruct (L3 Hsrv) as (_ & _ & _ & _ & Hq).
  unfold rawpend in Hin. unfold pcr in Hsrv. destruct (r_pc (rl s r)); cbn in Hsrv; try contradiction;
    cbn in Hin; rewrite Forall_forall in Hq; destruct (Hq m Hin) as (Hc & _); congruence.
Qed.

Lemma PO_replica_step : forall w w' s p ch s', InvA cfg s -> InvB cfg w s -> InvA cfg s' -> PO w s -> isrep cfg p ->
  step_replica cfg ch s p = Ok s' -> (pcr s p <> HandlePrimary -> w' = w) -> PO w' s'.
Proof.
  intros w w' s p ch s' IA IB IA' HPO Hp Hs Hw r Ar'.
  destruct (replica_step_shape cfg s p ch s' Hs) as (Hoth & Halp & Hprim).
  assert (Ar : alive s r).
  { destruct Ar' as [Hr Ha]. split; [exact Hr|]. unfold pcr in *. destruct (Nat.eq_dec r p) as [->|N]; [apply Halp; exact Ha | rewrite <- (Hoth r N); exact Ha]. }
  assert (Hl : r <> ldr s' -> r <> ldr s).
  { intros N E. apply N. symmetry. destruct (rpc_eq_dec_local (r_pc (rl s p)) FailLabel) as [Ef|Nf].
    - apply (ldr_keep s s' r IA IA'); auto. intros r0 Hlt. apply Hoth. intros ->.
      destruct (alive_ge_ldr cfg s r IA Ar) as [Hn _]. destruct (ldr_nonzero cfg s IA Hn) as (_ & _ & Hd).
      rewrite <- E in Hd. specialize (Hd p Hp Hlt). unfold pcr in Hd. congruence.
    - rewrite E. apply ldr_prim_ext. apply Hprim. exact Nf. }
  destruct (HPO r Ar) as [N St].
  assert (Hsub : forall b k l m0, (forall m, In m (m0 :: l) -> ~ isput m) -> po b k l).
  { intros b k l m0 H. apply po_noput. intros m Hin. apply H. right. exact Hin. }
  destruct (rpc_eq_dec_local (pcr s p) HandlePrimary) as [Eh|Nh].
  { (* handlePrimary: the leader has only client requests pending; nothing changes for the others *)
    assert (Ap : alive s p) by (split; [exact Hp | rewrite Eh; reflexivity]).
    assert (Eq : p = ldr s) by (apply (nonbackup_is_ldr cfg s p IA Ap); rewrite Eh; cbn; tauto).
    pose proof Eh as Eh'. unfold pcr in Eh'.
    assert (NP : forall m, In m (rawpend s p) -> ~ isput m).
    { intros m Hin [Hsr _]. destruct (a_loc cfg s IA p Ap) as (_ & _ & L3 & _). destruct L3 as (_ & _ & _ & _ & Hq); [rewrite Eh'; exact Logic.I|].
      unfold rawpend in Hin. rewrite Eh' in Hin. cbn in Hin. rewrite Forall_forall in Hq. destruct (Hq m Hin) as (Hc & _). congruence. }
    destruct (eff_replica_step cfg s p ch s' Hs r) as [(EK & ER)|[(EK & Hne & Eidx & typ & id & ER & Hty)|[(-> & m0 & ER & EK1 & EK2)|[(-> & Epc & ER)|(-> & Epc & _)]]]].
    - destruct (Nat.eq_dec r p) as [->|Hne].
      + rewrite ER. split; [apply po_noput; exact NP | intros _; apply po_noput; exact NP].
      + rewrite EK, ER. split; [exact N|]. intros _. apply St. left. congruence.
    - exfalso. destruct Hty as [(E & _)|(E & _)]; congruence.
    - rewrite ER in NP. split; [eapply Hsub; exact NP | intros _; eapply Hsub; exact NP].
    - rewrite ER. split; [apply po_noput; exact NP | intros _; apply po_noput; exact NP].
    - congruence. }
  assert (Ew : w' = w) by (apply Hw; exact Nh). subst w'.
  destruct (eff_replica_step cfg s p ch s' Hs r) as [(EK & ER)|[(EK & Hne & Eidx & typ & id & ER & Hty)|[(-> & m0 & ER & EK1 & EK2)|[(-> & Epc & ER)|(-> & Epc & ER & EK & m & Hin & EKm & Htyp)]]]].
  - (* nothing changes for r *)
    rewrite EK, ER. split; [exact N|]. intros [H|H]; apply St; [left; apply Hl; exact H | right; exact H].
  - (* the leader p sends a request to r *)
    assert (Ap : alive s p) by (split; [exact Hp | unfold pcr; destruct Hty as [(E & _)|(E & _)]; rewrite E; reflexivity]).
    assert (Eq : p = ldr s) by (apply (nonbackup_is_ldr cfg s p IA Ap); unfold pcr; destruct Hty as [(E & _)|(E & _)]; rewrite E; cbn; tauto).
    assert (S0 : po true (K s r) (rawpend s r)) by (apply St; left; congruence).
    rewrite EK, ER.
    assert (G : po true (K s r) (rawpend s r ++ [mkMsg p r (r_lastPutBody (rl s p)) PRIMARY_SRC typ id])).
    { apply po_snoc; [exact S0|]. intros [_ Ht]. cbn in Ht. destruct Hty as [(_ & ->)|(Epc & _)]; [discriminate|].
      (* PUT_REQ: the receiver is one version behind and has nothing of the new version pending *)
      assert (Hin : ProofsCrashB.inrepl s p) by (left; exact Epc).
      rewrite Eq in Hin, Ap. destruct (ph_repl cfg w s (b_ph cfg w s IB) Ap Hin) as (Hnq & Hput2 & _ & Hrs).
      assert (Hrq : r <> ldr s) by congruence.
      destruct (Hrs r Ar Hrq) as (Sy & Pu & Exs & HSy & Hcase).
      assert (Hns : ~ rsent s (ldr s) r).
      { unfold rsent. rewrite <- Eq. unfold pcr. rewrite Epc. intros [X|X]; [discriminate | lia]. }
      destruct Hcase as [(_ & Ho & _ & EPu)|[(X & _)|[(X & _)|(X & _)]]]; try contradiction.
      destruct (isold_K w s r Ho) as [HKr HM1]. pose proof (isnew_K w s _ Hnq) as HKq.
      unfold Km. cbn [m_body]. fold (K s p). rewrite Eq, HKq. split; [lia|].
      intros m1 Hm1. destruct (rawpend_cases s r m1 IA Ar Hm1) as [Hp1|(_ & E0)]; [|unfold Km in E0; rewrite E0; lia].
      destruct (v_pend cfg w s (b_ver cfg w s IB) r m1 Ar Hp1) as (ver & c & Eb & Hle & _).
      unfold Km. rewrite Eb. cbn [Kv]. destruct (Nat.eq_dec ver (Mx w)) as [Ev|Nv]; [|lia]. exfalso.
      destruct (Hput2 r m1 Ar Hrq Hp1) as [Hf Htp]; [rewrite Eb; cbn; exact Ev|].
      assert (Hx : In m1 (xs s (ldr s) r)).
      { unfold xs. apply in_or_app. right. apply filter_In. split; [exact Hp1|]. unfold from_b. rewrite Hf. apply Nat.eqb_refl. }
      rewrite Exs, EPu, app_nil_r in Hx. rewrite Forall_forall in HSy. destruct (HSy m1 Hx) as [Y|Y]; congruence. }
    split; [apply po_weak; exact G | intros _; exact G].
  - (* p has dealt with the request at the head of its list *)
    rewrite ER in N, St. cbn [po] in N, St. split.
    + apply (po_anti false _ (Nat.max (K s p) (Km m0))); [exact EK2 | apply (proj2 N)].
    + intros Hpre. apply (po_anti true _ (Nat.max (K s p) (Km m0))); [exact EK2|].
      assert (Hpre0 : p <> ldr s \/ K s p < Mx w) by (destruct Hpre as [H|H]; [left; apply Hl; exact H | right; lia]).
      apply (proj2 (St Hpre0)).
  - unfold pcr in Nh. contradiction.
  - (* the leader adopts a newer version from a sync answer *)
    assert (Ap : alive s p) by (split; [exact Hp | unfold pcr; rewrite Epc; reflexivity]).
    assert (Eq : p = ldr s) by (apply (nonbackup_is_ldr cfg s p IA Ap); unfold pcr; rewrite Epc; cbn; tauto).
    rewrite Eq in Hin, Ap.
    destruct (v_resp cfg w s (b_ver cfg w s IB) m Ap Hin Htyp) as [(ver & c & Eb & Hle & _) _].
    destruct (K_le_Mx cfg w s _ (b_ver cfg w s IB) Ap) as [_ Hge]. rewrite <- Eq in Hge.
    unfold Km in EKm. rewrite Eb in EKm. cbn [Kv] in EKm.
    assert (EKs : K s' p = S (K s p)) by lia.
    rewrite ER, EKs. split.
    + apply po_succ. apply St. right. lia.
    + intros [H|H]; exfalso.
      * apply H. rewrite Eq. symmetry. apply ldr_prim_ext. apply Hprim. rewrite Epc. discriminate.
      * lia.
Qed.


Lemma PO_client_step : forall w s c ch s', PO w s -> step_client cfg ch s c = Ok s' -> PO w s'.
Proof.
  intros w s c ch s' HPO Hs r Ar'.
  destruct (eff_client_step cfg s c ch s' Hs) as (Hrl & Hprim & Hraw).
  assert (Ar : alive s r) by (unfold ProofsCrashA.alive, pcr in *; rewrite <- Hrl; exact Ar').
  assert (El : ldr s' = ldr s) by (apply ldr_prim_ext; exact Hprim).
  assert (EK : K s' r = K s r) by (unfold K; rewrite Hrl; reflexivity).
  destruct (HPO r Ar) as [N St]. rewrite EK, El.
  destruct (Hraw r) as [ER|(x & ER & Hx)]; rewrite ER; [auto|].
  assert (NP : isput x -> False) by (intros [Y _]; congruence).
  split; [apply po_snoc; [exact N | intros Y; destruct (NP Y)]|].
  intros Hpre. apply po_snoc; [apply St; exact Hpre | intros Y; destruct (NP Y)].
Qed.

Definition INV (s : state) : Prop := InvA cfg s /\ exists w, InvB cfg w s /\ PO w s.

Lemma INV_init : forall input, Forall input_ok input -> INV (init cfg input).
Proof.
  intros input Hin. split; [apply init_invA; exact Hin|]. eexists. split; [apply init_invB | apply PO_init].
Qed.

Lemma INV_step : forall s e s', INV s -> step cfg s e = Ok s' -> INV s'.
Proof.
  intros s [p ch] s' (IA & w & IB & HPO) Hstep.
  assert (IA' : InvA cfg s') by (eapply invA_step; eauto).
  split; [exact IA'|]. unfold step in Hstep. destruct (is_replica cfg p) eqn:Er.
  - apply (isrep_iff cfg) in Er. pose proof Hstep as Hs. unfold step_replica in Hs.
    destruct (r_pc (rl s p)) eqn:Epc;
      try (assert (Ap : alive s p) by (split; [exact Er | unfold pcr; rewrite Epc; reflexivity]));
      try (assert (Nh : pcr s p <> HandlePrimary) by (unfold pcr; rewrite Epc; discriminate)).
    + exists w. split; [eapply (invB_replicaLoop cfg w s p ch s'); eauto|]. apply (PO_replica_step w w s p ch s' IA IB IA' HPO Er Hstep); intros _; reflexivity.
    + exists w. split; [eapply (invB_syncPrimary cfg w s p ch s'); eauto|]. apply (PO_replica_step w w s p ch s' IA IB IA' HPO Er Hstep); intros _; reflexivity.
    + exists w. split; [eapply (invB_sndSyncReqLoop cfg w s p ch s'); eauto|]. apply (PO_replica_step w w s p ch s' IA IB IA' HPO Er Hstep); intros _; reflexivity.
    + exists w. split; [eapply (invB_rcvSyncRespLoop cfg w s p ch s'); eauto|]. apply (PO_replica_step w w s p ch s' IA IB IA' HPO Er Hstep); intros _; reflexivity.
    + exists w. split; [eapply (invB_rcvMsg cfg w s p ch s'); eauto|]. apply (PO_replica_step w w s p ch s' IA IB IA' HPO Er Hstep); intros _; reflexivity.
    + exists w. split; [eapply (invB_handleBackup cfg w s p ch s'); eauto|]. apply (PO_replica_step w w s p ch s' IA IB IA' HPO Er Hstep); intros _; reflexivity.
    + destruct (invB_handlePrimary cfg w s p ch s' IA IB Ap) as (w' & IB'); [unfold pcr; exact Epc | exact Hs|].
      exists w'. split; [exact IB'|]. apply (PO_replica_step w w' s p ch s' IA IB IA' HPO Er Hstep). intros N. unfold pcr in N. contradiction.
    + exists w. split; [eapply (invB_sndReplicaReqLoop cfg w s p ch s'); eauto|]. apply (PO_replica_step w w s p ch s' IA IB IA' HPO Er Hstep); intros _; reflexivity.
    + exists w. split; [eapply (invB_rcvReplicaRespLoop cfg w s p ch s'); eauto|]. apply (PO_replica_step w w s p ch s' IA IB IA' HPO Er Hstep); intros _; reflexivity.
    + exists w. split; [eapply (invB_sndResp cfg w s p ch s'); eauto|]. apply (PO_replica_step w w s p ch s' IA IB IA' HPO Er Hstep); intros _; reflexivity.
    + exists w. split; [eapply (invB_failLabel cfg w s p ch s'); eauto|]. apply (PO_replica_step w w s p ch s' IA IB IA' HPO Er Hstep); intros _; reflexivity.
    + discriminate.
  - destruct (is_client cfg p) eqn:Ec; [|discriminate]. exists w. split.
    + apply (invB_client_step cfg w s p ch s' IA IB); [apply is_client_true in Ec; lia | exact Hstep].
    + eapply PO_client_step; eauto.
Qed.

Lemma INV_reachable : forall input s, Forall input_ok input -> reachable cfg input s -> INV s.
Proof. intros input s Hin Hr. induction Hr; [apply INV_init; exact Hin | eapply INV_step; eauto]. Qed.

(* the version assertion of handleBackup *)
Lemma INV_req_not_older : forall s p, INV s -> isrep cfg p -> pcr s p = HandleBackup -> req_not_older s p.
Proof.
  intros s p (IA & w & IB & HPO) Hp Epc m Hreq Ht.
  assert (Ap : alive s p) by (split; [exact Hp | rewrite Epc; reflexivity]).
  destruct (HPO p Ap) as [N _]. unfold rawpend in N. unfold pcr in Epc. rewrite Epc, Hreq in N. cbn [app po] in N.
  destruct N as [N _]. apply N. split; [|exact Ht].
  destruct (a_loc cfg s IA p Ap) as (_ & L2 & _). destruct (L2 Epc) as (m' & E' & (Hsrc & _)). congruence.
Qed.

End POSEC.

(* ------------------------------------------------------------------ 5. assembled: every label except the three "receive an answer" labels *)
Definition at_answer_label (cfg : config) (s : state) (p : node) : Prop :=
  (is_replica cfg p = true /\ (r_pc (rl s p) = RcvSyncRespLoop \/ r_pc (rl s p) = RcvReplicaRespLoop)) \/
  (is_replica cfg p = false /\ c_pc (cl s p) = RcvResp).

Lemma assertion_free_crash_lemma : forall cfg input evs s p ch,
  Forall input_ok input -> exec cfg (init cfg input) evs = Some s -> ~ at_answer_label cfg s p ->
  step cfg s (Ev p ch) <> AssertFail /\ step cfg s (Ev p ch) <> TypeErr.
Proof.
  intros cfg input evs s p ch Hin He Hna. apply okout_spec.
  assert (Hr : reachable cfg input s) by (eapply exec_reachable; [apply reach_init | exact He]).
  pose proof (invA_reachable cfg input s Hin Hr) as IA.
  pose proof (W_reachable cfg input s Hin Hr) as HW.
  pose proof (INV_reachable cfg input s Hin Hr) as HI.
  assert (Had : addressed (net s)) by (intros n c m Hm; eapply queued_messages_addressed_lemma; eauto).
  unfold step. destruct (is_replica cfg p) eqn:Er.
  - pose proof Er as Hp. apply (isrep_iff cfg) in Hp.
    apply (no_fail_replica cfg s p ch IA HW Had Hp).
    + intros E. apply Hna. left. unfold pcr in E. auto.
    + intros E. apply Hna. left. unfold pcr in E. auto.
    + intros E. apply (INV_req_not_older cfg s p HI Hp E).
  - destruct (is_client cfg p); [|exact I]. apply (no_fail_client cfg s p ch HW).
    intros E. apply Hna. right. auto.
Qed.

Lemma put_bodies_wellformed_lemma : forall cfg input evs s,
  Forall input_ok input -> exec cfg (init cfg input) evs = Some s -> W s.
Proof.
  intros cfg input evs s Hin He. apply (W_reachable cfg input s Hin). eapply exec_reachable; [apply reach_init | exact He].
Qed.

Lemma pending_put_not_older_lemma : forall cfg input evs s p m,
  Forall input_ok input -> exec cfg (init cfg input) evs = Some s ->
  is_replica cfg p = true -> r_pc (rl s p) = HandleBackup -> r_req (rl s p) = Some m -> m_typ m = PUT_REQ ->
  Kv (r_lastPutBody (rl s p)) <= Kv (m_body m).
Proof.
  intros cfg input evs s p m Hin He Hp Epc Hreq Ht.
  assert (Hr : reachable cfg input s) by (eapply exec_reachable; [apply reach_init | exact He]).
  apply (INV_req_not_older cfg s p (INV_reachable cfg input s Hin Hr)); auto. apply (isrep_iff cfg). exact Hp.
Qed.

Lemma put_bodies_content_lemma : forall cfg input evs s,
  Forall input_ok input -> exec cfg (init cfg input) evs = Some s ->
  (forall r, exists ver c, r_lastPutBody (rl s r) = BPut ver c /\ (1 <= ver -> exists k v, c = Some (k, v))) /\
  (forall n c m, In m (queue (net s n c)) -> m_src m <> CLIENT_SRC -> m_typ m = PUT_REQ ->
     exists ver k v, m_body m = BPut ver (Some (k, v)) /\ 1 <= ver) /\
  (forall n c m, In m (queue (net s n c)) -> m_src m <> CLIENT_SRC -> (m_typ m = SYNC_REQ \/ m_typ m = SYNC_RESP) ->
     exists ver c, m_body m = BPut ver c /\ (1 <= ver -> exists k v, c = Some (k, v))).
Proof.
  intros cfg input evs s Hin He. destruct (put_bodies_wellformed_lemma cfg input evs s Hin He) as (Hq & Hr & _).
  assert (F : forall ver (c : option (key * value)), (1 <= ver -> c <> None) -> 1 <= ver -> exists k v, c = Some (k, v)).
  { intros ver [[k v]|] H1 H2; [eauto | exfalso; apply (H1 H2); reflexivity]. }
  split; [|split].
  - intros r. destruct (Hr r) as ((ver & c & E & Hc) & _). exists ver, c. split; [exact E | apply F; exact Hc].
  - intros n c m Hm Hs Ht. destruct (Hq n c m Hm Hs (or_introl Ht)) as [(ver & c0 & E & Hc) Hk].
    specialize (Hk Ht). rewrite E in Hk. cbn in Hk. destruct (F ver c0 Hc Hk) as (k & v & ->). exists ver, k, v. auto.
  - intros n c m Hm Hs Ht. destruct (Hq n c m Hm Hs) as [(ver & c0 & E & Hc) _]; [tauto|]. exists ver, c0. split; [exact E | apply F; exact Hc].
Qed.
