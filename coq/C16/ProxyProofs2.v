(* C16 / proxy — no assertion of the spec fails and no action is ill-typed: message well-formedness per queue,
   who may disable which link, the proxy's and servers' local records, and the one-outstanding-request token of
   every client (its request is in the proxy's mailbox, or held by the proxy, or answered in the client's
   mailbox — exactly one of these while the client waits, none otherwise — and always carries the client's
   current request id). Holds for either failure detector mapping. *)
From PGV Require Import C16.Proxy C16.ProxyProofs.
From Coq Require Import Lia.
Local Arguments Nat.eqb : simpl never.
Local Arguments Nat.leb : simpl never.
Local Arguments Nat.modulo : simpl never.

Section WithConfig.
Variable g : config.
Let P := ProxyID g.

Definition is_server (j : nat) : Prop := 1 <= j <= NS g.
Definition is_client (c : nat) : Prop := NS g + 1 <= c <= NS g + NC g.

Fixpoint cntf (c : nat) (l : list pmsg) : nat :=
  match l with [] => 0 | m :: r => (if Nat.eqb (m_from m) c then 1 else 0) + cntf c r end.

Lemma cntf_app : forall c a b, cntf c (a ++ b) = cntf c a + cntf c b.
Proof. intros c a b. induction a; simpl; lia. Qed.

(* the proxy is working on a request of client c *)
Definition held (s : state) (c : nat) : nat :=
  match ppc_ s, p_msg s with
  | PLoop, _ => 0
  | _, Some m => if Nat.eqb (m_from m) c then 1 else 0
  | _, None => 0
  end.
Definition waiting (p : cpc) : nat := match p with CRcv => 1 | _ => 0 end.

Record AInv (s : state) : Prop := mkA {
  a_req : forall m, In m (queue s P REQ) ->
          m_to m = P /\ m_typ m = REQ /\ is_client (m_from m) /\ m_id m = c_reqId s (m_from m);
  a_preq : forall j m, In m (queue s j PROXY_REQ) -> m_to m = j /\ m_from m = P /\ m_typ m = PROXY_REQ;
  a_presp : forall m, In m (queue s P PROXY_RESP) -> m_to m = P /\ m_typ m = PROXY_RESP;
  a_resp : forall c m, is_client c -> In m (queue s c RESP) ->
           m_to m = c /\ m_from m = P /\ m_typ m = RESP /\ m_id m = c_reqId s c;
  a_enP : forall t, enabled s P t = true;
  a_enC : forall c t, is_client c -> enabled s c t = true;
  a_enS : forall j, is_server j -> (spc_ s j = SLoop \/ spc_ s j = SRcv \/ spc_ s j = SSend) ->
          enabled s j PROXY_REQ = true;
  a_proxy : ppc_ s <> PLoop ->
            exists m i, p_msg s = Some m /\ is_client (m_from m) /\ m_id m = c_reqId s (m_from m) /\
                        p_idx s = Some i /\ 1 <= i /\ (ppc_ s = PRcv -> i <= NS g) /\ p_proxyResp s <> None;
  a_srv : forall j, is_server j -> spc_ s j = SSend -> exists m, s_msg s j = Some m /\ m_from m = P;
  a_tok : forall c, is_client c -> cntf c (queue s P REQ) + held s c + List.length (queue s c RESP) = waiting (cpc_ s c)
}.

Lemma a_init : AInv init.
Proof.
  constructor; simpl; intros; try contradiction; try reflexivity; try congruence; try discriminate.
Qed.

Ltac deq := repeat match goal with
  | |- context [Nat.eqb ?a ?b] => destruct (Nat.eqb_spec a b)
  | H : context [Nat.eqb ?a ?b] |- _ => destruct (Nat.eqb_spec a b)
  end.

Lemma upd2_same : forall (q : nat -> nat -> list pmsg) k t v, upd2 q k t v k t = v.
Proof. intros. unfold upd2. rewrite !Nat.eqb_refl. reflexivity. Qed.
Lemma upd2_other : forall (q : nat -> nat -> list pmsg) k t v d t', (d <> k \/ t' <> t) -> upd2 q k t v d t' = q d t'.
Proof. intros q k t v d t' H. unfold upd2. destruct (Nat.eqb_spec d k); destruct (Nat.eqb_spec t' t); simpl; try reflexivity. lia. Qed.
Lemma upd2b_other : forall (q : nat -> nat -> bool) k t v d t', (d <> k \/ t' <> t) -> upd2 q k t v d t' = q d t'.
Proof. intros q k t v d t' H. unfold upd2. destruct (Nat.eqb_spec d k); destruct (Nat.eqb_spec t' t); simpl; try reflexivity. lia. Qed.

(* steps that touch neither the proxy's request mailbox, nor a client mailbox / pc / request id, nor the request
   the proxy holds *)
Lemma a_frame : forall s s',
  AInv s ->
  queue s' P REQ = queue s P REQ ->
  (forall c, is_client c -> queue s' c RESP = queue s c RESP) ->
  (forall j m, In m (queue s' j PROXY_REQ) -> In m (queue s j PROXY_REQ) \/ (m_to m = j /\ m_from m = P /\ m_typ m = PROXY_REQ)) ->
  (forall m, In m (queue s' P PROXY_RESP) -> In m (queue s P PROXY_RESP) \/ (m_to m = P /\ m_typ m = PROXY_RESP)) ->
  c_reqId s' = c_reqId s -> cpc_ s' = cpc_ s ->
  (forall t, enabled s' P t = enabled s P t) ->
  (forall c t, is_client c -> enabled s' c t = enabled s c t) ->
  (forall j, is_server j -> (spc_ s' j = SLoop \/ spc_ s' j = SRcv \/ spc_ s' j = SSend) -> enabled s' j PROXY_REQ = true) ->
  (ppc_ s' <> PLoop ->
     exists m i, p_msg s' = Some m /\ is_client (m_from m) /\ m_id m = c_reqId s (m_from m) /\
                 p_idx s' = Some i /\ 1 <= i /\ (ppc_ s' = PRcv -> i <= NS g) /\ p_proxyResp s' <> None) ->
  (forall c, held s' c = held s c) ->
  (forall j, is_server j -> spc_ s' j = SSend -> exists m, s_msg s' j = Some m /\ m_from m = P) ->
  AInv s'.
Proof.
  intros s s' [Ar Apq Aps Ars AeP AeC AeS Apx Asv At] Eq Ec Hpq Hps Eid Epc EeP EeC HeS Hpx Hheld Hsv.
  constructor; rewrite ?Eq, ?Eid, ?Epc; auto.
  - intros j m Hin. destruct (Hpq j m Hin) as [H|H]; [eapply Apq; eauto|exact H].
  - intros m Hin. destruct (Hps m Hin) as [H|H]; [eapply Aps; eauto|exact H].
  - intros c m Hc. rewrite (Ec c Hc). apply Ars. exact Hc.
  - intros t. rewrite EeP. apply AeP.
  - intros c t Hc. rewrite (EeC c t Hc). apply AeC. exact Hc.
  - intros c Hc. rewrite (Ec c Hc), Hheld. apply At. exact Hc.
Qed.

Lemma P_not_server : ~ is_server P.
Proof. unfold is_server, P, ProxyID. lia. Qed.
Lemma P_not_client : ~ is_client P.
Proof. unfold is_client, P, ProxyID. lia. Qed.
Lemma server_not_client : forall j, is_server j -> ~ is_client j.
Proof. unfold is_server, is_client. intros; lia. Qed.

Ltac rsplit := repeat match goal with |- _ /\ _ => split end.
Ltac typs := unfold REQ, RESP, PROXY_REQ, PROXY_RESP in *.

(* In on an updated queue map *)
Lemma upd2_in' : forall (q : nat -> nat -> list pmsg) k t v d t' m,
  In m (upd2 q k t v d t') -> (In m (q d t') /\ (d <> k \/ t' <> t)) \/ (d = k /\ t' = t /\ In m v).
Proof.
  intros q k t v d t' m. unfold upd2. destruct (Nat.eqb_spec d k); destruct (Nat.eqb_spec t' t); simpl; auto.
Qed.

Lemma skip_ainv : forall s i s', AInv s -> (ppc_ s = PServers \/ ppc_ s = PRcv) -> p_idx s = Some i ->
  skip_server g s i = Ok s' -> AInv s'.
Proof.
  intros s i s' A Hpc Hi H. unfold skip_server in H. destruct (negb (in_nodes g i)); [discriminate|].
  destruct (fd s i); [|discriminate]. injection H as <-.
  apply (a_frame s); auto; simpl; try (intros; reflexivity).
  - apply (a_enS _ A).
  - intros _. destruct (a_proxy _ A) as (m & i' & Hm & Hc & Hid & Hi' & Hge & _ & Hpr); [destruct Hpc as [-> | ->]; discriminate|].
    rewrite Hi in Hi'. injection Hi' as <-. exists m, (i + 1). rsplit; auto; try lia. discriminate.
  - intros c. unfold held. simpl. destruct Hpc as [-> | ->]; reflexivity.
  - apply (a_srv _ A).
Qed.

Lemma step_ainv : forall s e s', AInv s -> step g s e = Ok s' -> AInv s'.
Proof.
  intros s [p br] s' A H. unfold step in H. fold P in H.
  destruct (Nat.eqb_spec p P) as [->|Hp].
  - (* proxy *)
    unfold proxy_step in H. fold P in H. destruct (ppc_ s) eqn:Hpc.
    + (* proxyLoop: takes a client's request *)
      destruct (negb (enabled s P REQ)); [discriminate|].
      destruct (queue s P REQ) as [|m rest] eqn:Hq; [discriminate|].
      destruct (Nat.eqb (m_to m) P && Nat.eqb (m_typ m) REQ); [|discriminate]. injection H as <-.
      destruct (a_req _ A m) as (Hto & Hty & Hcl & Hid); [rewrite Hq; left; reflexivity|].
      pose proof A as [Ar Apq Aps Ars AeP AeC AeS Apx Asv At]. constructor; simpl.
      * intros m0 Hin. rewrite upd2_same in Hin. apply Ar. rewrite Hq. right. exact Hin.
      * intros j m0 Hin. rewrite upd2_other in Hin by (typs; lia). eapply Apq; eauto.
      * intros m0 Hin. rewrite upd2_other in Hin by (typs; lia). eapply Aps; eauto.
      * intros c m0 Hc Hin. rewrite upd2_other in Hin by (typs; lia). eapply Ars; eauto.
      * exact AeP.
      * exact AeC.
      * exact AeS.
      * intros _. exists m, 1. rsplit; auto; try lia; discriminate.
      * exact Asv.
      * intros c Hc. specialize (At c Hc). rewrite upd2_same. rewrite upd2_other by (typs; lia).
        unfold held in *. simpl. rewrite Hpc in At. rewrite Hq in At. simpl in At. lia.
    + (* serversLoop *)
      destruct (p_idx s) as [i|] eqn:Hi; [|discriminate].
      destruct (Nat.leb_spec i (NS g)) as [Hle|Hgt].
      * destruct br as [|br]; [|eapply skip_ainv; eauto].
        destruct (p_msg s) as [m|] eqn:Hm; [|discriminate]. apply send_ok in H. injection H as <-.
        destruct (a_proxy _ A) as (m' & i' & Hm' & Hc & Hid & Hi' & Hge & _ & Hpr); [rewrite Hpc; discriminate|].
        rewrite Hm in Hm'. injection Hm' as <-. rewrite Hi in Hi'. injection Hi' as <-.
        apply (a_frame s); auto; simpl.
        -- rewrite upd2_other by (typs; lia). reflexivity.
        -- intros c Hc0. rewrite upd2_other by (typs; lia). reflexivity.
        -- intros j m0 Hin. apply upd2_in' in Hin. destruct Hin as [[Hin _]|(-> & _ & Hin)]; [auto|].
           apply in_app_or in Hin. destruct Hin as [Hin|[<-|[]]]; [auto|]. right. simpl. auto.
        -- intros m0 Hin. rewrite upd2_other in Hin by (typs; lia). auto.
        -- apply (a_enS _ A).
        -- intros _. exists m, i. rsplit; auto.
        -- intros c. unfold held. simpl. rewrite Hpc, Hm. reflexivity.
        -- apply (a_srv _ A).
      * injection H as <-. apply (a_frame s); auto; simpl; try (intros; reflexivity).
        -- apply (a_enS _ A).
        -- intros _. destruct (a_proxy _ A) as (m' & i' & Hm' & Hc & Hid & Hi' & Hge & _ & Hpr); [rewrite Hpc; discriminate|].
           rewrite Hi in Hi'. injection Hi' as <-. exists m', i. rsplit; auto. discriminate.
        -- intros c. unfold held. simpl. rewrite Hpc. reflexivity.
        -- apply (a_srv _ A).
    + (* proxyRcvMsg *)
      destruct br as [|br].
      * destruct (negb (enabled s P PROXY_RESP)); [discriminate|].
        destruct (queue s P PROXY_RESP) as [|tmp rest] eqn:Hq; [discriminate|].
        destruct (p_idx s) as [i|] eqn:Hi; [|discriminate]. destruct (p_msg s) as [m|] eqn:Hm; [|discriminate].
        destruct (a_proxy _ A) as (m' & i' & Hm' & Hc & Hid & Hi' & Hge & Hle & Hpr); [rewrite Hpc; discriminate|].
        rewrite Hm in Hm'. injection Hm' as <-. rewrite Hi in Hi'. injection Hi' as <-.
        assert (Hs' : (s' = set_net s (upd2 (queue s) P PROXY_RESP rest) (enabled s)) \/
                      (s' = set_proxy (set_net s (upd2 (queue s) P PROXY_RESP rest) (enabled s)) (Some m) (p_proxyMsg s) (Some i) (p_resp s) (Some tmp) PSend)).
        { destruct (negb (Nat.eqb (m_from tmp) i) || negb (Nat.eqb (m_id tmp) (m_id m))); [injection H as <-; auto|].
          destruct (Nat.eqb (m_to tmp) P && Nat.eqb (m_typ tmp) PROXY_RESP); [|discriminate]. injection H as <-. auto. }
        destruct Hs' as [-> | ->]; apply (a_frame s); auto; simpl;
          try (rewrite upd2_other by (typs; lia); reflexivity);
          try (intros c Hc0; rewrite upd2_other by (typs; lia); reflexivity);
          try (intros j m0 Hin; rewrite upd2_other in Hin by (typs; lia); auto);
          try (intros m0 Hin; rewrite upd2_same in Hin; left; rewrite Hq; right; exact Hin);
          try apply (a_enS _ A); try apply (a_srv _ A);
          try (intros c; unfold held; simpl; rewrite ?Hpc, ?Hm; reflexivity).
        -- intros _. rewrite Hpc. exists m, i. rsplit; auto.
        -- intros _. exists m, i. rsplit; auto; discriminate.
      * destruct (p_idx s) as [i|] eqn:Hi; [|discriminate]. eapply skip_ainv; eauto.
    + (* sendMsgToClient: the answer goes to the client whose request the proxy holds *)
      destruct (p_msg s) as [m|] eqn:Hm; [|discriminate]. destruct (p_proxyResp s) as [pr|] eqn:Hpr; [|discriminate].
      apply send_ok in H. injection H as <-.
      destruct (a_proxy _ A) as (m' & i' & Hm' & Hc & Hid & Hi' & Hge & _ & _); [rewrite Hpc; discriminate|].
      rewrite Hm in Hm'. injection Hm' as <-.
      pose proof A as [Ar Apq Aps Ars AeP AeC AeS Apx Asv At]. constructor; simpl.
      * intros m0 Hin. rewrite upd2_other in Hin by (typs; lia). auto.
      * intros j m0 Hin. rewrite upd2_other in Hin by (typs; lia). eapply Apq; eauto.
      * intros m0 Hin. rewrite upd2_other in Hin by (typs; lia). eapply Aps; eauto.
      * intros c m0 Hc0 Hin. apply upd2_in' in Hin. destruct Hin as [[Hin _]|(-> & _ & Hin)]; [eapply Ars; eauto|].
        apply in_app_or in Hin. destruct Hin as [Hin|[<-|[]]]; [eapply Ars; eauto|]. simpl. auto.
      * exact AeP.
      * exact AeC.
      * exact AeS.
      * congruence.
      * exact Asv.
      * intros c Hc0. specialize (At c Hc0). unfold held in *. simpl. rewrite Hpc, Hm in At.
        rewrite upd2_other by (typs; lia).
        destruct (Nat.eq_dec c (m_from m)) as [->|Hne].
        -- rewrite upd2_same, app_length. rewrite Nat.eqb_refl in At. simpl. lia.
        -- rewrite upd2_other by (left; congruence). destruct (Nat.eqb_spec (m_from m) c); [congruence|]. lia.
  - destruct (Nat.leb_spec 1 p); simpl in H.
    2:{ destruct (Nat.leb_spec (NS g + 1) p); [lia|discriminate]. }
    destruct (Nat.leb_spec p (NS g)); simpl in H.
    + (* server p *)
      assert (Hsrv : is_server p) by (unfold is_server; lia).
      assert (HpP : p <> P) by exact Hp.
      unfold server_step in H. fold P in H. destruct (spc_ s p) eqn:Hpc.
      * (* serverLoop *)
        assert (Hs' : s' = set_server s p (s_msg s p) (s_resp s p) SRcv \/ s' = fail_now s p).
        { destruct (EXPLORE_FAIL g); [destruct br|]; injection H as <-; auto. }
        destruct Hs' as [-> | ->]; apply (a_frame s); auto; simpl; try (intros; reflexivity);
          try (apply (a_proxy _ A)).
        -- intros j Hj. unfold upd. destruct (Nat.eqb_spec j p) as [->|]; [intros _; apply (a_enS _ A); auto|apply (a_enS _ A); exact Hj].
        -- intros j Hj. unfold upd. destruct (Nat.eqb_spec j p); [discriminate|apply (a_srv _ A); exact Hj].
        -- intros t. rewrite upd2b_other by (left; congruence). reflexivity.
        -- intros c t Hc. rewrite upd2b_other by (left; intros ->; exact (server_not_client p Hsrv Hc)). reflexivity.
        -- intros j Hj. unfold upd. destruct (Nat.eqb_spec j p) as [->|]; [intros [E|[E|E]]; discriminate|].
           intros Hj'. rewrite upd2b_other by (left; assumption). apply (a_enS _ A); auto.
        -- intros j Hj. unfold upd. destruct (Nat.eqb_spec j p); [discriminate|apply (a_srv _ A); exact Hj].
      * (* serverRcvMsg *)
        destruct (negb (enabled s p PROXY_REQ)); [discriminate|].
        destruct (queue s p PROXY_REQ) as [|m rest] eqn:Hq; [discriminate|].
        destruct (Nat.eqb (m_to m) p && Nat.eqb (m_from m) P && Nat.eqb (m_typ m) PROXY_REQ) eqn:Hchk; [|discriminate].
        assert (Hfrom : m_from m = P).
        { apply andb_prop in Hchk. destruct Hchk as [Hchk _]. apply andb_prop in Hchk. destruct Hchk as [_ E]. apply Nat.eqb_eq in E. exact E. }
        set (s1 := set_server (set_net s (upd2 (queue s) p PROXY_REQ rest) (enabled s)) p (Some m) (s_resp s p) SSend) in *.
        assert (Hs' : s' = s1 \/ s' = fail_now s1 p).
        { destruct (EXPLORE_FAIL g); [destruct br|]; injection H as <-; auto. }
        destruct Hs' as [-> | ->]; apply (a_frame s); auto; simpl;
          try (rewrite upd2_other by (left; congruence); reflexivity);
          try (intros c Hc0; rewrite upd2_other by (typs; lia); reflexivity);
          try (intros m0 Hin; rewrite upd2_other in Hin by (typs; lia); auto);
          try (apply (a_proxy _ A)); try (intros; reflexivity).
        -- intros j m0 Hin. apply upd2_in' in Hin. destruct Hin as [[Hin _]|(-> & _ & Hin)]; [auto|]. left. rewrite Hq. right. exact Hin.
        -- intros j Hj. unfold upd. destruct (Nat.eqb_spec j p) as [->|]; [intros _; apply (a_enS _ A); auto|apply (a_enS _ A); exact Hj].
        -- intros j Hj. unfold upd. destruct (Nat.eqb_spec j p) as [->|]; [intros _; eexists; split; [reflexivity|exact Hfrom]|apply (a_srv _ A); exact Hj].
        -- intros j m0 Hin. apply upd2_in' in Hin. destruct Hin as [[Hin _]|(-> & _ & Hin)]; [auto|]. left. rewrite Hq. right. exact Hin.
        -- intros t. rewrite upd2b_other by (left; congruence). reflexivity.
        -- intros c t Hc. rewrite upd2b_other by (left; intros ->; exact (server_not_client p Hsrv Hc)). reflexivity.
        -- intros j Hj. unfold upd. destruct (Nat.eqb_spec j p) as [->|Hne]; [intros [E|[E|E]]; discriminate|].
           intros Hj'. rewrite upd2b_other by (left; exact Hne). apply (a_enS _ A); auto.
        -- intros j Hj. unfold upd. destruct (Nat.eqb_spec j p) as [->|Hne]; [discriminate|].
           intros Hj'. apply (a_srv _ A); auto.
      * (* serverSendMsg *)
        destruct (a_srv _ A p Hsrv Hpc) as (m & Hm & Hfrom). rewrite Hm in H. apply send_ok in H. rewrite Hfrom in H.
        destruct (EXPLORE_FAIL g); [destruct br|]; injection H as <-;
          (apply (a_frame s); auto; simpl;
           try (rewrite upd2_other by (typs; lia); reflexivity);
           try (intros c Hc0; rewrite upd2_other by (typs; lia); reflexivity);
           try (intros j m0 Hin; rewrite upd2_other in Hin by (typs; lia); auto);
           try (intros m0 Hin; rewrite upd2_same in Hin; apply in_app_or in Hin; destruct Hin as [Hin|[<-|[]]]; [auto|right; simpl; auto]);
           try (apply (a_proxy _ A)); try (intros; reflexivity)).
        -- intros j Hj. unfold upd. destruct (Nat.eqb_spec j p) as [->|]; [intros _; apply (a_enS _ A); auto|apply (a_enS _ A); exact Hj].
        -- intros j Hj. unfold upd. rewrite ?Nat.eqb_refl. destruct (Nat.eqb_spec j p); [discriminate|]. intros Hj'. apply (a_srv _ A); auto.
        -- intros t. rewrite upd2b_other by (left; congruence). reflexivity.
        -- intros c t Hc. rewrite upd2b_other by (left; intros ->; exact (server_not_client p Hsrv Hc)). reflexivity.
        -- intros j Hj. unfold upd. rewrite ?Nat.eqb_refl. destruct (Nat.eqb_spec j p) as [->|]; [intros [E|[E|E]]; discriminate|].
           intros Hj'. rewrite upd2b_other by (left; assumption). apply (a_enS _ A); auto.
        -- intros j Hj. unfold upd. rewrite ?Nat.eqb_refl. destruct (Nat.eqb_spec j p); [discriminate|]. intros Hj'. apply (a_srv _ A); auto.
        -- intros j Hj. unfold upd. destruct (Nat.eqb_spec j p) as [->|]; [intros _; apply (a_enS _ A); auto|apply (a_enS _ A); exact Hj].
        -- intros j Hj. unfold upd. rewrite ?Nat.eqb_refl. destruct (Nat.eqb_spec j p); [discriminate|]. intros Hj'. apply (a_srv _ A); auto.
      * (* failLabel *)
        injection H as <-. apply (a_frame s); auto; simpl; try (intros; reflexivity); try (apply (a_proxy _ A)).
        -- intros j Hj. unfold upd. destruct (Nat.eqb_spec j p) as [->|]; [intros [E|[E|E]]; discriminate|apply (a_enS _ A); exact Hj].
        -- intros j Hj. unfold upd. destruct (Nat.eqb_spec j p); [discriminate|apply (a_srv _ A); exact Hj].
      * discriminate.
    + destruct (Nat.leb_spec (NS g + 1) p); simpl in H; [|discriminate].
      destruct (Nat.leb_spec p (NS g + NC g)); [|discriminate].
      (* client p *)
      assert (Hcl : is_client p) by (unfold is_client; lia).
      unfold client_step in H. fold P in H. destruct (cpc_ s p) eqn:Hpc.
      * destruct (CLIENT_RUN g).
        -- (* clientLoop: a new request; the client had none outstanding *)
           apply send_ok in H. injection H as <-.
           pose proof A as [Ar Apq Aps Ars AeP AeC AeS Apx Asv At].
           pose proof (At p Hcl) as Tp. rewrite Hpc in Tp. simpl in Tp.
           constructor; simpl.
           ++ intros m0 Hin. rewrite upd2_same in Hin. apply in_app_or in Hin. unfold upd.
              destruct Hin as [Hin|[<-|[]]].
              ** destruct (Ar m0 Hin) as (A1 & A2 & A3 & A4). rsplit; auto.
                 unfold upd; deq; subst; try congruence; auto.
              ** simpl. rsplit; auto. unfold upd; deq; subst; try congruence; auto.
           ++ intros j m0 Hin. rewrite upd2_other in Hin by (typs; lia). eapply Apq; eauto.
           ++ intros m0 Hin. rewrite upd2_other in Hin by (typs; lia). eapply Aps; eauto.
           ++ intros c m0 Hc0 Hin. rewrite upd2_other in Hin by (typs; lia). unfold upd.
              destruct (Ars c m0 Hc0 Hin) as (A1 & A2 & A3 & A4). rsplit; auto.
              unfold upd; deq; subst; try congruence; auto.
           ++ exact AeP.
           ++ exact AeC.
           ++ exact AeS.
           ++ intros Hne. destruct (Apx Hne) as (m & i & B1 & B2 & B3 & B4). exists m, i. rsplit; try tauto.
              unfold upd; deq; subst; try congruence; auto.
           ++ exact Asv.
           ++ intros c Hc0. specialize (At c Hc0). rewrite upd2_same, cntf_app. rewrite upd2_other by (typs; lia).
              unfold held in *. simpl. unfold upd. destruct (Nat.eqb_spec c p) as [->|].
              ** simpl. rewrite Nat.eqb_refl. simpl. lia.
              ** simpl. destruct (Nat.eqb_spec p c); [congruence|]. lia.
        -- injection H as <-. pose proof A as [Ar Apq Aps Ars AeP AeC AeS Apx Asv At].
           pose proof (At p Hcl) as Tp. rewrite Hpc in Tp. simpl in Tp.
           constructor; simpl; auto.
           ++ intros m0 Hin. unfold upd. destruct (Ar m0 Hin) as (A1 & A2 & A3 & A4). rsplit; auto.
              unfold upd; deq; subst; try congruence; auto.
           ++ intros c m0 Hc0 Hin. unfold upd. destruct (Ars c m0 Hc0 Hin) as (A1 & A2 & A3 & A4). rsplit; auto.
              unfold upd; deq; subst; try congruence; auto.
           ++ intros Hne. destruct (Apx Hne) as (m & i & B1 & B2 & B3 & B4). exists m, i. rsplit; try tauto.
              unfold upd; deq; subst; try congruence; auto.
           ++ intros c Hc0. specialize (At c Hc0). unfold held in *. simpl. unfold upd.
              destruct (Nat.eqb_spec c p) as [->|]; [rewrite Hpc in At; simpl in *; lia|exact At].
      * (* clientRcvResp: the only outstanding item of this client is the answer it takes *)
        destruct (negb (enabled s p RESP)); [discriminate|].
        destruct (queue s p RESP) as [|m rest] eqn:Hq; [discriminate|].
        destruct (Nat.eqb (m_to m) p && Nat.eqb (m_id m) (c_reqId s p) && Nat.eqb (m_from m) P && Nat.eqb (m_typ m) RESP); [|discriminate].
        injection H as <-.
        pose proof A as [Ar Apq Aps Ars AeP AeC AeS Apx Asv At].
        pose proof (At p Hcl) as Tp. rewrite Hpc, Hq in Tp. simpl in Tp.
        assert (Hrest : rest = []) by (destruct rest; [reflexivity|simpl in Tp; lia]).
        assert (Hno : cntf p (queue s P REQ) = 0 /\ held s p = 0) by lia.
        assert (Hcnt : forall l c, cntf c l = 0 -> forall m0, In m0 l -> m_from m0 <> c).
        { intros l c. induction l as [|x l IH]; simpl; intros E m0 Hin; [contradiction|].
          destruct (Nat.eqb_spec (m_from x) c); [lia|]. destruct Hin as [<-|Hin]; [assumption|apply IH; [lia|exact Hin]]. }
        constructor; simpl; auto.
        -- intros m0 Hin. rewrite upd2_other in Hin by (typs; lia). unfold upd.
           destruct (Ar m0 Hin) as (A1 & A2 & A3 & A4). rsplit; auto.
           destruct (Nat.eqb_spec (m_from m0) p) as [E|]; [exfalso; exact (Hcnt _ _ (proj1 Hno) m0 Hin E)|exact A4].
        -- intros j m0 Hin. rewrite upd2_other in Hin by (typs; lia). eapply Apq; eauto.
        -- intros m0 Hin. rewrite upd2_other in Hin by (typs; lia). eapply Aps; eauto.
        -- intros c m0 Hc0 Hin. apply upd2_in' in Hin. destruct Hin as [[Hin Hd]|(-> & _ & Hin)].
           ++ unfold upd. destruct (Nat.eqb_spec c p) as [->|]; [destruct Hd as [Hd|Hd]; congruence|]. eapply Ars; eauto.
           ++ subst rest. contradiction.
        -- intros Hne. destruct (Apx Hne) as (m0 & i & B1 & B2 & B3 & B4). exists m0, i. rsplit; try tauto.
           unfold upd. destruct (Nat.eqb_spec (m_from m0) p) as [E|]; [|exact B3].
           exfalso. destruct Hno as [_ Hh]. unfold held in Hh. rewrite B1 in Hh. destruct (ppc_ s); [congruence|..];
             rewrite E, Nat.eqb_refl in Hh; discriminate.
        -- intros c Hc0. specialize (At c Hc0). rewrite upd2_other by (typs; lia). unfold held in *. simpl. unfold upd.
           destruct (Nat.eqb_spec c p) as [->|].
           ++ rewrite upd2_same. subst rest. simpl. lia.
           ++ rewrite upd2_other by (left; assumption). exact At.
      * discriminate.
Qed.

Theorem a_reachable : forall s, reachable g s -> AInv s.
Proof. intros s R. induction R; [apply a_init|eapply step_ainv; eauto]. Qed.

Lemma in_nodes_ok : forall i, 1 <= i <= P -> in_nodes g i = true.
Proof. intros i H. unfold in_nodes. fold P. destruct (Nat.leb_spec 1 i); destruct (Nat.leb_spec i P); simpl; try reflexivity; lia. Qed.

Lemma send_safe : forall s m d t k, in_nodes g d = true -> in_typs t = true ->
  (forall s1, k s1 <> AssertFail /\ k s1 <> TypeError) ->
  send g s m d t k <> AssertFail /\ send g s m d t k <> TypeError.
Proof.
  intros s m d t k Hd Ht Hk. unfold send. rewrite Hd, Ht. simpl. destruct (enabled s d t); [apply Hk|split; discriminate].
Qed.

(* no assertion of the spec fails and no action is ill-typed, in any reachable state, for any event *)
Lemma safe_lemma : forall s e, reachable g s -> step g s e <> AssertFail /\ step g s e <> TypeError.
Proof.
  intros s [p br] R. pose proof (a_reachable s R) as A. unfold step. fold P.
  destruct (Nat.eqb_spec p P) as [->|Hp].
  - unfold proxy_step. fold P. destruct (ppc_ s) eqn:Hpc.
    + rewrite (a_enP _ A). simpl. destruct (queue s P REQ) as [|m rest] eqn:Hq; [split; discriminate|].
      destruct (a_req _ A m) as (Hto & Hty & _); [rewrite Hq; left; reflexivity|].
      rewrite Hto, Hty, !Nat.eqb_refl. simpl. split; discriminate.
    + destruct (a_proxy _ A) as (m & i & Hm & Hc & _ & Hi & Hge & _ & _); [rewrite Hpc; discriminate|].
      rewrite Hi. destruct (Nat.leb_spec i (NS g)); [|split; discriminate].
      destruct br as [|br].
      * rewrite Hm. apply send_safe; [apply in_nodes_ok; unfold P, ProxyID; lia|reflexivity|]. intros; split; discriminate.
      * unfold skip_server. rewrite in_nodes_ok by (unfold P, ProxyID; lia). simpl. destruct (fd s i); split; discriminate.
    + destruct (a_proxy _ A) as (m & i & Hm & Hc & _ & Hi & Hge & Hle & _); [rewrite Hpc; discriminate|].
      specialize (Hle Hpc). destruct br as [|br].
      * rewrite (a_enP _ A). simpl. destruct (queue s P PROXY_RESP) as [|tmp rest] eqn:Hq; [split; discriminate|].
        rewrite Hi, Hm. destruct (negb (Nat.eqb (m_from tmp) i) || negb (Nat.eqb (m_id tmp) (m_id m))); [split; discriminate|].
        destruct (a_presp _ A tmp) as (Hto & Hty); [rewrite Hq; left; reflexivity|].
        rewrite Hto, Hty, !Nat.eqb_refl. simpl. split; discriminate.
      * rewrite Hi. unfold skip_server. rewrite in_nodes_ok by (unfold P, ProxyID; lia). simpl. destruct (fd s i); split; discriminate.
    + destruct (a_proxy _ A) as (m & i & Hm & Hc & _ & _ & _ & _ & Hpr); [rewrite Hpc; discriminate|].
      rewrite Hm. destruct (p_proxyResp s) as [pr|]; [|congruence].
      apply send_safe; [apply in_nodes_ok; unfold is_client, P, ProxyID in *; lia|reflexivity|]. intros; split; discriminate.
  - destruct (Nat.leb_spec 1 p); simpl.
    2:{ destruct (Nat.leb_spec (NS g + 1) p); [lia|split; discriminate]. }
    destruct (Nat.leb_spec p (NS g)); simpl.
    + assert (Hsrv : is_server p) by (unfold is_server; lia).
      unfold server_step. fold P. destruct (spc_ s p) eqn:Hpc.
      * destruct (EXPLORE_FAIL g); [destruct br|]; split; discriminate.
      * rewrite (a_enS _ A p Hsrv) by auto. simpl. destruct (queue s p PROXY_REQ) as [|m rest] eqn:Hq; [split; discriminate|].
        destruct (a_preq _ A p m) as (Hto & Hfr & Hty); [rewrite Hq; left; reflexivity|].
        rewrite Hto, Hfr, Hty, !Nat.eqb_refl. simpl. destruct (EXPLORE_FAIL g); [destruct br|]; split; discriminate.
      * destruct (a_srv _ A p Hsrv Hpc) as (m & Hm & Hfrom). rewrite Hm, Hfrom.
        apply send_safe; [apply in_nodes_ok; unfold P, ProxyID; lia|reflexivity|].
        intros s1. destruct (EXPLORE_FAIL g); [destruct br|]; split; discriminate.
      * split; discriminate.
      * split; discriminate.
    + destruct (Nat.leb_spec (NS g + 1) p); simpl; [|split; discriminate].
      destruct (Nat.leb_spec p (NS g + NC g)); [|split; discriminate].
      assert (Hcl : is_client p) by (unfold is_client; lia).
      unfold client_step. fold P. destruct (cpc_ s p) eqn:Hpc.
      * destruct (CLIENT_RUN g); [|split; discriminate].
        apply send_safe; [apply in_nodes_ok; unfold P, ProxyID; lia|reflexivity|]. intros; split; discriminate.
      * rewrite (a_enC _ A p RESP Hcl). simpl. destruct (queue s p RESP) as [|m rest] eqn:Hq; [split; discriminate|].
        destruct (a_resp _ A p m Hcl) as (Hto & Hfr & Hty & Hid); [rewrite Hq; left; reflexivity|].
        rewrite Hto, Hfr, Hty, Hid, !Nat.eqb_refl. simpl. split; discriminate.
      * split; discriminate.
Qed.

(* while a client waits, its request is in exactly one place (proxy mailbox, proxy, or answered in its mailbox) *)
Lemma one_outstanding_lemma : forall s, reachable g s -> forall c, is_client c ->
  cntf c (queue s P REQ) + held s c + List.length (queue s c RESP) = waiting (cpc_ s c).
Proof. intros s R. exact (a_tok _ (a_reachable s R)). Qed.
End WithConfig.
