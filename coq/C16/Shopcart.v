(* C16 / shopcart — executable model of systems/shopcart/shopcart.tla (PlusCal translation) as instantiated by
   the spec: archetype ANodeBench (labels nodeBenchLoop, add, waitAdd) with crdt[_] mapped via AWORSet (whole
   write macro: Add / Remove, three branches each; read = Query), c[_] and out unmapped, and the spec's own process
   UpdateCRDT (label l1: pick i1, pick i2 whose state differs, Merge both ways, union the histories). Model only.

   NodeSet = 1..N, BenchNumRounds = R, ElemSet = 0..E-1 (numbers; the elements added are GetVal(n, round) =
   round * N + (n - 1)). crdt[i].addMap[e][n] is `addm s i e n`, crdt[i].remMap[e][n] is `remm s i e n`;
   c[i] is a set of pairs <<AddCmd, e>>, modelled by `know s i e`. *)
From Coq Require Export List Arith Bool.
Export ListNotations.

Inductive npc := NLoop | NAdd | NWait | NDone.

Record state := mkState {
  addm : nat -> nat -> nat -> nat;
  remm : nat -> nat -> nat -> nat;
  know : nat -> nat -> bool;
  out_ : option (nat * nat);            (* [node, event]; defaultInitValue = None *)
  rnd : nat -> nat;                     (* r[self] *)
  pc : nat -> npc
}.

Definition upd {A} (f : nat -> A) (k : nat) (v : A) : nat -> A :=
  fun x => if Nat.eqb x k then v else f x.

Definition init : state :=
  mkState (fun _ _ _ => 0) (fun _ _ _ => 0) (fun _ _ => false) None (fun _ => 0) (fun _ => NLoop).

Inductive event := ENode (p : nat) | EMerge (i1 : nat) (i2 : option nat).
Inductive outcome := Ok (s : state) | Disabled | Finished | AssertFail | TypeError | BadEvent.

Record config := mkCfg { N : nat; R : nat; E : nat }.

Definition nodes (g : config) : list nat := seq 1 (N g).
Definition elems (g : config) : list nat := seq 0 (E g).

(* v # Null, Null == [n \in NodeSet |-> 0] *)
Definition non_null (g : config) (v : nat -> nat) : bool := existsb (fun n => negb (Nat.eqb (v n) 0)) (nodes g).
(* CompareVectorClock(v1, v2): \A i \in DOMAIN v1 : v1[i] <= v2[i] *)
Definition compare (g : config) (v1 v2 : nat -> nat) : bool := forallb (fun n => Nat.leb (v1 n) (v2 n)) (nodes g).
Definition null : nat -> nat := fun _ => 0.
Definition GetVal (g : config) (n round : nat) : nat := round * N g + (n - 1).

(* Query(crdt[i]) as the list of elements of ElemSet it contains *)
Definition query (g : config) (s : state) (i : nat) : list nat :=
  filter (fun e => negb (compare g (addm s i e) (remm s i e))) (elems g).
Definition isOKSet (g : config) (xs : list nat) (round : nat) : bool :=
  forallb (fun i => existsb (Nat.eqb (GetVal g i round)) xs) (nodes g).

Definition in_range (g : config) (i : nat) : bool := Nat.leb 1 i && Nat.leb i (N g).

(* crdt[x] # crdt[i1] as records of functions over ElemSet x NodeSet *)
Definition differs (g : config) (s : state) (x i1 : nat) : bool :=
  existsb (fun e => existsb (fun n => negb (Nat.eqb (addm s x e n) (addm s i1 e n)) || negb (Nat.eqb (remm s x e n) (remm s i1 e n)))
                            (nodes g)) (elems g).

Definition node_step (g : config) (s : state) (p : nat) : outcome :=
  match pc s p with
  | NLoop =>
      if Nat.ltb (rnd s p) (R g)
      then Ok (mkState (addm s) (remm s) (know s) (out_ s) (rnd s) (upd (pc s) p NAdd))
      else Ok (mkState (addm s) (remm s) (know s) (out_ s) (rnd s) (upd (pc s) p NDone))
  | NAdd =>
      let e := GetVal g p (rnd s p) in
      if negb (Nat.ltb e (E g)) then TypeError                 (* addMap[elem] outside ElemSet *)
      else
      (* value0.cmd = AddCmd: the Add branches of the AWORSet write macro *)
      let '(a', r') :=
        if non_null g (addm s p e)
        then (upd (addm s p) e (upd (addm s p e) p (addm s p e p + 1)), upd (remm s p) e null)
        else if non_null g (remm s p e)
        then (upd (addm s p) e (upd (addm s p e) p (remm s p e p + 1)), upd (remm s p) e null)
        else (upd (addm s p) e (upd (addm s p e) p 1), remm s p) in
      Ok (mkState (upd (addm s) p a') (upd (remm s) p r')
                  (upd (know s) p (upd (know s p) e true))     (* c[self] \union {<<AddCmd, GetVal(self, r)>>} *)
                  (Some (p, 0)) (rnd s) (upd (pc s) p NWait))
  | NWait =>
      if isOKSet g (query g s p) (rnd s p)
      then Ok (mkState (addm s) (remm s) (know s) (Some (p, 1)) (upd (rnd s) p (rnd s p + 1)) (upd (pc s) p NLoop))
      else Disabled
  | NDone => Finished
  end.

Definition merge_step (g : config) (s : state) (i1 : nat) (oi2 : option nat) : outcome :=
  if negb (in_range g i1) then BadEvent
  else if negb (existsb (fun x => differs g s x i1) (nodes g)) then Disabled
  else match oi2 with
  | None => BadEvent
  | Some i2 =>
      if in_range g i2 && differs g s i2 i1 then
        let addk := fun e n => Nat.max (addm s i1 e n) (addm s i2 e n) in
        let remk := fun e n => Nat.max (remm s i1 e n) (remm s i2 e n) in
        let add0 := fun e => if compare g (addk e) (remk e) then null else addk e in
        let rem0 := fun e => if compare g (addk e) (remk e) then remk e else null in
        let cn := fun e => know s i1 e || know s i2 e in
        Ok (mkState (upd (upd (addm s) i1 add0) i2 add0) (upd (upd (remm s) i1 rem0) i2 rem0)
                    (upd (upd (know s) i1 cn) i2 cn) (out_ s) (rnd s) (pc s))
      else BadEvent
  end.

Definition step (g : config) (s : state) (e : event) : outcome :=
  match e with
  | ENode p => if in_range g p then node_step g s p else BadEvent
  | EMerge i1 oi2 => merge_step g s i1 oi2
  end.

Definition next (g : config) (s : state) (e : event) : state :=
  match step g s e with Ok s' => s' | _ => s end.
Definition run (g : config) (s : state) (evs : list event) : state := fold_left (next g) evs s.
Definition exec (g : config) (evs : list event) : state := run g init evs.

(* ------------------------------------------------------------------ correspondence check *)
Definition out_code (o : outcome) : nat :=
  match o with Ok _ => 0 | Disabled => 1 | Finished => 2 | AssertFail => 3 | TypeError => 4 | BadEvent => 5 end.

(* observed: per node, per element, the N components of addMap / remMap; knowledge per node per element;
   out; r and pc per node *)
Record obs := mkObs {
  o_add : list (list (list nat)); o_rem : list (list (list nat)); o_know : list (list bool);
  o_out : option (nat * nat); o_rnd : list nat; o_pc : list npc
}.

Definition npc_eqb (a b : npc) : bool :=
  match a, b with NLoop, NLoop | NAdd, NAdd | NWait, NWait | NDone, NDone => true | _, _ => false end.
Fixpoint list_eqb {A} (eqb : A -> A -> bool) (a b : list A) : bool :=
  match a, b with
  | [], [] => true
  | x :: a', y :: b' => eqb x y && list_eqb eqb a' b'
  | _, _ => false
  end.
Definition oout_eqb (a b : option (nat * nat)) : bool :=
  match a, b with
  | None, None => true
  | Some (x, y), Some (x', y') => Nat.eqb x x' && Nat.eqb y y'
  | _, _ => false
  end.

Definition state_matches (g : config) (s : state) (o : obs) : bool :=
  list_eqb (list_eqb (list_eqb Nat.eqb)) (map (fun i => map (fun e => map (addm s i e) (nodes g)) (elems g)) (nodes g)) (o_add o)
  && list_eqb (list_eqb (list_eqb Nat.eqb)) (map (fun i => map (fun e => map (remm s i e) (nodes g)) (elems g)) (nodes g)) (o_rem o)
  && list_eqb (list_eqb Bool.eqb) (map (fun i => map (know s i) (elems g)) (nodes g)) (o_know o)
  && oout_eqb (out_ s) (o_out o)
  && list_eqb Nat.eqb (map (rnd s) (nodes g)) (o_rnd o)
  && list_eqb npc_eqb (map (pc s) (nodes g)) (o_pc o).

(* The state components are functions; after k merges they are k nested closures, each consulting the previous
   state twice, which makes direct evaluation exponential. The checker therefore re-tabulates the state after
   every step on the index ranges the spec uses (nodes 0..N, elements 0..E-1): `freeze` is the identity on those
   ranges (Shopcart proofs: freeze_agrees) and is used ONLY here, never in `step`. *)
Definition tab1 {A} (d : A) (n : nat) (f : nat -> A) : nat -> A :=
  let l := map f (seq 0 n) in fun i => nth i l d.
Definition freeze (g : config) (s : state) : state :=
  let nn := S (N g) in
  let t3 f := tab1 (fun _ _ => 0) nn (fun i => tab1 (fun _ => 0) (E g) (fun e => tab1 0 nn (f i e))) in
  let a := t3 (addm s) in let r := t3 (remm s) in
  let k := tab1 (fun _ => false) nn (fun i => tab1 false (E g) (know s i)) in
  let rd := tab1 0 nn (rnd s) in let p := tab1 NLoop nn (pc s) in
  mkState a r k (out_ s) rd p.

Definition srec := (event * (nat * option obs))%type.

Fixpoint first_mismatch (g : config) (s : state) (i : nat) (steps : list srec) : option nat :=
  match steps with
  | [] => None
  | (e, (code, oo)) :: rest =>
      let out := step g s e in
      let s' := match out with Ok s' => freeze g s' | _ => s end in
      if Nat.eqb (out_code out) code &&
         match oo with
         | Some o => state_matches g s' o
         | None => match out with Ok _ => false | _ => true end
         end
      then first_mismatch g s' (S i) rest
      else Some i
  end.

Definition walk := (config * list srec)%type.
Definition first_mismatch_walk (w : walk) : option nat := first_mismatch (fst w) init 0 (snd w).
Definition walk_ok (w : walk) : bool := match first_mismatch_walk w with None => true | Some _ => false end.
Fixpoint mismatches_from (i : nat) (ws : list walk) : list nat :=
  match ws with
  | [] => []
  | w :: rest => let m := mismatches_from (S i) rest in if walk_ok w then m else i :: m
  end.
