(* C16 / gcounter — executable model of systems/gcounter/gcounter.tla (PlusCal translation): the ANode
   archetype (labels update, wait) with the mapping macros LocalGCntr / CasualHistory, and the spec's own
   process UpdateGCntr (label l1: pick i1, pick i2 whose state differs, merge both ways). Model only.

   NODE_SET = 1..N. localcntrs[i][j] is `cnt s i j`; c[i] is a set of pairs <<j, 1>>, modelled by
   `hist s i j = true` iff <<j, 1>> \in c[i]. *)
From Coq Require Export List Arith Bool.
Export ListNotations.

Inductive npc := Update | Wait | Done.

Record state := mkState { cnt : nat -> nat -> nat; hist : nat -> nat -> bool; pc : nat -> npc }.

Definition upd {A} (f : nat -> A) (k : nat) (v : A) : nat -> A :=
  fun x => if Nat.eqb x k then v else f x.

Definition init : state := mkState (fun _ _ => 0) (fun _ _ => false) (fun _ => Update).

Inductive event := ENode (p : nat) | EMerge (i1 : nat) (i2 : option nat).

Inductive outcome := Ok (s : state) | Disabled | Finished | AssertFail | BadEvent.

(* SUM(localcntrs[i], DOMAIN localcntrs[i]) *)
Fixpoint sum_from (f : nat -> nat) (a n : nat) : nat :=
  match n with 0 => 0 | S n' => f a + sum_from f (S a) n' end.
Definition read (N : nat) (s : state) (i : nat) : nat := sum_from (cnt s i) 1 N.

(* localcntrs[x] # localcntrs[i1], as functions on NODE_SET *)
Definition differs (N : nat) (s : state) (x i1 : nat) : bool :=
  existsb (fun j => negb (Nat.eqb (cnt s x j) (cnt s i1 j))) (seq 1 N).

Definition in_range (N i : nat) : bool := Nat.leb 1 i && Nat.leb i N.

Definition node_step (N : nat) (s : state) (p : nat) : outcome :=
  match pc s p with
  | Update =>
      let value1 := 1 in
      if Nat.ltb 0 value1                                         (* assert $value > 0 *)
      then Ok (mkState (upd (cnt s) p (upd (cnt s p) p (cnt s p p + value1)))
                       (upd (hist s) p (upd (hist s p) p true))    (* c[self] \union {<<self, 1>>} *)
                       (upd (pc s) p Wait))
      else AssertFail
  | Wait => if Nat.eqb (read N s p) N then Ok (mkState (cnt s) (hist s) (upd (pc s) p Done)) else Disabled
  | Done => Finished
  end.

Definition merge_step (N : nat) (s : state) (i1 : nat) (oi2 : option nat) : outcome :=
  if negb (in_range N i1) then BadEvent
  else if negb (existsb (fun x => differs N s x i1) (seq 1 N)) then Disabled   (* no i2 to pick *)
  else match oi2 with
  | None => BadEvent
  | Some i2 =>
      if in_range N i2 && differs N s i2 i1 then
        let res := fun j => Nat.max (cnt s i1 j) (cnt s i2 j) in
        let cn := fun j => hist s i1 j || hist s i2 j in
        Ok (mkState (upd (upd (cnt s) i1 res) i2 res) (upd (upd (hist s) i1 cn) i2 cn) (pc s))
      else BadEvent
  end.

Definition step (N : nat) (s : state) (e : event) : outcome :=
  match e with
  | ENode p => if in_range N p then node_step N s p else BadEvent
  | EMerge i1 oi2 => merge_step N s i1 oi2
  end.

Definition next (N : nat) (s : state) (e : event) : state :=
  match step N s e with Ok s' => s' | _ => s end.
Definition run (N : nat) (s : state) (evs : list event) : state := fold_left (next N) evs s.
Definition exec (N : nat) (evs : list event) : state := run N init evs.

(* ------------------------------------------------------------------ correspondence check *)
Definition out_code (o : outcome) : nat :=
  match o with Ok _ => 0 | Disabled => 1 | Finished => 2 | AssertFail => 3 | BadEvent => 5 end.

(* observed: localcntrs as N rows of N numbers, c as N rows of N booleans, pc[1..N] *)
Record obs := mkObs { o_cnt : list (list nat); o_hist : list (list bool); o_pc : list npc }.

Definition npc_eqb (a b : npc) : bool :=
  match a, b with Update, Update | Wait, Wait | Done, Done => true | _, _ => false end.
Fixpoint list_eqb {A} (eqb : A -> A -> bool) (a b : list A) : bool :=
  match a, b with
  | [], [] => true
  | x :: a', y :: b' => eqb x y && list_eqb eqb a' b'
  | _, _ => false
  end.

Definition state_matches (N : nat) (s : state) (o : obs) : bool :=
  list_eqb (list_eqb Nat.eqb) (map (fun i => map (cnt s i) (seq 1 N)) (seq 1 N)) (o_cnt o)
  && list_eqb (list_eqb Bool.eqb) (map (fun i => map (hist s i) (seq 1 N)) (seq 1 N)) (o_hist o)
  && list_eqb npc_eqb (map (pc s) (seq 1 N)) (o_pc o).

(* as in Shopcart.v: the checker re-tabulates the (functional) state after every step on nodes 0..N to avoid
   re-evaluating nested closures; `freeze` is the identity on that range and is used only here *)
Definition tab1 {A} (d : A) (n : nat) (f : nat -> A) : nat -> A :=
  let l := map f (seq 0 n) in fun i => nth i l d.
Definition freeze (N : nat) (s : state) : state :=
  let nn := S N in
  mkState (tab1 (fun _ => 0) nn (fun i => tab1 0 nn (cnt s i)))
          (tab1 (fun _ => false) nn (fun i => tab1 false nn (hist s i)))
          (tab1 Update nn (pc s)).

Definition srec := (event * (nat * option obs))%type.

Fixpoint first_mismatch (N : nat) (s : state) (i : nat) (steps : list srec) : option nat :=
  match steps with
  | [] => None
  | (e, (code, oo)) :: rest =>
      let out := step N s e in
      let s' := match out with Ok s' => freeze N s' | _ => s end in
      if Nat.eqb (out_code out) code &&
         match oo with
         | Some o => state_matches N s' o
         | None => match out with Ok _ => false | _ => true end
         end
      then first_mismatch N s' (S i) rest
      else Some i
  end.

Definition walk := (nat * list srec)%type.
Definition first_mismatch_walk (w : walk) : option nat := first_mismatch (fst w) init 0 (snd w).
Definition walk_ok (w : walk) : bool := match first_mismatch_walk w with None => true | Some _ => false end.
Fixpoint mismatches_from (i : nat) (ws : list walk) : list nat :=
  match ws with
  | [] => []
  | w :: rest => let m := mismatches_from (S i) rest in if walk_ok w then m else i :: m
  end.
