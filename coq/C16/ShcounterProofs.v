(* C16 / shcounter — the counter counts the nodes that have passed `update`: it never decreases, never
   exceeds NUM_NODES, equals NUM_NODES whenever some node has finished, stays there, and can always get there. *)
From PGV Require Import C16.Shcounter.
From Coq Require Import Lia.
Local Arguments Nat.eqb : simpl never.
Local Arguments Nat.leb : simpl never.

Definition passed (p : npc) : nat := match p with Update => 0 | _ => 1 end.

(* number of nodes in a..a+n-1 that have passed update *)
Fixpoint count (f : nat -> npc) (a n : nat) : nat :=
  match n with 0 => 0 | S n' => passed (f a) + count f (S a) n' end.

Lemma count_le : forall f a n, count f a n <= n.
Proof. intros f a n. revert a. induction n; simpl; intros a; [lia|]. specialize (IHn (S a)). destruct (f a); simpl; lia. Qed.

Lemma count_upd_out : forall f p v a n, p < a \/ a + n <= p -> count (upd f p v) a n = count f a n.
Proof.
  intros f p v a n. revert a. induction n; simpl; intros a H; [reflexivity|].
  rewrite IHn by lia. unfold upd. destruct (Nat.eqb_spec a p); [lia|reflexivity].
Qed.

Lemma count_upd_in : forall f p v a n, a <= p < a + n ->
  count (upd f p v) a n + passed (f p) = count f a n + passed v.
Proof.
  intros f p v a n. revert a. induction n; simpl; intros a H; [lia|].
  destruct (Nat.eq_dec a p) as [->|Hne].
  - rewrite count_upd_out by lia. unfold upd. rewrite Nat.eqb_refl. lia.
  - specialize (IHn (S a) ltac:(lia)). unfold upd at 1. destruct (Nat.eqb_spec a p); [congruence|]. lia.
Qed.

Lemma count_all : forall f a n, count f a n = n -> forall p, a <= p < a + n -> f p <> Update.
Proof.
  intros f a n. revert a. induction n; simpl; intros a H p Hp; [lia|].
  pose proof (count_le f (S a) n). destruct (f a) eqn:E; simpl in H; try lia;
    (destruct (Nat.eq_dec p a) as [->|]; [congruence|apply (IHn (S a)); lia]).
Qed.

Lemma count_full : forall f a n, (forall p, a <= p < a + n -> f p <> Update) -> count f a n = n.
Proof.
  intros f a n. revert a. induction n; simpl; intros a H; [reflexivity|].
  rewrite IHn by (intros; apply H; lia). specialize (H a ltac:(lia)). destruct (f a); simpl; congruence.
Qed.

Record Inv (N : nat) (s : state) : Prop := mkInv {
  i_count : cntr s = count (pc s) 1 N;
  i_done : forall p, pc s p = Done -> cntr s = N
}.

Lemma inv_init : forall N, Inv N init.
Proof.
  intros N. constructor; simpl; [|discriminate].
  assert (H : forall a n, count (fun _ => Update) a n = 0) by (intros a n; revert a; induction n; simpl; auto).
  rewrite H. reflexivity.
Qed.

Lemma step_inv : forall N s p s', Inv N s -> step N s p = Ok s' -> Inv N s'.
Proof.
  intros N s p s' [Ic Id] H. unfold step in H.
  destruct (Nat.leb_spec 1 p); [|discriminate]. destruct (Nat.leb_spec p N); [|discriminate]. simpl in H.
  unfold node_step in H. destruct (pc s p) eqn:Hp; try discriminate.
  - injection H as <-. constructor; simpl.
    + pose proof (count_upd_in (pc s) p Wait 1 N ltac:(lia)) as E. rewrite Hp in E. simpl in E. lia.
    + intros c. unfold upd. destruct (Nat.eqb_spec c p); [discriminate|]. intros Hc.
      (* some node is Done, so the counter is already N: impossible while p is still at update *)
      exfalso. pose proof (Id c Hc) as E. rewrite Ic in E.
      pose proof (count_all (pc s) 1 N E p ltac:(lia)). congruence.
  - destruct (Nat.eqb_spec (cntr s) N) as [E|]; [|discriminate]. injection H as <-. constructor; simpl.
    + pose proof (count_upd_in (pc s) p Done 1 N ltac:(lia)) as E2. rewrite Hp in E2. simpl in E2. lia.
    + intros c _. exact E.
Qed.

Inductive reachable (N : nat) : state -> Prop :=
| R_init : reachable N init
| R_step : forall s p s', reachable N s -> step N s p = Ok s' -> reachable N s'.

Lemma run_reachable : forall N evs s, reachable N s -> reachable N (run N s evs).
Proof.
  intros N evs. induction evs as [|e evs IH]; intros s H; simpl; [exact H|].
  apply IH. unfold next. destruct (step N s e) eqn:E; try exact H. eapply R_step; eauto.
Qed.

Lemma exec_reachable : forall N evs, reachable N (exec N evs).
Proof. intros. apply run_reachable. constructor. Qed.

Lemma inv_reachable : forall N s, reachable N s -> Inv N s.
Proof. intros N s H. induction H; [apply inv_init|eapply step_inv; eauto]. Qed.

Lemma never_exceeds_lemma : forall N s, reachable N s -> cntr s <= N.
Proof. intros N s R. rewrite (i_count _ _ (inv_reachable _ _ R)). apply count_le. Qed.

Lemma step_monotone : forall N s p, cntr s <= cntr (next N s p).
Proof.
  intros N s p. unfold next, step. destruct (Nat.leb 1 p && Nat.leb p N); [|lia].
  unfold node_step. destruct (pc s p); simpl; try lia. destruct (Nat.eqb (cntr s) N); simpl; lia.
Qed.

Lemma monotone_lemma : forall N evs s, cntr s <= cntr (run N s evs).
Proof.
  intros N evs. induction evs as [|e evs IH]; intros s; simpl; [lia|].
  pose proof (step_monotone N s e). specialize (IH (next N s e)). lia.
Qed.

(* once a node has finished the counter is NUM_NODES; in particular at termination *)
Lemma ends_at_N_lemma : forall N s p, reachable N s -> pc s p = Done -> cntr s = N.
Proof. intros N s p R. exact (i_done _ _ (inv_reachable _ _ R) p). Qed.

(* once NUM_NODES is reached the counter keeps that value in every continuation *)
Lemma stable_lemma : forall N s evs, reachable N s -> cntr s = N -> cntr (run N s evs) = N.
Proof.
  intros N s evs R E. pose proof (monotone_lemma N evs s).
  pose proof (never_exceeds_lemma N _ (run_reachable N evs s R)). lia.
Qed.

(* bounded progress: letting every node take one step reaches NUM_NODES *)
Lemma passed_stable : forall N s p c, pc s c <> Update -> pc (next N s p) c <> Update.
Proof.
  intros N s p c H. unfold next, step. destruct (Nat.leb 1 p && Nat.leb p N); [|exact H].
  unfold node_step. destruct (pc s p) eqn:Hp; simpl; try exact H.
  - unfold upd. destruct (Nat.eqb c p); [discriminate|exact H].
  - destruct (Nat.eqb (cntr s) N); simpl; [|exact H]. unfold upd. destruct (Nat.eqb c p); [discriminate|exact H].
Qed.

Lemma passed_after : forall N s p, 1 <= p <= N -> pc (next N s p) p <> Update.
Proof.
  intros N s p Hp. unfold next, step. destruct (Nat.leb_spec 1 p); [|lia]. destruct (Nat.leb_spec p N); [|lia]. simpl.
  unfold node_step. destruct (pc s p) eqn:E; simpl.
  - unfold upd. rewrite Nat.eqb_refl. discriminate.
  - destruct (Nat.eqb (cntr s) N); simpl; [unfold upd; rewrite Nat.eqb_refl; discriminate|congruence].
  - congruence.
Qed.

Lemma run_passed : forall N evs s c, 1 <= c <= N -> (In c evs \/ pc s c <> Update) -> pc (run N s evs) c <> Update.
Proof.
  intros N evs. induction evs as [|e evs IH]; intros s c Hc H; simpl.
  - destruct H as [[]|H]; exact H.
  - apply IH; [exact Hc|]. destruct H as [[->|H]|H]; [right; apply passed_after; exact Hc|left; exact H|right; apply passed_stable; exact H].
Qed.

Lemma can_finish_lemma : forall N s, reachable N s -> cntr (run N s (seq 1 N)) = N.
Proof.
  intros N s R. pose proof (run_reachable N (seq 1 N) s R) as R'.
  rewrite (i_count _ _ (inv_reachable _ _ R')). apply count_full. intros p Hp.
  apply run_passed; [lia|]. left. apply in_seq. lia.
Qed.
