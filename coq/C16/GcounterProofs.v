(* C16 / gcounter — StrongConvergence (equal knowledge => equal state, hence equal reads), monotonicity
   of every counter component and of the read value, bound of the read value, assertion freedom. *)
From PGV Require Import C16.Gcounter.
From Coq Require Import Lia.
Local Arguments Nat.eqb : simpl never.
Local Arguments Nat.leb : simpl never.
Local Arguments Nat.ltb : simpl never.

Definition b2n (b : bool) : nat := if b then 1 else 0.

(* the state of a replica is a function of what it knows; an update nobody has made yet is known to nobody *)
Record Inv (N : nat) (s : state) : Prop := mkInv {
  i_know : forall i k, cnt s i k = b2n (hist s i k);
  i_fresh : forall p i, pc s p = Update -> hist s i p = false
}.

Lemma inv_init : forall N, Inv N init.
Proof. intros N. constructor; simpl; auto. Qed.

Lemma max_b2n : forall a b, Nat.max (b2n a) (b2n b) = b2n (a || b).
Proof. destruct a, b; reflexivity. Qed.

Lemma step_inv : forall N s e s', Inv N s -> step N s e = Ok s' -> Inv N s'.
Proof.
  intros N s e s' [Ik If] H. destruct e as [p|i1 oi2]; simpl in H.
  - destruct (in_range N p); [|discriminate]. unfold node_step in H.
    destruct (pc s p) eqn:Hp; try discriminate.
    + cbv zeta in H. change (Nat.ltb 0 1) with true in H. cbv iota in H. injection H as <-. constructor; simpl.
      * intros i k. unfold upd. destruct (Nat.eqb_spec i p) as [->|]; [|apply Ik].
        destruct (Nat.eqb_spec k p) as [->|]; [|apply Ik].
        rewrite Ik, (If p p Hp). reflexivity.
      * intros q i. unfold upd. destruct (Nat.eqb_spec q p) as [->|]; [discriminate|]. intros Hq.
        destruct (Nat.eqb_spec i p) as [->|]; [|apply If; exact Hq].
        destruct (Nat.eqb_spec q p); [congruence|]. apply If. exact Hq.
    + destruct (Nat.eqb (read N s p) N); [|discriminate]. injection H as <-. constructor; simpl.
      * exact Ik.
      * intros q i. unfold upd. destruct (Nat.eqb_spec q p); [discriminate|]. apply If.
  - unfold merge_step in H. destruct (negb (in_range N i1)); [discriminate|].
    destruct (negb (existsb _ _)); [discriminate|]. destruct oi2 as [i2|]; [|discriminate].
    destruct (in_range N i2 && differs N s i2 i1); [|discriminate]. injection H as <-. constructor; simpl.
    + intros i k. unfold upd. destruct (Nat.eqb i i2); [rewrite !Ik; apply max_b2n|].
      destruct (Nat.eqb i i1); [rewrite !Ik; apply max_b2n|apply Ik].
    + intros p i Hp. unfold upd. destruct (Nat.eqb i i2); [rewrite !If by exact Hp; reflexivity|].
      destruct (Nat.eqb i i1); [rewrite !If by exact Hp; reflexivity|apply If; exact Hp].
Qed.

Inductive reachable (N : nat) : state -> Prop :=
| R_init : reachable N init
| R_step : forall s e s', reachable N s -> step N s e = Ok s' -> reachable N s'.

Lemma run_reachable : forall N evs s, reachable N s -> reachable N (run N s evs).
Proof.
  intros N evs. induction evs as [|e evs IH]; intros s H; simpl; [exact H|].
  apply IH. unfold next. destruct (step N s e) eqn:E; try exact H. eapply R_step; eauto.
Qed.
Lemma exec_reachable : forall N evs, reachable N (exec N evs).
Proof. intros. apply run_reachable. constructor. Qed.
Lemma inv_reachable : forall N s, reachable N s -> Inv N s.
Proof. intros N s H. induction H; [apply inv_init|eapply step_inv; eauto]. Qed.

(* StrongConvergence == \A i, j \in NODE_SET: (c[i] = c[j]) => (localcntrs[i] = localcntrs[j]) *)
Lemma strong_convergence_lemma : forall N s, reachable N s -> forall i j,
  (forall k, hist s i k = hist s j k) -> forall k, cnt s i k = cnt s j k.
Proof. intros N s R i j H k. pose proof (inv_reachable N s R) as [Ik _]. rewrite !Ik, H. reflexivity. Qed.

Lemma sum_ext : forall f g a n, (forall k, f k = g k) -> sum_from f a n = sum_from g a n.
Proof. intros f g a n H. revert a. induction n; simpl; intros a; [reflexivity|]. rewrite H, IHn. reflexivity. Qed.

(* ... hence replicas with equal knowledge read equal values *)
Lemma equal_reads_lemma : forall N s, reachable N s -> forall i j,
  (forall k, hist s i k = hist s j k) -> read N s i = read N s j.
Proof. intros N s R i j H. unfold read. apply sum_ext. apply (strong_convergence_lemma N s R i j H). Qed.

(* counters never decrease: every component of every replica, in every step *)
Lemma step_monotone : forall N s e i k, cnt s i k <= cnt (next N s e) i k.
Proof.
  intros N s e i k. unfold next. destruct (step N s e) eqn:H; try lia. destruct e as [p|i1 oi2]; simpl in H.
  - destruct (in_range N p); [|discriminate]. unfold node_step in H. destruct (pc s p); try discriminate.
    + cbv zeta in H. change (Nat.ltb 0 1) with true in H. cbv iota in H. injection H as <-. simpl. unfold upd. destruct (Nat.eqb_spec i p) as [->|]; [|lia].
      destruct (Nat.eqb_spec k p) as [->|]; lia.
    + destruct (Nat.eqb (read N s p) N); [|discriminate]. injection H as <-. simpl. lia.
  - unfold merge_step in H. destruct (negb (in_range N i1)); [discriminate|].
    destruct (negb (existsb _ _)); [discriminate|]. destruct oi2 as [i2|]; [|discriminate].
    destruct (in_range N i2 && differs N s i2 i1); [|discriminate]. injection H as <-. simpl. unfold upd.
    destruct (Nat.eqb_spec i i2) as [->|]; [lia|]. destruct (Nat.eqb_spec i i1) as [->|]; lia.
Qed.

Lemma monotone_lemma : forall N evs s i k, cnt s i k <= cnt (run N s evs) i k.
Proof.
  intros N evs. induction evs as [|e evs IH]; intros s i k; simpl; [lia|].
  pose proof (step_monotone N s e i k). specialize (IH (next N s e) i k). lia.
Qed.

Lemma sum_le : forall f g a n, (forall k, f k <= g k) -> sum_from f a n <= sum_from g a n.
Proof. intros f g a n H. revert a. induction n; simpl; intros a; [lia|]. specialize (H a). specialize (IHn (S a)). lia. Qed.

(* the value a replica reads never decreases either *)
Lemma read_monotone_lemma : forall N evs s i, read N s i <= read N (run N s evs) i.
Proof. intros N evs s i. unfold read. apply sum_le. intros k. apply monotone_lemma. Qed.

Lemma sum_b2n_le : forall (h : nat -> bool) a n, sum_from (fun k => b2n (h k)) a n <= n.
Proof. intros h a n. revert a. induction n; simpl; intros a; [lia|]. specialize (IHn (S a)). destruct (h a); simpl; lia. Qed.

(* and never exceeds NUM_NODES (each node increments once) *)
Lemma read_bounded_lemma : forall N s, reachable N s -> forall i, read N s i <= N.
Proof.
  intros N s R i. pose proof (inv_reachable N s R) as [Ik _]. unfold read.
  rewrite (sum_ext (cnt s i) (fun k => b2n (hist s i k))) by (intros; apply Ik). apply sum_b2n_le.
Qed.

Lemma assertion_free_lemma : forall N s e, step N s e <> AssertFail.
Proof.
  intros N s e. destruct e as [p|i1 oi2]; simpl.
  - destruct (in_range N p); [|discriminate]. unfold node_step. destruct (pc s p); try discriminate.
    destruct (Nat.eqb (read N s p) N); discriminate.
  - unfold merge_step. destruct (negb (in_range N i1)); [discriminate|].
    destruct (negb (existsb _ _)); [discriminate|]. destruct oi2; [|discriminate].
    destruct (in_range N n && differs N s n i1); discriminate.
Qed.

(* the checker's re-tabulation is the identity on the tabulated range *)
Lemma tab1_agrees : forall (A : Type) (d : A) n (f : nat -> A) i, i < n -> tab1 d n f i = f i.
Proof.
  intros A d n f i H. unfold tab1. rewrite (nth_indep _ d (f 0)) by (rewrite map_length, seq_length; exact H).
  rewrite (map_nth f (seq 0 n) 0). rewrite seq_nth by exact H. reflexivity.
Qed.

Lemma freeze_agrees : forall N s i k, i <= N -> k <= N ->
  cnt (freeze N s) i k = cnt s i k /\ hist (freeze N s) i k = hist s i k /\ pc (freeze N s) i = pc s i.
Proof.
  intros N s i k Hi Hk. unfold freeze. simpl. repeat split; repeat (rewrite tab1_agrees by lia); reflexivity.
Qed.
