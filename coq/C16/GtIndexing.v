(* C16 / *.gotests — IndexingLocals.tla (pgo/test/files/general): one archetype, locals only.
     logWrite:   log := Append(log, 68); log := Append(log, 5); log[2] := 21; log := Append(log, 999);
                 log := Append(log, [foo |-> 42]);
     logUpdate:  log[1] := 3;
     logRead:    p := log[1];
     multiWrite: log[4]["foo"] := 43;
   A sequence element is a number or the record [foo |-> n]; an indexed write outside DOMAIN, or a field write on a
   number, is the TLA+ type error the runtime reports. Model and proofs (the program is deterministic). *)
From Coq Require Export List Arith Bool.
From Coq Require Import Lia.
Export ListNotations.

Inductive item := INum (n : nat) | IFoo (n : nat).
Inductive ipc := LogWrite | LogUpdate | LogRead | MultiWrite | IDone.
Record state := mkState { log : list item; p : option item; pc : ipc }.
Definition init : state := mkState [] None LogWrite.
Inductive outcome := Ok (s : state) | Finished | TypeError.

(* l[i] := f(l[i]) for a 1-based index i \in DOMAIN l *)
Fixpoint upd_at (l : list item) (k : nat) (f : item -> option item) : option (list item) :=
  match l, k with
  | [], _ => None
  | x :: r, 0 => match f x with Some y => Some (y :: r) | None => None end
  | x :: r, S k' => match upd_at r k' f with Some r' => Some (x :: r') | None => None end
  end.
Definition set_idx (l : list item) (i : nat) (f : item -> option item) : option (list item) :=
  match i with 0 => None | S k => upd_at l k f end.
Definition put (v : item) : item -> option item := fun _ => Some v.
Definition put_foo (n : nat) : item -> option item := fun x => match x with IFoo _ => Some (IFoo n) | INum _ => None end.

Definition step (s : state) (e : nat) : outcome :=
  match pc s with
  | LogWrite =>
      match set_idx ((log s ++ [INum 68]) ++ [INum 5]) 2 (put (INum 21)) with
      | Some l => Ok (mkState ((l ++ [INum 999]) ++ [IFoo 42]) (p s) LogUpdate)
      | None => TypeError
      end
  | LogUpdate => match set_idx (log s) 1 (put (INum 3)) with Some l => Ok (mkState l (p s) LogRead) | None => TypeError end
  | LogRead => match nth_error (log s) 0 with Some v => Ok (mkState (log s) (Some v) MultiWrite) | None => TypeError end
  | MultiWrite => match set_idx (log s) 4 (put_foo 43) with Some l => Ok (mkState l (p s) IDone) | None => TypeError end
  | IDone => Finished
  end.

Definition next (s : state) (e : nat) : state := match step s e with Ok s' => s' | _ => s end.
Definition run (s : state) (evs : list nat) : state := fold_left next evs s.
Definition exec (evs : list nat) : state := run init evs.

(* ------------------------------------------------------------------ correspondence check *)
Definition out_code (o : outcome) : nat := match o with Ok _ => 0 | Finished => 2 | TypeError => 4 end.
Definition item_eqb (a b : item) : bool :=
  match a, b with INum x, INum y | IFoo x, IFoo y => Nat.eqb x y | _, _ => false end.
Definition ipc_eqb (a b : ipc) : bool :=
  match a, b with LogWrite, LogWrite | LogUpdate, LogUpdate | LogRead, LogRead | MultiWrite, MultiWrite | IDone, IDone => true | _, _ => false end.
Fixpoint list_eqb {A} (eqb : A -> A -> bool) (a b : list A) : bool :=
  match a, b with [], [] => true | x :: a', y :: b' => eqb x y && list_eqb eqb a' b' | _, _ => false end.
Record obs := mkObs { o_log : list item; o_p : option item; o_pc : ipc }.
Definition state_matches (s : state) (o : obs) : bool :=
  list_eqb item_eqb (log s) (o_log o) && ipc_eqb (pc s) (o_pc o) &&
  match p s, o_p o with Some a, Some b => item_eqb a b | None, None => true | _, _ => false end.
Definition srec := (nat * (nat * option obs))%type.
Fixpoint first_mismatch (s : state) (i : nat) (steps : list srec) : option nat :=
  match steps with
  | [] => None
  | (e, (code, oo)) :: rest =>
      let out := step s e in
      let s' := match out with Ok s' => s' | _ => s end in
      if Nat.eqb (out_code out) code &&
         match oo with Some o => state_matches s' o | None => match out with Ok _ => false | _ => true end end
      then first_mismatch s' (S i) rest else Some i
  end.
Definition walk := (nat * list srec)%type.
Definition first_mismatch_walk (w : walk) : option nat := first_mismatch init 0 (snd w).
Definition walk_ok (w : walk) : bool := match first_mismatch_walk w with None => true | Some _ => false end.
Fixpoint mismatches_from (i : nat) (ws : list walk) : list nat :=
  match ws with [] => [] | w :: rest => let m := mismatches_from (S i) rest in if walk_ok w then m else i :: m end.

(* ------------------------------------------------------------------ proofs *)
Lemma run_app : forall evs1 evs2 s, run s (evs1 ++ evs2) = run (run s evs1) evs2.
Proof. intros. unfold run. apply fold_left_app. Qed.

(* every execution is a prefix of THE execution *)
Lemma exec_is_prefix : forall evs, exists k, k <= 4 /\ exec evs = exec (repeat 0 k).
Proof.
  induction evs as [|e evs IH] using rev_ind.
  - exists 0. split; [apply Nat.le_0_l|reflexivity].
  - destruct IH as (k & Hk & E). unfold exec in *. rewrite run_app, E. simpl.
    destruct k as [|[|[|[|[|k]]]]].
    + exists 1. split; [repeat constructor|reflexivity].
    + exists 2. split; [repeat constructor|reflexivity].
    + exists 3. split; [repeat constructor|reflexivity].
    + exists 4. split; [repeat constructor|reflexivity].
    + exists 4. split; [repeat constructor|reflexivity].
    + exfalso. lia.
Qed.

Lemma type_safe_lemma : forall evs e, step (exec evs) e <> TypeError.
Proof.
  intros evs e. destruct (exec_is_prefix evs) as (k & Hk & ->).
  destruct k as [|[|[|[|[|k]]]]]; try (vm_compute; discriminate).
  exfalso. lia.
Qed.

Lemma result_lemma : forall evs, pc (exec evs) = IDone ->
  log (exec evs) = [INum 3; INum 21; INum 999; IFoo 43] /\ p (exec evs) = Some (INum 3).
Proof.
  intros evs. destruct (exec_is_prefix evs) as (k & Hk & ->).
  destruct k as [|[|[|[|[|k]]]]]; try (vm_compute; intros H; discriminate H).
  - vm_compute. intros _. split; reflexivity.
  - exfalso. lia.
Qed.

Lemma terminates_lemma : forall evs, exists evs', pc (run (exec evs) evs') = IDone.
Proof.
  intros evs. destruct (exec_is_prefix evs) as (k & Hk & ->).
  exists (repeat 0 (4 - k)). unfold exec. rewrite <- run_app, <- repeat_app.
  replace (k + (4 - k)) with 4 by lia.
  reflexivity.
Qed.
