(* C16 / proxy — ProxyOK under the perfect failure detector: the proxy is about to report (or has reported)
   FAIL to a client only if every server has failed. *)
From PGV Require Import C16.Proxy.
From Coq Require Import Lia.
Local Arguments Nat.eqb : simpl never.
Local Arguments Nat.leb : simpl never.
Local Arguments Nat.modulo : simpl never.

Inductive reachable (g : config) : state -> Prop :=
| R_init : reachable g init
| R_step : forall s e s', reachable g s -> step g s e = Ok s' -> reachable g s'.

Lemma run_reachable : forall g evs s, reachable g s -> reachable g (run g s evs).
Proof.
  intros g evs. induction evs as [|e evs IH]; intros s H; simpl; [exact H|].
  apply IH. unfold next. destruct (step g s e) eqn:E; try exact H. eapply R_step; eauto.
Qed.
Lemma exec_reachable : forall g evs, reachable g (exec g evs).
Proof. intros. apply run_reachable. constructor. Qed.

Record Inv (g : config) (s : state) : Prop := mkInv {
  (* perfect detector: a server is suspected only after it has really stopped *)
  i_fd : forall j, fd s j = true -> spc_ s j = SDone;
  (* PROXY_RESP messages come from servers and carry the server's id as body *)
  i_resp : forall d m, In m (queue s d PROXY_RESP) -> m_body m = m_from m /\ 1 <= m_from m <= NS g;
  (* while the proxy still holds the default answer FAIL, every server it has passed is suspected *)
  i_x : forall r, p_proxyResp s = Some r -> m_body r = FAIL -> ppc_ s <> PLoop ->
        exists i, p_idx s = Some i /\ (forall j, 1 <= j < i -> fd s j = true) /\ (ppc_ s = PSend -> i > NS g);
  (* a FAIL answer on its way to a client means all servers have stopped *)
  i_y : forall c m, In m (queue s c RESP) -> m_body m = FAIL -> forall j, 1 <= j <= NS g -> spc_ s j = SDone;
  i_out : forall m, output s = Some m -> m_body m = FAIL -> forall j, 1 <= j <= NS g -> spc_ s j = SDone
}.

Lemma inv_init : forall g, Inv g init.
Proof. intros g. constructor; simpl; intros; try discriminate; try contradiction. Qed.

Ltac deq := repeat match goal with
  | |- context [Nat.eqb ?a ?b] => destruct (Nat.eqb_spec a b)
  | H : context [Nat.eqb ?a ?b] |- _ => destruct (Nat.eqb_spec a b)
  end.

Lemma upd2_in : forall (q : nat -> nat -> list pmsg) k t v d t' m,
  In m (upd2 q k t v d t') -> In m (q d t') \/ (d = k /\ t' = t /\ In m v).
Proof.
  intros q k t v d t' m. unfold upd2. destruct (Nat.eqb_spec d k); destruct (Nat.eqb_spec t' t); simpl; auto.
Qed.

Lemma send_ok : forall g s m d t k s', send g s m d t k = Ok s' ->
  k (set_net s (upd2 (queue s) d t (queue s d t ++ [m])) (enabled s)) = Ok s'.
Proof.
  intros g s m d t k s' H. unfold send in H. destruct (negb (in_nodes g d && in_typs t)); [discriminate|].
  destruct (enabled s d t); [exact H|discriminate].
Qed.

Section WithBound.
Variable g : config.
Hypothesis Hbound : NS g < FAIL.

(* a step that leaves fd, the proxy's variables, the RESP / PROXY_RESP queues and the output alone, and moves
   no server out of Done *)
Lemma inv_frame : forall s s',
  Inv g s ->
  fd s' = fd s ->
  (forall j, spc_ s j = SDone -> spc_ s' j = SDone) ->
  p_proxyResp s' = p_proxyResp s -> p_idx s' = p_idx s -> ppc_ s' = ppc_ s ->
  (forall d m, In m (queue s' d PROXY_RESP) -> In m (queue s d PROXY_RESP) \/ (m_body m = m_from m /\ 1 <= m_from m <= NS g)) ->
  (forall c m, In m (queue s' c RESP) -> In m (queue s c RESP)) ->
  (output s' = output s \/ exists c m, output s' = Some m /\ In m (queue s c RESP)) ->
  Inv g s'.
Proof.
  intros s s' [Ifd Iresp Ix Iy Iout] Hfd Hdone Hpr Hidx Hpc Hq4 Hq2 Hout.
  constructor.
  - intros j Hj. rewrite Hfd in Hj. apply Hdone. apply Ifd. exact Hj.
  - intros d m Hin. destruct (Hq4 d m Hin) as [H|H]; [eapply Iresp; eauto|exact H].
  - intros r Hr Hb Hp. rewrite Hpr in Hr. rewrite Hpc in Hp. destruct (Ix r Hr Hb Hp) as (i & Hi & Hall & Hs).
    exists i. rewrite Hidx, Hfd, Hpc. auto.
  - intros c m Hin Hb j Hj. apply Hdone. eapply Iy; eauto.
  - intros m Hm Hb j Hj. apply Hdone. destruct Hout as [Ho|(c & m' & Ho & Hin)].
    + rewrite Ho in Hm. eapply Iout; eauto.
    + rewrite Ho in Hm. injection Hm as <-. eapply Iy; eauto.
Qed.

Lemma skip_inv : forall s i s', Inv g s -> p_idx s = Some i -> (ppc_ s = PServers \/ ppc_ s = PRcv) ->
  skip_server g s i = Ok s' -> Inv g s'.
Proof.
  intros s i s' I Hi Hpc H. unfold skip_server in H. destruct (negb (in_nodes g i)); [discriminate|].
  destruct (fd s i) eqn:Hfd; [|discriminate]. injection H as <-.
  destruct I as [Ifd Iresp Ix Iy Iout]. constructor; simpl; auto.
  intros r Hr Hb _. destruct (Ix r Hr Hb) as (i' & Hi' & Hall & _); [destruct Hpc as [-> | ->]; discriminate|].
  rewrite Hi in Hi'. injection Hi' as <-. exists (i + 1). split; [reflexivity|]. split; [|discriminate].
  intros j Hj. destruct (Nat.eq_dec j i) as [->|]; [exact Hfd|apply Hall; lia].
Qed.

Lemma step_inv : forall s e s', Inv g s -> step g s e = Ok s' -> Inv g s'.
Proof.
  intros s [p br] s' I H. unfold step in H.
  destruct (Nat.eqb_spec p (ProxyID g)) as [->|Hp].
  - (* proxy *)
    unfold proxy_step in H. destruct (ppc_ s) eqn:Hpc.
    + (* proxyLoop *)
      destruct (negb (enabled s (ProxyID g) REQ)); [discriminate|].
      destruct (queue s (ProxyID g) REQ) as [|m rest] eqn:Hq; [discriminate|].
      destruct (Nat.eqb (m_to m) (ProxyID g) && Nat.eqb (m_typ m) REQ); [|discriminate]. injection H as <-.
      destruct I as [Ifd Iresp Ix Iy Iout]. constructor; simpl; auto.
      * intros d m0 Hin. apply upd2_in in Hin. destruct Hin as [Hin|(_ & E & _)]; [eapply Iresp; eauto|discriminate].
      * intros r Hr _ _. exists 1. split; [reflexivity|]. split; [intros j Hj; lia|discriminate].
      * intros c m0 Hin. apply upd2_in in Hin. destruct Hin as [Hin|(_ & E & _)]; [eapply Iy; eauto|discriminate].
    + (* serversLoop *)
      destruct (p_idx s) as [i|] eqn:Hi; [|discriminate].
      destruct (Nat.leb_spec i (NS g)) as [Hle|Hgt].
      * destruct br as [|br].
        -- destruct (p_msg s) as [m|] eqn:Hm; [|discriminate]. apply send_ok in H. injection H as <-.
           destruct I as [Ifd Iresp Ix Iy Iout]. constructor; simpl; auto.
           ++ intros d m0 Hin. apply upd2_in in Hin. destruct Hin as [Hin|(_ & E & _)]; [eapply Iresp; eauto|discriminate].
           ++ intros r Hr Hb _. destruct (Ix r Hr Hb) as (i' & Hi' & Hall & _); [rewrite Hpc; discriminate|].
              exists i'. split; [rewrite Hi in Hi'; exact Hi'|]. split; [exact Hall|discriminate].
           ++ intros c m0 Hin. apply upd2_in in Hin. destruct Hin as [Hin|(_ & E & _)]; [eapply Iy; eauto|discriminate].
        -- eapply skip_inv; eauto.
      * injection H as <-. destruct I as [Ifd Iresp Ix Iy Iout]. constructor; simpl; auto.
        intros r Hr Hb _. destruct (Ix r Hr Hb) as (i' & Hi' & Hall & _); [rewrite Hpc; discriminate|].
        rewrite Hi in Hi'. injection Hi' as <-. exists i. split; [reflexivity|]. split; [exact Hall|]. intros _. lia.
    + (* proxyRcvMsg *)
      destruct br as [|br].
      * destruct (negb (enabled s (ProxyID g) PROXY_RESP)); [discriminate|].
        destruct (queue s (ProxyID g) PROXY_RESP) as [|tmp rest] eqn:Hq; [discriminate|].
        destruct (p_idx s) as [i|] eqn:Hi; [|discriminate]. destruct (p_msg s) as [m|] eqn:Hm; [|discriminate].
        destruct (negb (Nat.eqb (m_from tmp) i) || negb (Nat.eqb (m_id tmp) (m_id m))).
        -- injection H as <-. destruct I as [Ifd Iresp Ix Iy Iout]. constructor; simpl; auto.
           ++ intros d m0 Hin. apply upd2_in in Hin. destruct Hin as [Hin|(-> & _ & Hin)]; [eapply Iresp; eauto|].
              apply (Iresp (ProxyID g)). rewrite Hq. right. exact Hin.
           ++ intros c m0 Hin. apply upd2_in in Hin. destruct Hin as [Hin|(_ & E & _)]; [eapply Iy; eauto|discriminate].
        -- destruct (Nat.eqb (m_to tmp) (ProxyID g) && Nat.eqb (m_typ tmp) PROXY_RESP); [|discriminate]. injection H as <-.
           assert (Htmp : m_body tmp = m_from tmp /\ 1 <= m_from tmp <= NS g).
           { apply (i_resp _ _ I (ProxyID g)). rewrite Hq. left. reflexivity. }
           destruct I as [Ifd Iresp Ix Iy Iout]. constructor; simpl; auto.
           ++ intros d m0 Hin. apply upd2_in in Hin. destruct Hin as [Hin|(-> & _ & Hin)]; [eapply Iresp; eauto|].
              apply (Iresp (ProxyID g)). rewrite Hq. right. exact Hin.
           ++ intros r Hr Hb _. injection Hr as <-. exfalso. unfold FAIL in *. lia.
           ++ intros c m0 Hin. apply upd2_in in Hin. destruct Hin as [Hin|(_ & E & _)]; [eapply Iy; eauto|discriminate].
      * destruct (p_idx s) as [i|] eqn:Hi; [|discriminate]. eapply skip_inv; eauto.
    + (* sendMsgToClient *)
      destruct (p_msg s) as [m|] eqn:Hm; [|discriminate]. destruct (p_proxyResp s) as [pr|] eqn:Hpr; [|discriminate].
      apply send_ok in H. injection H as <-.
      pose proof I as [Ifd Iresp Ix Iy Iout]. constructor; simpl; auto.
      * intros d m0 Hin. apply upd2_in in Hin. destruct Hin as [Hin|(_ & E & _)]; [eapply Iresp; eauto|discriminate].
      * intros r _ _ Hne. congruence.
      * intros c m0 Hin Hb j Hj. apply upd2_in in Hin. destruct Hin as [Hin|(_ & _ & Hin)]; [eapply Iy; eauto|].
        apply in_app_or in Hin. destruct Hin as [Hin|[<-|[]]]; [eapply Iy; eauto|]. simpl in Hb.
        destruct (Ix pr Hpr Hb) as (i & Hi & Hall & Hs); [rewrite Hpc; discriminate|].
        specialize (Hs Hpc). apply Ifd. apply Hall. lia.
  - destruct (Nat.leb_spec 1 p); simpl in H.
    2:{ destruct (Nat.leb_spec (NS g + 1) p); [lia|discriminate]. }
    destruct (Nat.leb_spec p (NS g)); simpl in H.
    + (* server p *)
      unfold server_step in H. destruct (spc_ s p) eqn:Hpc.
      * (* serverLoop *)
        assert (Hs' : s' = set_server s p (s_msg s p) (s_resp s p) SRcv \/ s' = fail_now s p).
        { destruct (EXPLORE_FAIL g); [destruct br|]; injection H as <-; auto. }
        destruct Hs' as [-> | ->]; apply (inv_frame s); auto; simpl; auto;
          try (intros j Hj; unfold upd; deq; subst; try congruence; exact Hj).
      * (* serverRcvMsg *)
        destruct (negb (enabled s p PROXY_REQ)); [discriminate|].
        destruct (queue s p PROXY_REQ) as [|m rest] eqn:Hq; [discriminate|].
        destruct (Nat.eqb (m_to m) p && Nat.eqb (m_from m) (ProxyID g) && Nat.eqb (m_typ m) PROXY_REQ); [|discriminate].
        set (s1 := set_server (set_net s (upd2 (queue s) p PROXY_REQ rest) (enabled s)) p (Some m) (s_resp s p) SSend) in *.
        assert (Hs' : s' = s1 \/ s' = fail_now s1 p).
        { destruct (EXPLORE_FAIL g); [destruct br|]; injection H as <-; auto. }
        destruct Hs' as [-> | ->]; apply (inv_frame s); auto; simpl; auto;
          try (intros j Hj; unfold upd; deq; subst; try congruence; exact Hj);
          try (intros d m0 Hin; apply upd2_in in Hin; destruct Hin as [Hin|(_ & E & _)]; [auto|discriminate]).
      * (* serverSendMsg *)
        destruct (s_msg s p) as [m|] eqn:Hm; [|discriminate]. apply send_ok in H.
        destruct (EXPLORE_FAIL g); [destruct br|]; injection H as <-;
          (apply (inv_frame s); auto; simpl; auto;
           try (intros j Hj; unfold upd; deq; subst; try congruence; exact Hj);
           try (intros d m0 Hin; apply upd2_in in Hin; destruct Hin as [Hin|(-> & _ & Hin)]; [auto|];
                apply in_app_or in Hin; destruct Hin as [Hin|[<-|[]]]; [auto|]; right; simpl; split; [reflexivity|lia]);
           try (intros c m0 Hin; apply upd2_in in Hin; destruct Hin as [Hin|(_ & E & _)]; [auto|discriminate])).
      * (* failLabel *)
        injection H as <-. destruct I as [Ifd Iresp Ix Iy Iout]. constructor; simpl; auto.
        -- intros j. unfold upd. destruct (Nat.eqb_spec j p) as [->|]; [reflexivity|]. apply Ifd.
        -- intros r Hr Hb Hne. destruct (Ix r Hr Hb Hne) as (i & Hi & Hall & Hs). exists i. split; [exact Hi|].
           split; [|exact Hs]. intros j Hj. unfold upd. destruct (Nat.eqb_spec j p); [reflexivity|]. apply Hall. exact Hj.
        -- intros c m Hin Hb j Hj. unfold upd. destruct (Nat.eqb_spec j p); [reflexivity|]. eapply Iy; eauto.
        -- intros m Hm Hb j Hj. unfold upd. destruct (Nat.eqb_spec j p); [reflexivity|]. eapply Iout; eauto.
      * discriminate.
    + destruct (Nat.leb_spec (NS g + 1) p); simpl in H; [|discriminate].
      destruct (Nat.leb_spec p (NS g + NC g)); [|discriminate].
      (* client p *)
      unfold client_step in H. destruct (cpc_ s p) eqn:Hpc.
      * destruct (CLIENT_RUN g).
        -- apply send_ok in H. injection H as <-. apply (inv_frame s); auto; simpl; auto.
           ++ intros d m Hin. apply upd2_in in Hin. destruct Hin as [Hin|(_ & E & _)]; [auto|discriminate].
           ++ intros c m Hin. apply upd2_in in Hin. destruct Hin as [Hin|(_ & E & _)]; [auto|discriminate].
        -- injection H as <-. apply (inv_frame s); auto; simpl; auto.
      * destruct (negb (enabled s p RESP)); [discriminate|].
        destruct (queue s p RESP) as [|m rest] eqn:Hq; [discriminate|].
        destruct (Nat.eqb (m_to m) p && Nat.eqb (m_id m) (c_reqId s p) && Nat.eqb (m_from m) (ProxyID g) && Nat.eqb (m_typ m) RESP);
          [|discriminate].
        injection H as <-. apply (inv_frame s); auto; simpl; auto.
        -- intros d m0 Hin. apply upd2_in in Hin. destruct Hin as [Hin|(_ & E & _)]; [auto|discriminate].
        -- intros c m0 Hin. apply upd2_in in Hin. destruct Hin as [Hin|(-> & _ & Hin)]; [auto|]. rewrite Hq. right. exact Hin.
        -- right. exists p, m. split; [reflexivity|]. rewrite Hq. left. reflexivity.
      * discriminate.
Qed.

Theorem inv_reachable : forall s, reachable g s -> Inv g s.
Proof. intros s H. induction H; [apply inv_init|eapply step_inv; eauto]. Qed.

(* ProxyOK == (pc[ProxyID] = "sendMsgToClient" /\ proxyResp.body = FAIL)
                => (\A server \in SERVER_SET : pc[server] = "failLabel" \/ pc[server] = "Done") *)
Lemma proxy_ok_lemma : forall s, reachable g s ->
  forall r, ppc_ s = PSend -> p_proxyResp s = Some r -> m_body r = FAIL ->
  forall j, 1 <= j <= NS g -> spc_ s j = SFail \/ spc_ s j = SDone.
Proof.
  intros s R r Hpc Hr Hb j Hj. pose proof (inv_reachable s R) as I.
  destruct (i_x _ _ I r Hr Hb) as (i & Hi & Hall & Hs); [rewrite Hpc; discriminate|].
  specialize (Hs Hpc). right. apply (i_fd _ _ I). apply Hall. lia.
Qed.

(* the proxy reports failure only when every backend has failed: a FAIL answer in flight to a client, or
   delivered as the client's output, implies that all servers have stopped *)
Lemma fail_reported_only_if_all_failed_lemma : forall s, reachable g s ->
  (forall c m, In m (queue s c RESP) -> m_body m = FAIL -> forall j, 1 <= j <= NS g -> spc_ s j = SDone) /\
  (forall m, output s = Some m -> m_body m = FAIL -> forall j, 1 <= j <= NS g -> spc_ s j = SDone).
Proof. intros s R. pose proof (inv_reachable s R) as I. split; [apply (i_y _ _ I)|apply (i_out _ _ I)]. Qed.

(* the failure detector is accurate: a suspected server has stopped *)
Lemma fd_accurate_lemma : forall s, reachable g s -> forall j, fd s j = true -> spc_ s j = SDone.
Proof. intros s R. exact (i_fd _ _ (inv_reachable s R)). Qed.
End WithBound.
