(* C16 / proxy — executable model of systems/proxy/proxy.tla (PlusCal translation), label by label, with
   the PERFECT failure detector mapping (`mapping fd[_] via PerfectFD`: read yields fd[idx]); the shipped
   translation instantiates PracticalFD, whose extra `either` is the only difference (ProxyOK is stated
   by the spec for PerfectFD only). Model only.

   Nodes: servers 1..NS, clients NS+1..NS+NC, proxy P = NS+NC+1. network[<<id, typ>>] = [queue, enabled],
   typ in 1..4 (REQ, RESP, PROXY_REQ, PROXY_RESP). Mapping macros: ReliableFIFOLink (read: assert enabled,
   await Len > 0, Head/Tail; write: await enabled, Append), NetworkToggle (write sets enabled), PerfectFD,
   Requests (read yields input and increments it). EXPLORE_FAIL / CLIENT_RUN are the spec's constants.

   Event = (process, branch): branch resolves the label's `either` (0 = first alternative, 1 = second). *)
From Coq Require Export List Arith Bool.
Export ListNotations.

Record pmsg := mkMsg { m_from : nat; m_to : nat; m_body : nat; m_id : nat; m_typ : nat }.

Definition FAIL := 100.
Definition REQ := 1.
Definition RESP := 2.
Definition PROXY_REQ := 3.
Definition PROXY_RESP := 4.
Definition MSG_ID_BOUND := 2.

Inductive ppc := PLoop | PServers | PRcv | PSend.
Inductive spc := SLoop | SRcv | SSend | SFail | SDone.
Inductive cpc := CLoop | CRcv | CDone.

Record state := mkState {
  queue : nat -> nat -> list pmsg;      (* network[<<id, typ>>].queue *)
  enabled : nat -> nat -> bool;         (* network[<<id, typ>>].enabled *)
  fd : nat -> bool;
  output : option pmsg;                 (* <<>> initially: None *)
  (* proxy *)
  p_msg : option pmsg; p_proxyMsg : option pmsg; p_idx : option nat; p_resp : option pmsg; p_proxyResp : option pmsg;
  ppc_ : ppc;
  (* servers *)
  s_msg : nat -> option pmsg; s_resp : nat -> option pmsg; spc_ : nat -> spc;
  (* clients *)
  c_req : nat -> option pmsg; c_resp : nat -> option pmsg; c_reqId : nat -> nat; c_input : nat -> nat;
  cpc_ : nat -> cpc
}.

Definition upd {A} (f : nat -> A) (k : nat) (v : A) : nat -> A :=
  fun x => if Nat.eqb x k then v else f x.
Definition upd2 {A} (f : nat -> nat -> A) (k t : nat) (v : A) : nat -> nat -> A :=
  fun x y => if Nat.eqb x k && Nat.eqb y t then v else f x y.

Definition init : state :=
  mkState (fun _ _ => []) (fun _ _ => true) (fun _ => false) None
          None None None None None PLoop
          (fun _ => None) (fun _ => None) (fun _ => SLoop)
          (fun _ => None) (fun _ => None) (fun _ => 0) (fun _ => 0) (fun _ => CLoop).

Inductive outcome := Ok (s : state) | Disabled | Finished | AssertFail | TypeError | BadEvent.

Record config := mkCfg { NS : nat; NC : nat; EXPLORE_FAIL : bool; CLIENT_RUN : bool }.
Definition ProxyID (g : config) : nat := NS g + NC g + 1.
Definition in_nodes (g : config) (i : nat) : bool := Nat.leb 1 i && Nat.leb i (ProxyID g).
Definition in_typs (t : nat) : bool := Nat.leb 1 t && Nat.leb t 4.

(* setters *)
Definition set_net (s : state) q e : state :=
  mkState q e (fd s) (output s) (p_msg s) (p_proxyMsg s) (p_idx s) (p_resp s) (p_proxyResp s) (ppc_ s)
          (s_msg s) (s_resp s) (spc_ s) (c_req s) (c_resp s) (c_reqId s) (c_input s) (cpc_ s).
Definition set_proxy (s : state) msg pm idx resp presp pc : state :=
  mkState (queue s) (enabled s) (fd s) (output s) msg pm idx resp presp pc
          (s_msg s) (s_resp s) (spc_ s) (c_req s) (c_resp s) (c_reqId s) (c_input s) (cpc_ s).
Definition set_server (s : state) j msg resp pc : state :=
  mkState (queue s) (enabled s) (fd s) (output s) (p_msg s) (p_proxyMsg s) (p_idx s) (p_resp s) (p_proxyResp s) (ppc_ s)
          (upd (s_msg s) j msg) (upd (s_resp s) j resp) (upd (spc_ s) j pc)
          (c_req s) (c_resp s) (c_reqId s) (c_input s) (cpc_ s).
Definition set_fd (s : state) f : state :=
  mkState (queue s) (enabled s) f (output s) (p_msg s) (p_proxyMsg s) (p_idx s) (p_resp s) (p_proxyResp s) (ppc_ s)
          (s_msg s) (s_resp s) (spc_ s) (c_req s) (c_resp s) (c_reqId s) (c_input s) (cpc_ s).
Definition set_client (s : state) c req resp rid inp pc out : state :=
  mkState (queue s) (enabled s) (fd s) out (p_msg s) (p_proxyMsg s) (p_idx s) (p_resp s) (p_proxyResp s) (ppc_ s)
          (s_msg s) (s_resp s) (spc_ s)
          (upd (c_req s) c req) (upd (c_resp s) c resp) (upd (c_reqId s) c rid) (upd (c_input s) c inp) (upd (cpc_ s) c pc).

(* ReliableFIFOLink.write: await enabled; Append. `k` continues with the new queue map. *)
Definition send (g : config) (s : state) (m : pmsg) (dst typ : nat) (k : state -> outcome) : outcome :=
  if negb (in_nodes g dst && in_typs typ) then TypeError
  else if enabled s dst typ
  then k (set_net s (upd2 (queue s) dst typ (queue s dst typ ++ [m])) (enabled s))
  else Disabled.

(* the second alternative of the proxy's `either`: await fd[idx]; idx := idx + 1; goto serversLoop *)
Definition skip_server (g : config) (s : state) (i : nat) : outcome :=
  if negb (in_nodes g i) then TypeError
  else if fd s i
  then Ok (set_proxy s (p_msg s) (p_proxyMsg s) (Some (i + 1)) (p_resp s) (p_proxyResp s) PServers)
  else Disabled.

Definition proxy_step (g : config) (s : state) (br : nat) : outcome :=
  let P := ProxyID g in
  match ppc_ s with
  | PLoop =>
      if negb (enabled s P REQ) then AssertFail
      else match queue s P REQ with
      | [] => Disabled
      | m :: rest =>
          if Nat.eqb (m_to m) P && Nat.eqb (m_typ m) REQ
          then Ok (set_proxy (set_net s (upd2 (queue s) P REQ rest) (enabled s))
                             (Some m) (p_proxyMsg s) (Some 1) (p_resp s)
                             (Some (mkMsg P (m_from m) FAIL (m_id m) PROXY_RESP)) PServers)
          else AssertFail
      end
  | PServers =>
      match p_idx s with
      | None => TypeError
      | Some i =>
          if Nat.leb i (NS g) then
            match br with
            | 0 =>
                match p_msg s with
                | None => TypeError
                | Some m =>
                    let pm := mkMsg P i (m_body m) (m_id m) PROXY_REQ in
                    send g (set_proxy s (p_msg s) (Some pm) (p_idx s) (p_resp s) (p_proxyResp s) (ppc_ s)) pm i PROXY_REQ
                         (fun s' => Ok (set_proxy s' (p_msg s') (p_proxyMsg s') (p_idx s') (p_resp s') (p_proxyResp s') PRcv))
                end
            | _ => skip_server g s i
            end
          else Ok (set_proxy s (p_msg s) (p_proxyMsg s) (p_idx s) (p_resp s) (p_proxyResp s) PSend)
      end
  | PRcv =>
      match br with
      | 0 =>
          if negb (enabled s P PROXY_RESP) then AssertFail
          else match queue s P PROXY_RESP with
          | [] => Disabled
          | tmp :: rest =>
              match p_idx s, p_msg s with
              | Some i, Some m =>
                  let s1 := set_net s (upd2 (queue s) P PROXY_RESP rest) (enabled s) in
                  if negb (Nat.eqb (m_from tmp) i) || negb (Nat.eqb (m_id tmp) (m_id m))
                  then Ok s1                                    (* goto proxyRcvMsg *)
                  else if Nat.eqb (m_to tmp) P && Nat.eqb (m_typ tmp) PROXY_RESP
                  then Ok (set_proxy s1 (p_msg s) (p_proxyMsg s) (p_idx s) (p_resp s) (Some tmp) PSend)
                  else AssertFail
              | _, _ => TypeError
              end
          end
      | _ => match p_idx s with Some i => skip_server g s i | None => TypeError end
      end
  | PSend =>
      match p_msg s, p_proxyResp s with
      | Some m, Some pr =>
          let r := mkMsg P (m_from m) (m_body pr) (m_id m) RESP in
          send g (set_proxy s (p_msg s) (p_proxyMsg s) (p_idx s) (Some r) (p_proxyResp s) (ppc_ s)) r (m_from m) RESP
               (fun s' => Ok (set_proxy s' (p_msg s') (p_proxyMsg s') (p_idx s') (p_resp s') (p_proxyResp s') PLoop))
      | _, _ => TypeError
      end
  end.

(* mayFail's second alternative: netEnabled[self, PROXY_REQ_MSG_TYP] := FALSE; goto failLabel *)
Definition fail_now (s : state) (j : nat) : state :=
  set_server (set_net s (queue s) (upd2 (enabled s) j PROXY_REQ false)) j (s_msg s j) (s_resp s j) SFail.

Definition server_step (g : config) (s : state) (j : nat) (br : nat) : outcome :=
  let P := ProxyID g in
  match spc_ s j with
  | SLoop =>
      if EXPLORE_FAIL g then
        match br with
        | 0 => Ok (set_server s j (s_msg s j) (s_resp s j) SRcv)
        | _ => Ok (fail_now s j)
        end
      else Ok (set_server s j (s_msg s j) (s_resp s j) SRcv)
  | SRcv =>
      if negb (enabled s j PROXY_REQ) then AssertFail
      else match queue s j PROXY_REQ with
      | [] => Disabled
      | m :: rest =>
          if Nat.eqb (m_to m) j && Nat.eqb (m_from m) P && Nat.eqb (m_typ m) PROXY_REQ then
            let s1 := set_server (set_net s (upd2 (queue s) j PROXY_REQ rest) (enabled s)) j (Some m) (s_resp s j) SSend in
            if EXPLORE_FAIL g then
              match br with
              | 0 => Ok s1
              | _ => Ok (fail_now s1 j)
              end
            else Ok s1
          else AssertFail
      end
  | SSend =>
      match s_msg s j with
      | None => TypeError
      | Some m =>
          let r := mkMsg j (m_from m) j (m_id m) PROXY_RESP in
          send g (set_server s j (s_msg s j) (Some r) (spc_ s j)) r (m_from m) PROXY_RESP
               (fun s' =>
                  if EXPLORE_FAIL g then
                    match br with
                    | 0 => Ok (set_server s' j (s_msg s' j) (s_resp s' j) SLoop)
                    | _ => Ok (fail_now s' j)
                    end
                  else Ok (set_server s' j (s_msg s' j) (s_resp s' j) SLoop))
      end
  | SFail => Ok (set_server (set_fd s (upd (fd s) j true)) j (s_msg s j) (s_resp s j) SDone)
  | SDone => Finished
  end.

Definition client_step (g : config) (s : state) (c : nat) : outcome :=
  let P := ProxyID g in
  match cpc_ s c with
  | CLoop =>
      if CLIENT_RUN g then
        let v := c_input s c in
        let r := mkMsg c P v (c_reqId s c) REQ in
        send g (set_client s c (Some r) (c_resp s c) (c_reqId s c) (v + 1) (cpc_ s c) (output s)) r P REQ
             (fun s' => Ok (set_client s' c (c_req s' c) (c_resp s' c) (c_reqId s' c) (c_input s' c) CRcv (output s')))
      else Ok (set_client s c (c_req s c) (c_resp s c) (c_reqId s c) (c_input s c) CDone (output s))
  | CRcv =>
      if negb (enabled s c RESP) then AssertFail
      else match queue s c RESP with
      | [] => Disabled
      | m :: rest =>
          if Nat.eqb (m_to m) c && Nat.eqb (m_id m) (c_reqId s c) && Nat.eqb (m_from m) P && Nat.eqb (m_typ m) RESP
          then Ok (set_client (set_net s (upd2 (queue s) c RESP rest) (enabled s)) c (c_req s c) (Some m)
                              ((c_reqId s c + 1) mod MSG_ID_BOUND) (c_input s c) CLoop (Some m))
          else AssertFail
      end
  | CDone => Finished
  end.

Definition event := (nat * nat)%type.

Definition step (g : config) (s : state) (e : event) : outcome :=
  let '(p, br) := e in
  if Nat.eqb p (ProxyID g) then proxy_step g s br
  else if Nat.leb 1 p && Nat.leb p (NS g) then server_step g s p br
  else if Nat.leb (NS g + 1) p && Nat.leb p (NS g + NC g) then client_step g s p
  else BadEvent.

Definition next (g : config) (s : state) (e : event) : state :=
  match step g s e with Ok s' => s' | _ => s end.
Definition run (g : config) (s : state) (evs : list event) : state := fold_left (next g) evs s.
Definition exec (g : config) (evs : list event) : state := run g init evs.

(* ------------------------------------------------------------------ correspondence check *)
Definition out_code (o : outcome) : nat :=
  match o with Ok _ => 0 | Disabled => 1 | Finished => 2 | AssertFail => 3 | TypeError => 4 | BadEvent => 5 end.

Record obs := mkObs {
  o_queues : list (list (list pmsg));     (* node 1..P, typ 1..4 *)
  o_enabled : list (list bool);
  o_fd : list bool;                       (* node 1..P *)
  o_output : option pmsg;
  o_pmsg : option pmsg; o_pproxyMsg : option pmsg; o_pidx : option nat; o_presp : option pmsg; o_pproxyResp : option pmsg;
  o_ppc : ppc;
  o_smsg : list (option pmsg); o_sresp : list (option pmsg); o_spc : list spc;
  o_creq : list (option pmsg); o_cresp : list (option pmsg); o_creqId : list nat; o_cinput : list nat; o_cpc : list cpc
}.

Definition msg_eqb (a b : pmsg) : bool :=
  Nat.eqb (m_from a) (m_from b) && Nat.eqb (m_to a) (m_to b) && Nat.eqb (m_body a) (m_body b)
  && Nat.eqb (m_id a) (m_id b) && Nat.eqb (m_typ a) (m_typ b).
Definition omsg_eqb (a b : option pmsg) : bool :=
  match a, b with None, None => true | Some x, Some y => msg_eqb x y | _, _ => false end.
Definition onat_eqb (a b : option nat) : bool :=
  match a, b with None, None => true | Some x, Some y => Nat.eqb x y | _, _ => false end.
Definition ppc_eqb (a b : ppc) := match a, b with PLoop, PLoop | PServers, PServers | PRcv, PRcv | PSend, PSend => true | _, _ => false end.
Definition spc_eqb (a b : spc) := match a, b with SLoop, SLoop | SRcv, SRcv | SSend, SSend | SFail, SFail | SDone, SDone => true | _, _ => false end.
Definition cpc_eqb (a b : cpc) := match a, b with CLoop, CLoop | CRcv, CRcv | CDone, CDone => true | _, _ => false end.
Fixpoint list_eqb {A} (eqb : A -> A -> bool) (a b : list A) : bool :=
  match a, b with
  | [], [] => true
  | x :: a', y :: b' => eqb x y && list_eqb eqb a' b'
  | _, _ => false
  end.

Definition state_matches (g : config) (s : state) (o : obs) : bool :=
  let P := ProxyID g in
  let nodes := seq 1 P in let typs := seq 1 4 in
  let srv := seq 1 (NS g) in let cl := seq (NS g + 1) (NC g) in
  list_eqb (list_eqb (list_eqb msg_eqb)) (map (fun i => map (queue s i) typs) nodes) (o_queues o)
  && list_eqb (list_eqb Bool.eqb) (map (fun i => map (enabled s i) typs) nodes) (o_enabled o)
  && list_eqb Bool.eqb (map (fd s) nodes) (o_fd o)
  && omsg_eqb (output s) (o_output o)
  && omsg_eqb (p_msg s) (o_pmsg o) && omsg_eqb (p_proxyMsg s) (o_pproxyMsg o) && onat_eqb (p_idx s) (o_pidx o)
  && omsg_eqb (p_resp s) (o_presp o) && omsg_eqb (p_proxyResp s) (o_pproxyResp o) && ppc_eqb (ppc_ s) (o_ppc o)
  && list_eqb omsg_eqb (map (s_msg s) srv) (o_smsg o) && list_eqb omsg_eqb (map (s_resp s) srv) (o_sresp o)
  && list_eqb spc_eqb (map (spc_ s) srv) (o_spc o)
  && list_eqb omsg_eqb (map (c_req s) cl) (o_creq o) && list_eqb omsg_eqb (map (c_resp s) cl) (o_cresp o)
  && list_eqb Nat.eqb (map (c_reqId s) cl) (o_creqId o) && list_eqb Nat.eqb (map (c_input s) cl) (o_cinput o)
  && list_eqb cpc_eqb (map (cpc_ s) cl) (o_cpc o).

Definition srec := (event * (nat * option obs))%type.

Fixpoint first_mismatch (g : config) (s : state) (i : nat) (steps : list srec) : option nat :=
  match steps with
  | [] => None
  | (e, (code, oo)) :: rest =>
      let out := step g s e in
      let s' := match out with Ok s' => s' | _ => s end in
      if Nat.eqb (out_code out) code &&
         match oo with
         | Some o => state_matches g s' o
         | None => match out with Ok _ => false | _ => true end
         end
      then first_mismatch g s' (S i) rest
      else Some i
  end.

Definition walk := (config * list srec)%type.
Definition first_mismatch_walk (w : walk) : option nat := first_mismatch (fst w) init 0 (snd w).
Definition walk_ok (w : walk) : bool := match first_mismatch_walk w with None => true | Some _ => false end.
Fixpoint mismatches_from (i : nat) (ws : list walk) : list nat :=
  match ws with
  | [] => []
  | w :: rest => let m := mismatches_from (S i) rest in if walk_ok w then m else i :: m
  end.
