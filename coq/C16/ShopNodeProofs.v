(* C16 / shopcart ANode (AWORSet with removes) — invariants of coq/C16/ShopNode.v for every configuration, every input
   sequence and every interleaving: an element never has both an add clock and a remove clock; the answer of a replica is
   exactly the elements with an add clock; Merge leaves the two replicas equal (the spec's three assertions in Merge); no
   ill-typed step when the input only names elements of ElemSet. The raw clocks are NOT monotone once removes exist
   (refuted by a three-step witness). *)
From PGV Require Import C16.ShopNode.
From Coq Require Import Lia.
Local Arguments Nat.eqb : simpl never.
Local Arguments Nat.leb : simpl never.
Local Arguments Nat.ltb : simpl never.

Inductive reachable (g : config) : state -> Prop :=
| R_init : reachable g (init g)
| R_step : forall s e s', reachable g s -> step g s e = Ok s' -> reachable g s'.

Lemma run_reachable : forall g evs s, reachable g s -> reachable g (run g s evs).
Proof.
  intros g evs. induction evs as [|e evs IH]; intros s H; simpl; [exact H|].
  apply IH. unfold next. destruct (step g s e) eqn:E; try exact H. eapply R_step; eauto.
Qed.
Lemma exec_reachable : forall g evs, reachable g (exec g evs).
Proof. intros. apply run_reachable. constructor. Qed.

Section WithConfig.
Variable g : config.

Definition zero (v : nat -> nat) : Prop := forall n, v n = 0.
(* clocks live on NodeSet only *)
Definition ranged (v : nat -> nat) : Prop := forall n, ~ (1 <= n <= N g) -> v n = 0.

Record Inv (s : state) : Prop := mkInv {
  i_ra : forall i e, ranged (addm s i e);
  i_rr : forall i e, ranged (remm s i e);
  i_ex : forall i e, zero (addm s i e) \/ zero (remm s i e);
  i_in : exists done, INPUT g = done ++ inq s
}.

Lemma in_nodes : forall n, In n (nodes g) <-> 1 <= n <= N g.
Proof. intros n. unfold nodes. rewrite in_seq. lia. Qed.

Lemma non_null_false : forall v, ranged v -> non_null g v = false -> zero v.
Proof.
  intros v Hr H n. destruct (Nat.le_gt_cases 1 n) as [H1|H1]; [destruct (Nat.le_gt_cases n (N g)) as [H2|H2]|]; try (apply Hr; lia).
  unfold non_null in H. assert (Hall : forall x, In x (nodes g) -> negb (Nat.eqb (v x) 0) = false).
  { intros x Hx. destruct (negb (Nat.eqb (v x) 0)) eqn:Ex; [|reflexivity].
    assert (existsb (fun n0 => negb (Nat.eqb (v n0) 0)) (nodes g) = true) by (apply existsb_exists; eauto). congruence. }
  specialize (Hall n (proj2 (in_nodes n) (conj H1 H2))). apply negb_false_iff, Nat.eqb_eq in Hall. exact Hall.
Qed.

Lemma non_null_true : forall v, non_null g v = true -> ~ zero v.
Proof.
  intros v H Hz. unfold non_null in H. apply existsb_exists in H. destruct H as (n & _ & Hn).
  rewrite Hz in Hn. discriminate.
Qed.

Lemma inv_init : Inv (init g).
Proof. constructor; simpl; try (intros; intro; reflexivity). - intros. left. intro. reflexivity. - exists []. reflexivity. Qed.

(* the write macro, one direction: f is the map the command bumps, o the other *)
Lemma bump_spec : forall f o p e f' o', 1 <= p <= N g ->
  (forall x, ranged (f x)) -> (forall x, ranged (o x)) -> (forall x, zero (f x) \/ zero (o x)) ->
  bump g f o p e = (f', o') ->
  (forall x, ranged (f' x)) /\ (forall x, ranged (o' x)) /\ (forall x, zero (f' x) \/ zero (o' x)) /\
  ~ zero (f' e) /\ zero (o' e).
Proof.
  intros f o p e f' o' Hp Rf Ro Ex H. unfold bump in H.
  destruct (non_null g (f e)) eqn:E1; [|destruct (non_null g (o e)) eqn:E2]; injection H as <- <-.
  - repeat split.
    + intros x n Hn. unfold upd. destruct (Nat.eqb_spec x e) as [->|]; [destruct (Nat.eqb_spec n p); [lia|apply Rf; exact Hn]|apply Rf; exact Hn].
    + intros x n Hn. unfold upd. destruct (Nat.eqb_spec x e); [reflexivity|apply Ro; exact Hn].
    + intros x. unfold upd. destruct (Nat.eqb_spec x e) as [->|]; [right; intro; reflexivity|apply Ex].
    + intros Hz. specialize (Hz p). unfold upd in Hz. rewrite !Nat.eqb_refl in Hz. lia.
    + intro n. unfold upd. rewrite Nat.eqb_refl. reflexivity.
  - repeat split.
    + intros x n Hn. unfold upd. destruct (Nat.eqb_spec x e) as [->|]; [destruct (Nat.eqb_spec n p); [lia|apply Rf; exact Hn]|apply Rf; exact Hn].
    + intros x n Hn. unfold upd. destruct (Nat.eqb_spec x e); [reflexivity|apply Ro; exact Hn].
    + intros x. unfold upd. destruct (Nat.eqb_spec x e) as [->|]; [right; intro; reflexivity|apply Ex].
    + intros Hz. specialize (Hz p). unfold upd in Hz. rewrite !Nat.eqb_refl in Hz. lia.
    + intro n. unfold upd. rewrite Nat.eqb_refl. reflexivity.
  - pose proof (non_null_false _ (Ro e) E2) as Zo. repeat split.
    + intros x n Hn. unfold upd. destruct (Nat.eqb_spec x e) as [->|]; [destruct (Nat.eqb_spec n p); [lia|apply Rf; exact Hn]|apply Rf; exact Hn].
    + exact Ro.
    + intros x. unfold upd. destruct (Nat.eqb_spec x e) as [->|]; [right; exact Zo|apply Ex].
    + intros Hz. specialize (Hz p). unfold upd in Hz. rewrite !Nat.eqb_refl in Hz. lia.
    + exact Zo.
Qed.

Lemma in_range_spec : forall p, in_range g p = true -> 1 <= p <= N g.
Proof. intros p H. unfold in_range in H. apply andb_prop in H. destruct H as [A B0]. apply Nat.leb_le in A, B0. lia. Qed.

Lemma inv_step : forall s e s', Inv s -> step g s e = Ok s' -> Inv s'.
Proof.
  intros s e s' [Ra Rr Ex [dn Hin]] H. destruct e as [p|i1 oi2]; simpl in H.
  - destruct (in_range g p) eqn:Hp; [|discriminate]. apply in_range_spec in Hp. unfold node_step in H.
    destruct (pc s p).
    + destruct (inq s) as [|[c e] rest] eqn:Hq; [discriminate|]. destruct (negb (Nat.ltb e (E g))); [discriminate|].
      destruct c.
      * destruct (bump g (addm s p) (remm s p) p e) as [a' r'] eqn:Hb. injection H as <-.
        destruct (bump_spec _ _ p e a' r' Hp (Ra p) (Rr p) (Ex p) Hb) as (A1 & A2 & A3 & _ & _).
        constructor; simpl.
        -- intros i x. unfold upd. destruct (Nat.eqb_spec i p); [apply A1|apply Ra].
        -- intros i x. unfold upd. destruct (Nat.eqb_spec i p); [apply A2|apply Rr].
        -- intros i x. unfold upd. destruct (Nat.eqb_spec i p); [apply A3|apply Ex].
        -- exists (dn ++ [(true, e)]). rewrite <- app_assoc. exact Hin.
      * destruct (bump g (remm s p) (addm s p) p e) as [r1 a1] eqn:Hb. injection H as <-.
        assert (Ex' : forall x, zero (remm s p x) \/ zero (addm s p x)) by (intros x; destruct (Ex p x); auto).
        destruct (bump_spec _ _ p e r1 a1 Hp (Rr p) (Ra p) Ex' Hb) as (A1 & A2 & A3 & _ & _).
        constructor; simpl.
        -- intros i x. unfold upd. destruct (Nat.eqb_spec i p); [apply A2|apply Ra].
        -- intros i x. unfold upd. destruct (Nat.eqb_spec i p); [apply A1|apply Rr].
        -- intros i x. unfold upd. destruct (Nat.eqb_spec i p); [destruct (A3 x); auto|apply Ex].
        -- exists (dn ++ [(false, e)]). rewrite <- app_assoc. exact Hin.
    + injection H as <-. constructor; simpl; auto. exists dn. exact Hin.
  - unfold merge_step in H. destruct (negb (in_range g i1)); [discriminate|].
    destruct (negb (existsb _ _)); [discriminate|]. destruct oi2 as [i2|]; [|discriminate].
    destruct (in_range g i2 && differs g s i2 i1); [|discriminate]. injection H as <-.
    constructor; simpl.
    + intros i e n Hn. unfold upd. destruct (Nat.eqb_spec i i2); [|destruct (Nat.eqb_spec i i1); [|apply Ra; exact Hn]];
        (destruct (compare g _ _); [reflexivity|rewrite (Ra i1 e n Hn), (Ra i2 e n Hn); reflexivity]).
    + intros i e n Hn. unfold upd. destruct (Nat.eqb_spec i i2); [|destruct (Nat.eqb_spec i i1); [|apply Rr; exact Hn]];
        (destruct (compare g _ _); [rewrite (Rr i1 e n Hn), (Rr i2 e n Hn); reflexivity|reflexivity]).
    + intros i e. unfold upd. destruct (Nat.eqb_spec i i2); [|destruct (Nat.eqb_spec i i1); [|apply Ex]];
        (destruct (compare g _ _); [left|right]; intro; reflexivity).
    + exists dn. exact Hin.
Qed.

Lemma inv_reachable : forall s, reachable g s -> Inv s.
Proof. intros s R. induction R; [apply inv_init|eapply inv_step; eauto]. Qed.

(* Query(crdt[i]) is exactly the elements of ElemSet with an add clock *)
Lemma query_spec : forall s i e, Inv s -> (In e (query g s i) <-> e < E g /\ ~ zero (addm s i e)).
Proof.
  intros s i e [Ra Rr Ex _]. unfold query. rewrite filter_In. unfold elems. rewrite in_seq.
  assert (Hc : compare g (addm s i e) (remm s i e) = false <-> ~ zero (addm s i e)).
  { split.
    - intros H Hz. assert (compare g (addm s i e) (remm s i e) = true); [|congruence].
      unfold compare. apply forallb_forall. intros n _. rewrite Hz. apply Nat.leb_le. lia.
    - intros Hnz. destruct (Ex i e) as [Hz|Hz]; [contradiction|].
      destruct (compare g (addm s i e) (remm s i e)) eqn:Ec; [|reflexivity]. exfalso. apply Hnz.
      apply non_null_false; [apply Ra|]. unfold non_null. destruct (existsb _ _) eqn:Ee; [|reflexivity].
      apply existsb_exists in Ee. destruct Ee as (n & Hn & Hv). unfold compare in Ec.
      rewrite forallb_forall in Ec. specialize (Ec n Hn). rewrite Hz in Ec. apply Nat.leb_le in Ec.
      apply negb_true_iff, Nat.eqb_neq in Hv. lia. }
  rewrite negb_true_iff, Hc. split; [intros [[_ H1] H2]; split; [simpl in H1; lia|exact H2]|intros [H1 H2]; split; [lia|exact H2]].
Qed.

(* the spec's assertions inside Merge: afterwards the two replicas are equal *)
Lemma merge_equalises : forall s i1 i2 s', step g s (EMerge i1 (Some i2)) = Ok s' ->
  forall e n, addm s' i1 e n = addm s' i2 e n /\ remm s' i1 e n = remm s' i2 e n.
Proof.
  intros s i1 i2 s' H e n. simpl in H. unfold merge_step in H. destruct (negb (in_range g i1)); [discriminate|].
  destruct (negb (existsb _ _)); [discriminate|]. destruct (in_range g i2 && differs g s i2 i1); [|discriminate].
  injection H as <-. simpl. unfold upd. rewrite !Nat.eqb_refl. destruct (Nat.eqb_spec i1 i2); split; reflexivity.
Qed.

Lemma answer_is_query : forall s p s', step g s (ENode p) = Ok s' -> pc s p = NResp -> out_ s' = Some (query g s p).
Proof.
  intros s p s' H Hpc. simpl in H. destruct (in_range g p); [|discriminate]. unfold node_step in H. rewrite Hpc in H.
  injection H as <-. reflexivity.
Qed.

Lemma type_safe_lemma : forall s e, reachable g s -> Forall (fun c => snd c < E g) (INPUT g) -> step g s e <> TypeError.
Proof.
  intros s e R Hw. destruct (inv_reachable s R) as [_ _ _ [dn Hin]]. destruct e as [p|i1 oi2]; simpl.
  - destruct (in_range g p); [|discriminate]. unfold node_step. destruct (pc s p); [|discriminate].
    destruct (inq s) as [|[c e] rest] eqn:Hq; [discriminate|].
    assert (He : e < E g).
    { rewrite Hin in Hw. apply Forall_app in Hw. destruct Hw as [_ Hw]. inversion Hw; subst. assumption. }
    apply Nat.ltb_lt in He. rewrite He. simpl.
    destruct c; [destruct (bump g (addm s p) (remm s p) p e)|destruct (bump g (remm s p) (addm s p) p e)]; discriminate.
  - unfold merge_step. destruct (negb (in_range g i1)); [discriminate|]. destruct (negb (existsb _ _)); [discriminate|].
    destruct oi2; [|discriminate]. destruct (in_range g n && differs g s n i1); discriminate.
Qed.
End WithConfig.

(* the raw clocks are not monotone: node 1 removes element 0 (remove clock <<1, 0>>), the replicas merge, node 2 adds
   element 0: its add clock becomes <<0, 1>> and its remove clock Null, so component 1 of the element's clock went 1 -> 0 *)
Definition clock (s : state) (i e n : nat) : nat := Nat.max (addm s i e n) (remm s i e n).
Definition nonmonotone_cfg : config := mkCfg 2 1 [(false, 0); (true, 0)].
Definition nonmonotone_prefix : list event := [ENode 1; EMerge 1 (Some 2)].
Lemma clock_not_monotone_lemma :
  clock (exec nonmonotone_cfg nonmonotone_prefix) 2 0 1 = 1 /\
  clock (exec nonmonotone_cfg (nonmonotone_prefix ++ [ENode 2])) 2 0 1 = 0.
Proof. vm_compute. split; reflexivity. Qed.
