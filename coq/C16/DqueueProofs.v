(* C16 / dqueue — invariants of the dqueue model: buffer bound, one outstanding request per consumer,
   requests served in order of receipt, every produced item delivered exactly once, in production
   order, to the consumer that requested it. *)
From PGV Require Import C16.Dqueue.
From Coq Require Import Lia.
Local Arguments Nat.eqb : simpl never.
Local Arguments Nat.leb : simpl never.
Local Arguments Nat.ltb : simpl never.
Local Arguments Nat.modulo : simpl never.

Inductive reachable (NC B : nat) : state -> Prop :=
| R_init : reachable NC B init
| R_step : forall s p s', reachable NC B s -> step NC B s p = Ok s' -> reachable NC B s'.

Lemma exec_from_reachable : forall NC B evs s, reachable NC B s -> reachable NC B (fold_left (next NC B) evs s).
Proof.
  intros NC B evs. induction evs as [|e evs IH]; intros s H; simpl; [exact H|].
  apply IH. unfold next. destruct (step NC B s e) eqn:E; try exact H. eapply R_step; eauto.
Qed.

Lemma exec_reachable : forall NC B evs, reachable NC B (exec NC B evs).
Proof. intros. apply exec_from_reachable. constructor. Qed.

Lemma reachable_exec : forall NC B s, reachable NC B s -> exists evs, exec NC B evs = s.
Proof.
  intros NC B s H. induction H as [|s e s' H [evs IH] Hs].
  - exists []. reflexivity.
  - exists (evs ++ [e]). unfold exec in *. rewrite fold_left_app. simpl. rewrite IH.
    unfold next. rewrite Hs. reflexivity.
Qed.

(* ------------------------------------------------------------------ definitions *)

Fixpoint cnt (c : nat) (l : list nat) : nat :=
  match l with [] => 0 | x :: r => (if Nat.eqb x c then 1 else 0) + cnt c r end.

Lemma cnt_app : forall c a b, cnt c (a ++ b) = cnt c a + cnt c b.
Proof. intros c a b. induction a; simpl; lia. Qed.

(* requests of c waiting in the producer's mailbox *)
Definition reqcnt (s : state) (c : nat) : nat := cnt c (map fst (net s 0)).
(* the request the producer is serving *)
Definition held (s : state) (c : nat) : nat :=
  match ppc_ s, requester s with
  | P2, Some r => if Nat.eqb r c then 1 else 0
  | _, _ => 0
  end.
(* items waiting in c's mailbox *)
Definition inbox (s : state) (c : nat) : nat := if Nat.eqb c 0 then 0 else List.length (net s c).
Definition c2 (p : cpc) : nat := match p with C2 => 1 | _ => 0 end.

(* production indices of the items sent to c, in production order *)
Definition sent_to (s : state) (c : nat) : list nat :=
  map snd (filter (fun x => Nat.eqb (fst x) c) (sent s)).

Definition pendR (s : state) : list nat :=
  match ppc_ s, requester s with P2, Some r => [r] | _, _ => [] end.

Record Inv (NC B : nat) (s : state) : Prop := mkInv {
  i_bound : forall i, List.length (net s i) <= B;
  i_out : forall c, reqcnt s c + held s c + inbox s c = c2 (cpc_ s c);
  i_range : forall c, c = 0 \/ c > NC -> cpc_ s c = C;
  i_req : ppc_ s = P2 -> requester s <> None;
  g_reqs : reqs s = map fst (sent s) ++ pendR s;
  g_idx : map snd (sent s) = seq 0 (List.length (sent s));
  g_part : forall c, c >= 1 -> sent_to s c = got s c ++ map snd (net s c);
  g_stream : stream s = List.length (sent s) mod B;
  g_val : forall c v k, c >= 1 -> In (v, k) (net s c) -> v = (k + 1) mod B
}.

Lemma inv_init : forall NC B, Inv NC B init.
Proof.
  intros NC B. constructor; unfold reqcnt, held, inbox, sent_to, pendR; simpl; intros; auto; try lia; try discriminate.
  - destruct (Nat.eqb c 0); reflexivity.
  - destruct B; [reflexivity|]. symmetry. apply Nat.mod_0_l. lia.
Qed.

Ltac deq := repeat match goal with
  | |- context [Nat.eqb ?a ?b] => destruct (Nat.eqb_spec a b)
  | H : context [Nat.eqb ?a ?b] |- _ => destruct (Nat.eqb_spec a b)
  end.

Lemma holder_in_range : forall NC B s r, Inv NC B s -> ppc_ s = P2 -> requester s = Some r ->
  1 <= r <= NC /\ cpc_ s r = C2 /\ reqcnt s r = 0 /\ inbox s r = 0.
Proof.
  intros NC B s r I Hp Hr. pose proof (i_out _ _ _ I r) as H. unfold held in H. rewrite Hp, Hr, Nat.eqb_refl in H.
  destruct (cpc_ s r) eqn:Hc; simpl in H; try lia.
  assert (1 <= r <= NC).
  { destruct (Nat.eq_dec r 0) as [->|]; [pose proof (i_range _ _ _ I 0 (or_introl eq_refl)); congruence|].
    destruct (le_lt_dec r NC); [lia|]. pose proof (i_range _ _ _ I r (or_intror l)); congruence. }
  repeat split; lia.
Qed.

Lemma step_inv : forall NC B s p s', Inv NC B s -> step NC B s p = Ok s' -> Inv NC B s'.
Proof.
  intros NC B s p s' I H. unfold step in H.
  destruct (Nat.eqb_spec p 0) as [->|Hp0].
  - (* producer *)
    unfold producer_step in H. destruct (ppc_ s) eqn:Hpc.
    + (* p *)
      injection H as <-. destruct I. constructor; unfold reqcnt, held, inbox, sent_to, pendR in *; simpl in *; auto.
      * rewrite Hpc in *. exact i_out0.
      * discriminate.
      * rewrite Hpc in *. exact g_reqs0.
    + (* p1 *)
      destruct (net s 0) as [|[r t] rest] eqn:Hn0; [discriminate|]. injection H as <-.
      destruct I. constructor; unfold reqcnt, held, inbox, sent_to, pendR in *; simpl in *; auto.
      * intros i. unfold upd. destruct (Nat.eqb_spec i 0) as [->|]; [|apply i_bound0].
        specialize (i_bound0 0). rewrite Hn0 in i_bound0. simpl in i_bound0. lia.
      * intros c. specialize (i_out0 c). rewrite Hpc, Hn0 in i_out0. simpl in i_out0.
        unfold upd. rewrite Nat.eqb_refl. destruct (Nat.eqb_spec c 0) as [->|]; deq; simpl in *; try lia.
      * discriminate.
      * rewrite Hpc in g_reqs0. rewrite g_reqs0, app_nil_r. reflexivity.
      * intros c Hc. unfold upd. destruct (Nat.eqb_spec c 0); [lia|]. apply g_part0. exact Hc.
      * intros c v k Hc. unfold upd. destruct (Nat.eqb_spec c 0); [lia|]. apply g_val0. exact Hc.
    + (* p2 *)
      destruct B as [|b]; [discriminate|].
      destruct (requester s) as [r|] eqn:Hr; [|discriminate].
      destruct (Nat.leb_spec r NC) as [HrN|]; simpl in H; [|discriminate].
      destruct (Nat.ltb_spec (List.length (net s r)) (S b)) as [Hlen|]; [|discriminate].
      injection H as <-.
      destruct (holder_in_range NC (S b) s r I Hpc Hr) as (Hr1 & Hc2 & Hrc & Hib).
      destruct I. constructor; unfold reqcnt, held, inbox, sent_to, pendR in *; simpl in *; auto.
      * intros i. unfold upd. destruct (Nat.eqb_spec i r) as [->|]; [|apply i_bound0].
        rewrite app_length. simpl. lia.
      * intros c. specialize (i_out0 c). rewrite Hpc, Hr in i_out0.
        unfold upd. destruct (Nat.eqb_spec 0 r); [lia|].
        destruct (Nat.eqb_spec c 0) as [->|]; deq; subst; try lia.
        rewrite app_length. simpl. lia.
      * discriminate.
      * rewrite Hpc, Hr in g_reqs0. rewrite g_reqs0, map_app, app_nil_r. reflexivity.
      * rewrite map_app, app_length, g_idx0. simpl. rewrite Nat.add_1_r, seq_S. reflexivity.
      * intros c Hc. rewrite filter_app, map_app. simpl. unfold upd.
        destruct (Nat.eqb_spec r c) as [->|].
        -- rewrite Nat.eqb_refl. simpl. rewrite g_part0 by exact Hc. rewrite map_app, app_assoc. reflexivity.
        -- destruct (Nat.eqb_spec c r); [congruence|]. simpl. rewrite app_nil_r. apply g_part0. exact Hc.
      * rewrite app_length. simpl. rewrite g_stream0. rewrite Nat.add_mod_idemp_l by lia. reflexivity.
      * intros c v k Hc. unfold upd. destruct (Nat.eqb_spec c r) as [->|]; [|apply g_val0; exact Hc].
        intros Hin. apply in_app_or in Hin. destruct Hin as [Hin|[E|[]]]; [eapply g_val0; eauto|].
        injection E as <- <-. rewrite g_stream0. rewrite Nat.add_mod_idemp_l by lia. reflexivity.
  - (* consumer *)
    destruct (Nat.leb_spec p NC) as [HpN|]; [|discriminate].
    unfold consumer_step in H. destruct (cpc_ s p) eqn:Hpc.
    + (* c *)
      injection H as <-. destruct I. constructor; unfold reqcnt, held, inbox, sent_to, pendR in *; simpl in *; auto.
      * intros c. specialize (i_out0 c). unfold upd. destruct (Nat.eqb_spec c p) as [->|]; [|exact i_out0].
        rewrite Hpc in i_out0. exact i_out0.
      * intros c Hc. unfold upd. destruct (Nat.eqb_spec c p); [lia|]. apply i_range0. exact Hc.
    + (* c1 *)
      destruct (Nat.ltb_spec (List.length (net s 0)) B) as [Hlen|]; [|discriminate]. injection H as <-.
      destruct I. constructor; unfold reqcnt, held, inbox, sent_to, pendR in *; simpl in *; auto.
      * intros i. unfold upd. destruct (Nat.eqb_spec i 0) as [->|]; [|apply i_bound0].
        rewrite app_length. simpl. lia.
      * intros c. specialize (i_out0 c). unfold upd. rewrite Nat.eqb_refl. rewrite map_app, cnt_app. simpl.
        deq; subst; simpl in *; try lia; try (rewrite Hpc in i_out0; simpl in i_out0; lia); try congruence.
      * intros c Hc. unfold upd. destruct (Nat.eqb_spec c p); [lia|]. apply i_range0. exact Hc.
      * intros c Hc. unfold upd. destruct (Nat.eqb_spec c 0); [lia|]. apply g_part0. exact Hc.
      * intros c v k Hc. unfold upd. destruct (Nat.eqb_spec c 0); [lia|]. apply g_val0. exact Hc.
    + (* c2 *)
      destruct (net s p) as [|[v k] rest] eqn:Hnp; [discriminate|]. injection H as <-.
      destruct I. constructor; unfold reqcnt, held, inbox, sent_to, pendR in *; simpl in *; auto.
      * intros i. unfold upd. destruct (Nat.eqb_spec i p) as [->|]; [|apply i_bound0].
        specialize (i_bound0 p). rewrite Hnp in i_bound0. simpl in i_bound0. lia.
      * intros c. specialize (i_out0 c). unfold upd. destruct (Nat.eqb_spec 0 p); [lia|].
        deq; subst; simpl in *; try lia; try exact i_out0.
        rewrite Hpc, Hnp in i_out0. simpl in *. lia.
      * intros c Hc. unfold upd. destruct (Nat.eqb_spec c p); [lia|]. apply i_range0. exact Hc.
      * intros c Hc. unfold upd. destruct (Nat.eqb_spec c p) as [->|]; [|apply g_part0; exact Hc].
        rewrite g_part0 by exact Hc. rewrite Hnp. simpl. rewrite <- app_assoc. reflexivity.
      * intros c v' k' Hc. unfold upd. destruct (Nat.eqb_spec c p) as [->|]; [|apply g_val0; exact Hc].
        intros Hin. apply (g_val0 p v' k' Hc). rewrite Hnp. right. exact Hin.
Qed.

Theorem inv_reachable : forall NC B s, reachable NC B s -> Inv NC B s.
Proof. intros NC B s H. induction H; [apply inv_init|eapply step_inv; eauto]. Qed.

(* ------------------------------------------------------------------ the properties *)

Lemma buffer_bound_lemma : forall NC B s, reachable NC B s -> forall i, List.length (net s i) <= B.
Proof. intros NC B s R. exact (i_bound _ _ _ (inv_reachable _ _ _ R)). Qed.

(* an item is in flight to c only while c is waiting for it at label c2, and at most one at a time *)
Lemma delivered_to_requesting_lemma : forall NC B s, reachable NC B s ->
  forall c, c >= 1 -> List.length (net s c) <= 1 /\ (net s c <> [] -> cpc_ s c = C2 /\ c <= NC).
Proof.
  intros NC B s R c Hc. pose proof (inv_reachable _ _ _ R) as I.
  pose proof (i_out _ _ _ I c) as H. unfold inbox in H. destruct (Nat.eqb_spec c 0); [lia|].
  split.
  - destruct (cpc_ s c); simpl in H; lia.
  - intros Hne. destruct (net s c) eqn:E; [congruence|]. simpl in H.
    destruct (cpc_ s c) eqn:Hp; simpl in H; try lia. split; [reflexivity|].
    destruct (le_lt_dec c NC); [assumption|]. pose proof (i_range _ _ _ I c (or_intror l0)). congruence.
Qed.

(* the k-th produced item (production index k) goes to the sender of the k-th request the producer received *)
Lemma served_in_request_order_lemma : forall NC B s, reachable NC B s ->
  reqs s = map fst (sent s) ++ pendR s /\ map snd (sent s) = seq 0 (List.length (sent s)).
Proof.
  intros NC B s R. pose proof (inv_reachable _ _ _ R) as I. split; [apply (g_reqs _ _ _ I)|apply (g_idx _ _ _ I)].
Qed.

Lemma in_sent_to : forall s c k, In k (sent_to s c) <-> In (c, k) (sent s).
Proof.
  intros s c k. unfold sent_to. rewrite in_map_iff. split.
  - intros [[a b] [E Hin]]. simpl in E. subst b. apply filter_In in Hin. destruct Hin as [Hin Hf].
    simpl in Hf. apply Nat.eqb_eq in Hf. subst. exact Hin.
  - intros Hin. exists (c, k). split; [reflexivity|]. apply filter_In. split; [exact Hin|]. simpl. apply Nat.eqb_refl.
Qed.

Lemma NoDup_map_filter : forall (l : list (nat * nat)) f, NoDup (map snd l) -> NoDup (map snd (filter f l)).
Proof.
  intros l f. induction l as [|x l IH]; simpl; intros H; [constructor|].
  inversion H as [|? ? Hn Hd]; subst. destruct (f x); simpl; [|auto].
  constructor; [|auto]. intros Hin. apply Hn. apply in_map_iff in Hin. destruct Hin as [y [E Hy]].
  apply filter_In in Hy. apply in_map_iff. exists y. tauto.
Qed.

Lemma NoDup_app_l : forall (a b : list nat), NoDup (a ++ b) -> NoDup a.
Proof.
  intros a b. induction a as [|x a IH]; simpl; intros H; [constructor|].
  inversion H as [|? ? Hn Hd]; subst. constructor; [|auto]. intros Hin. apply Hn. apply in_or_app. tauto.
Qed.

Lemma NoDup_snd_inj : forall (l : list (nat * nat)) a b k, NoDup (map snd l) -> In (a, k) l -> In (b, k) l -> a = b.
Proof.
  intros l a b k. induction l as [|x l IH]; simpl; intros H Ha Hb; [contradiction|].
  inversion H as [|? ? Hn Hd]; subst.
  destruct Ha as [->|Ha]; destruct Hb as [Hb|Hb].
  - congruence.
  - exfalso. apply Hn. simpl. apply in_map_iff. exists (b, k). tauto.
  - subst x. exfalso. apply Hn. simpl. apply in_map_iff. exists (a, k). tauto.
  - auto.
Qed.

(* every produced item is handed to exactly one consumer, the one that requested it, exactly once and
   in production order: for each consumer, the production indices of the items sent to it (in
   production order) are those it has consumed (in the order it consumed them) followed by those still
   in its mailbox (in mailbox order) — nothing lost, duplicated, reordered or invented *)
Lemma exactly_once_in_order_lemma : forall NC B s, reachable NC B s ->
  (forall c, c >= 1 -> sent_to s c = got s c ++ map snd (net s c)) /\
  NoDup (map snd (sent s)) /\
  (forall c, c >= 1 -> NoDup (got s c)) /\
  (forall c k, c >= 1 -> In k (got s c) -> In (c, k) (sent s)) /\
  (forall c d k, c >= 1 -> d >= 1 -> In k (got s c) -> In k (got s d) -> c = d).
Proof.
  intros NC B s R. pose proof (inv_reachable _ _ _ R) as I.
  assert (Hnd : NoDup (map snd (sent s))) by (rewrite (g_idx _ _ _ I); apply seq_NoDup).
  assert (Hin : forall c k, c >= 1 -> In k (got s c) -> In (c, k) (sent s)).
  { intros c k Hc Hk. apply in_sent_to. rewrite (g_part _ _ _ I c Hc). apply in_or_app. left. exact Hk. }
  split; [exact (g_part _ _ _ I)|]. split; [exact Hnd|]. split; [|split; [exact Hin|]].
  - intros c Hc. pose proof (NoDup_map_filter (sent s) (fun x => Nat.eqb (fst x) c) Hnd) as H.
    fold (sent_to s c) in H. rewrite (g_part _ _ _ I c Hc) in H. eapply NoDup_app_l. exact H.
  - intros c d k Hc Hd Hkc Hkd. eapply NoDup_snd_inj; eauto.
Qed.

(* the value of the item with production index k is the k-th value of the cyclic stream *)
Lemma item_values_lemma : forall NC B s, reachable NC B s ->
  forall c v k, c >= 1 -> In (v, k) (net s c) -> v = (k + 1) mod B.
Proof. intros NC B s R. exact (g_val _ _ _ (inv_reachable _ _ _ R)). Qed.

Lemma type_safe_lemma : forall NC B s p, reachable NC B s -> step NC B s p <> TypeError.
Proof.
  intros NC B s p R. pose proof (inv_reachable _ _ _ R) as I. unfold step.
  destruct (Nat.eqb p 0).
  - unfold producer_step. destruct (ppc_ s) eqn:Hpc; try discriminate.
    + destruct (net s 0) as [|[r t] rest]; discriminate.
    + destruct (requester s) as [r|] eqn:Hr; [|exfalso; exact (i_req _ _ _ I Hpc Hr)].
      destruct (holder_in_range NC B s r I Hpc Hr) as (Hr1 & Hc2 & _ & _).
      destruct B as [|b].
      * (* B = 0: nothing can ever have been sent, so the producer cannot be at p2 *)
        exfalso. pose proof (i_out _ _ _ I r) as Ho. pose proof (i_bound _ _ _ I 0) as Hb0.
        pose proof (i_bound _ _ _ I r) as Hbr.
        (* cpc r = C2 requires an outstanding request, held by the producer: fine, so use the bound on
           network[0] at the moment of sending: impossible to show from the state alone; instead note that
           c1 needs Len < 0 *)
        clear Ho Hb0 Hbr. revert Hpc Hr Hc2. clear - R. intros Hpc Hr Hc2.
        assert (Hall : forall s', reachable NC 0 s' -> forall c, cpc_ s' c <> C2).
        { clear. intros s' R'. induction R' as [|s0 p0 s1 R0 IH Hs]; [intros c; simpl; discriminate|].
          intros c. unfold step in Hs. destruct (Nat.eqb p0 0).
          - unfold producer_step in Hs. destruct (ppc_ s0); try discriminate.
            + injection Hs as <-. simpl. apply IH.
            + destruct (net s0 0) as [|[r t] rest]; [discriminate|]. injection Hs as <-. simpl. apply IH.
          - destruct (Nat.leb p0 NC); [|discriminate]. unfold consumer_step in Hs.
            destruct (cpc_ s0 p0) eqn:E; try discriminate.
            + injection Hs as <-. simpl. unfold upd. destruct (Nat.eqb c p0); [discriminate|apply IH].
            + destruct (net s0 p0) as [|[v k] rest]; [discriminate|]. injection Hs as <-. simpl. unfold upd.
              destruct (Nat.eqb c p0); [discriminate|apply IH]. }
        exact (Hall s R r Hc2).
      * destruct (Nat.leb_spec r NC); simpl; [|lia].
        destruct (Nat.ltb (List.length (net s r)) (S b)); discriminate.
  - destruct (Nat.leb p NC); [|discriminate]. unfold consumer_step.
    destruct (cpc_ s p); try discriminate.
    + destruct (Nat.ltb (List.length (net s 0)) B); discriminate.
    + destruct (net s p) as [|[v k] rest]; discriminate.
Qed.
