(* C16 / loadbalancer — every request is answered by exactly one server: location invariant + history invariant. *)
From PGV Require Import C16.LoadBalancer C16.LoadBalancerProofs.
From Coq Require Import Lia.
Local Arguments Nat.eqb : simpl never.
Local Arguments Nat.leb : simpl never.
Local Arguments Nat.ltb : simpl never.
Local Arguments Nat.modulo : simpl never.

Definition key (x : nat * nat * nat) : nat * nat := (fst (fst x), snd (fst x)).

(* where is client c's outstanding request? exactly where the ghost `loc` says, and nowhere else *)
Record Loc (NS NC : nat) (s : state) : Prop := mkLoc {
  l_A : forall c, is_client NS NC c -> cntc c (net s 0) = at_ s c InLBQ;
  l_L : forall c, is_client NS NC c -> lheld s c = at_ s c InLBHeld;
  l_Q : forall c j, is_client NS NC c -> is_server NS j -> cntc c (net s j) = at_ s c (InSrvQ j);
  l_H : forall c j, is_client NS NC c -> is_server NS j -> sheld s j c = at_ s c (InSrvHeld j);
  l_R : forall c, is_client NS NC c -> List.length (net s c) = at_ s c InReply;
  l_pc : forall c, is_client NS NC c -> (cpc_ s c = CRcv <-> loc s c <> Idle);
  l_locj : forall c j, is_client NS NC c -> (loc s c = InSrvQ j \/ loc s c = InSrvHeld j) -> is_server NS j;
  l_nreq : forall c, is_client NS NC c -> loc s c <> Idle -> nreq s c >= 1
}.

Definition settled (l : location) : Prop := l = InReply \/ l = Idle.

Record Hist (NS NC : nat) (s : state) : Prop := mkHist {
  h_A : forall c r j, In (c, r, j) (answered s) ->
        is_client NS NC c /\ is_server NS j /\ r < nreq s c /\ (r = nreq s c - 1 -> settled (loc s c));
  h_N : NoDup (map key (answered s));
  h_C : forall c r, is_client NS NC c -> r < nreq s c -> (r < nreq s c - 1 \/ settled (loc s c)) ->
        exists j, In (c, r, j) (answered s)
}.

Lemma loc_init : forall NS NC, Loc NS NC init.
Proof.
  intros NS NC. constructor; unfold at_, lheld, sheld; simpl; intros; auto; try lia.
  - split; [discriminate|congruence].
  - destruct H0; discriminate.
  - congruence.
Qed.

Lemma hist_init : forall NS NC, Hist NS NC init.
Proof. intros NS NC. constructor; simpl; intros; try contradiction; try lia. constructor. Qed.

Ltac locs s := repeat match goal with
  | |- context [loc_eqb (loc s ?c) ?l] => destruct (loc_eqb_spec (loc s c) l)
  | H : context [loc_eqb (loc s ?c) ?l] |- _ => destruct (loc_eqb_spec (loc s c) l)
  end.

Ltac fin s := unfold at_, lheld, sheld, upd in *; simpl in *; unfold for_c in *; simpl in *; deq; subst; locs s; simpl in *; rewrite ?Nat.eqb_refl in *; deq; subst; simpl in *;
  try discriminate; try congruence; try lia.

(* history is untouched by a step that moves requests only between unsettled locations (or from InReply to Idle) *)
Lemma hist_frame : forall NS NC s s',
  Hist NS NC s -> answered s' = answered s -> nreq s' = nreq s ->
  (forall c, is_client NS NC c -> (settled (loc s' c) <-> settled (loc s c))) ->
  Hist NS NC s'.
Proof.
  intros NS NC s s' [HA HN HC] Ha Hn Hl. constructor; rewrite ?Ha, ?Hn.
  - intros c r j Hin. destruct (HA c r j Hin) as (Hc & Hj & Hr & Hs). repeat split; auto; try lia.
    intros E. apply Hl; auto.
  - exact HN.
  - intros c r Hc Hr Hd. apply HC; auto. destruct Hd as [Hd|Hd]; [left; exact Hd|right; apply Hl; auto].
Qed.
Lemma loc_lb_main : forall NS NC s, Loc NS NC s -> lpc_ s = LMain ->
  Loc NS NC (mkState (net s) (out_ s) (lmsg s) (lnext s) LRcv (smsg s) (spc_ s) (creq s) (cresp s) (cpc_ s)
                     (loc s) (nreq s) (answered s)).
Proof.
  intros NS NC s [LA LL LQ LH LR Lpc Llj Ln] Hpc. constructor; simpl; auto.
  intros c Hc. specialize (LL c Hc). unfold lheld in *. simpl. rewrite Hpc in LL. fin s.
Qed.

Lemma loc_lb_rcv : forall NS NC B s ty c0 pa rest, Wf NS NC B s -> Loc NS NC s -> lpc_ s = LRcv ->
  net s 0 = Req ty c0 pa :: rest ->
  Loc NS NC (mkState (upd (net s) 0 rest) (out_ s) (Some (Req ty c0 pa)) (lnext s) LSend (smsg s) (spc_ s)
                     (creq s) (cresp s) (cpc_ s) (upd (loc s) c0 InLBHeld) (nreq s) (answered s)).
Proof.
  intros NS NC B s ty c0 pa rest W L Hpc Hn0.
  assert (Hc0 : is_client NS NC c0).
  { destruct (w_wf0 _ _ _ _ W (Req ty c0 pa)) as (c & p & E & Hc); [rewrite Hn0; left; reflexivity|]. injection E as _ <- _. exact Hc. }
  pose proof (l_A _ _ _ L c0 Hc0) as A0. rewrite Hn0 in A0. simpl in A0. unfold for_c in A0. simpl in A0. rewrite Nat.eqb_refl in A0.
  assert (Hl0 : loc s c0 = InLBQ) by (unfold at_ in A0; destruct (loc_eqb_spec (loc s c0) InLBQ); [assumption|lia]).
  assert (Hr0 : cntc c0 rest = 0) by (unfold at_ in A0; destruct (loc_eqb (loc s c0) InLBQ); lia).
  destruct L as [LA LL LQ LH LR Lpc Llj Ln]. constructor; simpl.
  - intros c Hc. specialize (LA c Hc). rewrite Hn0 in LA. fin s.
  - intros c Hc. specialize (LL c Hc). unfold lheld in *. simpl. rewrite Hpc in LL. fin s.
  - intros c j Hc Hj. specialize (LQ c j Hc Hj). fin s.
  - intros c j Hc Hj. specialize (LH c j Hc Hj). fin s.
  - intros c Hc. specialize (LR c Hc). fin s.
  - intros c Hc. specialize (Lpc c Hc). unfold upd. destruct (Nat.eqb_spec c c0) as [->|]; [|exact Lpc].
    rewrite Hl0 in Lpc. split; [discriminate|]. intros _. apply Lpc. discriminate.
  - intros c j Hc. unfold upd. destruct (Nat.eqb_spec c c0) as [->|]; [intros [E|E]; discriminate|apply Llj; exact Hc].
  - intros c Hc. unfold upd. destruct (Nat.eqb_spec c c0) as [->|]; [|apply Ln; exact Hc]. intros _. apply Ln; [exact Hc|]. rewrite Hl0. discriminate.
Qed.
Lemma loc_lb_send : forall NS NC B s ty c0 pa nx, Wf NS NC B s -> Loc NS NC s -> lpc_ s = LSend ->
  lmsg s = Some (Req ty c0 pa) -> is_server NS nx ->
  Loc NS NC (mkState (upd (net s) nx (net s nx ++ [Fwd nx c0 pa])) (out_ s) (lmsg s) nx LMain (smsg s) (spc_ s)
                     (creq s) (cresp s) (cpc_ s) (upd (loc s) c0 (InSrvQ nx)) (nreq s) (answered s)).
Proof.
  intros NS NC B s ty c0 pa nx W L Hpc Hm Hnx.
  assert (Hc0 : is_client NS NC c0).
  { destruct (w_wfl _ _ _ _ W Hpc) as (m & Hm' & c & p & E & Hc). rewrite Hm in Hm'. injection Hm' as <-. injection E as _ <- _. exact Hc. }
  pose proof (l_L _ _ _ L c0 Hc0) as L0. unfold lheld in L0. rewrite Hpc, Hm in L0. simpl in L0. unfold for_c in L0. simpl in L0.
  rewrite Nat.eqb_refl in L0.
  assert (Hl0 : loc s c0 = InLBHeld) by (unfold at_ in L0; destruct (loc_eqb_spec (loc s c0) InLBHeld); [assumption|lia]).
  destruct L as [LA LL LQ LH LR Lpc Llj Ln]. constructor; simpl.
  - intros c Hc. specialize (LA c Hc). fin s.
  - intros c Hc. specialize (LL c Hc). unfold lheld in *. simpl. rewrite Hpc, Hm in LL. fin s.
  - intros c j Hc Hj. specialize (LQ c j Hc Hj). unfold upd. destruct (Nat.eqb_spec j nx) as [->|].
    + rewrite cntc_app. fin s.
    + fin s.
  - intros c j Hc Hj. specialize (LH c j Hc Hj). fin s.
  - intros c Hc. specialize (LR c Hc). fin s.
  - intros c Hc. specialize (Lpc c Hc). unfold upd. destruct (Nat.eqb_spec c c0) as [->|]; [|exact Lpc].
    rewrite Hl0 in Lpc. split; [discriminate|]. intros _. apply Lpc. discriminate.
  - intros c j Hc. unfold upd. destruct (Nat.eqb_spec c c0) as [->|]; [|apply Llj; exact Hc].
    intros [E|E]; [injection E as <-; exact Hnx|discriminate].
  - intros c Hc. unfold upd. destruct (Nat.eqb_spec c c0) as [->|]; [|apply Ln; exact Hc]. intros _. apply Ln; [exact Hc|]. rewrite Hl0. discriminate.
Qed.

Lemma loc_srv_loop : forall NS NC s j, Loc NS NC s -> spc_ s j = SLoop ->
  Loc NS NC (mkState (net s) (out_ s) (lmsg s) (lnext s) (lpc_ s) (smsg s) (upd (spc_ s) j SRcv)
                     (creq s) (cresp s) (cpc_ s) (loc s) (nreq s) (answered s)).
Proof.
  intros NS NC s j [LA LL LQ LH LR Lpc Llj Ln] Hpc. constructor; simpl; auto.
  intros c j' Hc Hj. specialize (LH c j' Hc Hj). unfold sheld in *. simpl. unfold upd.
  destruct (Nat.eqb_spec j' j) as [->|]; [rewrite Hpc in LH; exact LH|exact LH].
Qed.

Lemma loc_srv_rcv : forall NS NC B s j id c0 pa rest, Wf NS NC B s -> Loc NS NC s -> is_server NS j ->
  spc_ s j = SRcv -> net s j = Fwd id c0 pa :: rest ->
  Loc NS NC (mkState (upd (net s) j rest) (out_ s) (lmsg s) (lnext s) (lpc_ s) (upd (smsg s) j (Some (Fwd id c0 pa)))
                     (upd (spc_ s) j SSend) (creq s) (cresp s) (cpc_ s) (upd (loc s) c0 (InSrvHeld j)) (nreq s) (answered s)).
Proof.
  intros NS NC B s j id c0 pa rest W L Hj Hpc Hnj.
  assert (Hc0 : is_client NS NC c0).
  { destruct (w_wfs _ _ _ _ W j (Fwd id c0 pa) Hj) as (i & c & p & E & Hc); [rewrite Hnj; left; reflexivity|]. injection E as _ <- _. exact Hc. }
  pose proof (l_Q _ _ _ L c0 j Hc0 Hj) as Q0. rewrite Hnj in Q0. simpl in Q0. unfold for_c in Q0. simpl in Q0. rewrite Nat.eqb_refl in Q0.
  assert (Hl0 : loc s c0 = InSrvQ j) by (unfold at_ in Q0; destruct (loc_eqb_spec (loc s c0) (InSrvQ j)); [assumption|lia]).
  destruct L as [LA LL LQ LH LR Lpc Llj Ln]. constructor; simpl.
  - intros c Hc. specialize (LA c Hc). fin s.
  - intros c Hc. specialize (LL c Hc). fin s.
  - intros c j' Hc Hj'. specialize (LQ c j' Hc Hj'). unfold upd. destruct (Nat.eqb_spec j' j) as [->|].
    + rewrite Hnj in LQ. fin s.
    + fin s.
  - intros c j' Hc Hj'. specialize (LH c j' Hc Hj'). unfold sheld in *. simpl. unfold upd. destruct (Nat.eqb_spec j' j) as [->|].
    + rewrite Hpc in LH. fin s.
    + fin s.
  - intros c Hc. specialize (LR c Hc). fin s.
  - intros c Hc. specialize (Lpc c Hc). unfold upd. destruct (Nat.eqb_spec c c0) as [->|]; [|exact Lpc].
    rewrite Hl0 in Lpc. split; [discriminate|]. intros _. apply Lpc. discriminate.
  - intros c j' Hc. unfold upd. destruct (Nat.eqb_spec c c0) as [->|]; [|apply Llj; exact Hc].
    intros [E|E]; [discriminate|injection E as <-; exact Hj].
  - intros c Hc. unfold upd. destruct (Nat.eqb_spec c c0) as [->|]; [|apply Ln; exact Hc]. intros _. apply Ln; [exact Hc|]. rewrite Hl0. discriminate.
Qed.
Lemma loc_srv_send : forall NS NC B s j id c0 pa, Wf NS NC B s -> Loc NS NC s -> is_server NS j ->
  spc_ s j = SSend -> smsg s j = Some (Fwd id c0 pa) ->
  Loc NS NC (mkState (upd (net s) c0 (net s c0 ++ [Page])) (out_ s) (lmsg s) (lnext s) (lpc_ s) (smsg s)
                     (upd (spc_ s) j SLoop) (creq s) (cresp s) (cpc_ s)
                     (upd (loc s) c0 InReply) (nreq s) (answered s ++ [(c0, nreq s c0 - 1, j)])) /\
  loc s c0 = InSrvHeld j /\ is_client NS NC c0.
Proof.
  intros NS NC B s j id c0 pa W L Hj Hpc Hm.
  assert (Hc0 : is_client NS NC c0).
  { destruct (w_wfh _ _ _ _ W j Hj Hpc) as (m & Hm' & i & c & p & E & Hc). rewrite Hm in Hm'. injection Hm' as <-. injection E as _ <- _. exact Hc. }
  pose proof (l_H _ _ _ L c0 j Hc0 Hj) as H0. unfold sheld in H0. rewrite Hpc, Hm in H0. simpl in H0. unfold for_c in H0. simpl in H0.
  rewrite Nat.eqb_refl in H0.
  assert (Hl0 : loc s c0 = InSrvHeld j) by (unfold at_ in H0; destruct (loc_eqb_spec (loc s c0) (InSrvHeld j)); [assumption|lia]).
  split; [|split; assumption].
  destruct L as [LA LL LQ LH LR Lpc Llj Ln]. constructor; simpl.
  - intros c Hc. specialize (LA c Hc). fin s.
  - intros c Hc. specialize (LL c Hc). fin s.
  - intros c j' Hc Hj'. specialize (LQ c j' Hc Hj'). fin s.
  - intros c j' Hc Hj'. specialize (LH c j' Hc Hj'). unfold sheld in *. simpl. unfold upd. destruct (Nat.eqb_spec j' j) as [->|].
    + rewrite Hpc, Hm in LH. fin s.
    + fin s.
  - intros c Hc. specialize (LR c Hc). unfold upd. destruct (Nat.eqb_spec c c0) as [->|].
    + rewrite app_length. fin s.
    + fin s.
  - intros c Hc. specialize (Lpc c Hc). unfold upd. destruct (Nat.eqb_spec c c0) as [->|]; [|exact Lpc].
    rewrite Hl0 in Lpc. split; [discriminate|]. intros _. apply Lpc. discriminate.
  - intros c j' Hc. unfold upd. destruct (Nat.eqb_spec c c0) as [->|]; [intros [E|E]; discriminate|apply Llj; exact Hc].
  - intros c Hc. unfold upd. destruct (Nat.eqb_spec c c0) as [->|]; [|apply Ln; exact Hc]. intros _. apply Ln; [exact Hc|]. rewrite Hl0. discriminate.
Qed.

Lemma loc_cl_loop : forall NS NC s c0, Loc NS NC s -> cpc_ s c0 = CLoop ->
  Loc NS NC (mkState (net s) (out_ s) (lmsg s) (lnext s) (lpc_ s) (smsg s) (spc_ s)
                     (creq s) (cresp s) (upd (cpc_ s) c0 CReq) (loc s) (nreq s) (answered s)).
Proof.
  intros NS NC s c0 [LA LL LQ LH LR Lpc Llj Ln] Hpc. constructor; simpl; auto.
  intros c Hc. specialize (Lpc c Hc). unfold upd. destruct (Nat.eqb_spec c c0) as [->|]; [|exact Lpc].
  rewrite Hpc in Lpc. split; [discriminate|]. intros H. apply Lpc in H. discriminate.
Qed.

Lemma loc_cl_req : forall NS NC s c0, Loc NS NC s -> is_client NS NC c0 -> cpc_ s c0 = CReq ->
  Loc NS NC (mkState (upd (net s) 0 (net s 0 ++ [Req GET_PAGE c0 0])) (out_ s) (lmsg s) (lnext s) (lpc_ s) (smsg s) (spc_ s)
                     (upd (creq s) c0 (Some (Req GET_PAGE c0 0))) (cresp s) (upd (cpc_ s) c0 CRcv)
                     (upd (loc s) c0 InLBQ) (upd (nreq s) c0 (nreq s c0 + 1)) (answered s)) /\ loc s c0 = Idle.
Proof.
  intros NS NC s c0 L Hc0 Hpc.
  assert (Hl0 : loc s c0 = Idle).
  { destruct (loc s c0) eqn:E; try reflexivity; exfalso;
      assert (X : cpc_ s c0 = CRcv) by (apply (l_pc _ _ _ L c0 Hc0); rewrite E; discriminate); congruence. }
  split; [|exact Hl0].
  destruct L as [LA LL LQ LH LR Lpc Llj Ln]. constructor; simpl.
  - intros c Hc. specialize (LA c Hc). unfold upd. rewrite Nat.eqb_refl. rewrite cntc_app. fin s.
  - intros c Hc. specialize (LL c Hc). fin s.
  - intros c j' Hc Hj'. specialize (LQ c j' Hc Hj'). fin s.
  - intros c j' Hc Hj'. specialize (LH c j' Hc Hj'). fin s.
  - intros c Hc. specialize (LR c Hc). fin s.
  - intros c Hc. specialize (Lpc c Hc). unfold upd. destruct (Nat.eqb_spec c c0) as [->|]; [|exact Lpc].
    split; [discriminate|reflexivity].
  - intros c j' Hc. unfold upd. destruct (Nat.eqb_spec c c0) as [->|]; [intros [E|E]; discriminate|apply Llj; exact Hc].
  - intros c Hc. unfold upd. destruct (Nat.eqb_spec c c0) as [->|]; [lia|apply Ln; exact Hc].
Qed.

Lemma loc_cl_rcv : forall NS NC s c0 m rest, Loc NS NC s -> is_client NS NC c0 -> cpc_ s c0 = CRcv ->
  net s c0 = m :: rest ->
  Loc NS NC (mkState (upd (net s) c0 rest) (Some m) (lmsg s) (lnext s) (lpc_ s) (smsg s) (spc_ s)
                     (creq s) (upd (cresp s) c0 (Some m)) (upd (cpc_ s) c0 CLoop)
                     (upd (loc s) c0 Idle) (nreq s) (answered s)) /\ loc s c0 = InReply.
Proof.
  intros NS NC s c0 m rest L Hc0 Hpc Hn.
  pose proof (l_R _ _ _ L c0 Hc0) as R0. rewrite Hn in R0. simpl in R0.
  assert (Hl0 : loc s c0 = InReply) by (unfold at_ in R0; destruct (loc_eqb_spec (loc s c0) InReply); [assumption|lia]).
  split; [|exact Hl0].
  destruct L as [LA LL LQ LH LR Lpc Llj Ln]. constructor; simpl.
  - intros c Hc. specialize (LA c Hc). fin s.
  - intros c Hc. specialize (LL c Hc). fin s.
  - intros c j' Hc Hj'. specialize (LQ c j' Hc Hj'). fin s.
  - intros c j' Hc Hj'. specialize (LH c j' Hc Hj'). fin s.
  - intros c Hc. specialize (LR c Hc). unfold upd. destruct (Nat.eqb_spec c c0) as [->|].
    + rewrite Hn in LR. fin s.
    + fin s.
  - intros c Hc. specialize (Lpc c Hc). unfold upd. destruct (Nat.eqb_spec c c0) as [->|]; [|exact Lpc].
    split; [discriminate|congruence].
  - intros c j' Hc. unfold upd. destruct (Nat.eqb_spec c c0) as [->|]; [intros [E|E]; discriminate|apply Llj; exact Hc].
  - intros c Hc. unfold upd. destruct (Nat.eqb_spec c c0) as [->|]; [congruence|apply Ln; exact Hc].
Qed.
Lemma settled_upd : forall (s : state) c0 X c, (settled X <-> settled (loc s c0)) ->
  (settled (upd (loc s) c0 X c) <-> settled (loc s c)).
Proof. intros s c0 X c H. unfold upd. destruct (Nat.eqb_spec c c0) as [->|]; [exact H|tauto]. Qed.

Lemma not_settled : forall l, l <> InReply -> l <> Idle -> ~ settled l.
Proof. intros l A B [C|C]; congruence. Qed.

Lemma hist_srv_send : forall NS NC s j c0, Loc NS NC s -> Hist NS NC s -> is_server NS j -> is_client NS NC c0 ->
  loc s c0 = InSrvHeld j ->
  Hist NS NC (mkState (upd (net s) c0 (net s c0 ++ [Page])) (out_ s) (lmsg s) (lnext s) (lpc_ s) (smsg s)
                      (upd (spc_ s) j SLoop) (creq s) (cresp s) (cpc_ s)
                      (upd (loc s) c0 InReply) (nreq s) (answered s ++ [(c0, nreq s c0 - 1, j)])).
Proof.
  intros NS NC s j c0 L [HA HN HC] Hj Hc0 Hl0.
  assert (Hn0 : nreq s c0 >= 1) by (apply (l_nreq _ _ _ L c0 Hc0); rewrite Hl0; discriminate).
  assert (Hfresh : forall j', ~ In (c0, nreq s c0 - 1, j') (answered s)).
  { intros j' Hin. destruct (HA _ _ _ Hin) as (_ & _ & _ & Hs). specialize (Hs eq_refl). rewrite Hl0 in Hs.
    destruct Hs; discriminate. }
  constructor; simpl.
  - intros c r j' Hin. apply in_app_or in Hin. destruct Hin as [Hin|[E|[]]].
    + destruct (HA c r j' Hin) as (Hc & Hj' & Hr & Hs). repeat split; auto; try lia.
      intros E. unfold upd. destruct (Nat.eqb_spec c c0) as [->|]; [left; reflexivity|auto].
    + injection E as <- <- <-. repeat split; auto; try lia. intros _. unfold upd. rewrite Nat.eqb_refl. left. reflexivity.
  - rewrite map_app. simpl. 
    assert (Hk : ~ In (c0, nreq s c0 - 1) (map key (answered s))).
    { intros Hin. apply in_map_iff in Hin. destruct Hin as [[[c r] j'] [E Hin]]. unfold key in E. simpl in E.
      injection E as -> ->. exact (Hfresh j' Hin). }
    clear - HN Hk. induction (map key (answered s)) as [|x l IH]; simpl.
    + constructor; [tauto|constructor].
    + inversion HN; subst. constructor.
      * intros Hin. apply in_app_or in Hin. destruct Hin as [Hin|[<-|[]]]; [tauto|]. apply Hk. left. reflexivity.
      * apply IH; [assumption|]. intros Hin. apply Hk. right. exact Hin.
  - intros c r Hc Hr Hd. unfold upd in Hd. destruct (Nat.eqb_spec c c0) as [->|].
    + destruct (Nat.eq_dec r (nreq s c0 - 1)) as [->|Hne].
      * exists j. apply in_or_app. right. left. reflexivity.
      * destruct (HC c0 r Hc0 Hr ltac:(left; lia)) as [j' Hin]. exists j'. apply in_or_app. left. exact Hin.
    + destruct (HC c r Hc Hr Hd) as [j' Hin]. exists j'. apply in_or_app. left. exact Hin.
Qed.

Lemma hist_cl_req : forall NS NC s c0, Hist NS NC s -> is_client NS NC c0 -> loc s c0 = Idle ->
  Hist NS NC (mkState (upd (net s) 0 (net s 0 ++ [Req GET_PAGE c0 0])) (out_ s) (lmsg s) (lnext s) (lpc_ s) (smsg s) (spc_ s)
                      (upd (creq s) c0 (Some (Req GET_PAGE c0 0))) (cresp s) (upd (cpc_ s) c0 CRcv)
                      (upd (loc s) c0 InLBQ) (upd (nreq s) c0 (nreq s c0 + 1)) (answered s)).
Proof.
  intros NS NC s c0 [HA HN HC] Hc0 Hl0. constructor; simpl.
  - intros c r j Hin. destruct (HA c r j Hin) as (Hc & Hj & Hr & Hs). unfold upd.
    destruct (Nat.eqb_spec c c0) as [->|]; repeat split; auto; try lia.
  - exact HN.
  - intros c r Hc. unfold upd. destruct (Nat.eqb_spec c c0) as [->|].
    + intros Hr Hd. apply HC; auto.
      * destruct Hd as [Hd|[Hd|Hd]]; [lia|discriminate..].
      * right. right. exact Hl0.
    + apply HC. exact Hc.
Qed.

Theorem step_inv2 : forall NS NC B s p s', Wf NS NC B s -> Loc NS NC s -> Hist NS NC s ->
  step NS NC B s p = Ok s' -> Loc NS NC s' /\ Hist NS NC s'.
Proof.
  intros NS NC B s p s' W L Hi H. unfold step in H.
  destruct (Nat.eqb_spec p 0) as [->|Hp0].
  - unfold lb_step in H. destruct (lpc_ s) eqn:Hpc.
    + injection H as <-. split; [apply loc_lb_main; assumption|]. apply (hist_frame NS NC s); auto. tauto.
    + destruct (net s 0) as [|m rest] eqn:Hn0; [discriminate|].
      destruct m as [ty c pa|id c pa|]; try discriminate.
      destruct (Nat.eqb ty GET_PAGE); [|discriminate]. injection H as <-.
      split; [eapply loc_lb_rcv; eauto|].
      assert (Hc0 : is_client NS NC c).
      { destruct (w_wf0 _ _ _ _ W (Req ty c pa)) as (c' & p' & E & Hc); [rewrite Hn0; left; reflexivity|]. injection E as _ <- _. exact Hc. }
      pose proof (l_A _ _ _ L c Hc0) as A0. rewrite Hn0 in A0. simpl in A0. unfold for_c in A0. simpl in A0. rewrite Nat.eqb_refl in A0.
      assert (Hl0 : loc s c = InLBQ) by (unfold at_ in A0; destruct (loc_eqb_spec (loc s c) InLBQ); [assumption|lia]).
      apply (hist_frame NS NC s); auto. simpl. intros c' _. apply settled_upd. rewrite Hl0.
      split; intros [E|E]; discriminate.
    + destruct NS as [|ns]; [discriminate|].
      destruct (w_wfl _ _ _ _ W Hpc) as (m & Hm & c & pa & -> & Hc). rewrite Hm in H. simpl in H.
      set (nx := lnext s mod S ns + 1) in *.
      assert (Hnx : 1 <= nx <= S ns) by (apply mod_server; lia).
      destruct (Nat.ltb (List.length (net s nx)) B); [|discriminate]. injection H as <-.
      split; [rewrite <- Hm; eapply loc_lb_send; eauto|].
      pose proof (l_L _ _ _ L c Hc) as L0. unfold lheld in L0. rewrite Hpc, Hm in L0. simpl in L0. unfold for_c in L0. simpl in L0.
      rewrite Nat.eqb_refl in L0.
      assert (Hl0 : loc s c = InLBHeld) by (unfold at_ in L0; destruct (loc_eqb_spec (loc s c) InLBHeld); [assumption|lia]).
      apply (hist_frame (S ns) NC s); auto. simpl. intros c' _. apply settled_upd. rewrite Hl0.
      split; intros [E|E]; discriminate.
  - destruct (Nat.leb_spec p NS) as [HpS|HpS].
    + assert (Hsrv : 1 <= p <= NS) by lia.
      unfold server_step in H. destruct (spc_ s p) eqn:Hpc.
      * injection H as <-. split; [apply loc_srv_loop; assumption|]. apply (hist_frame NS NC s); auto. tauto.
      * destruct (net s p) as [|m rest] eqn:Hnp; [discriminate|]. injection H as <-.
        destruct (w_wfs _ _ _ _ W p m Hsrv) as (id & c & pa & -> & Hc); [rewrite Hnp; left; reflexivity|]. simpl.
        split; [eapply loc_srv_rcv; eauto|].
        pose proof (l_Q _ _ _ L c p Hc Hsrv) as Q0. rewrite Hnp in Q0. simpl in Q0. unfold for_c in Q0. simpl in Q0. rewrite Nat.eqb_refl in Q0.
        assert (Hl0 : loc s c = InSrvQ p) by (unfold at_ in Q0; destruct (loc_eqb_spec (loc s c) (InSrvQ p)); [assumption|lia]).
        apply (hist_frame NS NC s); auto. simpl. intros c' _. apply settled_upd. rewrite Hl0.
        split; intros [E|E]; discriminate.
      * destruct (w_wfh _ _ _ _ W p Hsrv Hpc) as (m & Hm & id & c & pa & -> & Hc). rewrite Hm in H. simpl in H.
        destruct (Nat.leb c (NS + NC)); simpl in H; [|discriminate].
        destruct (Nat.ltb (List.length (net s c)) B); [|discriminate]. injection H as <-.
        destruct (loc_srv_send NS NC B s p id c pa W L Hsrv Hpc Hm) as (L' & Hl0 & _).
        split; [exact L'|]. apply hist_srv_send; auto.
    + destruct (Nat.leb_spec p (NS + NC)) as [HpC|]; [|discriminate].
      assert (Hcl : NS < p <= NS + NC) by lia.
      unfold client_step in H. destruct (cpc_ s p) eqn:Hpc.
      * injection H as <-. split; [apply loc_cl_loop; assumption|]. apply (hist_frame NS NC s); auto. tauto.
      * destruct (Nat.ltb (List.length (net s 0)) B); [|discriminate]. injection H as <-.
        destruct (loc_cl_req NS NC s p L Hcl Hpc) as (L' & Hl0). split; [exact L'|]. apply hist_cl_req; auto.
      * destruct (net s p) as [|m rest] eqn:Hnp; [discriminate|]. injection H as <-.
        destruct (loc_cl_rcv NS NC s p m rest L Hcl Hpc Hnp) as (L' & Hl0). split; [exact L'|].
        apply (hist_frame NS NC s); auto. simpl. intros c' _. apply settled_upd. rewrite Hl0.
        split; intros _; [left|right]; reflexivity.
Qed.

Theorem inv2_reachable : forall NS NC B s, reachable NS NC B s -> Loc NS NC s /\ Hist NS NC s.
Proof.
  intros NS NC B s H. induction H as [|s p s' R [L Hi] Hs]; [split; [apply loc_init|apply hist_init]|].
  eapply step_inv2; eauto. apply wf_reachable. exact R.
Qed.

(* every request is answered by exactly one server: the pairs (client, request number) in the history of pages
   sent are pairwise distinct (at most one answer per request); every entry is a real request of a real client
   answered by a real server; and every request a client has issued, except a current one whose page has not been
   sent yet, has an entry (at least one). A client waiting at clientReceive has exactly one request or page in the
   whole pipeline (Loc). *)
Lemma exactly_one_server_lemma : forall NS NC B s, reachable NS NC B s ->
  NoDup (map key (answered s)) /\
  (forall c r j, In (c, r, j) (answered s) -> is_client NS NC c /\ is_server NS j /\ r < nreq s c) /\
  (forall c r, is_client NS NC c -> r < nreq s c -> (r < nreq s c - 1 \/ loc s c = InReply \/ loc s c = Idle) ->
     exists j, In (c, r, j) (answered s) /\ forall j', In (c, r, j') (answered s) -> j' = j).
Proof.
  intros NS NC B s R. destruct (inv2_reachable _ _ _ _ R) as [L [HA HN HC]].
  split; [exact HN|]. split.
  - intros c r j Hin. destruct (HA c r j Hin) as (A & B0 & C0 & _). auto.
  - intros c r Hc Hr Hd. destruct (HC c r Hc Hr Hd) as [j Hin]. exists j. split; [exact Hin|].
    intros j' Hin'. clear - HN Hin Hin'. induction (answered s) as [|x l IH]; [contradiction|].
    simpl in HN. inversion HN as [|? ? Hn Hd]; subst.
    destruct Hin as [->|Hin]; destruct Hin' as [E|Hin'].
    + injection E as ->. reflexivity.
    + exfalso. apply Hn. apply in_map_iff. exists (c, r, j'). split; [reflexivity|exact Hin'].
    + subst x. exfalso. apply Hn. apply in_map_iff. exists (c, r, j). split; [reflexivity|exact Hin].
    + auto.
Qed.

(* a page in a client's mailbox, or a request anywhere in the pipeline, belongs to a client that is waiting for it *)
Lemma one_outstanding_lemma : forall NS NC B s, reachable NS NC B s -> forall c, is_client NS NC c ->
  List.length (net s c) <= 1 /\ (net s c <> [] -> cpc_ s c = CRcv) /\ (cpc_ s c = CRcv <-> loc s c <> Idle).
Proof.
  intros NS NC B s R c Hc. destruct (inv2_reachable _ _ _ _ R) as [L _].
  pose proof (l_R _ _ _ L c Hc) as HR. unfold at_ in HR. split; [destruct (loc_eqb (loc s c) InReply); lia|]. split.
  - intros Hne. apply (l_pc _ _ _ L c Hc). destruct (loc_eqb_spec (loc s c) InReply) as [E|E]; [rewrite E; discriminate|].
    destruct (net s c); [congruence|simpl in HR; lia].
  - apply (l_pc _ _ _ L c Hc).
Qed.
