(* C16 / nestedcrdtimpl — the bound StateSanity intends: no replica shows more than the writes the nodes have
   issued. Three groups of invariants: (M) nobody knows more about a replica's own component than that replica;
   (H) the request/acknowledgement handshake between a Node and its resource; (P, S) the node's pending / achieved
   write counters account for the resource's open section and committed own component. *)
From PGV Require Import C16.Nested C16.NestedProofs.
From Coq Require Import Lia.
Local Arguments Nat.eqb : simpl never.
Local Arguments Nat.leb : simpl never.
Local Arguments Nat.ltb : simpl never.

Section WithConfig.
Variable g : config.

Record MInv (s : state) : Prop := mkM {
  m_st : forall r' q, st s r' q <= st s q q;
  m_net : forall r' v q, In v (net s r') -> v q <= st s q q;
  m_rst : forall r' q, r' <> q -> rst s r' q <= st s q q
}.

Lemma m_init : MInv init.
Proof. constructor; simpl; intros; try contradiction; unfold ZERO; lia. Qed.

Ltac deq := repeat match goal with
  | |- context [Nat.eqb ?a ?b] => destruct (Nat.eqb_spec a b)
  | H : context [Nat.eqb ?a ?b] |- _ => destruct (Nat.eqb_spec a b)
  end.

(* a resource step that replaces (st r0, rst r0) by values that respect the bounds, and adds only bounded messages *)
Lemma m_frame : forall s s' r0 stt rs,
  MInv s ->
  st s' = upd (st s) r0 stt -> rst s' = upd (rst s) r0 rs ->
  (forall q, st s r0 q <= stt q) ->
  (forall q, q <> r0 -> stt q <= st s q q) ->
  (forall q, q <> r0 -> rs q <= st s q q) ->
  (forall r' v, In v (net s' r') -> In v (net s r') \/ v = st s r0) ->
  MInv s'.
Proof.
  intros s s' r0 stt rs [Ms Mn Mr] Es Er Hmono Hst Hrs Hnet.
  assert (Hqq : forall q, st s q q <= st s' q q).
  { intros q. rewrite Es. unfold upd. destruct (Nat.eqb_spec q r0) as [->|]; [apply Hmono|lia]. }
  constructor.
  - intros r' q. specialize (Hqq q). rewrite Es in *. unfold upd in *.
    pose proof (Ms r' q) as A. pose proof (Hmono q) as B0.
    destruct (Nat.eqb_spec r' r0) as [E1|E1]; destruct (Nat.eqb_spec q r0) as [E2|E2]; subst; try lia.
    specialize (Hst q E2). lia.
  - intros r' v q Hin. specialize (Hqq q). destruct (Hnet r' v Hin) as [H| ->].
    + specialize (Mn r' v q H). lia.
    + specialize (Ms r0 q). lia.
  - intros r' q Hne. specialize (Hqq q). rewrite Er. unfold upd. destruct (Nat.eqb_spec r' r0) as [->|].
    + specialize (Hrs q ltac:(congruence)). lia.
    + specialize (Mr r' q Hne). lia.
Qed.

Lemma reply_fields : forall s r q rm cs stt rs a s', reply g s r q rm cs stt rs a = Ok s' ->
  outc s r = None /\
  s' = set_res s r (net s) (upd (inc s) r None) (upd (outc s) r (Some a)) rm (Some q) cs stt rs.
Proof. intros s r q rm cs stt rs a s' H. unfold reply in H. destruct (outc s r); [discriminate|]. injection H as <-. auto. Qed.

Lemma m_step : forall s e s', MInv s -> step g s e = Ok s' -> MInv s'.
Proof.
  intros s e s' M H. destruct e as [r0 br t|n br]; simpl in H.
  - destruct (is_res g r0); [|discriminate]. unfold res_step in H.
    destruct br as [|[|[|br]]]; try discriminate.
    + destruct (inc s r0) as [q|]; [|discriminate].
      pose proof (m_st _ M) as Ms. pose proof (m_rst _ M) as Mr.
      destruct q; try (destruct (negb (csip s r0))); apply reply_fields in H; destruct H as [_ ->];
        (eapply (m_frame s _ r0); [exact M|reflexivity|reflexivity|..]); simpl; unfold COMBINE, UPDATE, upd, ZERO; intros;
        deq; subst; try congruence; try lia;
        try (match goal with q : nat |- _ => pose proof (Ms r0 q); pose proof (Mr r0 q) end; lia); auto.
    + destruct (net s r0) as [|v rest] eqn:Hn; [discriminate|]. injection H as <-.
      pose proof (m_st _ M) as Ms. pose proof (m_net _ M r0 v) as Mv.
      eapply (m_frame s _ r0 (COMBINE v (st s r0)) (rst s r0)); [exact M|reflexivity|reflexivity|..].
      * intros q. unfold COMBINE. lia.
      * intros q Hq. unfold COMBINE. specialize (Mv q ltac:(rewrite Hn; left; reflexivity)). specialize (Ms r0 q). lia.
      * intros q Hq. apply (m_rst _ M). congruence.
      * intros r' v0. simpl. unfold upd. destruct (Nat.eqb_spec r' r0) as [->|]; [|auto]. intros Hin. left. rewrite Hn. right. exact Hin.
    + destruct (rem_ s r0); [discriminate|]. destruct t as [t|]; [|discriminate].
      destruct (negb (existsb _ _)); [discriminate|]. destruct (negb (is_res g t)); [discriminate|].
      destruct (Nat.ltb _ _); [|discriminate]. injection H as <-.
      eapply (m_frame s _ r0 (st s r0) (rst s r0)); [exact M|reflexivity|reflexivity|..].
      * intros; lia.
      * intros q Hq. apply (m_st _ M).
      * intros q Hq. apply (m_rst _ M). congruence.
      * intros r' v0. simpl. unfold upd. destruct (Nat.eqb_spec r' t) as [->|]; [|auto].
        intros Hin. apply in_app_or in Hin. destruct Hin as [Hin|[<-|[]]]; auto.
  - destruct (is_node g n); [|discriminate].
    assert (E : st s' = st s /\ rst s' = rst s /\ net s' = net s).
    { unfold node_step in H. destruct (npc_ s n); destruct br as [|[|[|[|[|br]]]]];
        try (unfold node_send in H; injection H as <-; auto);
        try (unfold node_ack in H; destruct (outc s (res_of g n)) as [a|]; [|discriminate];
             match type of H with (if ?b then _ else _) = _ => destruct b end; [|discriminate]; cbv beta in H;
             repeat match type of H with (if ?b then _ else _) = _ => destruct b end; try discriminate; injection H as <-; auto);
        try discriminate;
        repeat match type of H with (if ?b then _ else _) = _ => destruct b end; try discriminate; injection H as <-; auto. }
    destruct E as (E1 & E2 & E3). destruct M as [Ms Mn Mr]. constructor; rewrite ?E1, ?E2, ?E3; auto.
Qed.

(* ------------------------------------------------------------------ handshake and write accounting, per node *)

Definition expect_req (p : npc) : option req :=
  match p with
  | NReadAck => Some RRead | NAbortAck => Some RAbort | NWriteAck => Some (RWrite 1)
  | NPreAck => Some RPre | NCommitAck => Some RCommit | _ => None
  end.
Definition ack_ok (p : npc) (a : ack) : bool :=
  match p, a with
  | NReadAck, ARead _ | NAbortAck, AAbort | NWriteAck, AWrite | NPreAck, APre | NCommitAck, ACommit => true
  | _, _ => false
  end.
Definition ack_for (q : req) (a : ack) : bool :=
  match q, a with
  | RRead, ARead _ | RAbort, AAbort | RWrite _, AWrite | RPre, APre | RCommit, ACommit => true
  | _, _ => false
  end.

(* writes of the open section already acknowledged by the resource *)
Definition acked (s : state) (r : nat) : nat := if csip s r then rst s r r - st s r r else 0.
Definition pend_write (s : state) (r : nat) : nat := match inc s r with Some (RWrite _) => 1 | _ => 0 end.
Definition is_commit_ack (o : option ack) : bool := match o with Some ACommit => true | _ => false end.
Definition is_abort_ack (o : option ack) : bool := match o with Some AAbort => true | _ => false end.

Record NodeInv (s : state) (n : nat) : Prop := mkN {
  n_hs : match expect_req (npc_ s n) with
         | None => inc s (res_of g n) = None /\ outc s (res_of g n) = None
         | Some q => (inc s (res_of g n) = Some q /\ outc s (res_of g n) = None) \/
                     (inc s (res_of g n) = None /\ exists a, outc s (res_of g n) = Some a /\ ack_ok (npc_ s n) a = true)
         end;
  n_pend : is_abort_ack (outc s (res_of g n)) = false -> is_commit_ack (outc s (res_of g n)) = false ->
           wPend s n = acked s (res_of g n) + pend_write s (res_of g n);
  n_ach : st s (res_of g n) (res_of g n) <=
          wAch s n + (if is_commit_ack (outc s (res_of g n)) then wPend s n else 0);
  n_zero : csip s (res_of g n) = false -> rst s (res_of g n) (res_of g n) = 0;
  n_ge : csip s (res_of g n) = true -> st s (res_of g n) (res_of g n) <= rst s (res_of g n) (res_of g n);
  n_done : (is_abort_ack (outc s (res_of g n)) = true \/ is_commit_ack (outc s (res_of g n)) = true) ->
           csip s (res_of g n) = false
}.

Lemma n_init : forall n, NodeInv init n.
Proof. intros n. constructor; simpl; unfold acked, pend_write; simpl; intros; auto; try lia; try (destruct H; discriminate). Qed.

Lemma node_frame : forall s s' n,
  inc s' (res_of g n) = inc s (res_of g n) -> outc s' (res_of g n) = outc s (res_of g n) ->
  csip s' (res_of g n) = csip s (res_of g n) ->
  st s' (res_of g n) (res_of g n) = st s (res_of g n) (res_of g n) ->
  rst s' (res_of g n) (res_of g n) = rst s (res_of g n) (res_of g n) ->
  wPend s' n = wPend s n -> wAch s' n = wAch s n -> npc_ s' n = npc_ s n ->
  NodeInv s n -> NodeInv s' n.
Proof.
  intros s s' n Ei Eo Ec Es Er Ep Ea En [Hh Hp Ha Hz Hg Hd].
  constructor; unfold acked, pend_write in *; rewrite ?Ei, ?Eo, ?Ec, ?Es, ?Er, ?Ep, ?Ea, ?En; assumption.
Qed.

Lemma res_of_inj : forall a b, res_of g a = res_of g b -> a = b.
Proof. unfold res_of. intros; lia. Qed.

(* a Node step of n0 touches only n0's counters and the two cells of n0's resource *)
Definition node_touch (s s' : state) (n0 : nat) : Prop :=
  csip s' = csip s /\ st s' = st s /\ rst s' = rst s /\
  (forall r, r <> res_of g n0 -> inc s' r = inc s r /\ outc s' r = outc s r) /\
  (forall m, m <> n0 -> wPend s' m = wPend s m /\ wAch s' m = wAch s m /\ npc_ s' m = npc_ s m).

Ltac touch n0 :=
  unfold node_touch; simpl; repeat split; try reflexivity; intros; simpl; unfold upd; deq; subst;
  try congruence; try reflexivity.

Lemma node_send_touch : forall s n0 q wp pc s', node_send g s n0 q wp pc = Ok s' -> node_touch s s' n0.
Proof. intros s n0 q wp pc s' H. unfold node_send in H. injection H as <-. touch n0. Qed.

Lemma node_touch_trans : forall s s1 s2 n0, node_touch s s1 n0 -> node_touch s1 s2 n0 -> node_touch s s2 n0.
Proof.
  intros s s1 s2 n0 (A1 & A2 & A3 & A4 & A5) (B1 & B2 & B3 & B4 & B5). unfold node_touch.
  rewrite B1, B2, B3, A1, A2, A3. repeat split; auto.
  - destruct (B4 r H), (A4 r H). congruence.
  - destruct (B4 r H), (A4 r H). congruence.
  - destruct (B5 m H) as (? & ? & ?), (A5 m H) as (? & ? & ?). congruence.
  - destruct (B5 m H) as (? & ? & ?), (A5 m H) as (? & ? & ?). congruence.
  - destruct (B5 m H) as (? & ? & ?), (A5 m H) as (? & ? & ?). congruence.
Qed.

Lemma set_node_touch : forall s n0 od wp wa sc pc, node_touch s (set_node s n0 (inc s) (outc s) od wp wa sc pc) n0.
Proof. intros. touch n0. Qed.

Lemma node_ack_touch : forall s n0 ex k s', node_ack g s n0 ex k = Ok s' ->
  (forall s1 s2, k s1 = Ok s2 -> node_touch s1 s2 n0) -> node_touch s s' n0.
Proof.
  intros s n0 ex k s' H Hk. unfold node_ack in H. destruct (outc s (res_of g n0)); [|discriminate].
  destruct (ex a); [|discriminate]. eapply node_touch_trans; [|eapply Hk; exact H]. touch n0.
Qed.

Lemma node_step_touch : forall s n0 br s', node_step g s n0 br = Ok s' -> node_touch s s' n0.
Proof.
  intros s n0 br s' H. unfold node_step in H.
  destruct (npc_ s n0); destruct br as [|[|[|[|[|br]]]]];
    try (eapply node_send_touch; exact H);
    try (eapply node_ack_touch; [exact H|]; intros s1 s2 H2; cbv beta in H2;
         repeat match type of H2 with (if ?b then _ else _) = _ => destruct b end; try discriminate; injection H2 as <-;
         apply set_node_touch);
    try discriminate;
    repeat match type of H with (if ?b then _ else _) = _ => destruct b end; try discriminate; injection H as <-;
    apply set_node_touch.
Qed.
End WithConfig.
