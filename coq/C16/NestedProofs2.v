(* C16 / nestedcrdtimpl — the bound StateSanity intends: no replica shows more than the writes the nodes have
   issued. Three groups of invariants: (M) nobody knows more about a replica's own component than that replica;
   (H) the request/acknowledgement handshake between a Node and its resource; (P, S) the node's pending / achieved
   write counters account for the resource's open section and committed own component. *)
From PGV Require Import C16.Nested C16.NestedProofs.
From Coq Require Import Lia.
Local Arguments Nat.eqb : simpl never.
Local Arguments Nat.leb : simpl never.
Local Arguments Nat.ltb : simpl never.

Section WithConfig.
Variable g : config.

Record MInv (s : state) : Prop := mkM {
  m_st : forall r' q, st s r' q <= st s q q;
  m_net : forall r' v q, In v (net s r') -> v q <= st s q q;
  m_rst : forall r' q, r' <> q -> rst s r' q <= st s q q
}.

Lemma m_init : MInv init.
Proof. constructor; simpl; intros; try contradiction; unfold ZERO; lia. Qed.

Ltac deq := repeat match goal with
  | |- context [Nat.eqb ?a ?b] => destruct (Nat.eqb_spec a b)
  | H : context [Nat.eqb ?a ?b] |- _ => destruct (Nat.eqb_spec a b)
  end.

(* a resource step that replaces (st r0, rst r0) by values that respect the bounds, and adds only bounded messages *)
Lemma m_frame : forall s s' r0 stt rs,
  MInv s ->
  st s' = upd (st s) r0 stt -> rst s' = upd (rst s) r0 rs ->
  (forall q, st s r0 q <= stt q) ->
  (forall q, q <> r0 -> stt q <= st s q q) ->
  (forall q, q <> r0 -> rs q <= st s q q) ->
  (forall r' v, In v (net s' r') -> In v (net s r') \/ v = st s r0) ->
  MInv s'.
Proof.
  intros s s' r0 stt rs [Ms Mn Mr] Es Er Hmono Hst Hrs Hnet.
  assert (Hqq : forall q, st s q q <= st s' q q).
  { intros q. rewrite Es. unfold upd. destruct (Nat.eqb_spec q r0) as [->|]; [apply Hmono|lia]. }
  constructor.
  - intros r' q. specialize (Hqq q). rewrite Es in *. unfold upd in *.
    pose proof (Ms r' q) as A. pose proof (Hmono q) as B0.
    destruct (Nat.eqb_spec r' r0) as [E1|E1]; destruct (Nat.eqb_spec q r0) as [E2|E2]; subst; try lia.
    specialize (Hst q E2). lia.
  - intros r' v q Hin. specialize (Hqq q). destruct (Hnet r' v Hin) as [H| ->].
    + specialize (Mn r' v q H). lia.
    + specialize (Ms r0 q). lia.
  - intros r' q Hne. specialize (Hqq q). rewrite Er. unfold upd. destruct (Nat.eqb_spec r' r0) as [->|].
    + specialize (Hrs q ltac:(congruence)). lia.
    + specialize (Mr r' q Hne). lia.
Qed.

Lemma reply_fields : forall s r q rm cs stt rs a s', reply g s r q rm cs stt rs a = Ok s' ->
  outc s r = None /\
  s' = set_res s r (net s) (upd (inc s) r None) (upd (outc s) r (Some a)) rm (Some q) cs stt rs.
Proof. intros s r q rm cs stt rs a s' H. unfold reply in H. destruct (outc s r); [discriminate|]. injection H as <-. auto. Qed.

Lemma m_step : forall s e s', MInv s -> step g s e = Ok s' -> MInv s'.
Proof.
  intros s e s' M H. destruct e as [r0 br t|n br]; simpl in H.
  - destruct (is_res g r0); [|discriminate]. unfold res_step in H.
    destruct br as [|[|[|br]]]; try discriminate.
    + destruct (inc s r0) as [q|]; [|discriminate].
      pose proof (m_st _ M) as Ms. pose proof (m_rst _ M) as Mr.
      destruct q; try (destruct (negb (csip s r0))); apply reply_fields in H; destruct H as [_ ->];
        (eapply (m_frame s _ r0); [exact M|reflexivity|reflexivity|..]); simpl; unfold COMBINE, UPDATE, upd, ZERO; intros;
        deq; subst; try congruence; try lia;
        try (match goal with q : nat |- _ => pose proof (Ms r0 q); pose proof (Mr r0 q) end; lia); auto.
    + destruct (net s r0) as [|v rest] eqn:Hn; [discriminate|]. injection H as <-.
      pose proof (m_st _ M) as Ms. pose proof (m_net _ M r0 v) as Mv.
      eapply (m_frame s _ r0 (COMBINE v (st s r0)) (rst s r0)); [exact M|reflexivity|reflexivity|..].
      * intros q. unfold COMBINE. lia.
      * intros q Hq. unfold COMBINE. specialize (Mv q ltac:(rewrite Hn; left; reflexivity)). specialize (Ms r0 q). lia.
      * intros q Hq. apply (m_rst _ M). congruence.
      * intros r' v0. simpl. unfold upd. destruct (Nat.eqb_spec r' r0) as [->|]; [|auto]. intros Hin. left. rewrite Hn. right. exact Hin.
    + destruct (rem_ s r0); [discriminate|]. destruct t as [t|]; [|discriminate].
      destruct (negb (existsb _ _)); [discriminate|]. destruct (negb (is_res g t)); [discriminate|].
      destruct (Nat.ltb _ _); [|discriminate]. injection H as <-.
      eapply (m_frame s _ r0 (st s r0) (rst s r0)); [exact M|reflexivity|reflexivity|..].
      * intros; lia.
      * intros q Hq. apply (m_st _ M).
      * intros q Hq. apply (m_rst _ M). congruence.
      * intros r' v0. simpl. unfold upd. destruct (Nat.eqb_spec r' t) as [->|]; [|auto].
        intros Hin. apply in_app_or in Hin. destruct Hin as [Hin|[<-|[]]]; auto.
  - destruct (is_node g n); [|discriminate].
    assert (E : st s' = st s /\ rst s' = rst s /\ net s' = net s).
    { unfold node_step in H. destruct (npc_ s n); destruct br as [|[|[|[|[|br]]]]];
        try (unfold node_send in H; injection H as <-; auto);
        try (unfold node_ack in H; destruct (outc s (res_of g n)) as [a|]; [|discriminate];
             match type of H with (if ?b then _ else _) = _ => destruct b end; [|discriminate]; cbv beta in H;
             repeat match type of H with (if ?b then _ else _) = _ => destruct b end; try discriminate; injection H as <-; auto);
        try discriminate;
        repeat match type of H with (if ?b then _ else _) = _ => destruct b end; try discriminate; injection H as <-; auto. }
    destruct E as (E1 & E2 & E3). destruct M as [Ms Mn Mr]. constructor; rewrite ?E1, ?E2, ?E3; auto.
Qed.

(* ------------------------------------------------------------------ handshake and write accounting, per node *)

Definition expect_req (p : npc) : option req :=
  match p with
  | NReadAck => Some RRead | NAbortAck => Some RAbort | NWriteAck => Some (RWrite 1)
  | NPreAck => Some RPre | NCommitAck => Some RCommit | _ => None
  end.
Definition ack_ok (p : npc) (a : ack) : bool :=
  match p, a with
  | NReadAck, ARead _ | NAbortAck, AAbort | NWriteAck, AWrite | NPreAck, APre | NCommitAck, ACommit => true
  | _, _ => false
  end.
Definition ack_for (q : req) (a : ack) : bool :=
  match q, a with
  | RRead, ARead _ | RAbort, AAbort | RWrite _, AWrite | RPre, APre | RCommit, ACommit => true
  | _, _ => false
  end.

(* writes of the open section already acknowledged by the resource *)
Definition acked (s : state) (r : nat) : nat := if csip s r then rst s r r - st s r r else 0.
Definition pend_write (s : state) (r : nat) : nat := match inc s r with Some (RWrite _) => 1 | _ => 0 end.
Definition is_commit_ack (o : option ack) : bool := match o with Some ACommit => true | _ => false end.
Definition is_abort_ack (o : option ack) : bool := match o with Some AAbort => true | _ => false end.

Record NodeInv (s : state) (n : nat) : Prop := mkN {
  n_hs : match expect_req (npc_ s n) with
         | None => inc s (res_of g n) = None /\ outc s (res_of g n) = None
         | Some q => (inc s (res_of g n) = Some q /\ outc s (res_of g n) = None) \/
                     (inc s (res_of g n) = None /\ exists a, outc s (res_of g n) = Some a /\ ack_ok (npc_ s n) a = true)
         end;
  n_pend : is_abort_ack (outc s (res_of g n)) = false -> is_commit_ack (outc s (res_of g n)) = false ->
           wPend s n = acked s (res_of g n) + pend_write s (res_of g n);
  n_ach : st s (res_of g n) (res_of g n) <=
          wAch s n + (if is_commit_ack (outc s (res_of g n)) then wPend s n else 0);
  n_zero : csip s (res_of g n) = false -> rst s (res_of g n) (res_of g n) = 0;
  n_ge : csip s (res_of g n) = true -> st s (res_of g n) (res_of g n) <= rst s (res_of g n) (res_of g n);
  n_done : (is_abort_ack (outc s (res_of g n)) = true \/ is_commit_ack (outc s (res_of g n)) = true) ->
           csip s (res_of g n) = false
}.

Lemma n_init : forall n, NodeInv init n.
Proof. intros n. constructor; simpl; unfold acked, pend_write; simpl; intros; auto; try lia; try (destruct H; discriminate). Qed.

Lemma node_frame : forall s s' n,
  inc s' (res_of g n) = inc s (res_of g n) -> outc s' (res_of g n) = outc s (res_of g n) ->
  csip s' (res_of g n) = csip s (res_of g n) ->
  st s' (res_of g n) (res_of g n) = st s (res_of g n) (res_of g n) ->
  rst s' (res_of g n) (res_of g n) = rst s (res_of g n) (res_of g n) ->
  wPend s' n = wPend s n -> wAch s' n = wAch s n -> npc_ s' n = npc_ s n ->
  NodeInv s n -> NodeInv s' n.
Proof.
  intros s s' n Ei Eo Ec Es Er Ep Ea En [Hh Hp Ha Hz Hg Hd].
  constructor; unfold acked, pend_write in *; rewrite ?Ei, ?Eo, ?Ec, ?Es, ?Er, ?Ep, ?Ea, ?En; assumption.
Qed.

Lemma res_of_inj : forall a b, res_of g a = res_of g b -> a = b.
Proof. unfold res_of. intros; lia. Qed.

(* a Node step of n0 touches only n0's counters and the two cells of n0's resource *)
Definition node_touch (s s' : state) (n0 : nat) : Prop :=
  csip s' = csip s /\ st s' = st s /\ rst s' = rst s /\
  (forall r, r <> res_of g n0 -> inc s' r = inc s r /\ outc s' r = outc s r) /\
  (forall m, m <> n0 -> wPend s' m = wPend s m /\ wAch s' m = wAch s m /\ npc_ s' m = npc_ s m).

Ltac touch n0 :=
  unfold node_touch; simpl; repeat split; try reflexivity; intros; simpl; unfold upd; deq; subst;
  try congruence; try reflexivity.

Lemma node_send_touch : forall s n0 q wp pc s', node_send g s n0 q wp pc = Ok s' -> node_touch s s' n0.
Proof. intros s n0 q wp pc s' H. unfold node_send in H. injection H as <-. touch n0. Qed.

Lemma node_touch_trans : forall s s1 s2 n0, node_touch s s1 n0 -> node_touch s1 s2 n0 -> node_touch s s2 n0.
Proof.
  intros s s1 s2 n0 (A1 & A2 & A3 & A4 & A5) (B1 & B2 & B3 & B4 & B5). unfold node_touch.
  rewrite B1, B2, B3, A1, A2, A3. repeat split; auto.
  - destruct (B4 r H), (A4 r H). congruence.
  - destruct (B4 r H), (A4 r H). congruence.
  - destruct (B5 m H) as (? & ? & ?), (A5 m H) as (? & ? & ?). congruence.
  - destruct (B5 m H) as (? & ? & ?), (A5 m H) as (? & ? & ?). congruence.
  - destruct (B5 m H) as (? & ? & ?), (A5 m H) as (? & ? & ?). congruence.
Qed.

Lemma set_node_touch : forall s n0 od wp wa sc pc, node_touch s (set_node s n0 (inc s) (outc s) od wp wa sc pc) n0.
Proof. intros. touch n0. Qed.

Lemma node_ack_touch : forall s n0 ex k s', node_ack g s n0 ex k = Ok s' ->
  (forall s1 s2, k s1 = Ok s2 -> node_touch s1 s2 n0) -> node_touch s s' n0.
Proof.
  intros s n0 ex k s' H Hk. unfold node_ack in H. destruct (outc s (res_of g n0)); [|discriminate].
  destruct (ex a); [|discriminate]. eapply node_touch_trans; [|eapply Hk; exact H]. touch n0.
Qed.

Lemma node_step_touch : forall s n0 br s', node_step g s n0 br = Ok s' -> node_touch s s' n0.
Proof.
  intros s n0 br s' H. unfold node_step in H.
  destruct (npc_ s n0); destruct br as [|[|[|[|[|br]]]]];
    try (eapply node_send_touch; exact H);
    try (eapply node_ack_touch; [exact H|]; intros s1 s2 H2; cbv beta in H2;
         repeat match type of H2 with (if ?b then _ else _) = _ => destruct b end; try discriminate; injection H2 as <-;
         apply set_node_touch);
    try discriminate;
    repeat match type of H with (if ?b then _ else _) = _ => destruct b end; try discriminate; injection H as <-;
    apply set_node_touch.
Qed.

Ltac ninv :=
  constructor; unfold set_res, set_node in *; simpl;
  unfold acked, pend_write, is_commit_ack, is_abort_ack, upd, COMBINE, UPDATE, ZERO in *; simpl in *;
  unfold upd in *; rewrite ?Nat.eqb_refl in *; simpl in *; intros;
  repeat match goal with
  | H : npc_ _ _ = _ |- _ => rewrite H in *
  | H : inc _ _ = _ |- _ => rewrite H in *
  | H : outc _ _ = _ |- _ => rewrite H in *
  end; simpl in *;
  repeat match goal with
  | H : _ /\ _ |- _ => destruct H
  | H : exists _, _ |- _ => destruct H
  | H : Some _ = Some _ |- _ => injection H; clear H; intros; subst
  | H : ?a = ?a -> _ |- _ => specialize (H eq_refl)
  | H : false = true \/ false = true -> _ |- _ => clear H
  | H : true = true \/ _ -> _ |- _ => specialize (H (or_introl eq_refl))
  | H : _ \/ true = true -> _ |- _ => specialize (H (or_intror eq_refl))
  end; subst; simpl in *;
  repeat match goal with H : csip _ _ = _ |- _ => rewrite H in * end; simpl in *;
  try discriminate; try congruence; try lia; try tauto; eauto 6.

Lemma node_self_step : forall s n br s', NodeInv s n -> node_step g s n br = Ok s' -> NodeInv s' n.
Proof.
  intros s n br s' [Hh Hp Ha Hz Hg Hd] H. unfold node_step in H.
  destruct (npc_ s n) eqn:Hpc; destruct br as [|[|[|[|[|br]]]]]; simpl in Hh;
    try (unfold node_send in H; injection H as <-);
    try (unfold node_ack in H; destruct (outc s (res_of g n)) as [a|] eqn:Ho; [|discriminate];
         match type of H with (if ?b then _ else _) = _ => destruct b eqn:Hex end; [|discriminate]; cbv beta in H);
    repeat match type of H with (if ?b then _ else _) = _ => destruct b eqn:? end; try discriminate; try injection H as <-.
  all: try (destruct Hh as [[Hi Ho'] | [Hi (a' & Ho' & Hok)]]; try congruence).
  all: try (destruct Hh as [Hi Ho']).
  all: rewrite ?Hi, ?Ho' in *; simpl in *.
  all: try (destruct a; try discriminate).
  all: try solve [ninv].
Qed.

(* a resource step of r0 touches only r0's cells and variables (and message queues) *)
Lemma res_step_touch : forall s r0 br t s', res_step g s r0 br t = Ok s' ->
  (forall r, r <> r0 -> inc s' r = inc s r /\ outc s' r = outc s r /\ csip s' r = csip s r /\
                        st s' r = st s r /\ rst s' r = rst s r) /\
  wPend s' = wPend s /\ wAch s' = wAch s /\ npc_ s' = npc_ s.
Proof.
  intros s r0 br t s' H. unfold res_step in H.
  assert (T : forall nt i o rm rq cs stt rs,
    (forall r, r <> r0 -> i r = inc s r /\ o r = outc s r) ->
    s' = set_res s r0 nt i o rm rq cs stt rs ->
    (forall r, r <> r0 -> inc s' r = inc s r /\ outc s' r = outc s r /\ csip s' r = csip s r /\
                          st s' r = st s r /\ rst s' r = rst s r) /\
    wPend s' = wPend s /\ wAch s' = wAch s /\ npc_ s' = npc_ s).
  { intros nt i o rm rq cs stt rs Hio ->. simpl. repeat split; auto; try (apply Hio; assumption);
      unfold upd; destruct (Nat.eqb_spec r r0); congruence. }
  destruct br as [|[|[|br]]]; try discriminate.
  - destruct (inc s r0) as [q|]; [|discriminate].
    destruct q; try (destruct (negb (csip s r0))); apply reply_fields in H; destruct H as [_ H];
      (eapply T; [|exact H]); intros r Hr; unfold upd; destruct (Nat.eqb_spec r r0); try congruence; auto.
  - destruct (net s r0) as [|v rest]; [discriminate|]. injection H as H. symmetry in H. eapply T; [|exact H]. auto.
  - destruct (rem_ s r0); [discriminate|]. destruct t as [t|]; [|discriminate].
    destruct (negb (existsb _ _)); [discriminate|]. destruct (negb (is_res g t)); [discriminate|].
    destruct (Nat.ltb _ _); [|discriminate]. injection H as H. symmetry in H. eapply T; [|exact H]. auto.
Qed.

Lemma res_self_step : forall s n br t s', MInv s -> NodeInv s n ->
  res_step g s (res_of g n) br t = Ok s' -> NodeInv s' n.
Proof.
  intros s n br t s' M [Hh Hp Ha Hz Hg Hd] H. unfold res_step in H.
  destruct br as [|[|[|br]]]; try discriminate.
  - destruct (inc s (res_of g n)) as [q|] eqn:Hi; [|discriminate].
    assert (Hq : expect_req (npc_ s n) = Some q /\ outc s (res_of g n) = None).
    { destruct (expect_req (npc_ s n)) as [q'|].
      - destruct Hh as [[A B0]|[A _]]; [|discriminate]. injection A as <-. auto.
      - destruct Hh as [A _]. discriminate. }
    destruct Hq as [Hq Ho].
    destruct (npc_ s n) eqn:Hpc; try discriminate; injection Hq as <-;
      try (destruct (negb (csip s (res_of g n))) eqn:Hcs; [apply negb_true_iff in Hcs|apply negb_false_iff in Hcs]);
      apply reply_fields in H; destruct H as [_ ->].
    all: try solve [ninv].
  - (* merge: the replica's own component cannot grow from a peer's value *)
    destruct (net s (res_of g n)) as [|v rest] eqn:Hn; [discriminate|]. injection H as <-.
    assert (Hv : v (res_of g n) <= st s (res_of g n) (res_of g n)).
    { apply (m_net _ M (res_of g n)). rewrite Hn. left. reflexivity. }
    assert (E : Nat.max (v (res_of g n)) (st s (res_of g n) (res_of g n)) = st s (res_of g n) (res_of g n)) by lia.
    constructor; unfold set_res; simpl; unfold acked, pend_write, COMBINE, upd in *; simpl;
      rewrite ?Nat.eqb_refl; rewrite ?E; auto.
  - destruct (rem_ s (res_of g n)); [discriminate|]. destruct t as [t|]; [|discriminate].
    destruct (negb (existsb _ _)); [discriminate|]. destruct (negb (is_res g t)); [discriminate|].
    destruct (Nat.ltb _ _); [|discriminate]. injection H as <-.
    constructor; unfold set_res; simpl; unfold acked, pend_write, upd in *; simpl; rewrite ?Nat.eqb_refl; auto.
Qed.

(* all nodes *)
Definition NInv (s : state) : Prop := forall n, 1 <= n <= K g -> NodeInv s n.

Lemma ninv_step : forall s e s', MInv s -> NInv s -> step g s e = Ok s' -> NInv s'.
Proof.
  intros s e s' M NI H n Hn. specialize (NI n Hn) as In.
  destruct e as [r0 br t|n0 br]; simpl in H.
  - destruct (is_res g r0) eqn:Hr; [|discriminate].
    destruct (Nat.eq_dec r0 (res_of g n)) as [->|Hne].
    + eapply res_self_step; eauto.
    + destruct (res_step_touch s r0 br t s' H) as (T & Ep & Ea & Ec).
      destruct (T (res_of g n) ltac:(congruence)) as (A1 & A2 & A3 & A4 & A5).
      apply (node_frame s s' n); auto; try congruence.
  - destruct (is_node g n0) eqn:Hn0; [|discriminate].
    destruct (Nat.eq_dec n0 n) as [->|Hne].
    + eapply node_self_step; eauto.
    + destruct (node_step_touch s n0 br s' H) as (A1 & A2 & A3 & A4 & A5).
      assert (Hr : res_of g n <> res_of g n0) by (intros E; apply res_of_inj in E; congruence).
      destruct (A4 _ Hr) as [B1 B2]. destruct (A5 n ltac:(congruence)) as (C1 & C2 & C3).
      apply (node_frame s s' n); auto; try congruence.
Qed.

Theorem invariants_reachable : forall s, reachable g s -> MInv s /\ NInv s.
Proof.
  intros s R. induction R as [|s e s' R [M NI] H].
  - split; [apply m_init|intros n _; apply n_init].
  - split; [eapply m_step; eauto|eapply ninv_step; eauto].
Qed.

(* ------------------------------------------------------------------ the bound StateSanity intends *)

(* a replica's own component never exceeds the writes its node has issued *)
Lemma own_component_bounded : forall s, reachable g s -> forall n, 1 <= n <= K g ->
  st s (res_of g n) (res_of g n) <= wAch s n + wPend s n.
Proof.
  intros s R n Hn. destruct (invariants_reachable s R) as [_ NI]. pose proof (n_ach _ _ (NI n Hn)) as H.
  destruct (is_commit_ack _); lia.
Qed.

Lemma sum_shift : forall (f h : nat -> nat) k a, (forall n, 1 <= n <= a -> f (k + n) <= h n) ->
  fold_right (fun r acc => f r + acc) 0 (seq (k + 1) a) <= fold_right (fun n acc => h n + acc) 0 (seq 1 a).
Proof.
  intros f h k a. revert k. induction a as [|a IH] using nat_ind; intros k H; [simpl; lia|].
  (* peel the LAST element on both sides *)
  rewrite !seq_S. rewrite !fold_right_app. simpl.
  assert (G1 : forall (l : list nat) (x : nat) (F : nat -> nat), fold_right (fun r acc => F r + acc) x l = fold_right (fun r acc => F r + acc) 0 l + x).
  { intros l x F. induction l as [|y l IHl]; simpl; [lia|]. rewrite IHl. lia. }
  rewrite (G1 (seq (k + 1) a) _ f), (G1 (seq 1 a) _ h).
  specialize (IH k ltac:(intros n Hn; apply H; lia)). specialize (H (S a) ltac:(lia)).
  replace (k + 1 + a) with (k + S a) by lia. lia.
Qed.

(* no replica shows more than the writes the nodes have issued (pending + achieved) *)
Lemma state_sanity_intended_lemma : forall s, reachable g s ->
  forall r, VIEW g (st s r) <= total_writes g s.
Proof.
  intros s R r. destruct (invariants_reachable s R) as [M _]. unfold VIEW, total_writes, resources.
  apply (sum_shift (st s r) (fun n => wPend s n + wAch s n) (K g) (K g)).
  intros n Hn. pose proof (m_st _ M r (K g + n)). pose proof (own_component_bounded s R n Hn).
  unfold res_of in *. lia.
Qed.

Lemma state_sanity_intended_bool : forall s, reachable g s -> state_sanity_intended g s = true.
Proof.
  intros s R. unfold state_sanity_intended. apply forallb_forall. intros r _. apply Nat.leb_le.
  apply state_sanity_intended_lemma. exact R.
Qed.

(* the Node process never finds an acknowledgement of the wrong kind (its asserts), and ACRDTResource's
   `assert FALSE` branch is unreachable in the typed model by construction of `req` *)
Lemma node_assertion_free_lemma : forall s n br, reachable g s -> 1 <= n <= K g -> node_step g s n br <> AssertFail.
Proof.
  intros s n br R Hn. destruct (invariants_reachable s R) as [_ NI]. pose proof (n_hs _ _ (NI n Hn)) as Hh.
  unfold node_step. destruct (npc_ s n) eqn:Hpc; simpl in Hh; destruct br as [|[|[|[|[|br]]]]];
    try (unfold node_send; discriminate);
    try (unfold node_ack; destruct Hh as [[_ Ho]|[_ (a & Ho & Hok)]]; rewrite Ho; [discriminate|];
         destruct a; try discriminate; cbv beta;
         repeat match goal with |- context [if ?b then _ else _] => destruct b end; discriminate);
    try discriminate;
    repeat match goal with |- context [if ?b then _ else _] => destruct b end; discriminate.
Qed.
End WithConfig.
