(* C16 / nestedcrdtimpl — MonotonicState (every component of every replica's state never decreases, in every
   step), the refutation of StateSanity as literally written in the spec (Sum over a SET of values collapses equal
   values), and the bound it evidently intends, as an executable predicate. *)
From PGV Require Import C16.Nested.
From Coq Require Import Lia.
Local Arguments Nat.eqb : simpl never.
Local Arguments Nat.leb : simpl never.
Local Arguments Nat.ltb : simpl never.

Inductive reachable (g : config) : state -> Prop :=
| R_init : reachable g init
| R_step : forall s e s', reachable g s -> step g s e = Ok s' -> reachable g s'.

Lemma run_reachable : forall g evs s, reachable g s -> reachable g (run g s evs).
Proof.
  intros g evs. induction evs as [|e evs IH]; intros s H; simpl; [exact H|].
  apply IH. unfold next. destruct (step g s e) eqn:E; try exact H. eapply R_step; eauto.
Qed.
Lemma exec_reachable : forall g evs, reachable g (exec g evs).
Proof. intros. apply run_reachable. constructor. Qed.

Lemma reply_st : forall g s r q rm cs stt rs a s', reply g s r q rm cs stt rs a = Ok s' ->
  st s' = upd (st s) r stt.
Proof. intros g s r q rm cs stt rs a s' H. unfold reply in H. destruct (outc s r); [discriminate|]. injection H as <-. reflexivity. Qed.

Lemma node_ack_st : forall g s n ex k s', node_ack g s n ex k = Ok s' ->
  (forall s1, st s1 = st s -> forall s2, k s1 = Ok s2 -> st s2 = st s) -> st s' = st s.
Proof.
  intros g s n ex k s' H Hk. unfold node_ack in H. destruct (outc s (res_of g n)); [|discriminate].
  destruct (ex a); [|discriminate]. eapply Hk; [|exact H]. reflexivity.
Qed.

(* MonotonicState == [][\A self \in RESOURCE_IDS : \A k \in DOMAIN state[self] : state[self][k] <= state'[self][k]]_vars *)
Lemma step_monotone : forall g s e s', step g s e = Ok s' -> forall r k, st s r k <= st s' r k.
Proof.
  intros g s e s' H r k. destruct e as [r0 br t|n br]; simpl in H.
  - destruct (is_res g r0); [|discriminate]. unfold res_step in H.
    destruct br as [|[|[|br]]]; try discriminate.
    + destruct (inc s r0) as [q|]; [|discriminate].
      assert (Hupd : forall stt, (forall k0, st s r0 k0 <= stt k0) -> st s' = upd (st s) r0 stt -> st s r k <= st s' r k).
      { intros stt Hle E. rewrite E. unfold upd. destruct (Nat.eqb_spec r r0) as [->|]; [apply Hle|lia]. }
      destruct q; try (destruct (negb (csip s r0))); apply reply_st in H;
        (eapply Hupd; [|exact H]); intros k0; unfold COMBINE; lia.
    + destruct (net s r0) as [|v rest]; [discriminate|]. injection H as <-. simpl. unfold upd.
      destruct (Nat.eqb_spec r r0) as [->|]; [unfold COMBINE; lia|lia].
    + destruct (rem_ s r0); [discriminate|]. destruct t as [t|]; [|discriminate].
      destruct (negb (existsb _ _)); [discriminate|]. destruct (negb (is_res g t)); [discriminate|].
      destruct (Nat.ltb _ _); [|discriminate]. injection H as <-. simpl. unfold upd.
      destruct (Nat.eqb_spec r r0) as [->|]; lia.
  - destruct (is_node g n); [|discriminate].
    assert (E : st s' = st s); [|rewrite E; lia].
    unfold node_step in H. destruct (npc_ s n); destruct br as [|[|[|[|[|br]]]]];
      try (unfold node_send in H; injection H as <-; reflexivity);
      try (eapply node_ack_st; [exact H|]; intros s1 E1 s2 H2; cbv beta in H2;
           repeat match type of H2 with
           | (if ?b then _ else _) = _ => destruct b
           end; try discriminate; injection H2 as <-; exact E1);
      try discriminate;
      repeat match type of H with
      | (if ?b then _ else _) = _ => destruct b
      end; try discriminate; injection H as <-; reflexivity.
Qed.

Lemma run_monotone : forall g evs s r k, st s r k <= st (run g s evs) r k.
Proof.
  intros g evs. induction evs as [|e evs IH]; intros s r k; simpl; [lia|].
  specialize (IH (next g s e) r k). unfold next in *. destruct (step g s e) eqn:E; try exact IH.
  pose proof (step_monotone g s e s0 E r k). lia.
Qed.

(* the value a replica shows (VIEW_FN) never decreases either *)
Lemma view_monotone : forall g evs s r, VIEW g (st s r) <= VIEW g (st (run g s evs) r).
Proof.
  intros g evs s r. unfold VIEW. induction (resources g) as [|x l IH]; simpl; [lia|].
  pose proof (run_monotone g evs s r x). lia.
Qed.

(* StateSanity as literally written in the spec,
     Sum({ VIEW_FN(state[self]) : self \in RESOURCE_IDS }) <= Sum({ writesPending[self] + writesAchieved[self] : self \in NODE_IDS }),
   sums SETS of values, so equal values collapse: two nodes that each committed one write and have synchronised give
   Sum({2, 2}) = 2 on the left and Sum({1, 1}) = 1 on the right. The witness is a reachable state of the model (and was
   observed on the real generated code: evidence key states_where_StateSanity_as_written_is_false). *)
Definition sanity_witness : list event :=
  [ENode 1 2; ENode 1 0; ERes 3 0 None; ENode 1 0; ENode 1 4; ENode 1 0; ERes 3 0 None; ENode 1 1; ENode 1 0; ERes 3 0 None; ENode 1 0;
   ENode 2 2; ENode 2 0; ERes 4 0 None; ENode 2 0; ENode 2 4; ENode 2 0; ERes 4 0 None; ENode 2 1; ENode 2 0; ERes 4 0 None; ENode 2 0;
   ERes 3 2 (Some 4); ERes 4 1 None; ERes 4 2 (Some 3); ERes 3 1 None].

Lemma state_sanity_as_written_refuted_lemma :
  exists g evs, state_sanity_as_written g (exec g evs) = false /\ state_sanity_intended g (exec g evs) = true.
Proof. exists (mkCfg 2 1 1), sanity_witness. vm_compute. split; reflexivity. Qed.
