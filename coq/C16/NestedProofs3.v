(* C16 / nestedcrdtimpl — type safety of ACRDTResource's send: the target chosen by `with (target \in remainingPeersToUpdate)`
   is always a resource id (remainingPeersToUpdate only ever holds peers, i.e. RESOURCE_IDS \ {self}), so net[target] is
   defined: no step of the model is a TypeError. *)
From PGV Require Import C16.Nested C16.NestedProofs.
From Coq Require Import Lia.
Local Arguments Nat.eqb : simpl never.
Local Arguments Nat.leb : simpl never.
Local Arguments Nat.ltb : simpl never.

Section WithConfig.
Variable g : config.

Definition RInv (s : state) : Prop := forall r t, In t (rem_ s r) -> In t (resources g).

Lemma is_res_in : forall t, In t (resources g) -> is_res g t = true.
Proof.
  intros t H. unfold resources in H. apply in_seq in H. unfold is_res.
  apply andb_true_intro. split; apply Nat.leb_le; lia.
Qed.

Lemma reply_rem : forall s r q rm cs stt rs a s', reply g s r q rm cs stt rs a = Ok s' -> rem_ s' = upd (rem_ s) r rm.
Proof. intros s r q rm cs stt rs a s' H. unfold reply in H. destruct (outc s r); [discriminate|]. injection H as <-. reflexivity. Qed.

Lemma node_ack_rem : forall s n ex k s', node_ack g s n ex k = Ok s' ->
  (forall s1, rem_ s1 = rem_ s -> forall s2, k s1 = Ok s2 -> rem_ s2 = rem_ s) -> rem_ s' = rem_ s.
Proof.
  intros s n ex k s' H Hk. unfold node_ack in H. destruct (outc s (res_of g n)); [|discriminate].
  destruct (ex a); [|discriminate]. eapply Hk; [|exact H]. reflexivity.
Qed.

Lemma rinv_upd : forall s s' r rm, RInv s -> rem_ s' = upd (rem_ s) r rm -> (forall t, In t rm -> In t (resources g)) -> RInv s'.
Proof.
  intros s s' r rm I E H r0 t. rewrite E. unfold upd. destruct (Nat.eqb_spec r0 r) as [->|]; [apply H|apply I].
Qed.

Lemma rinv_step : forall s e s', RInv s -> step g s e = Ok s' -> RInv s'.
Proof.
  intros s e s' I H. destruct e as [r0 br t|n br]; simpl in H.
  - destruct (is_res g r0); [|discriminate]. unfold res_step in H.
    destruct br as [|[|[|br]]]; try discriminate.
    + destruct (inc s r0) as [q|]; [|discriminate].
      destruct q; try (destruct (negb (csip s r0))); apply reply_rem in H;
        (eapply rinv_upd; [exact I|exact H|]); try (apply I).
      all: intros t0; destruct (negb (gc_eqb g (st s r0) (rst s r0))); [|apply I];
        unfold peers; intros Hin; apply filter_In in Hin; apply Hin.
    + destruct (net s r0) as [|v rest]; [discriminate|]. injection H as <-.
      eapply rinv_upd; [exact I|reflexivity|apply I].
    + destruct (rem_ s r0) eqn:Hr; [discriminate|]. rewrite <- Hr in *. destruct t as [t|]; [|discriminate].
      destruct (negb (existsb _ _)); [discriminate|]. destruct (negb (is_res g t)); [discriminate|].
      destruct (Nat.ltb _ _); [|discriminate]. injection H as <-.
      eapply rinv_upd; [exact I|reflexivity|]. intros t0 Hin. apply filter_In in Hin. apply (I r0). apply Hin.
  - destruct (is_node g n); [|discriminate].
    assert (E : rem_ s' = rem_ s); [|intros r t; rewrite E; apply I].
    unfold node_step in H. destruct (npc_ s n); destruct br as [|[|[|[|[|br]]]]];
      try (unfold node_send in H; injection H as <-; reflexivity);
      try (eapply node_ack_rem; [exact H|]; intros s1 E1 s2 H2; cbv beta in H2;
           repeat match type of H2 with
           | (if ?b then _ else _) = _ => destruct b
           end; try discriminate; injection H2 as <-; exact E1);
      try discriminate;
      repeat match type of H with
      | (if ?b then _ else _) = _ => destruct b
      end; try discriminate; injection H as <-; reflexivity.
Qed.

Lemma rinv_reachable : forall s, reachable g s -> RInv s.
Proof. intros s R. induction R; [intros r t []|eapply rinv_step; eauto]. Qed.

Lemma type_safe_lemma : forall s e, reachable g s -> step g s e <> TypeError.
Proof.
  intros s e R. pose proof (rinv_reachable s R) as I. destruct e as [r0 br t|n br]; simpl.
  - destruct (is_res g r0); [|discriminate]. unfold res_step.
    destruct br as [|[|[|br]]]; try discriminate.
    + destruct (inc s r0) as [q|]; [|discriminate].
      destruct q; try (destruct (negb (csip s r0))); unfold reply; destruct (outc s r0); discriminate.
    + destruct (net s r0); discriminate.
    + destruct (rem_ s r0) eqn:Hr; [discriminate|]. rewrite <- Hr. destruct t as [t|]; [|discriminate].
      destruct (negb (existsb (Nat.eqb t) (rem_ s r0))) eqn:Ex; [discriminate|].
      apply negb_false_iff, existsb_exists in Ex. destruct Ex as (x & Hin & Hx). apply Nat.eqb_eq in Hx. subst x.
      rewrite (is_res_in t (I r0 t Hin)). simpl. destruct (Nat.ltb _ _); discriminate.
  - destruct (is_node g n); [|discriminate].
    unfold node_step. destruct (npc_ s n); destruct br as [|[|[|[|[|br]]]]];
      try (unfold node_send; discriminate);
      try (unfold node_ack; destruct (outc s (res_of g n)) as [a|]; [|discriminate];
           destruct a; try discriminate; cbv beta;
           repeat match goal with |- context [if ?b then _ else _] => destruct b end; discriminate);
      try discriminate;
      repeat match goal with |- context [if ?b then _ else _] => destruct b end; discriminate.
Qed.
End WithConfig.
