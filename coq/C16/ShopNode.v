(* C16 / shopcart — the interactive archetype ANode(ref crdt[_], ref in, ref out) of systems/shopcart/shopcart.tla
   (the instance the spec leaves commented out; the one the deployment runs), with crdt[_] via the WHOLE AWORSet
   mapping macro (Add and Remove, three branches each; read = Query), `in` via InputQueue, and the spec's merge
   process UpdateCRDT (Merge both ways; the bench history c does not exist here). Model only.
     nodeLoop: with (req = in) { if req.cmd = AddCmd then Add(crdt, self, req.elem) elsif RemoveCmd then Remove(..) }
     rcvResp:  out := crdt[self]                                  (= Query(crdt[self]))
   NodeSet = 1..N, ElemSet = 0..E-1; the input queue starts as INPUT (any list of commands; a command is (true, e) for
   Add e and (false, e) for Remove e); every node pops from the same queue. *)
From Coq Require Export List Arith Bool.
Export ListNotations.

Inductive npc := NLoop | NResp.

Record state := mkState {
  addm : nat -> nat -> nat -> nat;     (* crdt[i].addMap[e][n] *)
  remm : nat -> nat -> nat -> nat;
  inq : list (bool * nat);
  out_ : option (list nat);            (* defaultInitValue = None; otherwise the last Query result (elements ascending) *)
  pc : nat -> npc
}.

Definition upd {A} (f : nat -> A) (k : nat) (v : A) : nat -> A :=
  fun x => if Nat.eqb x k then v else f x.

Record config := mkCfg { N : nat; E : nat; INPUT : list (bool * nat) }.

Definition init (g : config) : state :=
  mkState (fun _ _ _ => 0) (fun _ _ _ => 0) (INPUT g) None (fun _ => NLoop).

Inductive event := ENode (p : nat) | EMerge (i1 : nat) (i2 : option nat).
Inductive outcome := Ok (s : state) | Disabled | TypeError | BadEvent.

Definition nodes (g : config) : list nat := seq 1 (N g).
Definition elems (g : config) : list nat := seq 0 (E g).
Definition non_null (g : config) (v : nat -> nat) : bool := existsb (fun n => negb (Nat.eqb (v n) 0)) (nodes g).
Definition compare (g : config) (v1 v2 : nat -> nat) : bool := forallb (fun n => Nat.leb (v1 n) (v2 n)) (nodes g).
Definition null : nat -> nat := fun _ => 0.
Definition query (g : config) (s : state) (i : nat) : list nat :=
  filter (fun e => negb (compare g (addm s i e) (remm s i e))) (elems g).
Definition in_range (g : config) (i : nat) : bool := Nat.leb 1 i && Nat.leb i (N g).
Definition differs (g : config) (s : state) (x i1 : nat) : bool :=
  existsb (fun e => existsb (fun n => negb (Nat.eqb (addm s x e n) (addm s i1 e n)) || negb (Nat.eqb (remm s x e n) (remm s i1 e n)))
                            (nodes g)) (elems g).

(* one direction of the AWORSet write macro: `f` is the map of the command (addMap for Add, remMap for Remove), `o` the other *)
Definition bump (g : config) (f o : nat -> nat -> nat) (p e : nat) : (nat -> nat -> nat) * (nat -> nat -> nat) :=
  if non_null g (f e) then (upd f e (upd (f e) p (f e p + 1)), upd o e null)
  else if non_null g (o e) then (upd f e (upd (f e) p (o e p + 1)), upd o e null)
  else (upd f e (upd (f e) p 1), o).

Definition node_step (g : config) (s : state) (p : nat) : outcome :=
  match pc s p with
  | NLoop =>
      match inq s with
      | [] => Disabled                                             (* await Len($variable) > 0 *)
      | (c, e) :: rest =>
          if negb (Nat.ltb e (E g)) then TypeError                 (* addMap[elem] outside ElemSet *)
          else
            let '(a', r') := if c then bump g (addm s p) (remm s p) p e
                             else let '(r1, a1) := bump g (remm s p) (addm s p) p e in (a1, r1) in
            Ok (mkState (upd (addm s) p a') (upd (remm s) p r') rest (out_ s) (upd (pc s) p NResp))
      end
  | NResp => Ok (mkState (addm s) (remm s) (inq s) (Some (query g s p)) (upd (pc s) p NLoop))
  end.

Definition merge_step (g : config) (s : state) (i1 : nat) (oi2 : option nat) : outcome :=
  if negb (in_range g i1) then BadEvent
  else if negb (existsb (fun x => differs g s x i1) (nodes g)) then Disabled
  else match oi2 with
  | None => BadEvent
  | Some i2 =>
      if in_range g i2 && differs g s i2 i1 then
        let addk := fun e n => Nat.max (addm s i1 e n) (addm s i2 e n) in
        let remk := fun e n => Nat.max (remm s i1 e n) (remm s i2 e n) in
        let add0 := fun e => if compare g (addk e) (remk e) then null else addk e in
        let rem0 := fun e => if compare g (addk e) (remk e) then remk e else null in
        Ok (mkState (upd (upd (addm s) i1 add0) i2 add0) (upd (upd (remm s) i1 rem0) i2 rem0) (inq s) (out_ s) (pc s))
      else BadEvent
  end.

Definition step (g : config) (s : state) (e : event) : outcome :=
  match e with
  | ENode p => if in_range g p then node_step g s p else BadEvent
  | EMerge i1 oi2 => merge_step g s i1 oi2
  end.

Definition next (g : config) (s : state) (e : event) : state :=
  match step g s e with Ok s' => s' | _ => s end.
Definition run (g : config) (s : state) (evs : list event) : state := fold_left (next g) evs s.
Definition exec (g : config) (evs : list event) : state := run g (init g) evs.

(* ------------------------------------------------------------------ correspondence check *)
Definition out_code (o : outcome) : nat :=
  match o with Ok _ => 0 | Disabled => 1 | TypeError => 4 | BadEvent => 5 end.
Record obs := mkObs {
  o_add : list (list (list nat)); o_rem : list (list (list nat)); o_in : list (bool * nat);
  o_out : option (list nat); o_pc : list npc
}.
Definition npc_eqb (a b : npc) : bool := match a, b with NLoop, NLoop | NResp, NResp => true | _, _ => false end.
Fixpoint list_eqb {A} (eqb : A -> A -> bool) (a b : list A) : bool :=
  match a, b with [], [] => true | x :: a', y :: b' => eqb x y && list_eqb eqb a' b' | _, _ => false end.
Definition cmd_eqb (a b : bool * nat) : bool := Bool.eqb (fst a) (fst b) && Nat.eqb (snd a) (snd b).
Definition state_matches (g : config) (s : state) (o : obs) : bool :=
  list_eqb (list_eqb (list_eqb Nat.eqb)) (map (fun i => map (fun e => map (addm s i e) (nodes g)) (elems g)) (nodes g)) (o_add o)
  && list_eqb (list_eqb (list_eqb Nat.eqb)) (map (fun i => map (fun e => map (remm s i e) (nodes g)) (elems g)) (nodes g)) (o_rem o)
  && list_eqb cmd_eqb (inq s) (o_in o)
  && match out_ s, o_out o with Some a, Some b => list_eqb Nat.eqb a b | None, None => true | _, _ => false end
  && list_eqb npc_eqb (map (pc s) (nodes g)) (o_pc o).

(* re-tabulation of the function-valued components after every step of the CHECKER only (see Shopcart.v) *)
Definition tab1 {A} (d : A) (n : nat) (f : nat -> A) : nat -> A :=
  let l := map f (seq 0 n) in fun i => nth i l d.
Definition freeze (g : config) (s : state) : state :=
  let nn := S (N g) in
  let t3 f := tab1 (fun _ _ => 0) nn (fun i => tab1 (fun _ => 0) (E g) (fun e => tab1 0 nn (f i e))) in
  mkState (t3 (addm s)) (t3 (remm s)) (inq s) (out_ s) (tab1 NLoop nn (pc s)).

Definition srec := (event * (nat * option obs))%type.
Fixpoint first_mismatch (g : config) (s : state) (i : nat) (steps : list srec) : option nat :=
  match steps with
  | [] => None
  | (e, (code, oo)) :: rest =>
      let out := step g s e in
      let s' := match out with Ok s' => freeze g s' | _ => s end in
      if Nat.eqb (out_code out) code &&
         match oo with Some o => state_matches g s' o | None => match out with Ok _ => false | _ => true end end
      then first_mismatch g s' (S i) rest else Some i
  end.
Definition walk := (config * list srec)%type.
Definition first_mismatch_walk (w : walk) : option nat := first_mismatch (fst w) (init (fst w)) 0 (snd w).
Definition walk_ok (w : walk) : bool := match first_mismatch_walk w with None => true | Some _ => false end.
Fixpoint mismatches_from (i : nat) (ws : list walk) : list nat :=
  match ws with [] => [] | w :: rest => let m := mismatches_from (S i) rest in if walk_ok w then m else i :: m end.
