(* C16 / dqueue — executable model of systems/dqueue/dqueue.tla (PlusCal translation), label by label.
   Model only: no proofs here.

   Constants: NC = NUM_CONSUMERS, B = BUFFER_SIZE, PRODUCER = 0; consumers are 1..NC.
   network[i] is a FIFO sequence (mapping macro TCPChannel: read = await Len > 0, Head/Tail;
   write = await Len < BUFFER_SIZE, Append); stream is read through CyclicReads
   (stream' = (stream + 1) % BUFFER_SIZE, yield stream'); processor is written directly.

   A message is a pair (payload, tag). The payload is what the spec sends (a consumer id to the
   producer, a stream value to a consumer); the tag is GHOST: the production index of the item
   (0 for requests). Ghost history: `reqs` = requests in the order the producer received them,
   `sent` = (requester, production index) in production order, `got c` = production indices consumed
   by consumer c, in order. None of it influences a visible component (DqueueProofs.ghost_irrelevant). *)
From Coq Require Export List Arith Bool.
Export ListNotations.

Inductive ppc := P | P1 | P2.
Inductive cpc := C | C1 | C2.

Record state := mkState {
  net : nat -> list (nat * nat);
  processor : nat;
  stream : nat;
  requester : option nat;      (* defaultInitValue = None *)
  ppc_ : ppc;
  cpc_ : nat -> cpc;
  reqs : list nat;             (* ghost *)
  sent : list (nat * nat);     (* ghost *)
  got : nat -> list nat        (* ghost *)
}.

Definition upd {A} (f : nat -> A) (k : nat) (v : A) : nat -> A :=
  fun x => if Nat.eqb x k then v else f x.

Definition init : state :=
  mkState (fun _ => []) 0 0 None P (fun _ => C) [] [] (fun _ => []).

Inductive outcome :=
| Ok (s : state)
| Disabled          (* an await is false *)
| TypeError         (* TLC would report an error: network[defaultInitValue], x % 0 *)
| BadEvent.

Definition producer_step (NC B : nat) (s : state) : outcome :=
  match ppc_ s with
  | P => Ok (mkState (net s) (processor s) (stream s) (requester s) P1 (cpc_ s) (reqs s) (sent s) (got s))
  | P1 =>
      match net s 0 with
      | [] => Disabled                                        (* await Len(network[self]) > 0 *)
      | (r, _) :: rest =>
          Ok (mkState (upd (net s) 0 rest) (processor s) (stream s) (Some r) P2 (cpc_ s)
                      (reqs s ++ [r]) (sent s) (got s))
      end
  | P2 =>
      match B with
      | 0 => TypeError                                        (* (stream + 1) % 0 *)
      | _ =>
        let v := (stream s + 1) mod B in
        match requester s with
        | None => TypeError                                   (* network[defaultInitValue] *)
        | Some r =>
            if negb (Nat.leb r NC) then TypeError             (* requester outside DOMAIN network *)
            else
            if Nat.ltb (List.length (net s r)) B            (* await Len(network[requester]) < BUFFER_SIZE *)
            then Ok (mkState (upd (net s) r (net s r ++ [(v, List.length (sent s))])) (processor s) v
                             (requester s) P (cpc_ s) (reqs s) (sent s ++ [(r, List.length (sent s))]) (got s))
            else Disabled
        end
      end
  end.

Definition consumer_step (B : nat) (s : state) (c : nat) : outcome :=
  match cpc_ s c with
  | C => Ok (mkState (net s) (processor s) (stream s) (requester s) (ppc_ s) (upd (cpc_ s) c C1)
                     (reqs s) (sent s) (got s))
  | C1 =>
      if Nat.ltb (List.length (net s 0)) B                   (* await Len(network[PRODUCER]) < BUFFER_SIZE *)
      then Ok (mkState (upd (net s) 0 (net s 0 ++ [(c, 0)])) (processor s) (stream s) (requester s) (ppc_ s)
                       (upd (cpc_ s) c C2) (reqs s) (sent s) (got s))
      else Disabled
  | C2 =>
      match net s c with
      | [] => Disabled                                        (* await Len(network[self]) > 0 *)
      | (v, k) :: rest =>
          Ok (mkState (upd (net s) c rest) v (stream s) (requester s) (ppc_ s) (upd (cpc_ s) c C)
                      (reqs s) (sent s) (upd (got s) c (got s c ++ [k])))
      end
  end.

(* event = which process runs its current label: 0 = producer, 1..NC = consumer *)
Definition step (NC B : nat) (s : state) (p : nat) : outcome :=
  if Nat.eqb p 0 then producer_step NC B s
  else if Nat.leb p NC then consumer_step B s p
  else BadEvent.

Definition next (NC B : nat) (s : state) (p : nat) : state :=
  match step NC B s p with Ok s' => s' | _ => s end.

Definition exec (NC B : nat) (evs : list nat) : state := fold_left (next NC B) evs init.

(* ------------------------------------------------------------------ correspondence check *)

Definition out_code (o : outcome) : nat :=
  match o with Ok _ => 0 | Disabled => 1 | TypeError => 4 | BadEvent => 5 end.

(* observed after a committed step: network[0..NC] payloads, processor, stream, requester, pc[0], pc[1..NC] *)
Record obs := mkObs {
  o_net : list (list nat);
  o_processor : nat;
  o_stream : nat;
  o_requester : option nat;
  o_ppc : ppc;
  o_cpc : list cpc
}.

Fixpoint list_eqb {A} (eqb : A -> A -> bool) (a b : list A) : bool :=
  match a, b with
  | [], [] => true
  | x :: a', y :: b' => eqb x y && list_eqb eqb a' b'
  | _, _ => false
  end.

Definition ppc_eqb (a b : ppc) : bool :=
  match a, b with P, P | P1, P1 | P2, P2 => true | _, _ => false end.
Definition cpc_eqb (a b : cpc) : bool :=
  match a, b with C, C | C1, C1 | C2, C2 => true | _, _ => false end.
Definition onat_eqb (a b : option nat) : bool :=
  match a, b with None, None => true | Some x, Some y => Nat.eqb x y | _, _ => false end.

Definition state_matches (NC : nat) (s : state) (o : obs) : bool :=
  list_eqb (list_eqb Nat.eqb) (map (fun i => map fst (net s i)) (seq 0 (S NC))) (o_net o)
  && Nat.eqb (processor s) (o_processor o)
  && Nat.eqb (stream s) (o_stream o)
  && onat_eqb (requester s) (o_requester o)
  && ppc_eqb (ppc_ s) (o_ppc o)
  && list_eqb cpc_eqb (map (cpc_ s) (seq 1 NC)) (o_cpc o).

Definition srec := (nat * (nat * option obs))%type.

Fixpoint first_mismatch (NC B : nat) (s : state) (i : nat) (steps : list srec) : option nat :=
  match steps with
  | [] => None
  | (e, (code, oo)) :: rest =>
      let out := step NC B s e in
      let s' := match out with Ok s' => s' | _ => s end in
      if Nat.eqb (out_code out) code &&
         match oo with
         | Some o => state_matches NC s' o
         | None => match out with Ok _ => false | _ => true end
         end
      then first_mismatch NC B s' (S i) rest
      else Some i
  end.

(* a walk: (NUM_CONSUMERS, BUFFER_SIZE, steps) *)
Definition walk := (nat * nat * list srec)%type.

Definition first_mismatch_walk (w : walk) : option nat :=
  first_mismatch (fst (fst w)) (snd (fst w)) init 0 (snd w).

Definition walk_ok (w : walk) : bool :=
  match first_mismatch_walk w with None => true | Some _ => false end.

Fixpoint mismatches_from (i : nat) (ws : list walk) : list nat :=
  match ws with
  | [] => []
  | w :: rest => let m := mismatches_from (S i) rest in if walk_ok w then m else i :: m
  end.
