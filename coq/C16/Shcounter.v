(* C16 / shcounter — executable model of systems/shcounter/shcounter.tla (PlusCal translation).
   Model only. NODE_SET = 1..N (N = NUM_NODES); cntr is ONE atomic variable (the assumption: the
   2PC-backed resource of the deployment behaves as one copy — that is property C11). *)
From Coq Require Export List Arith Bool.
Export ListNotations.

Inductive npc := Update | Wait | Done.

Record state := mkState { cntr : nat; pc : nat -> npc }.

Definition upd {A} (f : nat -> A) (k : nat) (v : A) : nat -> A :=
  fun x => if Nat.eqb x k then v else f x.

Definition init : state := mkState 0 (fun _ => Update).

Inductive outcome := Ok (s : state) | Disabled | Finished | BadEvent.

Definition node_step (N : nat) (s : state) (p : nat) : outcome :=
  match pc s p with
  | Update => Ok (mkState (cntr s + 1) (upd (pc s) p Wait))          (* cntr := cntr + 1; goto wait *)
  | Wait => if Nat.eqb (cntr s) N then Ok (mkState (cntr s) (upd (pc s) p Done)) else Disabled
  | Done => Finished
  end.

Definition step (N : nat) (s : state) (p : nat) : outcome :=
  if Nat.leb 1 p && Nat.leb p N then node_step N s p else BadEvent.

Definition next (N : nat) (s : state) (p : nat) : state :=
  match step N s p with Ok s' => s' | _ => s end.

Definition run (N : nat) (s : state) (evs : list nat) : state := fold_left (next N) evs s.
Definition exec (N : nat) (evs : list nat) : state := run N init evs.

(* ------------------------------------------------------------------ correspondence check *)
Definition out_code (o : outcome) : nat :=
  match o with Ok _ => 0 | Disabled => 1 | Finished => 2 | BadEvent => 5 end.

Record obs := mkObs { o_cntr : nat; o_pc : list npc }.

Definition npc_eqb (a b : npc) : bool :=
  match a, b with Update, Update | Wait, Wait | Done, Done => true | _, _ => false end.

Fixpoint list_eqb {A} (eqb : A -> A -> bool) (a b : list A) : bool :=
  match a, b with
  | [], [] => true
  | x :: a', y :: b' => eqb x y && list_eqb eqb a' b'
  | _, _ => false
  end.

Definition state_matches (N : nat) (s : state) (o : obs) : bool :=
  Nat.eqb (cntr s) (o_cntr o) && list_eqb npc_eqb (map (pc s) (seq 1 N)) (o_pc o).

Definition srec := (nat * (nat * option obs))%type.

Fixpoint first_mismatch (N : nat) (s : state) (i : nat) (steps : list srec) : option nat :=
  match steps with
  | [] => None
  | (e, (code, oo)) :: rest =>
      let out := step N s e in
      let s' := match out with Ok s' => s' | _ => s end in
      if Nat.eqb (out_code out) code &&
         match oo with
         | Some o => state_matches N s' o
         | None => match out with Ok _ => false | _ => true end
         end
      then first_mismatch N s' (S i) rest
      else Some i
  end.

Definition walk := (nat * list srec)%type.
Definition first_mismatch_walk (w : walk) : option nat := first_mismatch (fst w) init 0 (snd w).
Definition walk_ok (w : walk) : bool := match first_mismatch_walk w with None => true | Some _ => false end.
Fixpoint mismatches_from (i : nat) (ws : list walk) : list nat :=
  match ws with
  | [] => []
  | w :: rest => let m := mismatches_from (S i) rest in if walk_ok w then m else i :: m
  end.
