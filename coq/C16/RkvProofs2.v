(* C16 / replicatedkv — Part Q: a replica never processes a Get of a client it has already disconnected, hence
   `assert msg.client \in liveClients` never fails; and the final assertion-freedom theorem. *)
From PGV Require Import C16.Rkv C16.RkvProofs.
From Coq Require Import Lia.
Local Arguments Nat.eqb : simpl never.
Local Arguments Nat.leb : simpl never.
Local Arguments Nat.ltb : simpl never.

Definition is_get (c : nat) (m : rmsg) : bool := match m with MGet _ c' _ _ => Nat.eqb c' c | _ => false end.
Definition is_disc (c : nat) (m : rmsg) : bool := match m with MDisc c' => Nat.eqb c' c | _ => false end.
Local Arguments is_get : simpl never.
Local Arguments is_disc : simpl never.
Definition no_get (c : nat) (l : list rmsg) : bool := forallb (fun m => negb (is_get c m)) l.
Definition no_disc (c : nat) (l : list rmsg) : bool := forallb (fun m => negb (is_disc c m)) l.
(* in a queue, no Get of c comes after a Disconnect of c *)
Fixpoint okq (c : nat) (l : list rmsg) : bool :=
  match l with
  | [] => true
  | m :: r => (if is_disc c m then no_get c r else true) && okq c r
  end.

Lemma no_get_app : forall c a b, no_get c (a ++ b) = no_get c a && no_get c b.
Proof. intros. unfold no_get. apply forallb_app. Qed.
Lemma no_disc_app : forall c a b, no_disc c (a ++ b) = no_disc c a && no_disc c b.
Proof. intros. unfold no_disc. apply forallb_app. Qed.

Lemma okq_snoc : forall c l m, okq c l = true -> (is_get c m = true -> no_disc c l = true) -> okq c (l ++ [m]) = true.
Proof.
  intros c l m. induction l as [|x l IH]; simpl; intros H Hm.
  - destruct (is_disc c m); reflexivity.
  - apply andb_prop in H. destruct H as [H1 H2]. apply andb_true_intro. split.
    + destruct (is_disc c x) eqn:Ex; [|reflexivity]. rewrite no_get_app, H1. simpl.
      destruct (is_get c m) eqn:Eg; [|reflexivity]. specialize (Hm eq_refl). unfold no_disc in Hm. simpl in Hm. try rewrite Ex in Hm. discriminate.
    + apply IH; [exact H2|]. intros Eg. specialize (Hm Eg). unfold no_disc in Hm. simpl in Hm. apply andb_prop in Hm. apply Hm.
Qed.

Section WithConfig.
Variable g : config.

Definition held_pc (p : rpc) : bool := match p with RDisc | RGetReq => true | _ => false end.

Record QInv (s : state) : Prop := mkQ {
  q_live : forall c r, clocks s c <> None -> isClient g c -> mem c (live (rep s r)) = true;
  q_nodisc : forall c r, clocks s c <> None ->
             no_disc c (repNet s r) = true /\ (forall m, rmsg_ (rep s r) = Some m -> is_disc c m = false);
  q_dmsg : forall p c, dmsg (disc s p) = Some (MDisc c) -> clocks s c = None;
  q_ok : forall c r, okq c (repNet s r) = true;
  q_J : forall c r, mem c (live (rep s r)) = false ->
        no_get c (repNet s r) = true /\
        (held_pc (rpc_ (rep s r)) = true -> forall m, rmsg_ (rep s r) = Some m -> is_get c m = false);
  q_K : forall c r, rpc_ (rep s r) = RDisc -> rmsg_ (rep s r) = Some (MDisc c) -> no_get c (repNet s r) = true
}.

Lemma mem_seq : forall c lo n, mem c (seq lo n) = true <-> lo <= c < lo + n.
Proof.
  intros c lo n. unfold mem. rewrite existsb_exists. split.
  - intros [x [Hin E]]. apply Nat.eqb_eq in E. subst. apply in_seq in Hin. exact Hin.
  - intros H. exists c. split; [apply in_seq; exact H|apply Nat.eqb_refl].
Qed.

Lemma q_init : QInv (init g).
Proof.
  constructor; simpl; intros; auto; try discriminate.
  - apply mem_seq. exact H0.
  - split; [reflexivity|intros; discriminate].
  - split; [reflexivity|intros; discriminate].
Qed.

(* a replica rewrites its own locals: liveClients unchanged; msg unchanged or replaced by a Get/Put; it does not
   (re-)enter the labels that inspect msg with a different msg *)
Lemma q_rep_frame : forall s r l',
  QInv s ->
  live l' = live (rep s r) ->
  (rmsg_ l' = rmsg_ (rep s r) \/ exists m, rmsg_ l' = Some m /\ getput m) ->
  (held_pc (rpc_ l') = true -> held_pc (rpc_ (rep s r)) = true /\ rmsg_ l' = rmsg_ (rep s r)) ->
  (rpc_ l' = RDisc -> rpc_ (rep s r) = RDisc) ->
  QInv (set_rep s r l').
Proof.
  intros s r l' [Ql Qn Qd Qo QJ QK] El Em Hh Hd. constructor; simpl; auto.
  - intros c r0 Hc Hcl. unfold upd. destruct (Nat.eqb_spec r0 r) as [->|]; [rewrite El|]; apply Ql; auto.
  - intros c r0 Hc. destruct (Qn c r0 Hc) as [A B0]. split; [exact A|]. unfold upd.
    destruct (Nat.eqb_spec r0 r) as [->|]; [|exact B0]. intros m E.
    destruct Em as [Em|(m' & Em & G)]; [rewrite Em in E; apply B0; exact E|].
    rewrite Em in E. injection E as <-. destruct m'; simpl in *; try reflexivity; contradiction.
  - intros c r0. unfold upd. destruct (Nat.eqb_spec r0 r) as [->|]; [|apply QJ].
    rewrite El. intros Hm. destruct (QJ c r Hm) as [A B0]. split; [exact A|].
    intros Hp m E. destruct (Hh Hp) as [Hp' E']. rewrite E' in E. apply B0; assumption.
  - intros c r0. unfold upd. destruct (Nat.eqb_spec r0 r) as [->|]; [|apply QK].
    intros Hp E. specialize (Hd Hp). destruct (Hh ltac:(rewrite Hp; reflexivity)) as [_ E']. rewrite E' in E. apply QK; assumption.
Qed.

Lemma q_set_box : forall s b, QInv s -> QInv (set_box s b).
Proof. intros s b [Ql Qn Qd Qo QJ QK]. constructor; simpl; auto. Qed.
Lemma q_set_out : forall s o, QInv s -> QInv (set_out s o).
Proof. intros s o [Ql Qn Qd Qo QJ QK]. constructor; simpl; auto. Qed.
Lemma q_set_get : forall s p l, QInv s -> QInv (set_get s p l).
Proof. intros s p l [Ql Qn Qd Qo QJ QK]. constructor; simpl; auto. Qed.
Lemma q_set_put : forall s p l, QInv s -> QInv (set_put s p l).
Proof. intros s p l [Ql Qn Qd Qo QJ QK]. constructor; simpl; auto. Qed.
Lemma q_set_clk : forall s p l, QInv s -> QInv (set_clk s p l).
Proof. intros s p l [Ql Qn Qd Qo QJ QK]. constructor; simpl; auto. Qed.

(* a clock that is not -1 is incremented *)
Lemma q_tick : forall s c t, QInv s -> clocks s c = Some t -> QInv (set_clocks s (upd (clocks s) c (Some (t + 1)))).
Proof.
  intros s c t [Ql Qn Qd Qo QJ QK] E. constructor; simpl; auto.
  - intros c0 r. unfold upd. destruct (Nat.eqb_spec c0 c) as [->|]; [intros _; apply Ql; congruence|apply Ql].
  - intros c0 r. unfold upd. destruct (Nat.eqb_spec c0 c) as [->|]; [intros _; apply Qn; congruence|apply Qn].
  - intros p c0 Hd. unfold upd. destruct (Nat.eqb_spec c0 c) as [->|]; [specialize (Qd p c Hd); congruence|apply (Qd p); exact Hd].
Qed.

(* appending a message to a replica's queue: a Get only from a client whose clock is not -1, a Disconnect only of a
   client whose clock is -1 *)
Lemma q_send_rep : forall s dst m k s', QInv s ->
  (forall c, is_get c m = true -> clocks s c <> None /\ isClient g c) ->
  (forall c, is_disc c m = true -> clocks s c = None) ->
  send_rep g s dst m k = Ok s' ->
  exists s1, QInv s1 /\ clocks s1 = clocks s /\ disc s1 = disc s /\ k s1 = Ok s'.
Proof.
  intros s dst m k s' Q Hg Hd H. unfold send_rep in H. destruct (negb (Nat.ltb dst (NR g))); [discriminate|].
  destruct (Nat.ltb _ _); [|discriminate]. eexists. split; [|split; [|split; [|exact H]]]; [|reflexivity..].
  destruct Q as [Ql Qn Qdm Qo QJ QK]. constructor; simpl; auto.
  - intros c r Hc. destruct (Qn c r Hc) as [A B0]. split; [|exact B0]. unfold upd.
    destruct (Nat.eqb_spec r dst) as [->|]; [|exact A]. rewrite no_disc_app, A. simpl.
    destruct (is_disc c m) eqn:E; [specialize (Hd c E); congruence|reflexivity].
  - intros c r. unfold upd. destruct (Nat.eqb_spec r dst) as [->|]; [|apply Qo].
    apply okq_snoc; [apply Qo|]. intros Eg. destruct (Hg c Eg) as [Hc _]. apply (Qn c dst Hc).
  - intros c r Hm. destruct (QJ c r Hm) as [A B0]. split; [|exact B0]. unfold upd.
    destruct (Nat.eqb_spec r dst) as [->|]; [|exact A]. rewrite no_get_app, A. simpl.
    destruct (is_get c m) eqn:E; [|reflexivity]. destruct (Hg c E) as [Hc Hcl]. rewrite (Ql c dst Hc Hcl) in Hm. discriminate.
  - intros c r Hp E. pose proof (QK c r Hp E) as A. unfold upd.
    destruct (Nat.eqb_spec r dst) as [->|]; [|exact A]. rewrite no_get_app, A. simpl.
    destruct (is_get c m) eqn:Eg; [|reflexivity]. destruct (Hg c Eg) as [Hc _].
    destruct (Qn c dst Hc) as [_ B0]. specialize (B0 _ E). unfold is_disc in B0. rewrite Nat.eqb_refl in B0. discriminate.
Qed.

Lemma q_set_disc : forall s p l, QInv s -> (forall c, dmsg l = Some (MDisc c) -> clocks s c = None) -> QInv (set_disc s p l).
Proof.
  intros s p l [Ql Qn Qd Qo QJ QK] H. constructor; simpl; auto.
  intros p0 c. unfold upd. destruct (Nat.eqb_spec p0 p) as [->|]; [apply H|apply Qd].
Qed.

(* the Disconnect client sets its clock to -1 *)
Lemma q_unclock : forall s c, QInv s -> QInv (set_clocks s (upd (clocks s) c None)).
Proof.
  intros s c [Ql Qn Qd Qo QJ QK]. constructor; simpl; auto.
  - intros c0 r. unfold upd. destruct (Nat.eqb_spec c0 c) as [->|]; [congruence|apply Ql].
  - intros c0 r. unfold upd. destruct (Nat.eqb_spec c0 c) as [->|]; [congruence|apply Qn].
  - intros p c0 Hd. unfold upd. destruct (Nat.eqb_spec c0 c) as [->|]; [reflexivity|apply (Qd p); exact Hd].
Qed.

Lemma upd_same : forall {A} (f : nat -> A) k v, upd f k v k = v.
Proof. intros. unfold upd. rewrite Nat.eqb_refl. reflexivity. Qed.

Lemma mem_remove1_other : forall c0 c l, c0 <> c -> mem c0 (remove1 c l) = mem c0 l.
Proof.
  intros c0 c l Hne. unfold mem, remove1. induction l as [|x l IH]; simpl; [reflexivity|].
  destruct (Nat.eqb_spec x c) as [->|]; simpl.
  - rewrite IH. destruct (Nat.eqb_spec c0 c); [contradiction|reflexivity].
  - rewrite IH. reflexivity.
Qed.

Ltac qframe Q Hpc :=
  apply q_rep_frame;
  [exact Q | reflexivity | left; reflexivity
  | simpl; rewrite ?Hpc; intros; try discriminate; split; reflexivity
  | simpl; rewrite ?Hpc; intros; try discriminate; try assumption].

Lemma q_rep_step : forall s r pick s', TInv g s -> QInv s -> rep_step g s r pick = Ok s' -> QInv s'.
Proof.
  intros s r pick s' T Q H. unfold rep_step in H. destruct (rpc_ (rep s r)) eqn:Hpc.
  - (* replicaLoop *) injection H as <-. qframe Q Hpc.
  - (* receiveClientRequest *)
    destruct (repNet s r) as [|m rest] eqn:Hn; [discriminate|]. injection H as <-.
    destruct Q as [Ql Qn Qd Qo QJ QK]. constructor; simpl; auto.
    + intros c r0 Hc Hcl. unfold upd. destruct (Nat.eqb_spec r0 r) as [->|]; simpl; apply Ql; auto.
    + intros c r0 Hc. destruct (Qn c r0 Hc) as [A B0]. unfold upd. destruct (Nat.eqb_spec r0 r) as [->|]; [|split; assumption].
      rewrite Hn in A. unfold no_disc in A. simpl in A. apply andb_prop in A. destruct A as [A1 A2]. split; [exact A2|].
      simpl. intros m0 E. injection E as <-. destruct (is_disc c m); [discriminate|reflexivity].
    + intros c r0. specialize (Qo c r0). unfold upd. destruct (Nat.eqb_spec r0 r) as [->|]; [|exact Qo].
      rewrite Hn in Qo. simpl in Qo. apply andb_prop in Qo. apply Qo.
    + intros c r0. unfold upd. destruct (Nat.eqb_spec r0 r) as [->|]; [|apply QJ]. simpl. intros Hm.
      destruct (QJ c r Hm) as [A _]. rewrite Hn in A. unfold no_get in A. simpl in A. apply andb_prop in A. destruct A as [A1 A2].
      split; [exact A2|]. intros _ m0 E. injection E as <-. destruct (is_get c m); [discriminate|reflexivity].
    + intros c r0. unfold upd. destruct (Nat.eqb_spec r0 r) as [->|]; [|apply QK]. simpl. intros _ E. injection E as ->.
      specialize (Qo c r). rewrite Hn in Qo. simpl in Qo. apply andb_prop in Qo. destruct Qo as [A _].
      unfold is_disc in A. rewrite Nat.eqb_refl in A. exact A.
  - (* clientDisconnected *)
    destruct (rmsg_ (rep s r)) as [[k c t rp|k v c t rp|c|c t]|] eqn:Hm; try discriminate; injection H as <-; try (qframe Q Hpc).
    destruct Q as [Ql Qn Qd Qo QJ QK]. constructor; simpl; auto.
    + intros c0 r0 Hc Hcl. unfold upd. destruct (Nat.eqb_spec r0 r) as [->|]; [|apply Ql; auto]. simpl.
      assert (c0 <> c).
      { destruct (Qn c0 r Hc) as [_ B0]. specialize (B0 _ Hm). unfold is_disc in B0. apply Nat.eqb_neq in B0. auto. }
      rewrite mem_remove1_other by assumption. apply Ql; auto.
    + intros c0 r0 Hc. destruct (Qn c0 r0 Hc) as [A B0]. split; [exact A|]. unfold upd.
      destruct (Nat.eqb_spec r0 r) as [->|]; [|exact B0]. simpl. exact B0.
    + intros c0 r0. unfold upd. destruct (Nat.eqb_spec r0 r) as [->|]; [|apply QJ]. simpl. intros Hmem.
      destruct (Nat.eq_dec c0 c) as [->|Hne].
      * split; [apply QK; assumption|]. intros _ m0 E. rewrite Hm in E. injection E as <-. reflexivity.
      * rewrite mem_remove1_other in Hmem by assumption. destruct (QJ c0 r Hmem) as [A B0]. split; [exact A|].
        intros _. apply B0. rewrite Hpc. reflexivity.
    + intros c0 r0. unfold upd. destruct (Nat.eqb_spec r0 r) as [->|]; [|apply QK]. simpl. discriminate.
  - (* replicaGetRequest *)
    destruct (rmsg_ (rep s r)) as [[k c t rp|k v c t rp|c|c t]|] eqn:Hm; try discriminate.
    + destruct (negb (mem c (live (rep s r)))); [discriminate|]. destruct (negb (in_clients g c)); [discriminate|].
      injection H as <-. qframe Q Hpc.
    + injection H as <-. qframe Q Hpc.
    + injection H as <-. qframe Q Hpc.
    + injection H as <-. qframe Q Hpc.
  - (* replicaPutRequest *)
    destruct (rmsg_ (rep s r)) as [[k c t rp|k v c t rp|c|c t]|] eqn:Hm; try discriminate.
    + injection H as <-. qframe Q Hpc.
    + destruct (negb (in_clients g c)); [discriminate|]. injection H as <-. qframe Q Hpc.
    + injection H as <-. qframe Q Hpc.
    + injection H as <-. qframe Q Hpc.
  - (* replicaNullRequest *)
    destruct (rmsg_ (rep s r)) as [[k c t rp|k v c t rp|c|c t]|] eqn:Hm; try discriminate;
      try (injection H as <-; qframe Q Hpc).
    destruct (negb (in_clients g c)); [discriminate|]. injection H as <-. qframe Q Hpc.
  - (* findStableRequestsLoop *)
    destruct (cont (rep s r)) as [[|]|]; try discriminate; injection H as <-; qframe Q Hpc.
  - (* findMinClock *)
    destruct (ri (rep s r)) as [i|]; [|discriminate]. destruct (cIter (rep s r)) as [it|]; [|discriminate].
    destruct (minClk (rep s r)) as [mc|]; [|discriminate].
    destruct (Nat.ltb i (List.length it)).
    + destruct pick as [c|]; [|discriminate]. destruct (negb (mem c it)); [discriminate|].
      destruct (negb (in_clients g c)); [discriminate|]. injection H as <-.
      destruct (Nat.eqb mc 0 || Nat.ltb (cclk (rep s r) c) mc); qframe Q Hpc.
    + injection H as <-. qframe Q Hpc.
  - (* findMinClient *)
    destruct (ri (rep s r)) as [i|]; [|discriminate]. destruct (pendC (rep s r)) as [pc|]; [|discriminate].
    destruct (minClk (rep s r)) as [mc|]; [|discriminate].
    destruct (Nat.ltb i (List.length pc)).
    + destruct pick as [c|]; [|discriminate]. destruct (negb (mem c pc)); [discriminate|].
      destruct (pend (rep s r) c) as [|fp rest]; [discriminate|].
      destruct fp as [k c1 t rp|k v c1 t rp|c1|c1 t]; try discriminate.
      * destruct (Nat.ltb t mc).
        -- destruct (lowestP (rep s r)) as [lo|]; [|discriminate]. destruct (nextC (rep s r)) as [nc|]; [|discriminate].
           injection H as <-. destruct (Nat.ltb t lo || (Nat.eqb t lo && Nat.ltb c nc)); qframe Q Hpc.
        -- injection H as <-. qframe Q Hpc.
      * destruct (Nat.ltb t mc).
        -- destruct (lowestP (rep s r)) as [lo|]; [|discriminate]. destruct (nextC (rep s r)) as [nc|]; [|discriminate].
           injection H as <-. destruct (Nat.ltb t lo || (Nat.eqb t lo && Nat.ltb c nc)); qframe Q Hpc.
        -- injection H as <-. qframe Q Hpc.
    + injection H as <-. qframe Q Hpc.
  - (* addStableMessage *)
    destruct (lowestP (rep s r)) as [lo|]; [|discriminate]. destruct (minClk (rep s r)) as [mc|]; [|discriminate].
    destruct (Nat.ltb lo mc).
    + destruct (nextC (rep s r)) as [nc|]; [|discriminate].
      destruct (pend (rep s r) nc) as [|m rest] eqn:Hp; [discriminate|]. injection H as <-.
      assert (Hm : wfm g m /\ getput m) by (apply (t_pend _ _ T r nc); rewrite Hp; left; reflexivity).
      apply q_rep_frame; [exact Q|reflexivity|right; exists m; split; [reflexivity|apply Hm]|simpl; discriminate|simpl; discriminate].
    + injection H as <-. qframe Q Hpc.
  - (* respondPendingRequestsLoop *)
    destruct (ri (rep s r)) as [i|]; [|discriminate].
    destruct (Nat.leb i (List.length (stable (rep s r)))).
    + destruct i as [|i]; [discriminate|]. destruct (nth_error (stable (rep s r)) (S i - 1)) as [m|] eqn:Hn; [|discriminate].
      injection H as <-. apply nth_error_In in Hn. apply (t_stable _ _ T r m) in Hn.
      apply q_rep_frame; [exact Q|reflexivity|right; exists m; split; [reflexivity|apply Hn]|simpl; discriminate|simpl; discriminate].
    + injection H as <-. qframe Q Hpc.
  - (* respondStableGet *)
    destruct (rmsg_ (rep s r)) as [[k c t rp|k v c t rp|c|c t]|] eqn:Hm; try discriminate;
      try (injection H as <-; qframe Q Hpc).
    unfold send_box in H. destruct (negb _); [discriminate|]. destruct (Nat.ltb _ _); [|discriminate]. injection H as <-.
    apply q_rep_frame.
    + apply q_set_box. qframe Q Hpc.
    + simpl. rewrite upd_same. reflexivity.
    + left. simpl. rewrite upd_same. reflexivity.
    + simpl. discriminate.
    + simpl. discriminate.
  - (* respondStablePut *)
    destruct (rmsg_ (rep s r)) as [[k c t rp|k v c t rp|c|c t]|] eqn:Hm; try discriminate;
      try (injection H as <-; qframe Q Hpc).
    unfold send_box in H. destruct (negb _); [discriminate|]. destruct (Nat.ltb _ _); [|discriminate]. injection H as <-.
    apply q_rep_frame.
    + apply q_set_box. qframe Q Hpc.
    + simpl. rewrite upd_same. reflexivity.
    + left. simpl. rewrite upd_same. reflexivity.
    + simpl. discriminate.
    + simpl. discriminate.
Qed.

Lemma q_step : forall s e s', TInv g s -> QInv s -> step g s e = Ok s' -> QInv s'.
Proof.
  intros s e s' T Q H. destruct e as [r pick|p pick|p|p|p]; unfold step in H.
  - destruct (Nat.ltb r (NR g)); [|discriminate]. eapply q_rep_step; eauto.
  - (* Get *)
    destruct (in_range (NR g) (NC g) p) eqn:Hr; [|discriminate]. apply in_range_spec in Hr.
    unfold get_step in H. destruct (gpc_ (getc s p)).
    + injection H as <-. apply q_set_get; exact Q.
    + unfold cid in H. rewrite Nat.mul_0_r, Nat.sub_0_r in H. destruct (clocks s p) as [t|] eqn:Hc.
      * destruct (NR g) eqn:HNR; [discriminate|]. rewrite <- HNR in *. destruct pick as [dst|]; [|discriminate].
        apply q_send_rep in H.
        -- destruct H as (s1 & Q1 & _ & _ & E). injection E as <-. apply q_set_get. exact Q1.
        -- apply q_set_get. apply q_tick; assumption.
        -- intros c E. unfold is_get in E. apply Nat.eqb_eq in E. subst c. simpl. rewrite upd_same. split; [discriminate|exact Hr].
        -- intros c E. discriminate E.
      * injection H as <-. apply q_set_get; exact Q.
    + destruct (clocks s (cid g 0 p)).
      * destruct (cliBox s p) as [|m rest]; [discriminate|]. destruct m; [|discriminate]. injection H as <-.
        apply q_set_out. apply q_set_get. apply q_set_box. exact Q.
      * injection H as <-. apply q_set_get; exact Q.
    + injection H as <-. apply q_set_get; exact Q.
    + discriminate.
  - (* Put *)
    destruct (in_range (NR g + NC g) (NC g) p) eqn:Hr; [|discriminate]. apply in_range_spec in Hr.
    unfold put_step in H. destruct (ppc_ (putc s p)).
    + injection H as <-. apply q_set_put; exact Q.
    + destruct (clocks s (cid g 1 p)) as [t|] eqn:Hc; injection H as <-.
      * apply q_set_put. apply q_tick; assumption.
      * apply q_set_put; exact Q.
    + destruct (pj (putc s p)) as [j|]; [|discriminate]. destruct (putReq (putc s p)) as [m|] eqn:Hm.
      * destruct (Nat.ltb j (NR g) && match clocks s (cid g 1 p) with None => false | Some _ => true end).
        -- destruct (t_put _ _ T p m Hm) as (k & v & c & t & -> & Hc); [unfold isPut; lia|].
           apply q_send_rep in H; [|exact Q|intros c0 E; discriminate E..].
           destruct H as (s1 & Q1 & _ & _ & E). injection E as <-. apply q_set_put. exact Q1.
        -- injection H as <-. apply q_set_put; exact Q.
      * destruct (Nat.ltb j (NR g) && match clocks s (cid g 1 p) with None => false | Some _ => true end); [discriminate|].
        injection H as <-. apply q_set_put; exact Q.
    + destruct (pi0 (putc s p)) as [i|]; [|discriminate]. destruct (Nat.ltb i (NR g)).
      * destruct (clocks s (cid g 1 p)).
        -- destruct (cliBox s p) as [|m rest]; [discriminate|]. destruct m; [discriminate|]. injection H as <-.
           apply q_set_put. apply q_set_box. exact Q.
        -- injection H as <-. apply q_set_put; exact Q.
      * injection H as <-. apply q_set_put; exact Q.
    + injection H as <-. apply q_set_out. apply q_set_put; exact Q.
    + injection H as <-. apply q_set_put; exact Q.
    + discriminate.
  - (* Disconnect *)
    destruct (in_range (NR g + 2 * NC g) (NC g) p); [|discriminate].
    unfold disc_step in H. destruct (dpc_ (disc s p)).
    + injection H as <-. apply q_set_disc; [apply q_unclock; exact Q|]. simpl. intros c E. injection E as <-. apply upd_same.
    + destruct (dj (disc s p)) as [j|]; [|discriminate]. destruct (dmsg (disc s p)) as [m|] eqn:Hm; [|discriminate].
      destruct (Nat.ltb j (NR g)).
      * destruct (t_dis _ _ T p m Hm) as [c ->]. pose proof (q_dmsg _ Q p c Hm) as Hc.
        apply q_send_rep in H; [|exact Q|intros c0 E; discriminate E|].
        -- destruct H as (s1 & Q1 & Ec & _ & E). injection E as <-. apply q_set_disc; [exact Q1|]. simpl.
           intros c0 E0. injection E0 as <-. rewrite Ec. exact Hc.
        -- intros c0 E. unfold is_disc in E. apply Nat.eqb_eq in E. subst c0. exact Hc.
      * injection H as <-. apply q_set_disc; [exact Q|]. simpl. intros c E. apply (q_dmsg _ Q p). rewrite Hm. exact E.
    + discriminate.
  - (* ClockUpdate *)
    destruct (in_range (NR g + 3 * NC g) (NC g) p); [|discriminate].
    unfold clk_step in H. destruct (upc_ (clk s p)).
    + destruct (ucont (clk s p)).
      * destruct (clocks s (cid g 3 p)) as [t|] eqn:Hc; injection H as <-.
        -- apply q_set_clk. apply q_tick; assumption.
        -- apply q_set_clk; exact Q.
      * injection H as <-. apply q_set_clk; exact Q.
    + destruct (uj (clk s p)) as [j|]; [|discriminate].
      destruct (Nat.ltb j (NR g) && match clocks s (cid g 3 p) with None => false | Some _ => true end).
      * destruct (umsg (clk s p)) as [m|] eqn:Hm; [|discriminate].
        destruct (t_clk _ _ T p m Hm) as (c & t & ->).
        apply q_send_rep in H; [|exact Q|intros c0 E; discriminate E..].
        destruct H as (s1 & Q1 & _ & _ & E). injection E as <-. apply q_set_clk. exact Q1.
      * injection H as <-. apply q_set_clk; exact Q.
    + injection H as <-. apply q_set_clk; exact Q.
    + discriminate.
Qed.

Theorem q_reachable : forall s, reachable g s -> TInv g s /\ QInv s.
Proof.
  intros s R. induction R as [|s e s' R [T Q] H]; [split; [apply t_init|apply q_init]|].
  split; [eapply t_step; eauto|eapply q_step; eauto].
Qed.

(* ------------------------------------------------------------------ no assertion of the specification fails *)
Ltac split_matches := repeat match goal with
  | |- Ok _ <> AssertFail => discriminate
  | |- Disabled <> AssertFail => discriminate
  | |- Finished <> AssertFail => discriminate
  | |- TypeError <> AssertFail => discriminate
  | |- BadEvent <> AssertFail => discriminate
  | |- context [match ?x with _ => _ end] => destruct x eqn:?
  end.

Lemma safe_step : forall s e, TInv g s -> QInv s -> step g s e <> AssertFail.
Proof.
  intros s e T Q. destruct e as [r pick|p pick|p|p|p]; unfold step.
  - destruct (Nat.ltb r (NR g)); [|discriminate]. unfold rep_step, send_box. cbv zeta.
    destruct (rpc_ (rep s r)) eqn:Hpc; split_matches.
    all: exfalso; subst.
    all: try match goal with
      | Hm : rmsg_ (rep _ ?r) = Some (MGet _ ?c _ _), Hn : negb (mem ?c (live (rep _ ?r))) = true, Q : QInv _, Hpc : rpc_ _ = _ |- _ =>
          apply Bool.negb_true_iff in Hn; destruct (q_J _ Q c r Hn) as [_ B0]; rewrite Hpc in B0;
          specialize (B0 eq_refl _ Hm); unfold is_get in B0; rewrite Nat.eqb_refl in B0; discriminate
      end.
    all: match goal with Hp : pend (rep _ ?r) ?c = ?m :: _, T : TInv _ _ |- _ =>
           destruct (t_pend _ _ T r c m) as [_ G]; [rewrite Hp; left; reflexivity|exact G] end.
  - destruct (in_range (NR g) (NC g) p) eqn:Hr; [|discriminate]. apply in_range_spec in Hr.
    unfold get_step, send_rep. cbv zeta. split_matches.
    exfalso; subst.
    match goal with Hb : cliBox _ ?p = RPut :: _ |- _ =>
      destruct (t_gbox _ _ T p RPut) as [x Hx]; [exact Hr|rewrite Hb; left; reflexivity|discriminate Hx] end.
  - destruct (in_range (NR g + NC g) (NC g) p) eqn:Hr; [|discriminate]. apply in_range_spec in Hr.
    unfold put_step, send_rep. cbv zeta. split_matches.
    exfalso; subst.
    match goal with Hb : cliBox _ ?p = RGet ?v :: _ |- _ =>
      assert (Hx : RGet v = RPut) by (apply (t_pbox _ _ T p); [unfold isPut; lia|rewrite Hb; left; reflexivity]); discriminate Hx end.
  - destruct (in_range (NR g + 2 * NC g) (NC g) p); [|discriminate].
    unfold disc_step, send_rep. cbv zeta. split_matches.
  - destruct (in_range (NR g + 3 * NC g) (NC g) p); [|discriminate].
    unfold clk_step, send_rep. cbv zeta. split_matches.
Qed.

(* "No assertion written in the specification fails": from every reachable state, every event. *)
Theorem rkv_assertion_free : forall s e, reachable g s -> step g s e <> AssertFail.
Proof. intros s e R. destruct (q_reachable s R) as [T Q]. apply safe_step; assumption. Qed.

Corollary rkv_assertion_free_exec : forall evs e, step g (exec g evs) e <> AssertFail.
Proof. intros. apply rkv_assertion_free. apply exec_reachable. Qed.

(* what the proof rests on, exported: a replica that has removed c from liveClients never again holds or queues a Get of c *)
Theorem rkv_no_get_after_disconnect : forall s r c, reachable g s ->
  mem c (live (rep s r)) = false -> no_get c (repNet s r) = true.
Proof. intros s r c R H. destruct (q_reachable s R) as [_ Q]. apply (q_J _ Q c r H). Qed.

(* typing of what travels: everything pending/stable is a Get or Put; Get clients' mailboxes hold only GET_RESPONSEs,
   Put clients' only PUT_RESPONSEs *)
Theorem rkv_typed : forall s, reachable g s -> TInv g s.
Proof. intros s R. apply (q_reachable s R). Qed.
End WithConfig.
