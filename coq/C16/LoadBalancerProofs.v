(* C16 / loadbalancer — BuffersOk, assertion/type freedom, and "every request is answered by exactly one
   server": a pointwise location invariant (where is client c's outstanding request?) plus a history
   invariant on the ghost list `answered`. *)
From PGV Require Import C16.LoadBalancer.
From Coq Require Import Lia.
Local Arguments Nat.eqb : simpl never.
Local Arguments Nat.leb : simpl never.
Local Arguments Nat.ltb : simpl never.
Local Arguments Nat.modulo : simpl never.

Inductive reachable (NS NC B : nat) : state -> Prop :=
| R_init : reachable NS NC B init
| R_step : forall s p s', reachable NS NC B s -> step NS NC B s p = Ok s' -> reachable NS NC B s'.

Lemma exec_from_reachable : forall NS NC B evs s, reachable NS NC B s -> reachable NS NC B (fold_left (next NS NC B) evs s).
Proof.
  intros NS NC B evs. induction evs as [|e evs IH]; intros s H; simpl; [exact H|].
  apply IH. unfold next. destruct (step NS NC B s e) eqn:E; try exact H. eapply R_step; eauto.
Qed.

Lemma exec_reachable : forall NS NC B evs, reachable NS NC B (exec NS NC B evs).
Proof. intros. apply exec_from_reachable. constructor. Qed.

(* ------------------------------------------------------------------ counting messages that concern client c *)

Definition for_c (c : nat) (m : msg) : nat :=
  match client_of m with Some c' => if Nat.eqb c' c then 1 else 0 | None => 0 end.

Fixpoint cntc (c : nat) (l : list msg) : nat :=
  match l with [] => 0 | m :: r => for_c c m + cntc c r end.

Lemma cntc_app : forall c a b, cntc c (a ++ b) = cntc c a + cntc c b.
Proof. intros c a b. induction a; simpl; lia. Qed.

Definition loc_eqb (a b : location) : bool :=
  match a, b with
  | Idle, Idle | InLBQ, InLBQ | InLBHeld, InLBHeld | InReply, InReply => true
  | InSrvQ j, InSrvQ j' | InSrvHeld j, InSrvHeld j' => Nat.eqb j j'
  | _, _ => false
  end.

Lemma loc_eqb_spec : forall a b, reflect (a = b) (loc_eqb a b).
Proof.
  intros a b. destruct a, b; simpl; try (constructor; congruence);
    destruct (Nat.eqb_spec j j0); constructor; congruence.
Qed.

(* indicator: client c's request is at location l *)
Definition at_ (s : state) (c : nat) (l : location) : nat := if loc_eqb (loc s c) l then 1 else 0.

Definition lheld (s : state) (c : nat) : nat :=
  match lpc_ s, lmsg s with LSend, Some m => for_c c m | _, _ => 0 end.
Definition sheld (s : state) (j c : nat) : nat :=
  match spc_ s j, smsg s j with SSend, Some m => for_c c m | _, _ => 0 end.

Notation is_client NS NC c := (NS < c <= NS + NC) (only parsing).
Notation is_server NS j := (1 <= j <= NS) (only parsing).

Definition good_req (NS NC : nat) (m : msg) : Prop := exists c p, m = Req GET_PAGE c p /\ is_client NS NC c.
Definition good_fwd (NS NC : nat) (m : msg) : Prop := exists id c p, m = Fwd id c p /\ is_client NS NC c.

(* ------------------------------------------------------------------ well-formedness invariant *)

Record Wf (NS NC B : nat) (s : state) : Prop := mkWf {
  w_bound : forall i, List.length (net s i) <= B;
  w_next : lnext s <= NS;
  w_wf0 : forall m, In m (net s 0) -> good_req NS NC m;
  w_wfl : lpc_ s = LSend -> exists m, lmsg s = Some m /\ good_req NS NC m;
  w_wfs : forall j m, is_server NS j -> In m (net s j) -> good_fwd NS NC m;
  w_wfh : forall j, is_server NS j -> spc_ s j = SSend -> exists m, smsg s j = Some m /\ good_fwd NS NC m;
  w_wfc : forall c m, is_client NS NC c -> In m (net s c) -> m = Page
}.

Lemma wf_init : forall NS NC B, Wf NS NC B init.
Proof. intros. constructor; simpl; intros; try lia; try contradiction; try discriminate. Qed.

Ltac deq := repeat match goal with
  | |- context [Nat.eqb ?a ?b] => destruct (Nat.eqb_spec a b)
  | H : context [Nat.eqb ?a ?b] |- _ => destruct (Nat.eqb_spec a b)
  end.

Lemma mod_server : forall n NS, NS >= 1 -> is_server NS (n mod NS + 1).
Proof. intros n NS H. pose proof (Nat.mod_upper_bound n NS ltac:(lia)). lia. Qed.

Lemma step_wf : forall NS NC B s p s', Wf NS NC B s -> step NS NC B s p = Ok s' -> Wf NS NC B s'.
Proof.
  intros NS NC B s p s' W H. unfold step in H.
  destruct (Nat.eqb_spec p 0) as [->|Hp0].
  - (* load balancer *)
    unfold lb_step in H. destruct (lpc_ s) eqn:Hpc.
    + injection H as <-. destruct W. constructor; simpl; auto. discriminate.
    + destruct (net s 0) as [|m rest] eqn:Hn0; [discriminate|].
      destruct m as [ty c pa|id c pa|]; try discriminate.
      destruct (Nat.eqb_spec ty GET_PAGE) as [->|]; [|discriminate]. injection H as <-.
      destruct W. constructor; simpl; auto.
      * intros i. unfold upd. destruct (Nat.eqb_spec i 0) as [->|]; [|apply w_bound0].
        specialize (w_bound0 0). rewrite Hn0 in w_bound0. simpl in w_bound0. lia.
      * intros m. unfold upd. rewrite Nat.eqb_refl. intros Hin. apply w_wf1. rewrite Hn0. right. exact Hin.
      * intros _. eexists. split; [reflexivity|]. apply w_wf1. rewrite Hn0. left. reflexivity.
      * intros j m Hj. unfold upd. destruct (Nat.eqb_spec j 0); [lia|]. apply w_wfs0. exact Hj.
      * intros c0 m Hc. unfold upd. destruct (Nat.eqb_spec c0 0); [lia|]. apply w_wfc0. exact Hc.
    + destruct NS as [|ns]; [discriminate|].
      destruct (w_wfl _ _ _ _ W Hpc) as (m & Hm & c & pa & -> & Hc). rewrite Hm in H. simpl in H.
      set (nx := lnext s mod S ns + 1) in *.
      assert (Hnx : 1 <= nx <= S ns) by (apply mod_server; lia).
      destruct (Nat.ltb_spec (List.length (net s nx)) B); [|discriminate]. injection H as <-.
      destruct W. constructor; simpl; auto.
      * intros i. unfold upd. destruct (Nat.eqb_spec i nx) as [->|]; [|apply w_bound0].
        rewrite app_length. simpl. lia.
      * lia.
      * intros m. unfold upd. destruct (Nat.eqb_spec 0 nx); [lia|]. apply w_wf1.
      * discriminate.
      * intros j m Hj. unfold upd. destruct (Nat.eqb_spec j nx) as [->|]; [|apply w_wfs0; exact Hj].
        intros Hin. apply in_app_or in Hin. destruct Hin as [Hin|[<-|[]]]; [eapply w_wfs0; eauto|].
        exists nx, c, pa. split; [reflexivity|exact Hc].
      * intros c0 m Hc0. unfold upd. destruct (Nat.eqb_spec c0 nx); [lia|]. apply w_wfc0. exact Hc0.
  - destruct (Nat.leb_spec p NS) as [HpS|HpS].
    + (* server p *)
      assert (Hsrv : 1 <= p <= NS) by lia.
      unfold server_step in H. destruct (spc_ s p) eqn:Hpc.
      * injection H as <-. destruct W. constructor; simpl; auto.
        intros j Hj. unfold upd. destruct (Nat.eqb_spec j p); [discriminate|]. apply w_wfh0. exact Hj.
      * destruct (net s p) as [|m rest] eqn:Hnp; [discriminate|]. injection H as <-.
        destruct W. constructor; simpl; auto.
        -- intros i. unfold upd. destruct (Nat.eqb_spec i p) as [->|]; [|apply w_bound0].
           specialize (w_bound0 p). rewrite Hnp in w_bound0. simpl in w_bound0. lia.
        -- intros m0. unfold upd. destruct (Nat.eqb_spec 0 p); [lia|]. apply w_wf1.
        -- intros j m0 Hj. unfold upd. destruct (Nat.eqb_spec j p) as [->|]; [|apply w_wfs0; exact Hj].
           intros Hin. apply (w_wfs0 p m0 Hj). rewrite Hnp. right. exact Hin.
        -- intros j Hj. unfold upd. destruct (Nat.eqb_spec j p) as [->|]; [|apply w_wfh0; exact Hj].
           intros _. eexists. split; [reflexivity|]. apply (w_wfs0 p m Hj). rewrite Hnp. left. reflexivity.
        -- intros c0 m0 Hc0. unfold upd. destruct (Nat.eqb_spec c0 p); [lia|]. apply w_wfc0. exact Hc0.
      * destruct (w_wfh _ _ _ _ W p Hsrv Hpc) as (m & Hm & id & c & pa & -> & Hc). rewrite Hm in H. simpl in H.
        destruct (Nat.leb_spec c (NS + NC)); simpl in H; [|discriminate].
        destruct (Nat.ltb_spec (List.length (net s c)) B); [|discriminate]. injection H as <-.
        destruct W. constructor; simpl; auto.
        -- intros i. unfold upd. destruct (Nat.eqb_spec i c) as [->|]; [|apply w_bound0].
           rewrite app_length. simpl. lia.
        -- intros m. unfold upd. destruct (Nat.eqb_spec 0 c); [lia|]. apply w_wf1.
        -- intros j m Hj. unfold upd. destruct (Nat.eqb_spec j c); [lia|]. apply w_wfs0. exact Hj.
        -- intros j Hj. unfold upd. destruct (Nat.eqb_spec j p); [discriminate|]. apply w_wfh0. exact Hj.
        -- intros c0 m Hc0. unfold upd. destruct (Nat.eqb_spec c0 c) as [->|]; [|apply w_wfc0; exact Hc0].
           intros Hin. apply in_app_or in Hin. destruct Hin as [Hin|[<-|[]]]; [eapply w_wfc0; eauto|reflexivity].
    + destruct (Nat.leb_spec p (NS + NC)) as [HpC|]; [|discriminate].
      (* client p *)
      assert (Hcl : NS < p <= NS + NC) by lia.
      unfold client_step in H. destruct (cpc_ s p) eqn:Hpc.
      * injection H as <-. destruct W. constructor; simpl; auto.
      * destruct (Nat.ltb_spec (List.length (net s 0)) B); [|discriminate]. injection H as <-.
        destruct W. constructor; simpl; auto.
        -- intros i. unfold upd. destruct (Nat.eqb_spec i 0) as [->|]; [|apply w_bound0].
           rewrite app_length. simpl. lia.
        -- intros m. unfold upd. rewrite Nat.eqb_refl. intros Hin. apply in_app_or in Hin.
           destruct Hin as [Hin|[<-|[]]]; [apply w_wf1; exact Hin|]. exists p, 0. split; [reflexivity|exact Hcl].
        -- intros j m Hj. unfold upd. destruct (Nat.eqb_spec j 0); [lia|]. apply w_wfs0. exact Hj.
        -- intros c0 m Hc0. unfold upd. destruct (Nat.eqb_spec c0 0); [lia|]. apply w_wfc0. exact Hc0.
      * destruct (net s p) as [|m rest] eqn:Hnp; [discriminate|]. injection H as <-.
        destruct W. constructor; simpl; auto.
        -- intros i. unfold upd. destruct (Nat.eqb_spec i p) as [->|]; [|apply w_bound0].
           specialize (w_bound0 p). rewrite Hnp in w_bound0. simpl in w_bound0. lia.
        -- intros m0. unfold upd. destruct (Nat.eqb_spec 0 p); [lia|]. apply w_wf1.
        -- intros j m0 Hj. unfold upd. destruct (Nat.eqb_spec j p); [lia|]. apply w_wfs0. exact Hj.
        -- intros c0 m0 Hc0. unfold upd. destruct (Nat.eqb_spec c0 p) as [->|]; [|apply w_wfc0; exact Hc0].
           intros Hin. apply (w_wfc0 p m0 Hc0). rewrite Hnp. right. exact Hin.
Qed.

Theorem wf_reachable : forall NS NC B s, reachable NS NC B s -> Wf NS NC B s.
Proof. intros NS NC B s H. induction H; [apply wf_init|eapply step_wf; eauto]. Qed.

(* BuffersOk == \A node \in DOMAIN network : Len(network[node]) >= 0 /\ Len(network[node]) <= BUFFER_SIZE *)
Lemma buffers_ok_lemma : forall NS NC B s, reachable NS NC B s ->
  forall node, 0 <= List.length (net s node) /\ List.length (net s node) <= B.
Proof. intros NS NC B s R node. split; [lia|]. exact (w_bound _ _ _ _ (wf_reachable _ _ _ _ R) node). Qed.

(* no assertion fails (the load balancer only ever receives GET_PAGE requests; WebPages is never written) and no
   action is ill-typed, provided NUM_SERVERS > 0 (the spec's ASSUME) *)
Lemma safe_lemma : forall NS NC B s p, NS >= 1 -> reachable NS NC B s ->
  step NS NC B s p <> AssertFail /\ step NS NC B s p <> TypeError.
Proof.
  intros NS NC B s p HNS R. pose proof (wf_reachable _ _ _ _ R) as W. unfold step.
  destruct (Nat.eqb_spec p 0) as [->|].
  - unfold lb_step. destruct (lpc_ s) eqn:Hpc; try (split; discriminate).
    + destruct (net s 0) as [|m rest] eqn:Hn0; [split; discriminate|].
      destruct (w_wf0 _ _ _ _ W m) as (c & pa & -> & _); [rewrite Hn0; left; reflexivity|].
      rewrite Nat.eqb_refl. split; discriminate.
    + destruct NS as [|ns]; [lia|].
      destruct (w_wfl _ _ _ _ W Hpc) as (m & Hm & c & pa & -> & Hc). rewrite Hm. simpl.
      destruct (Nat.ltb _ B); split; discriminate.
  - destruct (Nat.leb_spec p NS).
    + unfold server_step. destruct (spc_ s p) eqn:Hpc; try (split; discriminate).
      * destruct (net s p); split; discriminate.
      * destruct (w_wfh _ _ _ _ W p ltac:(lia) Hpc) as (m & Hm & id & c & pa & -> & Hc).
        rewrite Hm. simpl. destruct (Nat.leb_spec c (NS + NC)); [|lia]. simpl.
        destruct (Nat.ltb _ B); split; discriminate.
    + destruct (Nat.leb p (NS + NC)); [|split; discriminate].
      unfold client_step. destruct (cpc_ s p); try (split; discriminate).
      * destruct (Nat.ltb _ B); split; discriminate.
      * destruct (net s p); split; discriminate.
Qed.
