(* C16 / replicatedkv — executable model of systems/replicatedkv/replicated_kv.tla (the PlusCal translation of the
   MPCal block): AReplica (13 labels), Get (4), Put (6), Disconnect (2), ClockUpdate (3) = 28 labels. Model only.

   ReplicaSet = 0..NR-1, ClientSet = NR..NR+NC-1; process ids: Get NR+k, Put NR+NC+k, Disconnect NR+2NC+k,
   ClockUpdate NR+3NC+k (k < NC); the four client-id mapping macros all yield the logical client NR+k.
   replicasNetwork / clientMailboxes are FIFO queues bounded by B (FIFOChannel); clocks[c] is an integer with the
   distinguished value -1 (disconnected): `option nat`, None = -1. Keys: GET_KEY = 0, PUT_KEY = 1; PUT_VALUE = 7;
   NULL = None. Locals that start as defaultInitValue are options (None = defaultInitValue).

   Event = which process runs its current label; `pick` is the element chosen by the label's `with x \in S`
   (findMinClock / findMinClient: a client; getRequest: the destination replica). *)
From Coq Require Export List Arith Bool.
Export ListNotations.

Inductive rmsg :=
| MGet (key client ts reply : nat)                 (* [op |-> GET_MSG, key, client, timestamp, reply_to] *)
| MPut (key value client ts reply : nat)           (* [op |-> PUT_MSG, key, value, client, timestamp, reply_to] *)
| MDisc (client : nat)                             (* [op |-> DISCONNECT_MSG, client] *)
| MNull (client ts : nat).                         (* [op |-> NULL_MSG, client, timestamp] *)

Inductive cresp :=
| RGet (result : option nat)                       (* [type |-> GET_RESPONSE, result |-> val] *)
| RPut.                                            (* [type |-> PUT_RESPONSE, result |-> ok], ok = defaultInitValue *)

Inductive oval := OInit | ORes (r : option nat) | OPutResp.

Definition GET_KEY := 0.
Definition PUT_KEY := 1.
Definition PUT_VALUE := 7.

Inductive rpc := RLoop | RRecv | RDisc | RGetReq | RPutReq | RNullReq | RFindStable | RMinClock | RMinClient
               | RAddStable | RRespond | RRespGet | RRespPut.
Inductive gpc := GLoop | GRequest | GReply | GSpin | GDone.
Inductive ppc := PLoop | PRequest | PBroadcast | PResponse | PComplete | PSpin | PDone.
Inductive dpc := DSend | DBroadcast | DDone.
Inductive upc := ULoop | UBroadcast | USpin | UDone.

Record rloc := mkR {
  live : list nat; pend : nat -> list rmsg; stable : list rmsg; ri : option nat; firstP : option rmsg;
  tstamp : option nat; nextC : option nat; lowestP : option nat; chooseM : option bool; cclk : nat -> nat;
  minClk : option nat; cont : option bool; pendC : option (list nat); cIter : option (list nat);
  rmsg_ : option rmsg; rkey : option nat; rval : option (option nat); kv : nat -> option nat; rpc_ : rpc }.
Record gloc := mkG { gcont : bool; getReq : option rmsg; getResp : option cresp; gpc_ : gpc }.
Record ploc := mkP { pcont : bool; pi0 : option nat; pj : option nat; putReq : option rmsg; putResp : option cresp; ppc_ : ppc }.
Record dloc := mkD { dmsg : option rmsg; dj : option nat; dpc_ : dpc }.
Record uloc := mkU { ucont : bool; uj : option nat; umsg : option rmsg; upc_ : upc }.

Record state := mkState {
  repNet : nat -> list rmsg; cliBox : nat -> list cresp; clocks : nat -> option nat; out_ : oval;
  rep : nat -> rloc; getc : nat -> gloc; putc : nat -> ploc; disc : nat -> dloc; clk : nat -> uloc }.

Record config := mkCfg { NR : nat; NC : nat; B : nat; SPIN : bool }.

Definition upd {A} (f : nat -> A) (k : nat) (v : A) : nat -> A := fun x => if Nat.eqb x k then v else f x.

Definition clientSet (g : config) : list nat := seq (NR g) (NC g).
Definition in_clients (g : config) (c : nat) : bool := Nat.leb (NR g) c && Nat.ltb c (NR g + NC g).

Definition rinit (g : config) : rloc :=
  mkR (clientSet g) (fun _ => []) [] None None None None None None (fun _ => 0) None None None None None None None
      (fun _ => None) RLoop.
Definition init (g : config) : state :=
  mkState (fun _ => []) (fun _ => []) (fun _ => Some 0) OInit (fun _ => rinit g)
          (fun _ => mkG true None None GLoop) (fun _ => mkP true None None None None PLoop)
          (fun _ => mkD None None DSend) (fun _ => mkU true None None ULoop).

Inductive event := ERep (r : nat) (pick : option nat) | EGet (p : nat) (pick : option nat) | EPut (p : nat)
                 | EDisc (p : nat) | EClk (p : nat).
Inductive outcome := Ok (s : state) | Disabled | Finished | AssertFail | TypeError | BadEvent.

Definition mem (x : nat) (l : list nat) : bool := existsb (Nat.eqb x) l.
Definition remove1 (x : nat) (l : list nat) : list nat := filter (fun y => negb (Nat.eqb y x)) l.

Definition msg_client (m : rmsg) : nat :=
  match m with MGet _ c _ _ => c | MPut _ _ c _ _ => c | MDisc c => c | MNull c _ => c end.

(* setters of replica fields *)
Definition r_pc (l : rloc) p := mkR (live l) (pend l) (stable l) (ri l) (firstP l) (tstamp l) (nextC l) (lowestP l) (chooseM l) (cclk l) (minClk l) (cont l) (pendC l) (cIter l) (rmsg_ l) (rkey l) (rval l) (kv l) p.
Definition r_live (l : rloc) x := mkR x (pend l) (stable l) (ri l) (firstP l) (tstamp l) (nextC l) (lowestP l) (chooseM l) (cclk l) (minClk l) (cont l) (pendC l) (cIter l) (rmsg_ l) (rkey l) (rval l) (kv l) (rpc_ l).
Definition r_pend (l : rloc) x := mkR (live l) x (stable l) (ri l) (firstP l) (tstamp l) (nextC l) (lowestP l) (chooseM l) (cclk l) (minClk l) (cont l) (pendC l) (cIter l) (rmsg_ l) (rkey l) (rval l) (kv l) (rpc_ l).
Definition r_stable (l : rloc) x := mkR (live l) (pend l) x (ri l) (firstP l) (tstamp l) (nextC l) (lowestP l) (chooseM l) (cclk l) (minClk l) (cont l) (pendC l) (cIter l) (rmsg_ l) (rkey l) (rval l) (kv l) (rpc_ l).
Definition r_i (l : rloc) x := mkR (live l) (pend l) (stable l) x (firstP l) (tstamp l) (nextC l) (lowestP l) (chooseM l) (cclk l) (minClk l) (cont l) (pendC l) (cIter l) (rmsg_ l) (rkey l) (rval l) (kv l) (rpc_ l).
Definition r_firstP (l : rloc) x := mkR (live l) (pend l) (stable l) (ri l) x (tstamp l) (nextC l) (lowestP l) (chooseM l) (cclk l) (minClk l) (cont l) (pendC l) (cIter l) (rmsg_ l) (rkey l) (rval l) (kv l) (rpc_ l).
Definition r_tstamp (l : rloc) x := mkR (live l) (pend l) (stable l) (ri l) (firstP l) x (nextC l) (lowestP l) (chooseM l) (cclk l) (minClk l) (cont l) (pendC l) (cIter l) (rmsg_ l) (rkey l) (rval l) (kv l) (rpc_ l).
Definition r_nextC (l : rloc) x := mkR (live l) (pend l) (stable l) (ri l) (firstP l) (tstamp l) x (lowestP l) (chooseM l) (cclk l) (minClk l) (cont l) (pendC l) (cIter l) (rmsg_ l) (rkey l) (rval l) (kv l) (rpc_ l).
Definition r_lowestP (l : rloc) x := mkR (live l) (pend l) (stable l) (ri l) (firstP l) (tstamp l) (nextC l) x (chooseM l) (cclk l) (minClk l) (cont l) (pendC l) (cIter l) (rmsg_ l) (rkey l) (rval l) (kv l) (rpc_ l).
Definition r_chooseM (l : rloc) x := mkR (live l) (pend l) (stable l) (ri l) (firstP l) (tstamp l) (nextC l) (lowestP l) x (cclk l) (minClk l) (cont l) (pendC l) (cIter l) (rmsg_ l) (rkey l) (rval l) (kv l) (rpc_ l).
Definition r_cclk (l : rloc) x := mkR (live l) (pend l) (stable l) (ri l) (firstP l) (tstamp l) (nextC l) (lowestP l) (chooseM l) x (minClk l) (cont l) (pendC l) (cIter l) (rmsg_ l) (rkey l) (rval l) (kv l) (rpc_ l).
Definition r_minClk (l : rloc) x := mkR (live l) (pend l) (stable l) (ri l) (firstP l) (tstamp l) (nextC l) (lowestP l) (chooseM l) (cclk l) x (cont l) (pendC l) (cIter l) (rmsg_ l) (rkey l) (rval l) (kv l) (rpc_ l).
Definition r_cont (l : rloc) x := mkR (live l) (pend l) (stable l) (ri l) (firstP l) (tstamp l) (nextC l) (lowestP l) (chooseM l) (cclk l) (minClk l) x (pendC l) (cIter l) (rmsg_ l) (rkey l) (rval l) (kv l) (rpc_ l).
Definition r_pendC (l : rloc) x := mkR (live l) (pend l) (stable l) (ri l) (firstP l) (tstamp l) (nextC l) (lowestP l) (chooseM l) (cclk l) (minClk l) (cont l) x (cIter l) (rmsg_ l) (rkey l) (rval l) (kv l) (rpc_ l).
Definition r_cIter (l : rloc) x := mkR (live l) (pend l) (stable l) (ri l) (firstP l) (tstamp l) (nextC l) (lowestP l) (chooseM l) (cclk l) (minClk l) (cont l) (pendC l) x (rmsg_ l) (rkey l) (rval l) (kv l) (rpc_ l).
Definition r_msg (l : rloc) x := mkR (live l) (pend l) (stable l) (ri l) (firstP l) (tstamp l) (nextC l) (lowestP l) (chooseM l) (cclk l) (minClk l) (cont l) (pendC l) (cIter l) x (rkey l) (rval l) (kv l) (rpc_ l).
Definition r_key (l : rloc) x := mkR (live l) (pend l) (stable l) (ri l) (firstP l) (tstamp l) (nextC l) (lowestP l) (chooseM l) (cclk l) (minClk l) (cont l) (pendC l) (cIter l) (rmsg_ l) x (rval l) (kv l) (rpc_ l).
Definition r_val (l : rloc) x := mkR (live l) (pend l) (stable l) (ri l) (firstP l) (tstamp l) (nextC l) (lowestP l) (chooseM l) (cclk l) (minClk l) (cont l) (pendC l) (cIter l) (rmsg_ l) (rkey l) x (kv l) (rpc_ l).
Definition r_kv (l : rloc) x := mkR (live l) (pend l) (stable l) (ri l) (firstP l) (tstamp l) (nextC l) (lowestP l) (chooseM l) (cclk l) (minClk l) (cont l) (pendC l) (cIter l) (rmsg_ l) (rkey l) (rval l) x (rpc_ l).

Definition set_rep (s : state) (r : nat) (l : rloc) : state :=
  mkState (repNet s) (cliBox s) (clocks s) (out_ s) (upd (rep s) r l) (getc s) (putc s) (disc s) (clk s).
Definition set_repnet (s : state) (n : nat -> list rmsg) : state :=
  mkState n (cliBox s) (clocks s) (out_ s) (rep s) (getc s) (putc s) (disc s) (clk s).
Definition set_box (s : state) (b : nat -> list cresp) : state :=
  mkState (repNet s) b (clocks s) (out_ s) (rep s) (getc s) (putc s) (disc s) (clk s).
Definition set_clocks (s : state) (c : nat -> option nat) : state :=
  mkState (repNet s) (cliBox s) c (out_ s) (rep s) (getc s) (putc s) (disc s) (clk s).
Definition set_out (s : state) (o : oval) : state :=
  mkState (repNet s) (cliBox s) (clocks s) o (rep s) (getc s) (putc s) (disc s) (clk s).
Definition set_get (s : state) (p : nat) (l : gloc) : state :=
  mkState (repNet s) (cliBox s) (clocks s) (out_ s) (rep s) (upd (getc s) p l) (putc s) (disc s) (clk s).
Definition set_put (s : state) (p : nat) (l : ploc) : state :=
  mkState (repNet s) (cliBox s) (clocks s) (out_ s) (rep s) (getc s) (upd (putc s) p l) (disc s) (clk s).
Definition set_disc (s : state) (p : nat) (l : dloc) : state :=
  mkState (repNet s) (cliBox s) (clocks s) (out_ s) (rep s) (getc s) (putc s) (upd (disc s) p l) (clk s).
Definition set_clk (s : state) (p : nat) (l : uloc) : state :=
  mkState (repNet s) (cliBox s) (clocks s) (out_ s) (rep s) (getc s) (putc s) (disc s) (upd (clk s) p l).

(* FIFOChannel.write: await Len < BUFFER_SIZE; Append *)
Definition send_rep (g : config) (s : state) (dst : nat) (m : rmsg) (k : state -> outcome) : outcome :=
  if negb (Nat.ltb dst (NR g)) then TypeError
  else if Nat.ltb (List.length (repNet s dst)) (B g)
  then k (set_repnet s (upd (repNet s) dst (repNet s dst ++ [m])))
  else Disabled.
Definition send_box (g : config) (s : state) (dst : nat) (m : cresp) (k : state -> outcome) : outcome :=
  if negb (Nat.leb (NR g) dst && Nat.ltb dst (NR g + 4 * NC g)) then TypeError
  else if Nat.ltb (List.length (cliBox s dst)) (B g)
  then k (set_box s (upd (cliBox s) dst (cliBox s dst ++ [m])))
  else Disabled.

Definition rep_step (g : config) (s : state) (r : nat) (pick : option nat) : outcome :=
  let l := rep s r in
  let go l' := Ok (set_rep s r l') in
  match rpc_ l with
  | RLoop => go (r_pc (r_cont (r_stable l []) (Some true)) RRecv)
  | RRecv =>
      match repNet s r with
      | [] => Disabled
      | m :: rest => Ok (set_rep (set_repnet s (upd (repNet s) r rest)) r (r_pc (r_msg l (Some m)) RDisc))
      end
  | RDisc =>
      match rmsg_ l with
      | None => TypeError
      | Some (MDisc c) => go (r_pc (r_live l (remove1 c (live l))) RGetReq)
      | Some _ => go (r_pc l RGetReq)
      end
  | RGetReq =>
      match rmsg_ l with
      | None => TypeError
      | Some (MGet k c t rp as m) =>
          if negb (mem c (live l)) then AssertFail                   (* assert msg.client \in liveClients *)
          else if negb (in_clients g c) then TypeError               (* EXCEPT outside DOMAIN currentClocks *)
          else go (r_pc (r_pend (r_cclk l (upd (cclk l) c t)) (upd (pend l) c (pend l c ++ [m]))) RPutReq)
      | Some _ => go (r_pc l RPutReq)
      end
  | RPutReq =>
      match rmsg_ l with
      | None => TypeError
      | Some (MPut k v c t rp as m) =>
          if negb (in_clients g c) then TypeError
          else go (r_pc (r_pend (r_cclk l (upd (cclk l) c t)) (upd (pend l) c (pend l c ++ [m]))) RNullReq)
      | Some _ => go (r_pc l RNullReq)
      end
  | RNullReq =>
      match rmsg_ l with
      | None => TypeError
      | Some (MNull c t) =>
          if negb (in_clients g c) then TypeError
          else go (r_pc (r_cclk l (upd (cclk l) c t)) RFindStable)
      | Some _ => go (r_pc l RFindStable)
      end
  | RFindStable =>
      match cont l with
      | None => TypeError
      | Some true =>
          go (r_pc (r_minClk (r_i (r_cIter (r_nextC (r_pendC l
               (Some (filter (fun c => negb (Nat.eqb (List.length (pend l c)) 0)) (live l))))
               (Some (NR g + NC g + 1))) (Some (live l))) (Some 0)) (Some 0)) RMinClock)
      | Some false => go (r_pc (r_i l (Some 1)) RRespond)
      end
  | RMinClock =>
      match ri l, cIter l, minClk l with
      | Some i, Some it, Some mc =>
          if Nat.ltb i (List.length it) then
            match pick with
            | None => BadEvent
            | Some c =>
                if negb (mem c it) then BadEvent
                else if negb (in_clients g c) then TypeError
                else
                  let l1 := if Nat.eqb mc 0 || Nat.ltb (cclk l c) mc then r_minClk l (Some (cclk l c)) else l in
                  go (r_pc (r_cIter l1 (Some (remove1 c it))) RMinClock)
            end
          else go (r_pc (r_i (r_lowestP l (Some (mc + 1))) (Some 0)) RMinClient)
      | _, _, _ => TypeError
      end
  | RMinClient =>
      match ri l, pendC l, minClk l with
      | Some i, Some pc, Some mc =>
          if Nat.ltb i (List.length pc) then
            match pick with
            | None => BadEvent
            | Some c =>
                if negb (mem c pc) then BadEvent
                else match pend l c with
                | [] => TypeError                                     (* Head(<<>>) *)
                | fp :: _ =>
                    match fp with
                    | MDisc _ | MNull _ _ => AssertFail                (* assert op = GET_MSG \/ op = PUT_MSG *)
                    | _ =>
                      let t := match fp with MGet _ _ t _ => t | MPut _ _ _ t _ => t | _ => 0 end in
                      let l1 := r_tstamp (r_firstP l (Some fp)) (Some t) in
                      if Nat.ltb t mc then
                        match lowestP l, nextC l with
                        | Some lo, Some nc =>
                            let ch := Nat.ltb t lo || (Nat.eqb t lo && Nat.ltb c nc) in
                            let l2 := r_chooseM l1 (Some ch) in
                            let l3 := if ch then r_lowestP (r_nextC l2 (Some c)) (Some t) else l2 in
                            go (r_pc (r_pendC l3 (Some (remove1 c pc))) RMinClient)
                        | _, _ => TypeError
                        end
                      else go (r_pc (r_pendC l1 (Some (remove1 c pc))) RMinClient)
                    end
                end
            end
          else go (r_pc l RAddStable)
      | _, _, _ => TypeError
      end
  | RAddStable =>
      match lowestP l, minClk l with
      | Some lo, Some mc =>
          if Nat.ltb lo mc then
            match nextC l with
            | None => TypeError
            | Some nc =>
                match pend l nc with
                | [] => TypeError
                | m :: rest => go (r_pc (r_stable (r_pend (r_msg l (Some m)) (upd (pend l) nc rest)) (stable l ++ [m])) RFindStable)
                end
            end
          else go (r_pc (r_cont l (Some false)) RFindStable)
      | _, _ => TypeError
      end
  | RRespond =>
      match ri l with
      | None => TypeError
      | Some i =>
          if Nat.leb i (List.length (stable l)) then
            match i, nth_error (stable l) (i - 1) with
            | S _, Some m => go (r_pc (r_i (r_msg l (Some m)) (Some (i + 1))) RRespGet)
            | _, _ => TypeError
            end
          else go (r_pc l RLoop)
      end
  | RRespGet =>
      match rmsg_ l with
      | None => TypeError
      | Some (MGet k c t rp) =>
          let l1 := r_val (r_key l (Some k)) (Some (kv l k)) in
          send_box g (set_rep s r l1) rp (RGet (kv l k)) (fun s' => Ok (set_rep s' r (r_pc l1 RRespPut)))
      | Some _ => go (r_pc l RRespPut)
      end
  | RRespPut =>
      match rmsg_ l with
      | None => TypeError
      | Some (MPut k v c t rp) =>
          let l1 := r_kv (r_val (r_key l (Some k)) (Some (Some v))) (upd (kv l) k (Some v)) in
          send_box g (set_rep s r l1) rp RPut (fun s' => Ok (set_rep s' r (r_pc l1 RRespond)))
      | Some _ => go (r_pc l RRespond)
      end
  end.

Definition cid (g : config) (order p : nat) : nat := p - NC g * order.

Definition get_step (g : config) (s : state) (p : nat) (pick : option nat) : outcome :=
  let l := getc s p in let c := cid g 0 p in
  match gpc_ l with
  | GLoop => Ok (set_get s p (mkG (gcont l) (getReq l) (getResp l) (if gcont l then GRequest else GDone)))
  | GRequest =>
      match clocks s c with
      | None => Ok (set_get s p (mkG false (getReq l) (getResp l) GSpin))
      | Some t =>
          let m := MGet GET_KEY c (t + 1) p in
          match NR g with
          | 0 => Disabled                                               (* with dst \in {} *)
          | _ =>
            match pick with
            | None => BadEvent
            | Some dst =>
                send_rep g (set_get (set_clocks s (upd (clocks s) c (Some (t + 1)))) p (mkG (gcont l) (Some m) (getResp l) (gpc_ l))) dst m
                  (fun s' => Ok (set_get s' p (mkG (gcont l) (Some m) (getResp l) GReply)))
            end
          end
      end
  | GReply =>
      match clocks s c with
      | None => Ok (set_get s p (mkG false (getReq l) (getResp l) GSpin))
      | Some _ =>
          match cliBox s p with
          | [] => Disabled
          | m :: rest =>
              match m with
              | RGet res => Ok (set_out (set_get (set_box s (upd (cliBox s) p rest)) p (mkG (gcont l) (getReq l) (Some m) GSpin)) (ORes res))
              | RPut => AssertFail                                      (* assert getResp.type = GET_RESPONSE *)
              end
          end
      end
  | GSpin => Ok (set_get s p (mkG (if SPIN g then gcont l else false) (getReq l) (getResp l) GLoop))
  | GDone => Finished
  end.

Definition put_step (g : config) (s : state) (p : nat) : outcome :=
  let l := putc s p in let c := cid g 1 p in
  match ppc_ l with
  | PLoop => Ok (set_put s p (mkP (pcont l) (pi0 l) (pj l) (putReq l) (putResp l) (if pcont l then PRequest else PDone)))
  | PRequest =>
      match clocks s c with
      | None => Ok (set_put s p (mkP false (pi0 l) (pj l) (putReq l) (putResp l) PSpin))
      | Some t =>
          Ok (set_put (set_clocks s (upd (clocks s) c (Some (t + 1)))) p
                (mkP (pcont l) (Some 0) (Some 0) (Some (MPut PUT_KEY PUT_VALUE c (t + 1) p)) (putResp l) PBroadcast))
      end
  | PBroadcast =>
      match pj l, putReq l with
      | Some j, Some m =>
          if Nat.ltb j (NR g) && match clocks s c with None => false | Some _ => true end
          then send_rep g s j m (fun s' => Ok (set_put s' p (mkP (pcont l) (pi0 l) (Some (j + 1)) (putReq l) (putResp l) PBroadcast)))
          else Ok (set_put s p (mkP (pcont l) (pi0 l) (pj l) (putReq l) (putResp l) PResponse))
      | Some j, None =>
          if Nat.ltb j (NR g) && match clocks s c with None => false | Some _ => true end then TypeError
          else Ok (set_put s p (mkP (pcont l) (pi0 l) (pj l) (putReq l) (putResp l) PResponse))
      | None, _ => TypeError
      end
  | PResponse =>
      match pi0 l with
      | None => TypeError
      | Some i =>
          if Nat.ltb i (NR g) then
            match clocks s c with
            | None => Ok (set_put s p (mkP false (pi0 l) (pj l) (putReq l) (putResp l) PLoop))
            | Some _ =>
                match cliBox s p with
                | [] => Disabled
                | m :: rest =>
                    match m with
                    | RPut => Ok (set_put (set_box s (upd (cliBox s) p rest)) p (mkP (pcont l) (Some (i + 1)) (pj l) (putReq l) (Some m) PResponse))
                    | RGet _ => AssertFail                              (* assert putResp.type = PUT_RESPONSE *)
                    end
                end
            end
          else Ok (set_put s p (mkP (pcont l) (pi0 l) (pj l) (putReq l) (putResp l) PComplete))
      end
  | PComplete => Ok (set_out (set_put s p (mkP (pcont l) (pi0 l) (pj l) (putReq l) (putResp l) PSpin)) OPutResp)
  | PSpin => Ok (set_put s p (mkP (if SPIN g then pcont l else false) (pi0 l) (pj l) (putReq l) (putResp l) PLoop))
  | PDone => Finished
  end.

Definition disc_step (g : config) (s : state) (p : nat) : outcome :=
  let l := disc s p in let c := cid g 2 p in
  match dpc_ l with
  | DSend => Ok (set_disc (set_clocks s (upd (clocks s) c None)) p (mkD (Some (MDisc c)) (Some 0) DBroadcast))
  | DBroadcast =>
      match dj l, dmsg l with
      | Some j, Some m =>
          if Nat.ltb j (NR g)
          then send_rep g s j m (fun s' => Ok (set_disc s' p (mkD (dmsg l) (Some (j + 1)) DBroadcast)))
          else Ok (set_disc s p (mkD (dmsg l) (dj l) DDone))
      | _, _ => TypeError
      end
  | DDone => Finished
  end.

Definition clk_step (g : config) (s : state) (p : nat) : outcome :=
  let l := clk s p in let c := cid g 3 p in
  match upc_ l with
  | ULoop =>
      if ucont l then
        match clocks s c with
        | None => Ok (set_clk s p (mkU false (uj l) (umsg l) USpin))
        | Some t => Ok (set_clk (set_clocks s (upd (clocks s) c (Some (t + 1)))) p (mkU (ucont l) (Some 0) (Some (MNull c (t + 1))) UBroadcast))
        end
      else Ok (set_clk s p (mkU (ucont l) (uj l) (umsg l) UDone))
  | UBroadcast =>
      match uj l with
      | None => TypeError
      | Some j =>
          if Nat.ltb j (NR g) && match clocks s c with None => false | Some _ => true end
          then match umsg l with
               | Some m => send_rep g s j m (fun s' => Ok (set_clk s' p (mkU (ucont l) (Some (j + 1)) (umsg l) UBroadcast)))
               | None => TypeError
               end
          else Ok (set_clk s p (mkU (ucont l) (uj l) (umsg l) USpin))
      end
  | USpin => Ok (set_clk s p (mkU (if SPIN g then ucont l else false) (uj l) (umsg l) ULoop))
  | UDone => Finished
  end.

Definition in_range (lo n x : nat) : bool := Nat.leb lo x && Nat.ltb x (lo + n).

Definition step (g : config) (s : state) (e : event) : outcome :=
  match e with
  | ERep r pick => if Nat.ltb r (NR g) then rep_step g s r pick else BadEvent
  | EGet p pick => if in_range (NR g) (NC g) p then get_step g s p pick else BadEvent
  | EPut p => if in_range (NR g + NC g) (NC g) p then put_step g s p else BadEvent
  | EDisc p => if in_range (NR g + 2 * NC g) (NC g) p then disc_step g s p else BadEvent
  | EClk p => if in_range (NR g + 3 * NC g) (NC g) p then clk_step g s p else BadEvent
  end.

Definition next (g : config) (s : state) (e : event) : state :=
  match step g s e with Ok s' => s' | _ => s end.
Definition run (g : config) (s : state) (evs : list event) : state := fold_left (next g) evs s.
Definition exec (g : config) (evs : list event) : state := run g (init g) evs.

(* ------------------------------------------------------------------ correspondence check *)
Definition out_code (o : outcome) : nat :=
  match o with Ok _ => 0 | Disabled => 1 | Finished => 2 | AssertFail => 3 | TypeError => 4 | BadEvent => 5 end.

Fixpoint list_eqb {A} (eqb : A -> A -> bool) (a b : list A) : bool :=
  match a, b with
  | [], [] => true
  | x :: a', y :: b' => eqb x y && list_eqb eqb a' b'
  | _, _ => false
  end.
Definition opt_eqb {A} (eqb : A -> A -> bool) (a b : option A) : bool :=
  match a, b with None, None => true | Some x, Some y => eqb x y | _, _ => false end.
Definition set_eqb (a b : list nat) : bool :=
  Nat.eqb (List.length a) (List.length b) && forallb (fun x => mem x b) a.
Definition rmsg_eqb (a b : rmsg) : bool :=
  match a, b with
  | MGet k c t r, MGet k' c' t' r' => Nat.eqb k k' && Nat.eqb c c' && Nat.eqb t t' && Nat.eqb r r'
  | MPut k v c t r, MPut k' v' c' t' r' => Nat.eqb k k' && Nat.eqb v v' && Nat.eqb c c' && Nat.eqb t t' && Nat.eqb r r'
  | MDisc c, MDisc c' => Nat.eqb c c'
  | MNull c t, MNull c' t' => Nat.eqb c c' && Nat.eqb t t'
  | _, _ => false
  end.
Definition cresp_eqb (a b : cresp) : bool :=
  match a, b with RGet x, RGet y => opt_eqb Nat.eqb x y | RPut, RPut => true | _, _ => false end.
Definition oval_eqb (a b : oval) : bool :=
  match a, b with OInit, OInit | OPutResp, OPutResp => true | ORes x, ORes y => opt_eqb Nat.eqb x y | _, _ => false end.
Definition rpc_eqb (a b : rpc) : bool :=
  match a, b with
  | RLoop, RLoop | RRecv, RRecv | RDisc, RDisc | RGetReq, RGetReq | RPutReq, RPutReq | RNullReq, RNullReq
  | RFindStable, RFindStable | RMinClock, RMinClock | RMinClient, RMinClient | RAddStable, RAddStable
  | RRespond, RRespond | RRespGet, RRespGet | RRespPut, RRespPut => true
  | _, _ => false
  end.
Definition gpc_eqb (a b : gpc) := match a, b with GLoop, GLoop | GRequest, GRequest | GReply, GReply | GSpin, GSpin | GDone, GDone => true | _, _ => false end.
Definition ppc_eqb (a b : ppc) := match a, b with PLoop, PLoop | PRequest, PRequest | PBroadcast, PBroadcast | PResponse, PResponse | PComplete, PComplete | PSpin, PSpin | PDone, PDone => true | _, _ => false end.
Definition dpc_eqb (a b : dpc) := match a, b with DSend, DSend | DBroadcast, DBroadcast | DDone, DDone => true | _, _ => false end.
Definition upc_eqb (a b : upc) := match a, b with ULoop, ULoop | UBroadcast, UBroadcast | USpin, USpin | UDone, UDone => true | _, _ => false end.

(* a replica as observed: function-valued locals are tabulated over ClientSet (pendingRequests, currentClocks) and
   over the two keys (kv) *)
Record robs := mkRO {
  o_live : list nat; o_pend : list (list rmsg); o_stable : list rmsg; o_ri : option nat; o_firstP : option rmsg;
  o_tstamp : option nat; o_nextC : option nat; o_lowestP : option nat; o_chooseM : option bool; o_cclk : list nat;
  o_minClk : option nat; o_cont : option bool; o_pendC : option (list nat); o_cIter : option (list nat);
  o_rmsg : option rmsg; o_rkey : option nat; o_rval : option (option nat); o_kv : list (option nat); o_rpc : rpc }.

Definition rloc_matches (g : config) (l : rloc) (o : robs) : bool :=
  set_eqb (live l) (o_live o)
  && list_eqb (list_eqb rmsg_eqb) (map (pend l) (clientSet g)) (o_pend o)
  && list_eqb rmsg_eqb (stable l) (o_stable o)
  && opt_eqb Nat.eqb (ri l) (o_ri o) && opt_eqb rmsg_eqb (firstP l) (o_firstP o)
  && opt_eqb Nat.eqb (tstamp l) (o_tstamp o) && opt_eqb Nat.eqb (nextC l) (o_nextC o)
  && opt_eqb Nat.eqb (lowestP l) (o_lowestP o) && opt_eqb Bool.eqb (chooseM l) (o_chooseM o)
  && list_eqb Nat.eqb (map (cclk l) (clientSet g)) (o_cclk o)
  && opt_eqb Nat.eqb (minClk l) (o_minClk o) && opt_eqb Bool.eqb (cont l) (o_cont o)
  && opt_eqb set_eqb (pendC l) (o_pendC o) && opt_eqb set_eqb (cIter l) (o_cIter o)
  && opt_eqb rmsg_eqb (rmsg_ l) (o_rmsg o) && opt_eqb Nat.eqb (rkey l) (o_rkey o)
  && opt_eqb (opt_eqb Nat.eqb) (rval l) (o_rval o)
  && list_eqb (opt_eqb Nat.eqb) (map (kv l) [GET_KEY; PUT_KEY]) (o_kv o)
  && rpc_eqb (rpc_ l) (o_rpc o).

Definition gloc_eqb (a b : gloc) : bool :=
  Bool.eqb (gcont a) (gcont b) && opt_eqb rmsg_eqb (getReq a) (getReq b) && opt_eqb cresp_eqb (getResp a) (getResp b) && gpc_eqb (gpc_ a) (gpc_ b).
Definition ploc_eqb (a b : ploc) : bool :=
  Bool.eqb (pcont a) (pcont b) && opt_eqb Nat.eqb (pi0 a) (pi0 b) && opt_eqb Nat.eqb (pj a) (pj b)
  && opt_eqb rmsg_eqb (putReq a) (putReq b) && opt_eqb cresp_eqb (putResp a) (putResp b) && ppc_eqb (ppc_ a) (ppc_ b).
Definition dloc_eqb (a b : dloc) : bool :=
  opt_eqb rmsg_eqb (dmsg a) (dmsg b) && opt_eqb Nat.eqb (dj a) (dj b) && dpc_eqb (dpc_ a) (dpc_ b).
Definition uloc_eqb (a b : uloc) : bool :=
  Bool.eqb (ucont a) (ucont b) && opt_eqb Nat.eqb (uj a) (uj b) && opt_eqb rmsg_eqb (umsg a) (umsg b) && upc_eqb (upc_ a) (upc_ b).

Record obs := mkObs {
  o_repNet : list (list rmsg); o_cliBox : list (list cresp); o_clocks : list (option nat); o_out : oval;
  o_rep : list robs; o_get : list gloc; o_put : list ploc; o_disc : list dloc; o_clk : list uloc }.

Fixpoint list_match {A B} (f : A -> B -> bool) (a : list A) (b : list B) : bool :=
  match a, b with
  | [], [] => true
  | x :: a', y :: b' => f x y && list_match f a' b'
  | _, _ => false
  end.

Definition state_matches (g : config) (s : state) (o : obs) : bool :=
  let reps := seq 0 (NR g) in
  list_eqb (list_eqb rmsg_eqb) (map (repNet s) reps) (o_repNet o)
  && list_eqb (list_eqb cresp_eqb) (map (cliBox s) (seq (NR g) (4 * NC g))) (o_cliBox o)
  && list_eqb (opt_eqb Nat.eqb) (map (clocks s) (clientSet g)) (o_clocks o)
  && oval_eqb (out_ s) (o_out o)
  && list_match (rloc_matches g) (map (rep s) reps) (o_rep o)
  && list_eqb gloc_eqb (map (getc s) (seq (NR g) (NC g))) (o_get o)
  && list_eqb ploc_eqb (map (putc s) (seq (NR g + NC g) (NC g))) (o_put o)
  && list_eqb dloc_eqb (map (disc s) (seq (NR g + 2 * NC g) (NC g))) (o_disc o)
  && list_eqb uloc_eqb (map (clk s) (seq (NR g + 3 * NC g) (NC g))) (o_clk o).

(* re-tabulation of the function-valued components after every step (see Shopcart.v); identity on the ranges used *)
Definition tab {A} (d : A) (n : nat) (f : nat -> A) : nat -> A := let l := map f (seq 0 n) in fun i => nth i l d.
Definition freeze (g : config) (s : state) : state :=
  let n := NR g + 4 * NC g + 1 in
  let fr (l : rloc) := r_kv (r_cclk (r_pend l (tab [] n (pend l))) (tab 0 n (cclk l))) (tab None 2 (kv l)) in
  mkState (tab [] n (repNet s)) (tab [] n (cliBox s)) (tab (Some 0) n (clocks s)) (out_ s)
          (tab (rinit g) n (fun r => fr (rep s r))) (tab (mkG true None None GLoop) n (getc s))
          (tab (mkP true None None None None PLoop) n (putc s)) (tab (mkD None None DSend) n (disc s))
          (tab (mkU true None None ULoop) n (clk s)).

Definition srec := (event * (nat * option obs))%type.

Fixpoint first_mismatch (g : config) (s : state) (i : nat) (steps : list srec) : option nat :=
  match steps with
  | [] => None
  | (e, (code, oo)) :: rest =>
      let out := step g s e in
      let s' := match out with Ok s' => freeze g s' | _ => s end in
      if Nat.eqb (out_code out) code &&
         match oo with
         | Some o => state_matches g s' o
         | None => match out with Ok _ => false | _ => true end
         end
      then first_mismatch g s' (S i) rest
      else Some i
  end.

Definition walk := (config * list srec)%type.
Definition first_mismatch_walk (w : walk) : option nat := first_mismatch (fst w) (init (fst w)) 0 (snd w).
Definition walk_ok (w : walk) : bool := match first_mismatch_walk w with None => true | Some _ => false end.
Fixpoint mismatches_from (i : nat) (ws : list walk) : list nat :=
  match ws with
  | [] => []
  | w :: rest => let m := mismatches_from (S i) rest in if walk_ok w then m else i :: m
  end.
