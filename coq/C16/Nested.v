(* C16 / nestedcrdtimpl — executable model of systems/nestedcrdtimpl/NestedCRDTImpl.tla (PlusCal translation):
   the generated archetype ACRDTResource (one label, receiveReq, a three-way `either` and a `with target \in
   remainingPeersToUpdate`) and the spec's own process Node (twelve labels) that drives it through the single-cell
   channels in / out. Model only.

   NODE_IDS = 1..K, RESOURCE_OF(n) = K + n, RESOURCE_IDS = K+1..2K; B = BUFFER_SIZE; NUM_OPS.
   The CRDT is the grow-only counter the deployment instantiates the spec's CONSTANT operators with (and the one
   MonotonicState / StateSanity talk about): a value is a map resource id -> count, modelled as a total function
   with default 0 (the maps never hold explicit zeros: entries are created by UPDATE_FN with v >= 1 and merged by
   union); ZERO_VALUE = the empty map, COMBINE_FN = pointwise maximum, UPDATE_FN(self, s, v) = s[self] += v,
   VIEW_FN = sum of the counts.
   Mapping macros: network[_] via TCPChannel (FIFO, bounded), in[_] / out[_] via SingleCellChannel for the
   archetype (read: await non-empty, take; write: await empty, put); the Node process accesses in / out directly. *)
From Coq Require Export List Arith Bool.
Export ListNotations.

Definition gc := nat -> nat.
Definition ZERO : gc := fun _ => 0.
Definition COMBINE (a b : gc) : gc := fun k => Nat.max (a k) (b k).
Definition upd {A} (f : nat -> A) (k : nat) (v : A) : nat -> A :=
  fun x => if Nat.eqb x k then v else f x.
Definition UPDATE (self : nat) (s : gc) (v : nat) : gc := upd s self (s self + v).

Inductive req := RRead | RWrite (v : nat) | RAbort | RPre | RCommit.
Inductive ack := ARead (v : nat) | AWrite | AAbort | APre | ACommit.

Inductive npc := NCrit | NReadReq | NReadAck | NAbortReq | NAbortAck | NWriteReq | NWriteAck
               | NPreReq | NPreAck | NCommitReq | NCommitAck | NDone.

Record state := mkState {
  net : nat -> list gc;
  inc : nat -> option req;            (* in[res]; EMPTY_CELL = None *)
  outc : nat -> option ack;           (* out[res] *)
  (* ACRDTResource locals, per resource *)
  rem_ : nat -> list nat;             (* remainingPeersToUpdate (a set) *)
  rreq : nat -> option req;
  csip : nat -> bool;                 (* criticalSectionInProgress *)
  st : nat -> gc;                     (* state *)
  rst : nat -> gc;                    (* readState *)
  (* Node locals, per node *)
  opsDone : nat -> nat; wPend : nat -> nat; wAch : nat -> nat; shouldCommit : nat -> bool;
  npc_ : nat -> npc
}.

Definition init : state :=
  mkState (fun _ => []) (fun _ => None) (fun _ => None)
          (fun _ => []) (fun _ => None) (fun _ => false) (fun _ => ZERO) (fun _ => ZERO)
          (fun _ => 0) (fun _ => 0) (fun _ => 0) (fun _ => false) (fun _ => NCrit).

Record config := mkCfg { K : nat; B : nat; NUM_OPS : nat }.
Definition resources (g : config) : list nat := seq (K g + 1) (K g).
Definition res_of (g : config) (n : nat) : nat := K g + n.
Definition is_res (g : config) (r : nat) : bool := Nat.leb (K g + 1) r && Nat.leb r (2 * K g).
Definition is_node (g : config) (n : nat) : bool := Nat.leb 1 n && Nat.leb n (K g).

Definition VIEW (g : config) (s : gc) : nat := fold_right (fun r acc => s r + acc) 0 (resources g).
Definition gc_eqb (g : config) (a b : gc) : bool := forallb (fun r => Nat.eqb (a r) (b r)) (resources g).
Definition peers (g : config) (r : nat) : list nat := filter (fun x => negb (Nat.eqb x r)) (resources g).

Inductive event := ERes (r : nat) (br : nat) (target : option nat) | ENode (n : nat) (br : nat).
Inductive outcome := Ok (s : state) | Disabled | Finished | AssertFail | TypeError | BadEvent.

Definition set_res (s : state) (r : nat) nt i o rm rq cs stt rs : state :=
  mkState nt i o (upd (rem_ s) r rm) (upd (rreq s) r rq) (upd (csip s) r cs) (upd (st s) r stt) (upd (rst s) r rs)
          (opsDone s) (wPend s) (wAch s) (shouldCommit s) (npc_ s).

(* out[self] := ack through SingleCellChannel: await out[self] = EMPTY_CELL *)
Definition reply (g : config) (s : state) (r : nat) (q : req) rm cs stt rs (a : ack) : outcome :=
  match outc s r with
  | Some _ => Disabled
  | None => Ok (set_res s r (net s) (upd (inc s) r None) (upd (outc s) r (Some a)) rm (Some q) cs stt rs)
  end.

Definition res_step (g : config) (s : state) (r : nat) (br : nat) (target : option nat) : outcome :=
  match br with
  | 0 =>
      match inc s r with
      | None => Disabled                                            (* await in[self] # EMPTY_CELL *)
      | Some q =>
          match q with
          | RRead =>
              if negb (csip s r)
              then reply g s r q (rem_ s r) true (st s r) (st s r) (ARead (VIEW g (st s r)))
              else reply g s r q (rem_ s r) (csip s r) (st s r) (rst s r) (ARead (VIEW g (rst s r)))
          | RWrite v =>
              if negb (csip s r)
              then reply g s r q (rem_ s r) true (st s r) (UPDATE r (st s r) v) AWrite
              else reply g s r q (rem_ s r) (csip s r) (st s r) (UPDATE r (rst s r) v) AWrite
          | RAbort => reply g s r q (rem_ s r) false (st s r) ZERO AAbort
          | RPre => reply g s r q (rem_ s r) (csip s r) (st s r) (rst s r) APre
          | RCommit =>
              let rm := if negb (gc_eqb g (st s r) (rst s r)) then peers g r else rem_ s r in
              reply g s r q rm false (COMBINE (st s r) (rst s r)) ZERO ACommit
          end
      end
  | 1 =>
      match net s r with
      | [] => Disabled
      | v :: rest =>
          Ok (set_res s r (upd (net s) r rest) (inc s) (outc s) (rem_ s r) (rreq s r) (csip s r)
                      (COMBINE v (st s r)) (rst s r))
      end
  | 2 =>
      match rem_ s r with
      | [] => Disabled                                              (* with target \in {} *)
      | _ =>
          match target with
          | None => BadEvent
          | Some t =>
              if negb (existsb (Nat.eqb t) (rem_ s r)) then BadEvent
              else if negb (is_res g t) then TypeError
              else if Nat.ltb (List.length (net s t)) (B g)
              then Ok (set_res s r (upd (net s) t (net s t ++ [st s r])) (inc s) (outc s)
                               (filter (fun x => negb (Nat.eqb x t)) (rem_ s r)) (rreq s r) (csip s r) (st s r) (rst s r))
              else Disabled
          end
      end
  | _ => BadEvent
  end.

Definition set_node (s : state) (n : nat) i o od wp wa sc pc : state :=
  mkState (net s) i o (rem_ s) (rreq s) (csip s) (st s) (rst s)
          (upd (opsDone s) n od) (upd (wPend s) n wp) (upd (wAch s) n wa) (upd (shouldCommit s) n sc) (upd (npc_ s) n pc).

(* a Node label that sends request q: in[RESOURCE_OF(self)] := q (direct assignment) *)
Definition node_send (g : config) (s : state) (n : nat) (q : req) wp pc : outcome :=
  Ok (set_node s n (upd (inc s) (res_of g n) (Some q)) (outc s) (opsDone s n) wp (wAch s n) (shouldCommit s n) pc).

(* a Node label that awaits an acknowledgement of the expected kind and clears the cell *)
Definition node_ack (g : config) (s : state) (n : nat) (expect : ack -> bool) (k : state -> outcome) : outcome :=
  match outc s (res_of g n) with
  | None => Disabled
  | Some a => if expect a then k (set_node s n (inc s) (upd (outc s) (res_of g n) None) (opsDone s n) (wPend s n) (wAch s n) (shouldCommit s n) (npc_ s n))
              else AssertFail
  end.

Definition node_step (g : config) (s : state) (n : nat) (br : nat) : outcome :=
  let more := Nat.ltb (opsDone s n) (NUM_OPS g) in
  let go s' od wp wa sc pc := Ok (set_node s' n (inc s') (outc s') od wp wa sc pc) in
  match npc_ s n with
  | NCrit =>
      match br with
      | 0 => if negb (shouldCommit s n) then go s (opsDone s n) (wPend s n) (wAch s n) (shouldCommit s n) NDone else Disabled
      | 1 | 3 => if more then go s (opsDone s n + 1) (wPend s n) (wAch s n) (shouldCommit s n) NReadReq else Disabled
      | 2 => if more then go s (opsDone s n + 1) (wPend s n) (wAch s n) (shouldCommit s n) NWriteReq else Disabled
      | 4 => if shouldCommit s n then go s (opsDone s n) (wPend s n) (wAch s n) (shouldCommit s n) NPreReq else Disabled
      | _ => BadEvent
      end
  | NReadReq => node_send g s n RRead (wPend s n) NReadAck
  | NReadAck => node_ack g s n (fun a => match a with ARead _ => true | _ => false end)
                  (fun s' => go s' (opsDone s' n) (wPend s' n) (wAch s' n) true NCrit)
  | NAbortReq => node_send g s n RAbort (wPend s n) NAbortAck
  | NAbortAck => node_ack g s n (fun a => match a with AAbort => true | _ => false end)
                  (fun s' => go s' (opsDone s' n) 0 (wAch s' n) false NCrit)
  | NWriteReq => node_send g s n (RWrite 1) (wPend s n + 1) NWriteAck
  | NWriteAck => node_ack g s n (fun a => match a with AWrite => true | _ => false end)
                  (fun s' => go s' (opsDone s' n) (wPend s' n) (wAch s' n) true NCrit)
  | NPreReq => node_send g s n RPre (wPend s n) NPreAck
  | NPreAck => node_ack g s n (fun a => match a with APre => true | _ => false end)
                  (fun s' => match br with
                             | 0 => if more then go s' (opsDone s' n + 1) (wPend s' n) (wAch s' n) (shouldCommit s' n) NAbortReq
                                    else Disabled
                             | 1 => go s' (opsDone s' n) (wPend s' n) (wAch s' n) (shouldCommit s' n) NCommitReq
                             | _ => BadEvent
                             end)
  | NCommitReq => node_send g s n RCommit (wPend s n) NCommitAck
  | NCommitAck => node_ack g s n (fun a => match a with ACommit => true | _ => false end)
                  (fun s' => go s' (opsDone s' n) 0 (wAch s' n + wPend s' n) false NCrit)
  | NDone => Finished
  end.

Definition step (g : config) (s : state) (e : event) : outcome :=
  match e with
  | ERes r br t => if is_res g r then res_step g s r br t else BadEvent
  | ENode n br => if is_node g n then node_step g s n br else BadEvent
  end.

Definition next (g : config) (s : state) (e : event) : state :=
  match step g s e with Ok s' => s' | _ => s end.
Definition run (g : config) (s : state) (evs : list event) : state := fold_left (next g) evs s.
Definition exec (g : config) (evs : list event) : state := run g init evs.

(* ------------------------------------------------------------------ the spec's invariants, executable *)

(* Sum over a SET of numbers, as the spec's Sum({ ... : self \in ... }) is: equal values collapse *)
Definition sum_set (l : list nat) : nat := fold_right plus 0 (nodup Nat.eq_dec l).
(* StateSanity exactly as written in the spec *)
Definition state_sanity_as_written (g : config) (s : state) : bool :=
  Nat.leb (sum_set (map (fun r => VIEW g (st s r)) (resources g)))
          (sum_set (map (fun n => wPend s n + wAch s n) (seq 1 (K g)))).
(* the bound it evidently intends: no replica counts more than the writes issued *)
Definition total_writes (g : config) (s : state) : nat := fold_right (fun n acc => wPend s n + wAch s n + acc) 0 (seq 1 (K g)).
Definition state_sanity_intended (g : config) (s : state) : bool :=
  forallb (fun r => Nat.leb (VIEW g (st s r)) (total_writes g s)) (resources g).

(* ------------------------------------------------------------------ correspondence check *)
Definition out_code (o : outcome) : nat :=
  match o with Ok _ => 0 | Disabled => 1 | Finished => 2 | AssertFail => 3 | TypeError => 4 | BadEvent => 5 end.

(* a CRDT value is observed as the list of its counts at the resource ids K+1..2K *)
Record obs := mkObs {
  o_net : list (list (list nat)); o_in : list (option req); o_out : list (option ack);
  o_rem : list (list nat); o_rreq : list (option req); o_csip : list bool; o_st : list (list nat); o_rst : list (list nat);
  o_ops : list nat; o_wp : list nat; o_wa : list nat; o_sc : list bool; o_npc : list npc
}.

Fixpoint list_eqb {A} (eqb : A -> A -> bool) (a b : list A) : bool :=
  match a, b with
  | [], [] => true
  | x :: a', y :: b' => eqb x y && list_eqb eqb a' b'
  | _, _ => false
  end.
Definition req_eqb (a b : req) : bool :=
  match a, b with
  | RRead, RRead | RAbort, RAbort | RPre, RPre | RCommit, RCommit => true
  | RWrite v, RWrite w => Nat.eqb v w
  | _, _ => false
  end.
Definition ack_eqb (a b : ack) : bool :=
  match a, b with
  | ARead v, ARead w => Nat.eqb v w
  | AWrite, AWrite | AAbort, AAbort | APre, APre | ACommit, ACommit => true
  | _, _ => false
  end.
Definition opt_eqb {A} (eqb : A -> A -> bool) (a b : option A) : bool :=
  match a, b with None, None => true | Some x, Some y => eqb x y | _, _ => false end.
Definition npc_eqb (a b : npc) : bool :=
  match a, b with
  | NCrit, NCrit | NReadReq, NReadReq | NReadAck, NReadAck | NAbortReq, NAbortReq | NAbortAck, NAbortAck
  | NWriteReq, NWriteReq | NWriteAck, NWriteAck | NPreReq, NPreReq | NPreAck, NPreAck
  | NCommitReq, NCommitReq | NCommitAck, NCommitAck | NDone, NDone => true
  | _, _ => false
  end.
(* set equality of two duplicate-free lists *)
Definition set_eqb (a b : list nat) : bool :=
  Nat.eqb (List.length a) (List.length b) && forallb (fun x => existsb (Nat.eqb x) b) a.

Definition tabgc (g : config) (v : gc) : list nat := map v (resources g).

Definition state_matches (g : config) (s : state) (o : obs) : bool :=
  let rs := resources g in let ns := seq 1 (K g) in
  list_eqb (list_eqb (list_eqb Nat.eqb)) (map (fun r => map (tabgc g) (net s r)) rs) (o_net o)
  && list_eqb (opt_eqb req_eqb) (map (inc s) rs) (o_in o)
  && list_eqb (opt_eqb ack_eqb) (map (outc s) rs) (o_out o)
  && list_eqb set_eqb (map (rem_ s) rs) (o_rem o)
  && list_eqb (opt_eqb req_eqb) (map (rreq s) rs) (o_rreq o)
  && list_eqb Bool.eqb (map (csip s) rs) (o_csip o)
  && list_eqb (list_eqb Nat.eqb) (map (fun r => tabgc g (st s r)) rs) (o_st o)
  && list_eqb (list_eqb Nat.eqb) (map (fun r => tabgc g (rst s r)) rs) (o_rst o)
  && list_eqb Nat.eqb (map (opsDone s) ns) (o_ops o) && list_eqb Nat.eqb (map (wPend s) ns) (o_wp o)
  && list_eqb Nat.eqb (map (wAch s) ns) (o_wa o) && list_eqb Bool.eqb (map (shouldCommit s) ns) (o_sc o)
  && list_eqb npc_eqb (map (npc_ s) ns) (o_npc o).

(* re-tabulation of the functional CRDT values after every step (see Shopcart.v): identity on K+1..2K *)
Definition tabf (g : config) (v : gc) : gc :=
  let l := map v (seq 0 (2 * K g + 1)) in fun i => nth i l 0.
Definition t1 {A} (g : config) (d : A) (f : nat -> A) : nat -> A :=
  let l := map f (seq 0 (2 * K g + 1)) in fun i => nth i l d.
Definition freeze (g : config) (s : state) : state :=
  let t1 {A} := @t1 A g in
  mkState (t1 [] (fun r => map (tabf g) (net s r))) (t1 None (inc s)) (t1 None (outc s))
          (t1 [] (rem_ s)) (t1 None (rreq s)) (t1 false (csip s))
          (t1 ZERO (fun r => tabf g (st s r))) (t1 ZERO (fun r => tabf g (rst s r)))
          (t1 0 (opsDone s)) (t1 0 (wPend s)) (t1 0 (wAch s)) (t1 false (shouldCommit s)) (t1 NCrit (npc_ s)).

Definition srec := (event * (nat * option obs))%type.

Fixpoint first_mismatch (g : config) (s : state) (i : nat) (steps : list srec) : option nat :=
  match steps with
  | [] => None
  | (e, (code, oo)) :: rest =>
      let out := step g s e in
      let s' := match out with Ok s' => freeze g s' | _ => s end in
      if Nat.eqb (out_code out) code &&
         match oo with
         | Some o => state_matches g s' o
         | None => match out with Ok _ => false | _ => true end
         end
      then first_mismatch g s' (S i) rest
      else Some i
  end.

Definition walk := (config * list srec)%type.
Definition first_mismatch_walk (w : walk) : option nat := first_mismatch (fst w) init 0 (snd w).
Definition walk_ok (w : walk) : bool := match first_mismatch_walk w with None => true | Some _ => false end.
Fixpoint mismatches_from (i : nat) (ws : list walk) : list nat :=
  match ws with
  | [] => []
  | w :: rest => let m := mismatches_from (S i) rest in if walk_ok w then m else i :: m
  end.
