(* C16 / *.gotests — NonDetExploration.tla (pgo/test/files/general). TheSet == {1, 2}.
     ACoverage:    l1..l4: with (a \in TheSet, b \in TheSet) { await a = x /\ b = y }  for (x,y) = (1,1),(1,2),(2,1),(2,2)
     ACoincidence: lbl: with (a, b) { await a = 1 /\ b = 1 }; with (a, b) { await a = 2 /\ b = 2 }   (one label)
     AComplex:     i = 0, mark = {};  loop: while (i < 20) { lbl1: with (a \in TheSet) mark := mark \cup {a}; lbl2: i := i + 1 };
                   assert \A a \in TheSet : a \in mark     -- "with high probability (1 - 2 / 2^20) this assertion is true"
   An event carries the ELEMENTS the withs chose. `picked` is a ghost history of AComplex's choices. *)
From Coq Require Export List Arith Bool.
From Coq Require Import Lia.
Export ListNotations.

Definition LIMIT : nat := 20.

Inductive cpc := L1 | L2 | L3 | L4 | CDone.
Inductive kpc := KLbl | KDone.
Inductive xpc := XLoop | XLbl1 | XLbl2 | XDone.
Record state := mkState { cov : cpc; coin : kpc; cx : xpc; xi : nat; m1 : bool; m2 : bool; picked : list nat }.
Definition init : state := mkState L1 KLbl XLoop 0 false false [].

Inductive event := ECov (a b : nat) | ECoin (a b a' b' : nat) | ECx (a : nat).
Inductive outcome := Ok (s : state) | Disabled | Finished | AssertFail | BadEvent.

Definition inSet (a : nat) : bool := Nat.eqb a 1 || Nat.eqb a 2.
Definition set_cov s v := mkState v (coin s) (cx s) (xi s) (m1 s) (m2 s) (picked s).
Definition set_coin s v := mkState (cov s) v (cx s) (xi s) (m1 s) (m2 s) (picked s).
Definition set_cx s v := mkState (cov s) (coin s) v (xi s) (m1 s) (m2 s) (picked s).

Definition await2 (a b x y : nat) : bool := Nat.eqb a x && Nat.eqb b y.

Definition step (s : state) (e : event) : outcome :=
  match e with
  | ECov a b =>
      if negb (inSet a && inSet b) then BadEvent else
      match cov s with
      | L1 => if await2 a b 1 1 then Ok (set_cov s L2) else Disabled
      | L2 => if await2 a b 1 2 then Ok (set_cov s L3) else Disabled
      | L3 => if await2 a b 2 1 then Ok (set_cov s L4) else Disabled
      | L4 => if await2 a b 2 2 then Ok (set_cov s CDone) else Disabled
      | CDone => Finished
      end
  | ECoin a b a' b' =>
      match coin s with
      | KLbl =>
          if negb (inSet a && inSet b) then BadEvent
          else if negb (await2 a b 1 1) then Disabled
          else if negb (inSet a' && inSet b') then BadEvent
          else if await2 a' b' 2 2 then Ok (set_coin s KDone) else Disabled
      | KDone => Finished
      end
  | ECx a =>
      match cx s with
      | XLoop =>
          if Nat.ltb (xi s) LIMIT then Ok (set_cx s XLbl1)
          else if m1 s && m2 s then Ok (set_cx s XDone) else AssertFail
      | XLbl1 =>
          if negb (inSet a) then BadEvent
          else Ok (mkState (cov s) (coin s) XLbl2 (xi s) (m1 s || Nat.eqb a 1) (m2 s || Nat.eqb a 2) (picked s ++ [a]))
      | XLbl2 => Ok (mkState (cov s) (coin s) XLoop (xi s + 1) (m1 s) (m2 s) (picked s))
      | XDone => Finished
      end
  end.

Definition next (s : state) (e : event) : state := match step s e with Ok s' => s' | _ => s end.
Definition run (s : state) (evs : list event) : state := fold_left next evs s.
Definition exec (evs : list event) : state := run init evs.

(* ------------------------------------------------------------------ correspondence check *)
Definition out_code (o : outcome) : nat :=
  match o with Ok _ => 0 | Disabled => 1 | Finished => 2 | AssertFail => 3 | BadEvent => 5 end.
Definition cpc_n (x : cpc) : nat := match x with L1 => 1 | L2 => 2 | L3 => 3 | L4 => 4 | CDone => 0 end.
Definition kpc_n (x : kpc) : nat := match x with KLbl => 1 | KDone => 0 end.
Definition xpc_n (x : xpc) : nat := match x with XLoop => 1 | XLbl1 => 2 | XLbl2 => 3 | XDone => 0 end.
(* observation: pcs, i (None while the local is still unwritten: it then has its initial value 0), mark as two flags *)
Record obs := mkObs { o_cov : nat; o_coin : nat; o_cx : nat; o_i : nat; o_m1 : bool; o_m2 : bool }.
Definition state_matches (s : state) (o : obs) : bool :=
  Nat.eqb (cpc_n (cov s)) (o_cov o) && Nat.eqb (kpc_n (coin s)) (o_coin o) && Nat.eqb (xpc_n (cx s)) (o_cx o) &&
  Nat.eqb (xi s) (o_i o) && Bool.eqb (m1 s) (o_m1 o) && Bool.eqb (m2 s) (o_m2 o).
Definition srec := (event * (nat * option obs))%type.
Fixpoint first_mismatch (s : state) (i : nat) (steps : list srec) : option nat :=
  match steps with
  | [] => None
  | (e, (code, oo)) :: rest =>
      let out := step s e in
      let s' := match out with Ok s' => s' | _ => s end in
      if Nat.eqb (out_code out) code &&
         match oo with Some o => state_matches s' o | None => match out with Ok _ => false | _ => true end end
      then first_mismatch s' (S i) rest else Some i
  end.
Definition walk := (nat * list srec)%type.
Definition first_mismatch_walk (w : walk) : option nat := first_mismatch init 0 (snd w).
Definition walk_ok (w : walk) : bool := match first_mismatch_walk w with None => true | Some _ => false end.
Fixpoint mismatches_from (i : nat) (ws : list walk) : list nat :=
  match ws with [] => [] | w :: rest => let m := mismatches_from (S i) rest in if walk_ok w then m else i :: m end.

(* ------------------------------------------------------------------ proofs *)
Local Arguments Nat.eqb : simpl never.
Local Arguments Nat.ltb : simpl never.
Local Opaque LIMIT.

Inductive reachable : state -> Prop :=
| r_init : reachable init
| r_step : forall s e s', reachable s -> step s e = Ok s' -> reachable s'.

Lemma run_reachable : forall evs s, reachable s -> reachable (run s evs).
Proof.
  induction evs as [|e evs IH]; intros s R; simpl; [exact R|]. apply IH. unfold next.
  destruct (step s e) eqn:E; try exact R. eapply r_step; eauto.
Qed.
Lemma exec_reachable : forall evs, reachable (exec evs).
Proof. intros. apply run_reachable. constructor. Qed.

Record Inv (s : state) : Prop := mkInv {
  i_len : List.length (picked s) = xi s + match cx s with XLbl2 => 1 | _ => 0 end;
  i_le : xi s <= LIMIT /\ (match cx s with XLbl1 | XLbl2 => xi s < LIMIT | _ => True end);
  i_set : forall a, In a (picked s) -> a = 1 \/ a = 2;
  i_m1 : m1 s = true <-> In 1 (picked s);
  i_m2 : m2 s = true <-> In 2 (picked s)
}.

Lemma inv_init : Inv init.
Proof.
  constructor; simpl; try reflexivity; try tauto.
  - split; [lia|exact I].
  - split; [discriminate|tauto].
  - split; [discriminate|tauto].
Qed.

Lemma inSet_spec : forall a, inSet a = true <-> a = 1 \/ a = 2.
Proof.
  intros a. unfold inSet. rewrite orb_true_iff, !Nat.eqb_eq. tauto.
Qed.

Lemma inv_step : forall s e s', Inv s -> step s e = Ok s' -> Inv s'.
Proof.
  intros s e s' [Hl Hle Hs H1 H2] H. destruct e as [a b|a b a' b'|a]; simpl in H.
  - destruct (negb _); [discriminate|].
    destruct (cov s); try discriminate; destruct (await2 _ _ _ _); try discriminate; injection H as <-; constructor; simpl; auto.
  - destruct (coin s); [|discriminate]. destruct (negb _); [discriminate|]. destruct (negb _); [discriminate|].
    destruct (negb _); [discriminate|]. destruct (await2 _ _ _ _); [|discriminate]. injection H as <-. constructor; simpl; auto.
  - destruct (cx s) eqn:Hpc.
    + destruct (Nat.ltb (xi s) LIMIT) eqn:Hlt.
      * injection H as <-. apply Nat.ltb_lt in Hlt. constructor; simpl; auto; try (split; [apply Hle|exact Hlt]).
      * destruct (m1 s && m2 s); [|discriminate]. injection H as <-. constructor; simpl; auto; try (split; [apply Hle|exact I]).
    + destruct (negb (inSet a)) eqn:Ha; [discriminate|]. apply negb_false_iff, inSet_spec in Ha. injection H as <-.
      constructor; simpl.
      * rewrite app_length. simpl. lia.
      * exact Hle.
      * intros x Hx. apply in_app_or in Hx. destruct Hx as [Hx|[<-|[]]]; auto.
      * rewrite orb_true_iff, Nat.eqb_eq, in_app_iff, H1. simpl. split; [intros [?|?]; auto|intros [?|[?|[]]]; auto].
      * rewrite orb_true_iff, Nat.eqb_eq, in_app_iff, H2. simpl. split; [intros [?|?]; auto|intros [?|[?|[]]]; auto].
    + injection H as <-. constructor; simpl; auto; [lia|]. split; [lia|exact I].
    + discriminate.
Qed.

Lemma inv_reachable : forall s, reachable s -> Inv s.
Proof. intros s R. induction R; [apply inv_init|eapply inv_step; eauto]. Qed.

Lemma all_other : forall (l : list nat) (b c : nat), (forall a, In a l -> a = b \/ a = c) -> ~ In c l -> l = repeat b (List.length l).
Proof.
  induction l as [|x l IH]; intros b c Hs Hn; [reflexivity|]. simpl.
  destruct (Hs x (or_introl eq_refl)) as [->| ->]; [|exfalso; apply Hn; left; reflexivity].
  f_equal. apply (IH b c); [intros a Ha; apply Hs; right; exact Ha|intros Hc; apply Hn; right; exact Hc].
Qed.

(* the assertion fails exactly when AComplex is back at `loop` having chosen the SAME element all LIMIT times *)
Lemma assert_iff_lemma : forall s e, reachable s ->
  (step s e = AssertFail <->
   (exists a, e = ECx a) /\ cx s = XLoop /\ exists b, (b = 1 \/ b = 2) /\ picked s = repeat b LIMIT).
Proof.
  intros s e R. destruct (inv_reachable s R) as [Hl Hle Hs H1 H2]. split.
  - intros H. destruct e as [a b|a b a' b'|a]; simpl in H.
    + destruct (negb _); [discriminate|]. destruct (cov s); try discriminate; destruct (await2 _ _ _ _); discriminate.
    + destruct (coin s); [|discriminate]. destruct (negb _); [discriminate|]. destruct (negb _); [discriminate|].
      destruct (negb _); [discriminate|]. destruct (await2 _ _ _ _); discriminate.
    + destruct (cx s) eqn:Hpc; try discriminate.
      * destruct (Nat.ltb (xi s) LIMIT) eqn:Hlt; [discriminate|]. apply Nat.ltb_ge in Hlt.
        destruct (m1 s) eqn:E1; [destruct (m2 s) eqn:E2; [discriminate|]|].
        -- split; [eauto|]. split; [reflexivity|]. exists 1. split; [auto|].
           assert (Hn : ~ In 2 (picked s)) by (intros Hc; apply H2 in Hc; discriminate).
           rewrite (all_other (picked s) 1 2 Hs Hn) at 1. f_equal. rewrite Hl. lia.
        -- split; [eauto|]. split; [reflexivity|]. exists 2. split; [auto|].
           assert (Hn : ~ In 1 (picked s)) by (intros Hc; apply H1 in Hc; discriminate).
           rewrite (all_other (picked s) 2 1) at 1; [f_equal; rewrite Hl; lia|intros a0 Ha; destruct (Hs a0 Ha); auto|exact Hn].
      * destruct (negb (inSet a)); discriminate.
  - intros ([a ->] & Hpc & b & Hb & Hp). simpl. rewrite Hpc.
    assert (Hi : xi s = LIMIT) by (rewrite Hpc in Hl; rewrite Hp, repeat_length in Hl; lia).
    destruct (Nat.ltb (xi s) LIMIT) eqn:Hlt; [apply Nat.ltb_lt in Hlt; lia|].
    assert (Hin : forall c, In c (picked s) -> c = b) by (intros c Hc; rewrite Hp in Hc; apply repeat_spec in Hc; exact Hc).
    destruct Hb as [-> | ->].
    + destruct (m2 s) eqn:E2; [|rewrite andb_false_r; reflexivity]. pose proof (proj1 H2 eq_refl) as Hc. apply Hin in Hc. discriminate.
    + destruct (m1 s) eqn:E1; [|reflexivity]. pose proof (proj1 H1 eq_refl) as Hc. apply Hin in Hc. discriminate.
Qed.

Transparent LIMIT.
Definition all_same_witness : list event := concat (repeat [ECx 0; ECx 1; ECx 0] 20).
Lemma assert_reachable_lemma : step (exec all_same_witness) (ECx 0) = AssertFail.
Proof. vm_compute. reflexivity. Qed.

Lemma other_archetypes_assertion_free : forall s e, reachable s -> (forall a, e <> ECx a) -> step s e <> AssertFail.
Proof.
  intros s e R Hne H. apply (assert_iff_lemma s e R) in H. destruct H as [[a ->] _]. exact (Hne a eq_refl).
Qed.

Definition finishing_run : list event :=
  [ECov 1 1; ECov 1 2; ECov 2 1; ECov 2 2; ECoin 1 1 2 2] ++
  concat (repeat [ECx 0; ECx 1; ECx 0] 10) ++ concat (repeat [ECx 0; ECx 2; ECx 0] 10) ++ [ECx 0].
