(* C16 / shopcart — in the system the spec instantiates (every node adds its own fresh elements, nobody removes)
   the state of a replica is a function of what it knows: StrongConvergence, QueryOK, equal knowledge => equal
   query, counters never decrease, remove maps stay Null, no ill-typed step. *)
From PGV Require Import C16.Shopcart.
From Coq Require Import Lia.
Local Arguments Nat.eqb : simpl never.
Local Arguments Nat.leb : simpl never.
Local Arguments Nat.ltb : simpl never.
Local Arguments Nat.modulo : simpl never.
Local Arguments Nat.div : simpl never.

Definition b2n (b : bool) : nat := if b then 1 else 0.

Section WithConfig.
Variable g : config.

Definition owner (e : nat) : nat := e mod N g + 1.
Definition round_of (e : nat) : nat := e / N g.

(* the element has been added by its owner *)
Definition issued (s : state) (e : nat) : Prop :=
  round_of e < rnd s (owner e) \/ (round_of e = rnd s (owner e) /\ pc s (owner e) = NWait).

Record Inv (s : state) : Prop := mkInv {
  i_know : forall i e n, addm s i e n = b2n (know s i e && Nat.eqb n (owner e));
  i_rem : forall i e n, remm s i e n = 0;
  i_fresh : forall i e, know s i e = true -> issued s e;
  i_round : forall p, pc s p = NAdd -> rnd s p < R g
}.

Lemma inv_init : Inv init.
Proof. constructor; simpl; intros; auto; discriminate. Qed.

Lemma owner_getval : forall p r, 1 <= p <= N g -> owner (GetVal g p r) = p /\ round_of (GetVal g p r) = r.
Proof.
  intros p r Hp. unfold owner, round_of, GetVal.
  assert (HN : N g <> 0) by lia.
  replace (r * N g + (p - 1)) with ((p - 1) + r * N g) by lia.
  rewrite Nat.mod_add, Nat.div_add by exact HN.
  rewrite Nat.mod_small, Nat.div_small by lia. split; lia.
Qed.

Lemma owner_range : forall e, N g >= 1 -> 1 <= owner e <= N g.
Proof. intros e H. unfold owner. pose proof (Nat.mod_upper_bound e (N g) ltac:(lia)). lia. Qed.

Lemma forallb_ext : forall (A : Type) (f h : A -> bool) (l : list A), (forall x, f x = h x) -> forallb f l = forallb h l.
Proof. intros A f h l H. induction l as [|x l IH]; simpl; [reflexivity|]. rewrite H, IH. reflexivity. Qed.

Lemma non_null_zero : forall v, (forall n, v n = 0) -> non_null g v = false.
Proof.
  intros v H. unfold non_null. induction (nodes g) as [|x l IH]; simpl; [reflexivity|].
  rewrite H, IH. reflexivity.
Qed.

(* with remk = Null, CompareVectorClock(addk, remk) holds only if addk is Null on NodeSet; addk is zero outside
   its owner's component, so either way the merged add map is the pointwise maximum *)
Lemma compare_zero : forall (v : nat -> nat) o, 1 <= o <= N g ->
  (forall n, n <> o -> v n = 0) ->
  forall n, (if compare g v (fun _ => 0) then null else v) n = v n.
Proof.
  intros v o Ho Hv n. destruct (compare g v (fun _ => 0)) eqn:C; [|reflexivity].
  unfold null. unfold compare in C. rewrite forallb_forall in C.
  destruct (Nat.eq_dec n o) as [->|Hne]; [|symmetry; apply Hv; exact Hne].
  specialize (C o). assert (Hin : In o (nodes g)) by (unfold nodes; apply in_seq; lia).
  specialize (C Hin). apply Nat.leb_le in C. lia.
Qed.

Lemma step_inv : forall s e s', Inv s -> step g s e = Ok s' -> Inv s'.
Proof.
  intros s ev s' [Ik Ir If Ird] H. destruct ev as [p|i1 oi2]; simpl in H.
  - destruct (in_range g p) eqn:Hr; [|discriminate].
    assert (Hp : 1 <= p <= N g).
    { unfold in_range in Hr. apply andb_prop in Hr. destruct Hr as [A B]. apply Nat.leb_le in A. apply Nat.leb_le in B. lia. }
    unfold node_step in H. destruct (pc s p) eqn:Hpc.
    + (* nodeBenchLoop *)
      destruct (Nat.ltb_spec (rnd s p) (R g)); injection H as <-; constructor; simpl; auto.
      * intros i e Hk. unfold issued. simpl. unfold upd. destruct (If i e Hk) as [A|[A B]]; [left; exact A|right; split; [exact A|]].
        destruct (Nat.eqb_spec (owner e) p) as [E|]; [rewrite E in B; congruence|exact B].
      * intros q. unfold upd. destruct (Nat.eqb_spec q p) as [->|]; [intros _; assumption|apply Ird].
      * intros i e Hk. unfold issued. simpl. unfold upd. destruct (If i e Hk) as [A|[A B]]; [left; exact A|right; split; [exact A|]].
        destruct (Nat.eqb_spec (owner e) p) as [E|]; [rewrite E in B; congruence|exact B].
      * intros q. unfold upd. destruct (Nat.eqb_spec q p) as [->|]; [discriminate|apply Ird].
    + (* add *)
      set (e := GetVal g p (rnd s p)) in *.
      destruct (owner_getval p (rnd s p) Hp) as [Ho Hrd]. fold e in Ho, Hrd.
      destruct (negb (Nat.ltb e (E g))); [discriminate|].
      assert (Hnk : forall i, know s i e = false).
      { intros i. destruct (know s i e) eqn:K; [|reflexivity]. exfalso.
        destruct (If i e K) as [A|[A B]]; rewrite Ho, Hrd in *; [lia|congruence]. }
      assert (Ha0 : forall n, addm s p e n = 0) by (intros n; rewrite Ik, Hnk; reflexivity).
      rewrite (non_null_zero (addm s p e) Ha0) in H.
      rewrite (non_null_zero (remm s p e)) in H by (intros n; apply Ir).
      injection H as <-. constructor; simpl.
      * intros i e' n. unfold upd. destruct (Nat.eqb_spec i p) as [->|]; [|apply Ik].
        destruct (Nat.eqb_spec e' e) as [->|]; [|apply Ik].
        rewrite Ho. simpl. destruct (Nat.eqb_spec n p) as [->|]; [reflexivity|]. rewrite Ha0. reflexivity.
      * intros i e' n. unfold upd. destruct (Nat.eqb_spec i p); apply Ir.
      * intros i e'. unfold upd. destruct (Nat.eqb_spec i p) as [->|].
        -- destruct (Nat.eqb_spec e' e) as [->|].
           ++ intros _. right. simpl. unfold upd. rewrite Ho, Hrd, Nat.eqb_refl. split; reflexivity.
           ++ intros Hk. unfold issued. simpl. unfold upd. destruct (If p e' Hk) as [A|[A B]]; [left; exact A|right; split; [exact A|]].
              destruct (Nat.eqb_spec (owner e') p) as [E0|]; [reflexivity|exact B].
        -- intros Hk. unfold issued. simpl. unfold upd. destruct (If i e' Hk) as [A|[A B]]; [left; exact A|right; split; [exact A|]].
           destruct (Nat.eqb_spec (owner e') p) as [E0|]; [reflexivity|exact B].
      * intros q. unfold upd. destruct (Nat.eqb_spec q p) as [->|]; [discriminate|apply Ird].
    + (* waitAdd *)
      destruct (isOKSet g (query g s p) (rnd s p)); [|discriminate]. injection H as <-. constructor; simpl; auto.
      * intros i e Hk. unfold issued. simpl. unfold upd.
        destruct (If i e Hk) as [A|[A B]]; destruct (Nat.eqb_spec (owner e) p) as [E0|]; try rewrite E0 in *; try (left; lia).
        right. split; [exact A|exact B].
      * intros q. unfold upd. destruct (Nat.eqb_spec q p) as [->|]; [discriminate|apply Ird].
    + discriminate.
  - unfold merge_step in H. destruct (in_range g i1) eqn:Hr1; simpl in H; [|discriminate].
    assert (HN : N g >= 1).
    { unfold in_range in Hr1. apply andb_prop in Hr1. destruct Hr1 as [A B]. apply Nat.leb_le in A. apply Nat.leb_le in B. lia. }
    destruct (negb (existsb _ _)); [discriminate|]. destruct oi2 as [i2|]; [|discriminate].
    destruct (in_range g i2 && differs g s i2 i1); [|discriminate]. injection H as <-.
    assert (Hmax : forall e n, Nat.max (addm s i1 e n) (addm s i2 e n) = b2n ((know s i1 e || know s i2 e) && Nat.eqb n (owner e))).
    { intros e n. rewrite !Ik. destruct (know s i1 e), (know s i2 e), (Nat.eqb n (owner e)); reflexivity. }
    assert (Hrem : forall e, (fun n => Nat.max (remm s i1 e n) (remm s i2 e n)) = (fun _ => 0) \/ True) by (intros; right; exact I).
    assert (Hadd0 : forall e n,
      (if compare g (fun n0 => Nat.max (addm s i1 e n0) (addm s i2 e n0)) (fun n0 => Nat.max (remm s i1 e n0) (remm s i2 e n0))
       then null else (fun n0 => Nat.max (addm s i1 e n0) (addm s i2 e n0))) n
      = b2n ((know s i1 e || know s i2 e) && Nat.eqb n (owner e))).
    { intros e n. rewrite <- Hmax.
      assert (Ec : compare g (fun n0 => Nat.max (addm s i1 e n0) (addm s i2 e n0)) (fun n0 => Nat.max (remm s i1 e n0) (remm s i2 e n0))
                   = compare g (fun n0 => Nat.max (addm s i1 e n0) (addm s i2 e n0)) (fun _ => 0)).
      { unfold compare. apply forallb_ext. intros n0. rewrite !Ir. reflexivity. }
      rewrite Ec.
      assert (Hz : forall n0, n0 <> owner e -> (fun n1 => Nat.max (addm s i1 e n1) (addm s i2 e n1)) n0 = 0).
      { intros n0 Hne. cbv beta. rewrite Hmax. destruct (Nat.eqb_spec n0 (owner e)); [congruence|]. rewrite andb_false_r. reflexivity. }
      exact (compare_zero (fun n1 => Nat.max (addm s i1 e n1) (addm s i2 e n1)) (owner e) (owner_range e HN) Hz n). }
    constructor; simpl.
    + intros i e n. unfold upd. destruct (Nat.eqb i i2); [apply Hadd0|]. destruct (Nat.eqb i i1); [apply Hadd0|apply Ik].
    + intros i e n.
      assert (Z : (if compare g (fun n0 => Nat.max (addm s i1 e n0) (addm s i2 e n0)) (fun n0 => Nat.max (remm s i1 e n0) (remm s i2 e n0))
                   then (fun n0 => Nat.max (remm s i1 e n0) (remm s i2 e n0)) else null) n = 0).
      { destruct (compare g _ _); [rewrite !Ir; reflexivity|reflexivity]. }
      unfold upd. destruct (Nat.eqb i i2); [exact Z|]. destruct (Nat.eqb i i1); [exact Z|apply Ir].
    + intros i e. unfold upd.
      assert (U : know s i1 e || know s i2 e = true -> issued s e).
      { intros Hk. apply orb_prop in Hk. destruct Hk as [Hk|Hk]; eapply If; eauto. }
      destruct (Nat.eqb i i2); [exact U|]. destruct (Nat.eqb i i1); [exact U|apply If].
    + exact Ird.
Qed.

Inductive reachable : state -> Prop :=
| R_init : reachable init
| R_step : forall s e s', reachable s -> step g s e = Ok s' -> reachable s'.

Lemma run_reachable : forall evs s, reachable s -> reachable (run g s evs).
Proof.
  intros evs. induction evs as [|e evs IH]; intros s H; simpl; [exact H|].
  apply IH. unfold next. destruct (step g s e) eqn:E; try exact H. eapply R_step; eauto.
Qed.
Lemma exec_reachable : forall evs, reachable (exec g evs).
Proof. intros. apply run_reachable. constructor. Qed.
Lemma inv_reachable : forall s, reachable s -> Inv s.
Proof. intros s H. induction H; [apply inv_init|eapply step_inv; eauto]. Qed.

(* StrongConvergence == \A i, j \in NodeSet: (c[i] = c[j]) => (crdt[i] = crdt[j]) *)
Lemma strong_convergence_lemma : forall s, reachable s -> forall i j,
  (forall e, know s i e = know s j e) ->
  forall e n, addm s i e n = addm s j e n /\ remm s i e n = remm s j e n.
Proof.
  intros s Rs i j H e n. pose proof (inv_reachable s Rs) as [Ik Ir _ _]. rewrite !Ik, !Ir, H. split; reflexivity.
Qed.

(* QueryOK == \A n1, n2 : crdt[n1] = crdt[n2] => Query(crdt[n1]) = Query(crdt[n2])  (holds in every state) *)
Lemma query_ok_lemma : forall s i j,
  (forall e n, addm s i e n = addm s j e n /\ remm s i e n = remm s j e n) -> query g s i = query g s j.
Proof.
  intros s i j H. unfold query. apply filter_ext. intros e. f_equal. unfold compare. apply forallb_ext.
  intros n. destruct (H e n) as [A B]. rewrite A, B. reflexivity.
Qed.

Lemma equal_knowledge_equal_query_lemma : forall s, reachable s -> forall i j,
  (forall e, know s i e = know s j e) -> query g s i = query g s j.
Proof. intros s Rs i j H. apply query_ok_lemma. apply (strong_convergence_lemma s Rs i j H). Qed.

Lemma rem_null_lemma : forall s, reachable s -> forall i e n, remm s i e n = 0.
Proof. intros s Rs. exact (i_rem _ (inv_reachable s Rs)). Qed.

(* counters never decrease *)
Lemma step_monotone : forall s, reachable s -> forall ev i e n, addm s i e n <= addm (next g s ev) i e n.
Proof.
  intros s Rs ev i e n. unfold next. destruct (step g s ev) eqn:H; try lia.
  pose proof (inv_reachable s Rs) as I0. pose proof (step_inv s ev s0 I0 H) as I1.
  rewrite (i_know _ I0), (i_know _ I1).
  assert (Hk : know s i e = true -> know s0 i e = true).
  { intros K. destruct ev as [p|i1 oi2]; simpl in H.
    - destruct (in_range g p); [|discriminate]. unfold node_step in H. destruct (pc s p); try discriminate.
      + destruct (Nat.ltb (rnd s p) (R g)); injection H as <-; exact K.
      + destruct (negb (Nat.ltb (GetVal g p (rnd s p)) (E g))); [discriminate|].
        destruct (non_null g (addm s p (GetVal g p (rnd s p)))); [|destruct (non_null g (remm s p (GetVal g p (rnd s p))))];
          injection H as <-; simpl; unfold upd; destruct (Nat.eqb i p) eqn:E1; try exact K;
          apply Nat.eqb_eq in E1; subst i; destruct (Nat.eqb e (GetVal g p (rnd s p))); [reflexivity|exact K|reflexivity|exact K|reflexivity|exact K].
      + destruct (isOKSet g (query g s p) (rnd s p)); [|discriminate]. injection H as <-. exact K.
    - unfold merge_step in H. destruct (negb (in_range g i1)); [discriminate|].
      destruct (negb (existsb _ _)); [discriminate|]. destruct oi2 as [i2|]; [|discriminate].
      destruct (in_range g i2 && differs g s i2 i1); [|discriminate]. injection H as <-. simpl. unfold upd.
      destruct (Nat.eqb_spec i i2) as [->|]; [rewrite K; apply orb_true_r|].
      destruct (Nat.eqb_spec i i1) as [->|]; [rewrite K; reflexivity|exact K]. }
  destruct (know s i e); [rewrite (Hk eq_refl); lia|simpl; lia].
Qed.

Lemma monotone_lemma : forall evs s, reachable s -> forall i e n, addm s i e n <= addm (run g s evs) i e n.
Proof.
  intros evs. induction evs as [|ev evs IH]; intros s Rs i e n; simpl; [lia|].
  pose proof (step_monotone s Rs ev i e n).
  assert (Rn : reachable (next g s ev)).
  { unfold next. destruct (step g s ev) eqn:E0; try exact Rs. eapply R_step; eauto. }
  specialize (IH (next g s ev) Rn i e n). lia.
Qed.

(* no ill-typed step (addMap[elem] outside ElemSet) when ElemSet covers the elements the nodes add, and no assertion *)
Lemma safe_lemma : forall s ev, reachable s -> E g >= N g * R g ->
  step g s ev <> TypeError /\ step g s ev <> AssertFail.
Proof.
  intros s ev Rs HE. pose proof (inv_reachable s Rs) as I0. destruct ev as [p|i1 oi2]; simpl.
  - destruct (in_range g p) eqn:Hr; [|split; discriminate].
    assert (Hp : 1 <= p <= N g).
    { unfold in_range in Hr. apply andb_prop in Hr. destruct Hr as [A B]. apply Nat.leb_le in A. apply Nat.leb_le in B. lia. }
    unfold node_step. destruct (pc s p) eqn:Hpc; try (split; discriminate).
    + destruct (Nat.ltb (rnd s p) (R g)); split; discriminate.
    + pose proof (i_round _ I0 p Hpc) as Hrd.
      assert (Hlt : GetVal g p (rnd s p) < E g).
      { unfold GetVal. assert (rnd s p * N g + N g <= R g * N g) by (replace (rnd s p * N g + N g) with ((rnd s p + 1) * N g) by lia; apply Nat.mul_le_mono_r; lia). lia. }
      destruct (Nat.ltb_spec (GetVal g p (rnd s p)) (E g)); [|lia]. simpl.
      destruct (non_null g _); [|destruct (non_null g _)]; split; discriminate.
    + destruct (isOKSet g (query g s p) (rnd s p)); split; discriminate.
  - unfold merge_step. destruct (negb (in_range g i1)); [split; discriminate|].
    destruct (negb (existsb _ _)); [split; discriminate|]. destruct oi2; [|split; discriminate].
    destruct (in_range g n && differs g s n i1); split; discriminate.
Qed.
End WithConfig.

(* the checker's re-tabulation is the identity on the tabulated range *)
Lemma tab1_agrees : forall (A : Type) (d : A) n (f : nat -> A) i, i < n -> tab1 d n f i = f i.
Proof.
  intros A d n f i H. unfold tab1. rewrite (nth_indep _ d (f 0)) by (rewrite map_length, seq_length; exact H).
  rewrite (map_nth f (seq 0 n) 0). rewrite seq_nth by exact H. reflexivity.
Qed.

Lemma freeze_agrees : forall g s i e n, i <= N g -> e < E g -> n <= N g ->
  addm (freeze g s) i e n = addm s i e n /\ remm (freeze g s) i e n = remm s i e n /\
  know (freeze g s) i e = know s i e /\ rnd (freeze g s) i = rnd s i /\ pc (freeze g s) i = pc s i.
Proof.
  intros g s i e n Hi He Hn. unfold freeze. simpl.
  repeat split; repeat (rewrite tab1_agrees by lia); reflexivity.
Qed.
