(* C16 / loadbalancer — executable model of systems/loadbalancer/load_balancer.tla (the PlusCal
   translation of the MPCal block), label by label. Model only.

   Nodes: 0 = load balancer (LoadBalancerId), 1..NS servers, NS+1..NS+NC clients; B = BUFFER_SIZE.
   network[i] is a FIFO sequence with TCPChannel (read: await Len > 0, Head/Tail; write: await Len < B, Append).
   Messages: Req ty c path = [message_type |-> ty, client_id |-> c, path |-> path];
             Fwd id c path = [message_id |-> id, client_id |-> c, path |-> path]; Page = WEB_PAGE.
   GET_PAGE is the number 1, `in` = 0 (never written), file_system is read through WebPages (always WEB_PAGE).

   Ghost (never read by a visible component): loc c = where client c's outstanding request currently is,
   nreq c = number of requests c has issued, answered = (client, request number, server) for every page sent. *)
From Coq Require Export List Arith Bool.
Export ListNotations.

Inductive msg := Req (ty c path : nat) | Fwd (id c path : nat) | Page.

Definition GET_PAGE := 1.

Inductive lpc := LMain | LRcv | LSend.
Inductive spc := SLoop | SRcv | SSend.
Inductive cpc := CLoop | CReq | CRcv.

Inductive location := Idle | InLBQ | InLBHeld | InSrvQ (j : nat) | InSrvHeld (j : nat) | InReply.

Record state := mkState {
  net : nat -> list msg;
  out_ : option msg;             (* out; `0` initially is modelled as None *)
  lmsg : option msg;
  lnext : nat;
  lpc_ : lpc;
  smsg : nat -> option msg;
  spc_ : nat -> spc;
  creq : nat -> option msg;
  cresp : nat -> option msg;
  cpc_ : nat -> cpc;
  loc : nat -> location;         (* ghost *)
  nreq : nat -> nat;             (* ghost *)
  answered : list (nat * nat * nat)  (* ghost *)
}.

Definition upd {A} (f : nat -> A) (k : nat) (v : A) : nat -> A :=
  fun x => if Nat.eqb x k then v else f x.

Definition init : state :=
  mkState (fun _ => []) None None 0 LMain (fun _ => None) (fun _ => SLoop)
          (fun _ => None) (fun _ => None) (fun _ => CLoop) (fun _ => Idle) (fun _ => 0) [].

Inductive outcome := Ok (s : state) | Disabled | AssertFail | TypeError | BadEvent.

(* msg.client_id / msg.path for a record that has these fields *)
Definition client_of (m : msg) : option nat :=
  match m with Req _ c _ => Some c | Fwd _ c _ => Some c | Page => None end.
Definition path_of (m : msg) : option nat :=
  match m with Req _ _ p => Some p | Fwd _ _ p => Some p | Page => None end.

Definition set_net (s : state) (n : nat -> list msg) : state :=
  mkState n (out_ s) (lmsg s) (lnext s) (lpc_ s) (smsg s) (spc_ s) (creq s) (cresp s) (cpc_ s) (loc s) (nreq s) (answered s).

Definition lb_step (NS NC B : nat) (s : state) : outcome :=
  match lpc_ s with
  | LMain => Ok (mkState (net s) (out_ s) (lmsg s) (lnext s) LRcv (smsg s) (spc_ s) (creq s) (cresp s) (cpc_ s)
                         (loc s) (nreq s) (answered s))
  | LRcv =>
      match net s 0 with
      | [] => Disabled
      | m :: rest =>
          match m with
          | Req ty c _ =>
              if Nat.eqb ty GET_PAGE
              then Ok (mkState (upd (net s) 0 rest) (out_ s) (Some m) (lnext s) LSend (smsg s) (spc_ s)
                               (creq s) (cresp s) (cpc_ s) (upd (loc s) c InLBHeld) (nreq s) (answered s))
              else AssertFail                                  (* assert msg.message_type = GET_PAGE *)
          | _ => TypeError                                     (* no field message_type *)
          end
      end
  | LSend =>
      match NS with
      | 0 => TypeError                                         (* next % 0 *)
      | _ =>
        let nx := (lnext s) mod NS + 1 in
        match lmsg s with
        | Some m =>
            match client_of m, path_of m with
            | Some c, Some p =>
                if Nat.ltb (List.length (net s nx)) B
                then Ok (mkState (upd (net s) nx (net s nx ++ [Fwd nx c p])) (out_ s) (lmsg s) nx LMain (smsg s)
                                 (spc_ s) (creq s) (cresp s) (cpc_ s) (upd (loc s) c (InSrvQ nx)) (nreq s) (answered s))
                else Disabled
            | _, _ => TypeError
            end
        | None => TypeError
        end
      end
  end.

Definition server_step (NS NC B : nat) (s : state) (j : nat) : outcome :=
  match spc_ s j with
  | SLoop => Ok (mkState (net s) (out_ s) (lmsg s) (lnext s) (lpc_ s) (smsg s) (upd (spc_ s) j SRcv)
                         (creq s) (cresp s) (cpc_ s) (loc s) (nreq s) (answered s))
  | SRcv =>
      match net s j with
      | [] => Disabled
      | m :: rest =>
          Ok (mkState (upd (net s) j rest) (out_ s) (lmsg s) (lnext s) (lpc_ s) (upd (smsg s) j (Some m))
                      (upd (spc_ s) j SSend) (creq s) (cresp s) (cpc_ s)
                      (match client_of m with Some c => upd (loc s) c (InSrvHeld j) | None => loc s end)
                      (nreq s) (answered s))
      end
  | SSend =>
      match smsg s j with
      | Some m =>
          match client_of m, path_of m with
          | Some c, Some _ =>
              if negb (Nat.leb c (NS + NC)) then TypeError       (* client_id outside DOMAIN network *)
              else if Nat.ltb (List.length (net s c)) B
              then Ok (mkState (upd (net s) c (net s c ++ [Page])) (out_ s) (lmsg s) (lnext s) (lpc_ s) (smsg s)
                               (upd (spc_ s) j SLoop) (creq s) (cresp s) (cpc_ s)
                               (upd (loc s) c InReply) (nreq s) (answered s ++ [(c, nreq s c - 1, j)]))
              else Disabled
          | _, _ => TypeError
          end
      | None => TypeError
      end
  end.

Definition client_step (NS NC B : nat) (s : state) (c : nat) : outcome :=
  match cpc_ s c with
  | CLoop => Ok (mkState (net s) (out_ s) (lmsg s) (lnext s) (lpc_ s) (smsg s) (spc_ s)
                         (creq s) (cresp s) (upd (cpc_ s) c CReq) (loc s) (nreq s) (answered s))
  | CReq =>
      let r := Req GET_PAGE c 0 in
      if Nat.ltb (List.length (net s 0)) B
      then Ok (mkState (upd (net s) 0 (net s 0 ++ [r])) (out_ s) (lmsg s) (lnext s) (lpc_ s) (smsg s) (spc_ s)
                       (upd (creq s) c (Some r)) (cresp s) (upd (cpc_ s) c CRcv)
                       (upd (loc s) c InLBQ) (upd (nreq s) c (nreq s c + 1)) (answered s))
      else Disabled
  | CRcv =>
      match net s c with
      | [] => Disabled
      | m :: rest =>
          Ok (mkState (upd (net s) c rest) (Some m) (lmsg s) (lnext s) (lpc_ s) (smsg s) (spc_ s)
                      (creq s) (upd (cresp s) c (Some m)) (upd (cpc_ s) c CLoop)
                      (upd (loc s) c Idle) (nreq s) (answered s))
      end
  end.

(* event: which process runs its current label *)
Definition step (NS NC B : nat) (s : state) (p : nat) : outcome :=
  if Nat.eqb p 0 then lb_step NS NC B s
  else if Nat.leb p NS then server_step NS NC B s p
  else if Nat.leb p (NS + NC) then client_step NS NC B s p
  else BadEvent.

Definition next (NS NC B : nat) (s : state) (p : nat) : state :=
  match step NS NC B s p with Ok s' => s' | _ => s end.

Definition exec (NS NC B : nat) (evs : list nat) : state := fold_left (next NS NC B) evs init.

(* ------------------------------------------------------------------ correspondence check *)
Definition out_code (o : outcome) : nat :=
  match o with Ok _ => 0 | Disabled => 1 | AssertFail => 3 | TypeError => 4 | BadEvent => 5 end.

Record obs := mkObs {
  o_net : list (list msg);          (* nodes 0..NS+NC *)
  o_out : option msg;
  o_lmsg : option msg;
  o_lnext : nat;
  o_lpc : lpc;
  o_smsg : list (option msg);       (* servers 1..NS *)
  o_spc : list spc;
  o_creq : list (option msg);       (* clients NS+1..NS+NC *)
  o_cresp : list (option msg);
  o_cpc : list cpc
}.

Definition msg_eqb (a b : msg) : bool :=
  match a, b with
  | Req x y z, Req x' y' z' => Nat.eqb x x' && Nat.eqb y y' && Nat.eqb z z'
  | Fwd x y z, Fwd x' y' z' => Nat.eqb x x' && Nat.eqb y y' && Nat.eqb z z'
  | Page, Page => true
  | _, _ => false
  end.
Definition omsg_eqb (a b : option msg) : bool :=
  match a, b with None, None => true | Some x, Some y => msg_eqb x y | _, _ => false end.
Definition lpc_eqb (a b : lpc) := match a, b with LMain, LMain | LRcv, LRcv | LSend, LSend => true | _, _ => false end.
Definition spc_eqb (a b : spc) := match a, b with SLoop, SLoop | SRcv, SRcv | SSend, SSend => true | _, _ => false end.
Definition cpc_eqb (a b : cpc) := match a, b with CLoop, CLoop | CReq, CReq | CRcv, CRcv => true | _, _ => false end.

Fixpoint list_eqb {A} (eqb : A -> A -> bool) (a b : list A) : bool :=
  match a, b with
  | [], [] => true
  | x :: a', y :: b' => eqb x y && list_eqb eqb a' b'
  | _, _ => false
  end.

Definition state_matches (NS NC : nat) (s : state) (o : obs) : bool :=
  list_eqb (list_eqb msg_eqb) (map (net s) (seq 0 (S (NS + NC)))) (o_net o)
  && omsg_eqb (out_ s) (o_out o) && omsg_eqb (lmsg s) (o_lmsg o) && Nat.eqb (lnext s) (o_lnext o)
  && lpc_eqb (lpc_ s) (o_lpc o)
  && list_eqb omsg_eqb (map (smsg s) (seq 1 NS)) (o_smsg o)
  && list_eqb spc_eqb (map (spc_ s) (seq 1 NS)) (o_spc o)
  && list_eqb omsg_eqb (map (creq s) (seq (S NS) NC)) (o_creq o)
  && list_eqb omsg_eqb (map (cresp s) (seq (S NS) NC)) (o_cresp o)
  && list_eqb cpc_eqb (map (cpc_ s) (seq (S NS) NC)) (o_cpc o).

Definition srec := (nat * (nat * option obs))%type.

Fixpoint first_mismatch (NS NC B : nat) (s : state) (i : nat) (steps : list srec) : option nat :=
  match steps with
  | [] => None
  | (e, (code, oo)) :: rest =>
      let out := step NS NC B s e in
      let s' := match out with Ok s' => s' | _ => s end in
      if Nat.eqb (out_code out) code &&
         match oo with
         | Some o => state_matches NS NC s' o
         | None => match out with Ok _ => false | _ => true end
         end
      then first_mismatch NS NC B s' (S i) rest
      else Some i
  end.

(* a walk: (NUM_SERVERS, NUM_CLIENTS, BUFFER_SIZE, steps) *)
Definition walk := (nat * nat * nat * list srec)%type.
Definition first_mismatch_walk (w : walk) : option nat :=
  let '(ns, nc, b, steps) := w in first_mismatch ns nc b init 0 steps.
Definition walk_ok (w : walk) : bool := match first_mismatch_walk w with None => true | Some _ => false end.
Fixpoint mismatches_from (i : nat) (ws : list walk) : list nat :=
  match ws with
  | [] => []
  | w :: rest => let m := mismatches_from (S i) rest in if walk_ok w then m else i :: m
  end.
