(* C16 / replicatedkv — no assertion written in the specification fails:
     assert msg.client \in liveClients                      (AReplica.replicaGetRequest)
     assert firstPending.op = GET_MSG \/ ... = PUT_MSG       (AReplica.findMinClient)
     assert getResp.type = GET_RESPONSE                      (Get.getReply)
     assert putResp.type = PUT_RESPONSE                      (Put.putResponse)
   Part T: message kinds and routing (who gets which response). Part Q: a replica never sees a Get of a client it
   has already disconnected (queues are FIFO and a client stops issuing requests once its clock is -1). *)
From PGV Require Import C16.Rkv.
From Coq Require Import Lia.
Local Arguments Nat.eqb : simpl never.
Local Arguments Nat.leb : simpl never.
Local Arguments Nat.ltb : simpl never.

Inductive reachable (g : config) : state -> Prop :=
| R_init : reachable g (init g)
| R_step : forall s e s', reachable g s -> step g s e = Ok s' -> reachable g s'.

Lemma run_reachable : forall g evs s, reachable g s -> reachable g (run g s evs).
Proof.
  intros g evs. induction evs as [|e evs IH]; intros s H; simpl; [exact H|].
  apply IH. unfold next. destruct (step g s e) eqn:E; try exact H. eapply R_step; eauto.
Qed.
Lemma exec_reachable : forall g evs, reachable g (exec g evs).
Proof. intros. apply run_reachable. constructor. Qed.

Section WithConfig.
Variable g : config.

Definition isClient (c : nat) : Prop := NR g <= c < NR g + NC g.
Definition isGet (p : nat) : Prop := NR g <= p < NR g + NC g.
Definition isPut (p : nat) : Prop := NR g + NC g <= p < NR g + 2 * NC g.

Definition getput (m : rmsg) : Prop := match m with MGet _ _ _ _ | MPut _ _ _ _ _ => True | _ => False end.
Definition wfm (m : rmsg) : Prop :=
  match m with
  | MGet _ c _ rp => isClient c /\ isGet rp
  | MPut _ _ c _ rp => isClient c /\ isPut rp
  | _ => True
  end.

Record TInv (s : state) : Prop := mkT {
  t_net : forall r m, In m (repNet s r) -> wfm m;
  t_msg : forall r m, rmsg_ (rep s r) = Some m -> wfm m;
  t_pend : forall r c m, In m (pend (rep s r) c) -> wfm m /\ getput m;
  t_stable : forall r m, In m (stable (rep s r)) -> wfm m /\ getput m;
  t_put : forall p m, putReq (putc s p) = Some m -> isPut p -> exists k v c t, m = MPut k v c t p /\ isClient c;
  t_clk : forall p m, umsg (clk s p) = Some m -> exists c t, m = MNull c t;
  t_dis : forall p m, dmsg (disc s p) = Some m -> exists c, m = MDisc c;
  t_gbox : forall p m, isGet p -> In m (cliBox s p) -> exists r, m = RGet r;
  t_pbox : forall p m, isPut p -> In m (cliBox s p) -> m = RPut
}.

Lemma t_init : TInv (init g).
Proof. constructor; simpl; intros; try contradiction; try discriminate. Qed.

Ltac deq := repeat match goal with
  | |- context [Nat.eqb ?a ?b] => destruct (Nat.eqb_spec a b)
  | H : context [Nat.eqb ?a ?b] |- _ => destruct (Nat.eqb_spec a b)
  end.

(* rewriting a replica: everything else is untouched *)
Lemma t_rep_frame : forall s r l',
  TInv s ->
  (forall m, rmsg_ l' = Some m -> rmsg_ (rep s r) = Some m \/ wfm m) ->
  (forall c m, In m (pend l' c) -> In m (pend (rep s r) c) \/ (rmsg_ (rep s r) = Some m /\ getput m)) ->
  (forall m, In m (stable l') -> In m (stable (rep s r)) \/ exists c, In m (pend (rep s r) c)) ->
  TInv (set_rep s r l').
Proof.
  intros s r l' [Tn Tm Tp Ts Tpu Tc Td Tg Tb] Hm Hp Hs. constructor; simpl; auto.
  - intros r0 m. unfold upd. destruct (Nat.eqb_spec r0 r) as [->|]; [|apply Tm].
    intros E. destruct (Hm m E) as [H|H]; [eapply Tm; eauto|exact H].
  - intros r0 c m. unfold upd. destruct (Nat.eqb_spec r0 r) as [->|]; [|apply Tp].
    intros Hin. destruct (Hp c m Hin) as [H|[H G]]; [eapply Tp; eauto|]. split; [eapply Tm; eauto|exact G].
  - intros r0 m. unfold upd. destruct (Nat.eqb_spec r0 r) as [->|]; [|apply Ts].
    intros Hin. destruct (Hs m Hin) as [H|[c H]]; [eapply Ts; eauto|eapply Tp; eauto].
Qed.

Lemma t_rep_set : forall s r l',
  TInv s ->
  (forall m, rmsg_ l' = Some m -> wfm m) ->
  (forall c m, In m (pend l' c) -> wfm m /\ getput m) ->
  (forall m, In m (stable l') -> wfm m /\ getput m) ->
  TInv (set_rep s r l').
Proof.
  intros s r l' [Tn Tm Tp Ts Tpu Tc Td Tg Tb] Hm Hp Hs. constructor; simpl; auto.
  - intros r0 m. unfold upd. destruct (Nat.eqb_spec r0 r) as [->|]; [apply Hm|apply Tm].
  - intros r0 c m. unfold upd. destruct (Nat.eqb_spec r0 r) as [->|]; [apply Hp|apply Tp].
  - intros r0 m. unfold upd. destruct (Nat.eqb_spec r0 r) as [->|]; [apply Hs|apply Ts].
Qed.

Lemma in_upd_app : forall {A} (f : nat -> list A) k (x : A) k' y, In y (upd f k (f k ++ [x]) k') -> In y (f k') \/ (k' = k /\ y = x).
Proof.
  intros A f k x k' y. unfold upd. destruct (Nat.eqb_spec k' k) as [->|]; [|auto].
  intros H. apply in_app_or in H. destruct H as [H|[<-|[]]]; auto.
Qed.

Lemma in_upd_tail : forall {A} (f : nat -> list A) k (x : A) rest k' y, f k = x :: rest -> In y (upd f k rest k') -> In y (f k').
Proof.
  intros A f k x rest k' y E. unfold upd. destruct (Nat.eqb_spec k' k) as [->|]; [|auto]. rewrite E. intros H. right. exact H.
Qed.

(* sending a well-formed request to a replica *)
Lemma t_send_rep : forall s dst m k s', TInv s -> wfm m -> send_rep g s dst m k = Ok s' ->
  (forall s1, TInv s1 -> k s1 = Ok s' -> TInv s') -> TInv s'.
Proof.
  intros s dst m k s' T W H Hk. unfold send_rep in H. destruct (negb (Nat.ltb dst (NR g))); [discriminate|].
  destruct (Nat.ltb _ _); [|discriminate]. eapply Hk; [|exact H].
  destruct T as [Tn Tm Tp Ts Tpu Tc Td Tg Tb]. constructor; simpl; auto.
  intros r m0 Hin. apply in_upd_app in Hin. destruct Hin as [Hin|[_ ->]]; [eapply Tn; eauto|exact W].
Qed.

Lemma t_box_frame : forall s dst m k s', TInv s ->
  ((exists r, m = RGet r) /\ isGet dst \/ m = RPut /\ isPut dst) ->
  send_box g s dst m k = Ok s' ->
  (forall s1, TInv s1 -> k s1 = Ok s' -> TInv s') -> TInv s'.
Proof.
  intros s dst m k s' T W H Hk. unfold send_box in H. destruct (negb _); [discriminate|].
  destruct (Nat.ltb _ _); [|discriminate]. eapply Hk; [|exact H].
  destruct T as [Tn Tm Tp Ts Tpu Tc Td Tg Tb]. constructor; simpl; auto.
  - intros p m0 Hp Hin. apply in_upd_app in Hin. destruct Hin as [Hin|[-> ->]]; [eapply Tg; eauto|].
    destruct W as [[W _]|[_ W]]; [exact W|]. unfold isGet, isPut in *. lia.
  - intros p m0 Hp Hin. apply in_upd_app in Hin. destruct Hin as [Hin|[-> ->]]; [eapply Tb; eauto|].
    destruct W as [[_ W]|[W _]]; [|exact W]. unfold isGet, isPut in *. lia.
Qed.

Ltac rframe T := apply t_rep_frame; [exact T|simpl; intros; auto..].

Lemma t_rep_step : forall s r pick s', TInv s -> rep_step g s r pick = Ok s' -> TInv s'.
Proof.
  intros s r pick s' T H. unfold rep_step in H. destruct (rpc_ (rep s r)) eqn:Hpc.
  - (* replicaLoop *) injection H as <-. rframe T. contradiction.
  - (* receiveClientRequest *)
    destruct (repNet s r) as [|m rest] eqn:Hn; [discriminate|]. injection H as <-.
    assert (T1 : TInv (set_repnet s (upd (repNet s) r rest))).
    { destruct T as [Tn Tm Tp Ts Tpu Tc Td Tg Tb]. constructor; simpl; auto.
      intros r0 m0 Hin. eapply Tn. eapply in_upd_tail; eauto. }
    apply t_rep_frame; [exact T1|simpl; intros; auto..].
    injection H as <-. right. apply (t_net _ T r). rewrite Hn. left. reflexivity.
  - (* clientDisconnected *)
    destruct (rmsg_ (rep s r)) as [[]|] eqn:Hm; try discriminate; injection H as <-; rframe T.
  - (* replicaGetRequest *)
    destruct (rmsg_ (rep s r)) as [[k c t rp|k v c t rp|c|c t]|] eqn:Hm; try discriminate.
    + destruct (negb (mem c (live (rep s r)))); [discriminate|]. destruct (negb (in_clients g c)); [discriminate|].
      injection H as <-. rframe T. unfold upd in H. destruct (Nat.eqb_spec c0 c) as [->|]; [|auto].
      apply in_app_or in H. destruct H as [H|[<-|[]]]; [auto|]. right. split; [exact Hm|exact I].
    + injection H as <-. rframe T.
    + injection H as <-. rframe T.
    + injection H as <-. rframe T.
  - (* replicaPutRequest *)
    destruct (rmsg_ (rep s r)) as [[k c t rp|k v c t rp|c|c t]|] eqn:Hm; try discriminate.
    + injection H as <-. rframe T.
    + destruct (negb (in_clients g c)); [discriminate|].
      injection H as <-. rframe T. unfold upd in H. destruct (Nat.eqb_spec c0 c) as [->|]; [|auto].
      apply in_app_or in H. destruct H as [H|[<-|[]]]; [auto|]. right. split; [exact Hm|exact I].
    + injection H as <-. rframe T.
    + injection H as <-. rframe T.
  - (* replicaNullRequest *)
    destruct (rmsg_ (rep s r)) as [[k c t rp|k v c t rp|c|c t]|] eqn:Hm; try discriminate;
      try (injection H as <-; rframe T).
    destruct (negb (in_clients g c)); [discriminate|]. injection H as <-. rframe T.
  - (* findStableRequestsLoop *)
    destruct (cont (rep s r)) as [[|]|]; try discriminate; injection H as <-; rframe T.
  - (* findMinClock *)
    destruct (ri (rep s r)) as [i|]; [|discriminate]. destruct (cIter (rep s r)) as [it|]; [|discriminate].
    destruct (minClk (rep s r)) as [mc|]; [|discriminate].
    destruct (Nat.ltb i (List.length it)).
    + destruct pick as [c|]; [|discriminate]. destruct (negb (mem c it)); [discriminate|].
      destruct (negb (in_clients g c)); [discriminate|]. injection H as <-.
      destruct (Nat.eqb mc 0 || Nat.ltb (cclk (rep s r) c) mc); rframe T.
    + injection H as <-. rframe T.
  - (* findMinClient *)
    destruct (ri (rep s r)) as [i|]; [|discriminate]. destruct (pendC (rep s r)) as [pc|]; [|discriminate].
    destruct (minClk (rep s r)) as [mc|]; [|discriminate].
    destruct (Nat.ltb i (List.length pc)).
    + destruct pick as [c|]; [|discriminate]. destruct (negb (mem c pc)); [discriminate|].
      destruct (pend (rep s r) c) as [|fp rest]; [discriminate|].
      destruct fp as [k c1 t rp|k v c1 t rp|c1|c1 t]; try discriminate.
      * destruct (Nat.ltb t mc).
        -- destruct (lowestP (rep s r)) as [lo|]; [|discriminate]. destruct (nextC (rep s r)) as [nc|]; [|discriminate].
           injection H as <-. destruct (Nat.ltb t lo || (Nat.eqb t lo && Nat.ltb c nc)); rframe T.
        -- injection H as <-. rframe T.
      * destruct (Nat.ltb t mc).
        -- destruct (lowestP (rep s r)) as [lo|]; [|discriminate]. destruct (nextC (rep s r)) as [nc|]; [|discriminate].
           injection H as <-. destruct (Nat.ltb t lo || (Nat.eqb t lo && Nat.ltb c nc)); rframe T.
        -- injection H as <-. rframe T.
    + injection H as <-. rframe T.
  - (* addStableMessage *)
    destruct (lowestP (rep s r)) as [lo|]; [|discriminate]. destruct (minClk (rep s r)) as [mc|]; [|discriminate].
    destruct (Nat.ltb lo mc).
    + destruct (nextC (rep s r)) as [nc|]; [|discriminate].
      destruct (pend (rep s r) nc) as [|m rest] eqn:Hp; [discriminate|]. injection H as <-.
      assert (Hm : wfm m /\ getput m) by (apply (t_pend _ T r nc); rewrite Hp; left; reflexivity).
      rframe T.
      * injection H as <-. right. tauto.
      * left. unfold upd in H. destruct (Nat.eqb_spec c nc) as [->|]; [rewrite Hp; right; exact H|exact H].
      * apply in_app_or in H. destruct H as [H|[<-|[]]]; [auto|]. right. exists nc. rewrite Hp. left. reflexivity.
    + injection H as <-. rframe T.
  - (* respondPendingRequestsLoop *)
    destruct (ri (rep s r)) as [i|]; [|discriminate].
    destruct (Nat.leb i (List.length (stable (rep s r)))).
    + destruct i as [|i]; [discriminate|]. destruct (nth_error (stable (rep s r)) (S i - 1)) as [m|] eqn:Hn; [|discriminate].
      injection H as <-. rframe T. injection H as <-. right. apply nth_error_In in Hn. apply (t_stable _ T r m Hn).
    + injection H as <-. rframe T.
  - (* respondStableGet *)
    destruct (rmsg_ (rep s r)) as [[k c t rp|k v c t rp|c|c t]|] eqn:Hm; try discriminate;
      try (injection H as <-; rframe T).
    destruct (t_msg _ T r _ Hm) as [_ Hrp].
    eapply t_box_frame; [| |exact H|].
    + rframe T.
    + left. split; [eexists; reflexivity|exact Hrp].
    + intros s1 T1 E. injection E as <-. apply t_rep_set; [exact T1|simpl..].
      * intros m0 E0. eapply (t_msg _ T r). exact E0.
      * apply (t_pend _ T r).
      * apply (t_stable _ T r).
  - (* respondStablePut *)
    destruct (rmsg_ (rep s r)) as [[k c t rp|k v c t rp|c|c t]|] eqn:Hm; try discriminate;
      try (injection H as <-; rframe T).
    destruct (t_msg _ T r _ Hm) as [_ Hrp].
    eapply t_box_frame; [| |exact H|].
    + rframe T.
    + right. split; [reflexivity|exact Hrp].
    + intros s1 T1 E. injection E as <-. apply t_rep_set; [exact T1|simpl..].
      * intros m0 E0. eapply (t_msg _ T r). exact E0.
      * apply (t_pend _ T r).
      * apply (t_stable _ T r).
Qed.

(* client-side frames: a step that only rewrites one client's locals (and possibly clocks / out / its own mailbox tail) *)
Lemma t_set_get : forall s p l, TInv s -> TInv (set_get s p l).
Proof. intros s p l [Tn Tm Tp Ts Tpu Tc Td Tg Tb]. constructor; simpl; auto. Qed.
Lemma t_set_clocks : forall s c, TInv s -> TInv (set_clocks s c).
Proof. intros s c [Tn Tm Tp Ts Tpu Tc Td Tg Tb]. constructor; simpl; auto. Qed.
Lemma t_set_out : forall s o, TInv s -> TInv (set_out s o).
Proof. intros s o [Tn Tm Tp Ts Tpu Tc Td Tg Tb]. constructor; simpl; auto. Qed.
Lemma t_set_box_tail : forall s p m rest, TInv s -> cliBox s p = m :: rest -> TInv (set_box s (upd (cliBox s) p rest)).
Proof.
  intros s p m rest [Tn Tm Tp Ts Tpu Tc Td Tg Tb] E. constructor; simpl; auto.
  - intros p0 m0 Hp Hin. eapply Tg; eauto. eapply in_upd_tail; eauto.
  - intros p0 m0 Hp Hin. eapply Tb; eauto. eapply in_upd_tail; eauto.
Qed.
Lemma t_set_put : forall s p l, TInv s ->
  (forall m, putReq l = Some m -> putReq (putc s p) = Some m \/ (exists k v c t, m = MPut k v c t p /\ isClient c)) ->
  TInv (set_put s p l).
Proof.
  intros s p l [Tn Tm Tp Ts Tpu Tc Td Tg Tb] H. constructor; simpl; auto.
  intros p0 m. unfold upd. destruct (Nat.eqb_spec p0 p) as [->|]; [|apply Tpu].
  intros E Hp. destruct (H m E) as [A|A]; [eapply Tpu; eauto|exact A].
Qed.
Lemma t_set_disc : forall s p l, TInv s -> (forall m, dmsg l = Some m -> exists c, m = MDisc c) -> TInv (set_disc s p l).
Proof.
  intros s p l [Tn Tm Tp Ts Tpu Tc Td Tg Tb] H. constructor; simpl; auto.
  intros p0 m. unfold upd. destruct (Nat.eqb_spec p0 p) as [->|]; [apply H|apply Td].
Qed.
Lemma t_set_clk : forall s p l, TInv s -> (forall m, umsg l = Some m -> exists c t, m = MNull c t) -> TInv (set_clk s p l).
Proof.
  intros s p l [Tn Tm Tp Ts Tpu Tc Td Tg Tb] H. constructor; simpl; auto.
  intros p0 m. unfold upd. destruct (Nat.eqb_spec p0 p) as [->|]; [apply H|apply Tc].
Qed.

Lemma in_range_spec : forall lo n x, in_range lo n x = true -> lo <= x < lo + n.
Proof.
  intros lo n x H. unfold in_range in H. apply andb_prop in H. destruct H as [A B0].
  apply Nat.leb_le in A. apply Nat.ltb_lt in B0. lia.
Qed.

Lemma t_step : forall s e s', TInv s -> step g s e = Ok s' -> TInv s'.
Proof.
  intros s e s' T H. destruct e as [r pick|p pick|p|p|p]; unfold step in H.
  - destruct (Nat.ltb r (NR g)); [|discriminate]. eapply t_rep_step; eauto.
  - (* Get *)
    destruct (in_range (NR g) (NC g) p) eqn:Hr; [|discriminate]. apply in_range_spec in Hr.
    unfold get_step in H. destruct (gpc_ (getc s p)).
    + injection H as <-. apply t_set_get; exact T.
    + unfold cid in H. rewrite Nat.mul_0_r, Nat.sub_0_r in H. destruct (clocks s p) as [t|].
      * destruct (NR g) eqn:HNR; [discriminate|]. rewrite <- HNR in *. destruct pick as [dst|]; [|discriminate].
        eapply t_send_rep; [| |exact H|].
        -- apply t_set_get. apply t_set_clocks. exact T.
        -- simpl. unfold isClient, isGet. lia.
        -- intros s1 T1 E. injection E as <-. apply t_set_get. exact T1.
      * injection H as <-. apply t_set_get; exact T.
    + destruct (clocks s (cid g 0 p)).
      * destruct (cliBox s p) as [|m rest] eqn:Hb; [discriminate|]. destruct m; [|discriminate]. injection H as <-.
        apply t_set_out. apply t_set_get. eapply t_set_box_tail; eauto.
      * injection H as <-. apply t_set_get; exact T.
    + injection H as <-. apply t_set_get; exact T.
    + discriminate.
  - (* Put *)
    destruct (in_range (NR g + NC g) (NC g) p) eqn:Hr; [|discriminate]. apply in_range_spec in Hr.
    unfold put_step in H. destruct (ppc_ (putc s p)).
    + injection H as <-. apply t_set_put; [exact T|simpl; auto].
    + destruct (clocks s (cid g 1 p)) as [t|]; injection H as <-.
      * apply t_set_put; [apply t_set_clocks; exact T|]. simpl. intros m E. injection E as <-. right.
        do 4 eexists. split; [reflexivity|]. unfold isClient, cid. lia.
      * apply t_set_put; [exact T|simpl; auto].
    + destruct (pj (putc s p)) as [j|]; [|discriminate]. destruct (putReq (putc s p)) as [m|] eqn:Hm.
      * destruct (Nat.ltb j (NR g) && match clocks s (cid g 1 p) with None => false | Some _ => true end).
        -- eapply t_send_rep; [exact T| |exact H|].
           ++ destruct (t_put _ T p m Hm) as (k & v & c & t & -> & Hc); [unfold isPut; lia|]. simpl. split; [exact Hc|unfold isPut; lia].
           ++ intros s1 T1 E. injection E as <-. apply t_set_put; [exact T1|]. simpl. intros m0 E0. injection E0 as <-.
              right. destruct (t_put _ T p m Hm) as (k & v & c & t & -> & Hc); [unfold isPut; lia|]. do 4 eexists. eauto.
        -- injection H as <-. apply t_set_put; [exact T|simpl; intros m0 E0; injection E0 as <-; left; exact Hm].
      * destruct (Nat.ltb j (NR g) && match clocks s (cid g 1 p) with None => false | Some _ => true end); [discriminate|].
        injection H as <-. apply t_set_put; [exact T|simpl; intros m0 E0; discriminate E0].
    + destruct (pi0 (putc s p)) as [i|]; [|discriminate]. destruct (Nat.ltb i (NR g)).
      * destruct (clocks s (cid g 1 p)).
        -- destruct (cliBox s p) as [|m rest] eqn:Hb; [discriminate|]. destruct m; [discriminate|]. injection H as <-.
           apply t_set_put; [eapply t_set_box_tail; eauto|simpl; auto].
        -- injection H as <-. apply t_set_put; [exact T|simpl; auto].
      * injection H as <-. apply t_set_put; [exact T|simpl; auto].
    + injection H as <-. apply t_set_out. apply t_set_put; [exact T|simpl; auto].
    + injection H as <-. apply t_set_put; [exact T|simpl; auto].
    + discriminate.
  - (* Disconnect *)
    destruct (in_range (NR g + 2 * NC g) (NC g) p); [|discriminate].
    unfold disc_step in H. destruct (dpc_ (disc s p)).
    + injection H as <-. apply t_set_disc; [apply t_set_clocks; exact T|]. simpl. intros m E. injection E as <-. eauto.
    + destruct (dj (disc s p)) as [j|]; [|discriminate]. destruct (dmsg (disc s p)) as [m|] eqn:Hm; [|discriminate].
      destruct (Nat.ltb j (NR g)).
      * eapply t_send_rep; [exact T| |exact H|].
        -- destruct (t_dis _ T p m Hm) as [c ->]. exact I.
        -- intros s1 T1 E. injection E as <-. apply t_set_disc; [exact T1|]. simpl. intros m0 E0. injection E0 as <-. exact (t_dis _ T p m Hm).
      * injection H as <-. apply t_set_disc; [exact T|]. simpl. intros m0 E0. injection E0 as <-. exact (t_dis _ T p m Hm).
    + discriminate.
  - (* ClockUpdate *)
    destruct (in_range (NR g + 3 * NC g) (NC g) p); [|discriminate].
    unfold clk_step in H. destruct (upc_ (clk s p)).
    + destruct (ucont (clk s p)).
      * destruct (clocks s (cid g 3 p)) as [t|]; injection H as <-.
        -- apply t_set_clk; [apply t_set_clocks; exact T|]. simpl. intros m E. injection E as <-. eauto.
        -- apply t_set_clk; [exact T|]. simpl. apply (t_clk _ T p).
      * injection H as <-. apply t_set_clk; [exact T|]. simpl. apply (t_clk _ T p).
    + destruct (uj (clk s p)) as [j|]; [|discriminate].
      destruct (Nat.ltb j (NR g) && match clocks s (cid g 3 p) with None => false | Some _ => true end).
      * destruct (umsg (clk s p)) as [m|] eqn:Hm; [|discriminate].
        eapply t_send_rep; [exact T| |exact H|].
        -- destruct (t_clk _ T p m Hm) as (c & t & ->). exact I.
        -- intros s1 T1 E. injection E as <-. apply t_set_clk; [exact T1|]. simpl. intros m0 E0. injection E0 as <-. exact (t_clk _ T p m Hm).
      * injection H as <-. apply t_set_clk; [exact T|]. simpl. apply (t_clk _ T p).
    + injection H as <-. apply t_set_clk; [exact T|]. simpl. apply (t_clk _ T p).
    + discriminate.
Qed.

Theorem t_reachable : forall s, reachable g s -> TInv s.
Proof. intros s R. induction R; [apply t_init|eapply t_step; eauto]. Qed.
End WithConfig.
