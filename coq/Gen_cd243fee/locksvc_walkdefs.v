From PGV Require Import C02.Lang C02.Sem C02.Show C02.Walk C02.Bind_locksvc Gen_cd243fee.locksvc_go Gen_cd243fee.locksvc_tla Gen_cd243fee.locksvc_trees.
Open Scope string_scope.
Open Scope list_scope.

Definition locksvc_W : wsys := Eval vm_compute in mkW locksvc_Dgo (canon_defs locksvc_tla_defs) [("NumClients", VNum 3)] locksvc_tla_init
  [("Server", (match lookup "Server" locksvc_tla_procs with Some (s, _) => s | None => None end, [("serverLoop", (locksvc_gtree_Server_serverLoop, locksvc_ttree_Server_serverLoop)); ("serverReceive", (locksvc_gtree_Server_serverReceive, locksvc_ttree_Server_serverReceive)); ("serverRespond", (locksvc_gtree_Server_serverRespond, locksvc_ttree_Server_serverRespond))]));
   ("client", (match lookup "client" locksvc_tla_procs with Some (s, _) => s | None => None end, [("acquireLock", (locksvc_gtree_client_acquireLock, locksvc_ttree_client_acquireLock)); ("criticalSection", (locksvc_gtree_client_criticalSection, locksvc_ttree_client_criticalSection)); ("unlock", (locksvc_gtree_client_unlock, locksvc_ttree_client_unlock))]))].
Definition locksvc_walk_report (n : nat) (rnd : list N) : string :=
  let '(mm, tr) := one_walk n locksvc_W (map N.to_nat rnd) in
  ((match mm with Some s => s | None => "" end) ++ "#@#TRACE " ++ sep "," tr ++ " #@#ENDTRACE")%string.
