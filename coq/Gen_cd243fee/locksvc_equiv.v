From PGV Require Import C02.Lang C02.Sem C02.Bind_locksvc Gen_cd243fee.locksvc_go Gen_cd243fee.locksvc_tla Gen_cd243fee.locksvc_trees Properties.C02.
Open Scope string_scope.

Theorem locksvc_defs_equal : locksvc_Dgo = locksvc_Dtla.
Proof. apply defs_check_sound. vm_compute. reflexivity. Qed.

Theorem locksvc_Server_serverLoop_equiv : forall fuel r ks,
  run locksvc_Dgo fuel locksvc_gtree_Server_serverLoop r ks = run locksvc_Dtla fuel locksvc_ttree_Server_serverLoop r ks.
Proof. rewrite <- locksvc_defs_equal. apply equiv_sound. vm_compute. reflexivity. Qed.
Print Assumptions locksvc_Server_serverLoop_equiv.

Theorem locksvc_Server_serverReceive_equiv : forall fuel r ks,
  run locksvc_Dgo fuel locksvc_gtree_Server_serverReceive r ks = run locksvc_Dtla fuel locksvc_ttree_Server_serverReceive r ks.
Proof. rewrite <- locksvc_defs_equal. apply equiv_sound. vm_compute. reflexivity. Qed.
Print Assumptions locksvc_Server_serverReceive_equiv.

Theorem locksvc_client_acquireLock_equiv : forall fuel r ks,
  run locksvc_Dgo fuel locksvc_gtree_client_acquireLock r ks = run locksvc_Dtla fuel locksvc_ttree_client_acquireLock r ks.
Proof. rewrite <- locksvc_defs_equal. apply equiv_sound. vm_compute. reflexivity. Qed.
Print Assumptions locksvc_client_acquireLock_equiv.

Theorem locksvc_client_criticalSection_equiv : forall fuel r ks,
  run locksvc_Dgo fuel locksvc_gtree_client_criticalSection r ks = run locksvc_Dtla fuel locksvc_ttree_client_criticalSection r ks.
Proof. rewrite <- locksvc_defs_equal. apply equiv_sound. vm_compute. reflexivity. Qed.
Print Assumptions locksvc_client_criticalSection_equiv.

Theorem locksvc_client_unlock_equiv : forall fuel r ks,
  run locksvc_Dgo fuel locksvc_gtree_client_unlock r ks = run locksvc_Dtla fuel locksvc_ttree_client_unlock r ks.
Proof. rewrite <- locksvc_defs_equal. apply equiv_sound. vm_compute. reflexivity. Qed.
Print Assumptions locksvc_client_unlock_equiv.

