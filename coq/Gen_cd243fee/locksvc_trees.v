From PGV Require Import C02.Lang C02.Sem C02.Show C02.Bind_locksvc Gen_cd243fee.locksvc_go Gen_cd243fee.locksvc_tla.
Open Scope string_scope.
Open Scope list_scope.

Definition locksvc_Dgo := canon_defs locksvc_go_defs.
Definition locksvc_Dtla := canon_defs (restrict_defs (map fst locksvc_go_defs) locksvc_tla_defs).

Definition locksvc_inst_Server : instance := match lookup "Server" locksvc_instances with Some i => i | None => mkInst "" [] [] end.
Definition locksvc_gtree_Server_serverLoop : dtree := go_body_tree locksvc_tla_locals locksvc_inst_Server 6000 locksvc_go_AServer_serverLoop.
Definition locksvc_ttree_Server_serverLoop : dtree := tla_action_tree locksvc_tla_locals 6000 "serverLoop" "self" locksvc_tla_act_serverLoop.
Definition locksvc_gtree_Server_serverReceive : dtree := go_body_tree locksvc_tla_locals locksvc_inst_Server 6000 locksvc_go_AServer_serverReceive.
Definition locksvc_ttree_Server_serverReceive : dtree := tla_action_tree locksvc_tla_locals 6000 "serverReceive" "self" locksvc_tla_act_serverReceive.
Definition locksvc_gtree_Server_serverRespond : dtree := go_body_tree locksvc_tla_locals locksvc_inst_Server 6000 locksvc_go_AServer_serverRespond.
Definition locksvc_ttree_Server_serverRespond : dtree := tla_action_tree locksvc_tla_locals 6000 "serverRespond" "self" locksvc_tla_act_serverRespond.
Definition locksvc_inst_client : instance := match lookup "client" locksvc_instances with Some i => i | None => mkInst "" [] [] end.
Definition locksvc_gtree_client_acquireLock : dtree := go_body_tree locksvc_tla_locals locksvc_inst_client 6000 locksvc_go_AClient_acquireLock.
Definition locksvc_ttree_client_acquireLock : dtree := tla_action_tree locksvc_tla_locals 6000 "acquireLock" "self" locksvc_tla_act_acquireLock.
Definition locksvc_gtree_client_criticalSection : dtree := go_body_tree locksvc_tla_locals locksvc_inst_client 6000 locksvc_go_AClient_criticalSection.
Definition locksvc_ttree_client_criticalSection : dtree := tla_action_tree locksvc_tla_locals 6000 "criticalSection" "self" locksvc_tla_act_criticalSection.
Definition locksvc_gtree_client_unlock : dtree := go_body_tree locksvc_tla_locals locksvc_inst_client 6000 locksvc_go_AClient_unlock.
Definition locksvc_ttree_client_unlock : dtree := tla_action_tree locksvc_tla_locals 6000 "unlock" "self" locksvc_tla_act_unlock.
