(* C15 — executable model of systems/locksvc/locksvc.tla (the PlusCal translation between
   BEGIN/END TRANSLATION), transcribed label by label. Model only: no proofs here.

   Spec variables: network (a bag per node), hasLock, and the server's msg, q, plus pc.
   Node 0 is the server (ServerID), nodes 1..N the clients (ClientSet = 1..NumClients).
   A bag is a list up to permutation:  b (+) SetToBag({m}) = m :: b,  b (-) SetToBag({m}) = rem1 m b,
   BagToSet b = members of b, BagCardinality b > 0 iff b <> [].
   Messages: a record [from |-> c, type |-> t] is `Req c t`; a number n is `Num n`
   (LockMsg = 1, UnlockMsg = 2, GrantMsg = 3); defaultInitValue of `msg` is None.

   Nondeterminism: the only choice is `\E readMsg \in BagToSet(network[self])`; the event carries the
   ELEMENT that was read (observed on the Go side), not an index.

   Ghost history (does not influence any visible component, see C15/Proofs.v ghost_irrelevant):
   `arrived` = clients whose Lock request the server has received, in order of receipt;
   `granted` = clients to which a Grant has been sent, in order of sending. *)
From Coq Require Export List Arith Bool.
Export ListNotations.

Inductive msg := Req (from : nat) (ty : nat) | Num (n : nat).

Definition msg_eq_dec : forall a b : msg, {a = b} + {a <> b}.
Proof. decide equality; apply Nat.eq_dec. Defined.

Definition msg_eqb (a b : msg) : bool := if msg_eq_dec a b then true else false.

Definition LockMsg := 1.
Definition UnlockMsg := 2.
Definition Grant := Num 3.

Inductive spc := SLoop | SReceive | SRespond | SDone.
Inductive cpc := CAcquire | CCrit | CUnlock | CDone.

Record state := mkState {
  net : nat -> list msg;       (* network *)
  hasLock : nat -> bool;
  smsg : option msg;           (* msg[0] *)
  q : list nat;                (* q[0] *)
  spc_ : spc;                  (* pc[0] *)
  cpc_ : nat -> cpc;           (* pc[c], c in 1..N *)
  arrived : list nat;          (* ghost *)
  granted : list nat           (* ghost *)
}.

Definition upd {A} (f : nat -> A) (k : nat) (v : A) : nat -> A :=
  fun x => if Nat.eqb x k then v else f x.

Fixpoint rem1 (m : msg) (l : list msg) : list msg :=
  match l with
  | [] => []
  | x :: r => if msg_eq_dec m x then r else x :: rem1 m r
  end.

Fixpoint cnt (m : msg) (l : list msg) : nat :=
  match l with
  | [] => 0
  | x :: r => (if msg_eq_dec m x then 1 else 0) + cnt m r
  end.

Definition in_bag (m : msg) (l : list msg) : bool := negb (Nat.eqb (cnt m l) 0).

Definition init : state :=
  mkState (fun _ => []) (fun _ => false) None [] SLoop (fun _ => CAcquire) [] [].

Inductive outcome :=
| Ok (s : state)     (* the label's action is enabled and was taken *)
| Disabled           (* an await is false: the critical section aborts, nothing changes *)
| Finished           (* pc = Done *)
| AssertFail         (* the PlusCal assert fails *)
| TypeError          (* TLC would report an error evaluating the action (field of a non-record, Tail(<<>>)) *)
| BadEvent.          (* the event does not name a process or a member of the bag *)

(* network' = [network EXCEPT ![dst] = network[dst] (+) SetToBag({m})] *)
Definition send (nw : nat -> list msg) (dst : nat) (m : msg) : nat -> list msg :=
  upd nw dst (m :: nw dst).

Definition set_spc (s : state) (p : spc) : state :=
  mkState (net s) (hasLock s) (smsg s) (q s) p (cpc_ s) (arrived s) (granted s).

(* serverLoop / serverReceive / serverRespond *)
Definition server_step (s : state) (pick : option msg) : outcome :=
  match spc_ s with
  | SLoop => Ok (set_spc s SReceive)                       (* IF TRUE THEN goto serverReceive *)
  | SReceive =>
      match net s 0 with
      | [] => Disabled                                      (* BagCardinality(network[self]) > 0 *)
      | _ =>
        match pick with
        | None => BadEvent
        | Some m =>
          if in_bag m (net s 0)
          then Ok (mkState (upd (net s) 0 (rem1 m (net s 0))) (hasLock s) (Some m) (q s) SRespond (cpc_ s)
                           (match m with Req c 1 => arrived s ++ [c] | _ => arrived s end) (granted s))
          else BadEvent
        end
      end
  | SRespond =>
      match smsg s with
      | None => TypeError                                   (* defaultInitValue.type *)
      | Some (Num _) => TypeError                           (* field of a number *)
      | Some (Req from ty) =>
          if Nat.eqb ty LockMsg then
            match q s with
            | [] => Ok (mkState (send (net s) from Grant) (hasLock s) (smsg s) (q s ++ [from]) SLoop (cpc_ s)
                                (arrived s) (granted s ++ [from]))
            | _ => Ok (mkState (net s) (hasLock s) (smsg s) (q s ++ [from]) SLoop (cpc_ s)
                               (arrived s) (granted s))
            end
          else if Nat.eqb ty UnlockMsg then
            match q s with
            | [] => TypeError                               (* Tail(<<>>) *)
            | _ :: q' =>
              match q' with
              | [] => Ok (mkState (net s) (hasLock s) (smsg s) q' SLoop (cpc_ s) (arrived s) (granted s))
              | h :: _ => Ok (mkState (send (net s) h Grant) (hasLock s) (smsg s) q' SLoop (cpc_ s)
                                      (arrived s) (granted s ++ [h]))
              end
            end
          else Ok (set_spc s SLoop)
      end
  | SDone => Finished
  end.

(* acquireLock / criticalSection / unlock of client c *)
Definition client_step (s : state) (c : nat) (pick : option msg) : outcome :=
  match cpc_ s c with
  | CAcquire =>
      Ok (mkState (send (net s) 0 (Req c LockMsg)) (hasLock s) (smsg s) (q s) (spc_ s)
                  (upd (cpc_ s) c CCrit) (arrived s) (granted s))
  | CCrit =>
      match net s c with
      | [] => Disabled
      | _ =>
        match pick with
        | None => BadEvent
        | Some m =>
          if in_bag m (net s c)
          then if msg_eqb m Grant                            (* assert resp = GrantMsg *)
               then Ok (mkState (upd (net s) c (rem1 m (net s c))) (upd (hasLock s) c true) (smsg s) (q s)
                                (spc_ s) (upd (cpc_ s) c CUnlock) (arrived s) (granted s))
               else AssertFail
          else BadEvent
        end
      end
  | CUnlock =>
      Ok (mkState (send (net s) 0 (Req c UnlockMsg)) (upd (hasLock s) c false) (smsg s) (q s) (spc_ s)
                  (upd (cpc_ s) c CDone) (arrived s) (granted s))
  | CDone => Finished
  end.

(* an event: process p (0 = server, 1..N = clients) runs its current label; `pick` is the element
   read from the bag when the label reads the network *)
Definition event := (nat * option msg)%type.

Definition step (N : nat) (s : state) (e : event) : outcome :=
  let '(p, pick) := e in
  if Nat.eqb p 0 then server_step s pick
  else if Nat.leb p N then client_step s p pick
  else BadEvent.

(* executions: only enabled steps change the state *)
Definition next (N : nat) (s : state) (e : event) : state :=
  match step N s e with Ok s' => s' | _ => s end.

Definition exec (N : nat) (evs : list event) : state := fold_left (next N) evs init.

(* ------------------------------------------------------------------ correspondence check *)

Definition out_code (o : outcome) : nat :=
  match o with Ok _ => 0 | Disabled => 1 | Finished => 2 | AssertFail => 3 | TypeError => 4 | BadEvent => 5 end.

(* what the harness observed after a committed step: network[0..N], hasLock[0..N], msg, q, pc[0],
   pc[1..N], and the ghost lists recomputed from the observed reads/writes. A step record is
   (event, observed outcome code, Some obs) or, when the implementation's attempt did not commit and left
   every observable unchanged (checked on the Go side), (event, code, None). *)
Record obs := mkObs {
  o_net : list (list msg);
  o_hasLock : list bool;
  o_smsg : option msg;
  o_q : list nat;
  o_spc : spc;
  o_cpc : list cpc;
  o_arrived : list nat;
  o_granted : list nat
}.

Definition bag_eqb (a b : list msg) : bool :=
  Nat.eqb (List.length a) (List.length b) && forallb (fun m => Nat.eqb (cnt m a) (cnt m b)) a.

Definition spc_eqb (a b : spc) : bool :=
  match a, b with SLoop, SLoop | SReceive, SReceive | SRespond, SRespond | SDone, SDone => true | _, _ => false end.
Definition cpc_eqb (a b : cpc) : bool :=
  match a, b with CAcquire, CAcquire | CCrit, CCrit | CUnlock, CUnlock | CDone, CDone => true | _, _ => false end.

Definition omsg_eqb (a b : option msg) : bool :=
  match a, b with None, None => true | Some x, Some y => msg_eqb x y | _, _ => false end.

Fixpoint list_eqb {A} (eqb : A -> A -> bool) (a b : list A) : bool :=
  match a, b with
  | [], [] => true
  | x :: a', y :: b' => eqb x y && list_eqb eqb a' b'
  | _, _ => false
  end.

Definition state_matches (N : nat) (s : state) (o : obs) : bool :=
  list_eqb bag_eqb (map (net s) (seq 0 (S N))) (o_net o)
  && list_eqb Bool.eqb (map (hasLock s) (seq 0 (S N))) (o_hasLock o)
  && omsg_eqb (smsg s) (o_smsg o)
  && list_eqb Nat.eqb (q s) (o_q o)
  && spc_eqb (spc_ s) (o_spc o)
  && list_eqb cpc_eqb (map (cpc_ s) (seq 1 N)) (o_cpc o)
  && list_eqb Nat.eqb (arrived s) (o_arrived o)
  && list_eqb Nat.eqb (granted s) (o_granted o).

(* index of the first step at which model and implementation disagree *)
Definition srec := (event * (nat * option obs))%type.

Fixpoint first_mismatch (N : nat) (s : state) (i : nat) (steps : list srec) : option nat :=
  match steps with
  | [] => None
  | (e, (code, oo)) :: rest =>
      let out := step N s e in
      let s' := match out with Ok s' => s' | _ => s end in
      if Nat.eqb (out_code out) code &&
         match oo with
         | Some o => state_matches N s' o
         | None => match out with Ok _ => false | _ => true end
         end
      then first_mismatch N s' (S i) rest
      else Some i
  end.

Definition walk := (nat * list srec)%type.

Definition walk_ok (w : walk) : bool :=
  match first_mismatch (fst w) init 0 (snd w) with None => true | Some _ => false end.

Fixpoint mismatches_from (i : nat) (ws : list walk) : list nat :=
  match ws with
  | [] => []
  | w :: rest => let m := mismatches_from (S i) rest in if walk_ok w then m else i :: m
  end.

(* executable forms of the properties, evaluated on model states during the correspondence run
   (the theorems in C15/Proofs.v say they hold in every reachable state) *)
Definition mutex_b (N : nat) (s : state) : bool :=
  Nat.leb (List.length (filter (hasLock s) (seq 1 N))) 1.
