(* C15 — FIFO service and grant-only-to-waiting, from a ghost-history invariant on top of Inv;
   and the proof that the ghost history never influences a visible component. *)
From PGV Require Import C15.Model C15.Proofs.
From Coq Require Import Lia.
Local Arguments Nat.eqb : simpl never.
Local Arguments Nat.leb : simpl never.
Local Arguments msg_eq_dec : simpl never.

(* the Lock request the server is processing right now, if any *)
Definition pendL (s : state) : list nat :=
  match spc_ s, smsg s with
  | SRespond, Some (Req c 1) => [c]
  | _, _ => []
  end.

Record Ginv (s : state) : Prop := mkGinv {
  g_nodup : NoDup (arrived s);
  g_gone : forall c, In c (arrived s) -> cnt (Req c LockMsg) (net s 0) = 0 /\ cpc_ s c <> CAcquire;
  g_split : arrived s = granted s ++ tl (q s) ++ pendL s
}.

Lemma ginv_init : Ginv init.
Proof. constructor; simpl; [constructor|tauto|reflexivity]. Qed.

Lemma cnt_rem1_le : forall x m l, cnt m (rem1 x l) <= cnt m l.
Proof.
  intros x m l. induction l as [|y l IH]; simpl; [lia|].
  destruct (msg_eq_dec x y); simpl; [lia|]. lia.
Qed.

Lemma NoDup_snoc' : forall (l : list nat) c, NoDup l -> ~ In c l -> NoDup (l ++ [c]).
Proof. exact NoDup_snoc. Qed.

Ltac splitgoal Gsplit :=
  unfold pendL; simpl; rewrite ?Gsplit; simpl; rewrite ?app_nil_r; rewrite <- ?app_assoc; simpl; reflexivity.

Lemma ginv_step : forall N s e s', Inv N s -> Ginv s -> step N s e = Ok s' -> Ginv s'.
Proof.
  intros N s [p pick] s' I G H. unfold step in H.
  destruct G as [Gnd Ggone Gsplit].
  destruct (Nat.eqb_spec p 0) as [->|Hp0].
  - unfold server_step in H. destruct (spc_ s) eqn:Hpc; try discriminate.
    + (* serverLoop *)
      injection H as <-. constructor; simpl; auto.
      unfold pendL in *. simpl. rewrite Hpc in Gsplit. exact Gsplit.
    + (* serverReceive *)
      destruct (net s 0) as [|x0 l0] eqn:Hn0; [discriminate|]. rewrite <- Hn0 in *.
      destruct pick as [m|]; [|discriminate].
      destruct (in_bag m (net s 0)) eqn:Hin; [|discriminate]. injection H as <-.
      apply in_bag_cnt in Hin.
      assert (Hpl0 : pendL s = []) by (unfold pendL; rewrite Hpc; reflexivity).
      rewrite Hpl0, app_nil_r in Gsplit.
      assert (Hle : forall x, cnt x (upd (net s) 0 (rem1 m (net s 0)) 0) <= cnt x (net s 0)).
      { intros x. unfold upd. rewrite Nat.eqb_refl. apply cnt_rem1_le. }
      destruct m as [c t|n0].
      * destruct (Nat.eq_dec t 1) as [->|Ht].
        -- (* a Lock request arrives *)
           assert (Hnew : ~ In c (arrived s)).
           { intros Hc. destruct (Ggone c Hc) as [Z _]. unfold LockMsg in Z. lia. }
           assert (Hp1 : pend s (Req c LockMsg) = 1).
           { pose proof (i_l1 _ _ I c). unfold pend in *. unfold LockMsg in *. lia. }
           constructor; simpl.
           ++ apply NoDup_snoc; assumption.
           ++ intros c' Hc'. apply in_app_or in Hc'. destruct Hc' as [Hc'|[<-|[]]].
              ** destruct (Ggone c' Hc') as [A B]. split; [|exact B]. pose proof (Hle (Req c' LockMsg)). lia.
              ** split.
                 --- unfold upd. rewrite Nat.eqb_refl.
                     pose proof (cnt_rem1 (Req c 1) (Req c 1) (net s 0) Hin).
                     destruct (msg_eq_dec (Req c 1) (Req c 1)); [|congruence].
                     unfold pend, held in Hp1. rewrite Hpc in Hp1. unfold LockMsg in *. lia.
                 --- destruct (i_l2 _ _ I c Hp1) as [A _]. congruence.
           ++ unfold pendL. simpl. rewrite Gsplit. rewrite <- app_assoc. reflexivity.
        -- (* any other message *)
           assert (Harr : match t with 1 => arrived s ++ [c] | _ => arrived s end = arrived s).
           { destruct t as [|[|t]]; try reflexivity. congruence. }
           constructor; simpl; rewrite ?Harr.
           ++ exact Gnd.
           ++ intros c' Hc'. destruct (Ggone c' Hc') as [A B]. split; [|exact B].
              pose proof (Hle (Req c' LockMsg)). lia.
           ++ unfold pendL. simpl. destruct t as [|[|t]]; try congruence; rewrite Gsplit, ?app_nil_r; reflexivity.
      * constructor; simpl.
        ++ exact Gnd.
        ++ intros c' Hc'. destruct (Ggone c' Hc') as [A B]. split; [|exact B].
           pose proof (Hle (Req c' LockMsg)). lia.
        ++ unfold pendL. simpl. rewrite Gsplit, ?app_nil_r. reflexivity.
    + (* serverRespond *)
      destruct (smsg s) as [[from ty|n0]|] eqn:Hm; try discriminate.
      destruct (Nat.eqb_spec ty LockMsg) as [->|Hty1].
      * destruct (lock_facts N s from I Hpc Hm) as (_ & _ & _ & _ & Hc1 & _ & _).
        assert (Hpl : pendL s = [from]) by (unfold pendL; rewrite Hpc, Hm; reflexivity).
        rewrite Hpl in Gsplit.
        destruct (q s) as [|h q0] eqn:Hq; injection H as <-; constructor; simpl.
        -- exact Gnd.
        -- intros c Hc. destruct (Ggone c Hc) as [A B]. split; [|exact B].
           unfold send, upd. destruct (Nat.eqb_spec 0 from); [lia|exact A].
        -- splitgoal Gsplit.
        -- exact Gnd.
        -- exact Ggone.
        -- splitgoal Gsplit.
      * assert (Hpl : pendL s = []).
        { unfold pendL. rewrite Hpc, Hm. destruct ty as [|[|t]]; try reflexivity. unfold LockMsg in *. congruence. }
        rewrite Hpl, app_nil_r in Gsplit.
        destruct (Nat.eqb_spec ty UnlockMsg) as [->|Hty2].
        -- destruct (q s) as [|c0 [|h q1]] eqn:Hq; try discriminate; injection H as <-; constructor; simpl.
           ++ exact Gnd.
           ++ exact Ggone.
           ++ splitgoal Gsplit.
           ++ exact Gnd.
           ++ assert (Hh1 : h >= 1).
              { destruct (Nat.eq_dec h 0) as [->|]; [|lia]. pose proof (i_z _ _ I 0 (or_introl eq_refl)) as Z.
                destruct (i_q _ _ I 0) as [A|[A|[A _]]]; [rewrite Hq; simpl; tauto|congruence..]. }
              intros c Hc. destruct (Ggone c Hc) as [A B]. split; [|exact B].
              unfold send, upd. destruct (Nat.eqb_spec 0 h); [lia|exact A].
           ++ splitgoal Gsplit.
        -- injection H as <-. constructor; simpl; [exact Gnd|exact Ggone|splitgoal Gsplit].
  - destruct (Nat.leb_spec p N) as [HpN|]; [|discriminate].
    unfold client_step in H. destruct (cpc_ s p) eqn:Hpc; try discriminate.
    + (* acquireLock *)
      injection H as <-. constructor; simpl; auto.
      intros c Hc. destruct (Ggone c Hc) as [A B].
      assert (c <> p) by congruence.
      unfold send, upd. rewrite ?Nat.eqb_refl. simpl.
      destruct (msg_eq_dec (Req c LockMsg) (Req p LockMsg)) as [E|E]; [congruence|].
      destruct (Nat.eqb_spec c p); [congruence|]. split; [exact A|exact B].
    + (* criticalSection *)
      destruct (net s p) as [|x0 l0] eqn:Hnp; [discriminate|]. rewrite <- Hnp in H.
      destruct pick as [m|]; [|discriminate].
      destruct (in_bag m (net s p)); [|discriminate].
      destruct (msg_eqb m Grant); [|discriminate]. injection H as <-. constructor; simpl; auto.
      intros c Hc. destruct (Ggone c Hc) as [A B]. unfold upd.
      destruct (Nat.eqb_spec 0 p); [lia|]. split; [exact A|].
      destruct (Nat.eqb_spec c p); [discriminate|exact B].
    + (* unlock *)
      injection H as <-. constructor; simpl; auto.
      intros c Hc. destruct (Ggone c Hc) as [A B].
      unfold send, upd. rewrite ?Nat.eqb_refl. simpl.
      destruct (msg_eq_dec (Req c LockMsg) (Req p UnlockMsg)) as [E|E]; [discriminate|].
      split; [exact A|]. destruct (Nat.eqb_spec c p); [discriminate|exact B].
Qed.

Theorem ginv_reachable : forall N s, reachable N s -> Ginv s.
Proof.
  intros N s H. induction H; [apply ginv_init|].
  eapply ginv_step; eauto. apply inv_reachable. assumption.
Qed.

(* FIFO service: the sequence of grants is a prefix of the sequence of Lock requests in the
   order the server received them, and no request is counted twice *)
Lemma fifo_service_lemma : forall N s, reachable N s ->
  NoDup (arrived s) /\ exists waiting, arrived s = granted s ++ waiting.
Proof.
  intros N s R. destruct (ginv_reachable N s R) as [A _ B]. split; [exact A|].
  exists (tl (q s) ++ pendL s). exact B.
Qed.

(* ------------------------------------------------------------------ grant only to a waiting client *)

Lemma cnt_grant_req : forall c t l, cnt Grant (Req c t :: l) = cnt Grant l.
Proof. intros. simpl. destruct (msg_eq_dec Grant (Req c t)); [discriminate|reflexivity]. Qed.

Lemma crit_not_locked : forall N s c, Inv N s -> cpc_ s c = CCrit -> hasLock s c = false.
Proof.
  intros N s c I H. destruct (hasLock s c) eqn:E; [|reflexivity].
  pose proof (i_lock _ _ I c E). congruence.
Qed.

(* whenever a step puts a Grant into network[c]: c's request has been received by the server,
   c has never been granted before, c is waiting at criticalSection without the lock and without a
   grant in flight, c is now the head of the queue, and this is the grant recorded in the history *)
Lemma grant_only_to_waiting_lemma : forall N s e s' c, reachable N s -> step N s e = Ok s' ->
  cnt Grant (net s' c) > cnt Grant (net s c) ->
  In c (arrived s) /\ ~ In c (granted s) /\ cpc_ s c = CCrit /\ hasLock s c = false /\
  cnt Grant (net s c) = 0 /\ hd_error (q s') = Some c /\ granted s' = granted s ++ [c].
Proof.
  intros N s [p pick] s' c R H Hgt.
  pose proof (inv_reachable N s R) as I. destruct (ginv_reachable N s R) as [Gnd Ggone Gsplit].
  unfold step in H. destruct (Nat.eqb_spec p 0) as [->|Hp0].
  - unfold server_step in H. destruct (spc_ s) eqn:Hpc; try discriminate.
    + injection H as <-. simpl in Hgt. lia.
    + destruct (net s 0) as [|x0 l0] eqn:Hn0; [discriminate|]. rewrite <- Hn0 in *.
      destruct pick as [m|]; [|discriminate].
      destruct (in_bag m (net s 0)) eqn:Hin; [|discriminate]. injection H as <-. simpl in Hgt.
      unfold upd in Hgt. destruct (Nat.eqb_spec c 0) as [->|]; [|lia].
      pose proof (cnt_rem1_le m Grant (net s 0)). lia.
    + destruct (smsg s) as [[from ty|n0]|] eqn:Hm; try discriminate.
      destruct (Nat.eqb_spec ty LockMsg) as [->|Hty1].
      * destruct (lock_facts N s from I Hpc Hm) as (_ & _ & Hcc & _ & Hc1 & _ & _).
        assert (Hpl : pendL s = [from]) by (unfold pendL; rewrite Hpc, Hm; reflexivity).
        rewrite Hpl in Gsplit.
        destruct (q s) as [|h q0] eqn:Hq; injection H as <-; simpl in Hgt; [|lia].
        unfold send, upd in Hgt. destruct (Nat.eqb_spec c from) as [->|]; [|lia].
        simpl in Gsplit. rewrite Gsplit in Gnd.
        assert (Ht0 : tokens s from = 0) by (eapply tokens0_of_nil; eauto).
        repeat split; simpl.
        -- rewrite Gsplit. apply in_or_app. right. left. reflexivity.
        -- intros Hin. apply NoDup_remove_2 in Gnd. rewrite app_nil_r in Gnd. exact (Gnd Hin).
        -- exact Hcc.
        -- eapply crit_not_locked; eauto.
        -- unfold tokens in Ht0. lia.
      * destruct (Nat.eqb_spec ty UnlockMsg) as [->|Hty2].
        -- assert (Hpl : pendL s = []) by (unfold pendL; rewrite Hpc, Hm; reflexivity).
           rewrite Hpl, app_nil_r in Gsplit.
           destruct (unlock_facts N s from I Hpc Hm) as (_ & _ & _ & _ & Hhd & _).
           destruct (q s) as [|c0 [|h q1]] eqn:Hq; try discriminate; injection H as <-; simpl in Hgt; [lia|].
           unfold send, upd in Hgt. destruct (Nat.eqb_spec c h) as [->|]; [|lia].
           simpl in Hhd. injection Hhd as ->. simpl in Gsplit. rewrite Gsplit in Gnd.
           pose proof (i_nodup _ _ I) as Hnd. rewrite Hq in Hnd.
           assert (Hne : h <> from) by (inversion Hnd as [|? ? Hn _]; simpl in Hn; intros ->; tauto).
           assert (Ht0 : tokens s h = 0).
           { pose proof (i_tok1 _ _ I h). pose proof (i_tokhd _ _ I h) as T. rewrite Hq in T. simpl in T.
             destruct (Nat.eq_dec (tokens s h) 1) as [E|E]; [specialize (T E); congruence|lia]. }
           assert (Hcc : cpc_ s h = CCrit).
           { destruct (i_q _ _ I h) as [A|[A|[A B]]]; [rewrite Hq; simpl; tauto|exact A|..];
               unfold tokens in Ht0; rewrite ?A in Ht0; simpl in Ht0; lia. }
           repeat split; simpl.
           ++ rewrite Gsplit. apply in_or_app. right. left. reflexivity.
           ++ intros Hin. apply NoDup_remove_2 in Gnd. apply Gnd. apply in_or_app. left. exact Hin.
           ++ exact Hcc.
           ++ eapply crit_not_locked; eauto.
           ++ unfold tokens in Ht0. lia.
        -- injection H as <-. simpl in Hgt. lia.
  - destruct (Nat.leb_spec p N) as [HpN|]; [|discriminate].
    unfold client_step in H. destruct (cpc_ s p) eqn:Hpc; try discriminate.
    + injection H as <-. simpl in Hgt. unfold send, upd in Hgt.
      destruct (Nat.eqb_spec c 0) as [->|]; [|lia]. rewrite cnt_grant_req in Hgt. lia.
    + destruct (net s p) as [|x0 l0] eqn:Hnp; [discriminate|]. rewrite <- Hnp in *.
      destruct pick as [m|]; [|discriminate].
      destruct (in_bag m (net s p)); [|discriminate].
      destruct (msg_eqb m Grant); [|discriminate]. injection H as <-. simpl in Hgt. unfold upd in Hgt.
      destruct (Nat.eqb_spec c p) as [->|]; [|lia]. pose proof (cnt_rem1_le m Grant (net s p)). lia.
    + injection H as <-. simpl in Hgt. unfold send, upd in Hgt.
      destruct (Nat.eqb_spec c 0) as [->|]; [|lia]. rewrite cnt_grant_req in Hgt. lia.
Qed.

(* ------------------------------------------------------------------ the ghost history is only history *)

Definition set_ghost (s : state) (a g : list nat) : state :=
  mkState (net s) (hasLock s) (smsg s) (q s) (spc_ s) (cpc_ s) a g.

Definition visible (s : state) :=
  (net s, hasLock s, smsg s, q s, spc_ s, cpc_ s).

Definition out_visible (o : outcome) :=
  match o with Ok s => Some (visible s) | _ => None end.

Lemma ghost_irrelevant_lemma : forall N s a g e,
  out_code (step N (set_ghost s a g) e) = out_code (step N s e) /\
  out_visible (step N (set_ghost s a g) e) = out_visible (step N s e).
Proof.
  intros N s a g [p pick]. unfold step.
  destruct (Nat.eqb p 0).
  - unfold server_step, set_ghost, set_spc; simpl. destruct (spc_ s); try (split; reflexivity).
    + destruct (net s 0); [split; reflexivity|]. destruct pick; [|split; reflexivity].
      destruct (in_bag m0 (m :: l)); split; reflexivity.
    + destruct (smsg s) as [[from ty|n0]|]; try (split; reflexivity).
      destruct (Nat.eqb ty LockMsg). { destruct (q s); split; reflexivity. }
      destruct (Nat.eqb ty UnlockMsg); [|split; reflexivity].
      destruct (q s) as [|c0 [|h q1]]; split; reflexivity.
  - destruct (Nat.leb p N); [|split; reflexivity].
    unfold client_step, set_ghost; simpl. destruct (cpc_ s p); try (split; reflexivity).
    destruct (net s p); [split; reflexivity|]. destruct pick; [|split; reflexivity].
    destruct (in_bag m0 (m :: l)); [|split; reflexivity]. destruct (msg_eqb m0 Grant); split; reflexivity.
Qed.

(* ------------------------------------------------------------------ small corollaries *)

Lemma at_most_one_token_lemma : forall N s c d, reachable N s ->
  tokens s c >= 1 -> tokens s d >= 1 -> c = d.
Proof.
  intros N s c d R Hc Hd. pose proof (inv_reachable N _ R) as I.
  pose proof (i_tok1 _ _ I c). pose proof (i_tok1 _ _ I d).
  pose proof (i_tokhd _ _ I c ltac:(lia)) as A. pose proof (i_tokhd _ _ I d ltac:(lia)) as B. congruence.
Qed.

Lemma exec_is_reachability_lemma : forall N s, reachable N s <-> exists evs, exec N evs = s.
Proof.
  intros N s. split; [apply reachable_exec|]. intros [evs <-]. apply exec_reachable.
Qed.
