(* C15 — proofs about the locksvc model: the token-counting invariant of DESIGN §11 (stated
   pointwise, without sums), and from it mutual exclusion, assertion-freedom,
   grant-only-to-waiting; FIFO service from a separate ghost-history invariant. *)
From PGV Require Import C15.Model.
From Coq Require Import Lia.
Local Arguments Nat.eqb : simpl never.
Local Arguments Nat.leb : simpl never.
Local Arguments msg_eq_dec : simpl never.

(* ------------------------------------------------------------------ reachability *)

Inductive reachable (N : nat) : state -> Prop :=
| R_init : reachable N init
| R_step : forall s e s', reachable N s -> step N s e = Ok s' -> reachable N s'.

Lemma next_reachable : forall N s e, reachable N s -> reachable N (next N s e).
Proof.
  intros N s e H. unfold next. destruct (step N s e) eqn:E; try exact H.
  eapply R_step; eauto.
Qed.

Lemma exec_from_reachable : forall N evs s, reachable N s -> reachable N (fold_left (next N) evs s).
Proof.
  intros N evs. induction evs as [|e evs IH]; intros s H; simpl; [exact H|].
  apply IH. apply next_reachable. exact H.
Qed.

Lemma exec_reachable : forall N evs, reachable N (exec N evs).
Proof. intros. apply exec_from_reachable. constructor. Qed.

Lemma reachable_exec : forall N s, reachable N s -> exists evs, exec N evs = s.
Proof.
  intros N s H. induction H as [|s e s' H [evs IH] Hs].
  - exists []. reflexivity.
  - exists (evs ++ [e]). unfold exec in *. rewrite fold_left_app. simpl. rewrite IH.
    unfold next. rewrite Hs. reflexivity.
Qed.

(* ------------------------------------------------------------------ bags *)

Lemma cnt_cons : forall m x l, cnt m (x :: l) = (if msg_eq_dec m x then 1 else 0) + cnt m l.
Proof. reflexivity. Qed.

Lemma cnt_rem1 : forall x m l, cnt x l > 0 ->
  cnt m (rem1 x l) + (if msg_eq_dec m x then 1 else 0) = cnt m l.
Proof.
  intros x m l. induction l as [|y l IH]; simpl; intros H; [lia|].
  destruct (msg_eq_dec x y) as [->|Hxy].
  - destruct (msg_eq_dec m y); lia.
  - simpl. destruct (msg_eq_dec x y); [congruence|]. simpl in H.
    specialize (IH ltac:(lia)). destruct (msg_eq_dec m y); destruct (msg_eq_dec m x); subst; try congruence; lia.
Qed.

Lemma in_bag_cnt : forall m l, in_bag m l = true -> cnt m l > 0.
Proof.
  unfold in_bag. intros m l H. destruct (Nat.eqb_spec (cnt m l) 0); simpl in H; [discriminate|lia].
Qed.

Lemma cnt_app : forall m a b, cnt m (a ++ b) = cnt m a + cnt m b.
Proof. intros m a b. induction a; simpl; lia. Qed.

(* ------------------------------------------------------------------ the invariant *)

Definition held (s : state) (m : msg) : nat :=
  match spc_ s, smsg s with
  | SRespond, Some m' => if msg_eq_dec m m' then 1 else 0
  | _, _ => 0
  end.

(* copies of m on their way to the server: in network[0] or being processed (server at serverRespond) *)
Definition pend (s : state) (m : msg) : nat := cnt m (net s 0) + held s m.

Definition unl (p : cpc) : nat := match p with CUnlock => 1 | _ => 0 end.

(* tokens(c) = #Grant in network[c] + [pc[c] = "unlock"] + #Unlock(c) pending at the server *)
Definition tokens (s : state) (c : nat) : nat :=
  cnt Grant (net s c) + unl (cpc_ s c) + pend s (Req c UnlockMsg).

Definition good (m : msg) : Prop := exists c t, m = Req c t /\ (t = 1 \/ t = 2).

Record Inv (N : nat) (s : state) : Prop := mkInv {
  i_wf0 : forall m, pend s m > 0 -> good m;
  i_sm : spc_ s = SRespond -> smsg s <> None;
  i_wfc : forall c m, c >= 1 -> cnt m (net s c) > 0 -> m = Grant;
  i_z : forall c, c = 0 \/ c > N -> cpc_ s c = CAcquire;
  i_tok1 : forall c, tokens s c <= 1;
  i_tokhd : forall c, tokens s c = 1 -> hd_error (q s) = Some c;
  i_hdtok : forall c, hd_error (q s) = Some c -> tokens s c = 1;
  i_lock : forall c, hasLock s c = true -> cpc_ s c = CUnlock;
  i_nodup : NoDup (q s);
  i_q : forall c, In c (q s) ->
        cpc_ s c = CCrit \/ cpc_ s c = CUnlock \/ (cpc_ s c = CDone /\ pend s (Req c UnlockMsg) = 1);
  i_l1 : forall c, pend s (Req c LockMsg) <= 1;
  i_l2 : forall c, pend s (Req c LockMsg) = 1 -> cpc_ s c = CCrit /\ ~ In c (q s);
  i_crit : forall c, cpc_ s c = CCrit -> pend s (Req c LockMsg) = 1 \/ In c (q s);
  i_unl : forall c, pend s (Req c UnlockMsg) >= 1 -> cpc_ s c = CDone
}.

Lemma inv_init : forall N, Inv N init.
Proof.
  intros N. constructor; unfold tokens, pend, held; simpl; intros; try lia; try discriminate;
    try contradiction; auto. constructor.
Qed.

(* derived facts *)
Lemma tokens0_of_nil : forall N s c, Inv N s -> q s = [] -> tokens s c = 0.
Proof.
  intros N s c I Hq. pose proof (i_tok1 _ _ I c). pose proof (i_tokhd _ _ I c) as H1.
  rewrite Hq in H1. simpl in H1. destruct (Nat.eq_dec (tokens s c) 1) as [E|E]; [specialize (H1 E); discriminate|lia].
Qed.

Lemma acquire_facts : forall N s c, Inv N s -> cpc_ s c = CAcquire ->
  pend s (Req c LockMsg) = 0 /\ ~ In c (q s) /\ tokens s c = 0 /\ pend s (Req c UnlockMsg) = 0.
Proof.
  intros N s c I Hc.
  assert (Hq : ~ In c (q s)).
  { intros Hin. destruct (i_q _ _ I c Hin) as [H|[H|[H _]]]; congruence. }
  assert (Hl : pend s (Req c LockMsg) = 0).
  { pose proof (i_l1 _ _ I c). destruct (Nat.eq_dec (pend s (Req c LockMsg)) 1) as [E|E]; [|lia].
    destruct (i_l2 _ _ I c E); congruence. }
  assert (Ht : tokens s c = 0).
  { pose proof (i_tok1 _ _ I c). destruct (Nat.eq_dec (tokens s c) 1) as [E|E]; [|lia].
    exfalso. apply Hq. pose proof (i_tokhd _ _ I c E) as Hh. destruct (q s); simpl in Hh; [discriminate|].
    injection Hh as ->. left; reflexivity. }
  repeat split; auto. unfold tokens in Ht. lia.
Qed.

(* a step that changes neither the pending counts, the client mailboxes' contents, nor q / hasLock / pc *)
Lemma inv_transfer : forall N s s',
  Inv N s ->
  q s' = q s -> hasLock s' = hasLock s -> cpc_ s' = cpc_ s ->
  (forall m, pend s' m = pend s m) ->
  (forall c m, c >= 1 -> cnt m (net s' c) = cnt m (net s c)) ->
  (forall c, cnt Grant (net s' c) = cnt Grant (net s c)) ->
  (spc_ s' = SRespond -> smsg s' <> None) ->
  Inv N s'.
Proof.
  intros N s s' I Hq Hh Hc Hp Hn Hg Hs.
  assert (Ht : forall c, tokens s' c = tokens s c).
  { intros c. unfold tokens. rewrite Hg, Hc, Hp. reflexivity. }
  destruct I as [Iwf0 Ism Iwfc Iz Itok1 Itokhd Ihdtok Ilock Inodup Iq Il1 Il2 Icrit Iunl]. constructor; try rewrite Hq; try rewrite Hh; try rewrite Hc; intros;
    repeat match goal with
    | H : context [pend s' _] |- _ => rewrite Hp in H
    | H : context [tokens s' _] |- _ => rewrite Ht in H
    | |- context [pend s' _] => rewrite Hp
    | |- context [tokens s' _] => rewrite Ht
    end; eauto.
  rewrite Hn in H0 by assumption. eauto.
Qed.

(* ------------------------------------------------------------------ preservation, case by case *)

Lemma held_not_respond : forall s m, spc_ s <> SRespond -> held s m = 0.
Proof. intros s m H. unfold held. destruct (spc_ s); try reflexivity. congruence. Qed.

Lemma inv_server_loop : forall N s, Inv N s -> spc_ s = SLoop -> Inv N (set_spc s SReceive).
Proof.
  intros N s I Hpc. apply (inv_transfer N s); auto; simpl; try discriminate.
  intros m. unfold pend. simpl. rewrite (held_not_respond s) by congruence. reflexivity.
Qed.

Lemma inv_server_receive : forall N s m, Inv N s -> spc_ s = SReceive -> in_bag m (net s 0) = true ->
  Inv N (mkState (upd (net s) 0 (rem1 m (net s 0))) (hasLock s) (Some m) (q s) SRespond (cpc_ s)
                 (match m with Req c 1 => arrived s ++ [c] | _ => arrived s end) (granted s)).
Proof.
  intros N s m I Hpc Hin. apply in_bag_cnt in Hin.
  assert (Hgood : good m).
  { apply (i_wf0 _ _ I). unfold pend. lia. }
  apply (inv_transfer N s); auto; simpl; try discriminate.
  - intros x. unfold pend. rewrite (held_not_respond s x) by congruence. unfold held, upd. simpl.
    pose proof (cnt_rem1 m x (net s 0) Hin). lia.
  - intros c x Hc. unfold upd. destruct (Nat.eqb_spec c 0); [lia|reflexivity].
  - intros c. unfold upd. destruct (Nat.eqb_spec c 0) as [->|]; [|reflexivity].
    pose proof (cnt_rem1 m Grant (net s 0) Hin). destruct (msg_eq_dec Grant m) as [<-|]; [|lia].
    destruct Hgood as (c & t & E & _). discriminate.
Qed.

Lemma inv_server_other : forall N s, Inv N s -> spc_ s = SRespond ->
  (forall m, held s m = 0) -> Inv N (set_spc s SLoop).
Proof.
  intros N s I Hpc Hh. apply (inv_transfer N s); auto; simpl; try discriminate.
  intros m. unfold pend. simpl. rewrite Hh. unfold held. simpl. reflexivity.
Qed.

Ltac deq := repeat match goal with
  | |- context [msg_eq_dec ?a ?b] => destruct (msg_eq_dec a b)
  | H : context [msg_eq_dec ?a ?b] |- _ => destruct (msg_eq_dec a b)
  | |- context [Nat.eqb ?a ?b] => destruct (Nat.eqb_spec a b)
  | H : context [Nat.eqb ?a ?b] |- _ => destruct (Nat.eqb_spec a b)
  end.

Ltac inst I x :=
  pose proof (i_tok1 _ _ I x); pose proof (i_tokhd _ _ I x); pose proof (i_hdtok _ _ I x);
  pose proof (i_lock _ _ I x); pose proof (i_q _ _ I x); pose proof (i_l1 _ _ I x);
  pose proof (i_l2 _ _ I x); pose proof (i_crit _ _ I x); pose proof (i_unl _ _ I x);
  pose proof (i_z _ _ I x).

Ltac instlast I := try match goal with c0 : nat |- _ => inst I c0 end.

Ltac inj := repeat match goal with
  | H : Req _ _ = Req _ _ |- _ => injection H; clear H; intros
  | H : Some _ = Some _ |- _ => injection H; clear H; intros
  end.

(* forward chaining: discharge premises that are arithmetic or already known *)
Ltac spec := repeat match goal with
  | H : ?P -> _ |- _ =>
      let hp := fresh in
      assert (hp : P) by (first [assumption | lia | congruence | tauto]); specialize (H hp); clear hp
  end.

Ltac fin := unfold LockMsg, UnlockMsg in *; deq; inj; subst; simpl in *; try discriminate; try congruence; try lia;
  spec; intuition (try discriminate; try congruence; try lia).

(* the two well-formedness fields, whose proofs need the old invariant applied backwards *)
Ltac wf I :=
  match goal with
  | |- good _ => apply (i_wf0 _ _ I); unfold pend, held in *; simpl in *; fin
  | |- _ = Grant =>
      unfold send, upd in *; deq; subst; simpl in *; deq; subst; try congruence; try lia;
      try (eapply (i_wfc _ _ I); [|eassumption]; lia)
  end.

Lemma NoDup_snoc : forall (l : list nat) c, NoDup l -> ~ In c l -> NoDup (l ++ [c]).
Proof.
  intros l c H. induction H as [|x l Hx H IH]; simpl; intros Hc.
  - repeat constructor. simpl. tauto.
  - constructor.
    + intros Hin. apply in_app_or in Hin. destruct Hin as [Hin|[<-|[]]]; tauto.
    + apply IH. tauto.
Qed.

(* server processes Lock(c): facts *)
Lemma lock_facts : forall N s c, Inv N s -> spc_ s = SRespond -> smsg s = Some (Req c LockMsg) ->
  (forall m, held s m = if msg_eq_dec m (Req c LockMsg) then 1 else 0) /\
  pend s (Req c LockMsg) = 1 /\ cpc_ s c = CCrit /\ ~ In c (q s) /\ c >= 1 /\ c <= N /\
  cnt (Req c LockMsg) (net s 0) = 0.
Proof.
  intros N s c I Hpc Hm.
  assert (Hheld : forall m, held s m = if msg_eq_dec m (Req c LockMsg) then 1 else 0).
  { intros m. unfold held. rewrite Hpc, Hm. reflexivity. }
  assert (Hpl : pend s (Req c LockMsg) = 1).
  { pose proof (i_l1 _ _ I c). unfold pend in *. rewrite Hheld in *. deq; try congruence. lia. }
  destruct (i_l2 _ _ I c Hpl) as [Hcc Hnq].
  assert (Hc1 : c >= 1 /\ c <= N).
  { destruct (Nat.eq_dec c 0) as [->|]; [pose proof (i_z _ _ I 0 (or_introl eq_refl)); congruence|].
    destruct (le_lt_dec c N); [lia|]. pose proof (i_z _ _ I c (or_intror l)); congruence. }
  assert (Hcnt0 : cnt (Req c LockMsg) (net s 0) = 0).
  { unfold pend in Hpl. rewrite Hheld in Hpl. deq; try congruence. lia. }
  tauto.
Qed.

Lemma inv_server_lock_nil : forall N s c, Inv N s -> spc_ s = SRespond -> smsg s = Some (Req c LockMsg) ->
  q s = [] ->
  Inv N (mkState (send (net s) c Grant) (hasLock s) (smsg s) (q s ++ [c]) SLoop (cpc_ s)
                 (arrived s) (granted s ++ [c])).
Proof.
  intros N s c I Hpc Hm Hq.
  destruct (lock_facts N s c I Hpc Hm) as (Hheld & Hpl & Hcc & Hnq & Hc1 & HcN & Hcnt0).
  assert (Htok0 : forall c', tokens s c' = 0) by (intros; eapply tokens0_of_nil; eauto).
  set (s' := mkState _ _ _ _ _ _ _ _).
  assert (Hp' : forall m, pend s' m = pend s m - (if msg_eq_dec m (Req c LockMsg) then 1 else 0)).
  { intros m. unfold pend, held, s', send, upd. simpl. destruct (Nat.eqb_spec 0 c); [lia|].
    fold (held s m). rewrite Hheld. deq; lia. }
  assert (Ht' : forall c', tokens s' c' = if Nat.eqb c' c then 1 else 0).
  { intros c'. pose proof (Htok0 c') as T. unfold tokens in *. rewrite Hp'. unfold s', send, upd. simpl.
    destruct (Nat.eqb_spec c' c) as [->|]; simpl; deq; try discriminate; unfold UnlockMsg, LockMsg in *; try congruence; lia. }
  constructor; intros; rewrite ?Hp', ?Ht' in *; unfold s' in *; simpl in *; instlast I; rewrite ?Hq in *; simpl in *.
  all: try solve [fin | wf I].
  repeat constructor; simpl; tauto.
Qed.

Lemma inv_server_lock_cons : forall N s c h q0, Inv N s -> spc_ s = SRespond -> smsg s = Some (Req c LockMsg) ->
  q s = h :: q0 ->
  Inv N (mkState (net s) (hasLock s) (smsg s) (q s ++ [c]) SLoop (cpc_ s) (arrived s) (granted s)).
Proof.
  intros N s c h q0 I Hpc Hm Hq.
  destruct (lock_facts N s c I Hpc Hm) as (Hheld & Hpl & Hcc & Hnq & Hc1 & HcN & Hcnt0).
  set (s' := mkState _ _ _ _ _ _ _ _).
  assert (Hp' : forall m, pend s' m = pend s m - (if msg_eq_dec m (Req c LockMsg) then 1 else 0)).
  { intros m. unfold pend, held, s'. simpl. fold (held s m). rewrite Hheld. deq; lia. }
  assert (Ht' : forall c', tokens s' c' = tokens s c').
  { intros c'. unfold tokens. rewrite Hp'. unfold s'. simpl. unfold LockMsg, UnlockMsg. deq; [discriminate|lia]. }
  constructor; intros; rewrite ?Hp', ?Ht' in *; unfold s' in *; simpl in *; instlast I; rewrite ?Hq in *; simpl in *; rewrite ?in_app_iff in *; simpl in *.
  all: try solve [fin | wf I].
  change (NoDup ((h :: q0) ++ [c])). apply NoDup_snoc; [rewrite <- Hq; exact (i_nodup _ _ I)|simpl; exact Hnq].
Qed.

(* server processes Unlock(c): facts *)
Lemma unlock_facts : forall N s c, Inv N s -> spc_ s = SRespond -> smsg s = Some (Req c UnlockMsg) ->
  (forall m, held s m = if msg_eq_dec m (Req c UnlockMsg) then 1 else 0) /\
  pend s (Req c UnlockMsg) = 1 /\ cpc_ s c = CDone /\ tokens s c = 1 /\ hd_error (q s) = Some c /\
  cnt Grant (net s c) = 0 /\ cnt (Req c UnlockMsg) (net s 0) = 0 /\ c >= 1.
Proof.
  intros N s c I Hpc Hm.
  assert (Hheld : forall m, held s m = if msg_eq_dec m (Req c UnlockMsg) then 1 else 0).
  { intros m. unfold held. rewrite Hpc, Hm. reflexivity. }
  assert (Hp1 : pend s (Req c UnlockMsg) >= 1).
  { unfold pend. rewrite Hheld. deq; try congruence. lia. }
  pose proof (i_unl _ _ I c Hp1) as Hcd.
  pose proof (i_tok1 _ _ I c) as Ht1.
  assert (Ht : tokens s c = 1) by (unfold tokens in *; lia).
  pose proof (i_tokhd _ _ I c Ht) as Hhd.
  assert (c >= 1).
  { destruct (Nat.eq_dec c 0) as [->|]; [pose proof (i_z _ _ I 0 (or_introl eq_refl)); congruence|lia]. }
  unfold tokens, pend in *. rewrite Hheld in *. rewrite Hcd in *. simpl in *. deq; try congruence.
  repeat split; auto; lia.
Qed.

Lemma inv_server_unlock_nil : forall N s c, Inv N s -> spc_ s = SRespond -> smsg s = Some (Req c UnlockMsg) ->
  q s = [c] ->
  Inv N (mkState (net s) (hasLock s) (smsg s) [] SLoop (cpc_ s) (arrived s) (granted s)).
Proof.
  intros N s c I Hpc Hm Hq.
  destruct (unlock_facts N s c I Hpc Hm) as (Hheld & Hpl & Hcd & Htc & Hhd & Hg0 & Hcnt0 & Hc1).
  set (s' := mkState _ _ _ _ _ _ _ _).
  assert (Hp' : forall m, pend s' m = pend s m - (if msg_eq_dec m (Req c UnlockMsg) then 1 else 0)).
  { intros m. unfold pend, held, s'. simpl. fold (held s m). rewrite Hheld. deq; lia. }
  assert (Ht' : forall c', tokens s' c' = 0).
  { intros c'. pose proof (i_tok1 _ _ I c'). pose proof (i_tokhd _ _ I c') as Hh. rewrite Hq in Hh. simpl in Hh.
    unfold tokens in *. rewrite Hp'. unfold s'. simpl.
    destruct (msg_eq_dec (Req c' UnlockMsg) (Req c UnlockMsg)) as [E|E]; [injection E as ->; lia|].
    destruct (Nat.eq_dec c' c) as [->|]; [congruence|].
    destruct (Nat.eq_dec (cnt Grant (net s c') + unl (cpc_ s c') + pend s (Req c' UnlockMsg)) 1) as [E1|E1]; [|lia].
    specialize (Hh E1). congruence. }
  constructor; intros; rewrite ?Hp', ?Ht' in *; unfold s' in *; simpl in *; instlast I; rewrite ?Hq in *; simpl in *; rewrite ?in_app_iff in *; simpl in *.
  all: try solve [fin | wf I].
  constructor.
Qed.

Lemma inv_server_unlock_cons : forall N s c h q1, Inv N s -> spc_ s = SRespond -> smsg s = Some (Req c UnlockMsg) ->
  q s = c :: h :: q1 ->
  Inv N (mkState (send (net s) h Grant) (hasLock s) (smsg s) (h :: q1) SLoop (cpc_ s) (arrived s) (granted s ++ [h])).
Proof.
  intros N s c h q1 I Hpc Hm Hq.
  destruct (unlock_facts N s c I Hpc Hm) as (Hheld & Hpl & Hcd & Htc & Hhd & Hg0 & Hcnt0 & Hc1).
  pose proof (i_nodup _ _ I) as Hnd. rewrite Hq in Hnd.
  assert (Hhc : h <> c).
  { inversion Hnd as [|? ? Hn _]; subst. simpl in Hn. intros ->. tauto. }
  assert (Hh1 : h >= 1).
  { destruct (Nat.eq_dec h 0) as [->|]; [|lia]. pose proof (i_z _ _ I 0 (or_introl eq_refl)) as Z.
    destruct (i_q _ _ I 0) as [A|[A|[A _]]]; [rewrite Hq; simpl; tauto|congruence..]. }
  set (s' := mkState _ _ _ _ _ _ _ _).
  assert (Hp' : forall m, pend s' m = pend s m - (if msg_eq_dec m (Req c UnlockMsg) then 1 else 0)).
  { intros m. unfold pend, held, s', send, upd. simpl. destruct (Nat.eqb_spec 0 h); [lia|].
    fold (held s m). rewrite Hheld. deq; lia. }
  assert (Ht' : forall c', tokens s' c' = if Nat.eqb c' h then 1 else 0).
  { intros c'. pose proof (i_tok1 _ _ I c'). pose proof (i_tokhd _ _ I c') as Hh. rewrite Hq in Hh. simpl in Hh.
    unfold tokens in *. rewrite Hp'. unfold s', send, upd. simpl.
    destruct (msg_eq_dec (Req c' UnlockMsg) (Req c UnlockMsg)) as [E|E].
    - injection E as ->. destruct (Nat.eqb_spec c h); [congruence|]. lia.
    - assert (c' <> c) by congruence.
      assert (cnt Grant (net s c') + unl (cpc_ s c') + pend s (Req c' UnlockMsg) = 0).
      { destruct (Nat.eq_dec (cnt Grant (net s c') + unl (cpc_ s c') + pend s (Req c' UnlockMsg)) 1) as [E1|E1]; [|lia].
        specialize (Hh E1). congruence. }
      destruct (Nat.eqb_spec c' h); subst; simpl; deq; try discriminate; lia. }
  constructor; intros; rewrite ?Hp', ?Ht' in *; unfold s' in *; simpl in *; instlast I; rewrite ?Hq in *; simpl in *; rewrite ?in_app_iff in *; simpl in *.
  all: try solve [fin | wf I].
  - inversion Hnd; assumption.
  - assert (c0 <> c) by (intros ->; inversion Hnd as [|? ? Hn _]; simpl in Hn; tauto). fin.
Qed.

(* client c: acquireLock *)
Lemma inv_client_acquire : forall N s c, Inv N s -> 1 <= c <= N -> cpc_ s c = CAcquire ->
  Inv N (mkState (send (net s) 0 (Req c LockMsg)) (hasLock s) (smsg s) (q s) (spc_ s)
                 (upd (cpc_ s) c CCrit) (arrived s) (granted s)).
Proof.
  intros N s c I Hc Hpc.
  destruct (acquire_facts N s c I Hpc) as (Hl0 & Hnq & Ht0 & Hu0).
  set (s' := mkState _ _ _ _ _ _ _ _).
  assert (Hp' : forall m, pend s' m = pend s m + (if msg_eq_dec m (Req c LockMsg) then 1 else 0)).
  { intros m. unfold pend, held, s', send, upd. simpl. lia. }
  assert (Ht' : forall c', tokens s' c' = tokens s c').
  { intros c'. unfold tokens. rewrite Hp'. unfold s', send, upd. simpl. unfold LockMsg, UnlockMsg.
    destruct (Nat.eqb_spec c' 0); destruct (Nat.eqb_spec c' c); subst; simpl; deq; try discriminate; try lia.
    rewrite Hpc. simpl. lia. }
  constructor; intros; rewrite ?Hp', ?Ht' in *; unfold s' in *; simpl in *; instlast I; unfold upd in *; simpl in *.
  all: try solve [fin | wf I].
  - destruct (msg_eq_dec m (Req c LockMsg)) as [->|]; [exists c, 1; auto|apply (i_wf0 _ _ I); lia].
  - apply (i_sm _ _ I); assumption.
  - exact (i_nodup _ _ I).
Qed.

(* client c: criticalSection, reading a Grant *)
Lemma inv_client_crit : forall N s c, Inv N s -> 1 <= c <= N -> cpc_ s c = CCrit ->
  cnt Grant (net s c) > 0 ->
  Inv N (mkState (upd (net s) c (rem1 Grant (net s c))) (upd (hasLock s) c true) (smsg s) (q s)
                 (spc_ s) (upd (cpc_ s) c CUnlock) (arrived s) (granted s)).
Proof.
  intros N s c I Hc Hpc Hg.
  assert (Htc : tokens s c = 1) by (pose proof (i_tok1 _ _ I c); unfold tokens in *; lia).
  pose proof (i_tokhd _ _ I c Htc) as Hhd.
  assert (Hin : In c (q s)) by (destruct (q s); simpl in Hhd; [discriminate|injection Hhd as ->; left; reflexivity]).
  assert (Hl0 : pend s (Req c LockMsg) = 0).
  { pose proof (i_l1 _ _ I c). destruct (Nat.eq_dec (pend s (Req c LockMsg)) 1) as [E|E]; [|lia].
    destruct (i_l2 _ _ I c E); tauto. }
  set (s' := mkState _ _ _ _ _ _ _ _).
  assert (Hp' : forall m, pend s' m = pend s m).
  { intros m. unfold pend, held, s', upd. simpl. destruct (Nat.eqb_spec 0 c); [lia|reflexivity]. }
  assert (Ht' : forall c', tokens s' c' = tokens s c').
  { intros c'. unfold tokens. rewrite Hp'. unfold s', upd. simpl.
    destruct (Nat.eqb_spec c' c); subst; simpl; [|lia].
    pose proof (cnt_rem1 Grant Grant (net s c) Hg). rewrite Hpc. deq; try congruence. simpl. lia. }
  constructor; intros; rewrite ?Hp', ?Ht' in *; unfold s' in *; simpl in *; instlast I; unfold upd in *; simpl in *.
  all: try solve [fin | wf I].
  - apply (i_sm _ _ I); assumption.
  - destruct (Nat.eqb_spec c0 c) as [->|].
    + pose proof (cnt_rem1 Grant m (net s c) Hg). apply (i_wfc _ _ I c m); lia.
    + apply (i_wfc _ _ I c0 m); assumption.
  - exact (i_nodup _ _ I).
Qed.

(* client c: unlock *)
Lemma inv_client_unlock : forall N s c, Inv N s -> 1 <= c <= N -> cpc_ s c = CUnlock ->
  Inv N (mkState (send (net s) 0 (Req c UnlockMsg)) (upd (hasLock s) c false) (smsg s) (q s) (spc_ s)
                 (upd (cpc_ s) c CDone) (arrived s) (granted s)).
Proof.
  intros N s c I Hc Hpc.
  assert (Htc : tokens s c = 1) by (pose proof (i_tok1 _ _ I c); unfold tokens in *; rewrite Hpc in *; simpl in *; lia).
  assert (Hu0 : pend s (Req c UnlockMsg) = 0 /\ cnt Grant (net s c) = 0)
    by (unfold tokens in Htc; rewrite Hpc in Htc; simpl in Htc; lia).
  destruct Hu0 as [Hu0 Hg0].
  pose proof (i_tokhd _ _ I c Htc) as Hhd.
  assert (Hl0 : pend s (Req c LockMsg) = 0).
  { pose proof (i_l1 _ _ I c). destruct (Nat.eq_dec (pend s (Req c LockMsg)) 1) as [E|E]; [|lia].
    destruct (i_l2 _ _ I c E); congruence. }
  set (s' := mkState _ _ _ _ _ _ _ _).
  assert (Hp' : forall m, pend s' m = pend s m + (if msg_eq_dec m (Req c UnlockMsg) then 1 else 0)).
  { intros m. unfold pend, held, s', send, upd. simpl. lia. }
  assert (Ht' : forall c', tokens s' c' = tokens s c').
  { intros c'. unfold tokens. rewrite Hp'. unfold s', send, upd. simpl. unfold LockMsg, UnlockMsg.
    destruct (Nat.eqb_spec c' 0); destruct (Nat.eqb_spec c' c); subst; simpl; deq; try discriminate; try congruence; try lia.
    rewrite Hpc. simpl. lia. }
  constructor; intros; rewrite ?Hp', ?Ht' in *; unfold s' in *; simpl in *; instlast I; unfold upd in *; simpl in *.
  all: try solve [fin | wf I].
  - destruct (msg_eq_dec m (Req c UnlockMsg)) as [->|]; [exists c, 2; auto|apply (i_wf0 _ _ I); lia].
  - apply (i_sm _ _ I); assumption.
  - exact (i_nodup _ _ I).
Qed.

(* ------------------------------------------------------------------ the step lemma *)

Lemma step_inv : forall N s e s', Inv N s -> step N s e = Ok s' -> Inv N s'.
Proof.
  intros N s [p pick] s' I H. unfold step in H.
  destruct (Nat.eqb_spec p 0) as [->|Hp0].
  - (* server *)
    unfold server_step in H. destruct (spc_ s) eqn:Hpc.
    + injection H as <-. apply inv_server_loop; assumption.
    + destruct (net s 0) as [|x0 l0] eqn:Hn0; [discriminate|]. rewrite <- Hn0 in H.
      destruct pick as [m|]; [|discriminate].
      destruct (in_bag m (net s 0)) eqn:Hin; [|discriminate]. injection H as <-.
      apply inv_server_receive; assumption.
    + destruct (smsg s) as [[from ty|n0]|] eqn:Hm; try discriminate.
      destruct (Nat.eqb_spec ty LockMsg) as [->|Hty1].
      * destruct (q s) as [|h q0] eqn:Hq; injection H as <-.
        -- pose proof (inv_server_lock_nil N s from I Hpc Hm Hq) as X. rewrite ?Hm, ?Hq in X. exact X.
        -- pose proof (inv_server_lock_cons N s from h q0 I Hpc Hm Hq) as X. rewrite ?Hm, ?Hq in X. exact X.
      * destruct (Nat.eqb_spec ty UnlockMsg) as [->|Hty2].
        -- destruct (q s) as [|c0 [|h q1]] eqn:Hq; try discriminate; injection H as <-.
           ++ destruct (unlock_facts N s from I Hpc Hm) as (_ & _ & _ & _ & Hhd & _).
              rewrite Hq in Hhd. injection Hhd as ->.
              pose proof (inv_server_unlock_nil N s from I Hpc Hm Hq) as X. rewrite ?Hm, ?Hq in X. exact X.
           ++ destruct (unlock_facts N s from I Hpc Hm) as (_ & _ & _ & _ & Hhd & _).
              rewrite Hq in Hhd. injection Hhd as ->.
              pose proof (inv_server_unlock_cons N s from h q1 I Hpc Hm Hq) as X. rewrite ?Hm, ?Hq in X. exact X.
        -- exfalso. assert (Hg : good (Req from ty)).
           { apply (i_wf0 _ _ I). unfold pend, held. rewrite Hpc, Hm. deq; [lia|congruence]. }
           destruct Hg as (c & t & E & Ht). injection E as _ ->. unfold LockMsg, UnlockMsg in *. lia.
    + discriminate.
  - destruct (Nat.leb_spec p N) as [HpN|]; [|discriminate].
    assert (Hc : 1 <= p <= N) by lia.
    unfold client_step in H. destruct (cpc_ s p) eqn:Hpc.
    + injection H as <-. apply inv_client_acquire; assumption.
    + destruct (net s p) as [|x0 l0] eqn:Hnp; [discriminate|]. rewrite <- Hnp in H.
      destruct pick as [m|]; [|discriminate].
      destruct (in_bag m (net s p)) eqn:Hin; [|discriminate].
      unfold msg_eqb in H. destruct (msg_eq_dec m Grant) as [->|]; [|discriminate].
      injection H as <-. apply inv_client_crit; auto. apply in_bag_cnt; assumption.
    + injection H as <-. apply inv_client_unlock; assumption.
    + discriminate.
Qed.

Theorem inv_reachable : forall N s, reachable N s -> Inv N s.
Proof.
  intros N s H. induction H; [apply inv_init|eapply step_inv; eauto].
Qed.

(* ------------------------------------------------------------------ mutual exclusion, assertion freedom *)

Lemma lock_holder_is_head : forall N s c, Inv N s -> hasLock s c = true -> hd_error (q s) = Some c.
Proof.
  intros N s c I H. pose proof (i_lock _ _ I c H) as Hu. apply (i_tokhd _ _ I).
  pose proof (i_tok1 _ _ I c). unfold tokens in *. rewrite Hu in *. simpl in *. lia.
Qed.

Lemma mutual_exclusion_lemma : forall N s, reachable N s ->
  forall i j, i <> j -> hasLock s i = true -> hasLock s j = false.
Proof.
  intros N s R i j Hij Hi. apply inv_reachable in R.
  destruct (hasLock s j) eqn:Hj; [|reflexivity]. exfalso.
  pose proof (lock_holder_is_head N s i R Hi). pose proof (lock_holder_is_head N s j R Hj). congruence.
Qed.

Lemma assertion_free_lemma : forall N s e, reachable N s ->
  step N s e <> AssertFail /\ step N s e <> TypeError.
Proof.
  intros N s [p pick] R. apply inv_reachable in R. rename R into I. unfold step.
  destruct (Nat.eqb_spec p 0) as [->|Hp0].
  - unfold server_step. destruct (spc_ s) eqn:Hpc; try (split; discriminate).
    + destruct (net s 0); [split; discriminate|]. destruct pick; [|split; discriminate].
      destruct (in_bag m0 (m :: l)); split; discriminate.
    + destruct (smsg s) as [[from ty|n0]|] eqn:Hm.
      * destruct (Nat.eqb_spec ty LockMsg) as [->|].
        { destruct (q s); split; discriminate. }
        destruct (Nat.eqb_spec ty UnlockMsg) as [->|]; [|split; discriminate].
        destruct (unlock_facts N s from I Hpc Hm) as (_ & _ & _ & _ & Hhd & _).
        destruct (q s) as [|c0 [|h q1]]; [discriminate|split; discriminate..].
      * exfalso. assert (Hg : good (Num n0)).
        { apply (i_wf0 _ _ I). unfold pend, held. rewrite Hpc, Hm. deq; [lia|congruence]. }
        destruct Hg as (c & t & E & _). discriminate.
      * exfalso. apply (i_sm _ _ I Hpc Hm).
  - destruct (Nat.leb_spec p N) as [HpN|]; [|split; discriminate].
    unfold client_step. destruct (cpc_ s p) eqn:Hpc; try (split; discriminate).
    destruct (net s p) as [|x0 l0] eqn:Hnp; [split; discriminate|]. rewrite <- Hnp.
    destruct pick as [m|]; [|split; discriminate].
    destruct (in_bag m (net s p)) eqn:Hin; [|split; discriminate].
    apply in_bag_cnt in Hin. rewrite (i_wfc _ _ I p m) by (try assumption; lia).
    unfold msg_eqb. destruct (msg_eq_dec Grant Grant); [split; discriminate|congruence].
Qed.
