(* C10 — proofs about the fairness-counter model. *)
From PGV Require Import C10.Model.
From Coq Require Import Lia ZifyN ZifyNat ZifyBool Arith.
Ltac Zify.zify_post_hook ::= Z.div_mod_to_equations.
Open Scope N_scope.

(* ---------- representation invariant and mixed-radix reading ---------- *)

Definition valid (st : list digit) : Prop := Forall (fun d => d_count d < d_ceil d) st.

Fixpoint prod (st : list digit) : N :=
  match st with [] => 1 | d :: r => d_ceil d * prod r end.

Fixpoint val (st : list digit) : N :=
  match st with [] => 0 | d :: r => d_count d * prod r + val r end.

Definition shape (st : list digit) : list (string * N) := map (fun d => (d_id d, d_ceil d)) st.

Lemma prod_pos st : valid st -> 0 < prod st.
Proof.
  induction st as [|d r IH]; intros H; cbn [prod]; [lia|].
  inversion H as [|? ? Hd Hr]; subst. specialize (IH Hr). nia.
Qed.

Lemma val_lt_prod st : valid st -> val st < prod st.
Proof.
  induction st as [|d r IH]; intros H; cbn [prod val]; [lia|].
  inversion H as [|? ? Hd Hr]; subst. specialize (IH Hr).
  pose proof (prod_pos r Hr). nia.
Qed.

Lemma incr_spec st :
  valid st ->
  valid (fst (incr st)) /\ shape (fst (incr st)) = shape st /\
  val (fst (incr st)) + snd (incr st) * prod st = val st + 1 /\ snd (incr st) <= 1.
Proof.
  induction st as [|d r IH]; intros H.
  - cbn. repeat split; try constructor; lia.
  - inversion H as [|? ? Hd Hr]; subst. destruct (IH Hr) as (IHv & IHs & IHe & IHc).
    cbn [incr]. destruct (incr r) as [r' carry] eqn:E. cbn [fst snd] in *.
    assert (Hp: prod r' = prod r).
    { clear -IHs. revert r IHs. induction r' as [|x xs IHx]; intros [|y ys] Hs; cbn in *; try discriminate; auto.
      inversion Hs. f_equal; auto. }
    destruct (d_ceil d <=? d_count d + carry) eqn:Hc; cbn [fst snd shape map val prod d_count d_ceil d_id].
    + apply N.leb_le in Hc.
      assert (d_count d + carry = d_ceil d) by lia.
      replace ((d_count d + carry) mod d_ceil d) with 0 by (rewrite H0, N.mod_same; lia).
      replace ((d_count d + carry) / d_ceil d) with 1 by (rewrite H0, N.div_same; lia).
      repeat split.
      * constructor; [cbn; lia | exact IHv].
      * fold (shape r') (shape r). now rewrite IHs.
      * rewrite Hp. nia.
      * lia.
    + apply N.leb_gt in Hc. repeat split.
      * constructor; [cbn; lia | exact IHv].
      * fold (shape r') (shape r). now rewrite IHs.
      * rewrite Hp. nia.
      * lia.
Qed.

Lemma shape_prod a b : shape a = shape b -> prod a = prod b.
Proof.
  revert b. induction a as [|x xs IH]; intros [|y ys] H; cbn in *; try discriminate; auto.
  inversion H. f_equal; auto.
Qed.

Lemma incr_val st : valid st -> val (fst (incr st)) = (val st + 1) mod prod st.
Proof.
  intros H. destruct (incr_spec st H) as (Hv & Hs & He & Hc).
  pose proof (val_lt_prod _ Hv) as Hlt. rewrite (shape_prod _ _ Hs) in Hlt.
  pose proof (prod_pos _ H).
  assert (snd (incr st) = 0 \/ snd (incr st) = 1) as [E|E] by lia; rewrite E in He.
  - rewrite N.mod_small; lia.
  - assert (val st + 1 = prod st) by (pose proof (val_lt_prod _ H); lia).
    rewrite H1, N.mod_same by lia. lia.
Qed.

Lemma radix_unique a b r r' p : r < p -> r' < p -> a * p + r = b * p + r' -> a = b /\ r = r'.
Proof.
  intros Hr Hr' E.
  assert (a = (a * p + r) / p) by (apply N.div_unique with r; lia).
  assert (b = (b * p + r') / p) by (apply N.div_unique with r'; lia).
  assert (a = b) by congruence. subst. split; auto. lia.
Qed.

(* injectivity of the mixed-radix reading on valid stacks of the same shape *)
Lemma val_inj a b :
  valid a -> valid b -> shape a = shape b -> val a = val b -> map d_count a = map d_count b.
Proof.
  revert b. induction a as [|x xs IH]; intros [|y ys] Ha Hb Hs Hv; cbn in *; try discriminate; auto.
  inversion Ha as [|? ? Hx Hxs]; inversion Hb as [|? ? Hy Hys]; subst.
  inversion Hs as [[Hid Hc Hrest]]. fold (shape xs) (shape ys) in Hrest.
  pose proof (shape_prod _ _ Hrest) as Hp.
  pose proof (val_lt_prod _ Hxs). pose proof (val_lt_prod _ Hys). rewrite Hp in *.
  assert (d_count x = d_count y /\ val xs = val ys) as [E1 E2] by (eapply radix_unique; eauto).
  f_equal; auto.
Qed.

(* ---------- in_range / robust_change ---------- *)

Definition Inv (s : fc) : Prop := valid (fc_stack s) /\ (fc_idx s <= List.length (fc_stack s))%nat.

Lemma valid_firstn n st : valid st -> valid (firstn n st).
Proof.
  revert st; induction n as [|n IH]; intros st H; cbn; [constructor|].
  destruct st as [|d r]; [constructor|]. inversion H; subst. constructor; auto. apply IH; auto.
Qed.

Lemma begin_cs_inv pc s : valid (fc_stack s) -> Inv (begin_cs pc s).
Proof.
  intros H. unfold begin_cs, Inv. cbn [fc_stack fc_idx]. split; [|lia].
  destruct (String.eqb pc (fc_pc s)).
  - apply incr_spec; auto.
  - cbn. constructor.
Qed.

Lemma next_counter_inv id c r s :
  0 < c -> Inv s ->
  Inv (fst (next_counter id c r s)) /\
  exists v, snd (next_counter id c r s) = Ret v /\ v < c /\
    exists d, nth_error (fc_stack (fst (next_counter id c r s))) (fc_idx s) = Some d /\
              d_id d = id /\ d_ceil d = c /\ d_count d = v.
Proof.
  intros Hc [Hv Hi]. unfold next_counter.
  destruct (Nat.ltb (List.length (fc_stack s)) (fc_idx s)) eqn:Hl.
  { apply Nat.ltb_lt in Hl. lia. }
  set (st := match nth_error (fc_stack s) (fc_idx s) with
             | Some d => if (String.eqb (d_id d) id && (d_ceil d =? c))%bool then fc_stack s
                         else firstn (fc_idx s) (fc_stack s)
             | None => fc_stack s end).
  assert (Hst: valid st /\ (fc_idx s <= List.length st)%nat /\
     (forall d, nth_error st (fc_idx s) = Some d -> d_id d = id /\ d_ceil d = c)).
  { subst st. destruct (nth_error (fc_stack s) (fc_idx s)) as [d|] eqn:En.
    - destruct (String.eqb (d_id d) id && (d_ceil d =? c))%bool eqn:Eb.
      + apply andb_true_iff in Eb as [E1 E2]. apply String.eqb_eq in E1. apply N.eqb_eq in E2.
        split; [auto|split; [auto|]]. intros d' Hd'. rewrite En in Hd'. inversion Hd'; subst; auto.
      + split; [apply valid_firstn; auto|split; [rewrite firstn_length; lia|]].
        intros d' Hd'. exfalso.
        assert (nth_error (firstn (fc_idx s) (fc_stack s)) (fc_idx s) = None).
        { apply nth_error_None. rewrite firstn_length. lia. }
        congruence.
    - split; [auto|split; [auto|]]. intros d' Hd'. rewrite En in Hd'. discriminate. }
  destruct Hst as (Hv' & Hi' & Hm). clearbody st.
  assert (c =? 0 = false) as Hc0 by (apply N.eqb_neq; lia). rewrite Hc0, andb_false_r.
  destruct (Nat.eqb (fc_idx s) (List.length st)) eqn:Ee.
  - apply Nat.eqb_eq in Ee.
    rewrite nth_error_app2 by lia. rewrite Ee, Nat.sub_diag. cbn [nth_error d_count].
    assert (r mod c < c) by (apply N.mod_lt; lia).
    destruct (c <=? r mod c) eqn:El; [apply N.leb_le in El; lia|].
    cbn [fst snd fc_stack fc_idx]. split.
    + split.
      * apply Forall_app; split; [exact Hv'|]. constructor; [cbn; assumption|constructor].
      * cbn [fc_idx fc_stack]. rewrite app_length; cbn [List.length]; lia.
    + exists (r mod c). split; [reflexivity|split; [assumption|]].
      eexists; split; [rewrite nth_error_app2 by lia; rewrite Nat.sub_diag; reflexivity|].
      cbn; auto.
  - apply Nat.eqb_neq in Ee.
    destruct (nth_error st (fc_idx s)) as [d|] eqn:En.
    2:{ apply nth_error_None in En. lia. }
    destruct (Hm d eq_refl) as [Hid Hce].
    assert (d_count d < d_ceil d).
    { unfold valid in Hv'. rewrite Forall_forall in Hv'. apply Hv'. eapply nth_error_In; eauto. }
    destruct (c <=? d_count d) eqn:El; [apply N.leb_le in El; lia|].
    cbn [fst snd fc_stack fc_idx]. split.
    + split; [exact Hv'|]. cbn [fc_idx fc_stack]. lia.
    + exists (d_count d). split; [reflexivity|split; [lia|]]. exists d. auto.
Qed.

Definition pos_op (o : op) : Prop :=
  match o with OBegin _ => True | ONext _ c _ => 0 < c end.

Definition ok_out (o : op) (out : option outcome) : Prop :=
  match o, out with
  | OBegin _, None => True
  | ONext _ c _, Some (Ret v) => v < c
  | _, _ => False
  end.

Lemma step_inv s o : pos_op o -> Inv s -> Inv (fst (step s o)) /\ ok_out o (snd (step s o)).
Proof.
  intros Hp HI. destruct o as [pc|id c r]; cbn [step].
  - split; [apply begin_cs_inv; apply HI | exact I].
  - destruct (next_counter_inv id c r s Hp HI) as (HI' & v & Ev & Hv & _).
    destruct (next_counter id c r s) as [s' out]; cbn [fst snd] in *. subst out. split; auto.
Qed.

Lemma in_range_lemma ops : forall s,
  Inv s -> Forall pos_op ops -> Forall2 ok_out ops (run s ops).
Proof.
  induction ops as [|o ops IH]; intros s HI Hp; cbn [run]; [constructor|].
  inversion Hp as [|? ? Ho Hops]; subst.
  destruct (step_inv s o Ho HI) as [HI' Hok].
  destruct (step s o) as [s' out]; cbn [fst snd] in *.
  constructor; auto.
Qed.

Lemma inv_init : Inv fc_init.
Proof. split; cbn; [constructor|lia]. Qed.

(* stack never holds a stale digit at a consulted position: after the call the digit at the
   consulted index carries exactly the (id, ceiling) asked for *)
Lemma consulted_digit_fresh id c r s :
  0 < c -> Inv s ->
  exists d, nth_error (fc_stack (fst (next_counter id c r s))) (fc_idx s) = Some d /\
            d_id d = id /\ d_ceil d = c.
Proof.
  intros Hc HI. destruct (next_counter_inv id c r s Hc HI) as (_ & v & _ & _ & d & Hd & H1 & H2 & _).
  exists d; auto.
Qed.

(* on a mismatch everything from the consulted index on is dropped and replaced by one fresh digit *)
Lemma mismatch_truncates id c r s d :
  0 < c -> Inv s -> nth_error (fc_stack s) (fc_idx s) = Some d ->
  (d_id d <> id \/ d_ceil d <> c) ->
  fc_stack (fst (next_counter id c r s)) = firstn (fc_idx s) (fc_stack s) ++ [mkDigit id (r mod c) c].
Proof.
  intros Hc [Hv Hi] Hn Hne. unfold next_counter.
  destruct (Nat.ltb (List.length (fc_stack s)) (fc_idx s)) eqn:Hl; [apply Nat.ltb_lt in Hl; lia|].
  rewrite Hn.
  assert ((String.eqb (d_id d) id && (d_ceil d =? c))%bool = false) as Eb.
  { apply andb_false_iff. destruct Hne as [H|H]; [left; now apply String.eqb_neq | right; now apply N.eqb_neq]. }
  rewrite Eb.
  assert (Hlen: List.length (firstn (fc_idx s) (fc_stack s)) = fc_idx s).
  { rewrite firstn_length. assert (fc_idx s < List.length (fc_stack s))%nat by (apply nth_error_Some; congruence). lia. }
  rewrite Hlen, Nat.eqb_refl.
  assert (c =? 0 = false) as Hc0 by (apply N.eqb_neq; lia). rewrite Hc0. cbn [andb].
  rewrite nth_error_app2 by lia. rewrite Hlen, Nat.sub_diag. cbn [nth_error d_count].
  destruct (c <=? r mod c); reflexivity.
Qed.

(* ---------- exhaustive: every window of P attempts enumerates the box exactly once ---------- *)

Definition nxt (st : list digit) : list digit := fst (incr st).

Fixpoint iter_nxt (k : nat) (st : list digit) : list digit :=
  match k with O => st | S k' => iter_nxt k' (nxt st) end.

Lemma iter_nxt_S k : forall st, iter_nxt (S k) st = nxt (iter_nxt k st).
Proof. induction k as [|k IH]; intros st; [reflexivity|]. cbn [iter_nxt] in *. apply IH. Qed.

Lemma valid_ceil_pos st d : valid st -> In d st -> 0 < d_ceil d.
Proof. intros H Hin. unfold valid in H. rewrite Forall_forall in H. specialize (H d Hin). lia. Qed.

Lemma consult_matching : forall post rs pre pc,
  valid post ->
  consult (shape post) rs (mkFc pc (pre ++ post) (List.length pre)) =
  (mkFc pc (pre ++ post) (List.length pre + List.length post), map (fun d => Ret (d_count d)) post).
Proof.
  induction post as [|d post IH]; intros rs pre pc Hv.
  - cbn. rewrite Nat.add_0_r. reflexivity.
  - inversion Hv as [|? ? Hd Hpost]; subst.
    cbn [shape map consult].
    assert (E: next_counter (d_id d) (d_ceil d) (hd 0 rs) (mkFc pc (pre ++ d :: post) (List.length pre))
               = (mkFc pc (pre ++ d :: post) (S (List.length pre)), Ret (d_count d))).
    { unfold next_counter. cbn [fc_idx fc_stack fc_pc].
      assert (Hlen: List.length (pre ++ d :: post) = (List.length pre + S (List.length post))%nat)
        by (rewrite app_length; reflexivity).
      destruct (Nat.ltb (List.length (pre ++ d :: post)) (List.length pre)) eqn:Hl;
        [apply Nat.ltb_lt in Hl; lia|].
      rewrite nth_error_app2 by lia. rewrite Nat.sub_diag. cbn [nth_error].
      rewrite String.eqb_refl, N.eqb_refl. cbn [andb].
      assert (Nat.eqb (List.length pre) (List.length (pre ++ d :: post)) = false) as E1
        by (apply Nat.eqb_neq; lia).
      rewrite E1. cbn [andb].
      rewrite nth_error_app2 by lia. rewrite Nat.sub_diag. cbn [nth_error].
      destruct (d_ceil d <=? d_count d) eqn:El; [apply N.leb_le in El; lia|]. reflexivity. }
    rewrite E.
    replace (pre ++ d :: post) with ((pre ++ [d]) ++ post) by (rewrite <- app_assoc; reflexivity).
    replace (S (List.length pre)) with (List.length (pre ++ [d])) by (rewrite app_length; cbn; lia).
    fold (shape post). rewrite (IH (tl rs) (pre ++ [d]) pc Hpost).
    f_equal. f_equal. rewrite app_length. cbn. lia.
Qed.

Lemma attempt_matching pc rs s :
  fc_pc s = pc -> valid (fc_stack s) ->
  attempt pc (shape (fc_stack s)) rs s =
  (mkFc pc (nxt (fc_stack s)) (List.length (nxt (fc_stack s))),
   map (fun d => Ret (d_count d)) (nxt (fc_stack s))).
Proof.
  intros Hpc Hv. unfold attempt, begin_cs. rewrite <- Hpc, String.eqb_refl.
  destruct (incr_spec _ Hv) as (Hv' & Hs & _). fold (nxt (fc_stack s)) in *.
  rewrite <- Hs.
  exact (consult_matching (nxt (fc_stack s)) rs [] (fc_pc s) Hv').
Qed.

Lemma iter_nxt_spec k : forall st,
  valid st ->
  valid (iter_nxt k st) /\ shape (iter_nxt k st) = shape st /\
  val (iter_nxt k st) = (val st + N.of_nat k) mod prod st.
Proof.
  induction k as [|k IH]; intros st Hv; cbn [iter_nxt].
  - repeat split; auto. rewrite N.add_0_r, N.mod_small; auto using val_lt_prod.
  - destruct (incr_spec _ Hv) as (Hv' & Hs & _). fold (nxt st) in *.
    destruct (IH _ Hv') as (H1 & H2 & H3). repeat split; auto; try congruence.
    rewrite H3. unfold nxt at 1. rewrite incr_val by auto. fold (nxt st).
    rewrite (shape_prod _ _ Hs). pose proof (prod_pos _ Hv).
    rewrite N.add_mod_idemp_l by lia. f_equal. lia.
Qed.

Lemma attempts_spec pc k : forall s,
  fc_pc s = pc -> valid (fc_stack s) ->
  fc_pc (attempts pc (shape (fc_stack s)) k s) = pc /\
  fc_stack (attempts pc (shape (fc_stack s)) k s) = iter_nxt k (fc_stack s).
Proof.
  induction k as [|k IH]; intros s Hpc Hv; cbn [attempts iter_nxt]; auto.
  rewrite attempt_matching by auto. cbn [fst].
  destruct (incr_spec _ Hv) as (Hv' & Hs & _). fold (nxt (fc_stack s)) in *.
  set (s1 := mkFc pc (nxt (fc_stack s)) (List.length (nxt (fc_stack s)))).
  rewrite <- Hs. change (nxt (fc_stack s)) with (fc_stack s1).
  apply IH; auto.
Qed.

Lemma nth_attempt_out_spec pc k s :
  fc_pc s = pc -> valid (fc_stack s) ->
  nth_attempt_out pc (shape (fc_stack s)) k s =
  map (fun d => Ret (d_count d)) (iter_nxt (S k) (fc_stack s)).
Proof.
  intros Hpc Hv. unfold nth_attempt_out.
  destruct (attempts_spec pc k s Hpc Hv) as [H1 H2].
  destruct (iter_nxt_spec k _ Hv) as (Hv' & Hs & _).
  set (s' := attempts pc (shape (fc_stack s)) k s) in *.
  rewrite <- Hs, <- H2. rewrite attempt_matching by (auto; rewrite H2; auto).
  cbn [snd]. rewrite H2, iter_nxt_S. reflexivity.
Qed.

Lemma counts_shape_eq a b : shape a = shape b -> map d_count a = map d_count b -> a = b.
Proof.
  revert b; induction a as [|x xs IH]; intros [|y ys] Hs Hc; cbn in *; try discriminate; auto.
  inversion Hs; inversion Hc. f_equal; auto. destruct x, y; cbn in *; congruence.
Qed.

Lemma ret_counts_inj a b :
  map (fun d => Ret (d_count d)) a = map (fun d => Ret (d_count d)) b -> map d_count a = map d_count b.
Proof.
  revert b; induction a as [|x xs IH]; intros [|y ys] H; cbn in *; try discriminate; auto.
  inversion H. f_equal; auto.
Qed.

Lemma mod_add_cancel x k1 k2 P :
  0 < P -> k1 < P -> k2 < P -> (x + k1) mod P = (x + k2) mod P -> k1 = k2.
Proof.
  intros HP H1 H2 E.
  pose proof (N.div_mod (x + k1) P ltac:(lia)) as D1.
  pose proof (N.div_mod (x + k2) P ltac:(lia)) as D2.
  pose proof (N.mod_lt (x + k1) P ltac:(lia)).
  rewrite E in D1.
  set (q1 := (x + k1) / P) in *. set (q2 := (x + k2) / P) in *. set (r := (x + k2) mod P) in *.
  assert (q1 = q2 \/ q1 < q2 \/ q2 < q1) as [Hq|[Hq|Hq]] by lia.
  - subst. lia.
  - assert (P * (q1 + 1) <= P * q2) by (apply N.mul_le_mono_l; lia). lia.
  - assert (P * (q2 + 1) <= P * q1) by (apply N.mul_le_mono_l; lia). lia.
Qed.

Lemma NoDup_map_inj_on {A B} (f : A -> B) (l : list A) :
  (forall x y, In x l -> In y l -> f x = f y -> x = y) -> NoDup l -> NoDup (map f l).
Proof.
  induction l as [|a l IH]; intros Hinj Hnd; cbn; [constructor|].
  inversion Hnd as [|? ? Hnotin Hnd']; subst. constructor.
  - intros Hin. apply in_map_iff in Hin as (y & Hy & Hyin).
    assert (y = a) by (apply Hinj; cbn; auto). subst. contradiction.
  - apply IH; auto. intros x y Hx Hy. apply Hinj; cbn; auto.
Qed.

Definition in_box (sig : sigT) (t : list N) : Prop := Forall2 (fun p v => v < snd p) sig t.

Fixpoint prodsig (sig : sigT) : N :=
  match sig with [] => 1 | (_, c) :: r => c * prodsig r end.

Lemma prodsig_shape st : prodsig (shape st) = prod st.
Proof. induction st as [|d r IH]; cbn [shape map prodsig prod]; auto. fold (shape r). now rewrite IH. Qed.

Lemma box_stack sig t : in_box sig t ->
  exists b, valid b /\ shape b = sig /\ map d_count b = t.
Proof.
  induction 1 as [|[id c] v sig t Hv _ IH].
  - exists []. repeat split; constructor.
  - destruct IH as (b & Hb1 & Hb2 & Hb3).
    exists (mkDigit id v c :: b). split; [constructor; auto|split]; cbn [shape map d_id d_ceil d_count].
    + fold (shape b). congruence.
    + congruence.
Qed.

Lemma exhaustive_lemma pc s a :
  fc_pc s = pc -> valid (fc_stack s) ->
  let sig := shape (fc_stack s) in
  let P := N.to_nat (prodsig sig) in
  let outs := map (fun k => nth_attempt_out pc sig (a + k) s) (seq 0 P) in
  NoDup outs /\ (forall t, in_box sig t -> In (map Ret t) outs).
Proof.
  intros Hpc Hv. cbv zeta. rewrite prodsig_shape.
  set (P := N.to_nat (prod (fc_stack s))).
  pose proof (prod_pos _ Hv) as HP.
  split.
  - apply NoDup_map_inj_on; [|apply seq_NoDup].
    intros k1 k2 H1 H2 E. apply in_seq in H1, H2.
    rewrite !nth_attempt_out_spec in E by auto.
    apply ret_counts_inj in E.
    destruct (iter_nxt_spec (S (a + k1)) _ Hv) as (V1 & S1 & E1).
    destruct (iter_nxt_spec (S (a + k2)) _ Hv) as (V2 & S2 & E2).
    assert (iter_nxt (S (a + k1)) (fc_stack s) = iter_nxt (S (a + k2)) (fc_stack s)) as Eq
      by (apply counts_shape_eq; congruence).
    rewrite Eq in E1. rewrite E1 in E2.
    replace (val (fc_stack s) + N.of_nat (S (a + k1))) with
            ((val (fc_stack s) + N.of_nat (S a)) + N.of_nat k1) in E2 by lia.
    replace (val (fc_stack s) + N.of_nat (S (a + k2))) with
            ((val (fc_stack s) + N.of_nat (S a)) + N.of_nat k2) in E2 by lia.
    apply mod_add_cancel in E2; subst P; lia.
  - intros t Ht. destruct (box_stack _ _ Ht) as (b & Hb1 & Hb2 & Hb3).
    pose proof (val_lt_prod _ Hb1) as Hlt. rewrite (shape_prod _ _ Hb2) in Hlt.
    set (Pn := prod (fc_stack s)) in *.
    set (m := (val (fc_stack s) + N.of_nat (S a)) mod Pn).
    assert (m < Pn) by (apply N.mod_lt; lia).
    set (k := (val b + Pn - m) mod Pn).
    assert (k < Pn) by (apply N.mod_lt; lia).
    apply in_map_iff. exists (N.to_nat k). split.
    2:{ apply in_seq. subst P. lia. }
    rewrite nth_attempt_out_spec by auto.
    destruct (iter_nxt_spec (S (a + N.to_nat k)) _ Hv) as (V1 & S1 & E1).
    assert (val (iter_nxt (S (a + N.to_nat k)) (fc_stack s)) = val b) as Ev.
    { rewrite E1. fold Pn.
      replace (val (fc_stack s) + N.of_nat (S (a + N.to_nat k))) with
              ((val (fc_stack s) + N.of_nat (S a)) + k) by lia.
      rewrite <- N.add_mod_idemp_l by lia. fold m. subst k.
      rewrite N.add_mod_idemp_r by lia.
      replace (m + (val b + Pn - m)) with (val b + 1 * Pn) by lia.
      rewrite N.mod_add by lia. apply N.mod_small; auto. }
    assert (map d_count (iter_nxt (S (a + N.to_nat k)) (fc_stack s)) = map d_count b) as Ec
      by (apply val_inj; auto; congruence).
    rewrite <- Hb3, <- Ec. rewrite map_map. reflexivity.
Qed.

(* entering a label afresh and consulting sig once yields a stack that is exactly sig *)
Lemma consult_fresh : forall sig rs pre pc,
  Forall (fun p => 0 < snd p) sig -> valid pre ->
  let s' := fst (consult sig rs (mkFc pc pre (List.length pre))) in
  exists post, fc_stack s' = pre ++ post /\ shape post = sig /\ valid post /\ fc_pc s' = pc.
Proof.
  induction sig as [|[id c] sig IH]; intros rs pre pc Hpos Hv; cbn [consult].
  - exists []. cbn. rewrite app_nil_r. repeat split; constructor.
  - inversion Hpos as [|? ? Hc Hsig]; subst. cbn [snd] in Hc.
    assert (E: next_counter id c (hd 0 rs) (mkFc pc pre (List.length pre)) =
               (mkFc pc (pre ++ [mkDigit id (hd 0 rs mod c) c]) (S (List.length pre)), Ret (hd 0 rs mod c))).
    { unfold next_counter. cbn [fc_idx fc_stack fc_pc].
      rewrite Nat.ltb_irrefl.
      assert (nth_error pre (List.length pre) = None) as En by (apply nth_error_None; lia).
      rewrite En. rewrite Nat.eqb_refl.
      assert (c =? 0 = false) as Hc0 by (apply N.eqb_neq; lia). rewrite Hc0. cbn [andb].
      rewrite nth_error_app2 by lia. rewrite Nat.sub_diag. cbn [nth_error d_count].
      assert (hd 0 rs mod c < c) by (apply N.mod_lt; lia).
      destruct (c <=? hd 0 rs mod c) eqn:El; [apply N.leb_le in El; lia|]. reflexivity. }
    rewrite E.
    set (d := mkDigit id (hd 0 rs mod c) c).
    assert (Hvd: valid (pre ++ [d])).
    { apply Forall_app; split; auto. constructor; [|constructor]. cbn. apply N.mod_lt; lia. }
    specialize (IH (tl rs) (pre ++ [d]) pc Hsig Hvd).
    replace (S (List.length pre)) with (List.length (pre ++ [d])) by (rewrite app_length; cbn; lia).
    destruct (consult sig (tl rs) _) as [s2 os] eqn:E2. cbn [fst] in *.
    destruct IH as (post & H1 & H2 & H3 & H4).
    exists (d :: post). rewrite H1, <- app_assoc. split; [reflexivity|]. split; [|split; [|exact H4]].
    + cbn [shape map]. fold (shape post). rewrite H2. reflexivity.
    + constructor; auto. cbn. apply N.mod_lt; lia.
Qed.

Lemma fresh_entry_lemma pc sig rs s :
  fc_pc s <> pc -> Forall (fun p => 0 < snd p) sig ->
  let s' := fst (attempt pc sig rs s) in
  fc_pc s' = pc /\ shape (fc_stack s') = sig /\ valid (fc_stack s').
Proof.
  intros Hne Hpos. unfold attempt, begin_cs.
  assert (String.eqb pc (fc_pc s) = false) as E by (apply String.eqb_neq; congruence).
  rewrite E. cbn [incr fst].
  destruct (consult_fresh sig rs [] pc Hpos ltac:(constructor)) as (post & H1 & H2 & H3 & H4).
  cbn [List.length] in *. cbn. rewrite H1. cbn. auto.
Qed.

(* ---------- after ANY attempt the consulted choice points are exactly the stack's prefix ---------- *)

(* generalisation of consult_fresh / consult_matching to an arbitrary stack: whatever was on the stack,
   after consulting sig from index |pre| the stack is pre ++ post ++ rest with shape post = sig, where
   rest (stale deeper digits) is non-empty only if every consulted position matched *)
Lemma consult_prefix : forall sig rs pre tail pc,
  Forall (fun p => 0 < snd p) sig -> valid pre -> valid tail ->
  let s' := fst (consult sig rs (mkFc pc (pre ++ tail) (List.length pre))) in
  exists post rest, fc_stack s' = pre ++ post ++ rest /\ shape post = sig /\ valid post /\ valid rest /\
                    fc_pc s' = pc /\ (rest <> [] -> exists t, tail = t ++ rest /\ shape t = sig).
Proof.
  induction sig as [|[id c] sig IH]; intros rs pre tail pc Hpos Hvp Hvt; cbn [consult].
  - exists [], tail. cbn. repeat split; auto; try constructor. intros _. exists []. split; reflexivity.
  - inversion Hpos as [|? ? Hc Hsig]; subst. cbn [snd] in Hc.
    assert (HI: Inv (mkFc pc (pre ++ tail) (List.length pre))).
    { split; cbn [fc_stack fc_idx]; [apply Forall_app; split; auto | rewrite app_length; lia]. }
    destruct (next_counter_inv id c (hd 0 rs) _ Hc HI) as ((Hv1 & Hi1) & v & Ev & Hvlt & d & Hd & Hdid & Hdc & Hdv).
    destruct (next_counter id c (hd 0 rs) (mkFc pc (pre ++ tail) (List.length pre))) as [s1 o1] eqn:E1.
    cbn [fst snd fc_idx] in *.
    (* shape of s1's stack: pre ++ d :: tail1 where tail1 is the old tail's rest if matched, [] otherwise *)
    assert (Hs1: fc_pc s1 = pc /\ fc_idx s1 = S (List.length pre) /\
                 exists tail1, fc_stack s1 = pre ++ d :: tail1 /\ valid tail1 /\
                               (tail1 <> [] -> exists d0, tail = d0 :: tail1 /\ d_id d0 = id /\ d_ceil d0 = c)).
    { unfold next_counter in E1. cbn [fc_idx fc_stack fc_pc] in E1.
      assert (Hlt: Nat.ltb (List.length (pre ++ tail)) (List.length pre) = false)
        by (apply Nat.ltb_ge; rewrite app_length; lia).
      rewrite Hlt in E1.
      destruct tail as [|d0 tail0].
      - rewrite app_nil_r in *. assert (En: nth_error pre (List.length pre) = None) by (apply nth_error_None; lia).
        rewrite En, Nat.eqb_refl in E1.
        assert (c =? 0 = false) as Hc0 by (apply N.eqb_neq; lia). rewrite Hc0 in E1. cbn [andb] in E1.
        rewrite nth_error_app2 in E1 by lia. rewrite Nat.sub_diag in E1. cbn [nth_error d_count] in E1.
        assert (hd 0 rs mod c < c) by (apply N.mod_lt; lia).
        destruct (c <=? hd 0 rs mod c) eqn:El; [apply N.leb_le in El; lia|].
        inversion E1; subst s1 o1. cbn [fc_stack fc_pc fc_idx] in *.
        rewrite nth_error_app2 in Hd by lia. rewrite Nat.sub_diag in Hd. cbn in Hd. inversion Hd; subst d.
        repeat split; auto. exists []. repeat split; auto; try constructor. intros Hne; congruence.
      - rewrite nth_error_app2 in E1 by lia. rewrite Nat.sub_diag in E1. cbn [nth_error] in E1.
        destruct (String.eqb (d_id d0) id && (d_ceil d0 =? c))%bool eqn:Eb.
        + apply andb_true_iff in Eb as [Eb1 Eb2]. apply String.eqb_eq in Eb1. apply N.eqb_eq in Eb2.
          assert (Hne: Nat.eqb (List.length pre) (List.length (pre ++ d0 :: tail0)) = false)
            by (apply Nat.eqb_neq; rewrite app_length; cbn; lia).
          rewrite Hne in E1. cbn [andb] in E1.
          rewrite nth_error_app2 in E1 by lia. rewrite Nat.sub_diag in E1. cbn [nth_error] in E1.
          pose proof (Forall_inv Hvt) as Hd0. pose proof (Forall_inv_tail Hvt) as Hvt0.
          destruct (c <=? d_count d0) eqn:El; inversion E1; subst s1 o1; cbn [fc_stack fc_pc fc_idx] in *;
            rewrite nth_error_app2 in Hd by lia; rewrite Nat.sub_diag in Hd; cbn in Hd; inversion Hd; subst d;
            (repeat split; auto; exists tail0; repeat split; auto; intros _; exists d0; auto).
        + assert (Hlen: List.length (firstn (List.length pre) (pre ++ d0 :: tail0)) = List.length pre)
            by (rewrite firstn_length, app_length; cbn; lia).
          rewrite Hlen, Nat.eqb_refl in E1.
          assert (c =? 0 = false) as Hc0 by (apply N.eqb_neq; lia). rewrite Hc0 in E1. cbn [andb] in E1.
          rewrite nth_error_app2 in E1 by lia. rewrite Hlen, Nat.sub_diag in E1. cbn [nth_error d_count] in E1.
          assert (hd 0 rs mod c < c) by (apply N.mod_lt; lia).
          destruct (c <=? hd 0 rs mod c) eqn:El; [apply N.leb_le in El; lia|].
          inversion E1; subst s1 o1. cbn [fc_stack fc_pc fc_idx] in *.
          assert (Hf: firstn (List.length pre) (pre ++ d0 :: tail0) = pre).
          { rewrite firstn_app, Nat.sub_diag, firstn_all. cbn. apply app_nil_r. }
          rewrite Hf in *.
          rewrite nth_error_app2 in Hd by lia. rewrite Nat.sub_diag in Hd. cbn in Hd. inversion Hd; subst d.
          repeat split; auto. exists []. repeat split; auto; try constructor. intros Hne; congruence. }
    destruct Hs1 as (Hpc1 & Hidx1 & tail1 & Hst1 & Hvt1 & Hkeep).
    assert (Hvd: valid (pre ++ [d])).
    { apply Forall_app; split; auto. constructor; [|constructor]. rewrite Hdc, Hdv. exact Hvlt. }
    assert (Es1: s1 = mkFc pc ((pre ++ [d]) ++ tail1) (List.length (pre ++ [d]))).
    { destruct s1 as [p1 st1 i1]. cbn [fc_pc fc_stack fc_idx] in *. subst.
      rewrite <- app_assoc. cbn. rewrite app_length. cbn. f_equal. lia. }
    rewrite Es1.
    specialize (IH (tl rs) (pre ++ [d]) tail1 pc Hsig Hvd Hvt1).
    destruct (consult sig (tl rs) _) as [s2 os] eqn:E2. cbn [fst] in *.
    destruct IH as (post & rest & H1 & H2 & H3 & H4 & H5 & H6).
    exists (d :: post), rest. rewrite H1, <- !app_assoc. cbn [app].
    split; [reflexivity|]. split; [cbn [shape map]; fold (shape post); rewrite H2, Hdid, Hdc; reflexivity|].
    split; [constructor; auto; rewrite Hdc, Hdv; exact Hvlt|]. split; [exact H4|]. split; [exact H5|].
    intros Hne. destruct (H6 Hne) as (t & Ht1 & Ht2).
    assert (tail1 <> []) by (rewrite Ht1; destruct t; cbn; [exact Hne | discriminate]).
    destruct (Hkeep H) as (d0 & Hd0 & Hid0 & Hc0).
    exists (d0 :: t). split; [rewrite Hd0, Ht1; reflexivity|].
    cbn [shape map]. fold (shape t). rewrite Ht2, Hid0, Hc0. reflexivity.
Qed.

(* after any attempt from any state with a valid stack: the stack starts with exactly the consulted
   choice points; it is EXACTLY those (so `exhaustive` applies from the next attempt on) unless the old stack
   was a strict extension of sig whose prefix matched everywhere (stale deeper digits of a longer earlier attempt) *)
Lemma attempt_prefix_lemma pc sig rs s :
  valid (fc_stack s) -> Forall (fun p => 0 < snd p) sig ->
  let s' := fst (attempt pc sig rs s) in
  fc_pc s' = pc /\ valid (fc_stack s') /\
  exists post rest, fc_stack s' = post ++ rest /\ shape post = sig /\
    (rest <> [] -> fc_pc s = pc /\ exists t, shape t = sig /\ List.length (fc_stack s) = List.length (t ++ rest)).
Proof.
  intros Hv Hpos. unfold attempt, begin_cs.
  set (st0 := if String.eqb pc (fc_pc s) then fc_stack s else []).
  assert (Hv0: valid st0) by (subst st0; destruct (String.eqb pc (fc_pc s)); [exact Hv | constructor]).
  destruct (incr_spec st0 Hv0) as (Hv1 & Hs1 & _).
  destruct (consult_prefix sig rs [] (fst (incr st0)) pc Hpos ltac:(constructor) Hv1)
    as (post & rest & H1 & H2 & H3 & H4 & H5 & H6).
  cbn [List.length app] in *.
  split; [exact H5|]. split; [rewrite H1; apply Forall_app; split; auto|].
  exists post, rest. split; [exact H1|]. split; [exact H2|].
  intros Hne. destruct (H6 Hne) as (t & Ht1 & Ht2).
  subst st0. destruct (String.eqb pc (fc_pc s)) eqn:Epc.
  - apply String.eqb_eq in Epc. split; [auto|]. exists t. split; [exact Ht2|].
    assert (List.length (fst (incr (fc_stack s))) = List.length (fc_stack s)).
    { assert (List.length (shape (fst (incr (fc_stack s)))) = List.length (shape (fc_stack s))) by (rewrite Hs1; reflexivity).
      unfold shape in H. rewrite !map_length in H. exact H. }
    rewrite <- H, Ht1. reflexivity.
  - cbn in Ht1. destruct t; destruct rest; cbn in Ht1; try discriminate. congruence.
Qed.
