(* C10 — executable model of distsys/fairness.go (roundRobinFairnessCounter).
   Model only: no proofs here, so it still evaluates when a proof breaks.
   Transcribed statement by statement from BeginCriticalSection / NextFairnessCounter.

   Go `uint` is 64 bit; with the representation invariant count < ceiling the
   addition count + carry (carry <= 1) cannot wrap, so N is exact here.
   `rand.Uint32()` is an oracle argument: the value the real code drew. *)
From Coq Require Export List NArith ZArith String Bool.
Export ListNotations.
Open Scope N_scope.

Record digit := mkDigit { d_id : string; d_count : N; d_ceil : N }.

Record fc := mkFc { fc_pc : string; fc_stack : list digit; fc_idx : nat }.

Definition fc_init : fc := mkFc EmptyString [] 0.

(* the carry loop `for idx := len-1; idx >= 0; idx--`, returning the carry out of digit 0 *)
Fixpoint incr (st : list digit) : list digit * N :=
  match st with
  | [] => ([], 1)
  | d :: rest =>
      let '(rest', carry) := incr rest in
      let c := d_count d + carry in
      if d_ceil d <=? c
      then (mkDigit (d_id d) (c mod d_ceil d) (d_ceil d) :: rest', c / d_ceil d)
      else (mkDigit (d_id d) c (d_ceil d) :: rest', 0)
  end.

Definition begin_cs (pc : string) (s : fc) : fc :=
  let st := if String.eqb pc (fc_pc s) then fc_stack s else [] in
  mkFc pc (fst (incr st)) 0.

Inductive outcome := Ret (v : N) | Panic.

(* NextFairnessCounter(id, ceiling); `r` is what rand.Uint32() returns if it is called.
   ceiling = 0 panics in Go (integer divide by zero) when a digit is pushed, or is
   caught by the final range check otherwise. *)
Definition next_counter (id : string) (ceiling : N) (r : N) (s : fc) : fc * outcome :=
  let idx := fc_idx s in
  let s1 := mkFc (fc_pc s) (fc_stack s) (S idx) in
  if Nat.ltb (List.length (fc_stack s)) idx then (s1, Panic)
  else
    let st :=
      match nth_error (fc_stack s) idx with
      | Some d => if String.eqb (d_id d) id && (d_ceil d =? ceiling)
                  then fc_stack s else firstn idx (fc_stack s)
      | None => fc_stack s
      end in
    if Nat.eqb idx (List.length st) && (ceiling =? 0) then (mkFc (fc_pc s) st (S idx), Panic)
    else
    let st' := if Nat.eqb idx (List.length st)
               then st ++ [mkDigit id (r mod ceiling) ceiling] else st in
    let s2 := mkFc (fc_pc s) st' (S idx) in
    match nth_error st' idx with
    | Some d => if ceiling <=? d_count d then (s2, Panic) else (s2, Ret (d_count d))
    | None => (s2, Panic)
    end.

(* Scripted driving, as the correspondence harness does. *)
Inductive op := OBegin (pc : string) | ONext (id : string) (ceiling : N) (r : N).

Definition step (s : fc) (o : op) : fc * option outcome :=
  match o with
  | OBegin pc => (begin_cs pc s, None)
  | ONext id c r => let '(s', out) := next_counter id c r s in (s', Some out)
  end.

Fixpoint run (s : fc) (ops : list op) : list (option outcome) :=
  match ops with
  | [] => []
  | o :: rest => let '(s', out) := step s o in out :: run s' rest
  end.

(* One attempt of a label consulting the choice points `sig` in order;
   `rs` supplies the oracle values (used only when a digit is pushed). *)
Definition sigT := list (string * N).

Fixpoint consult (sig : sigT) (rs : list N) (s : fc) : fc * list outcome :=
  match sig with
  | [] => (s, [])
  | (id, c) :: rest =>
      let '(s1, o) := next_counter id c (hd 0 rs) s in
      let '(s2, os) := consult rest (tl rs) s1 in
      (s2, o :: os)
  end.

Definition attempt (pc : string) (sig : sigT) (rs : list N) (s : fc) : fc * list outcome :=
  consult sig rs (begin_cs pc s).

(* state after k further attempts (oracle irrelevant once the stack matches sig: all zeros) *)
Fixpoint attempts (pc : string) (sig : sigT) (k : nat) (s : fc) : fc :=
  match k with
  | O => s
  | S k' => attempts pc sig k' (fst (attempt pc sig [] s))
  end.

(* outputs of the (k+1)-th attempt from s *)
Definition nth_attempt_out (pc : string) (sig : sigT) (k : nat) (s : fc) : list outcome :=
  snd (attempt pc sig [] (attempts pc sig k s)).

(* comparison used by the correspondence check: observed Go outputs encoded as
   -1 (BeginCriticalSection), -2 (panic), v >= 0 *)
Definition enc_out (o : option outcome) : Z :=
  match o with
  | None => (-1)%Z
  | Some Panic => (-2)%Z
  | Some (Ret v) => Z.of_N v
  end.

Definition run_enc (ops : list op) : list Z := map enc_out (run fc_init ops).

Fixpoint mismatches_from (i : nat) (cases : list (list op * list Z)) : list nat :=
  match cases with
  | [] => []
  | (ops, obs) :: rest =>
      let m := mismatches_from (S i) rest in
      if list_eq_dec Z.eq_dec (run_enc ops) obs then m else i :: m
  end.
