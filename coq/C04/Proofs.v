(* C04 — proofs: the runtime's Call / Return / TailCall refine the PlusCal stack machine;
   activations are isolated; an abort between call and return restores everything. *)
From PGV Require Import C04.Model.
From Coq Require Import Lia.
Open Scope string_scope.
Open Scope list_scope.

(* ------------------------------------------------------------------ basic facts about the store *)

Definition cur (s : st) (x : string) : val :=
  match sres s x with Some sl => s_cur sl | None => VD end.
Definition oldv (s : st) (x : string) : val :=
  match sres s x with Some sl => s_old sl | None => VD end.

Lemma eqb_neq_false : forall a b : string, a <> b -> String.eqb a b = false.
Proof. intros a b H. destruct (String.eqb a b) eqn:E; auto. apply String.eqb_eq in E. contradiction. Qed.

Lemma iread_spec : forall s h s' v, iread s h = Some (s', v) ->
  v = cur s h /\ sres s' = sres s /\ sdirty s' = h :: sdirty s /\ sres s h <> None.
Proof.
  intros s h s' v H. unfold iread in H. unfold cur. destruct (sres s h) eqn:E; inversion H; subst; cbn.
  repeat split; auto. discriminate.
Qed.

Lemma iwrite_spec : forall s h v s', iwrite s h v = Some s' ->
  (forall y, cur s' y = vset (cur s) h v y) /\ (forall y, oldv s' y = oldv s y) /\
  sdirty s' = h :: sdirty s /\ sres s h <> None /\ (forall y, sres s y <> None -> sres s' y <> None) /\
  (forall y, sres s' y <> None -> sres s y <> None).
Proof.
  intros s h v s' H. unfold iwrite in H. destruct (sres s h) as [sl|] eqn:E; inversion H; subst; clear H.
  unfold cur, oldv, vset, supd; cbn. repeat split.
  - intros y. destruct (String.eqb y h) eqn:Ey; auto.
  - intros y. destruct (String.eqb y h) eqn:Ey; auto. apply String.eqb_eq in Ey; subst. rewrite E. reflexivity.
  - discriminate.
  - intros y Hy. destruct (String.eqb y h); auto. discriminate.
  - intros y Hy. destruct (String.eqb y h) eqn:Ey; auto. apply String.eqb_eq in Ey; subst. rewrite E. discriminate.
Qed.

Lemma ensure_spec : forall s x,
  (forall y, cur (ensure s x) y = cur s y) /\ (forall y, oldv (ensure s x) y = oldv s y) /\
  sdirty (ensure s x) = sdirty s /\ sres (ensure s x) x <> None /\
  (forall y, sres s y <> None -> sres (ensure s x) y <> None).
Proof.
  intros s x. unfold ensure. destruct (sres s x) as [sl|] eqn:E.
  - repeat split; auto. rewrite E. discriminate.
  - unfold cur, oldv, supd; cbn. repeat split.
    + intros y. destruct (String.eqb y x) eqn:Ey; auto. apply String.eqb_eq in Ey; subst. rewrite E. reflexivity.
    + intros y. destruct (String.eqb y x) eqn:Ey; auto. apply String.eqb_eq in Ey; subst. rewrite E. reflexivity.
    + rewrite String.eqb_refl. discriminate.
    + intros y Hy. destruct (String.eqb y x); auto. discriminate.
Qed.

Lemma vset_same f x v : vset f x v x = v.
Proof. unfold vset. now rewrite String.eqb_refl. Qed.
Lemma vset_other f x v y : y <> x -> vset f x v y = f y.
Proof. intros H. unfold vset. now rewrite (eqb_neq_false y x H). Qed.

(* ------------------------------------------------------------------ well-formedness *)

Definition reserved (x : string) : Prop := x = ".pc" \/ x = ".stack".

Definition wf_proc (p : proc) : Prop :=
  NoDup (p_vars p) /\ (forall x, In x (p_vars p) -> ~ reserved x) /\
  (forall x e, In (x, e) (p_pre p) -> In x (p_vars p) /\ forall y, In y (psrc e) -> In y (p_vars p)).

Definition wf_table (t : table) : Prop :=
  forall n p, find_proc (t_procs t) n = Some p -> wf_proc p.

(* a frame as Call builds it: the return label, then the saved variables of one procedure *)
Definition frame_of (ret : val) (vars : list string) (f : string -> val) : list (val * val) :=
  (VS ".pc", ret) :: map (fun x => (VS x, f x)) vars.

Definition wf_frame (fr : list (val * val)) : Prop :=
  exists ret vars f, fr = frame_of ret vars f /\ (forall x, In x vars -> ~ reserved x).

(* the simulation relation *)
Definition Rel (s : st) (g : sp) : Prop :=
  (forall x, ~ reserved x -> cur s x = v_vars g x) /\
  cur s ".stack" = VT (map VR (v_stack g)) /\
  cur s ".pc" = v_pc g /\
  sres s ".pc" <> None /\ sres s ".stack" <> None /\
  Forall wf_frame (v_stack g).

(* ------------------------------------------------------------------ Call *)

Lemma lookup_app_none : forall k f k' v, lookup k f = None -> val_eqb k k' = false -> lookup k (f ++ [(k', v)]) = None.
Proof.
  induction f as [|[a b] r IH]; intros k' v H E; cbn in *.
  - now rewrite E.
  - destruct (val_eqb k a); [discriminate|]. apply IH; auto.
Qed.

Lemma lookup_map_none : forall x vars (f : string -> val),
  ~ In x vars -> lookup (VS x) (map (fun y => (VS y, f y)) vars) = None.
Proof.
  induction vars as [|y r IH]; intros f H; cbn; auto.
  assert (x <> y) by (intros ->; apply H; now left).
  rewrite (eqb_neq_false x y H0). apply IH. intros Hin; apply H; now right.
Qed.

Lemma save_bind_spec : forall vars args s frame s2 frame2,
  save_bind s vars args frame = Some (s2, frame2) ->
  NoDup vars -> (forall x, In x vars -> lookup (VS x) frame = None) ->
  frame2 = frame ++ map (fun x => (VS x, cur s x)) vars /\
  (forall y, cur s2 y = bind_args (cur s) vars args y) /\
  (forall y, oldv s2 y = oldv s y) /\
  (forall y, sres s y <> None -> sres s2 y <> None).
Proof.
  induction vars as [|x vars IH]; intros args s frame s2 frame2 H Hnd Hfr; cbn in H.
  - inversion H; subst. cbn. rewrite app_nil_r. repeat split; auto.
  - destruct (iread (ensure s x) x) as [[s1 v]|] eqn:Er; [|discriminate].
    destruct (ensure_spec s x) as (Ec & Eo & Ed & Ee & Ek).
    destruct (iread_spec _ _ _ _ Er) as (Hv & Hres & Hd & Hne).
    assert (Hc1 : forall y, cur s1 y = cur s y).
    { intros y. unfold cur. rewrite Hres. apply Ec. }
    assert (Ho1 : forall y, oldv s1 y = oldv s y).
    { intros y. unfold oldv. rewrite Hres. apply Eo. }
    assert (Hv' : v = cur s x) by (rewrite Hv; apply Ec).
    inversion Hnd as [|? ? Hx Hnd']; subst x0 l.
    assert (Hset : frame_set frame (VS x) v = frame ++ [(VS x, v)]).
    { unfold frame_set. rewrite (Hfr x (or_introl eq_refl)). reflexivity. }
    rewrite Hset in H.
    assert (Hfr' : forall y, In y vars -> lookup (VS y) (frame ++ [(VS x, v)]) = None).
    { intros y Hy. apply lookup_app_none; [apply Hfr; now right|].
      cbn. apply eqb_neq_false. intros ->. contradiction. }
    destruct args as [|a args].
    + destruct (IH [] s1 _ s2 frame2 H Hnd' Hfr') as (Hf & Hc & Ho & Hk).
      split; [|split; [|split]].
      * rewrite Hf, <- app_assoc. cbn. rewrite Hv'. f_equal. f_equal.
        apply map_ext_in. intros y Hy. now rewrite Hc1.
      * intros y. rewrite Hc. cbn. destruct vars; cbn; apply Hc1.
      * intros y. rewrite Ho. apply Ho1.
      * intros y Hy. apply Hk. rewrite Hres. apply Ek; auto.
    + destruct (iwrite s1 x a) as [s3|] eqn:Ew; [|discriminate].
      destruct (iwrite_spec _ _ _ _ Ew) as (Wc & Wo & Wd & Wne & Wk & _).
      destruct (IH args s3 _ s2 frame2 H Hnd' Hfr') as (Hf & Hc & Ho & Hk).
      split; [|split; [|split]].
      * rewrite Hf, <- app_assoc. cbn. rewrite Hv'. f_equal. f_equal.
        apply map_ext_in. intros y Hy. rewrite Wc, vset_other; [now rewrite Hc1|]. intros ->. contradiction.
      * intros y. rewrite Hc. cbn.
        assert (Hext : forall vs ags f g, (forall z, f z = g z) -> bind_args f vs ags y = bind_args g vs ags y).
        { induction vs as [|z vs IHv]; intros ags f g Hfg; cbn; auto. destruct ags; auto.
          apply IHv. intros w. unfold vset. destruct (String.eqb w z); auto. }
        apply Hext. intros z. rewrite Wc. unfold vset. destruct (String.eqb z x); auto.
      * intros y. rewrite Ho, Wo. apply Ho1.
      * intros y Hy. apply Hk, Wk. rewrite Hres. apply Ek; auto.
Qed.

Lemma peval_impl_spec : forall s e s1 v, peval_impl s e = Some (s1, v) ->
  peval (cur s) e = Some v /\ (forall y, cur s1 y = cur s y) /\ (forall y, oldv s1 y = oldv s y) /\
  (forall y, sres s y <> None -> sres s1 y <> None) /\ (forall y, sres s1 y <> None -> sres s y <> None).
Proof.
  intros s e s1 v H. destruct e as [w|y|y k]; cbn in H |- *.
  - inversion H; subst. auto.
  - destruct (iread_spec _ _ _ _ H) as (Hv & Hr & _). unfold cur, oldv. rewrite Hr. subst v. repeat split; auto.
  - destruct (iread s y) as [[s2 w]|] eqn:Er; [|discriminate].
    destruct (iread_spec _ _ _ _ Er) as (Hv & Hr & _). subst w.
    destruct (padd (cur s y) k) as [u|] eqn:Ep; [|discriminate]. inversion H; subst.
    unfold cur, oldv. rewrite Hr. repeat split; auto.
Qed.

(* agreement on a set of variables that contains everything the initialisers read *)
Lemma set_all_agree : forall (P : string -> Prop) ws f g f',
  (forall y, P y -> f y = g y) ->
  (forall x e, In (x, e) ws -> forall y, In y (psrc e) -> P y) ->
  set_all f ws = Some f' ->
  exists g', set_all g ws = Some g' /\ forall y, P y -> f' y = g' y.
Proof.
  induction ws as [|[x e] r IH]; intros f g f' Hfg Hsrc H; cbn in H |- *.
  - inversion H; subst. eauto.
  - assert (He : peval g e = peval f e).
    { destruct e as [w|y|y k]; cbn; auto; rewrite (Hfg y); auto; apply (Hsrc x _ (or_introl eq_refl)); cbn; auto. }
    rewrite He. destruct (peval f e) as [v|]; [|discriminate].
    apply (IH (vset f x v) (vset g x v) f'); auto.
    + intros y Hy. unfold vset. destruct (String.eqb y x); auto.
    + intros x0 e0 Hin. apply (Hsrc x0 e0). now right.
Qed.

Lemma set_all_other : forall ws f f' y, set_all f ws = Some f' -> (forall e, ~ In (y, e) ws) -> f' y = f y.
Proof.
  induction ws as [|[x e] r IH]; intros f f' y H Hn; cbn in H.
  - inversion H; subst. reflexivity.
  - destruct (peval f e) as [v|]; [|discriminate].
    rewrite (IH _ _ y H) by (intros e0 Hin; apply (Hn e0); now right).
    apply vset_other. intros ->. apply (Hn e). now left.
Qed.

Lemma write_all_spec : forall ws s s', write_all s ws = Some s' ->
  exists f', set_all (cur s) ws = Some f' /\ (forall y, cur s' y = f' y) /\ (forall y, oldv s' y = oldv s y) /\
  (forall y, sres s y <> None -> sres s' y <> None).
Proof.
  induction ws as [|[x e] r IH]; intros s s' H; cbn in H |- *.
  - inversion H; subst. eauto.
  - destruct (peval_impl s e) as [[s1 v]|] eqn:Ee; [|discriminate].
    destruct (peval_impl_spec _ _ _ _ Ee) as (Hp & Hc1 & Ho1 & Hk1 & _). rewrite Hp.
    destruct (iwrite s1 x v) as [s2|] eqn:Ew; [|discriminate].
    destruct (iwrite_spec _ _ _ _ Ew) as (Wc & Wo & Wd & Wne & Wk & _).
    destruct (IH s2 s' H) as (f2 & Hs & Hc & Ho & Hk).
    destruct (set_all_agree (fun _ => True) r (cur s2) (vset (cur s) x v) f2) as (g' & Hg & Hag); auto.
    { intros y _. rewrite Wc. unfold vset. destruct (String.eqb y x); auto. }
    exists g'. split; auto. split; [|split].
    + intros y. rewrite Hc. apply Hag. exact Logic.I.
    + intros y. rewrite Ho, Wo. apply Ho1.
    + intros y Hy. apply Hk, Wk, Hk1, Hy.
Qed.

Lemma bind_args_other : forall vars args f y, ~ In y vars -> bind_args f vars args y = f y.
Proof.
  induction vars as [|x r IH]; intros args f y H; cbn; auto. destruct args; auto.
  rewrite IH; [|intros Hin; apply H; now right]. apply vset_other. intros ->. apply H. now left.
Qed.

Lemma reserved_pc : reserved ".pc". Proof. now left. Qed.
Lemma reserved_stack : reserved ".stack". Proof. now right. Qed.

Lemma bind_args_local : forall vars args f f' x, f x = f' x -> bind_args f vars args x = bind_args f' vars args x.
Proof.
  induction vars as [|z r IH]; intros args f f' x H; cbn; auto. destruct args; auto.
  apply IH. unfold vset. destruct (String.eqb x z); auto.
Qed.

Lemma call_refines_lemma : forall t s g p ret args s',
  wf_table t -> Rel s g -> call_impl t s p ret args = Some s' ->
  exists g', call_spec t g p ret args = Some g' /\ Rel s' g'.
Proof.
  intros t s g pn ret args s' Hwf (Rv & Rs & Rp & Epc & Est & Rw) H.
  unfold call_impl in H. unfold call_spec.
  destruct (find_proc (t_procs t) pn) as [p|] eqn:Ep; [|discriminate].
  destruct (Hwf pn p Ep) as (Hnd & Hres & Hpre).
  destruct (iread s ".stack") as [[s1 stackVal]|] eqn:Er; [|discriminate].
  destruct (iread_spec _ _ _ _ Er) as (Hsv & Hres1 & Hd1 & _).
  destruct (Nat.ltb (List.length (p_vars p)) (List.length args)); [discriminate|].
  destruct (save_bind s1 (p_vars p) args [(VS ".pc", VS ret)]) as [[s2 frame]|] eqn:Esb; [|discriminate].
  assert (Hc1 : forall y, cur s1 y = cur s y) by (intros y; unfold cur; now rewrite Hres1).
  assert (Hfr0 : forall x, In x (p_vars p) -> lookup (VS x) [(VS ".pc", VS ret)] = None).
  { intros x Hx. cbn. rewrite eqb_neq_false; auto. intros ->. apply (Hres _ Hx). apply reserved_pc. }
  destruct (save_bind_spec _ _ _ _ _ _ Esb Hnd Hfr0) as (Hf & Hc2 & Ho2 & Hk2).
  rewrite Hsv, Rs in H.
  destruct (iwrite s2 ".stack" (VT (VR frame :: map VR (v_stack g)))) as [s3|] eqn:Ew; [|discriminate].
  destruct (iwrite_spec _ _ _ _ Ew) as (Wc & Wo & Wd & Wne & Wk & _).
  destruct (write_all s3 (p_pre p)) as [s4|] eqn:Ewa; [|discriminate].
  destruct (write_all_spec _ _ _ Ewa) as (f4 & Hs4 & Ac & Ao & Ak).
  unfold goto_impl in H. destruct (has_label t (p_label p)); [|discriminate].
  destruct (iwrite_spec _ _ _ _ H) as (Gc & Go & Gd & Gne & Gk & _).
  assert (Hnpre : forall y, reserved y -> forall e, ~ In (y, e) (p_pre p)).
  { intros y Hy e Hin. apply (Hres y); auto. destruct (Hpre y e Hin); auto. }
  assert (Hnvars : forall y, reserved y -> ~ In y (p_vars p)).
  { intros y Hy Hin. apply (Hres y); auto. }
  assert (Hframe : frame = frame_of (VS ret) (p_vars p) (v_vars g)).
  { rewrite Hf. unfold frame_of. cbn. f_equal. apply map_ext_in. intros x Hx.
    rewrite Hc1. rewrite Rv; auto. }
  assert (Hs1pc : sres s1 ".pc" <> None) by (rewrite Hres1; auto).
  assert (Hs1st : sres s1 ".stack" <> None) by (rewrite Hres1; auto).
  (* the initialisers read only the procedure's own variables, on which the two sides agree *)
  destruct (set_all_agree (fun y => ~ reserved y) (p_pre p) (cur s3) (bind_args (v_vars g) (p_vars p) args) f4)
    as (g4 & Hg4 & Hag); auto.
  { intros y Hy. rewrite Wc, vset_other by (intros ->; apply Hy, reserved_stack).
    rewrite Hc2. apply bind_args_local. rewrite Hc1. apply Rv; auto. }
  { intros x e Hin y Hy. destruct (Hpre x e Hin) as [_ Hsr]. apply Hres, Hsr, Hy. }
  rewrite Hg4. eexists. split; [reflexivity|].
  split; [|split; [|split; [|split; [|split]]]]; cbn [v_vars v_stack v_pc].
  - intros x Hx.
    rewrite Gc, vset_other by (intros ->; apply Hx, reserved_pc).
    rewrite Ac. apply Hag; auto.
  - rewrite Gc, vset_other by discriminate.
    rewrite Ac, (set_all_other _ _ _ ".stack" Hs4) by (apply Hnpre, reserved_stack).
    rewrite Wc, vset_same. rewrite Hframe. reflexivity.
  - rewrite Gc, vset_same. reflexivity.
  - apply Gk, Ak, Wk, Hk2, Hs1pc.
  - apply Gk, Ak, Wk, Hk2, Hs1st.
  - constructor; auto. exists (VS ret), (p_vars p), (v_vars g). split; auto.
Qed.

(* ------------------------------------------------------------------ Return *)

Lemma restore_all_spec : forall fr s s' vars f,
  restore_all s (map (fun x => (VS x, f x)) vars) = Some s' -> fr = map (fun x => (VS x, f x)) vars ->
  (forall x, In x vars -> ~ reserved x) ->
  (forall y, ~ reserved y -> cur s' y = restore_vars (cur s) fr y) /\
  (forall y, reserved y -> cur s' y = cur s y) /\
  (forall y, sres s y <> None -> sres s' y <> None).
Proof.
  intros fr s s' vars f H -> Hres. revert s s' H.
  induction vars as [|x r IH]; intros s s' H; cbn in H.
  - inversion H; subst. cbn. auto.
  - destruct (iwrite s x (f x)) as [s1|] eqn:Ew; [|discriminate].
    destruct (iwrite_spec _ _ _ _ Ew) as (Wc & Wo & Wd & Wne & Wk & _).
    assert (Hres' : forall y, In y r -> ~ reserved y) by (intros y Hy; apply Hres; now right).
    destruct (IH Hres' s1 s' H) as (Hc & Hr & Hk).
    assert (Hx : ~ reserved x) by (apply Hres; now left).
    assert (Exp : String.eqb x ".pc" = false) by (apply eqb_neq_false; intros ->; apply Hx, reserved_pc).
    split; [|split].
    + intros y Hy. rewrite Hc; auto. cbn. rewrite Exp.
      assert (Hloc : forall fr g g', g y = g' y -> restore_vars g fr y = restore_vars g' fr y).
      { induction fr as [|[k v] fr IHf]; intros g g' Hg; cbn; auto. destruct k; auto.
        apply IHf. destruct (String.eqb s0 ".pc"); auto. unfold vset. destruct (String.eqb y s0); auto. }
      apply Hloc. apply Wc.
    + intros y Hy. rewrite Hr; auto. rewrite Wc. apply vset_other. intros ->. contradiction.
    + intros y Hy. apply Hk, Wk, Hy.
Qed.

Lemma restore_vars_local : forall fr g g' y, g y = g' y -> restore_vars g fr y = restore_vars g' fr y.
Proof.
  induction fr as [|[k v] fr IH]; intros g g' y Hg; cbn; auto. destruct k; auto.
  apply IH. destruct (String.eqb s ".pc"); auto. unfold vset. destruct (String.eqb y s); auto.
Qed.

Lemma return_refines_lemma : forall s g s',
  Rel s g -> return_impl s = Some s' ->
  exists g', return_spec g = Some g' /\ Rel s' g'.
Proof.
  intros s g s' (Rv & Rs & Rp & Epc & Est & Rw) H.
  unfold return_impl in H. unfold return_spec.
  destruct (iread s ".stack") as [[s1 stackVal]|] eqn:Er; [|discriminate].
  destruct (iread_spec _ _ _ _ Er) as (Hsv & Hres1 & Hd1 & _).
  assert (Hc1 : forall y, cur s1 y = cur s y) by (intros y; unfold cur; now rewrite Hres1).
  rewrite Hsv, Rs in H.
  destruct (v_stack g) as [|fr rest] eqn:Eg; cbn in H; [discriminate|].
  inversion Rw as [|? ? Hwf Hrest]; subst.
  destruct Hwf as (ret & vars & f & -> & Hres).
  destruct (iwrite s1 ".stack" (VT (map VR rest))) as [s2|] eqn:Ew; [|discriminate].
  destruct (iwrite_spec _ _ _ _ Ew) as (Wc & Wo & Wd & Wne & Wk & _).
  unfold frame_of in H. cbn [restore_all] in H.
  destruct (iwrite s2 ".pc" ret) as [s3|] eqn:Ew2; [|discriminate].
  destruct (iwrite_spec _ _ _ _ Ew2) as (Pc & Po & Pd & Pne & Pk & _).
  destruct (restore_all_spec _ _ _ _ _ H eq_refl Hres) as (Hc & Hr & Hk).
  unfold frame_of. cbn [lookup val_eqb]. rewrite String.eqb_refl.
  eexists. split; [reflexivity|].
  split; [|split; [|split; [|split; [|split]]]]; cbn [v_vars v_stack v_pc].
  - intros y Hy. rewrite Hc; auto. cbn [restore_vars]. rewrite String.eqb_refl.
    apply restore_vars_local.
    rewrite Pc, vset_other by (intros ->; apply Hy, reserved_pc).
    rewrite Wc, vset_other by (intros ->; apply Hy, reserved_stack).
    rewrite Hc1. apply Rv; auto.
  - rewrite Hr by apply reserved_stack. rewrite Pc, vset_other by discriminate. rewrite Wc, vset_same. reflexivity.
  - rewrite Hr by apply reserved_pc. rewrite Pc, vset_same. reflexivity.
  - apply Hk, Pk, Wk. rewrite Hres1; auto.
  - apply Hk, Pk, Wk. rewrite Hres1; auto.
  - exact Hrest.
Qed.

(* ------------------------------------------------------------------ TailCall *)

Lemma tailcall_refines_lemma : forall t s g p args s',
  wf_table t -> Rel s g -> tailcall_impl t s p args = Some s' ->
  exists g', tailcall_spec t g p args = Some g' /\ Rel s' g'.
Proof.
  intros t s g p args s' Hwf HR H.
  unfold tailcall_impl in H. unfold tailcall_spec.
  destruct (iread s ".stack") as [[s1 stackVal]|] eqn:Er; [|discriminate].
  destruct (iread_spec _ _ _ _ Er) as (Hsv & Hres1 & Hd1 & _).
  assert (HR1 : Rel s1 g).
  { destruct HR as (Rv & Rs & Rp & Epc & Est & Rw). unfold Rel, cur. rewrite Hres1. repeat split; auto. }
  destruct HR as (Rv & Rs & Rp & Epc & Est & Rw).
  rewrite Hsv, Rs in H.
  destruct (v_stack g) as [|fr rest] eqn:Eg; cbn in H; [discriminate|].
  destruct (lookup (VS ".pc") fr) as [[| | |tailPC| |]|] eqn:El; try discriminate.
  destruct (return_impl s1) as [s2|] eqn:Eret; [|discriminate].
  destruct (return_refines_lemma s1 g s2 HR1 Eret) as (g1 & Hg1 & HR2).
  rewrite Hg1.
  assert (Hpc : v_pc g1 = VS tailPC).
  { unfold return_spec in Hg1. rewrite Eg, El in Hg1. inversion Hg1; subst. reflexivity. }
  rewrite Hpc. apply (call_refines_lemma t s2 g1 p tailPC args s' Hwf HR2 H).
Qed.

(* ------------------------------------------------------------------ traces *)

Definition ok_ev (e : ev) : Prop :=
  match e with EWrite x _ => ~ reserved x | _ => True end.

Lemma commit_cur : forall s y, cur (commit_impl s) y = cur s y.
Proof.
  intros s y. unfold cur, commit_impl; cbn. destruct (smem y (sdirty s)); auto. destruct (sres s y); auto.
Qed.

Lemma step_refines : forall t s g e s',
  wf_table t -> ok_ev e -> Rel s g -> impl_step t s e = Some s' ->
  exists g', spec_step t g e = Some g' /\ Rel s' g'.
Proof.
  intros t s g e s' Hwf Hok HR H. destruct e; cbn in *.
  - eapply call_refines_lemma; eauto.
  - eapply return_refines_lemma; eauto.
  - eapply tailcall_refines_lemma; eauto.
  - destruct (iwrite_spec _ _ _ _ H) as (Wc & Wo & Wd & Wne & Wk & _).
    destruct HR as (Rv & Rs & Rp & Epc & Est & Rw).
    eexists. split; [reflexivity|]. unfold Rel; cbn.
    repeat split; auto.
    + intros y Hy. rewrite Wc. unfold vset. destruct (String.eqb y x); auto.
    + rewrite Wc, vset_other; auto. intros E. apply Hok. rewrite <- E. apply reserved_stack.
    + rewrite Wc, vset_other; auto. intros E. apply Hok. rewrite <- E. apply reserved_pc.
  - inversion H; subst. eexists. split; [reflexivity|].
    destruct HR as (Rv & Rs & Rp & Epc & Est & Rw). unfold Rel.
    rewrite !commit_cur. repeat split; auto.
    + intros y Hy. rewrite commit_cur. auto.
    + cbn. destruct (smem ".pc" (sdirty s)); auto. destruct (sres s ".pc"); [discriminate|auto].
    + cbn. destruct (smem ".stack" (sdirty s)); auto. destruct (sres s ".stack"); [discriminate|auto].
Qed.

Lemma run_refines_lemma : forall t es s g s',
  wf_table t -> Forall ok_ev es -> Rel s g -> impl_run t s es = Some s' ->
  exists g', spec_run t g es = Some g' /\ Rel s' g'.
Proof.
  induction es as [|e r IH]; intros s g s' Hwf Hok HR H; cbn in *.
  - inversion H; subst. eauto.
  - inversion Hok; subst. destruct (impl_step t s e) as [s1|] eqn:E; [|discriminate].
    destruct (step_refines t s g e s1 Hwf H2 HR E) as (g1 & Hg & HR1). rewrite Hg.
    eapply IH; eauto.
Qed.

(* the abstraction of a store *)
Definition frames_of (v : val) : list (list (val * val)) :=
  match v with VT l => map (fun x => match x with VR f => f | _ => [] end) l | _ => [] end.
Definition abs (s : st) : sp := mkSp (cur s) (frames_of (cur s ".stack")) (cur s ".pc").

Definition wf_store (s : st) : Prop :=
  sres s ".pc" <> None /\ sres s ".stack" <> None /\
  exists frs, cur s ".stack" = VT (map VR frs) /\ Forall wf_frame frs.

Lemma rel_abs : forall s, wf_store s -> Rel s (abs s).
Proof.
  intros s (Hp & Hs & frs & E & Hw). unfold Rel, abs; cbn. rewrite E. cbn.
  assert (map (fun x => match x with VR f => f | _ => [] end) (map VR frs) = frs).
  { rewrite map_map. cbn. apply map_id. }
  rewrite H. repeat split; auto.
Qed.

(* ------------------------------------------------------------------ activation isolation (specification machine) *)

Section Isolation.
  Variable t : table.
  Variable R : string -> Prop.          (* variables reachable through references *)
  Hypothesis Hwf : wf_table t.

  Definition var_of (p x : string) : Prop :=
    exists pr, find_proc (t_procs t) p = Some pr /\ In x (p_vars pr).

  (* the events of one activation of procedure p, up to and including the return (or the tail
     call that replaces it and the replacing activation's events) *)
  Inductive act : string -> list ev -> Prop :=
  | act_ret : forall p, act p [EReturn]
  | act_write : forall p x v es, (var_of p x \/ R x) -> ~ reserved x -> act p es -> act p (EWrite x v :: es)
  | act_commit : forall p es, act p es -> act p (ECommit :: es)
  | act_call : forall p q r a es1 es2, act q es1 -> act p es2 -> act p (ECall q r a :: es1 ++ es2)
  | act_tail : forall p q a es, act q es -> act p (ETail q a :: es).

  Lemma spec_run_app : forall es1 es2 g, spec_run t g (es1 ++ es2) =
    match spec_run t g es1 with Some g1 => spec_run t g1 es2 | None => None end.
  Proof.
    induction es1 as [|e r IH]; intros es2 g; cbn; auto. destruct (spec_step t g e); auto.
  Qed.

  Lemma restore_vars_frame_in : forall vars (f g g' : string -> val) y,
    In y vars -> (forall x, In x vars -> ~ reserved x) ->
    restore_vars g (map (fun x => (VS x, f x)) vars) y = restore_vars g' (map (fun x => (VS x, f x)) vars) y.
  Proof.
    induction vars as [|x r IH]; intros f g g' y Hin Hres; [contradiction|].
    cbn. assert (Hx : ~ reserved x) by (apply Hres; now left).
    rewrite (eqb_neq_false x ".pc") by (intros ->; apply Hx, reserved_pc).
    destruct (String.eqb y x) eqn:E.
    - apply String.eqb_eq in E; subst y. apply restore_vars_local. now rewrite !vset_same.
    - destruct Hin as [->|Hin]; [rewrite String.eqb_refl in E; discriminate|].
      apply IH; auto. intros z Hz. apply Hres. now right.
  Qed.

  Lemma restore_vars_frame_notin : forall vars (f g : string -> val) y,
    ~ In y vars -> restore_vars g (map (fun x => (VS x, f x)) vars) y = g y.
  Proof.
    induction vars as [|x r IH]; intros f g y Hn; cbn; auto.
    destruct (String.eqb x ".pc").
    - apply IH. intros H; apply Hn; now right.
    - rewrite IH by (intros H; apply Hn; now right). apply vset_other. intros ->. apply Hn. now left.
  Qed.

  (* restoring a frame that holds the values h had: the variable gets h's value back *)
  Lemma restore_saved : forall vars (h g : string -> val) y,
    (forall x, In x vars -> ~ reserved x) -> (In y vars \/ g y = h y) ->
    restore_vars g (map (fun x => (VS x, h x)) vars) y = h y.
  Proof.
    induction vars as [|x r IH]; intros h g y Hres Hy; cbn.
    - destruct Hy as [[]|Hy]; auto.
    - assert (Hx : ~ reserved x) by (apply Hres; now left).
      rewrite (eqb_neq_false x ".pc") by (intros ->; apply Hx, reserved_pc).
      assert (Hres' : forall z, In z r -> ~ reserved z) by (intros z Hz; apply Hres; now right).
      destruct (string_dec y x) as [->|Hne].
      + apply IH; auto. right. apply vset_same.
      + apply IH; auto. destruct Hy as [[->|Hin]|Hg]; [contradiction|now left|].
        right. rewrite vset_other; auto.
  Qed.

  (* the state after a call, w.r.t. the state before *)
  Lemma call_spec_shape : forall g q r a g1,
    call_spec t g q r a = Some g1 ->
    exists pr, find_proc (t_procs t) q = Some pr /\
      v_stack g1 = frame_of (VS r) (p_vars pr) (v_vars g) :: v_stack g /\
      (forall y, ~ In y (p_vars pr) -> v_vars g1 y = v_vars g y).
  Proof.
    intros g q r a g1 H. unfold call_spec in H.
    destruct (find_proc (t_procs t) q) as [pr|] eqn:E; [|discriminate].
    destruct (Nat.ltb _ _); [discriminate|]. destruct (has_label t (p_label pr)); [|discriminate].
    destruct (set_all (bind_args (v_vars g) (p_vars pr) a) (p_pre pr)) as [f'|] eqn:Es; [|discriminate].
    inversion H; subst; clear H. exists pr. split; auto. split; [reflexivity|].
    intros y Hy. cbn. destruct (Hwf q pr E) as (_ & _ & Hpre).
    rewrite (set_all_other _ _ _ y Es) by (intros e Hin; apply Hy; destruct (Hpre y e Hin); auto).
    apply bind_args_other; auto.
  Qed.

  Lemma act_inv : forall p es, act p es ->
    forall g pr ret f rest g',
      find_proc (t_procs t) p = Some pr ->
      v_stack g = frame_of ret (p_vars pr) f :: rest ->
      spec_run t g es = Some g' ->
      v_stack g' = rest /\ v_pc g' = ret /\
      (forall y, ~ R y -> v_vars g' y = restore_vars (v_vars g) (frame_of ret (p_vars pr) f) y).
  Proof.
    induction 1 as [p | p x v es Hx Hnr Hact IH | p es Hact IH | p q r a es1 es2 H1 IH1 H2 IH2 | p q a es Hact IH];
      intros g pr ret f rest g' Ep Est Hrun.
    - (* return *)
      cbn in Hrun. unfold return_spec in Hrun. rewrite Est in Hrun. unfold frame_of in Hrun.
      cbn [lookup val_eqb] in Hrun. rewrite String.eqb_refl in Hrun. inversion Hrun; subst; clear Hrun.
      cbn. auto.
    - (* write *)
      cbn in Hrun.
      destruct (IH (mkSp (vset (v_vars g) x v) (v_stack g) (v_pc g)) pr ret f rest g' Ep Est Hrun) as (Hs & Hp & Hv). cbn [v_stack v_vars] in *.
      split; auto. split; auto. intros y Hy. rewrite Hv; auto.
      destruct (String.eqb y x) eqn:E.
      + apply String.eqb_eq in E; subst y. destruct Hx as [(pr' & Ep' & Hin)|Hr]; [|contradiction].
        rewrite Ep in Ep'. inversion Ep'; subst pr'.
        unfold frame_of. cbn [restore_vars]. rewrite String.eqb_refl.
        apply restore_vars_frame_in; auto. destruct (Hwf p pr Ep) as (_ & Hres & _). exact Hres.
      + apply restore_vars_local. unfold vset. now rewrite E.
    - (* commit *)
      cbn in Hrun. eapply IH; eauto.
    - (* call *)
      cbn in Hrun. destruct (call_spec t g q r a) as [g1|] eqn:Ec; [|discriminate].
      destruct (call_spec_shape _ _ _ _ _ Ec) as (prq & Eq & Hst1 & Hv1).
      rewrite spec_run_app in Hrun.
      destruct (spec_run t g1 es1) as [g2|] eqn:E1; [|discriminate].
      destruct (IH1 g1 prq (VS r) (v_vars g) (v_stack g) g2 Eq Hst1 E1) as (Hs2 & Hp2 & Hv2).
      rewrite Est in Hs2.
      destruct (IH2 g2 pr ret f rest g' Ep Hs2 Hrun) as (Hs & Hp & Hv).
      split; auto. split; auto. intros y Hy. rewrite Hv; auto. apply restore_vars_local.
      rewrite Hv2; auto. unfold frame_of. cbn [restore_vars]. rewrite String.eqb_refl.
      destruct (Hwf q prq Eq) as (_ & Hres & _).
      apply restore_saved; auto.
      destruct (in_dec string_dec y (p_vars prq)) as [Hin|Hnin]; [now left|right; apply Hv1; auto].
    - (* tail call *)
      cbn in Hrun. unfold tailcall_spec in Hrun.
      destruct (return_spec g) as [g1|] eqn:Er; [|discriminate].
      unfold return_spec in Er. rewrite Est in Er. unfold frame_of in Er.
      cbn [lookup val_eqb] in Er. rewrite String.eqb_refl in Er. inversion Er; subst g1; clear Er.
      cbn [v_pc] in Hrun. destruct ret as [| | |l| |]; try discriminate.
      destruct (call_spec t _ q l a) as [g2|] eqn:Ec; [|discriminate].
      destruct (call_spec_shape _ _ _ _ _ Ec) as (prq & Eq & Hst2 & Hv2). cbn [v_stack v_vars] in *.
      destruct (IH g2 prq (VS l) _ rest g' Eq Hst2 Hrun) as (Hs & Hp & Hv).
      split; auto. split; auto. intros y Hy. rewrite Hv; auto.
      unfold frame_of at 1. cbn [restore_vars]. rewrite String.eqb_refl.
      destruct (Hwf q prq Eq) as (_ & Hres & _).
      apply restore_saved; auto.
      destruct (in_dec string_dec y (p_vars prq)) as [Hin|Hnin]; [now left|right; apply Hv2; auto].
  Qed.

  (* after the matching return of any activation: the stack and the return label are as the call
     demanded and every variable outside the reference set has its pre-call value *)
  Lemma isolation_spec : forall q r a es g g',
    act q es -> spec_run t g (ECall q r a :: es) = Some g' ->
    v_stack g' = v_stack g /\ v_pc g' = VS r /\ (forall y, ~ R y -> v_vars g' y = v_vars g y).
  Proof.
    intros q r a es g g' Hact Hrun. cbn in Hrun.
    destruct (call_spec t g q r a) as [g1|] eqn:Ec; [|discriminate].
    destruct (call_spec_shape _ _ _ _ _ Ec) as (prq & Eq & Hst1 & Hv1).
    destruct (act_inv q es Hact g1 prq (VS r) (v_vars g) (v_stack g) g' Eq Hst1 Hrun) as (Hs & Hp & Hv).
    split; auto. split; auto. intros y Hy. rewrite Hv; auto.
    unfold frame_of. cbn [restore_vars]. rewrite String.eqb_refl.
    destruct (Hwf q prq Eq) as (_ & Hres & _).
    apply restore_saved; auto.
    destruct (in_dec string_dec y (p_vars prq)) as [Hin|Hnin]; [now left|right; apply Hv1; auto].
  Qed.

  Lemma act_ok : forall p es, act p es -> Forall ok_ev es.
  Proof.
    induction 1; repeat constructor; auto. apply Forall_app. split; auto.
  Qed.

  (* the same statement about the runtime *)
  Lemma isolation_impl : forall q r a es s s',
    wf_store s -> act q es -> impl_run t s (ECall q r a :: es) = Some s' ->
    cur s' ".stack" = cur s ".stack" /\ cur s' ".pc" = VS r /\
    (forall y, ~ R y -> ~ reserved y -> cur s' y = cur s y).
  Proof.
    intros q r a es s s' Hws Hact Hrun.
    assert (Hok : Forall ok_ev (ECall q r a :: es)) by (constructor; [exact Logic.I|eapply act_ok; eauto]).
    destruct (run_refines_lemma t _ s (abs s) s' Hwf Hok (rel_abs s Hws) Hrun) as (g' & Hg & HR).
    destruct (isolation_spec q r a es (abs s) g' Hact Hg) as (Hs & Hp & Hv).
    destruct HR as (Rv & Rs & Rp & _ & _ & _).
    destruct (rel_abs s Hws) as (_ & Rs0 & _).
    split; [|split].
    - rewrite Rs, Hs. symmetry. exact Rs0.
    - rewrite Rp. exact Hp.
    - intros y Hy Hny. rewrite Rv; auto. rewrite Hv; auto.
  Qed.
End Isolation.

(* ------------------------------------------------------------------ abort between call and return *)

(* every variable's last-commit value is kept, and untouched variables are unchanged *)
Definition keeps (b s : st) : Prop :=
  forall x, oldv s x = cur b x /\ (smem x (sdirty s) = false -> cur s x = cur b x).

Lemma keeps_iread : forall b s h s' v, keeps b s -> iread s h = Some (s', v) -> keeps b s'.
Proof.
  intros b s h s' v K H. destruct (iread_spec _ _ _ _ H) as (_ & Hres & Hd & _).
  intros x. destruct (K x) as [Ko Kc]. unfold oldv, cur in *. rewrite Hres, Hd. split; auto.
  cbn. intros Hm. apply Bool.orb_false_iff in Hm as [_ Hm]. auto.
Qed.

Lemma keeps_iwrite : forall b s h v s', keeps b s -> iwrite s h v = Some s' -> keeps b s'.
Proof.
  intros b s h v s' K H. destruct (iwrite_spec _ _ _ _ H) as (Wc & Wo & Wd & _).
  intros x. destruct (K x) as [Ko Kc]. rewrite Wo, Wd. split; auto.
  cbn. intros Hm. apply Bool.orb_false_iff in Hm as [Hx Hm]. rewrite Wc.
  unfold vset. rewrite Hx. auto.
Qed.

Lemma keeps_ensure : forall b s x, keeps b s -> keeps b (ensure s x).
Proof.
  intros b s x K y. destruct (ensure_spec s x) as (Ec & Eo & Ed & _). rewrite Ec, Eo, Ed. apply K.
Qed.

Lemma keeps_save_bind : forall vars args b s frame s2 frame2,
  keeps b s -> save_bind s vars args frame = Some (s2, frame2) -> keeps b s2.
Proof.
  induction vars as [|x r IH]; intros args b s frame s2 frame2 K H; cbn in H.
  - inversion H; subst; auto.
  - destruct (iread (ensure s x) x) as [[s1 v]|] eqn:Er; [|discriminate].
    pose proof (keeps_iread _ _ _ _ _ (keeps_ensure b s x K) Er) as K1.
    destruct args as [|a args].
    + eapply IH; eauto.
    + destruct (iwrite s1 x a) as [s3|] eqn:Ew; [|discriminate].
      eapply IH; [eapply keeps_iwrite; eauto|eauto].
Qed.

Lemma keeps_peval : forall b s e s1 v, keeps b s -> peval_impl s e = Some (s1, v) -> keeps b s1.
Proof.
  intros b s e s1 v K H. destruct e as [w|y|y k]; cbn in H.
  - inversion H; subst; auto.
  - eapply keeps_iread; eauto.
  - destruct (iread s y) as [[s2 w]|] eqn:Er; [|discriminate].
    destruct (padd w k); [|discriminate]. inversion H; subst. eapply keeps_iread; eauto.
Qed.

Lemma keeps_write_all : forall ws b s s', keeps b s -> write_all s ws = Some s' -> keeps b s'.
Proof.
  induction ws as [|[x e] r IH]; intros b s s' K H; cbn in H.
  - inversion H; subst; auto.
  - destruct (peval_impl s e) as [[s1 v]|] eqn:Ee; [|discriminate].
    destruct (iwrite s1 x v) as [s2|] eqn:Ew; [|discriminate].
    eapply IH; [eapply keeps_iwrite; [eapply keeps_peval; eauto|eauto]|eauto].
Qed.

Lemma keeps_restore_all : forall f b s s', keeps b s -> restore_all s f = Some s' -> keeps b s'.
Proof.
  induction f as [|[k v] r IH]; intros b s s' K H; cbn in H.
  - inversion H; subst; auto.
  - destruct k; try discriminate. destruct (iwrite s s0 v) as [s1|] eqn:Ew; [|discriminate].
    eapply IH; [eapply keeps_iwrite; eauto|eauto].
Qed.

Lemma keeps_call : forall t b s p r a s', keeps b s -> call_impl t s p r a = Some s' -> keeps b s'.
Proof.
  intros t b s p r a s' K H. unfold call_impl in H.
  destruct (find_proc (t_procs t) p) as [pr|]; [|discriminate].
  destruct (iread s ".stack") as [[s1 sv]|] eqn:Er; [|discriminate].
  pose proof (keeps_iread _ _ _ _ _ K Er) as K1.
  destruct (Nat.ltb _ _); [discriminate|].
  destruct (save_bind s1 (p_vars pr) a _) as [[s2 fr]|] eqn:Es; [|discriminate].
  pose proof (keeps_save_bind _ _ _ _ _ _ _ K1 Es) as K2.
  destruct sv; try discriminate.
  destruct (iwrite s2 ".stack" _) as [s3|] eqn:Ew; [|discriminate].
  pose proof (keeps_iwrite _ _ _ _ _ K2 Ew) as K3.
  destruct (write_all s3 (p_pre pr)) as [s4|] eqn:Ea; [|discriminate].
  pose proof (keeps_write_all _ _ _ _ K3 Ea) as K4.
  unfold goto_impl in H. destruct (has_label t (p_label pr)); [|discriminate].
  eapply keeps_iwrite; eauto.
Qed.

Lemma keeps_return : forall b s s', keeps b s -> return_impl s = Some s' -> keeps b s'.
Proof.
  intros b s s' K H. unfold return_impl in H.
  destruct (iread s ".stack") as [[s1 sv]|] eqn:Er; [|discriminate].
  pose proof (keeps_iread _ _ _ _ _ K Er) as K1.
  destruct sv as [| | | |[|[| | | | |f] rest]|]; try discriminate.
  destruct (iwrite s1 ".stack" (VT rest)) as [s2|] eqn:Ew; [|discriminate].
  eapply keeps_restore_all; [eapply keeps_iwrite; eauto|eauto].
Qed.

Lemma keeps_tailcall : forall t b s p a s', keeps b s -> tailcall_impl t s p a = Some s' -> keeps b s'.
Proof.
  intros t b s p a s' K H. unfold tailcall_impl in H.
  destruct (iread s ".stack") as [[s1 sv]|] eqn:Er; [|discriminate].
  pose proof (keeps_iread _ _ _ _ _ K Er) as K1.
  destruct sv as [| | | |[|[| | | | |f] rest]|]; try discriminate.
  destruct (lookup (VS ".pc") f) as [[| | |l| |]|]; try discriminate.
  destruct (return_impl s1) as [s2|] eqn:E; [|discriminate].
  eapply keeps_call; [eapply keeps_return; eauto|eauto].
Qed.

Definition no_commit (e : ev) : Prop := match e with ECommit => False | _ => True end.

Lemma keeps_run : forall t es b s s', Forall no_commit es -> keeps b s -> impl_run t s es = Some s' -> keeps b s'.
Proof.
  induction es as [|e r IH]; intros b s s' Hn K H; cbn in H.
  - inversion H; subst; auto.
  - inversion Hn; subst. destruct (impl_step t s e) as [s1|] eqn:E; [|discriminate].
    assert (K1 : keeps b s1).
    { destruct e; cbn in E.
      + eapply keeps_call; eauto.
      + eapply keeps_return; eauto.
      + eapply keeps_tailcall; eauto.
      + eapply keeps_iwrite; eauto.
      + contradiction. }
    eapply IH; eauto.
Qed.

Definition quiescent (s : st) : Prop := sdirty s = [] /\ forall x, oldv s x = cur s x.

Lemma abort_between_lemma : forall t es s s',
  quiescent s -> Forall no_commit es -> impl_run t s es = Some s' ->
  quiescent (abort_impl s') /\ forall x, cur (abort_impl s') x = cur s x.
Proof.
  intros t es s s' [Hd Ho] Hn H.
  assert (K : keeps s s).
  { intros x. split; auto. }
  pose proof (keeps_run t es s s s' Hn K H) as K'.
  assert (Hc : forall x, cur (abort_impl s') x = cur s x).
  { intros x. destruct (K' x) as [Ko Kc]. unfold cur, abort_impl; cbn.
    destruct (smem x (sdirty s')) eqn:Em.
    - unfold oldv in Ko. destruct (sres s' x); auto.
    - apply Kc. reflexivity. }
  split; auto. split; [reflexivity|].
  intros x. rewrite Hc. destruct (K' x) as [Ko Kc]. unfold oldv, abort_impl; cbn.
  destruct (smem x (sdirty s')) eqn:Em.
  - unfold oldv in Ko. destruct (sres s' x); auto.
  - exact Ko.
Qed.

(* ------------------------------------------------------------------ the non-vacuity example *)

Definition ex_table : table :=
  mkTable [("P", mkProc "P.l1" ["P.n"] []); ("Q", mkProc "Q.l1" ["Q.m"; "Q.z"] [("Q.z", PAdd "Q.m" 10)])]
          ["A.l1"; "A.l2"; "P.l1"; "P.l2"; "Q.l1"].

Definition ex_store : st := init_store "A.l1" [("A.x", VI 5)].

(* P(2) calls P(1) calls P(0); P(0) returns; P(1) tail-calls Q(7), which writes its local and
   returns to P(2)'s continuation; P(2) writes A.x through a reference and returns *)
Definition ex_inner0 : list ev := [ECommit; EReturn].
Definition ex_inner1 : list ev :=
  ECommit :: ECall "P" "P.l2" [VI 0] :: (ex_inner0 ++ [ECommit; ETail "Q" [VI 7]; EWrite "Q.z" (VI 9); ECommit; EReturn]).
Definition ex_trace : list ev :=
  ECommit :: ECall "P" "P.l2" [VI 1] :: (ex_inner1 ++ [ECommit; EWrite "A.x" (VI 6); EReturn]).

Lemma ex_table_wf : wf_table ex_table.
Proof.
  intros n p H. unfold ex_table in H. cbn [t_procs find_proc] in H.
  destruct (String.eqb "P" n); [inversion H; subst|destruct (String.eqb "Q" n); [inversion H; subst|discriminate]].
  - split; [repeat constructor; auto|]. split.
    + intros x [<-|[]] [E|E]; discriminate E.
    + intros x v [].
  - split; [repeat constructor; cbn; intuition discriminate|]. split.
    + intros x [<-|[<-|[]]] [E|E]; discriminate E.
    + intros x v [E|[]]. inversion E; subst. cbn. split; [auto|]. intros y [<-|[]]. auto.
Qed.

Lemma ex_store_wf : wf_store ex_store.
Proof.
  split; [unfold ex_store, init_store; cbn [sres]; rewrite String.eqb_refl; discriminate|].
  split; [unfold ex_store, init_store; cbn [sres]; discriminate|]. exists []. split; [reflexivity|constructor].
Qed.

Lemma init_store_quiescent : forall e ls, quiescent (init_store e ls).
Proof.
  intros e ls. split; [reflexivity|]. intros x. unfold oldv, cur, init_store. cbn [sres].
  destruct (String.eqb x ".pc"); auto. destruct (String.eqb x ".stack"); auto.
  destruct (find _ ls) as [[? ?]|]; auto.
Qed.

Lemma ex_store_quiescent : quiescent ex_store.
Proof. apply init_store_quiescent. Qed.

Lemma ex_trace_act : act ex_table (fun x => x = "A.x") "P" ex_trace.
Proof.
  assert (Hq : forall x, x = "Q.z" -> var_of ex_table "Q" x).
  { intros x ->. exists (mkProc "Q.l1" ["Q.m"; "Q.z"] [("Q.z", PAdd "Q.m" 10)]). split; [reflexivity|cbn; auto]. }
  assert (Hnr : forall x, x = "Q.z" \/ x = "A.x" -> ~ reserved x).
  { intros x [->| ->] [E|E]; discriminate E. }
  unfold ex_trace. apply act_commit. apply act_call.
  - unfold ex_inner1. apply act_commit. apply act_call.
    + unfold ex_inner0. apply act_commit. apply act_ret.
    + apply act_commit. apply act_tail. apply act_write; [left; apply Hq; auto|apply Hnr; auto|].
      apply act_commit. apply act_ret.
  - apply act_commit. apply act_write; [right; reflexivity|apply Hnr; auto|]. apply act_ret.
Qed.

(* ------------------------------------------------------------------ the other direction: the runtime does not
   panic where the specification is defined *)

Definition grows (s s' : st) : Prop := forall y, sres s y <> None -> sres s' y <> None.

Lemma grows_refl s : grows s s. Proof. intros y H; exact H. Qed.
Lemma grows_trans a b c : grows a b -> grows b c -> grows a c.
Proof. intros H1 H2 y H. apply H2, H1, H. Qed.

Lemma iread_grows : forall s h s' v, iread s h = Some (s', v) -> grows s s'.
Proof. intros s h s' v H y Hy. destruct (iread_spec _ _ _ _ H) as (_ & Hr & _). now rewrite Hr. Qed.

Lemma iwrite_grows : forall s h v s', iwrite s h v = Some s' -> grows s s'.
Proof. intros s h v s' H. destruct (iwrite_spec _ _ _ _ H) as (_ & _ & _ & _ & Hk & _). exact Hk. Qed.

Lemma ensure_grows : forall s x, grows s (ensure s x).
Proof. intros s x. destruct (ensure_spec s x) as (_ & _ & _ & _ & Hk). exact Hk. Qed.

Lemma iread_total : forall s h, sres s h <> None -> exists s' v, iread s h = Some (s', v).
Proof. intros s h H. unfold iread. destruct (sres s h); [eauto|contradiction]. Qed.

Lemma iwrite_total : forall s h v, sres s h <> None -> exists s', iwrite s h v = Some s'.
Proof. intros s h v H. unfold iwrite. destruct (sres s h); [eauto|contradiction]. Qed.

Lemma save_bind_total : forall vars args s frame,
  exists s2 frame2, save_bind s vars args frame = Some (s2, frame2) /\ grows s s2 /\
                    (forall x, In x vars -> sres s2 x <> None).
Proof.
  induction vars as [|x r IH]; intros args s frame; cbn.
  - exists s, frame. split; auto. split; [apply grows_refl|intros x []].
  - destruct (ensure_spec s x) as (_ & _ & _ & He & Hk).
    destruct (iread_total (ensure s x) x He) as (s1 & v & Er). rewrite Er.
    pose proof (iread_grows _ _ _ _ Er) as G1.
    destruct args as [|a args].
    + destruct (IH [] s1 (frame_set frame (VS x) v)) as (s2 & f2 & E & G & Hx). rewrite E.
      exists s2, f2. split; auto. split.
      * eapply grows_trans; [apply ensure_grows|]. eapply grows_trans; eauto.
      * intros y [<-|Hy]; auto; try (apply G, G1, He).
    + destruct (iwrite_total s1 x a (G1 x He)) as (s3 & Ew). rewrite Ew.
      pose proof (iwrite_grows _ _ _ _ Ew) as G3.
      destruct (IH args s3 (frame_set frame (VS x) v)) as (s2 & f2 & E & G & Hx). rewrite E.
      exists s2, f2. split; auto. split.
      * eapply grows_trans; [apply ensure_grows|]. eapply grows_trans; [exact G1|].
        eapply grows_trans; eauto.
      * intros y [<-|Hy]; auto; try (apply G, G3, G1, He).
Qed.

Lemma peval_impl_total : forall s e v,
  peval (cur s) e = Some v -> (forall y, In y (psrc e) -> sres s y <> None) ->
  exists s1, peval_impl s e = Some (s1, v) /\ grows s s1 /\ (forall y, cur s1 y = cur s y).
Proof.
  intros s e v H Hs. destruct e as [w|y|y k]; cbn in H |- *.
  - inversion H; subst. exists s. split; auto. split; [apply grows_refl|auto].
  - destruct (iread_total s y (Hs y (or_introl eq_refl))) as (s1 & w & Er). rewrite Er.
    destruct (iread_spec _ _ _ _ Er) as (Hw & Hr & _). inversion H; subst.
    exists s1. split; auto. split; [eapply iread_grows; eauto|intros z; unfold cur; now rewrite Hr].
  - destruct (iread_total s y (Hs y (or_introl eq_refl))) as (s1 & w & Er). rewrite Er.
    destruct (iread_spec _ _ _ _ Er) as (Hw & Hr & _). subst w. rewrite H.
    exists s1. split; auto. split; [eapply iread_grows; eauto|intros z; unfold cur; now rewrite Hr].
Qed.

Lemma write_all_total : forall ws s f',
  set_all (cur s) ws = Some f' ->
  (forall x e, In (x, e) ws -> sres s x <> None /\ forall y, In y (psrc e) -> sres s y <> None) ->
  exists s', write_all s ws = Some s' /\ grows s s'.
Proof.
  induction ws as [|[x e] r IH]; intros s f' H Hex; cbn in H |- *.
  - exists s. split; auto. apply grows_refl.
  - destruct (peval (cur s) e) as [v|] eqn:Ep; [|discriminate].
    destruct (Hex x e (or_introl eq_refl)) as [Hx Hsrc].
    destruct (peval_impl_total s e v Ep Hsrc) as (s1 & E1 & G1 & Hc1). rewrite E1.
    destruct (iwrite_total s1 x v (G1 x Hx)) as (s2 & Ew). rewrite Ew.
    pose proof (iwrite_grows _ _ _ _ Ew) as G2.
    destruct (iwrite_spec _ _ _ _ Ew) as (Wc & _).
    destruct (set_all_agree (fun _ => True) r (vset (cur s) x v) (cur s2) f') as (g' & Hg & _); auto.
    { intros y _. rewrite Wc. unfold vset. destruct (String.eqb y x); auto. }
    destruct (IH s2 g' Hg) as (s' & E & G').
    { intros x0 e0 Hin. destruct (Hex x0 e0 (or_intror Hin)) as [H0 H1]. split; [apply G2, G1, H0|].
      intros y Hy. apply G2, G1, H1, Hy. }
    exists s'. split; auto. eapply grows_trans; [exact G1|]. eapply grows_trans; eauto.
Qed.

Lemma call_defined_lemma : forall t s g p ret args g',
  wf_table t -> Rel s g -> call_spec t g p ret args = Some g' ->
  exists s', call_impl t s p ret args = Some s'.
Proof.
  intros t s g pn ret args g' Hwf (Rv & Rs & Rp & Epc & Est & Rw) H.
  unfold call_spec in H. unfold call_impl.
  destruct (find_proc (t_procs t) pn) as [p|] eqn:Ep; [|discriminate].
  destruct (Hwf pn p Ep) as (Hnd & Hres & Hpre).
  destruct (iread_total s ".stack" Est) as (s1 & sv & Er). rewrite Er.
  destruct (iread_spec _ _ _ _ Er) as (Hsv & Hres1 & _).
  destruct (Nat.ltb (List.length (p_vars p)) (List.length args)); [discriminate|].
  destruct (has_label t (p_label p)) eqn:El; [|discriminate].
  destruct (set_all (bind_args (v_vars g) (p_vars p) args) (p_pre p)) as [fg|] eqn:Esg; [|discriminate].
  destruct (save_bind_total (p_vars p) args s1 [(VS ".pc", VS ret)]) as (s2 & fr & Esb & G2 & Hx). rewrite Esb.
  assert (Hfr0 : forall x, In x (p_vars p) -> lookup (VS x) [(VS ".pc", VS ret)] = None).
  { intros x Hx0. cbn. rewrite eqb_neq_false; auto. intros ->. apply (Hres _ Hx0). apply reserved_pc. }
  destruct (save_bind_spec _ _ _ _ _ _ Esb Hnd Hfr0) as (_ & Hc2 & _ & _).
  rewrite Hsv, Rs.
  assert (Hst2 : sres s2 ".stack" <> None) by (apply G2; rewrite Hres1; auto).
  destruct (iwrite_total s2 ".stack" (VT (VR fr :: map VR (v_stack g))) Hst2) as (s3 & Ew). rewrite Ew.
  pose proof (iwrite_grows _ _ _ _ Ew) as G3.
  destruct (iwrite_spec _ _ _ _ Ew) as (Wc & _).
  assert (Hc1 : forall y, cur s1 y = cur s y) by (intros y; unfold cur; now rewrite Hres1).
  destruct (set_all_agree (fun y => ~ reserved y) (p_pre p) (bind_args (v_vars g) (p_vars p) args) (cur s3) fg)
    as (f3 & Hf3 & _); auto.
  { intros y Hy. rewrite Wc, vset_other by (intros ->; apply Hy, reserved_stack).
    rewrite Hc2. symmetry. apply bind_args_local. rewrite Hc1. apply Rv; auto. }
  { intros x e Hin y Hy. destruct (Hpre x e Hin) as [_ Hsr]. apply Hres, Hsr, Hy. }
  destruct (write_all_total (p_pre p) s3 f3 Hf3) as (s4 & Ea & G4).
  { intros x e Hin. destruct (Hpre x e Hin) as [Hxv Hsr]. split; [apply G3, Hx, Hxv|].
    intros y Hy. apply G3, Hx, Hsr, Hy. }
  rewrite Ea. unfold goto_impl. rewrite El.
  apply iwrite_total. apply G4, G3, G2. rewrite Hres1. auto.
Qed.

(* every variable saved in a frame exists in the store (Call created it) *)
Definition live (s : st) (g : sp) : Prop :=
  forall fr, In fr (v_stack g) -> forall x v, In (VS x, v) fr -> x <> ".pc" -> sres s x <> None.

Lemma restore_all_total : forall vars (f : string -> val) s,
  (forall x, In x vars -> sres s x <> None) ->
  exists s', restore_all s (map (fun x => (VS x, f x)) vars) = Some s'.
Proof.
  induction vars as [|x r IH]; intros f s H; cbn.
  - eauto.
  - destruct (iwrite_total s x (f x) (H x (or_introl eq_refl))) as (s1 & Ew). rewrite Ew.
    apply IH. intros y Hy. apply (iwrite_grows _ _ _ _ Ew). apply H. now right.
Qed.

Lemma return_defined_lemma : forall s g g',
  Rel s g -> live s g -> return_spec g = Some g' -> exists s', return_impl s = Some s'.
Proof.
  intros s g g' (Rv & Rs & Rp & Epc & Est & Rw) HL H.
  unfold return_spec in H. unfold return_impl.
  destruct (iread_total s ".stack" Est) as (s1 & sv & Er). rewrite Er.
  destruct (iread_spec _ _ _ _ Er) as (Hsv & Hres1 & _). rewrite Hsv, Rs.
  destruct (v_stack g) as [|fr rest] eqn:Eg; [discriminate|]. cbn [map].
  inversion Rw as [|? ? Hwf Hrest]; subst. destruct Hwf as (ret & vars & f & -> & Hres).
  assert (Hst1 : sres s1 ".stack" <> None) by (rewrite Hres1; auto).
  destruct (iwrite_total s1 ".stack" (VT (map VR rest)) Hst1) as (s2 & Ew). rewrite Ew.
  pose proof (iwrite_grows _ _ _ _ Ew) as G2.
  unfold frame_of. cbn [restore_all].
  assert (Hpc2 : sres s2 ".pc" <> None) by (apply G2; rewrite Hres1; auto).
  destruct (iwrite_total s2 ".pc" ret Hpc2) as (s3 & Ew3). rewrite Ew3.
  apply restore_all_total. intros x Hx. apply (iwrite_grows _ _ _ _ Ew3), G2. rewrite Hres1.
  assert (Hin : In (frame_of ret vars f) (v_stack g)) by (rewrite Eg; now left).
  apply (HL _ Hin x (f x)).
  - unfold frame_of. right. apply in_map_iff. exists x. split; eauto.
  - intros ->. apply (Hres ".pc" Hx). apply reserved_pc.
Qed.

Lemma save_bind_grows : forall vars args s frame s2 frame2,
  save_bind s vars args frame = Some (s2, frame2) -> grows s s2 /\ (forall x, In x vars -> sres s2 x <> None).
Proof.
  intros vars args s frame s2 frame2 H.
  destruct (save_bind_total vars args s frame) as (s2' & f2' & E & G & Hx).
  rewrite H in E. inversion E; subst. auto.
Qed.

Lemma write_all_grows : forall ws s s', write_all s ws = Some s' -> grows s s'.
Proof.
  intros ws s s' H. destruct (write_all_spec _ _ _ H) as (_ & _ & _ & _ & Hk). exact Hk.
Qed.

Lemma restore_all_grows : forall f s s', restore_all s f = Some s' -> grows s s'.
Proof.
  induction f as [|[k v] r IH]; intros s s' H; cbn in H.
  - inversion H; subst. apply grows_refl.
  - destruct k; try discriminate. destruct (iwrite s s0 v) as [s1|] eqn:Ew; [|discriminate].
    eapply grows_trans; [eapply iwrite_grows; eauto|eauto].
Qed.

Lemma call_grows : forall t s p r a s', call_impl t s p r a = Some s' ->
  grows s s' /\ forall pr, find_proc (t_procs t) p = Some pr -> forall x, In x (p_vars pr) -> sres s' x <> None.
Proof.
  intros t s p r a s' H. unfold call_impl in H.
  destruct (find_proc (t_procs t) p) as [pr|]; [|discriminate].
  destruct (iread s ".stack") as [[s1 sv]|] eqn:Er; [|discriminate].
  destruct (Nat.ltb _ _); [discriminate|].
  destruct (save_bind s1 (p_vars pr) a _) as [[s2 fr]|] eqn:Es; [|discriminate].
  destruct (save_bind_grows _ _ _ _ _ _ Es) as [G2 Hx].
  destruct sv; try discriminate.
  destruct (iwrite s2 ".stack" _) as [s3|] eqn:Ew; [|discriminate].
  destruct (write_all s3 (p_pre pr)) as [s4|] eqn:Ea; [|discriminate].
  unfold goto_impl in H. destruct (has_label t (p_label pr)); [|discriminate].
  assert (G : grows s2 s').
  { eapply grows_trans; [eapply iwrite_grows; eauto|].
    eapply grows_trans; [eapply write_all_grows; eauto|eapply iwrite_grows; eauto]. }
  split.
  - eapply grows_trans; [eapply iread_grows; eauto|]. eapply grows_trans; eauto.
  - intros pr' E x Hin. inversion E; subst pr'. apply G, Hx, Hin.
Qed.

Lemma return_grows : forall s s', return_impl s = Some s' -> grows s s'.
Proof.
  intros s s' H. unfold return_impl in H.
  destruct (iread s ".stack") as [[s1 sv]|] eqn:Er; [|discriminate].
  destruct sv as [| | | |[|[| | | | |f] rest]|]; try discriminate.
  destruct (iwrite s1 ".stack" (VT rest)) as [s2|] eqn:Ew; [|discriminate].
  eapply grows_trans; [eapply iread_grows; eauto|].
  eapply grows_trans; [eapply iwrite_grows; eauto|eapply restore_all_grows; eauto].
Qed.

Lemma live_grows : forall s s' g, grows s s' -> live s g -> live s' g.
Proof. intros s s' g G L fr Hin x v Hx Hn. apply G. eapply L; eauto. Qed.

Lemma call_live : forall t s g p r a s' g',
  live s g -> call_impl t s p r a = Some s' -> call_spec t g p r a = Some g' -> live s' g'.
Proof.
  intros t s g p r a s' g' L Hi Hs. destruct (call_grows _ _ _ _ _ _ Hi) as [G Hx].
  unfold call_spec in Hs. destruct (find_proc (t_procs t) p) as [pr|] eqn:Ep; [|discriminate].
  destruct (Nat.ltb _ _); [discriminate|]. destruct (has_label t (p_label pr)); [|discriminate].
  destruct (set_all _ (p_pre pr)) as [f'|]; [|discriminate].
  inversion Hs; subst; clear Hs. intros fr [<-|Hin] x v Hv Hn.
  - destruct Hv as [E|Hv]; [inversion E; subst; contradiction|].
    apply in_map_iff in Hv as (y & E & Hy). inversion E; subst. eapply Hx; eauto.
  - apply G. eapply L; eauto.
Qed.

Lemma return_live : forall s g s' g',
  live s g -> return_impl s = Some s' -> return_spec g = Some g' -> live s' g'.
Proof.
  intros s g s' g' L Hi Hs. pose proof (return_grows _ _ Hi) as G.
  unfold return_spec in Hs. destruct (v_stack g) as [|fr rest] eqn:Eg; [discriminate|].
  destruct (lookup (VS ".pc") fr) as [l|]; [|discriminate]. inversion Hs; subst; clear Hs.
  intros fr' Hin x w Hv Hn. apply G. eapply (L fr'); eauto. rewrite Eg. now right.
Qed.

(* ------------------------------------------------------------------ TailCall does not panic where its specification is defined *)

Lemma rel_iread : forall s g h s1 v, Rel s g -> iread s h = Some (s1, v) -> Rel s1 g.
Proof.
  intros s g h s1 v (Rv & Rs & Rp & Epc & Est & Rw) H.
  destruct (iread_spec _ _ _ _ H) as (_ & Hres & _). unfold Rel, cur. rewrite Hres. repeat split; auto.
Qed.

Lemma tailcall_defined_lemma : forall t s g p args g',
  wf_table t -> Rel s g -> live s g -> tailcall_spec t g p args = Some g' ->
  exists s', tailcall_impl t s p args = Some s'.
Proof.
  intros t s g p args g' Hwf HR HL H.
  unfold tailcall_spec in H. unfold tailcall_impl.
  destruct (return_spec g) as [g1|] eqn:Er; [|discriminate].
  destruct HR as (Rv & Rs & Rp & Epc & Est & Rw).
  destruct (iread_total s ".stack" Est) as (s1 & sv & Ei). rewrite Ei.
  assert (HR1 : Rel s1 g) by (eapply rel_iread; [|eauto]; unfold Rel; repeat split; auto).
  destruct (iread_spec _ _ _ _ Ei) as (Hsv & Hres1 & _). rewrite Hsv, Rs.
  pose proof Er as Er'. unfold return_spec in Er'.
  destruct (v_stack g) as [|fr rest] eqn:Eg; [discriminate|]. cbn [map].
  destruct (lookup (VS ".pc") fr) as [l|] eqn:El; [|discriminate]. inversion Er'; subst g1; clear Er'.
  cbn [v_pc] in H. destruct l as [| | |tailPC| |]; try discriminate.
  assert (HL1 : live s1 g) by (intros fr' Hin x v Hv Hn; rewrite Hres1; eapply HL; eauto).
  destruct (return_defined_lemma s1 g _ HR1 HL1 Er) as (s2 & Eret). rewrite Eret.
  destruct (return_refines_lemma s1 g s2 HR1 Eret) as (g1 & Hg1 & HR2).
  rewrite Er in Hg1. inversion Hg1; subst g1.
  eapply call_defined_lemma; eauto.
Qed.
