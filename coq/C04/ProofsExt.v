(* C04 — by-reference parameters bound to resources that are not local variables: reads and writes through
   them go to the context's family of resources (C01) and never to an activation's slots; Call / Return /
   TailCall never touch those resources.  So activation isolation and abort-between-call-and-return carry over. *)
From PGV Require Import C01.Proofs C01.ProofsInst.
From PGV Require Import C04.Model C04.Proofs.
Open Scope string_scope.
Open Scope list_scope.

Lemma lift_some : forall (o : option st) (c : ctx) (s' : xst),
  match o with Some l => Some (mkX l c) | None => None end = Some s' -> o = Some (x_loc s') /\ x_ext s' = c.
Proof. intros [l|] c s' H; inversion H; subst; auto. Qed.

Lemma xstep_local_frame : forall t s e s',
  xstep t s (XLocal e) = Some s' -> e <> ECommit -> x_ext s' = x_ext s.
Proof.
  intros t s e s' H Hn. destruct e; try contradiction; apply lift_some in H; tauto.
Qed.

Lemma xstep_locals : forall t s e s',
  xstep t s (XLocal e) = Some s' -> impl_step t (x_loc s) e = Some (x_loc s').
Proof.
  intros t s e s' H. destruct e; try (apply lift_some in H; tauto).
  cbn [xstep] in H. unfold xcommit in H. destruct (fam_pc String.eqb node_impl (x_ext s)) as [c1 ok].
  destruct ok; inversion H. reflexivity.
Qed.

Lemma xstep_ref : forall t s x a s',
  xstep t s (XRef x a) = Some s' ->
  x_loc s' = x_loc s /\
  exists h v, cur (x_loc s) x = VS h /\ sres (x_loc s) h = None /\
              fam_step String.eqb node_impl (x_ext s) (h, a) = (x_ext s', Ok v).
Proof.
  intros t s x a s' H. cbn [xstep] in H. unfold cur.
  destruct (sres (x_loc s) x) as [sl|]; [|discriminate].
  destruct (s_cur sl) as [| | |h| |]; try discriminate.
  destruct (sres (x_loc s) h) eqn:Eh; [discriminate|].
  destruct (fam_step String.eqb node_impl (x_ext s) (h, a)) as [c' r] eqn:Ef.
  destruct r as [v| |]; inversion H; subst; cbn. split; auto. exists h, v. auto.
Qed.

Lemma xrun_locals : forall t es s s',
  xrun t s es = Some s' -> impl_run t (x_loc s) (locals_of es) = Some (x_loc s').
Proof.
  induction es as [|e r IH]; intros s s' H; cbn in H.
  - inversion H; subst. reflexivity.
  - destruct (xstep t s e) as [s1|] eqn:E; [|discriminate]. destruct e as [e|x a].
    + cbn [locals_of impl_run]. rewrite (xstep_locals _ _ _ _ E). apply IH; auto.
    + cbn [locals_of]. destruct (xstep_ref _ _ _ _ _ E) as [Hl _]. rewrite <- Hl. apply IH; auto.
Qed.

(* activation isolation in the presence of reads / writes through references to non-local resources, at any
   point of any activation *)
Lemma isolation_mapped_lemma : forall t (R : string -> Prop), wf_table t ->
  forall q r a es s s',
    wf_store (x_loc s) -> act t R q (locals_of es) ->
    xrun t s (XLocal (ECall q r a) :: es) = Some s' ->
    cur (x_loc s') ".stack" = cur (x_loc s) ".stack" /\ cur (x_loc s') ".pc" = VS r /\
    (forall y, ~ R y -> ~ reserved y -> cur (x_loc s') y = cur (x_loc s) y).
Proof.
  intros t R Hwf q r a es s s' Hws Hact Hrun.
  apply xrun_locals in Hrun. cbn [locals_of] in Hrun.
  exact (isolation_impl t R Hwf q r a (locals_of es) (x_loc s) (x_loc s') Hws Hact Hrun).
Qed.

Definition xno_commit (e : xev) : Prop := match e with XLocal ECommit => False | _ => True end.

Lemma locals_no_commit : forall es, Forall xno_commit es -> Forall no_commit (locals_of es).
Proof.
  induction 1 as [|e r He Hr IH]; cbn [locals_of]; [constructor|].
  destruct e as [e|x a]; [|exact IH]. constructor; [|exact IH]. destruct e; cbn in *; auto.
Qed.

Definition CH := fam_laws String.eqb str_eqb_eq node_impl node_abs node_laws.

Lemma xrun_ext_inv : forall t es s s',
  Forall xno_commit es -> x_inv ctx_abs (x_ext s) -> xrun t s es = Some s' ->
  x_inv ctx_abs (x_ext s') /\ x_oeq ctx_abs (x_obs ctx_abs (x_ext s')) (x_obs ctx_abs (x_ext s)).
Proof.
  induction es as [|e r IH]; intros s s' Hn Hi H; cbn in H.
  - inversion H; subst. split; auto. apply (L_refl _ _ CH).
  - inversion Hn as [|? ? He Hr]; subst.
    destruct (xstep t s e) as [s1|] eqn:E; [|discriminate]. destruct e as [e|x a].
    + assert (Hne : e <> ECommit) by (intros ->; exact He).
      rewrite <- (xstep_local_frame _ _ _ _ E Hne). apply IH; auto.
      rewrite (xstep_local_frame _ _ _ _ E Hne). exact Hi.
    + destruct (xstep_ref _ _ _ _ _ E) as (_ & h & v & _ & _ & Ef).
      destruct (L_step _ _ CH (x_ext s) (h, a) (x_ext s1) (Ok v) Hi Ef) as (Hi1 & Ho1 & _).
      destruct (IH s1 s' Hr Hi1 H) as (Hi' & Ho'). split; auto.
      eapply (L_trans _ _ CH); eauto.
Qed.

(* an abort after any calls, returns, tail calls, assignments and accesses through references puts every local
   variable, .pc and .stack back, and leaves the published view of every non-local resource unchanged *)
Lemma abort_between_mapped_lemma : forall t es s s',
  quiescent (x_loc s) -> x_inv ctx_abs (x_ext s) -> x_qui ctx_abs (x_ext s) ->
  Forall xno_commit es -> xrun t s es = Some s' -> fam_abp node_impl (x_ext s') = false ->
  (forall x, cur (x_loc (xabort s')) x = cur (x_loc s) x) /\ quiescent (x_loc (xabort s')) /\
  x_qui ctx_abs (x_ext (xabort s')) /\
  x_oeq ctx_abs (x_obs ctx_abs (x_ext (xabort s'))) (x_obs ctx_abs (x_ext s)).
Proof.
  intros t es s s' Hq Hi Hqe Hn Hrun Habp.
  pose proof (xrun_locals _ _ _ _ Hrun) as Hl.
  destruct (abort_between_lemma t _ _ _ Hq (locals_no_commit _ Hn) Hl) as [Hq' Hc].
  destruct (xrun_ext_inv _ _ _ _ Hn Hi Hrun) as [Hi' Ho'].
  destruct (L_ab _ _ CH (x_ext s') Hi' Habp) as (_ & Hqa & Hoa).
  cbn [xabort x_loc x_ext]. split; auto. split; auto. split; auto.
  eapply (L_trans _ _ CH); eauto.
Qed.
