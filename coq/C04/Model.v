(* C04 — executable model of procedure calls in the distsys runtime.
   Model only (Definitions/Fixpoints, no proofs).

   Transcribed from distsys/archetypeinterface.go (after the two repairs 4d6790b6 and 50f032b4):
     Read / Write on local variables, ensureArchetypeResourceLocalWithDefault (create only if
     absent), RequireArchetypeResource(Ref), Goto, Call, Return, TailCall;
   from distsys/archetyperesource.go: LocalArchetypeResource (value / oldValue, Commit, Abort);
   from distsys/mpcalctx.go: Run's loop (read .pc, body, commit() or abort()).

   The store holds local variables only (`.pc`, `.stack`, `<Proc>.<var>`, archetype locals):
   that is all Call/Return/TailCall touch.  `None` = the Go code panics (or returns a non-abort
   error): the archetype dies.

   Also here: the specification machine (the PlusCal translation of call / return, produced by
   the stock `pcal` translator: frame = return label + current values of the callee's
   parameters and locals; arguments bound; locals initialised; return restores the frame), the
   event language over which the theorems quantify, and the scripted label language the
   correspondence harness interprets. *)
From PGV Require Export C01.Model.
Open Scope Z_scope.
Open Scope string_scope.

(* ------------------------------------------------------------------ implementation machine *)

Record slot := mkSlot { s_cur : val; s_old : val }.      (* LocalArchetypeResource.value / oldValue *)
Record st := mkSt { sres : string -> option slot; sdirty : list string }.

Definition supd (f : string -> option slot) (h : string) (x : slot) : string -> option slot :=
  fun k => if String.eqb k h then Some x else f k.

(* iface.Read(handle, nil) on a local: mark dirty, then ReadValue *)
Definition iread (s : st) (h : string) : option (st * val) :=
  match sres s h with
  | Some x => Some (mkSt (sres s) (h :: sdirty s), s_cur x)
  | None => None
  end.

(* iface.Write(handle, nil, v) on a local *)
Definition iwrite (s : st) (h : string) (v : val) : option st :=
  match sres s h with
  | Some x => Some (mkSt (supd (sres s) h (mkSlot v (s_old x))) (h :: sdirty s))
  | None => None
  end.

(* ensureArchetypeResourceLocalWithDefault: create with defaultInitValue only if absent *)
Definition ensure (s : st) (h : string) : st :=
  match sres s h with
  | Some _ => s
  | None => mkSt (supd (sres s) h (mkSlot VD VD)) (sdirty s)
  end.

(* the initialiser of a procedure local: a constant, a parameter, or a parameter plus a constant (int32 range
   checked, as ModulePlusSymbol) — evaluated by the PreAmble with iface.Read, after the arguments are bound *)
Inductive pexp := PC (v : val) | PRead (y : string) | PAdd (y : string) (k : Z).

Definition in_i32 (z : Z) : bool := ((-2147483648 <=? z)%Z && (z <=? 2147483647)%Z)%bool.
Definition padd (v : val) (k : Z) : option val :=
  match v with VI z => if in_i32 (z + k) then Some (VI (z + k)) else None | _ => None end.
Definition psrc (e : pexp) : list string := match e with PC _ => [] | PRead y => [y] | PAdd y _ => [y] end.

Record proc := mkProc {
  p_label : string;                 (* first label *)
  p_vars : list string;             (* StateVars: parameters then locals *)
  p_pre : list (string * pexp)      (* PreAmble: writes initialising locals *)
}.

Record table := mkTable {
  t_procs : list (string * proc);
  t_labels : list string            (* the jump table's keys *)
}.

Fixpoint find_proc (ps : list (string * proc)) (name : string) : option proc :=
  match ps with
  | [] => None
  | (n, p) :: r => if String.eqb n name then Some p else find_proc r name
  end.

Definition has_label (t : table) (l : string) : bool := existsb (String.eqb l) (t_labels t).

(* immutable.MapBuilder.Set *)
Definition frame_set (f : list (val * val)) (k v : val) : list (val * val) :=
  match lookup k f with
  | Some _ => replace_kv k v f
  | None => f ++ [(k, v)]
  end.

(* the loop of Call over StateVars: ensure, read and save, write the argument if there is one *)
Fixpoint save_bind (s : st) (vars : list string) (args : list val) (frame : list (val * val))
  : option (st * list (val * val)) :=
  match vars with
  | [] => Some (s, frame)
  | x :: vars' =>
      match iread (ensure s x) x with
      | None => None
      | Some (s2, v) =>
          let frame' := frame_set frame (VS x) v in
          match args with
          | a :: args' =>
              match iwrite s2 x a with
              | Some s3 => save_bind s3 vars' args' frame'
              | None => None
              end
          | [] => save_bind s2 vars' [] frame'
          end
      end
  end.

Definition peval_impl (s : st) (e : pexp) : option (st * val) :=
  match e with
  | PC v => Some (s, v)
  | PRead y => iread s y
  | PAdd y k => match iread s y with
                | Some (s1, v) => match padd v k with Some w => Some (s1, w) | None => None end
                | None => None
                end
  end.

Fixpoint write_all (s : st) (ws : list (string * pexp)) : option st :=
  match ws with
  | [] => Some s
  | (x, e) :: r =>
      match peval_impl s e with
      | Some (s1, v) => match iwrite s1 x v with Some s2 => write_all s2 r | None => None end
      | None => None
      end
  end.

(* Goto: the label must be in the jump table *)
Definition goto_impl (t : table) (s : st) (l : string) : option st :=
  if has_label t l then iwrite s ".pc" (VS l) else None.

Definition call_impl (t : table) (s : st) (pname ret : string) (args : list val) : option st :=
  match find_proc (t_procs t) pname with
  | None => None
  | Some p =>
      match iread s ".stack" with
      | None => None
      | Some (s1, stackVal) =>
          if Nat.ltb (List.length (p_vars p)) (List.length args) then None
          else
            match save_bind s1 (p_vars p) args [(VS ".pc", VS ret)] with
            | None => None
            | Some (s2, frame) =>
                match stackVal with
                | VT frames =>
                    match iwrite s2 ".stack" (VT (VR frame :: frames)) with
                    | None => None
                    | Some s3 =>
                        match write_all s3 (p_pre p) with
                        | None => None
                        | Some s4 => goto_impl t s4 (p_label p)
                        end
                    end
                | _ => None                                  (* AsTuple panics *)
                end
            end
      end
  end.

(* the loop of Return over the head record: write every saved pair back *)
Fixpoint restore_all (s : st) (f : list (val * val)) : option st :=
  match f with
  | [] => Some s
  | (VS x, v) :: r => match iwrite s x v with Some s' => restore_all s' r | None => None end
  | _ => None                                                (* AsString panics *)
  end.

Definition return_impl (s : st) : option st :=
  match iread s ".stack" with
  | None => None
  | Some (s1, stackVal) =>
      match stackVal with
      | VT (VR f :: rest) =>
          match iwrite s1 ".stack" (VT rest) with
          | None => None
          | Some s2 => restore_all s2 f
          end
      | _ => None                                            (* Tail / Head / AsFunction panic *)
      end
  end.

Definition tailcall_impl (t : table) (s : st) (pname : string) (args : list val) : option st :=
  match iread s ".stack" with
  | None => None
  | Some (s1, stackVal) =>
      match stackVal with
      | VT (VR f :: _) =>
          match lookup (VS ".pc") f with
          | Some (VS tailPC) =>
              match return_impl s1 with
              | None => None
              | Some s2 => call_impl t s2 pname tailPC args
              end
          | _ => None
          end
      | _ => None
      end
  end.

(* commit(): every dirty local publishes; abort(): every dirty local rolls back *)
Definition smem (h : string) (d : list string) : bool := existsb (String.eqb h) d.
Definition commit_impl (s : st) : st :=
  mkSt (fun k => if smem k (sdirty s)
                 then match sres s k with Some x => Some (mkSlot (s_cur x) (s_cur x)) | None => None end
                 else sres s k) [].
Definition abort_impl (s : st) : st :=
  mkSt (fun k => if smem k (sdirty s)
                 then match sres s k with Some x => Some (mkSlot (s_old x) (s_old x)) | None => None end
                 else sres s k) [].

(* ------------------------------------------------------------------ specification machine *)

Record sp := mkSp {
  v_vars : string -> val;                  (* every procedure variable is one shared slot *)
  v_stack : list (list (val * val));       (* frames: (".pc", return label) :: saved variables *)
  v_pc : val
}.

Definition vset (f : string -> val) (x : string) (v : val) : string -> val :=
  fun k => if String.eqb k x then v else f k.

Fixpoint bind_args (f : string -> val) (vars : list string) (args : list val) : string -> val :=
  match vars, args with
  | x :: vars', a :: args' => bind_args (vset f x a) vars' args'
  | _, _ => f
  end.

Definition peval (f : string -> val) (e : pexp) : option val :=
  match e with PC v => Some v | PRead y => Some (f y) | PAdd y k => padd (f y) k end.

Fixpoint set_all (f : string -> val) (ws : list (string * pexp)) : option (string -> val) :=
  match ws with
  | [] => Some f
  | (x, e) :: r => match peval f e with Some v => set_all (vset f x v) r | None => None end
  end.

Definition call_spec (t : table) (g : sp) (pname ret : string) (args : list val) : option sp :=
  match find_proc (t_procs t) pname with
  | None => None
  | Some p =>
      if Nat.ltb (List.length (p_vars p)) (List.length args) then None
      else if has_label t (p_label p) then
        match set_all (bind_args (v_vars g) (p_vars p) args) (p_pre p) with
        | Some f' => Some (mkSp f'
                             (((VS ".pc", VS ret) :: map (fun x => (VS x, v_vars g x)) (p_vars p)) :: v_stack g)
                             (VS (p_label p)))
        | None => None
        end
      else None
  end.

(* restoring a frame: every saved pair except the return label goes back into its variable *)
Fixpoint restore_vars (f : string -> val) (fr : list (val * val)) : string -> val :=
  match fr with
  | (VS x, v) :: r => restore_vars (if String.eqb x ".pc" then f else vset f x v) r
  | _ => f
  end.

Definition return_spec (g : sp) : option sp :=
  match v_stack g with
  | fr :: rest =>
      match lookup (VS ".pc") fr with
      | Some l => Some (mkSp (restore_vars (v_vars g) fr) rest l)
      | None => None
      end
  | [] => None
  end.

(* a call immediately followed by a return: the running activation is replaced *)
Definition tailcall_spec (t : table) (g : sp) (pname : string) (args : list val) : option sp :=
  match return_spec g with
  | Some g1 => match v_pc g1 with
               | VS l => call_spec t g1 pname l args
               | _ => None
               end
  | None => None
  end.

(* ------------------------------------------------------------------ events *)

Inductive ev :=
| ECall (p ret : string) (args : list val)
| EReturn
| ETail (p : string) (args : list val)
| EWrite (x : string) (v : val)          (* a body statement assigning a variable *)
| ECommit.                               (* end of a label *)

Definition impl_step (t : table) (s : st) (e : ev) : option st :=
  match e with
  | ECall p r a => call_impl t s p r a
  | EReturn => return_impl s
  | ETail p a => tailcall_impl t s p a
  | EWrite x v => iwrite s x v
  | ECommit => Some (commit_impl s)
  end.

Definition spec_step (t : table) (g : sp) (e : ev) : option sp :=
  match e with
  | ECall p r a => call_spec t g p r a
  | EReturn => return_spec g
  | ETail p a => tailcall_spec t g p a
  | EWrite x v => Some (mkSp (vset (v_vars g) x v) (v_stack g) (v_pc g))
  | ECommit => Some g
  end.

Fixpoint impl_run (t : table) (s : st) (es : list ev) : option st :=
  match es with
  | [] => Some s
  | e :: r => match impl_step t s e with Some s' => impl_run t s' r | None => None end
  end.

Fixpoint spec_run (t : table) (g : sp) (es : list ev) : option sp :=
  match es with
  | [] => Some g
  | e :: r => match spec_step t g e with Some g' => spec_run t g' r | None => None end
  end.

(* ------------------------------------------------------------------ by-reference parameters bound to resources that are
   not local variables (an archetype's `ref` parameter with a mapping macro, handed on as `ref e` as in
   ProcedureSpaghetti): the procedure variable holds the NAME of the resource (RequireArchetypeResourceRef follows
   it) and iface.Read / iface.Write on that handle go through the MPCalContext's family of resources of C01. *)

Record xst := mkX { x_loc : st; x_ext : ctx }.

Inductive xev :=
| XLocal (e : ev)
| XRef (x : string) (a : act).     (* read / write through the by-reference parameter x, bound to a non-local resource *)

Definition xcommit (s : xst) : option xst :=
  let '(c1, ok) := fam_pc String.eqb node_impl (x_ext s) in
  if ok then Some (mkX (commit_impl (x_loc s)) (fam_cm String.eqb node_impl c1)) else None.

Definition xabort (s : xst) : xst := mkX (abort_impl (x_loc s)) (fam_ab String.eqb node_impl (x_ext s)).

Definition xstep (t : table) (s : xst) (e : xev) : option xst :=
  match e with
  | XLocal ECommit => xcommit s
  | XLocal e' => match impl_step t (x_loc s) e' with Some l => Some (mkX l (x_ext s)) | None => None end
  | XRef x a =>
      match sres (x_loc s) x with
      | Some sl =>
          match s_cur sl with
          | VS h =>
              match sres (x_loc s) h with
              | Some _ => None                 (* a reference to a local variable is EWrite h v of the event language *)
              | None =>
                  match fam_step String.eqb node_impl (x_ext s) (h, a) with
                  | (c', Ok _) => Some (mkX (x_loc s) c')
                  | _ => None
                  end
              end
          | _ => None
          end
      | None => None
      end
  end.

Fixpoint xrun (t : table) (s : xst) (es : list xev) : option xst :=
  match es with
  | [] => Some s
  | e :: r => match xstep t s e with Some s' => xrun t s' r | None => None end
  end.

Fixpoint locals_of (es : list xev) : list ev :=
  match es with
  | [] => []
  | XLocal e :: r => e :: locals_of r
  | XRef _ _ :: r => locals_of r
  end.

(* ------------------------------------------------------------------ scripted labels (for the tie) *)

Inductive expr :=
| XC (v : val)
| XV (x : string)                 (* iface.Read of a local *)
| XAdd (e : expr) (k : Z)         (* ModulePlusSymbol(e, k): int32 range checked *)
| XDeref (x : string).            (* read through a by-reference parameter: x holds the resource's name *)

Inductive cond := KTrue | KEq0 (e : expr).

Inductive stmt :=
| TSet (x : string) (e : expr)
| TSetRef (x : string) (e : expr)
| TLog (e : expr)
| TIf (c : cond) (a b : list stmt)
| TCall (p ret : string) (args : list expr)
| TTail (p : string) (args : list expr)
| TRet
| TGoto (l : string)
| TDone.

Inductive xr (A : Type) := ROk (a : A) | RRefuse (s : xst) | RCrash.
Arguments ROk {A} a. Arguments RRefuse {A} s. Arguments RCrash {A}.

Definition lift_loc {A} (s : xst) (o : option (st * A)) : xr (xst * A) :=
  match o with Some (l, a) => ROk (mkX l (x_ext s), a) | None => RCrash end.

(* iface.Read / iface.Write on the handle a by-reference parameter names *)
Definition ref_access (s : xst) (x : string) (a : act) : xr (xst * val) :=
  match sres (x_loc s) x with
  | Some sl =>
      match s_cur sl with
      | VS h =>
          match sres (x_loc s) h with
          | Some _ =>
              match a with
              | ARead [] => lift_loc s (iread (x_loc s) h)
              | AWrite [] v => match iwrite (x_loc s) h v with
                               | Some l => ROk (mkX l (x_ext s), VD)
                               | None => RCrash
                               end
              | _ => RCrash
              end
          | None =>
              match fam_step String.eqb node_impl (x_ext s) (h, a) with
              | (c', Ok v) => ROk (mkX (x_loc s) c', v)
              | (c', Refuse) => RRefuse (mkX (x_loc s) c')
              | (_, Crash) => RCrash
              end
          end
      | _ => RCrash
      end
  | None => RCrash
  end.

Fixpoint eval (s : xst) (e : expr) : xr (xst * val) :=
  match e with
  | XC v => ROk (s, v)
  | XV x => lift_loc s (iread (x_loc s) x)
  | XAdd e1 k =>
      match eval s e1 with
      | ROk (s1, VI z) => if in_i32 (z + k) then ROk (s1, VI (z + k)) else RCrash
      | ROk _ => RCrash
      | RRefuse s1 => RRefuse s1
      | RCrash => RCrash
      end
  | XDeref x => ref_access s x (ARead [])
  end.

Fixpoint eval_list (s : xst) (es : list expr) : xr (xst * list val) :=
  match es with
  | [] => ROk (s, [])
  | e :: r =>
      match eval s e with
      | ROk (s1, v) => match eval_list s1 r with
                       | ROk (s2, vs) => ROk (s2, v :: vs)
                       | RRefuse s2 => RRefuse s2
                       | RCrash => RCrash
                       end
      | RRefuse s1 => RRefuse s1
      | RCrash => RCrash
      end
  end.

Inductive xres :=
| XCont (s : xst) (lg : list val)          (* fell through the statements *)
| XTerm (s : xst) (lg : list val)          (* ended with call / return / goto: the label returns nil *)
| XRefused (s : xst)                       (* an operation returned ErrCriticalSectionAborted *)
| XDoneR (lg : list val)                   (* ErrDone *)
| XCrash.

Definition with_loc (s : xst) (lg : list val) (o : option st) : xres :=
  match o with Some l => XTerm (mkX l (x_ext s)) lg | None => XCrash end.

Fixpoint exec_stmt (t : table) (s : xst) (lg : list val) (c : stmt) {struct c} : xres :=
  match c with
  | TSet x e => match eval s e with
                | ROk (s1, v) => match iwrite (x_loc s1) x v with
                                 | Some l => XCont (mkX l (x_ext s1)) lg
                                 | None => XCrash
                                 end
                | RRefuse s1 => XRefused s1
                | RCrash => XCrash
                end
  | TSetRef x e =>
      match eval s e with
      | ROk (s1, v) => match ref_access s1 x (AWrite [] v) with
                       | ROk (s2, _) => XCont s2 lg
                       | RRefuse s2 => XRefused s2
                       | RCrash => XCrash
                       end
      | RRefuse s1 => XRefused s1
      | RCrash => XCrash
      end
  | TLog e => match eval s e with
              | ROk (s1, v) => XCont s1 (lg ++ [v])
              | RRefuse s1 => XRefused s1
              | RCrash => XCrash
              end
  | TIf c a b =>
      let go := fix go (l : list stmt) (s : xst) (lg : list val) {struct l} : xres :=
                  match l with
                  | [] => XCont s lg
                  | x :: r => match exec_stmt t s lg x with
                              | XCont s' lg' => go r s' lg'
                              | other => other
                              end
                  end in
      match c with
      | KTrue => go a s lg
      | KEq0 e => match eval s e with
                  | ROk (s1, v) => if val_eqb v (VI 0) then go a s1 lg else go b s1 lg
                  | RRefuse s1 => XRefused s1
                  | RCrash => XCrash
                  end
      end
  | TCall p r args =>
      match eval_list s args with
      | ROk (s1, vs) => with_loc s1 lg (call_impl t (x_loc s1) p r vs)
      | RRefuse s1 => XRefused s1
      | RCrash => XCrash
      end
  | TTail p args =>
      match eval_list s args with
      | ROk (s1, vs) => with_loc s1 lg (tailcall_impl t (x_loc s1) p vs)
      | RRefuse s1 => XRefused s1
      | RCrash => XCrash
      end
  | TRet => with_loc s lg (return_impl (x_loc s))
  | TGoto l => with_loc s lg (goto_impl t (x_loc s) l)
  | TDone => XDoneR lg
  end.

Fixpoint exec_list (t : table) (s : xst) (lg : list val) (l : list stmt) : xres :=
  match l with
  | [] => XCont s lg
  | x :: r => match exec_stmt t s lg x with
              | XCont s' lg' => exec_list t s' lg' r
              | other => other
              end
  end.

Fixpoint find_label (ls : list (string * list stmt)) (l : string) : option (list stmt) :=
  match ls with
  | [] => None
  | (n, b) :: r => if String.eqb n l then Some b else find_label r l
  end.

(* what the harness reports after an attempt: outcome, .pc, .stack, the watched variables, the non-local resources *)
Definition snap (s : xst) (watch : list string) (q : list (string * list val)) : list val :=
  (match sres (x_loc s) ".pc" with Some x => s_cur x | None => VD end) ::
  (match sres (x_loc s) ".stack" with Some x => s_cur x | None => VD end) ::
  map (fun w => match sres (x_loc s) w with Some x => VT [s_cur x] | None => VT [] end) watch ++
  ctx_snap (x_ext s) q.

(* Run's loop: attempt number i aborts after its body if i is listed *)
Fixpoint run_labels (fuel : nat) (t : table) (labels : list (string * list stmt)) (watch : list string)
  (q : list (string * list val)) (aborts : list nat) (i : nat) (s : xst) (lg : list val)
  : list (Z * list val) * list val :=
  match fuel with
  | O => ([], lg)
  | S fuel' =>
      match iread (x_loc s) ".pc" with
      | Some (l0, VS pc) =>
          let s0 := mkX l0 (x_ext s) in
          let aborted := fun s1 =>
            let s2 := xabort s1 in
            let '(rest, lg') := run_labels fuel' t labels watch q aborts (S i) s2 lg in
            ((1, snap s2 watch q) :: rest, lg') in
          match find_label labels pc with
          | None => ([(2, snap s0 watch q)], lg)
          | Some body =>
              match exec_list t s0 lg body with
              | XTerm s1 lg1 =>
                  if existsb (Nat.eqb i) aborts then aborted s1
                  else match xcommit s1 with
                       | Some s2 =>
                           let '(rest, lg') := run_labels fuel' t labels watch q aborts (S i) s2 lg1 in
                           ((0, snap s2 watch q) :: rest, lg')
                       | None => aborted s1
                       end
              | XRefused s1 => aborted s1
              | XDoneR lg1 => ([], lg1)
              | XCont s1 lg1 => ([(2, snap s1 watch q)], lg)        (* ErrProcedureFallthrough *)
              | XCrash => ([(2, [])], lg)
              end
          end
      | _ => ([(2, [])], lg)
      end
  end.

Definition init_store (entry : string) (locals : list (string * val)) : st :=
  mkSt (fun k => if String.eqb k ".pc" then Some (mkSlot (VS entry) (VS entry))
                 else if String.eqb k ".stack" then Some (mkSlot (VT []) (VT []))
                 else match find (fun kv => String.eqb (fst kv) k) locals with
                      | Some (_, v) => Some (mkSlot v v)
                      | None => None
                      end) [].

Record script := mkScript {
  sc_table : table;
  sc_labels : list (string * list stmt);
  sc_entry : string;
  sc_locals : list (string * val);
  sc_watch : list string;
  sc_aborts : list nat;
  sc_fuel : nat;
  sc_ext : list (string * node);             (* the non-local resources bound to the archetype's ref parameters *)
  sc_query : list (string * list val)
}.

Definition run_script (c : script) : list (Z * list val) * list val :=
  run_labels (sc_fuel c) (sc_table c) (sc_labels c) (sc_watch c) (sc_query c) (sc_aborts c) 0
             (mkX (init_store (sc_entry c) (sc_locals c)) (mk_ctx (sc_ext c))) [].

(* comparison with the observation: a crashed attempt's snapshot is not compared (the state a
   panic leaves behind is whatever the interrupted loop had done) *)
Fixpoint obs4_eqb (a b : list (Z * list val)) : bool :=
  match a, b with
  | [], [] => true
  | (x, xs) :: a', (y, ys) :: b' =>
      Z.eqb x y && (if Z.eqb x 2 then true else val_list_eqb xs ys) && obs4_eqb a' b'
  | _, _ => false
  end.

Fixpoint mismatches4 (i : nat) (cases : list (script * (list (Z * list val) * list val))) : list nat :=
  match cases with
  | [] => []
  | (c, (obs, lg)) :: rest =>
      let m := mismatches4 (S i) rest in
      let '(o, l) := run_script c in
      if obs4_eqb o obs && val_list_eqb l lg then m else i :: m
  end.
