(* C07 — proofs, part 3: commit points and real time, corollaries of serializability. *)
From PGV Require Import C07.Model C07.Proofs C07.Proofs2.
From Coq Require Import Lia Sorted.

(* ------------------------------------------------------------------ positions of begin / commit point / end *)

Record HInv (st : state) (h : hist) (evs : list event) : Prop := {
  hi_now : h_now h = List.length evs;
  hi_begin : forall i, ph st i <> Idle -> h_begin h i < h_now h /\ nth_error evs (h_begin h i) = Some (EBegin i);
  hi_sorted : StronglySorted (fun a b => sec_cp a < sec_cp b) (h_committed h);
  hi_sec : forall a, In a (h_committed h) ->
      sec_begin a < sec_cp a /\ sec_cp a < h_now h /\
      nth_error evs (sec_begin a) = Some (EBegin (sec_sharer a)) /\
      nth_error evs (sec_cp a) = Some (ECommitStart (sec_sharer a));
  hi_ends : forall i c e, In (i, c, e) (h_ends h) ->
      c < e /\ e < h_now h /\ nth_error evs e = Some (EEnd i) /\
      exists a, In a (h_committed h) /\ sec_sharer a = i /\ sec_cp a = c
}.

Lemma hinv_init : forall init, HInv (init_state init) hist0 [].
Proof.
  intro init. constructor; simpl.
  - reflexivity.
  - intros i Hi. unfold ph in Hi. simpl in Hi. congruence.
  - constructor.
  - intros a [].
  - intros i c e [].
Qed.

Lemma last_cp_In : forall i l c, last_cp i l = Some c -> exists a, In a l /\ sec_sharer a = i /\ sec_cp a = c.
Proof.
  induction l as [|s l IH]; simpl; intros c H; [discriminate|].
  destruct (last_cp i l) as [c'|] eqn:E.
  - inversion H; subst. destruct (IH c eq_refl) as (a & Ha & Hb). exists a. auto.
  - destruct (Nat.eqb (sec_sharer s) i) eqn:E2; [|discriminate]. inversion H; subst.
    apply Nat.eqb_eq in E2. exists s. auto.
Qed.

Lemma sorted_snoc : forall (l : list section) x,
  StronglySorted (fun a b => sec_cp a < sec_cp b) l -> (forall a, In a l -> sec_cp a < sec_cp x) ->
  StronglySorted (fun a b => sec_cp a < sec_cp b) (l ++ [x]).
Proof.
  induction l as [|y l IH]; simpl; intros x Hs Hx; [repeat constructor|].
  apply StronglySorted_inv in Hs as [Hs Hy]. constructor.
  - apply IH; auto.
  - apply Forall_app. split; [exact Hy|]. constructor; [|constructor]. apply Hx. now left.
Qed.

Lemma nth_snoc_old : forall A (l : list A) x k, k < List.length l -> nth_error (l ++ [x]) k = nth_error l k.
Proof. intros. now apply nth_error_app1. Qed.

Lemma nth_snoc_new : forall A (l : list A) x, nth_error (l ++ [x]) (List.length l) = Some x.
Proof. intros. rewrite nth_error_app2 by lia. now rewrite Nat.sub_diag. Qed.

Lemma nth_lt : forall A (l : list A) k x, nth_error l k = Some x -> k < List.length l.
Proof. intros A l k x H. apply nth_error_Some. congruence. Qed.

Lemma hinv_step : forall st h evs e st' out,
  HInv st h evs -> step st e = Some (st', out) -> HInv st' (hstep st h e out) (evs ++ [e]).
Proof.
  intros st h evs e st' out [Hn Hb Hso Hse He] H.
  assert (Hlen : List.length (evs ++ [e]) = S (List.length evs)) by (rewrite app_length; simpl; lia).
  assert (Hnow : h_now (hstep st h e out) = S (h_now h)).
  { destruct e; try reflexivity. cbn [hstep]. destruct (s_phase (shs st i)); try reflexivity. destruct (last_cp i (h_committed h)); reflexivity. }
  (* old facts survive the extension of the event list *)
  assert (Hold : forall k x, nth_error evs k = Some x -> nth_error (evs ++ [e]) k = Some x).
  { intros k x Hk. rewrite nth_snoc_old; [exact Hk|]. eapply nth_lt; eauto. }
  assert (Hse' : forall a, In a (h_committed h) ->
      sec_begin a < sec_cp a /\ sec_cp a < S (h_now h) /\
      nth_error (evs ++ [e]) (sec_begin a) = Some (EBegin (sec_sharer a)) /\
      nth_error (evs ++ [e]) (sec_cp a) = Some (ECommitStart (sec_sharer a))).
  { intros a Ha. destruct (Hse a Ha) as (H1 & H2 & H3 & H4). repeat split; auto. }
  assert (He' : forall i c x, In (i, c, x) (h_ends h) ->
      c < x /\ x < S (h_now h) /\ nth_error (evs ++ [e]) x = Some (EEnd i) /\
      exists a, In a (h_committed h) /\ sec_sharer a = i /\ sec_cp a = c).
  { intros i c x Hx. destruct (He i c x Hx) as (H1 & H2 & H3 & H4). repeat split; auto. }
  assert (Hb' : forall j, ph st j <> Idle -> h_begin h j < S (h_now h) /\ nth_error (evs ++ [e]) (h_begin h j) = Some (EBegin j)).
  { intros j Hj. destruct (Hb j Hj) as [H1 H2]. split; auto. }
  assert (Hphase : forall j, j <> actor e -> ph st' j = ph st j).
  { intros j Hj. unfold ph. now rewrite (step_frame _ _ _ _ _ H Hj). }
  constructor.
  - rewrite Hnow, Hlen. now f_equal.
  - (* begin *)
    intros j Hj. rewrite Hnow.
    destruct (Nat.eq_dec j (actor e)) as [->|Hne].
    + destruct e; cbn [actor] in *; unfold ph in *; step_inv H; cbn [shs set_sh set_both] in Hj; rewrite ?upd_same in Hj;
        cbn [s_phase] in Hj; try congruence; cbn [hstep h_begin]; rewrite ?upd_same;
        try (apply Hb'; congruence).
      split; [lia|]. rewrite Hn. apply nth_snoc_new.
    + rewrite Hphase in Hj by assumption.
      assert (Hbj : h_begin (hstep st h e out) j = h_begin h j).
      { destruct e; cbn [hstep h_begin actor] in *; try reflexivity.
        - now rewrite upd_other.
        - destruct (s_phase (shs st i)); try reflexivity. destruct (last_cp i (h_committed h)); reflexivity. }
      rewrite Hbj. now apply Hb'.
  - (* sorted *)
    destruct e; cbn [hstep h_committed]; try exact Hso.
    + apply sorted_snoc; [exact Hso|]. intros a Ha. cbn [sec_cp]. now apply Hse.
    + destruct (s_phase (shs st i)); try exact Hso. destruct (last_cp i (h_committed h)); exact Hso.
  - (* sections *)
    intros a Ha. rewrite Hnow.
    assert (Hcases : In a (h_committed h) \/ exists i, e = ECommitStart i /\ a = mkSec i (h_begin h i) (h_now h) (h_log h i)).
    { destruct e; cbn [hstep h_committed] in Ha; auto.
      - apply in_app_iff in Ha as [Ha|[<-|[]]]; [now left|right; eauto].
      - left. destruct (s_phase (shs st i)); auto. destruct (last_cp i (h_committed h)); auto. }
    destruct Hcases as [Hc|(i & -> & ->)]; [now apply Hse'|].
    cbn [sec_begin sec_cp sec_sharer].
    assert (Hact : ph st i <> Idle) by (unfold ph; step_inv H; congruence).
    destruct (Hb' i Hact) as [H1 H2]. destruct (Hb i Hact) as [H0 _].
    repeat split; auto. rewrite Hn. apply nth_snoc_new.
  - (* ends *)
    intros i c x Hx. rewrite Hnow.
    assert (Hcom : forall a, In a (h_committed h) -> In a (h_committed (hstep st h e out))).
    { intros a Ha. destruct e; cbn [hstep h_committed]; auto.
      - apply in_app_iff. now left.
      - destruct (s_phase (shs st i0)); auto. destruct (last_cp i0 (h_committed h)); auto. }
    assert (Hcases : In (i, c, x) (h_ends h) \/ (e = EEnd i /\ x = h_now h /\ last_cp i (h_committed h) = Some c)).
    { destruct e; cbn [hstep h_ends] in Hx; auto.
      destruct (s_phase (shs st i0)); auto. destruct (last_cp i0 (h_committed h)) eqn:El; auto.
      apply in_app_iff in Hx as [Hx|[Hx|[]]]; [now left|]. inversion Hx; subst. right. auto. }
    destruct Hcases as [Hc|(-> & -> & Hl)].
    + destruct (He' i c x Hc) as (H1 & H2 & H3 & a & Ha1 & Ha2). repeat split; auto. exists a. split; auto.
    + destruct (last_cp_In _ _ _ Hl) as (a & Ha & Hs & Hcp). destruct (Hse a Ha) as (H1 & H2 & _).
      repeat split; try lia.
      * rewrite Hn. apply nth_snoc_new.
      * exists a. split; auto.
Qed.

Lemma hinv_xrun : forall evs pre st h st' h',
  HInv st h pre -> xrun (st, h) evs = Some (st', h') -> HInv st' h' (pre ++ evs).
Proof.
  induction evs as [|e evs IH]; simpl; intros pre st h st' h' HI H.
  - inversion H; subst. now rewrite app_nil_r.
  - unfold xstep in H. cbn [fst snd] in H. destruct (step st e) as [[st1 out]|] eqn:E; [|discriminate].
    replace (pre ++ e :: evs) with ((pre ++ [e]) ++ evs) by (rewrite <- app_assoc; reflexivity).
    eapply IH; [|exact H]. eapply hinv_step; eauto.
Qed.

Lemma sorted_before : forall (l1 : list section) a r,
  StronglySorted (fun a b => sec_cp a < sec_cp b) (l1 ++ a :: r) ->
  (forall x, In x l1 -> sec_cp x < sec_cp a) /\ (forall x, In x r -> sec_cp a < sec_cp x).
Proof.
  induction l1 as [|y l1 IH]; simpl; intros a r Hs.
  - apply StronglySorted_inv in Hs as [_ Hf]. split; [tauto|]. rewrite Forall_forall in Hf. exact Hf.
  - apply StronglySorted_inv in Hs as [Hs Hf]. destruct (IH _ _ Hs) as [H1 H2]. split; [|exact H2].
    intros x [<-|Hx]; [|now apply H1]. rewrite Forall_forall in Hf. apply Hf. apply in_app_iff. right. now left.
Qed.

Lemma sorted_precedes : forall (l : list section) a b,
  StronglySorted (fun a b => sec_cp a < sec_cp b) l -> In a l -> In b l -> sec_cp a < sec_cp b ->
  exists l1 l2 l3, l = l1 ++ a :: l2 ++ b :: l3.
Proof.
  intros l a b Hs Ha Hb Hlt. destruct (in_split _ _ Ha) as (l1 & r & ->).
  destruct (sorted_before _ _ _ Hs) as [H1 H2].
  apply in_app_iff in Hb as [Hb|[Hb|Hb]].
  - apply H1 in Hb. lia.
  - subst. lia.
  - destruct (in_split _ _ Hb) as (l2 & l3 & ->). now exists l1, l2, l3.
Qed.

Lemma realtime_lemma : forall init evs st h,
  xrun (init_state init, hist0) evs = Some (st, h) ->
  StronglySorted (fun a b => sec_cp a < sec_cp b) (h_committed h) /\
  (forall a, In a (h_committed h) ->
      sec_begin a < sec_cp a /\ nth_error evs (sec_begin a) = Some (EBegin (sec_sharer a)) /\
      nth_error evs (sec_cp a) = Some (ECommitStart (sec_sharer a))) /\
  (forall i c e, In (i, c, e) (h_ends h) -> c < e /\ nth_error evs e = Some (EEnd i) /\
      exists a, In a (h_committed h) /\ sec_sharer a = i /\ sec_cp a = c) /\
  (forall a b e, In a (h_committed h) -> In b (h_committed h) ->
      In (sec_sharer a, sec_cp a, e) (h_ends h) -> e < sec_begin b ->
      exists l1 l2 l3, h_committed h = l1 ++ a :: l2 ++ b :: l3).
Proof.
  intros init evs st h H. pose proof (hinv_xrun _ _ _ _ _ _ (hinv_init init) H) as [Hn Hb Hso Hse He]. simpl in *.
  split; [exact Hso|]. split; [|split].
  - intros a Ha. destruct (Hse a Ha) as (H1 & H2 & H3 & H4). auto.
  - intros i c e Hx. destruct (He i c e Hx) as (H1 & H2 & H3 & H4). auto.
  - intros a b e Ha Hb' Hx Hlt. apply sorted_precedes; auto.
    destruct (He _ _ _ Hx) as (H1 & _). destruct (Hse b Hb') as (H2 & _). lia.
Qed.

(* ------------------------------------------------------------------ corollaries *)

(* any invariant over several shared variables that every committed section preserves when run alone holds of
   the serial store (and the real store agrees with it as serializable_lemma says) *)
Lemma serial_preserves : forall (P : store -> Prop) l s s',
  P s -> (forall c, In c l -> forall t t', P t -> replay t (sec_log c) = Some t' -> P t') ->
  serial s l = Some s' -> P s'.
Proof.
  induction l as [|c l IH]; simpl; intros s s' Hp Hc H; [inversion H; now subst|].
  destruct (replay s (sec_log c)) as [s1|] eqn:E; [|discriminate].
  apply (IH s1 s').
  - apply (Hc c (or_introl eq_refl) s s1 Hp E).
  - intros c' Hc'. apply Hc. now right.
  - exact H.
Qed.

Lemma invariant_preserved_lemma : forall (P : store -> Prop) init evs st h,
  xrun (init_state init, hist0) evs = Some (st, h) ->
  P init ->
  (forall c, In c (h_committed h) -> forall t t', P t -> replay t (sec_log c) = Some t' -> P t') ->
  exists s, serial init (h_committed h) = Some s /\ P s /\
    forall v, (locked st v = false -> value st v = s v /\ old st v = s v) /\
              (forall i, has st i v = true -> ph st i = Committing -> value st v = s v) /\
              (forall i, has st i v = true -> ph st i <> Committing -> old st v = s v).
Proof.
  intros P init evs st h H Hp Hc. destruct (serializable_lemma _ _ _ _ H) as (s & Hs & Hrel).
  exists s. split; [exact Hs|]. split; [|exact Hrel]. eapply serial_preserves; eauto.
Qed.

(* no dirty read: the first access of a section to a variable (the one that takes the lock) operates on the
   committed value — the serial store of the sections committed so far — never on a value written by a section
   that has not committed or that aborted *)
Lemma no_dirty_read_lemma : forall init evs st h i v a st' out,
  xrun (init_state init, hist0) evs = Some (st, h) ->
  step st (EAccess i v a) = Some (st', out) -> has st i v = false ->
  exists s, serial init (h_committed h) = Some s /\ value st v = s v /\
            exists nv, exec_acc a (s v) = Some (nv, out).
Proof.
  intros init evs st h i v a st' out H Hs Hh. destruct (serializable_lemma _ _ _ _ H) as (s & Hser & Hrel).
  exists s. split; [exact Hser|].
  assert (Hl : locked st v = false /\ exists nv, exec_acc a (value st v) = Some (nv, out)).
  { unf. step_inv Hs; [congruence|]. simpl in Ec. apply negb_true_iff in Ec. eauto. }
  destruct Hl as (Hl & nv & Hex). destruct (Hrel v) as (Hu & _). destruct (Hu Hl) as [Hv _].
  split; [exact Hv|]. exists nv. now rewrite <- Hv.
Qed.

(* ---- repeatable read: every section's observations, committed, aborted or in progress, are those of a section
   running alone from some store *)
Definition solo (log : list arec) : Prop := exists s0 s1, replay s0 log = Some s1.

Definition is_read (a : acc) : bool := match a with ARead | AIdxRead _ => true | _ => false end.

Lemma replay_reads_keep : forall l s s' v,
  replay s l = Some s' -> (forall r, In r l -> ar_var r = v -> is_read (ar_acc r) = true) -> s' v = s v.
Proof.
  induction l as [|r l IH]; simpl; intros s s' v H Hr; [inversion H; reflexivity|].
  destruct (exec_acc (ar_acc r) (s (ar_var r))) as [[nv out]|] eqn:E; [|discriminate].
  destruct (oval_eqb out (ar_res r)); [|discriminate].
  rewrite (IH _ _ v H) by (intros r' Hr'; apply Hr; now right).
  unfold upd. destruct (Nat.eqb v (ar_var r)) eqn:Ev; [|reflexivity]. apply Nat.eqb_eq in Ev. subst v.
  specialize (Hr r (or_introl eq_refl) eq_refl).
  destruct (ar_acc r); simpl in Hr; try discriminate; simpl in E.
  - inversion E; reflexivity.
  - destruct (s (ar_var r)); [discriminate|]. destruct (kv_get k kvs); [|discriminate]. inversion E; reflexivity.
Qed.

Lemma solo_repeatable : forall log l1 v r1 l2 r2 l3,
  solo log -> log = l1 ++ mkArec v ARead r1 :: l2 ++ mkArec v ARead r2 :: l3 ->
  (forall r, In r l2 -> ar_var r = v -> is_read (ar_acc r) = true) -> r1 = r2.
Proof.
  intros log l1 v r1 l2 r2 l3 (s0 & s1 & H) -> Hr.
  rewrite replay_app in H. destruct (replay s0 l1) as [sa|]; [|discriminate].
  cbn [replay ar_acc ar_var ar_res exec_acc] in H.
  destruct (oval_eqb (Some (sa v)) r1) eqn:E1; [|discriminate]. apply oval_eqb_eq in E1.
  rewrite replay_app in H. destruct (replay (upd sa v (sa v)) l2) as [sb|] eqn:E2; [|discriminate].
  cbn [replay ar_acc ar_var ar_res exec_acc] in H.
  destruct (oval_eqb (Some (sb v)) r2) eqn:E3; [|discriminate]. apply oval_eqb_eq in E3.
  rewrite (replay_reads_keep _ _ _ v E2 Hr) in E3. rewrite upd_same in E3. congruence.
Qed.

Lemma serial_solo : forall l s s', serial s l = Some s' -> forall c, In c l -> solo (sec_log c).
Proof.
  induction l as [|c l IH]; simpl; intros s s' H c' Hc; [destruct Hc|].
  destruct (replay s (sec_log c)) as [s1|] eqn:E; [|discriminate].
  destruct Hc as [<-|Hc]; [now exists s, s1|eapply IH; eauto].
Qed.

Record LInv (st : state) (h : hist) : Prop := {
  li_aborted : forall c, In c (h_aborted h) -> solo (sec_log c);
  li_log : forall i, ph st i <> Active -> h_log h i = []
}.

Lemma linv_step : forall init st h e st' out,
  Inv init st h -> LInv st h -> step st e = Some (st', out) -> LInv st' (hstep st h e out).
Proof.
  intros init st h e st' out [I (s & Hs & R & [Ah Ar])] [La Ll] H.
  assert (Hsolo : forall i, ph st i = Active -> solo (h_log h i)).
  { intros i Hi. destruct (Ar i Hi) as (s' & Hr & _). now exists s, s'. }
  constructor.
  - intros c Hc.
    assert (Hcases : In c (h_aborted h) \/ exists i, ph st i = Active /\ sec_log c = h_log h i).
    { destruct e; cbn [hstep h_aborted] in Hc; auto.
      - apply in_app_iff in Hc as [Hc|[<-|[]]]; [now left|right]. exists i. split; [|reflexivity]. unfold ph. step_inv H; auto.
      - apply in_app_iff in Hc as [Hc|[<-|[]]]; [now left|right]. exists i. split; [|reflexivity]. unfold ph. step_inv H; auto.
      - left. destruct (s_phase (shs st i)); auto. destruct (last_cp i (h_committed h)); auto. }
    destruct Hcases as [Hc'|(i & Hi & ->)]; auto.
  - intros j Hj.
    destruct (Nat.eq_dec j (actor e)) as [->|Hne].
    + destruct e; cbn [actor] in *; unfold ph in *; step_inv H; cbn [shs set_sh set_both] in Hj; rewrite ?upd_same in Hj;
        cbn [s_phase] in Hj; try congruence; cbn [hstep h_log]; rewrite ?upd_same; try reflexivity;
        try (apply Ll; congruence).
      all: rewrite Eph; try destruct (last_cp i (h_committed h)); apply Ll; congruence.
    + assert (Hp : ph st' j = ph st j) by (unfold ph; now rewrite (step_frame _ _ _ _ _ H Hne)).
      rewrite Hp in Hj.
      destruct e; cbn [hstep h_log actor] in *; rewrite ?upd_other by assumption; try (now apply Ll).
      destruct (s_phase (shs st i)); try (now apply Ll). destruct (last_cp i (h_committed h)); now apply Ll.
Qed.

Lemma linv_xrun : forall init evs st h st' h',
  Inv init st h -> LInv st h -> xrun (st, h) evs = Some (st', h') -> LInv st' h'.
Proof.
  induction evs as [|e evs IH]; simpl; intros st h st' h' HI HL H.
  - inversion H; now subst.
  - unfold xstep in H. cbn [fst snd] in H. destruct (step st e) as [[st1 out]|] eqn:E; [|discriminate].
    eapply IH; [| |exact H]; [eapply inv_step; eauto|eapply linv_step; eauto].
Qed.

Lemma all_sections_solo : forall init evs st h,
  xrun (init_state init, hist0) evs = Some (st, h) ->
  (forall c, In c (h_committed h) -> solo (sec_log c)) /\
  (forall c, In c (h_aborted h) -> solo (sec_log c)) /\
  (forall i, solo (h_log h i)).
Proof.
  intros init evs st h H.
  pose proof (inv_xrun _ _ _ _ _ _ (inv_init init) H) as [I (s & Hs & R & [Ah Ar])].
  assert (L0 : LInv (init_state init) hist0) by (constructor; simpl; intros; [contradiction|reflexivity]).
  pose proof (linv_xrun _ _ _ _ _ _ (inv_init init) L0 H) as [La Ll].
  split; [|split]; auto.
  - intros c Hc. eapply serial_solo; eauto.
  - intro i. destruct (phase_eqb (ph st i) Active) eqn:E.
    + assert (Hi : ph st i = Active) by (destruct (ph st i); simpl in E; congruence).
      destruct (Ar i Hi) as (s' & Hr & _). now exists s, s'.
    + rewrite Ll; [now exists init, init|]. intro Hi. rewrite Hi in E. discriminate.
Qed.

Lemma repeatable_read_lemma : forall init evs st h log,
  xrun (init_state init, hist0) evs = Some (st, h) ->
  (exists c, In c (h_committed h ++ h_aborted h) /\ log = sec_log c) \/ (exists i, log = h_log h i) ->
  forall l1 v r1 l2 r2 l3,
    log = l1 ++ mkArec v ARead r1 :: l2 ++ mkArec v ARead r2 :: l3 ->
    (forall r, In r l2 -> ar_var r = v -> is_read (ar_acc r) = true) -> r1 = r2.
Proof.
  intros init evs st h log H Hlog l1 v r1 l2 r2 l3 Hdec Hr.
  destruct (all_sections_solo _ _ _ _ H) as (Hc & Ha & Hl).
  apply (solo_repeatable log l1 v r1 l2 r2 l3); auto.
  destruct Hlog as [(c & Hin & ->)|(i & ->)]; [|apply Hl].
  apply in_app_iff in Hin as [Hin|Hin]; auto.
Qed.

(* ---- no lost update: sections that increment a counter ---- *)
Definition incr_on (v : nat) (log : list arec) : Prop :=
  exists r, log = [mkArec v ARead (Some (VInt r)); mkArec v (AWrite (VInt (r + 1))) None].

Lemma serial_counter : forall v l s s' z,
  (forall c, In c l -> incr_on v (sec_log c)) -> s v = VInt z -> serial s l = Some s' ->
  s' v = VInt (z + Z.of_nat (List.length l)).
Proof.
  induction l as [|c l IH]; intros s s' z Hc Hz H.
  - simpl in *. inversion H; subst. rewrite Hz. f_equal. lia.
  - cbn [serial] in H. destruct (Hc c (or_introl eq_refl)) as (r & Hlog). rewrite Hlog in H.
    cbn [replay ar_acc ar_var ar_res exec_acc] in H. rewrite Hz in H. cbn [oval_eqb val_eqb] in H.
    destruct (Z.eqb z r) eqn:E; [|discriminate]. apply Z.eqb_eq in E. subst r. cbn [oval_eqb] in H.
    rewrite (IH (upd (upd s v (VInt z)) v (VInt (z + 1))) s' (z + 1)%Z).
    + f_equal. cbn [List.length]. lia.
    + intros c' Hc'. apply Hc. now right.
    + now rewrite upd_same.
    + exact H.
Qed.

Lemma no_lost_update_lemma : forall init evs st h v z,
  xrun (init_state init, hist0) evs = Some (st, h) -> (forall i, ph st i = Idle) ->
  init v = VInt z -> (forall c, In c (h_committed h) -> incr_on v (sec_log c)) ->
  value st v = VInt (z + Z.of_nat (List.length (h_committed h))).
Proof.
  intros init evs st h v z H Hidle Hz Hc. destruct (quiescent_lemma _ _ _ _ H Hidle) as (s & Hs & Hq).
  destruct (Hq v) as (_ & Hv & _). rewrite Hv. eapply serial_counter; eauto.
Qed.

(* ---- abort without effect ---- *)
Lemma abort_no_effect_lemma : forall init evs st h i v st' out,
  xrun (init_state init, hist0) evs = Some (st, h) ->
  step st (EAbortRelease i v) = Some (st', out) -> has st i v = true ->
  exists s, serial init (h_committed h) = Some s /\
            h_committed (hstep st h (EAbortRelease i v) out) = h_committed h /\
            locked st' v = false /\ value st' v = s v /\ old st' v = s v /\
            forall w, w <> v -> mgrs st' w = mgrs st w.
Proof.
  intros init evs st h i v st' out H Hs Hh.
  pose proof (inv_xrun _ _ _ _ _ _ (inv_init init) H) as HI.
  pose proof (inv_step _ _ _ _ _ _ HI Hs) as [I' (s' & Hser' & [Ru' _ _] & _)].
  destruct HI as [I (s & Hser & _)]. cbn [hstep h_committed] in Hser'. rewrite Hser in Hser'. inversion Hser'; subst s'.
  exists s. split; [exact Hser|]. split; [reflexivity|].
  assert (Hl : locked st' v = false /\ forall w, w <> v -> mgrs st' w = mgrs st w).
  { unf. step_inv Hs; [|congruence]. cbn [mgrs set_both]. rewrite upd_same. split; [reflexivity|].
    intros w Hw. now rewrite upd_other. }
  destruct Hl as [Hl Hfr]. destruct (Ru' v Hl) as [Hv Ho]. auto.
Qed.

(* the serial history grows only at commit points: no other event (in particular nothing an aborting section does) changes it *)
Lemma committed_only_at_commit : forall st h e out,
  (forall i, e <> ECommitStart i) -> h_committed (hstep st h e out) = h_committed h.
Proof.
  intros st h e out He. destruct e; try reflexivity.
  - exfalso. now apply (He i).
  - cbn [hstep]. destruct (s_phase (shs st i)); try reflexivity. destruct (last_cp i (h_committed h)); reflexivity.
Qed.

Lemma serializable_realtime_lemma : forall init evs st h,
  xrun (init_state init, hist0) evs = Some (st, h) ->
  (exists s, serial init (h_committed h) = Some s /\
    forall v, (locked st v = false -> value st v = s v /\ old st v = s v) /\
              (forall i, has st i v = true -> ph st i = Committing -> value st v = s v) /\
              (forall i, has st i v = true -> ph st i <> Committing -> old st v = s v)) /\
  StronglySorted (fun a b => sec_cp a < sec_cp b) (h_committed h) /\
  (forall a, In a (h_committed h) ->
      sec_begin a < sec_cp a /\ nth_error evs (sec_begin a) = Some (EBegin (sec_sharer a)) /\
      nth_error evs (sec_cp a) = Some (ECommitStart (sec_sharer a))) /\
  (forall i c e, In (i, c, e) (h_ends h) -> c < e /\ nth_error evs e = Some (EEnd i) /\
      exists a, In a (h_committed h) /\ sec_sharer a = i /\ sec_cp a = c) /\
  (forall a b e, In a (h_committed h) -> In b (h_committed h) ->
      In (sec_sharer a, sec_cp a, e) (h_ends h) -> e < sec_begin b ->
      exists l1 l2 l3, h_committed h = l1 ++ a :: l2 ++ b :: l3).
Proof. intros init evs st h H. split; [apply (serializable_lemma init evs st h H)|apply (realtime_lemma init evs st h H)]. Qed.
