(* C07 — proofs, part 1: structural invariant, strict two-phase locking, isolation, no deadlock. *)
From PGV Require Import C07.Model.
From Coq Require Import Lia.

(* ------------------------------------------------------------------ small facts *)

Lemma upd_same : forall A (f : nat -> A) k x, upd f k x k = x.
Proof. intros. unfold upd. now rewrite Nat.eqb_refl. Qed.

Lemma upd_other : forall A (f : nat -> A) k x n, n <> k -> upd f k x n = f n.
Proof. intros A f k x n Hn. unfold upd. destruct (Nat.eqb n k) eqn:E; [apply Nat.eqb_eq in E; contradiction|reflexivity]. Qed.

Ltac upd_tac :=
  repeat match goal with
  | |- context [upd _ ?k _ ?k] => rewrite upd_same
  | H : context [upd _ ?k _ ?k] |- _ => rewrite upd_same in H
  | Hn : ?n <> ?k |- context [upd _ ?k _ ?n] => rewrite (upd_other _ _ k _ n Hn)
  | Hn : ?n <> ?k, H : context [upd _ ?k _ ?n] |- _ => rewrite (upd_other _ _ k _ n Hn) in H
  | Hn : ?k <> ?n |- context [upd _ ?k _ ?n] => rewrite (upd_other _ _ k _ n (not_eq_sym Hn))
  | Hn : ?k <> ?n, H : context [upd _ ?k _ ?n] |- _ => rewrite (upd_other _ _ k _ n (not_eq_sym Hn)) in H
  end.

Lemma mem_In : forall v l, mem v l = true <-> In v l.
Proof.
  induction l as [|x l IH]; simpl; [split; [discriminate|tauto]|].
  rewrite orb_true_iff, IH, Nat.eqb_eq. split; intros [H|H]; auto.
Qed.

Lemma add_In : forall x v l, In x (add v l) <-> x = v \/ In x l.
Proof.
  intros x v l. unfold add. destruct (mem v l) eqn:E.
  - apply mem_In in E. split; [auto|intros [->|H]; auto].
  - rewrite in_app_iff. simpl. split.
    + intros [H|[H|[]]]; auto.
    + intros [H|H]; auto.
Qed.

Lemma add_NoDup : forall v l, NoDup l -> NoDup (add v l).
Proof.
  intros v l H. unfold add. destruct (mem v l) eqn:E; [exact H|].
  assert (Hn : ~ In v l) by (intro Hi; apply mem_In in Hi; congruence).
  clear E. induction H as [|x l Hx Hl IH]; simpl; [constructor; [tauto|constructor]|].
  constructor.
  - rewrite in_app_iff. simpl. intros [Hi|[Hi|[]]]; [tauto|subst; apply Hn; now left].
  - apply IH. intro Hi. apply Hn. now right.
Qed.

Lemma remove_In : forall x v l, In x (remove v l) <-> x <> v /\ In x l.
Proof.
  induction l as [|y l IH]; simpl; [tauto|].
  destruct (Nat.eqb v y) eqn:E.
  - apply Nat.eqb_eq in E. subst y. rewrite IH. split; [tauto|intros [Hn [H|H]]; [congruence|tauto]].
  - apply Nat.eqb_neq in E. simpl. rewrite IH. split.
    + intros [H|H]; [subst; split; [congruence|auto]|tauto].
    + tauto.
Qed.

Lemma remove_NoDup : forall v l, NoDup l -> NoDup (remove v l).
Proof.
  induction 1 as [|x l Hx Hl IH]; simpl; [constructor|].
  destruct (Nat.eqb v x); [exact IH|]. constructor; [|exact IH].
  rewrite remove_In. tauto.
Qed.

Lemma remove_notin : forall v l, ~ In v l -> remove v l = l.
Proof.
  induction l as [|x l IH]; simpl; intros H; [reflexivity|].
  destruct (Nat.eqb v x) eqn:E; [apply Nat.eqb_eq in E; subst; tauto|].
  f_equal. apply IH. tauto.
Qed.

Lemma kvs_eqb_eq : forall a b, kvs_eqb a b = true -> a = b.
Proof.
  induction a as [|[k x] a IH]; destruct b as [|[k' x'] b]; simpl; intros H; try discriminate; [reflexivity|].
  apply andb_true_iff in H as [H H3]. apply andb_true_iff in H as [H1 H2].
  apply Z.eqb_eq in H1, H2. subst. f_equal. now apply IH.
Qed.

Lemma kvs_eqb_refl : forall a, kvs_eqb a a = true.
Proof. induction a as [|[k x] a IH]; simpl; [reflexivity|]. now rewrite !Z.eqb_refl, IH. Qed.

Lemma val_eqb_eq : forall a b, val_eqb a b = true -> a = b.
Proof.
  destruct a, b; simpl; intros H; try discriminate.
  - apply Z.eqb_eq in H. now subst.
  - apply kvs_eqb_eq in H. now subst.
Qed.

Lemma val_eqb_refl : forall a, val_eqb a a = true.
Proof. destruct a; simpl; [apply Z.eqb_refl|apply kvs_eqb_refl]. Qed.

Lemma oval_eqb_eq : forall a b, oval_eqb a b = true -> a = b.
Proof. destruct a, b; simpl; intros H; try discriminate; [apply val_eqb_eq in H; now subst|reflexivity]. Qed.

Lemma oval_eqb_refl : forall a, oval_eqb a a = true.
Proof. destruct a; simpl; [apply val_eqb_refl|reflexivity]. Qed.

(* ------------------------------------------------------------------ accessors *)

Definition has (st : state) (i v : nat) : bool := s_has (shs st i) v.
Definition ph (st : state) (i : nat) : phase := s_phase (shs st i).
Definition dirty (st : state) (i : nat) : list nat := s_dirty (shs st i).
Definition locked (st : state) (v : nat) : bool := m_locked (mgrs st v).
Definition value (st : state) (v : nat) : val := m_value (mgrs st v).
Definition old (st : state) (v : nat) : val := m_old (mgrs st v).

(* ------------------------------------------------------------------ runs *)

Lemma run_app : forall evs1 evs2 st st1 o1,
  run st evs1 = Some (st1, o1) ->
  run st (evs1 ++ evs2) = match run st1 evs2 with Some (st2, o2) => Some (st2, o1 ++ o2) | None => None end.
Proof.
  induction evs1 as [|e evs1 IH]; simpl; intros evs2 st st1 o1 H.
  - inversion H; subst. destruct (run st1 evs2) as [[? ?]|]; reflexivity.
  - destruct (step st e) as [[st' out]|]; [|discriminate].
    destruct (run st' evs1) as [[st'' outs]|] eqn:E; [|discriminate].
    inversion H; subst. rewrite (IH evs2 _ _ _ E).
    destruct (run st1 evs2) as [[? ?]|]; reflexivity.
Qed.

Lemma run_app_inv : forall evs1 evs2 st st2 o,
  run st (evs1 ++ evs2) = Some (st2, o) ->
  exists st1 o1 o2, run st evs1 = Some (st1, o1) /\ run st1 evs2 = Some (st2, o2) /\ o = o1 ++ o2.
Proof.
  induction evs1 as [|e evs1 IH]; simpl; intros evs2 st st2 o H.
  - exists st, [], o. auto.
  - destruct (step st e) as [[st' out]|]; [|discriminate].
    destruct (run st' (evs1 ++ evs2)) as [[st'' outs]|] eqn:E; [|discriminate].
    inversion H; subst. destruct (IH _ _ _ _ E) as (st1 & o1 & o2 & H1 & H2 & ->).
    exists st1, (out :: o1), o2. rewrite H1. auto.
Qed.

Definition reachable (init : nat -> val) (st : state) : Prop :=
  exists evs outs, run (init_state init) evs = Some (st, outs).

Lemma reachable_step : forall init st e st' out,
  reachable init st -> step st e = Some (st', out) -> reachable init st'.
Proof.
  intros init st e st' out (evs & outs & H) Hs. exists (evs ++ [e]), (outs ++ [out]).
  rewrite (run_app _ _ _ _ _ H). simpl. now rewrite Hs.
Qed.

Lemma reachable_run : forall init st evs st' outs,
  reachable init st -> run st evs = Some (st', outs) -> reachable init st'.
Proof.
  intros init st evs st' outs (evs0 & outs0 & H) Hr. exists (evs0 ++ evs), (outs0 ++ outs).
  rewrite (run_app _ _ _ _ _ H). now rewrite Hr.
Qed.

(* ------------------------------------------------------------------ structural invariant *)

Record SInv (st : state) : Prop := {
  si_excl : forall i j v, has st i v = true -> has st j v = true -> i = j;
  si_haslock : forall i v, has st i v = true -> locked st v = true;
  si_hasdirty : forall i v, has st i v = true -> In v (dirty st i);
  si_idle : forall i, ph st i = Idle -> dirty st i = [];
  si_nodup : forall i, NoDup (dirty st i);
  si_clean : forall v, locked st v = false -> value st v = old st v
}.

Lemma sinv_init : forall init, SInv (init_state init).
Proof.
  intro init. constructor; unfold has, locked, dirty, ph, value, old; simpl; intros; try discriminate; auto.
  constructor.
Qed.

(* inversion of one step: every case, with the facts the code path establishes *)
Ltac step_inv H :=
  match type of H with
  | step ?st ?e = Some _ =>
      destruct e; cbn [step] in H;
      repeat match type of H with
      | context [match s_phase ?s with _ => _ end] => let E := fresh "Eph" in destruct (s_phase s) eqn:E; try discriminate H
      | context [match s_dirty ?s with _ => _ end] => let E := fresh "Edirty" in destruct (s_dirty s) eqn:E; try discriminate H
      | context [if ?c then _ else _] => let E := fresh "Ec" in destruct c eqn:E; try discriminate H
      | context [match exec_acc ?a ?x with _ => _ end] => let E := fresh "Eex" in destruct (exec_acc a x) as [[? ?]|] eqn:E; try discriminate H
      end;
      inversion H; subst; clear H
  end.

Lemma sinv_step : forall st e st' out, SInv st -> step st e = Some (st', out) -> SInv st'.
Proof.
  intros st e st' out I H.
  destruct I as [Iex Ihl Ihd Iid Ind Icl].
  unfold has, locked, dirty, ph, value, old in *.
  step_inv H; constructor; unfold has, locked, dirty, ph, value, old; cbn [mgrs shs set_sh set_both s_has s_phase s_dirty m_locked m_value m_old];
    intros;
    repeat match goal with
    | H : context [upd _ ?k _ ?n] |- _ =>
        lazymatch n with k => rewrite upd_same in H | _ => destruct (Nat.eq_dec n k); [subst n; rewrite upd_same in H | rewrite (upd_other _ _ k _ n) in H by assumption] end
    | |- context [upd _ ?k _ ?n] =>
        lazymatch n with k => rewrite upd_same | _ => destruct (Nat.eq_dec n k); [subst n; rewrite upd_same | rewrite (upd_other _ _ k _ n) by assumption] end
    end;
    cbn [s_has s_phase s_dirty m_locked m_value m_old] in *;
    try discriminate; try congruence; eauto 3;
    try (apply add_In; eauto; fail);
    try (apply add_NoDup; eauto; fail);
    try (apply remove_NoDup; eauto; fail);
    try (constructor; fail).
  all: try (match goal with H : s_phase _ = Idle |- _ => rewrite H in *; discriminate end).
  all: try (apply remove_In; split; [congruence|eauto]; fail).
  all: try (exfalso; match goal with
       | Hl : forall i v, s_has (shs st i) v = true -> m_locked (mgrs st v) = true, Hh : s_has (shs st ?j) ?v = true |- _ =>
           pose proof (Hl _ _ Hh); apply orb_true_iff in Ec as [Ec|Ec]; [|apply negb_true_iff in Ec]; congruence end).
Qed.
